#!/bin/bash
# all_seeds_par.sh [workers]: re-runs every kept seeded change against its quick check, several properties at a time, each worker on its own
# scratch copy of the repository (a git worktree of /repo's HEAD under /tmp, removed afterwards); /repo itself is not touched.
# One worker handles whole properties, so evidence and replay files of one property are never written by two checks at once.
cd /verif
W=${1:-4}
props=$(ls seeded | sed 's/-.*//' | sort -u)
i=0
for w in $(seq 0 $((W-1))); do
  git -C /repo worktree remove --force /tmp/rp_$w 2>/dev/null
  git -C /repo worktree add -q --detach /tmp/rp_$w HEAD
done
for w in $(seq 0 $((W-1))); do
  (
    k=0
    for p in $props; do
      if [ $((k % W)) -eq $w ]; then
        for d in seeded/$p-*/; do
          id=$(basename $d)
          r=$(VERIF_REPO=/tmp/rp_$w /venv/bin/python tools/try_seed.py $p /verif/$d 2>&1 | grep -E '"caught"' | tr -d ' ,')
          echo "$id $r"
        done
      fi
      k=$((k+1))
    done
  ) > /tmp/all_seeds_par_$w.out 2>&1 &
done
wait
for w in $(seq 0 $((W-1))); do git -C /repo worktree remove --force /tmp/rp_$w; done
cat /tmp/all_seeds_par_*.out | sort
