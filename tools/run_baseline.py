#!/venv/bin/python
"""Runs the repository's baseline suite in REPO (default /repo) and reports stable-pass tests that no longer pass.
usage: run_baseline.py [repo_dir]"""
import json, os, subprocess, sys, tempfile, xml.etree.ElementTree as ET
repo = sys.argv[1] if len(sys.argv) > 1 else '/repo'
base = json.load(open('/root/.vp/BASELINE.json'))
want = set(base['stable_pass'])
out = tempfile.mktemp(suffix='.xml')
env = dict(os.environ)
env.pop('GOOGLE_FLAX_VERIF', None)
env['PYTHONPATH'] = repo
p = subprocess.run(['/venv/bin/python', '-m', 'pytest', '-q', '-p', 'no:cacheprovider', '--timeout=900', '--continue-on-collection-errors',
                    '-x' if False else '-q', '--junitxml=' + out, '-n', '8'] if False else
                   ['/venv/bin/python', '-m', 'pytest', '-q', '-p', 'no:cacheprovider', '--timeout=900', '--continue-on-collection-errors', '--junitxml=' + out],
                   cwd=repo, env=env, stdout=subprocess.PIPE, stderr=subprocess.STDOUT, text=True)
passed = set()
for tc in ET.parse(out).getroot().iter('testcase'):
  if not list(tc):
    passed.add('%s::%s' % (tc.get('classname'), tc.get('name')))
missing = sorted(want - passed)
print('stable_pass: %d, passing now: %d, regressions: %d' % (len(want), len(want & passed), len(missing)))
for m in missing[:40]:
  print('  REGRESSION', m)
os.remove(out)
sys.exit(1 if missing else 0)
