#!/bin/bash
# try_new_seeds.sh <dir> <props...>: runs tools/try_seed.py on <dir>/<prop>/{a,b} (candidates delivered by seeding agents)
cd /verif
base=$1; shift
for p in "$@"; do
  for x in a b; do
    d=$base/$p/$x
    [ -f $d/patch.diff ] || continue
    r=$(/venv/bin/python tools/try_seed.py $p $d 2>&1 | tr '\n' ' ')
    echo "$p/$x $r"
  done
done
git -C /repo status --short | head -3
