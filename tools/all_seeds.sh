#!/bin/bash
# all_seeds.sh: re-runs every kept seeded change against its quick check (applies the patch to /repo, restores it afterwards)
cd /verif
for d in seeded/*/; do
  id=$(basename $d); prop=${id%%-*}
  r=$(/venv/bin/python tools/try_seed.py $prop /verif/$d 2>&1 | grep -E '"caught"' | tr -d ' ,')
  echo "$id $r"
done
git -C /repo status --short | head -3
