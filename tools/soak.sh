#!/bin/bash
# soak.sh "<ids>" "<seeds>" [tier]: runs the checks with several seeds, prints one line per run
cd /verif
for id in $1; do for s in $2; do
  out=$(VERIF_SEED=$s timeout 3000 ./check $id --tier ${3:-quick} 2>&1 | grep -E "^(OK|VIOLATION)" | tail -1)
  echo "$id seed=$s $out"
done; done
