#!/venv/bin/python
"""Regenerates the tables of DESIGN.md (section 5 per-property entries, 6 findings, 7 seeded changes) from MANIFEST.json,
known_findings.json and seeded/*/meta.json, and splices them between the hand-written parts kept in tools/design_*.md."""
import glob, json, os, re
HERE = os.path.dirname(os.path.dirname(os.path.abspath(__file__)))
man = json.load(open(os.path.join(HERE, 'MANIFEST.json')))
known = json.load(open(os.path.join(HERE, 'known_findings.json')))['findings']
props = {}
for l in open(os.path.join(HERE, 'properties.jsonl')):
  d = json.loads(l)
  props[d['id']] = d
out = [open(os.path.join(HERE, 'tools', 'design_head.md')).read()]
out.append('## 5. Per property: model, theorems, correspondence, what is not proved\n')
out.append('For every property the Coq files are `coq/Model/*.v` (definitions only), `coq/Proofs/*.v` and `coq/Props/<id>.v` (statements closed by `exact`, each followed by '
           '`Print Assumptions`; all print "Closed under the global context"). The harness files are `harness/<id>.py` (generator, oracles, rendering of cases as Coq terms) and '
           '`harness/impl_<id>.py` (runs the real flax). "PARTIAL" marks properties for which part of the sentence is decided per run (correspondence / oracle) and not by a theorem.\n')
for c in man['checks']:
  pid = c['property_id']
  pf = os.path.join(HERE, 'coq', 'Props', pid + '.v')
  src = open(pf).read()
  thms = re.findall(r'^Theorem (\w+)', src, re.M)
  exs = re.findall(r'^Example (\w+)', src, re.M)
  out.append('### %s — %s\n' % (pid, props[pid]['title']))
  out.append('*Level claimed.* %s\n' % c['level_claimed']['text'])
  out.append('*Technique.* %s\n' % c.get('technique', ''))
  out.append('*Theorems in `Props/%s.v`.* %s. *Examples (non-vacuity / refutations).* %s.\n' % (pid, ', '.join('`%s`' % t for t in thms), ', '.join('`%s`' % t for t in exs)))
  out.append('*Trusted / not covered.* %s\n' % c.get('level_note', ''))
  kf = [k for k in known if k['property'] == pid]
  if kf:
    out.append('*Findings.* ' + '; '.join('%s (%s%s)' % (k['key'], k['status'], (' ' + k['commit']) if k.get('commit') else '') for k in kf) + '.\n')
  sd = [os.path.basename(os.path.dirname(m)) for m in sorted(glob.glob(os.path.join(HERE, 'seeded', pid + '-*', 'meta.json')))]
  if sd:
    out.append('*Seeded changes this check catches.* ' + ', '.join('`%s`' % s for s in sd) + ' (section 7).\n')
out.append('\n## 6. Defects found on the unchanged tree\n')
out.append('Every entry was reproduced on the real code with the witness given in `known_findings.json`. "fixed" entries are `fix:` commits in /repo (the 427-test baseline passes after each); they '
           'suppress nothing: each has a probe or generated cases in its check that fail again if the defect returns. "known" entries are printed as `KNOWN-FINDING:` lines by the check and '
           'identified by their key; any other violation of the same property is still reported.\n')
out.append('| id | property | status | what fails |')
out.append('|---|---|---|---|')
for k in known:
  out.append('| %s | %s | %s%s | %s |' % (k['key'], k['property'], k['status'], (' `%s`' % k['commit']) if k.get('commit') else '', (k.get('line') or k.get('description', '')).replace('|', '/').replace('\n', ' ')[:600]))
out.append('\n## 7. Seeded changes (realistic breakage produced by sub-agents that saw only the property text and a scratch worktree)\n')
out.append('Each change compiles, passes the 427-test baseline, breaks the property only under something specific and comes with a demonstration that fails with it and passes without it '
           '(`seeded/<id>/{patch.diff, demo.py, notes.md, meta.json}`). `tools/try_seed.py <property> <dir>` applies a patch to /repo, requires the demo to exit 1 and the quick check to print '
           'VIOLATION, restores the tree and requires the demo to exit 0. "missed at first" entries led to a strengthening of the generator or of an oracle, described in the entry; all of them are '
           'caught by the quick checks as committed. Ten rounds of seeding produced them (several agents per round, two changes per agent; exact duplicates of an archived change were '
           'dropped, the same edit seen from a second property was kept under that property). `tools/all_seeds_par.sh` re-runs all of them on scratch copies of the repository: in the '
           'sweep after round 9 (VERIF_SEED=0, 168 changes) 163 were caught as committed at that point; the other five led to (i) three families being made systematic instead of '
           'random, because the change was caught for most seeds only (a deterministic loop-structure probe in C04, tangents for collections mutable in the enclosing apply in every '
           'other jvp case of C07, a sweep of the CIRCULAR ConvTranspose alignment in C12), and (ii) two patches being re-generated because a later `fix:` commit had moved the lines '
           'they touch (the originals are kept as `patch_orig.diff`). Detection by a quick tier is a matter of the generated cases: a family that is random may miss a change for an '
           'unlucky seed; the thorough tier multiplies the case counts. A sweep with VERIF_SEED=1 then caught 167 of 168 (the one miss became the deterministic long-list probe of C04), and the final sweep after round 10 (VERIF_SEED=0, all 185 changes, checks as committed) caught all 185.\n')
out.append('| change | property | how it is caught |')
out.append('|---|---|---|')
for m in sorted(glob.glob(os.path.join(HERE, 'seeded', '*', 'meta.json'))):
  j = json.load(open(m))
  out.append('| %s | %s | %s |' % (os.path.basename(os.path.dirname(m)), j['property'], j['detection'].replace('|', '/').replace('\n', ' ')[:700]))
out.append(open(os.path.join(HERE, 'tools', 'design_tail.md')).read())
open(os.path.join(HERE, 'DESIGN.md'), 'w').write('\n'.join(out))
print('DESIGN.md written', sum(len(x) for x in out))
