#!/venv/bin/python
"""try_seed.py <property> <seed_dir> [--tier quick]: applies seed_dir/patch.diff to /repo, runs seed_dir/demo.py (must exit 1)
and the property's check (should report a violation), then restores /repo and re-runs the demo (must exit 0)."""
import json, os, subprocess, sys
prop, sd = sys.argv[1], sys.argv[2]
REPO = os.environ.get('VERIF_REPO', '/repo')     # a scratch copy of the repository when several seeds are tried in parallel
tier = sys.argv[sys.argv.index('--tier') + 1] if '--tier' in sys.argv else 'quick'
env = dict(os.environ, PYTHONPATH=REPO + ':/verif/harness', JAX_PLATFORMS='cpu')
def sh(cmd, **kw):
  return subprocess.run(cmd, shell=True, stdout=subprocess.PIPE, stderr=subprocess.STDOUT, text=True, **kw)
assert sh('git -C %s status --porcelain' % REPO).stdout.strip() == '', 'repository copy not clean'
r = sh('git -C %s apply %s/patch.diff' % (REPO, sd))
assert r.returncode == 0, r.stdout
res = {}
try:
  d = sh('cd %s && /venv/bin/python %s/demo.py' % (REPO, sd), env=env)
  res['demo_with_patch_exit'] = d.returncode
  c = sh('cd /verif && ./check %s --tier %s' % (prop, tier))
  res['check_exit'] = c.returncode
  res['check_tail'] = c.stdout.strip().splitlines()[-4:]
finally:
  sh('git -C %s checkout -- .' % REPO)
d = sh('cd %s && /venv/bin/python %s/demo.py' % (REPO, sd), env=env)
res['demo_clean_exit'] = d.returncode
res['caught'] = res['check_exit'] == 1 and any('VIOLATION' in l for l in res['check_tail'])
print(json.dumps(res, indent=1))
