#!/venv/bin/python
"""Regenerates MANIFEST.json from the table below (one entry per property that has a working check)."""
import json, os
HERE = os.path.dirname(os.path.dirname(os.path.abspath(__file__)))
ALL = ['C%02d' % i for i in range(1, 21)]
CLAIMED = {
  'C01': dict(
    text='A reference semantics of Linen compact modules over flax.core.Scope written from the code (reservations and name clashes, push/rewound, _collection/_mutable_collection, '
         'param/variable/put_variable/sow/perturb/make_rng with their error classes, counters shared per scope path, autoname cursor, repeated calls of an instance, int64 arithmetic) as a '
         'fuelled interpreter of a module-program language. Proved for every program, filter, variables and input: collections not selected by `mutable` come out exactly as they went in, no '
         'collection disappears, what apply returns are exactly the final collections matching `mutable`; a write to an immutable collection is EModifyScope, an uninitialisable parameter '
         'raises, sow into an immutable collection is a no-op; observation is inert - for a collection used by sow only, taking it out of `mutable` gives the same output and the same '
         'contents of every other collection (a two-run non-interference simulation; the converse is refuted, as in the code: a sown name is reserved only when something is stored); perturb '
         'without a perturbation collection returns its argument. Tied to /repo per run: random programs through real Modules (init, init_with_output, apply, 1-3 repeats, dict/FrozenDict), '
         'outputs, returned trees and error classes compared in Coq; identity-level purity of inputs and observation features by oracle.',
    note='Trusted: Coq kernel, vm_compute, harness (program interpreter ProgBase), jaxcompat. Not in the program grammar: setup-style modules, bind/unbind, methods other than __call__; '
         'capture_intermediates is checked by oracle only. Object identity of inputs is oracle-only. No axioms.',
    technique='Coq proof (frame invariant and two-run non-interference simulation by induction over the fuelled interpreter) + per-run model-vs-implementation correspondence by vm_compute',
    ref='DESIGN.md section 5, C01'),
  'C02': dict(
    text='On the Linen reference semantics of C01 (grammar limits in the note), proved for all programs, states and inputs: the variables returned by init are what apply consumes - for every module program that '
         'declares, sows and perturbs but never overwrites a variable, re-running it on the variables its first run left (any `mutable`, any starting variables, [] for init) with the same '
         'input and nothing mutable returns the same output, finds every parameter and variable, runs no initialiser and returns the variables unchanged (a two-run simulation: values '
         'read the second time are the values read or created the first time, because declarations, sow and perturb only extend the tree; refuted with a witness for programs that '
         'overwrite); a clash between two submodules, a submodule and a variable, or two variables of one collection is NameInUse while the same name in two collections is allowed; a missing '
         'parameter under an immutable params collection raises (ScopeParamNotFound / ScopeCollectionNotFound) and a wrongly shaped one raises ScopeParamShapeError, never a '
         're-initialisation; the k-th unnamed child of class K is named K_k under the parent path; a submodule applied on its own sub-tree computes what it computes inside its parent - running '
         'a module at scope path p on a tree V and at the root on the dicts V holds at p give the same output, and the variables the standalone run leaves at q are those the inner run leaves '
         'at p ++ q (a simulation under a path-prefix relation, for any split of the path); shape-only initialisation agrees with concrete init - nothing a module program decides depends on the values arrays hold, only on their shapes: for inputs of the same shape and variable trees of the same structure and shapes, init / apply fail with the same error or leave outputs, variable trees, rng counters and traces of the same structure and shapes (a lock-step two-run simulation under a shape relation over every statement of the interpreter; a shape-only run is a run on an abstract array carrying exactly the shape). That eval_shape / jit / lazy_init of the real code ARE such runs, dtypes, '
         'and modules passed as attributes and shared between parents are decided per run by the correspondence (the executable model predicts each of these runs) and by '
         'implementation oracles.',
    note='Trusted: Coq kernel, vm_compute, harness, jaxcompat. Idealised, not proved: that jax tracing (eval_shape / jit / lazy_init) evaluates the program on a value that carries exactly the shape (the shape-agreement theorem is about two concrete runs); dtypes are not in the model; RNG keys differ between the standalone and the inner run by design (they are a function of the scope path). A write below a leaf (a variable where a scope '
         'dict is expected) is an error in the model as in the code. Not in the program grammar: setup-style modules, bind/unbind, lists of submodules, share_scope. lazy_init is only '
         'compared for programs without input-dependent variable writes (documented LazyInitError). No axioms.',
    technique='Coq proof (two-run simulation over the fuelled interpreter, tree-extension invariant, step-level facts) + per-run model-vs-implementation correspondence by vm_compute + implementation oracles',
    ref='DESIGN.md section 5, C02'),
  'C03': dict(
    text='A Gallina model of flax.nnx.graph written from the code (flatten with the identity-keyed ref_index and back references, unflatten with create-empty-then-fill, first-match split, '
         'merge sorting by path, update, _graph_pop, Object and list/tuple/dict node implementations). Proved for every heap and root, cycles / self references / shared Variables / nested '
         'containers included: unflatten(flatten(g)) is a graph isomorphism (one fresh cell per reachable object, references renamed by an injective numbering), hence the same paths exist '
         'with the same shapes and two paths reach one object afterwards iff they did before; a filtered split is a partition by first match (raises when not exhaustive); merge does not '
         'depend on the order of the states; flatten emits leaves in strictly increasing path order when sibling keys are sorted, so a split merged back in any order is the round trip; '
         '(graphdef, leaves) is a canonical form (invariant under any injective renaming of the objects; flatten after unflatten is the identity); flatten is total on every closed heap (the '
         'traversal terminates within the fuel the model gives itself because an object is entered only while it is not in ref_index: a termination proof, so the round-trip theorems hold for every closed graph); update changes no node and keeps every Variable at its location and type, last write wins; pop (PARTIAL) only removes attributes holding selected Variables. Tied to /repo per '
         'run: random graphs built from real nnx Modules/Variables; graphdef, leaves, buckets, update and pop results compared in Coq; isomorphism / freshness / clone / identity by an '
         'independent canonical-form oracle.',
    note='Trusted: Coq kernel, vm_compute, harness (graph encoder impl_graph.py, canonical form), jaxcompat. Containers (list/tuple/dict) have value semantics in model and code: a container '
         'shared by two attributes is duplicated (known finding F9). pop leaves aliases of a popped Variable in place (known finding F19), so "removes exactly the selected Variables" is '
         'proved only as: nothing else is removed and everything returned was selected. clone, "g is left untouched", a second merge of the same states after in-place edits of the first copy and Variables with value hooks (update / split / merge move raw values) are oracle-checked (the model is purely functional). No axioms.',
    technique='Coq proof (joint flatten/unflatten invariant by fuel induction, termination by an unvisited-weight measure, partition and sorting lemmas) + per-run model-vs-implementation correspondence by vm_compute',
    ref='DESIGN.md section 5, C03'),
  'C04': dict(
    text='A Gallina model of the UpdateContext protocol behind nnx.jit / remat / cond / switch / while_loop / fori_loop / cached_partial (outer split with one ref_index for all arguments, inner '
         'merge, inner split carrying outer indices, outer merge re-using the caller\'s objects) and of a language of functions on object graphs (reads, Variable updates with int64 arithmetic, replacement of the metadata of a Variable, '
         'setattr of statics / aliases / new Variables / new nodes, delattr). PROVED for every function of the language, heap, tuple of possibly aliased arguments and number of applications '
         'of the body: whenever the eager run and the protocol run both complete they are observed alike -- same returned value, same graph of (arguments, returned object) as graphdef + '
         'leaves, and every object is the same one of the caller\'s original objects in both (C04_ctx_equals_eager; value-only variant for cond / switch / loops). The proof goes through a '
         'step-by-step simulation between the caller\'s heap and the inner copy, the write-back isomorphism (copies return into the very objects they were copied from, new objects get fresh '
         'locations, nothing else is touched) and the invariance of flatten under isomorphism. Tied to /repo per run: random graphs x aliased argument tuples (positional and keyword) x '
         'functions x transforms x call histories re-using the transformed function; the model\'s eager and protocol runs are both compared in Coq with the real eager call and the real transform.',
    note='Trusted: Coq kernel, vm_compute, harness (function interpreter, canonical form), jaxcompat, JAX tracing / lax control flow / jit cache. NOT proved: that the protocol run completes '
         'whenever the eager run does (fuel sufficiency of the model\'s flatten) and that JAX evaluates the traced function like Python; decided per run. Loops are modelled as one protocol run '
         'around the k-fold body. cached_partial: value updates, and exactly-one-structural-edit cases that must raise; graphs without array attributes (known findings F16 stale clone, F20 '
         'array attributes); F21 (aliased cached arguments, KeyError) and F35 (nnx.jit dropped edits of Variable metadata) found by this check and fixed. Edits of Variable metadata are a statement of the function language of the model (MSetMeta: the write-back theorems cover them; generated under jit / remat / eager); long lists / digit-keyed dicts, metadata edits under cond / switch and loop bodies that change which object an attribute holds are oracle families (lifted vs eager on the real code). pmap / shard_map / custom_vjp / eval_shape not run. No axioms.',
    technique='Coq proof (simulation between the caller\'s heap and the inner copy by induction over the function body; joint invariant of flatten and placed unflatten by fuel induction; '
              'invariance of flatten under heap isomorphism) + per-run model-vs-implementation correspondence by vm_compute',
    ref='DESIGN.md section 5, C04'),
  'C05': dict(
    text='PARTIAL. Proved, for every transformed function, filters and variables, about a Gallina model of lift.pack (the building block of all lifted transforms: group_collections, inner '
         'mutability = scope.mutable /\\ out filters /\\ mutable_filter, repack, publish_results): the function sees exactly the collections a `variables` filter matches (first match); collections '
         'that are not lifted / not mutable / not selected for output come out untouched; "unmapped output variables" is unreachable; with default filters it runs on the caller\'s own '
         'variables and mutability and its writes come back entry by entry; and, on the Linen reference semantics, an identity lift is transparent for every module program, scope path, input and '
         'variables - running the child as a root on the dicts its scope holds and writing what it leaves back under the scope gives the output and the tree of the plain run, and a module '
         'never changes a value outside its scope path (two simulations over the fuelled interpreter); lift.cond / lift.switch / lift.while_loop on top of pack (Model/LiftCtl.v: every branch traced on its own inner scope and required to agree in structure, the index clamped, carried collections threaded through repack with the structure check of lax.while_loop, condition and body traced once whatever the trip count, publish): a successful switch / cond with variables=True is the selected branch run on the scope itself (same result, entry-wise the same variables) for every function written against the Scope API; a successful while_loop with broadcast_variables=True is the Python loop on the scope in which the body may mutate exactly the carried collections the caller may mutate - same final carry and variables, every trip count, every condition / body that observes variables entry by entry and leaves immutable collections alone (a simulation with the invariant carry ++ broadcast = current scope, then publish = what the loop left), and conversely - when the Python loop succeeds, the body keeps the structure of the collections it may mutate and its traced first evaluation succeeds, the lifted loop succeeds with the same carry and variables -, in particular for every program of the statement language the correspondence runs; collections not carried / not mutable come out untouched whatever the body does. Tied to /repo per run: C01 module programs with nn.jit / nn.remat / identity nn.map_variables children (explicit '
         'and automatic names) and nn.cond / nn.switch / nn.while_loop statements, init + 1-3 applies with changing mutable filters, static attributes and variable structure; each lifted '
         'run is compared in Coq with Model/Linen.v on the plain equivalent (transformed class names, control flow resolved) and, on the real code, with the program run as plain Python; flax.core.lift.cond / switch / while_loop on real Scopes (flax.core.apply) with random filters, mutability and statement-language bodies, well-formed and not, compared with Model/LiftCtl.v (result, updated collections, whether it raises) and with plain Python control flow.',
    note='Trusted: Coq kernel, vm_compute, harness (plain_equivalent desugaring), jaxcompat, jax.jit / checkpoint / lax control flow. NOT proved: that jax.jit / jax.checkpoint / lax control flow evaluate the traced function like Python '
         '(needs a semantics of tracing: the model states what tracing makes visible - all branches run, condition and body run once - and the correspondence ties that to the code); rng handling of the control-flow lifts (make_loop_rngs) is not modelled. Keys drawn inside a jitted child are not compared (nn.jit forks RNGs: C09). In the module-program families branch bodies only set declared variables and keep '
         'shapes, every branch writes the same variables and trip counts are >= 1; the functional-core family (Model/LiftCtl.v) also runs branches / bodies that differ in structure, write immutable collections, read missing variables and loops with zero trips. Lifted helper methods / branch functions that create auto-named sub-modules (identity map_variables(init=True), cond / switch with a layer per branch) are an oracle family. named_call, static/donate argnums, custom map_variables functions not covered. No axioms.',
    technique='Coq proof (filter-partition lemmas over lift.pack; sub-tree simulation and path frame over the Linen interpreter; loop simulation lifted while = Python loop by induction on the trip count) + per-run model-vs-implementation correspondence by vm_compute + lifted-vs-plain oracle on the real code',
    ref='DESIGN.md section 5, C05'),
  'C06': dict(
    text='PARTIAL. The loop model of C08 (Model/NnxLift.v) extended with nn.scan\'s broadcast pre-pass (Model/LinenLoop.v). Proved for every body, role assignment, length, direction, carry and '
         'inputs: for a body that leaves broadcast collections alone the lifted scan is the unrolled Python loop over sliced variables (unroll does not occur); a write to a broadcast collection '
         'is accepted only when its value cannot depend on the iteration, input or carry (non-interference), otherwise rejected; under vmap what is left in a None-axis collection is identical at '
         'every index; the axis arithmetic of axes_scan.py (transpose_to_front / transpose_from_front for in_axes / out_axes / variable_axes at any, also negative, position) is a pair of '
         'inverse permutations for every rank, and moving the scan axis of a stack of L slices to the front exposes the slices; with flax.typing.In / Out markers a collection only Out(axis) entries '
         'match is not handed to the function and one only In(axis) entries match comes back unchanged (corollaries of the lift.pack theorems of C05). Tied to /repo per run: a Linen module interpreting integer '
         'bodies over variables in the collections ax0 / ax1 / ax2 / axm1 / bc / carry under nn.scan and nn.vmap (variable axes 0, 1, 2, -1, non-square shapes, lengths 1-4, reverse, unroll, '
         'split_rngs), apply on stacked variables and init; final carry, stacked outputs and collections compared in Coq and with the Python loop / per-index calls on the real code; key '
         'equality pattern per split_rngs; nn.scan with array-valued steps and in_axes / out_axes / variable_axes at every position against the Python loop, its shapes against Model/Axes.v; '
         'nn.remat_scan with nested lengths against the loop, keys per layer under split / unsplit streams.',
    note='Trusted: Coq kernel, vm_compute, harness, jaxcompat, lax.scan / jax.vmap. Axis collections are slices in the model; the permutations are proved inverse, their effect on values is '
         'tied by the correspondence and the loop oracle. Known finding F25: a loop-invariant write to a broadcast collection inside nn.scan is applied once (refuted inside the model). '
         'in_axes/out_axes prefix trees over containers not generated. No axioms.',
    technique='Coq proof (loop/scan simulation, non-interference of the taint analysis) + per-run correspondence by vm_compute + loop oracle on the real code',
    ref='DESIGN.md section 5, C06'),
  'C07': dict(
    text='PARTIAL. A Gallina model of what nn.vjp / nn.jvp / nn.grad / nn.value_and_grad return for a module computing a polynomial in its scalar variables and inputs (jax autodiff idealised as '
         'the symbolic derivative). Proved for every polynomial, values, filter, cotangent and tangents: exactly the variables of the collections selected by vjp_variables receive a cotangent '
         '(others contribute nothing and do not appear), each cotangent is ct times the partial derivative and `partial` is the derivative, vjp and jvp are adjoint, forward-pass updates are '
         'applied exactly once per call: after any history of n direct or differentiated calls on the same bound module a variable the forward pass increments has grown by exactly n and every '
         'other variable is unchanged. Tied to /repo per run: random polynomial modules (params / batch_stats / cache / counter, 1-3 inputs) under nn.vjp (filters incl. lists and DenyList, has_aux), '
         'nn.jvp (variable_tangents), nn.grad, nn.value_and_grad, nn.custom_vjp; primal, cotangents / tangents, aux and variables afterwards compared in Coq and with jax.vjp / jvp / grad of the '
         'pure function (variables, inputs) -> module.apply on the real code; every case also as a history of 2-4 direct / differentiated calls on one sub-module bound in setup (scopes live across '
         'the calls), compared with the model\'s history and with the same sequence of pure Module.apply calls.',
    note='Trusted: Coq kernel, vm_compute, harness, jaxcompat, jax.vjp / jvp / grad. Scalars only (no pytree-shaped primals, reduce_axes unused). custom_vjp is modelled with the rule the correspondence uses (the user rule returns fixed multiples of the true cotangents; observed by '
         'differentiating through it with the non-selected collections held constant): forward value unchanged, routing and rule application are theorems; lifted gradients differentiated again (gradient penalty) are an oracle family. No axioms.',
    technique='Coq proof (routing by filter, polynomial derivative and adjointness by ring) + per-run correspondence by vm_compute + jax autodiff oracle on the pure apply function',
    ref='DESIGN.md section 5, C07'),
  'C08': dict(
    text='PARTIAL. A Gallina model of the state bookkeeping of nnx.vmap / nnx.scan / nnx.grad at the level of the argument\'s Variables: StateAxes.map_prefix (first matching filter), per-index '
         'views of axis groups, shared None groups with jax.vmap\'s batchedness tracked by dependency, scan with per-step slices, threaded Carry state and broadcast state re-read from the '
         'original, gradients as symbolic derivatives of polynomial losses over the Variables selected by wrt / DiffState. Proved for all inputs: each Variable gets the axis of its first '
         'matching filter; if vmap accepts a body then what it leaves in shared state is identical at every index (non-interference of the batchedness analysis), otherwise it is rejected; '
         'scan equals the Python loop for every body that does not write broadcast state, in any step order; the gradient lists exactly the selected Variables and deriv is the derivative; jnp.moveaxis(x, axis, 0) / moveaxis(x, 0, axis) on the state are the inverse transpositions to_front / from_front for every rank and axis. '
         'Arguments that alias one Variable (Model/Alias.v): the call is accepted exactly when no Variable is reached under two different specifications, and then every occurrence carries the one specification it is treated under. Tied to /repo per run: random modules, StateAxes, non-square shapes, integer bodies, lengths, reverse, polynomial losses; outputs, final Variables and gradients compared in Coq '
         'and against the real eager per-index loop / Python loop / jax.grad of the functional form; aliasing and out_axes rejections by probes.',
    note='Trusted: Coq kernel, vm_compute, harness, jaxcompat, jax.vmap / lax.scan / jax.grad (idealised as map / fold / symbolic derivative). Axis-group Variables are represented by their '
         'slices: the moveaxis arithmetic is tied to the code by the correspondence only. Graph split/merge around the transforms is C03/C04. Known finding F22: writes to broadcast state '
         'inside scan are silently dropped (refuted inside the model: C08_broadcast_write_refuted). split_rngs patterns, in_axes prefixes over nested containers, pmap not covered. No axioms.',
    technique='Coq proof (non-interference by induction over the body; loop/scan simulation with a representation invariant; polynomial derivative by ring) + per-run correspondence by vm_compute',
    ref='DESIGN.md section 5, C08'),
  'C09': dict(
    text='Linen: on the reference semantics of C01, every key handed out is addressed by (stream after the params fallback, module path, per-scope count) and no two draws of one init/apply share '
         'an address (invariant over the interpreter, all programs); the byte string hashed with the separator determines the path for zero-free components (F8 and the no-separator collision '
         'are the proved refutations outside that domain); LazyRng at the lift.jit / fold_rngs boundary (after the F31 repair): the path of every scope handed to the transform is folded '
         'into the key data, so scopes with differently hashed paths draw different keys inside, none equal to a key of the root scope, the keys of the transformed module itself are unchanged; the '
         'former clear_suffix behaviour is the proved refutation. NNX: stream = (key term, count); for every history of draws, split_rngs and restore_rngs no key term is handed out twice; missing '
         'stream -> default; reseed restarts. Tied to /repo per run: every observed key is decoded by an independent recomputation (hashlib.sha1 + jax.random) into an address / key term and the '
         'sequences are compared with the model in Coq, under both settings of flax_fix_rng_separator; sibling modules / child scopes passed as arguments into nn.jit (method and class), nn.fold_rngs and the core lift.jit, '
         'NNX streams under ToLinen, keys under nn.jit over several applies.',
    note='ASSUMPTION (not proved): idealised PRNG - fold_in/split/key injective, SHA-1[:4] injective on the hashed strings. Keys under nn.jit (against the same program under jax.disable_jit()) are an oracle family; the call counts of keys drawn in and after nn.cond / nn.switch are compared with Model/Rng.v branch_counts / count_after (every branch traced in turn on shared counters; theorem C09_branch_draws_distinct). Trusted: Coq kernel, vm_compute, harness, jaxcompat, jax.random, '
         'hashlib. split(k, n)[i] is independent of n (observed) and the key terms record i only. Known finding F8. No axioms.',
    technique='Coq proof (trace invariants over the interpreter and over stream histories) + per-run correspondence by decoding observed keys, vm_compute',
    ref='DESIGN.md section 5, C09'),
  'C10': dict(
    text='Theorems about a Gallina model of flax.serialization written from the code (to_state_dict/from_state_dict with the dict, FrozenDict, list, tuple, '
         'namedtuple and struct-dataclass handlers, str(i) index keys, _chunk/_unchunk and their tree drivers, ext packing of arrays/np scalars/complex, and '
         'msgpack-python\'s encoder and decoder, _msgpack_ext_unpack / _ndarray_from_bytes, msgpack_restore, from_bytes): from_state_dict(t, to_state_dict t) = t for every tree; '
         'unchunk(chunk th s) = s for every threshold (hence threshold independence); decode(encode v ++ rest) = (v, rest) for every msgpack value within the format\'s limits '
         '(all ten integer formats, fix / 8 / 16 / 32-bit headers, fixext and ext, nested arrays and maps), so trailing bytes are rejected; msgpack_restore(msgpack_serialize s) = s and '
         'from_bytes(t, to_bytes t) = t for every tree and every threshold; restoring is invariant under permutation of the saved entries; missing keys, length and field-name '
         'mismatches return the path-naming error. Tied to /repo per run: the model is evaluated in Coq on the real state dicts, the exact bytes of to_bytes (encoder), the decoder '
         'on those real bytes, on strict prefixes and with a trailing byte against msgpack_restore, restore results and errors.',
    note='Trusted: Coq kernel, vm_compute, harness, jaxcompat, numpy buffer semantics (tobytes / frombuffer / reshape / itemsize table). msgpack-python is modelled in both '
         'directions for the formats flax emits (float32, 0xc1, lists and non-string keys at state-dict level are None = outside the model) and compared byte-for-byte per run. '
         'F2 (big-endian arrays) fixed in /repo. No axioms.',
    technique='Coq proof (nested induction over pytrees, list/arith lemmas) + per-run byte-exact model-vs-implementation correspondence by vm_compute',
    ref='DESIGN.md section 5, C10'),
  'C11': dict(
    text='A directory state machine written from checkpoints.py: structured names (step / tmp / Orbax temporary), natural sort, _check_overwrite_error, the main phase '
         '(create+write+rename, or mkdir-tmp+fill+rename), _remove_invalid_ckpts (keep, keep_every_n_steps incl. the [:-0] and step-0 quirks, overwrite), every save compiled to '
         'its list of atomic file-system operations so that a crash is a prefix. Proved for all directories, requests and crash points k: without overwrite the latest checkpoint '
         'stays complete and is the previous latest or the new one, for whole histories of saves and crashes; temporaries are never listed; latest is the numeric maximum; an existing '
         'step is rejected with the directory unchanged; the legacy back-end rejects older steps; retention never touches the newest step. Orbax+overwrite of the latest is refuted '
         '(F14). Tied to /repo per run: save histories with injected crashes on both back-ends; directory snapshots, outcomes, operation kinds, latest and restore compared in Coq.',
    note='Trusted: Coq kernel, vm_compute, harness (crash injection by interposing flax.io/os/shutil), jaxcompat, orbax, TF gfile. Restore with a target (sequences of 1-23 entries, namedtuple) and a back-end that changes in the middle of a run are oracle probes on both back-ends. Modelled: rename/remove atomic, rmtree two-step, '
         'Orbax save = mkdir tmp + write + rename (validated against traced operation kinds each run). Real durability (fsync, power loss, GCS) not exhibited. Steps are scaled to '
         'integers per history. Known findings F3, F14; F15 fixed. No axioms.',
    technique='Coq proof (invariants over prefixes of atomic-operation lists and over histories; sorting lemmas) + per-run crash-injection correspondence by vm_compute',
    ref='DESIGN.md section 5, C11'),
  'C12': dict(
    text='PARTIAL. A Gallina model of Dense, 1-D and 2-D Conv (padding canonicalisation, CIRCULAR / REFLECT / CAUSAL pre-padding with jnp.pad, then a VALID convolution; stride, kernel dilation, groups), '
         '1-D ConvTranspose (input dilated by the stride, jax\'s transpose padding rule for SAME / VALID, stride-1 convolution with kernel dilation, and the layer\'s own CIRCULAR post-processing: '
         'pad the VALID result to whole periods, reshape and sum, with the alignment depending on transpose_kernel), '
         'Embed, 1-D avg / max / min pooling and the statistics of the normalisation layers (masked mean / variance, BatchNorm running averages). Proved for all inputs and hyper-parameters: '
         'pre-pad + VALID convolution equals the documented direct sum over the extended signal, in one and in two spatial dimensions; CAUSAL outputs do not depend on later inputs; SAME yields ceil(n/stride) positions; the transposed '
         'convolution is the direct sum over the input rows x[(o + t*d - pa) / s] its taps meet, SAME gives n*s and VALID n*s + max(k_eff - s, 0) positions, and the CIRCULAR wrap adds up exactly '
         'the entries congruent to each position of the period; max pooling '
         'returns a bounding element of the window; Embed is a lookup; masked positions cannot influence normalisation statistics, deviations from the mean sum to zero, running averages at momentum '
         '0 and 1; DenseGeneral / LinearGeneral as the contraction over flat row-major tensors (the order in which the contracted axes are written is irrelevant: kernel dimensions follow them in ascending order); which elements share their statistics: the model computes the reduction groups of a whole layer from the shape and the axes (row-major flat index <-> multi-index are inverse '
         'bijections; the groups partition the elements; LayerNorm / RMSNorm / InstanceNorm elements share a group iff they agree on every non-reduced axis; GroupNorm elements iff they are in the '
         'same batch row and their channels (flat index mod C) lie in the same block of C/G channels); Dropout with the bits of the Bernoulli draw as a parameter (identity when deterministic or at rate 0, zero at rate 1, otherwise x_i / (1 - rate) where the mask bit of the broadcast position of i is set and 0 elsewhere; one mask serves every input; elements differing only along broadcast_dims share their bit; the position read lies inside the broadcast shape); Einsum as the contraction over flat row-major tensors with numbered labels (every entry is the sum over the coordinates of the labels absent from the result of x times kernel at the label-addressed positions, plus the bias entry addressed by the result axes whose label occurs in the kernel; for ij,jk->ik it is the matrix product). Tied to /repo per run: every layer of the property (Dense, DenseGeneral, Einsum, Conv 1-D/2-D, ConvLocal, ConvTranspose, Embed, pooling, LayerNorm / RMSNorm / GroupNorm / '
         'InstanceNorm / BatchNorm, Dropout) in Linen and NNX with explicit integer parameters is compared with an independent numpy direct-sum reference and Linen with NNX; the modelled '
         'layers are also compared with the model in Coq, the outputs of LayerNorm / RMSNorm / GroupNorm / InstanceNorm included (square-root free: (y - b)^2 (var + eps) = s^2 (x - mean)^2 with the sign of s (x - mean), over the reduction groups the model derives from shape and axes).',
    note='Trusted: Coq kernel, vm_compute, harness (numpy reference c12_ref.py), jaxcompat, float64 arithmetic of XLA on small integers. NOT proved / not modelled: the expansion of ... in einsum equations (done by the harness as opt_einsum does), '
         '2-D ConvTranspose, 3-D convolutions, ConvLocal, DenseGeneral batch_dims: oracle-only; Dropout: the mask bits are jax.random.bernoulli(key, 1 - rate, broadcast shape), drawn by the harness for the key passed as rng= and read off the output otherwise; for tensors above 256 elements the reduction groups of the normalisation layers are computed by the harness. Outputs at masked positions and windows '
         'entirely in the padding (0/0) are unspecified and compared as the code gives them. dtype promotion, precision, axis_name not covered. No axioms.',
    technique='Coq proof (index arithmetic of padding / strides, non-interference, rational statistics) + per-run correspondence by vm_compute + independent direct-sum reference on the real code',
    ref='DESIGN.md section 5, C12'),
  'C13': dict(
    text='PARTIAL. A Gallina model of the RNN wrapper (flip_sequences for reverse, the scan over all steps, _select_last_carry at seq_len - 1, keep_order) and of the decode-cache bookkeeping of '
         'attention, both parametric in the cell / attention function. Proved for every cell, carry, sequence and seq_len in [1, T]: the valid outputs and the returned carry are those of the '
         'Python loop over the valid inputs (reversed within the valid length for reverse); padded inputs are inert; keep_order only flips the valid outputs back; stepwise decoding through the '
         'cache equals whole-sequence attention under the causal mask for every attention function and cache size; make_attention_mask is the pairwise predicate, row i of make_causal_mask '
         'selects exactly the keys 0 .. i (the prefix the decode cache holds at step i), combine_masks is the pointwise conjunction of the masks given and None when none is; attention over the rationals (logits in units of ln 2): a masked position gets weight exactly 0, '
         'the weights of a query with an allowed key sum to 1 and are proportional to exp(logit) over the allowed positions (the softmax), subtracting a constant from the logits changes nothing, '
         'and keys / biases / values at masked positions cannot influence the output. Bidirectional at the valid positions is the forward cell looped over the valid inputs paired with the reversed outputs of the backward cell looped over the valid inputs reversed, the carries are those of the two loops and padding is inert in both directions. Tied to /repo '
         'per run: the mask helpers of Linen and NNX on integer inputs in four dtypes (values a half-precision float cannot represent included) against the model; an integer cell under nn.RNN / nnx.RNN / Bidirectional '
         '(batch shapes (), (b,), (b1,b2), time_major, initial carries) compared exactly with the model; the real cells against numpy recurrences and the manual loop with padded inputs '
         'perturbed; attention weights against a numpy softmax, masked weights exactly zero, ignored keys / values perturbed; dot_product_attention(_weights) of Linen and NNX on integer q / k / v / bias in units of ln 2 against the rational model; decode vs causal in Linen and NNX on the same parameters.',
    note='Trusted: Coq kernel, vm_compute, harness (numpy recurrences and softmax), jaxcompat, float64. NOT proved: that exp(finfo.min - max) is exactly 0 in float arithmetic and the rounding of the float softmax (compared per run), the cell '
         'equations, batching and time_major arithmetic, Linen = NNX: oracle-only. F12 (final carry for more than one batch dimension) fixed. ConvLSTMCell, dropout inside attention, '
         'normalize_qk not covered. No axioms.',
    technique='Coq proof (list lemmas over the scan; cache invariant by induction; field arithmetic over Q for the softmax) + per-run model-vs-implementation correspondence by vm_compute + paired-input and reference oracles',
    ref='DESIGN.md section 5, C13'),
  'C14': dict(
    text='Theorems about hand-written Gallina models of the Linen filter algebra (one fuelled function mirroring union/subtract/intersect_filters, '
         'in_filter, is_filter_empty, group_collections) and of the NNX filter language with the first-match split loop: soundness and totality of the three '
         'operations for every pair of filters of any nesting depth and every name, emptiness iff no name matches, first-match partition that is a permutation '
         'of the input. Tied to /repo on every run by evaluating the model inside Coq (vm_compute) on the same cases the real functions ran on '
         '(all pairs of depth<=2 filters exhaustively + random deep pairs; random NNX states x filter lists through 8 public entry points).',
    note='Trusted: Coq kernel, vm_compute, the harness (generators, name interning, canonicalisation), jaxcompat adapters. Modelled not verified: Python set/list '
         'collections as lists; isinstance/issubclass as membership in a finite class universe. No axioms (Closed under the global context).',
    technique='Coq proof (induction on fuel / lists, Permutation) + per-run model-vs-implementation correspondence by vm_compute',
    ref='DESIGN.md section 5, C14'),
  'C15': dict(
    text='A heap model of FrozenDict written from the code (cells flagged private/public; _prepare_freeze sharing the private dict of FrozenDict values and '
         'copying plain dicts; unfreeze/tree_map copying; __getitem__ returning FrozenDict(v); copy, pop, pickle, module-level copy/pop) and a state machine in '
         'which an adversary mutates every plain dict it holds. Proved for every operation sequence: the invariant "private cells hold leaves and private dicts only, '
         'no plain-dict reference points into a FrozenDict", hence no API operation writes a private cell, no private cell leaks, and denote(fd) is constant '
         'forever. Hash = xor fold is permutation invariant. struct.dataclass: flatten/unflatten round trip, leaves = data fields, static fields travel in the treedef, '
         'replace changes only the named field. Tied to /repo per run: 480+ adaptive sequences of 24 real operations, flags and contents compared in Coq.',
    note='Trusted: Coq kernel, vm_compute, harness, jaxcompat. Modelled not verified: jax.tree_util rebuilding of dict/FrozenDict nodes, pickle = __reduce__ + constructor, '
         'Python locals not escaping (FrozenDict.pop). Leaves opaque. eq/hash of the real class checked by oracle under key reordering. No axioms.',
    technique='Coq proof (state-machine invariant by induction over operation sequences, frame reasoning) + per-run model-vs-implementation correspondence by vm_compute',
    ref='DESIGN.md section 5, C15'),
  'C16': dict(
    text='Theorems about a Gallina model of flatten_dict/unflatten_dict (written from the code: DFS with relative paths, insertion-ordered dict, the '
         'unflatten cursor loop) proved for every well-formed nested dict of any depth and every is_leaf: exact round trip with keep_empty_nodes, round trip up '
         'to pruning of leafless sub-dicts without it, and the other direction - every flat dict with non-empty prefix-free keys and leaf / empty-node values is rebuilt by unflatten into a well-formed dict that flattens back to exactly the same entries, the emitted paths being pairwise different (a permutation of the input; induction on the inserted path with a one-insertion-adds-one-entry lemma) - path_aware_map = structural map, separator-joined keys for every single-byte separator absent from the '
         'keys (split (join p) = p), and the State set laws on flat states (merge: later wins; merge inverse of split; a - b exact). Tied to /repo per run by '
         'evaluating the model in Coq on the flat dicts and round-trip results the real functions produced.',
    note='Trusted: Coq kernel, vm_compute, harness, jaxcompat. Not proved (correspondence/oracle only): sortedness of to_flat_state, '
         'pure-dict conversions; flatten after unflatten is proved as equality of entry sets with distinct paths (the order of a Python dict built from an arbitrarily ordered flat dict is compared per run only). Known findings F10 (root declared leaf), F13 (multi-char separators) refuted by theorem and listed; F1, F18 fixed. No axioms.',
    technique='Coq proof (nested tree induction, list lemmas) + per-run model-vs-implementation correspondence by vm_compute',
    ref='DESIGN.md section 5, C16'),
  'C17': dict(
    text='Theorems for every optax transformation (tx_update, apply_updates universally quantified): TrainState/nnx.TrainState.apply_gradients is tx.update then apply_updates with '
         'step+1, k calls equal the hand-written loop; nnx.Optimizer.update leaves every Variable not selected by wrt untouched and gives the selected ones params+updates at their '
         'path and type (C14 filter semantics reused); wrap/unwrap of optimizer state are inverse. Metrics over Q: Average (hence Accuracy) and Welford with the Chan merge as coded '
         'have, after any split of a stream into non-empty batches, the state of the whole stream (field arithmetic). Tied to /repo per run: wrappers vs the hand loop bitwise with 7 '
         'real transformations; integer-momentum runs of nnx.Optimizer replayed in Coq; every composition of short streams through the real metrics vs the exact rational model.',
    note='Trusted: Coq kernel, vm_compute, harness, jaxcompat, optax. Float32 evaluation of metrics compared with exact rationals at 2e-5 relative (correspondence rule). '
         'Axioms: none (Print Assumptions: Closed under the global context; Q field tactics add none).',
    technique='Coq proof (parametric in the transformation; induction over gradient sequences; Q field/ring for Welford) + per-run correspondence by vm_compute',
    ref='DESIGN.md section 5, C17'),
  'C18': dict(
    text='PARTIAL. A Gallina model of the conversions behind the Linen<->NNX bridge (linen_vars_to_nnx_attrs / nnx_attrs_to_linen_vars / _recursive_merge on flattened trees, collections merged in '
         'sorted order, ToNNX merging the updates of mutable collections, the name<->type registry with allow_register). Proved: the registry stays injective and its two lookups are inverse; register_variable_name(overwrite) re-binds exactly the given name (a type that lost its name is looked up afresh); '
         'merging updates changes exactly the updated leaves at any depth; reading attributes back as Linen variables is faithful (names, values, collection by registered type), hence the '
         'state of a ToNNX wrapper after a call is the old state overwritten by the updates. Tied to /repo per run: ToNNX around random Linen module programs (lazy_init and 1-3 calls with '
         'mutable sets) compared with Model/Linen.v\'s apply on the variables the wrapper holds plus the bridge model, and with the real Module.apply; ToLinen around NNX modules compared with '
         'the NNX module called with the same state and with Model/NnxLift.v\'s body semantics.',
    note='Trusted: Coq kernel, vm_compute, harness, jaxcompat. NOT proved: that the wrappers return the wrapped module\'s output (they call the module; decided per run, incl. sow(reduce_fn) call histories through ToNNX, ToLinen(skip_rng=True) around a module that owns RNG streams, and partition specs under logical axis rule contexts). Known findings: F11 (one '
         'name in two collections is lost), F24 (sown tuple collections break ToNNX); F23 (nested parameters dropped by the shallow merge) found while building this check and fixed. '
         'ToLinen.init stores the state the NNX module has when constructed (updates made by the first call are not stored): mirrored. Sharding metadata boxes (Partitioned/NNXMeta) are not '
         'generated. No axioms.',
    technique='Coq proof (assoc-list map lemmas, registry injectivity) + per-run model-vs-implementation correspondence by vm_compute + wrapper-vs-wrapped-module oracle',
    ref='DESIGN.md section 5, C18'),
  'C19': dict(
    text='Theorems about a Gallina model of the partition-name bookkeeping written from the code (Python list.insert/pop with arbitrary integer index, None padding, '
         'negative-index normalisation as in the fix: commit, jnp-style stacking of shapes, the rule loop of _logical_to_mesh_axes): for every rank and every axis '
         'position in [-(r+1), r] the names have one entry per dimension with the partition name exactly where the array gained its axis; remove_axis inverts add_axis '
         '(both directions); short name tuples are padded; logical_to_mesh never uses a mesh axis twice and later rules never override earlier assignments; NNX transform_metadata with a StateAxes (Model/StateAxesMeta.v): under nnx.vmap (one substate per filter) and nnx.scan (only the vectorized substates are kept) every substate whose filter has an integer axis gets the partition name at that axis and every other one is left alone, wherever the broadcast / carry filters stand (the pairing before the fix F34 is refuted by example). Tied to /repo per '
         'run: every (rank<=4, axis, name-tuple shape) enumerated through Partitioned and nnx.spmd, nested nn.scan/nn.vmap/nnx.scan/nnx.vmap levels, 1500+ rule lists, StateAxes with the filters in every order under nnx.vmap / nnx.scan, nn.add_metadata_axis against nn.vmap.',
    note='Trusted: Coq kernel, vm_compute, harness, jaxcompat. Modelled not verified: where jax stacks the mapped axis. F4 (negative axes) and F34 (nnx.scan StateAxes with a broadcast / carry filter before the integer filter, refuted as C19_stateaxes_scan_old_refuted) fixed in /repo; the old arithmetic '
         'is refuted by theorem C19_negative_axis_old_refuted. No axioms.',
    technique='Coq proof (list/Z arithmetic with lia, invariants over the rule fold) + per-run model-vs-implementation correspondence by vm_compute',
    ref='DESIGN.md section 5, C19'),
  'C20': dict(
    text='Theorems: pad_shard_unpad returns map f x for every batch size, device count >= 1 and min_device_batch (padding arithmetic as coded, chunking lemmas shared with C10); '
         '_invert_perm is the inverse permutation; the nested scans of _scan_nd thread the carry and stack the outputs like the nested Python loop over the scanned axes in row-major order (every body, depth, extent); shard is the (d, n) reshape whose rows concatenate to the input, stack_forest is the transposition of the forest, onehot has entry (i, j) = on exactly '
         'when j is label i, so a label in [0, num_classes) lights exactly one position and any other none, for every label value and number of classes; prefetch_to_device (as repaired) yields the items in order then stop/the exception for every length, failing position and '
         'size >= 1; PrefetchIterator as a labelled transition system (next outside the lock, put/wake/fail/get critical sections) satisfies, for EVERY schedule, that the '
         'consumer has seen a prefix of the items in order followed - only after all of them - by StopIteration or the source\'s exception (inductive invariant). '
         'Tied to /repo per run: a cooperative threading substitute drives the real PrefetchIterator through all schedules of small sources (thousands), each recorded '
         'interleaving is replayed in the Coq transition system; grids for padding, scan_in_dim vs nested loops, reshapes (shard / stack_forest / onehot also against the model, onehot over 7 integer label dtypes and up to 1000 classes).',
    note='Trusted: Coq kernel, vm_compute, harness incl. coop.py (cooperative scheduler), jaxcompat. Not exhibited by the model: OS preemption inside a critical section, '
         'liveness (fairness). scan_in_dim: the permutation lemmas and the nested-scan theorem (scan_nd = nested loop) are proved, the transposes themselves are tied by the correspondence and the oracle. F5 and F6 fixed in /repo. No axioms.',
    technique='Coq proof (transition-system invariant over all schedules; list/arith lemmas) + systematic schedule exploration replayed in the model by vm_compute',
    ref='DESIGN.md section 5, C20'),
}
NOTE_UPDATES = [
  ("Sharding metadata boxes (Partitioned/NNXMeta) are not generated.", "Sharding metadata (Partitioned / LogicallyPartitioned boxes with names, rules and an explicit mesh) through ToNNX and back is checked by oracle only (F32 found there and fixed)."),
  ("split_rngs patterns, in_axes prefixes over nested containers, pmap not covered.", "split_rngs + vmap call histories are checked by oracle only; shared Variables under two DiffState filters, bare Variables and tied weights under path-based StateAxes are also rows of Model/Alias.v (F30 found there and fixed); a layout probe (position-weighted sums inside scan bodies) ties the moveaxis arithmetic to the Python loop; in_axes prefixes over nested containers, pmap not covered."),
  ("Not in the program grammar: setup-style modules, bind/unbind, lists of submodules, share_scope.", "Not in the program grammar: setup-style modules, lists of submodules; share_scope (side by side without a clash, an error with one) and Module.copy() are oracle families; bind / unbind and module instances shared between parents are checked by an oracle family on instance graphs, not by the model."),
  ("in_axes/out_axes prefix trees over containers not generated.", "In(axis) / Out(axis) markers: Model/Lift.v split_in_out is compared per run with lift._split_in_out_axes (the ordered in / out filter lists) and call histories are checked by oracle; bound sub-modules passed through dataclass fields are checked by oracle only; in_axes/out_axes prefix trees over containers not generated."),
  ("Keys drawn inside a jitted child are not compared (nn.jit forks RNGs: C09).", "Keys drawn inside a jitted child are not compared (nn.jit forks RNGs: C09). Lifted helper methods over setup-defined sub-modules (counters 1-3 levels down) and nn.jit helper methods are oracle families, not in the model's grammar."),
]
def upd_note(n):
  for a, b in NOTE_UPDATES:
    assert isinstance(n, str)
    n = n.replace(a, b)
  return n
REASON_UNBUILT = 'check not built yet in this round (planned: see DESIGN.md section 5); nothing is claimed for it'

def main():
  checks = []
  for pid in ALL:
    if pid not in CLAIMED:
      continue
    c = CLAIMED[pid]
    checks.append({
      'property_id': pid,
      'quick_cmd': './check %s --tier quick' % pid,
      'thorough_cmd': './check %s --tier thorough' % pid,
      'evidence_file': 'evidence/%s.json' % pid,
      'replay_cmd_template': './check %s --replay {path}' % pid,
      'engine': 'coq-model-correspondence',
      'level_claimed': {'category': 'proof', 'text': c['text'], 'design_ref': c['ref']},
      'level_note': upd_note(c['note']),
      'technique': c['technique'],
    })
  m = {
    'version': 1,
    'setup_cmd': 'cd /verif/coq && coq_makefile -f _CoqProject -o Makefile && timeout 3000 make -j16',
    'hooks': {'guard': 'GOOGLE_FLAX_VERIF', 'enable': 'no source hooks: crash points, schedules and jax adapters are injected from the harness process (DESIGN.md section 2)',
              'baseline_off_cmd': 'cd /repo && /venv/bin/python -m pytest -ra -q -p no:cacheprovider --timeout=900 --continue-on-collection-errors',
              'source_commits': [], 'add_only': True},
    'engines': [{'name': 'coq-model-correspondence', 'path': 'check', 'serves_properties': sorted(CLAIMED),
                 'kind_free_text': 'Coq 8.16.1 development under coq/ (Model, Proofs, Props) + Python harness that runs /repo and evaluates the model inside Coq on the same cases'}],
    'checks': checks,
    'not_applicable': [{'property_id': p, 'reason': REASON_UNBUILT} for p in ALL if p not in CLAIMED],
    'notes': 'All checks: ./check <id> --tier quick|thorough; VERIF_SEED honoured. Known findings and fixed defects: known_findings.json.',
  }
  json.dump(m, open(os.path.join(HERE, 'MANIFEST.json'), 'w'), indent=1)

if __name__ == '__main__':
  main()
