#!/venv/bin/python
"""keep_seed.py <property> <seed_dir> <id> <status> : archives a confirmed seeded change under /verif/seeded/<id>/"""
import json, os, shutil, sys
prop, sd, sid, status = sys.argv[1:5]
dst = os.path.join('/verif/seeded', sid)
os.makedirs(dst, exist_ok=True)
for f in ('patch.diff', 'demo.py', 'notes.md'):
  if os.path.exists(os.path.join(sd, f)):
    shutil.copy(os.path.join(sd, f), os.path.join(dst, f))
notes = open(os.path.join(sd, 'notes.md')).read() if os.path.exists(os.path.join(sd, 'notes.md')) else ''
meta = {
  'property': prop,
  'needs_to_manifest': notes[:1500],
  'confirmed_by': ['git -C /repo apply patch.diff; demo.py exits 1; ./check %s --tier quick reports VIOLATION; git -C /repo checkout -- .; demo.py exits 0' % prop,
                   'the sub-agent ran the 427-test baseline on its worktree with the patch applied: regressions: 0'],
  'detection': status,
}
json.dump(meta, open(os.path.join(dst, 'meta.json'), 'w'), indent=1)
print('kept', dst)
