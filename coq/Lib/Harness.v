(* Small executable helpers shared by the models and by the generated cases files. *)
From Coq Require Export List Bool Arith NArith ZArith.
Export ListNotations.

Fixpoint list_beq {A} (eq : A -> A -> bool) (xs ys : list A) : bool :=
  match xs, ys with
  | [], [] => true
  | x :: xs', y :: ys' => eq x y && list_beq eq xs' ys'
  | _, _ => false
  end.

Definition option_beq {A} (eq : A -> A -> bool) (x y : option A) : bool :=
  match x, y with
  | None, None => true
  | Some a, Some b => eq a b
  | _, _ => false
  end.

Definition pair_beq {A B} (ea : A -> A -> bool) (eb : B -> B -> bool) (x y : A * B) : bool :=
  ea (fst x) (fst y) && eb (snd x) (snd y).

Definition memN (x : N) (l : list N) : bool := existsb (N.eqb x) l.

(* sets of names as lists, compared extensionally *)
Definition subsetN (a b : list N) : bool := forallb (fun x => memN x b) a.
Definition seteqN (a b : list N) : bool := subsetN a b && subsetN b a.

Lemma list_beq_spec {A} (eq : A -> A -> bool) :
  (forall x y, eq x y = true <-> x = y) -> forall xs ys, list_beq eq xs ys = true <-> xs = ys.
Proof.
  intros H xs; induction xs as [|x xs IH]; intros [|y ys]; simpl; split; intros E;
    try reflexivity; try discriminate.
  - apply andb_true_iff in E as [E1 E2]. apply H in E1. apply IH in E2. now subst.
  - inversion E; subst. apply andb_true_iff; split; [now apply H | now apply IH].
Qed.
