(* flax/nnx/graph.py: flatten/_graph_flatten (identity-keyed ref_index, back references, leaves in visit order with
   their paths), unflatten/_graph_unflatten (create empty, register in index_ref, then fill), split (first-match
   partition of the leaves by filters), merge (_merge_to_flat_state sorts by path), update/_graph_update_dynamic,
   pop/_graph_pop, state, clone; the node implementations of nnx.Object (attributes in sorted order) and of
   list / tuple / dict pytree nodes (flattened by value).  Definitions only. *)
From Flaxm Require Import Lib.Harness Model.NnxFilters.

Definition loc := nat.
Definition key := N.
Definition path := list key.

Inductive value :=
| VRef (l : loc)                                   (* an nnx.Object or a Variable: has identity *)
| VStatic (s : N)                                  (* any other Python value: stored in the graphdef *)
| VArr (a : N)                                     (* a jax / numpy array attribute: a leaf without identity *)
| VTree (kind : N) (items : list (key * value)).   (* list / tuple / dict: flattened by value *)

Inductive obj :=
| ONode (ty : N) (attrs : list (key * value))      (* attrs in the order of sorted(vars(node).items()) *)
| OVar (vty : N) (payload : N) (meta : N).
Definition heap := list obj.

Inductive gdef :=
| GRef (idx : nat)
| GVar (vty : N) (idx : nat) (meta : N)
| GNode (ty : N) (idx : nat) (attrs : list (key * gattr))
| GTree (kind : N) (attrs : list (key * gattr))
with gattr := AStatic (s : N) | AArr | ASub (g : gdef).

Inductive leaf := LVar (vty payload meta : N) | LArr (a : N).
Definition fleaf := (path * leaf)%type.

Fixpoint index_of (l : loc) (ri : list loc) : option nat :=
  match ri with [] => None | x :: xs => if Nat.eqb x l then Some 0 else option_map S (index_of l xs) end.

(* flatten state: ref_index (position = index), leaves with paths (in visit order) *)
Definition fst_ := (list loc * list fleaf)%type.

Definition items_with (rec : path -> value -> fst_ -> option (gattr * fst_)) :=
  fix items (p : path) (xs : list (key * value)) (s : fst_) : option (list (key * gattr) * fst_) :=
    match xs with
    | [] => Some ([], s)
    | (k, v) :: r => match rec (p ++ [k]) v s with
                     | None => None
                     | Some (a, s1) => match items p r s1 with None => None | Some (as_, s2) => Some ((k, a) :: as_, s2) end
                     end
    end.

Fixpoint flat (fuel : nat) (h : heap) (p : path) (v : value) (s : fst_) : option (gattr * fst_) :=
  match fuel with O => None | S f =>
  match v with
  | VStatic x => Some (AStatic x, s)
  | VArr a => Some (AArr, (fst s, snd s ++ [(p, LArr a)]))
  | VTree kd xs => match items_with (flat f h) p xs s with
                   | None => None
                   | Some (as_, s') => Some (ASub (GTree kd as_), s') end
  | VRef l =>
      match index_of l (fst s) with
      | Some i => Some (ASub (GRef i), s)
      | None =>
          match nth_error h l with
          | None => None
          | Some (OVar vty pl m) => Some (ASub (GVar vty (length (fst s)) m), (fst s ++ [l], snd s ++ [(p, LVar vty pl m)]))
          | Some (ONode ty attrs) =>
              match items_with (flat f h) p attrs (fst s ++ [l], snd s) with
              | None => None
              | Some (as_, s') => Some (ASub (GNode ty (length (fst s)) as_), s') end
          end
      end
  end end.

Fixpoint vsize (v : value) : nat :=
  match v with VTree _ xs => S (fold_right (fun kv n => vsize (snd kv) + n) 0 xs) | _ => 1 end.
Definition osize (o : obj) : nat := match o with ONode _ attrs => S (fold_right (fun kv n => vsize (snd kv) + n) 0 attrs) | OVar _ _ _ => 1 end.
Definition fuel_for (h : heap) (v : value) : nat := S (vsize v + fold_right (fun o n => osize o + n) 0 h + length h).

Definition flatten (h : heap) (v : value) : option (gattr * list fleaf) :=
  match flat (fuel_for h v) h [] v ([], []) with Some (a, s) => Some (a, snd s) | None => None end.

(* ---------------- unflatten ---------------- *)
Fixpoint set_nth {A} (n : nat) (x : A) (l : list A) {struct l} : list A :=
  match l, n with
  | [], _ => []
  | _ :: r, O => x :: r
  | y :: r, S m => y :: set_nth m x r
  end.
Fixpoint iassoc (i : nat) (m : list (nat * loc)) : option loc :=
  match m with [] => None | (j, l) :: r => if Nat.eqb i j then Some l else iassoc i r end.

(* unflatten state: the heap being built, index_ref, remaining leaves *)
Definition ust := (heap * list (nat * loc) * list leaf)%type.

Definition uitems_with (rec : gattr -> ust -> option (value * ust)) :=
  fix items (xs : list (key * gattr)) (s : ust) : option (list (key * value) * ust) :=
    match xs with
    | [] => Some ([], s)
    | (k, a) :: r => match rec a s with
                     | None => None
                     | Some (v, s1) => match items r s1 with None => None | Some (vs, s2) => Some ((k, v) :: vs, s2) end
                     end
    end.

Fixpoint unflat (a : gattr) (s : ust) : option (value * ust) :=
  let '(h, ir, ls) := s in
  match a with
  | AStatic x => Some (VStatic x, s)
  | AArr => match ls with LArr x :: r => Some (VArr x, (h, ir, r)) | _ => None end
  | ASub (GRef i) => match iassoc i ir with Some l => Some (VRef l, s) | None => None end
  | ASub (GVar vty i m) =>
      match ls with
      | LVar vty' pl m' :: r => let l := length h in Some (VRef l, (h ++ [OVar vty' pl m'], (i, l) :: ir, r))
      | _ => None                     (* not enough leaves / an array where a Variable is expected *)
      end
  | ASub (GNode ty i attrs) =>
      (* create_empty; index_ref[index] = node; then init with the children *)
      let l := length h in
      match uitems_with unflat attrs (h ++ [ONode ty []], (i, l) :: ir, ls) with
      | None => None
      | Some (vs, (h', ir', ls')) => Some (VRef l, (set_nth l (ONode ty vs) h', ir', ls'))
      end
  | ASub (GTree kd attrs) =>
      match uitems_with unflat attrs s with
      | None => None
      | Some (vs, s') => Some (VTree kd vs, s')
      end
  end.

Definition unflatten (a : gattr) (ls : list leaf) : option (heap * value) :=
  match unflat a ([], [], ls) with
  | Some (v, (h, _, [])) => Some (h, v)
  | _ => None                          (* wrong number of leaves *)
  end.

(* ---------------- split / merge ---------------- *)
(* what a filter sees of a leaf: its path, the classes it satisfies OfType for, its tag *)
Record tyinfo := mkTy { t_mro : N -> list N; t_arr_mro : list N }.
Definition leaf_view (ti : tyinfo) (pl : fleaf) (i : N) : NnxFilters.leaf :=
  match snd pl with
  | LVar vty _ _ => mkLeaf (fst pl) (t_mro ti vty) None i
  | LArr _ => mkLeaf (fst pl) (t_arr_mro ti) None i
  end.

Fixpoint path_leb (a b : path) : bool :=
  match a, b with
  | [], _ => true
  | _ :: _, [] => false
  | x :: a', y :: b' => if (x <? y)%N then true else if (y <? x)%N then false else path_leb a' b'
  end.
Fixpoint insert_leaf (x : fleaf) (l : list fleaf) : list fleaf :=
  match l with [] => [x] | y :: r => if path_leb (fst x) (fst y) then x :: l else y :: insert_leaf x r end.
Definition sort_leaves (l : list fleaf) : list fleaf := fold_right insert_leaf [] l.

(* nnx.split(node, *filters): n buckets; None when a leaf matches no filter, or `...` is not last *)
Definition split_leaves (ti : tyinfo) (fs : list nfilt) (ls : list fleaf) : option (list (list fleaf)) :=
  if negb (ellipsis_ok fs) then None else
  let tagged := combine ls (map N.of_nat (seq 0 (length ls))) in
  let idx := fun pl_i => first_idx fs (leaf_view ti (fst pl_i) (snd pl_i)) in
  if existsb (fun pl_i => Nat.eqb (idx pl_i) (length fs)) tagged then None
  else Some (map (fun i => map fst (filter (fun pl_i => Nat.eqb (idx pl_i) i) tagged)) (seq 0 (length fs))).
Definition split (ti : tyinfo) (fs : list nfilt) (h : heap) (v : value) : option (gattr * list (list fleaf)) :=
  match flatten h v with
  | None => None
  | Some (g, ls) => match fs with
                    | [] => Some (g, [ls])
                    | _ => option_map (pair g) (split_leaves ti fs ls) end
  end.
(* nnx.merge(graphdef, *states): the leaves of all states, sorted by path *)
Definition merge (g : gattr) (states : list (list fleaf)) : option (heap * value) :=
  unflatten g (map snd (sort_leaves (concat states))).

(* ---------------- update / pop ---------------- *)
(* follow a path from a value; the last component must be a Variable (or array) attribute *)
Fixpoint kassoc (k : key) (xs : list (key * value)) : option value :=
  match xs with [] => None | (k', v) :: r => if N.eqb k k' then Some v else kassoc k r end.
Fixpoint resolve (fuel : nat) (h : heap) (v : value) (p : path) : option value :=
  match fuel with O => None | S f =>
  match p with
  | [] => Some v
  | k :: r =>
      match v with
      | VRef l => match nth_error h l with
                  | Some (ONode _ attrs) => match kassoc k attrs with Some v' => resolve f h v' r | None => None end
                  | _ => None end
      | VTree _ items => match kassoc k items with Some v' => resolve f h v' r | None => None end
      | _ => None
      end
  end end.

(* nnx.update(node, state): every (path, VariableState) leaf is written into the Variable found at that path,
   in place (value and metadata); None = the path does not lead to a Variable *)
Definition update1 (h : heap) (root : value) (pl : fleaf) : option heap :=
  match resolve (S (length (fst pl))) h root (fst pl), snd pl with
  | Some (VRef l), LVar vty pl' m =>
      match nth_error h l with
      | Some (OVar vty0 _ _) => Some (set_nth l (OVar vty0 pl' m) h)
      | _ => None end
  | _, _ => None
  end.
Fixpoint update (h : heap) (root : value) (st : list fleaf) : option heap :=
  match st with
  | [] => Some h
  | pl :: r => match update1 h root pl with Some h' => update h' root r | None => None end
  end.

(* remove attribute k from node l *)
Fixpoint kremove (k : key) (xs : list (key * value)) : list (key * value) :=
  match xs with [] => [] | (k', v) :: r => if N.eqb k k' then r else (k', v) :: kremove k r end.

(* nnx.pop(node, *filters) = _graph_pop: a depth-first walk over the nodes (each graph node once); every Variable
   attribute not popped yet (raw arrays are not pop candidates) is tested at THIS path against the predicates in order, and on the first match it
   is removed from the node that holds it (a list/tuple/dict parent raises) and recorded in that filter's bucket.
   A Variable that does not match at one path can still be popped through another path; an alias of a popped
   Variable stays where it is (F19). *)
Record pst := mkPst { p_heap : heap; p_visited : list loc; p_popped : list loc; p_out : list (list fleaf) }.

Fixpoint add_bucket (i : nat) (x : fleaf) (bs : list (list fleaf)) : list (list fleaf) :=
  match bs, i with
  | b :: r, O => (b ++ [x]) :: r
  | b :: r, S j => b :: add_bucket j x r
  | [], _ => []
  end.

Definition pitems_with (rec : path -> option loc -> key -> value -> pst -> option pst) :=
  fix items (p : path) (parent : option loc) (xs : list (key * value)) (s : pst) : option pst :=
    match xs with
    | [] => Some s
    | (k, v) :: r => match rec p parent k v s with None => None | Some s1 => items p parent r s1 end
    end.

(* rec p parent k v: handle attribute k (value v) of the node at path p; parent = Some l for an nnx.Object at l,
   None for a list/tuple/dict *)
Fixpoint gpop (fuel : nat) (ti : tyinfo) (fs : list nfilt) (p : path) (parent : option loc) (k : key) (v : value) (s : pst) : option pst :=
  match fuel with O => None | S f =>
  let p' := p ++ [k] in
  let try_leaf (lf : leaf) (id : option loc) : option pst :=
      let i := first_idx fs (leaf_view ti (p', lf) 0) in
      if Nat.ltb i (length fs) then
        match parent with
        | None => None                                   (* cannot pop a key from a pytree node *)
        | Some pl =>
            match nth_error (p_heap s) pl with
            | Some (ONode ty attrs) =>
                Some (mkPst (set_nth pl (ONode ty (kremove k attrs)) (p_heap s)) (p_visited s)
                            (match id with Some l => l :: p_popped s | None => p_popped s end)
                            (add_bucket i (p', lf) (p_out s)))
            | _ => None
            end
        end
      else Some s in
  match v with
  | VStatic _ => Some s
  | VArr _ => Some s                                    (* is_node_leaf is Variable-only: arrays are never popped *)
  | VTree _ items => pitems_with (gpop f ti fs) p' None items s
  | VRef l =>
      match nth_error (p_heap s) l with
      | None => None
      | Some (OVar vty pl m) => if existsb (Nat.eqb l) (p_popped s) then Some s else try_leaf (LVar vty pl m) (Some l)
      | Some (ONode _ attrs) =>
          if existsb (Nat.eqb l) (p_visited s) then Some s
          else pitems_with (gpop f ti fs) p' (Some l) attrs (mkPst (p_heap s) (l :: p_visited s) (p_popped s) (p_out s))
      end
  end end.

(* pop on a root node *)
Definition pop (ti : tyinfo) (fs : list nfilt) (h : heap) (root : value) : option (heap * list (list fleaf)) :=
  match root with
  | VRef l =>
      match nth_error h l with
      | Some (ONode _ attrs) =>
          match pitems_with (gpop (fuel_for h root) ti fs) [] (Some l) attrs (mkPst h [l] [] (repeat [] (length fs))) with
          | Some s => Some (p_heap s, p_out s)
          | None => None end
      | _ => None end
  | _ => None
  end.

(* ---------------- comparison ---------------- *)
Fixpoint gdef_beq (a b : gdef) : bool :=
  let fix go (x y : list (key * gattr)) : bool :=
      match x, y with
      | [], [] => true
      | (k, u) :: r, (k', u') :: r' =>
          N.eqb k k' && (match u, u' with AStatic s, AStatic s' => N.eqb s s' | AArr, AArr => true | ASub g, ASub g' => gdef_beq g g' | _, _ => false end) && go r r'
      | _, _ => false
      end in
  match a, b with
  | GRef i, GRef j => Nat.eqb i j
  | GVar t i m, GVar t' i' m' => N.eqb t t' && Nat.eqb i i' && N.eqb m m'
  | GNode t i xs, GNode t' i' ys => N.eqb t t' && Nat.eqb i i' && go xs ys
  | GTree k xs, GTree k' ys => N.eqb k k' && go xs ys
  | _, _ => false
  end.
Definition gattr_beq (u u' : gattr) : bool :=
  match u, u' with AStatic s, AStatic s' => N.eqb s s' | AArr, AArr => true | ASub g, ASub g' => gdef_beq g g' | _, _ => false end.
Definition leaf_beq (a b : leaf) : bool :=
  match a, b with LVar t p m, LVar t' p' m' => N.eqb t t' && N.eqb p p' && N.eqb m m' | LArr x, LArr y => N.eqb x y | _, _ => false end.
Definition fleaf_beq (a b : fleaf) : bool := list_beq N.eqb (fst a) (fst b) && leaf_beq (snd a) (snd b).
Definition flat_beq (a b : option (gattr * list fleaf)) : bool :=
  option_beq (fun x y => gattr_beq (fst x) (fst y) && list_beq fleaf_beq (snd x) (snd y)) a b.
