(* The axis arithmetic of the lifted loops: flax/core/axes_scan.py (transpose_to_front / transpose_from_front, used for
   in_axes, out_axes and variable_axes of nn.scan) and the jnp.moveaxis(x, axis, 0) / moveaxis(x, 0, axis) pairs of
   flax/nnx/transforms/iteration.py.  A transposition is the list `perm` handed to jnp.transpose: axis i of the result is
   axis perm[i] of the argument.  Definitions only. *)
From Coq Require Import ZArith List.
From Flaxm Require Import Lib.Harness.

(* a possibly negative axis on an array of rank n *)
Definition norm_axis (n : nat) (ax : Z) : nat := Z.to_nat (if (ax <? 0)%Z then Z.of_nat n + ax else ax)%Z.

Definition without (n a : nat) : list nat := filter (fun i => negb (Nat.eqb i a)) (seq 0 n).

(* perm = (ax,) + tuple(np.delete(range(ndim), ax)) *)
Definition to_front_perm (n : nat) (ax : Z) : list nat := let a := norm_axis n ax in a :: without n a.
(* perm = tuple(range(1, pax + 1)) + (0,) + tuple(range(pax + 1, ndim)) *)
Definition from_front_perm (n : nat) (ax : Z) : list nat := let a := norm_axis n ax in seq 1 a ++ [0] ++ seq (a + 1) (n - a - 1).

(* jnp.transpose on shapes, and the composition of two transpositions: transpose(transpose(x, p1), p2) = transpose(x, p1 after p2) *)
Definition transpose_shape (s : list nat) (perm : list nat) : list nat := map (fun i => nth i s 0) perm.
Definition compose_perm (p1 p2 : list nat) : list nat := map (fun i => nth i p1 0) p2.

(* jnp.moveaxis(x, src, dst): the other axes keep their order, src lands at position dst *)
Definition moveaxis_perm (n : nat) (src dst : Z) : list nat :=
  let s := norm_axis n src in let d := norm_axis n dst in
  let rest := without n s in firstn d rest ++ [s] ++ skipn d rest.

(* the shape of L slices of shape s stacked along axis ax of the result (rank = length s + 1) *)
Definition stack_shape (L : nat) (s : list nat) (ax : Z) : list nat :=
  let a := norm_axis (S (length s)) ax in firstn a s ++ [L] ++ skipn a s.
