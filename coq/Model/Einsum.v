(* flax/linen/linear.py Einsum.__call__ / _get_bias_shape and flax/nnx/nn/linear.py Einsum (same body): y = einsum(eq, x, kernel)
   plus the bias reshaped so that it lines up with the kernel axes that survive in the result.  Labels are numbers (the
   harness expands "..." into explicit labels, as opt_einsum's parser does); tensors are flat row-major lists.
   Definitions only. *)
From Flaxm Require Import Lib.Harness Model.NdIndex.
Open Scope Z_scope.

Definition lab := nat.
Definition size_of (sizes : list (lab * nat)) (l : lab) : nat :=
  match find (fun p => Nat.eqb (fst p) l) sizes with Some p => snd p | None => 1%nat end.
Definition shape_of (sizes : list (lab * nat)) (ls : list lab) : list nat := map (size_of sizes) ls.
(* the coordinate an assignment gives to a label *)
Definition coord (asg : list (lab * nat)) (l : lab) : nat :=
  match find (fun p => Nat.eqb (fst p) l) asg with Some p => snd p | None => 0%nat end.
Definition coords (asg : list (lab * nat)) (ls : list lab) : list nat := map (coord asg) ls.
(* labels of the operands that do not occur in the result are summed over (first occurrence order, no repeats) *)
Fixpoint dedup (ls : list lab) : list lab :=
  match ls with [] => [] | l :: r => l :: filter (fun m => negb (Nat.eqb m l)) (dedup r) end.
Definition contracted (lhs rhs out : list lab) : list lab :=
  filter (fun l => negb (existsb (Nat.eqb l) out)) (dedup (lhs ++ rhs)).
(* the assignment of the labels `ls` given by the flat row-major index i *)
Definition asg_of (sizes : list (lab * nat)) (ls : list lab) (i : nat) : list (lab * nat) :=
  combine ls (unravel (shape_of sizes ls) i).

Definition term (sizes : list (lab * nat)) (lhs rhs : list lab) (x k : list Z) (asg : list (lab * nat)) : Z :=
  nth (ravel (shape_of sizes lhs) (coords asg lhs)) x 0 * nth (ravel (shape_of sizes rhs) (coords asg rhs)) k 0.
Definition einsum_entry (sizes : list (lab * nat)) (lhs rhs out : list lab) (x k : list Z) (o : nat) : Z :=
  let cs := contracted lhs rhs out in
  fold_right Z.add 0 (map (fun c => term sizes lhs rhs x k (asg_of sizes out o ++ asg_of sizes cs c))
                          (seq 0 (prod (shape_of sizes cs)))).
Definition einsum (sizes : list (lab * nat)) (lhs rhs out : list lab) (x k : list Z) : list Z :=
  map (einsum_entry sizes lhs rhs out x k) (seq 0 (prod (shape_of sizes out))).

(* _get_bias_shape: the result axes whose label occurs in the kernel keep their size, the others become 1 *)
Definition in_rhs (rhs : list lab) (l : lab) : bool := existsb (Nat.eqb l) rhs.
Definition bias_bshape (sizes : list (lab * nat)) (rhs out : list lab) : list nat :=
  map (fun l => if in_rhs rhs l then size_of sizes l else 1%nat) out.
Definition bias_pos (sizes : list (lab * nat)) (rhs out : list lab) (o : nat) : nat :=
  ravel (bias_bshape sizes rhs out)
        (map (fun lc => if in_rhs rhs (fst lc) then snd lc else 0%nat) (asg_of sizes out o)).
Definition einsum_layer (sizes : list (lab * nat)) (lhs rhs out : list lab) (x k : list Z) (bias : option (list Z)) : list Z :=
  map (fun o => einsum_entry sizes lhs rhs out x k o +
                match bias with Some b => nth (bias_pos sizes rhs out o) b 0 | None => 0 end)
      (seq 0 (prod (shape_of sizes out))).
