(* flax/nnx/extract.py check_consistent_aliasing: every Variable reached from the arguments of a transform is recorded with the
   prefix (axis specification, DiffState selection, ...) it is reached under; the call is rejected ("Inconsistent aliasing")
   when one Variable has been recorded with two different prefixes.  Variables are identities (numbers), prefixes are codes.
   Definitions only. *)
From Flaxm Require Import Lib.Harness.

Definition occ := (nat * nat)%type.                  (* (Variable identity, prefix code) *)
(* node_prefixes[value]: the prefixes recorded for one Variable *)
Definition prefixes_of (v : nat) (os : list occ) : list nat := map snd (filter (fun o => Nat.eqb (fst o) v) os).
(* len(unique_prefixes) > 1 for no Variable *)
Definition alias_ok (os : list occ) : bool :=
  forallb (fun o => forallb (Nat.eqb (snd o)) (prefixes_of (fst o) os)) os.
(* the one specification a Variable is treated under when the call is accepted *)
Definition spec_for (v : nat) (os : list occ) : option nat := hd_error (prefixes_of v os).
