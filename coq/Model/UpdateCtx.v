(* flax/nnx/graph.py UpdateContext: the 4-step split/merge protocol behind nnx.jit, remat, cond, switch,
   while_loop, fori_loop (extract.to_tree / from_tree with one shared ref_index for all arguments):
     (1) outer split : all arguments are flattened with ONE ref_index (an object reachable from two arguments gets
                       one index); outer_index_outer_ref = index -> caller's object
     (2) inner merge : unflatten builds the inner copies; inner_ref_outer_index = inner object -> index
     (3) inner split : (arguments, result) are flattened with a fresh ref_index; every NodeDef / VariableDef
                       carries outer_index = inner_ref_outer_index.get(object)
     (4) outer merge : unflatten with outer_index_outer_ref: a def whose outer_index is known re-uses the caller's
                       object (node: clear() then init(children); Variable: update_from_state), any other
                       def creates a new object.
   plus the eager semantics of a small language of functions acting on object graphs (reads, Variable
   updates, setattr / delattr, new objects, aliasing).  Definitions only. *)
From Flaxm Require Import Lib.Harness Model.NnxFilters Model.Graph.

(* ---------------- functions on object graphs ---------------- *)
(* a path starts with the position of the argument *)
Inductive expr :=
| EConst (n : N)
| ERead (p : path)                        (* Variable.value at p *)
| EAdd (a b : expr)
| EMul (a b : expr).

Inductive src :=
| SStatic (s : N)                          (* a plain Python value *)
| SAlias (p : path)                        (* the object found at p *)
| SNewVar (vty meta : N) (e : expr)        (* VarType(e, **meta) *)
| SNewNode (ty : N).                       (* Box() *)

Inductive mut :=
| MSetVar (p : path) (e : expr)            (* <p>.value = e *)
| MSetAttr (p : path) (k : key) (s : src)  (* setattr(<p>, k, s) *)
| MDelAttr (p : path) (k : key)            (* delattr(<p>, k) *)
| MSetMeta (p : path) (md : N).            (* the metadata of the Variable <p> becomes the set coded md: entries removed, re-bound, added *)

Definition is_structural (m : mut) : bool := match m with MSetVar _ _ => false | _ => true end.

Definition TUPLE : N := 2.
Definition args_root (args : list value) : value :=
  VTree TUPLE (combine (map N.of_nat (seq 0 (length args))) args).

(* int64 arithmetic: values are kept modulo 2^64 (two's complement wrap-around of + and * ) *)
Definition wrap (x : N) : N := (x mod 18446744073709551616)%N.

Fixpoint eval (h : heap) (root : value) (e : expr) : option N :=
  match e with
  | EConst n => Some n
  | ERead p => match resolve (S (length p)) h root p with
               | Some (VRef l) => match nth_error h l with Some (OVar _ pl _) => Some pl | _ => None end
               | _ => None end
  | EAdd a b => match eval h root a, eval h root b with Some x, Some y => Some (wrap (x + y)) | _, _ => None end
  | EMul a b => match eval h root a, eval h root b with Some x, Some y => Some (wrap (x * y)) | _, _ => None end
  end.

(* vars(node) is kept in sorted order by the node implementation *)
Fixpoint kinsert (k : key) (v : value) (xs : list (key * value)) : list (key * value) :=
  match xs with
  | [] => [(k, v)]
  | (k', v') :: r => if N.eqb k k' then (k, v) :: r else if (k <? k')%N then (k, v) :: xs else (k', v') :: kinsert k v r
  end.
Definition khas (k : key) (xs : list (key * value)) : bool := existsb (fun kv => N.eqb k (fst kv)) xs.

Definition node_at (h : heap) (root : value) (p : path) : option (loc * N * list (key * value)) :=
  match resolve (S (length p)) h root p with
  | Some (VRef l) => match nth_error h l with Some (ONode ty attrs) => Some (l, ty, attrs) | _ => None end
  | _ => None
  end.

Definition step_mut (root : value) (h : heap) (m : mut) : option heap :=
  match m with
  | MSetVar p e =>
      match eval h root e, resolve (S (length p)) h root p with
      | Some x, Some (VRef l) => match nth_error h l with
                                 | Some (OVar t _ md) => Some (set_nth l (OVar t x md) h)
                                 | _ => None end
      | _, _ => None
      end
  | MSetAttr p k s =>
      match node_at h root p with
      | None => None
      | Some (l, ty, attrs) =>
          match s with
          | SStatic x => Some (set_nth l (ONode ty (kinsert k (VStatic x) attrs)) h)
          | SAlias q => match resolve (S (length q)) h root q with
                        | Some (VRef l') => Some (set_nth l (ONode ty (kinsert k (VRef l') attrs)) h)
                        | _ => None end
          | SNewVar vty md e => match eval h root e with
                                | Some x => Some (set_nth l (ONode ty (kinsert k (VRef (length h)) attrs)) h ++ [OVar vty x md])
                                | None => None end
          | SNewNode ty' => Some (set_nth l (ONode ty (kinsert k (VRef (length h)) attrs)) h ++ [ONode ty' []])
          end
      end
  | MDelAttr p k =>
      match node_at h root p with
      | Some (l, ty, attrs) => if khas k attrs then Some (set_nth l (ONode ty (kremove k attrs)) h) else None
      | None => None
      end
  | MSetMeta p md =>
      match resolve (S (length p)) h root p with
      | Some (VRef l) => match nth_error h l with
                         | Some (OVar t x _) => Some (set_nth l (OVar t x md) h)
                         | _ => None end
      | _ => None
      end
  end.

Fixpoint run_mut (root : value) (h : heap) (ms : list mut) : option heap :=
  match ms with
  | [] => Some h
  | m :: r => match step_mut root h m with Some h' => run_mut root h' r | None => None end
  end.

(* what a function returns: a number and, optionally, one of the objects *)
Record fn := mkFn { f_body : list mut; f_ret : expr; f_obj : option path }.

Definition ret_value (h : heap) (root : value) (f : fn) : option (N * option value) :=
  match eval h root (f_ret f) with
  | None => None
  | Some x => match f_obj f with
              | None => Some (x, None)
              | Some q => match resolve (S (length q)) h root q with Some (VRef l) => Some (x, Some (VRef l)) | _ => None end
              end
  end.

(* eager: the function runs on the caller's objects *)
Definition run_eager (f : fn) (times : nat) (h : heap) (args : list value) : option (heap * N * option value) :=
  let root := args_root args in
  match run_mut root h (concat (repeat (f_body f) times)) with
  | None => None
  | Some h' => match ret_value h' root f with Some (x, o) => Some (h', x, o) | None => None end
  end.

(* ---------------- the protocol ---------------- *)
(* flatten that also returns ref_index *)
Definition flatten_ri (h : heap) (v : value) : option (gattr * list fleaf * list loc) :=
  match flat (fuel_for h v) h [] v ([], []) with Some (a, s) => Some (a, snd s, fst s) | None => None end.

(* unflatten into an existing heap: index i is placed at location pi i; a re-used Variable keeps its class *)
Definition place := nat -> loc.

Fixpoint unflat_p (pi : place) (a : gattr) (s : ust) : option (value * ust) :=
  let '(h, ir, ls) := s in
  match a with
  | AStatic x => Some (VStatic x, s)
  | AArr => match ls with LArr x :: r => Some (VArr x, (h, ir, r)) | _ => None end
  | ASub (GRef i) => match iassoc i ir with Some l => Some (VRef l, s) | None => None end
  | ASub (GVar vty i m) =>
      match ls with
      | LVar vty' pl m' :: r => let l := pi i in Some (VRef l, (set_nth l (OVar vty' pl m') h, (i, l) :: ir, r))
      | _ => None
      end
  | ASub (GNode ty i attrs) =>
      let l := pi i in
      match uitems_with (unflat_p pi) attrs (set_nth l (ONode ty []) h, (i, l) :: ir, ls) with
      | None => None
      | Some (vs, (h', ir', ls')) => Some (VRef l, (set_nth l (ONode ty vs) h', ir', ls'))
      end
  | ASub (GTree kd attrs) =>
      match uitems_with (unflat_p pi) attrs s with
      | None => None
      | Some (vs, s') => Some (VTree kd vs, s')
      end
  end.

(* step (4): the placement.  ri3 = the inner objects in the order step (3) numbered them; an inner object l < n1
   is the copy of the caller's object ri1[l]; others are new and go to fresh locations in numbering order *)
Fixpoint placement (ri1 : list loc) (ri3 : list loc) (next : nat) : list loc :=
  match ri3 with
  | [] => []
  | l :: r => match nth_error ri1 l with
              | Some lo => lo :: placement ri1 r next
              | None => next :: placement ri1 r (S next)
              end
  end.
Definition count_new (ri1 ri3 : list loc) : nat := length (filter (fun l => Nat.leb (length ri1) l) ri3).
Definition DUMMY : obj := OVar 0 0 0.

Definition merge_back (h : heap) (ri1 ri3 : list loc) (g3 : gattr) (ls3 : list leaf) : option (heap * value) :=
  let pl := placement ri1 ri3 (length h) in
  let pi := fun i => nth i pl 0 in
  match unflat_p pi g3 (h ++ repeat DUMMY (count_new ri1 ri3), [], ls3) with
  | Some (v, (h', _, [])) => Some (h', v)
  | _ => None
  end.

(* a transformed call: `times` > 1 models fori_loop / while_loop (one trace, the body applied `times` times);
   structural = false models cond / switch / loops, which require the structure to stay as it was *)
Definition OUT : N := 1.
Definition run_ctx (structural_ok : bool) (f : fn) (times : nat) (h : heap) (args : list value) : option (heap * N * option value) :=
  let root := args_root args in
  if negb structural_ok && existsb is_structural (f_body f) then None else
  match flatten_ri h root with
  | None => None
  | Some (g1, ls1, ri1) =>
      match unflatten g1 (map snd ls1) with
      | None => None
      | Some (hi, rooti) =>
          match run_mut rooti hi (concat (repeat (f_body f) times)) with
          | None => None
          | Some hi' =>
              match ret_value hi' rooti f with
              | None => None
              | Some (x, o) =>
                  let out3 := VTree TUPLE [(0%N, rooti); (OUT, match o with Some v => v | None => VStatic 0 end)] in
                  match flatten_ri hi' out3 with
                  | None => None
                  | Some (g3, ls3, ri3) =>
                      match merge_back h ri1 ri3 g3 (map snd ls3) with
                      | Some (h', VTree _ [(_, _); (_, ov)]) => Some (h', x, match o with Some _ => Some ov | None => None end)
                      | _ => None
                      end
                  end
              end
          end
      end
  end.

(* observation: the final graph of (arguments, returned object) as graphdef + leaves, and for each reference object
   of it (in numbering order) which of the objects of the initial heap h0 it IS *)
Definition observe (h0 : heap) (args : list value) (res : heap * N * option value) : option (gattr * list fleaf * list (option nat) * N) :=
  let '(h', x, o) := res in
  let out := VTree TUPLE [(0%N, args_root args); (OUT, match o with Some v => v | None => VStatic 0 end)] in
  match flatten_ri h' out with
  | None => None
  | Some (g, ls, ri) => Some (g, ls, map (fun l => if Nat.ltb l (length h0) then Some l else None) ri, x)
  end.
