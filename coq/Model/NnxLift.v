(* flax/nnx/transforms/iteration.py (StateAxes.map_prefix, vmap, scan with Carry / broadcast / per-step state) and
   flax/nnx/transforms/autodiff.py (grad / value_and_grad with wrt filters and DiffState), at the level of the
   Variables of the argument: which group a Variable falls in, what each index / step sees, what the caller's
   Variables hold afterwards.  jax.vmap / lax.scan / jax.grad themselves are idealised (map, fold, symbolic derivative).
   An axis-group Variable is represented by the list of its slices along the declared axis (the moveaxis arithmetic is
   tied to the code by the correspondence only); a slice is the flat list of its entries.  Definitions only. *)
From Flaxm Require Import Lib.Harness Model.NnxFilters.

Inductive spec := SAxis (k : nat) | SNone | SCarry.

Inductive vval := Whole (t : list Z) | Slices (l : list (list Z)).
Record var := mkVar { v_leaf : leaf; v_val : vval }.

(* StateAxes.map_prefix: the axis of the first filter that matches; no match is an error *)
Definition spec_of (sa : list (nfilt * spec)) (v : var) : option spec :=
  nth_error (map snd sa) (first_idx (map fst sa) (v_leaf v)).

(* ---------------- per-index body ---------------- *)
Inductive bexp := BConst (z : Z) | BX | BC | BSum (i : nat) | BAdd (a b : bexp) | BMul (a b : bexp).
Inductive bstmt :=
| BAddTo (i : nat) (e : bexp)       (* v_i.value = v_i.value + e *)
| BScale (i : nat) (z : Z)          (* v_i.value = v_i.value * z *)
| BSetC (e : bexp).                 (* carry = e *)
Record body := mkBody { b_stmts : list bstmt; b_ret : bexp }.

Definition zsum (l : list Z) : Z := fold_right Z.add 0%Z l.
Fixpoint beval (vals : list (list Z)) (x c : Z) (e : bexp) : Z :=
  match e with
  | BConst z => z
  | BX => x
  | BC => c
  | BSum i => zsum (nth i vals [])
  | BAdd a b => (beval vals x c a + beval vals x c b)%Z
  | BMul a b => (beval vals x c a * beval vals x c b)%Z
  end.
Fixpoint upd {A} (i : nat) (f : A -> A) (l : list A) : list A :=
  match l, i with
  | [], _ => []
  | a :: r, O => f a :: r
  | a :: r, S j => a :: upd j f r
  end.
Definition bstep (x : Z) (st : list (list Z) * Z) (s : bstmt) : list (list Z) * Z :=
  let '(vals, c) := st in
  match s with
  | BAddTo i e => let z := beval vals x c e in (upd i (map (Z.add z)) vals, c)
  | BScale i z => (upd i (map (Z.mul z)) vals, c)
  | BSetC e => (vals, beval vals x c e)
  end.
(* one application: the values the body sees -> (values it leaves, carry, returned y) *)
Definition brun (b : body) (vals : list (list Z)) (x c : Z) : list (list Z) * Z * Z :=
  let '(vals', c') := fold_left (bstep x) (b_stmts b) (vals, c) in (vals', c', beval vals' x c' (b_ret b)).

(* what index i sees of a Variable *)
Definition view (i : nat) (v : vval) : list Z := match v with Whole t => t | Slices l => nth i l [] end.

(* ---------------- vmap ---------------- *)
(* batchedness as jax.vmap tracks it: a value is batched when it was computed from the mapped input or from an
   axis-group Variable *)
Fixpoint btaint (tv : list bool) (tc : bool) (e : bexp) : bool :=
  match e with
  | BConst _ => false | BX => true | BC => tc
  | BSum i => nth i tv false
  | BAdd a b | BMul a b => btaint tv tc a || btaint tv tc b
  end.
Definition tstep (st : list bool * bool) (s : bstmt) : list bool * bool :=
  let '(tv, tc) := st in
  match s with
  | BAddTo i e => (upd i (fun t => t || btaint tv tc e) tv, tc)
  | BScale _ _ => (tv, tc)
  | BSetC e => (tv, btaint tv tc e)
  end.

Inductive res (A : Type) := Ok (a : A) | Err (code : N).
Arguments Ok {A}. Arguments Err {A}.
Definition E_NOAXIS : N := 1.      (* ValueError: No axis found *)
Definition E_BATCHED : N := 2.     (* ValueError: got axis spec None but output was batched *)
Definition E_CARRY : N := 3.       (* Carry is not a vmap axis *)
Definition E_SIZE : N := 4.

Fixpoint all_specs (sa : list (nfilt * spec)) (vs : list var) : option (list spec) :=
  match vs with
  | [] => Some []
  | v :: r => match spec_of sa v, all_specs sa r with Some s, Some ss => Some (s :: ss) | _, _ => None end
  end.
Definition is_axis (s : spec) : bool := match s with SAxis _ => true | _ => false end.
Definition is_none (s : spec) : bool := match s with SNone => true | _ => false end.
Definition is_carry (s : spec) : bool := match s with SCarry => true | _ => false end.

(* result: the new values of the Variables (same representation) and the ys *)
Definition vmap_model (sa : list (nfilt * spec)) (b : body) (vs : list var) (xs : list Z) : res (list vval * list Z) :=
  match all_specs sa vs with
  | None => Err E_NOAXIS
  | Some specs =>
      if existsb (fun fs => is_carry (snd fs)) sa then Err E_CARRY else       (* jax.vmap rejects Carry as an axis, matched or not *)
      let n := length xs in
      let tv := fst (fold_left tstep (b_stmts b) (map is_axis specs, false)) in
      if existsb (fun st => is_none (fst st) && snd st) (combine specs tv) then Err E_BATCHED else
      let per := map (fun i => brun b (map (fun v => view i (v_val v)) vs) (nth i xs 0%Z) 0%Z) (seq 0 n) in
      let new_val := fun (j : nat) (s : spec) =>
        match s with
        | SAxis _ => Slices (map (fun r => nth j (fst (fst r)) []) per)
        | _ => Whole (match per with r :: _ => nth j (fst (fst r)) [] | [] => [] end)
        end in
      Ok (map (fun js => new_val (fst js) (snd js)) (combine (seq 0 (length vs)) specs), map snd per)
  end.

(* ---------------- scan ---------------- *)
(* state during the loop: the current value of every Variable as the NEXT step will see it, the carry, the ys *)
Definition scan_step (specs : list spec) (b : body) (orig : list vval) (i : nat) (x : Z)
                     (st : list vval * Z) : list vval * Z * Z :=
  let '(cur, c) := st in
  let '(vals', c', y) := brun b (map (view i) cur) x c in
  let merge := fun (jsv : nat * spec * vval) =>
    let '(j, s, v) := jsv in
    match s, v with
    | SAxis _, Slices l => Slices (upd i (fun _ => nth j vals' []) l)      (* the step's slice goes back to position i *)
    | SCarry, _ => Whole (nth j vals' [])                                   (* threaded *)
    | _, _ => nth j orig v                                                  (* broadcast: what the body wrote is dropped (F22) *)
    end in
  (map merge (combine (combine (seq 0 (length cur)) specs) cur), c', y).

Fixpoint scan_loop (specs : list spec) (b : body) (orig : list vval) (order : list nat) (xs : list Z)
                   (st : list vval * Z) (ys : list (nat * Z)) : list vval * Z * list (nat * Z) :=
  match order with
  | [] => (fst st, snd st, ys)
  | i :: r => let '(cur', c', y) := scan_step specs b orig i (nth i xs 0%Z) st in
              scan_loop specs b orig r xs (cur', c') (ys ++ [(i, y)])
  end.

Definition ys_in_order (n : nat) (ys : list (nat * Z)) : list Z :=
  map (fun i => match find (fun iy => Nat.eqb (fst iy) i) ys with Some iy => snd iy | None => 0%Z end) (seq 0 n).

Definition scan_model (sa : list (nfilt * spec)) (b : body) (reverse : bool) (vs : list var) (c0 : Z) (xs : list Z)
  : res (list vval * Z * list Z) :=
  match all_specs sa vs with
  | None => Err E_NOAXIS
  | Some specs =>
      let n := length xs in
      let order := if reverse then rev (seq 0 n) else seq 0 n in
      let '(cur, c, ys) := scan_loop specs b (map v_val vs) order xs (map v_val vs, c0) [] in
      Ok (cur, c, ys_in_order n ys)
  end.

(* the reference: the Python loop, where every write persists *)
Definition loop_step (specs : list spec) (b : body) (i : nat) (x : Z) (st : list vval * Z) : list vval * Z * Z :=
  let '(cur, c) := st in
  let '(vals', c', y) := brun b (map (view i) cur) x c in
  let merge := fun (jsv : nat * spec * vval) =>
    let '(j, s, v) := jsv in
    match v with
    | Slices l => Slices (upd i (fun _ => nth j vals' []) l)
    | Whole _ => Whole (nth j vals' [])
    end in
  (map merge (combine (combine (seq 0 (length cur)) specs) cur), c', y).
Fixpoint loop_ref (specs : list spec) (b : body) (order : list nat) (xs : list Z)
                  (st : list vval * Z) (ys : list (nat * Z)) : list vval * Z * list (nat * Z) :=
  match order with
  | [] => (fst st, snd st, ys)
  | i :: r => let '(cur', c', y) := loop_step specs b i (nth i xs 0%Z) st in
              loop_ref specs b r xs (cur', c') (ys ++ [(i, y)])
  end.

(* which Variables a body writes *)
Definition writes (b : body) (j : nat) : bool :=
  existsb (fun s => match s with BAddTo i _ | BScale i _ => Nat.eqb i j | BSetC _ => false end) (b_stmts b).

(* ---------------- grad ---------------- *)
(* the loss: a polynomial in scalar Variables and the extra argument x *)
Inductive gexp := GConst (z : Z) | GVar (i : nat) | GX | GAdd (a b : gexp) | GMul (a b : gexp).
Fixpoint geval (vals : list Z) (x : Z) (e : gexp) : Z :=
  match e with
  | GConst z => z | GVar i => nth i vals 0%Z | GX => x
  | GAdd a b => (geval vals x a + geval vals x b)%Z
  | GMul a b => (geval vals x a * geval vals x b)%Z
  end.
Fixpoint deriv (i : nat) (e : gexp) : gexp :=
  match e with
  | GConst _ => GConst 0 | GX => GConst 0
  | GVar j => if Nat.eqb i j then GConst 1 else GConst 0
  | GAdd a b => GAdd (deriv i a) (deriv i b)
  | GMul a b => GAdd (GMul (deriv i a) b) (GMul a (deriv i b))
  end.

(* nnx.grad(loss, argnums=DiffState(0, wrt)): the gradient lists exactly the Variables wrt selects, each with
   d loss / d value; value_and_grad also returns the loss; side effects of the forward pass (here: counters
   incremented by the loss function) are applied once *)
Record gresult := mkG { g_value : Z; g_grads : list (list N * Z); g_counters : list Z }.
Definition grad_model (wrt : nfilt) (vs : list leaf) (vals0 : list Z) (x : Z) (loss : gexp) (bumps : list nat) : gresult :=
  let idx := seq 0 (length vs) in
  (* the loss function first increments the Variables in `bumps`, then evaluates the polynomial *)
  let vals := map (fun i => (nth i vals0 0 + (if existsb (Nat.eqb i) bumps then 1 else 0))%Z) idx in
  mkG (geval vals x loss)
      (map (fun iv => (lpath (snd iv), geval vals x (deriv (fst iv) loss)))
           (filter (fun iv => denote wrt (snd iv)) (combine idx vs)))
      vals.
