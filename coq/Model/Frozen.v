(* flax/core/frozen_dict.py: FrozenDict (__init__, __getitem__, copy, pop, unfreeze, __reduce__,
   tree_flatten_with_keys / tree_unflatten), _prepare_freeze, freeze, unfreeze, module-level copy / pop,
   as a heap of dict cells on which an adversary mutates every plain dict it can reach.  Definitions only. *)
From Flaxm Require Import Lib.Harness.

Definition loc := nat.
Definition key := N.

(* a value stored in a dict: an opaque leaf, a plain dict object, or a FrozenDict object (whose _dict is the
   cell it points to) *)
Inductive dval := DLeaf (a : N) | DDict (l : loc) | DFrozen (l : loc).
Definition cell := list (key * dval).
(* the flag is ghost state: true = the cell was allocated as the inside of a FrozenDict *)
Definition heap := list (bool * cell).

Definition get_cell (h : heap) (l : loc) : option cell := option_map snd (nth_error h l).
Definition is_priv (h : heap) (l : loc) : bool := match nth_error h l with Some (b, _) => b | None => false end.
Definition alloc (h : heap) (b : bool) (c : cell) : heap * loc := (h ++ [(b, c)], length h).

Fixpoint set_nth {A} (n : nat) (x : A) (l : list A) {struct l} : list A :=
  match l, n with
  | [], _ => []
  | _ :: r, O => x :: r
  | y :: r, S m => y :: set_nth m x r
  end.

Fixpoint cassoc (k : key) (c : cell) : option dval :=
  match c with [] => None | (k', v) :: r => if N.eqb k k' then Some v else cassoc k r end.
Fixpoint cset (k : key) (v : dval) (c : cell) : cell :=
  match c with
  | [] => [(k, v)]
  | (k', v') :: r => if N.eqb k k' then (k', v) :: r else (k', v') :: cset k v r
  end.
Fixpoint cdel (k : key) (c : cell) : cell :=
  match c with [] => [] | (k', v') :: r => if N.eqb k k' then r else (k', v') :: cdel k r end.

(* thread the heap through a function applied to every value of a cell, in order *)
Fixpoint map_cell (rec : heap -> dval -> option (heap * dval)) (c : cell) (h : heap) : option (heap * cell) :=
  match c with
  | [] => Some (h, [])
  | (k, x) :: r =>
      match rec h x with
      | None => None
      | Some (h1, x') => match map_cell rec r h1 with None => None | Some (h2, r') => Some (h2, (k, x') :: r') end
      end
  end.

(* _prepare_freeze: a FrozenDict value gives up its private dict (shared, not copied); a plain dict is
   copied recursively into fresh private cells; anything else is returned as is.  None = RecursionError. *)
Fixpoint prep (fuel : nat) (h : heap) (v : dval) : option (heap * dval) :=
  match fuel with O => None | S f =>
  match v with
  | DLeaf a => Some (h, DLeaf a)
  | DFrozen l => Some (h, DDict l)
  | DDict l =>
      match get_cell h l with
      | None => None
      | Some c =>
          match map_cell (prep f) c h with
          | None => None
          | Some (h', c') => let (h'', l') := alloc h' true c' in Some (h'', DDict l')
          end
      end
  end end.

(* jax.tree_util.tree_map(lambda y: y, d): fresh plain dicts with the same structure.  Inside a FrozenDict's
   _dict there are only raw dicts; applied to a plain dict (module-level copy / pop) a FrozenDict value is
   itself a pytree node and is rebuilt as a new FrozenDict over fresh private cells. *)
Fixpoint tcopy (fuel : nat) (priv : bool) (h : heap) (v : dval) : option (heap * dval) :=
  match fuel with O => None | S f =>
  match v with
  | DLeaf a => Some (h, DLeaf a)
  | DDict l | DFrozen l =>
      let flag := match v with DFrozen _ => true | _ => priv end in
      match get_cell h l with
      | None => None
      | Some c =>
          match map_cell (tcopy f flag) c h with
          | None => None
          | Some (h', c') => let (h'', l') := alloc h' flag c' in
                             Some (h'', match v with DFrozen _ => DFrozen l' | _ => DDict l' end)
          end
      end
  end end.

(* unfreeze: a FrozenDict -> tree_map copy of its _dict as plain dicts; a plain dict -> new dict whose values
   are unfrozen recursively; anything else unchanged *)
Fixpoint unfreeze (fuel : nat) (h : heap) (v : dval) : option (heap * dval) :=
  match fuel with O => None | S f =>
  match v with
  | DLeaf a => Some (h, DLeaf a)
  | DFrozen l => tcopy f false h (DDict l)
  | DDict l =>
      match get_cell h l with
      | None => None
      | Some c =>
          match map_cell (unfreeze f) c h with
          | None => None
          | Some (h', c') => let (h'', l') := alloc h' false c' in Some (h'', DDict l')
          end
      end
  end end.

(* FrozenDict.__getitem__ on the private cell l: dict values come back as FrozenDict(v), which copies *)
Definition fd_get (fuel : nat) (h : heap) (l : loc) (k : key) : option (heap * dval) :=
  match get_cell h l with
  | None => None
  | Some c =>
      match cassoc k c with
      | None => None                                   (* KeyError *)
      | Some (DDict l') =>
          match prep fuel h (DDict l') with Some (h', DDict n) => Some (h', DFrozen n) | _ => None end
      | Some v => Some (h, v)
      end
  end.

(* dict(mapping): iterate the mapping; for a FrozenDict the values go through __getitem__ *)
Fixpoint fd_items (fuel : nat) (h : heap) (l : loc) (ks : list key) : option (heap * cell) :=
  match ks with
  | [] => Some (h, [])
  | k :: r =>
      match fd_get fuel h l k with
      | None => None
      | Some (h1, v) => match fd_items fuel h1 l r with None => None | Some (h2, c) => Some (h2, (k, v) :: c) end
      end
  end.

(* FrozenDict(x) / freeze(x): xs = dict(x) (a shallow copy, public, local), then _prepare_freeze(xs) *)
Definition mk_frozen (fuel : nat) (h : heap) (v : dval) : option (heap * dval) :=
  match v with
  | DLeaf _ => None
  | DDict l =>
      match get_cell h l with
      | None => None
      | Some c => let (h1, t) := alloc h false c in
                  match prep fuel h1 (DDict t) with Some (h2, DDict n) => Some (h2, DFrozen n) | _ => None end
      end
  | DFrozen l =>
      match get_cell h l with
      | None => None
      | Some c =>
          match fd_items fuel h l (map fst c) with
          | None => None
          | Some (h1, c') => let (h2, t) := alloc h1 false c' in
                             match prep fuel h2 (DDict t) with Some (h3, DDict n) => Some (h3, DFrozen n) | _ => None end
          end
      end
  end.

Fixpoint cupdate (c e : cell) : cell :=
  match e with [] => c | (k, v) :: r => cupdate (cset k v c) r end.

(* FrozenDict.copy(add_or_replace) = type(self)({**self, **unfreeze(add_or_replace)}) *)
Definition fd_copy (fuel : nat) (h : heap) (l : loc) (add : dval) : option (heap * dval) :=
  match get_cell h l with
  | None => None
  | Some c =>
      match fd_items fuel h l (map fst c) with
      | None => None
      | Some (h1, c1) =>
          match unfreeze fuel h1 add with
          | Some (h2, DDict a) =>
              match get_cell h2 a with
              | None => None
              | Some ca => let (h3, t) := alloc h2 false (cupdate c1 ca) in mk_frozen fuel h3 (DDict t)
              end
          | _ => None
          end
      end
  end.

(* FrozenDict.pop(key): value = self[key]; new_dict = dict(self._dict) minus key; type(self)(new_dict).
   The local shallow copy of _dict never escapes; it is modelled as a private cell. *)
Definition fd_pop (fuel : nat) (h : heap) (l : loc) (k : key) : option (heap * dval * dval) :=
  match fd_get fuel h l k with
  | None => None
  | Some (h1, v) =>
      match get_cell h1 l with
      | None => None
      | Some c => let (h2, t) := alloc h1 true (cdel k c) in
                  match prep fuel h2 (DDict t) with Some (h3, DDict n) => Some (h3, DFrozen n, v) | _ => None end
      end
  end.

(* ---- the test's view: a registry of the objects it holds ---- *)
Inductive op :=
| ONewDict | ONewLeaf (a : N)
| OFreeze (i : nat) | OUnfreeze (i : nat) | OGet (i : nat) (k : key)
| OCopy (i j : nat) | OPop (i : nat) (k : key) | OTreeMap (i : nat) | OPickle (i : nat)
| OCopyD (i j : nat) | OPopD (i : nat) (k : key)
| OMutSet (i : nat) (k : key) (j : nat) | OMutDel (i : nat) (k : key).

Record state := mkState { st_heap : heap; st_reg : list dval }.
Definition init : state := mkState [] [].

Definition FUEL := 40.

Definition push (h : heap) (reg : list dval) (vs : list dval) : option state := Some (mkState h (reg ++ vs)).

(* one operation; None = the operation raised (nothing changes: the caller keeps the old state) *)
Definition step (s : state) (o : op) : option state :=
  let h := st_heap s in let reg := st_reg s in
  match o with
  | ONewDict => let (h', l) := alloc h false [] in push h' reg [DDict l]
  | ONewLeaf a => push h reg [DLeaf a]
  | OFreeze i => match nth_error reg i with Some v => match mk_frozen FUEL h v with Some (h', r) => push h' reg [r] | None => None end | None => None end
  | OUnfreeze i => match nth_error reg i with Some v => match unfreeze FUEL h v with Some (h', r) => push h' reg [r] | None => None end | None => None end
  | OGet i k =>
      match nth_error reg i with
      | Some (DFrozen l) => match fd_get FUEL h l k with Some (h', r) => push h' reg [r] | None => None end
      | Some (DDict l) => match get_cell h l with Some c => match cassoc k c with Some r => push h reg [r] | None => None end | None => None end
      | _ => None
      end
  | OCopy i j =>
      match nth_error reg i, nth_error reg j with
      | Some (DFrozen l), Some a => match fd_copy FUEL h l a with Some (h', r) => push h' reg [r] | None => None end
      | _, _ => None
      end
  | OPop i k =>
      match nth_error reg i with
      | Some (DFrozen l) => match fd_pop FUEL h l k with Some (h', r, v) => push h' reg [r; v] | None => None end
      | _ => None
      end
  | OTreeMap i =>
      match nth_error reg i with
      | Some (DFrozen l) => match tcopy FUEL false h (DFrozen l) with Some (h', r) => push h' reg [r] | None => None end
      | _ => None
      end
  | OPickle i =>
      match nth_error reg i with
      | Some (DFrozen l) =>
          match unfreeze FUEL h (DFrozen l) with
          | Some (h1, d) => match mk_frozen FUEL h1 d with Some (h2, r) => push h2 reg [r] | None => None end
          | None => None
          end
      | _ => None
      end
  | OCopyD i j =>   (* module-level copy on a plain dict: tree_map copy, then update with add_or_replace's items *)
      match nth_error reg i, nth_error reg j with
      | Some (DDict l), Some a =>
          match tcopy FUEL false h (DDict l) with
          | Some (h1, DDict n) =>
              match a with
              | DDict la => match get_cell h1 la, get_cell h1 n with
                            | Some ca, Some cn => push (set_nth n (false, cupdate cn ca) h1) reg [DDict n]
                            | _, _ => None end
              | DFrozen la => match get_cell h1 la with
                              | Some ca => match fd_items FUEL h1 la (map fst ca) with
                                           | Some (h2, ca') => match get_cell h2 n with
                                                               | Some cn => push (set_nth n (false, cupdate cn ca') h2) reg [DDict n]
                                                               | None => None end
                                           | None => None end
                              | None => None end
              | DLeaf _ => None
              end
          | _ => None
          end
      | _, _ => None
      end
  | OPopD i k =>
      match nth_error reg i with
      | Some (DDict l) =>
          match tcopy FUEL false h (DDict l) with
          | Some (h1, DDict n) =>
              match get_cell h1 n with
              | Some cn => match cassoc k cn with
                           | Some v => push (set_nth n (false, cdel k cn) h1) reg [DDict n; v]
                           | None => None end
              | None => None
              end
          | _ => None
          end
      | _ => None
      end
  | OMutSet i k j =>   (* the adversary: d[k] = x on a plain dict it holds *)
      match nth_error reg i, nth_error reg j with
      | Some (DDict l), Some v =>
          if is_priv h l then None else
          match get_cell h l with Some c => Some (mkState (set_nth l (false, cset k v c) h) reg) | None => None end
      | _, _ => None
      end
  | OMutDel i k =>
      match nth_error reg i with
      | Some (DDict l) =>
          if is_priv h l then None else
          match get_cell h l with
          | Some c => match cassoc k c with
                      | Some _ => Some (mkState (set_nth l (false, cdel k c) h) reg)
                      | None => None     (* KeyError *)
                      end
          | None => None end
      | _ => None
      end
  end.

Definition step' (s : state) (o : op) : state := match step s o with Some s' => s' | None => s end.
Definition run (ops : list op) : state := fold_left step' ops init.

(* ---- observation: the content of an object as a tree ---- *)
Inductive obs := BLeaf (a : N) | BDict (kids : list (key * obs)) | BFrozen (kids : list (key * obs)).

Fixpoint map_opt {A B} (f : A -> option B) (l : list A) : option (list B) :=
  match l with
  | [] => Some []
  | x :: r => match f x, map_opt f r with Some y, Some r' => Some (y :: r') | _, _ => None end
  end.

Fixpoint denote (fuel : nat) (h : heap) (v : dval) : option obs :=
  match fuel with O => None | S f =>
  match v with
  | DLeaf a => Some (BLeaf a)
  | DDict l =>
      match get_cell h l with
      | None => None
      | Some c => option_map BDict (map_opt (fun kx => option_map (pair (fst kx)) (denote f h (snd kx))) c)
      end
  | DFrozen l =>
      match get_cell h l with
      | None => None
      | Some c =>
          (* inside a FrozenDict nested raw dicts read as FrozenDicts *)
          option_map BFrozen (map_opt (fun kx => option_map (pair (fst kx))
             (denote f h (match snd kx with DDict n => DFrozen n | x => x end))) c)
      end
  end end.

(* order-insensitive comparison (dict equality) *)
Fixpoint obs_eqv (a b : obs) : bool :=
  let go := fun (y : list (key * obs)) =>
    fix go (x : list (key * obs)) : bool :=
      match x with
      | [] => true
      | (k, ta) :: r =>
          (fix find (y : list (key * obs)) : bool :=
             match y with [] => false | (k', tb) :: r' => if N.eqb k k' then obs_eqv ta tb else find r' end) y && go r
      end in
  match a, b with
  | BLeaf x, BLeaf y => N.eqb x y
  | BDict x, BDict y => Nat.eqb (length x) (length y) && go y x
  | BFrozen x, BFrozen y => Nat.eqb (length x) (length y) && go y x
  | _, _ => false
  end.

Fixpoint obs_beq (a b : obs) : bool :=
  let fix go (x y : list (key * obs)) : bool :=
      match x, y with
      | [], [] => true
      | (ka, ta) :: ra, (kb, tb) :: rb => N.eqb ka kb && obs_beq ta tb && go ra rb
      | _, _ => false
      end in
  match a, b with
  | BLeaf x, BLeaf y => N.eqb x y
  | BDict x, BDict y => go x y
  | BFrozen x, BFrozen y => go x y
  | _, _ => false
  end.

Definition snapshot (s : state) : list (option obs) := map (denote FUEL (st_heap s)) (st_reg s).

(* ---- hashing: h ^= hash((key, value)) over the items ---- *)
Definition xor_hash (hs : list N) : N := fold_left N.lxor hs 0%N.

(* run and record which operations raised *)
Definition run_flags (ops : list op) : state * list bool :=
  fold_left (fun sf o => match step (fst sf) o with
                         | Some s' => (s', snd sf ++ [false])
                         | None => (fst sf, snd sf ++ [true]) end) ops (init, []).
Definition snap_eqv (a : list (option obs)) (b : list obs) : bool :=
  Nat.eqb (length a) (length b) &&
  forallb (fun ab => match fst ab with Some x => obs_eqv x (snd ab) | None => false end) (combine a b).
