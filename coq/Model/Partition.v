(* flax/core/meta.py Partitioned.add_axis / remove_axis / get_partition_spec, flax/nnx/spmd.py add_axis /
   remove_axis (after the `fix:` commit that normalises negative indices; the old arithmetic is kept as
   *_old for the refutation), and flax/linen/spmd.py _logical_to_mesh_axes.  Definitions only. *)
From Flaxm Require Import Lib.Harness.

Notation name := (option N) (only parsing).          (* an axis name or None *)

(* Python list.insert(i, x) and list.pop(i) for an arbitrary integer i *)
Definition py_insert {A} (i : Z) (x : A) (l : list A) : list A :=
  let n := Z.of_nat (length l) in
  let k := Z.to_nat (if (i <? 0)%Z then Z.max 0 (n + i) else Z.min i n) in
  firstn k l ++ x :: skipn k l.
Definition py_pop {A} (i : Z) (l : list A) : option (A * list A) :=
  let n := Z.of_nat (length l) in
  let k := if (i <? 0)%Z then (n + i)%Z else i in
  if ((0 <=? k) && (k <? n))%Z
  then match nth_error l (Z.to_nat k) with
       | Some x => Some (x, firstn (Z.to_nat k) l ++ skipn (S (Z.to_nat k)) l)
       | None => None
       end
  else None.

Fixpoint pad_none (l : list name) (n : nat) : list name :=
  match n with O => l | S m => pad_none (l ++ [None]) m end.
(* while len(names) < index: names.append(None) *)
Definition pad_to (l : list name) (index : Z) : list name :=
  pad_none l (Z.to_nat (index - Z.of_nat (length l))).

(* `full_rank` = rank of the array that has the stacked axis *)
Definition norm (full_rank : Z) (index : Z) : Z := if (index <? 0)%Z then (index + full_rank)%Z else index.

Definition add_axis (full_rank : Z) (index : Z) (nm : N) (names : list name) : list name :=
  let i := norm full_rank index in py_insert i (Some nm) (pad_to names i).
(* None = the assertion `names.pop(index) == axis_name` fails (or IndexError) *)
Definition remove_axis (full_rank : Z) (index : Z) (nm : N) (names : list name) : option (list name) :=
  match py_pop (norm full_rank index) names with
  | Some (Some x, rest) => if N.eqb x nm then Some rest else None
  | _ => None
  end.

(* the arithmetic before the fix: no normalisation *)
Definition add_axis_old (index : Z) (nm : N) (names : list name) : list name :=
  py_insert index (Some nm) (pad_to names index).
Definition remove_axis_old (index : Z) (nm : N) (names : list name) : option (list name) :=
  match py_pop index names with
  | Some (Some x, rest) => if N.eqb x nm then Some rest else None
  | _ => None
  end.

(* stacking an array of shape `shape` along axis `index` (jnp.stack / lax.scan / vmap out_axes) *)
Definition stack_shape (index : Z) (n : N) (shape : list N) : list N :=
  py_insert (norm (Z.of_nat (length shape) + 1) index) n shape.

(* ---- logical_to_mesh_axes ---- *)
Inductive entry := EUnassigned | ENone | EMesh (axes : list N).   (* EMesh [] : a rule with target None fired *)
Definition rule := (N * list N)%type.

Definition entry_axes (e : entry) : list N := match e with EMesh a => a | _ => [] end.
Definition mesh_free (m : list N) (res : list entry) : bool :=
  negb (existsb (fun a => existsb (fun e => memN a (entry_axes e)) res) m).

Fixpoint index_of_name (x : N) (names : list name) : option nat :=
  match names with
  | [] => None
  | Some y :: r => if N.eqb x y then Some 0 else option_map S (index_of_name x r)
  | None :: r => option_map S (index_of_name x r)
  end.

Fixpoint set_entry (i : nat) (e : entry) (l : list entry) : list entry :=
  match l, i with
  | [], _ => []
  | _ :: r, O => e :: r
  | x :: r, S j => x :: set_entry j e r
  end.

Definition apply_rule (names : list name) (res : list entry) (r : rule) : list entry :=
  match index_of_name (fst r) names with
  | None => res
  | Some pos =>
      match nth_error res pos with
      | Some EUnassigned => if mesh_free (snd r) res then set_entry pos (EMesh (snd r)) res else res
      | _ => res
      end
  end.

Fixpoint has_dup (names : list name) : bool :=
  match names with
  | [] => false
  | Some x :: r => existsb (fun y => match y with Some z => N.eqb x z | None => false end) r || has_dup r
  | None :: r => has_dup r
  end.

(* None = the ValueError for duplicate dimension names *)
Definition logical_to_mesh (names : list name) (rules : list rule) : option (list entry) :=
  if has_dup names then None else
  Some (fold_left (apply_rule names) rules (map (fun n => match n with Some _ => EUnassigned | None => ENone end) names)).

(* PartitionSpec entries: None for unassigned / None, else the mesh axes *)
Definition entry_spec (e : entry) : list N := entry_axes e.

Definition name_beq (a b : name) : bool := option_beq N.eqb a b.
Definition entry_beq (a b : entry) : bool :=
  match a, b with
  | EUnassigned, EUnassigned | ENone, ENone => true
  | EMesh x, EMesh y => list_beq N.eqb x y
  | _, _ => false
  end.
