(* Reference semantics of Linen compact modules over flax.core.Scope:
   flax/core/scope.py Scope (reserve, name_reserved, push, rewound, _collection, _mutable_collection, get/has/
   put_variable, variable, param, make_rng, is_collection_empty, bind, apply, init) and flax/linen/module.py
   (__post_init__ naming with autoname_cursor, _name_taken, param, variable, put_variable, sow, perturb, make_rng,
   _call_wrapped_method's rewound()/reset(), init / init_with_output / apply).
   Definitions only.  Values are 1-D integer arrays; initialisers are constants (the key a parameter
   initialiser receives is recorded in the trace instead of being used for arithmetic). *)
From Flaxm Require Import Lib.Harness Model.Filters.

Definition vec := list Z.
Inductive name := NExp (n : N) | NAuto (cls : N) (k : nat).       (* explicit name, or "<Class>_<k>" *)
Definition name_eqb (a b : name) : bool :=
  match a, b with NExp x, NExp y => N.eqb x y | NAuto c k, NAuto d j => N.eqb c d && Nat.eqb k j | _, _ => false end.
Definition path := list name.
Definition path_eqb : path -> path -> bool := list_beq name_eqb.

(* a stored value: an array, or the tuple that sow accumulates *)
Inductive sval := SVec (v : vec) | STuple (vs : list vec).
(* one collection: a tree of dicts keyed by names *)
Inductive node := VLeaf (v : sval) | VNode (kids : list (name * node)).
Definition vtree := list (N * node).           (* collection name -> its root dict (always a VNode) *)

Fixpoint nassoc (k : name) (kids : list (name * node)) : option node :=
  match kids with [] => None | (k', v) :: r => if name_eqb k k' then Some v else nassoc k r end.
Fixpoint nset (k : name) (v : node) (kids : list (name * node)) : list (name * node) :=
  match kids with
  | [] => [(k, v)]
  | (k', v') :: r => if name_eqb k k' then (k', v) :: r else (k', v') :: nset k v r
  end.
Fixpoint cassoc (c : N) (t : vtree) : option node :=
  match t with [] => None | (c', v) :: r => if N.eqb c c' then Some v else cassoc c r end.
Fixpoint cset (c : N) (v : node) (t : vtree) : vtree :=
  match t with
  | [] => [(c, v)]
  | (c', v') :: r => if N.eqb c c' then (c', v) :: r else (c', v') :: cset c v r
  end.

(* Scope._collection: the dict of a scope inside a collection, None if some dict on the way is missing *)
Fixpoint walk (p : path) (n : node) : option node :=
  match p with
  | [] => Some n
  | k :: r => match n with VNode kids => match nassoc k kids with Some s => walk r s | None => None end | VLeaf _ => None end
  end.
Definition get_var (t : vtree) (col : N) (p : path) (nm : name) : option sval :=
  match cassoc col t with
  | Some root => match walk p root with
                 | Some (VNode kids) => match nassoc nm kids with Some (VLeaf v) => Some v | _ => None end
                 | _ => None end
  | None => None
  end.
(* has_variable is `name in dict`: also true when the entry is a sub-dict *)
Definition has_var (t : vtree) (col : N) (p : path) (nm : name) : bool :=
  match cassoc col t with
  | Some root => match walk p root with
                 | Some (VNode kids) => match nassoc nm kids with Some _ => true | None => false end
                 | _ => false end
  | None => false
  end.
(* _mutable_collection + put: creates the dicts on the way.  A leaf where a dict is expected makes the real code raise
   (item assignment on an array): None *)
Fixpoint put_at (p : path) (nm : name) (v : sval) (n : node) : option node :=
  match n with
  | VLeaf _ => None
  | VNode kids =>
      match p with
      | [] => Some (VNode (nset nm (VLeaf v) kids))
      | k :: r => let sub := match nassoc k kids with Some s => s | None => VNode [] end in
                  match put_at r nm v sub with
                  | Some sub' => Some (VNode (nset k sub' kids))
                  | None => None
                  end
      end
  end.
Definition put_var (t : vtree) (col : N) (p : path) (nm : name) (v : sval) : option vtree :=
  let root := match cassoc col t with Some r => r | None => VNode [] end in
  match put_at p nm v root with
  | Some root' => Some (cset col root' t)
  | None => None
  end.
(* is_collection_empty: col absent from the root variables, or its dict empty *)
Definition col_empty (t : vtree) (col : N) : bool :=
  match cassoc col t with Some (VNode []) => true | Some _ => false | None => true end.

(* ---- programs ---- *)
Inductive expr := EInput | ELocal (x : N) | EConst (v : vec) | EAdd (a b : expr) | EMul (a b : expr) | ESum (a : expr).
Inductive stmt :=
| SParam (x : N) (nm : name) (n : nat) (c : Z)
| SVar (x : N) (col : N) (nm : name) (n : nat) (c : Z)
| SVarSet (col : N) (nm : name) (e : expr)
| SSow (col : N) (nm : name) (e : expr)
| SPerturb (x : N) (nm : name) (e : expr)
| SRng (stream : N)
| SLet (x : N) (e : expr)
| SChild (i : N) (cls : N) (nm : option N)
| SCall (x : N) (i : N) (e : expr).
Definition mclass := (list stmt * expr)%type.           (* compact __call__: statements, then the returned expression *)
Definition classes := list (N * mclass).

Inductive lerr :=
| ENameInUse | EDuplicateName | EModifyScope | EParamNotFound | ECollectionNotFound | EVariableNotFound
| EParamShape | EInvalidRng | EPerturbMissing | EOther.
Inductive res (A : Type) := Ok (a : A) | Err (e : lerr).
Arguments Ok {A} a. Arguments Err {A} e.

(* the key handed out by make_rng: LazyRng(rngs[stream], path ++ [count]).as_jax_rng() *)
Inductive event := KeyDrawn (stream : N) (p : path) (count : nat) | ParamInit (p : path) (nm : name).

Record st := mkSt {
  s_vars : vtree;
  s_counters : list (path * N * nat);       (* rng_counters, shared by all Scope objects of one path *)
  s_trace : list event;
}.
Record env := mkEnv { e_mutable : filt; e_streams : list N; e_classes : classes; e_params : N; e_perturb : N }.

(* arrays are int64: arithmetic wraps modulo 2^64 *)
Definition wrap64 (z : Z) : Z := ((z + 9223372036854775808) mod 18446744073709551616 - 9223372036854775808)%Z.
Definition add64 (a b : Z) : Z := wrap64 (a + b).
Definition mul64 (a b : Z) : Z := wrap64 (a * b).

(* broadcasting elementwise operation: equal lengths, or one side of length 1 *)
Definition vop (f : Z -> Z -> Z) (a b : vec) : option vec :=
  if Nat.eqb (length a) (length b) then Some (map (fun xy => f (fst xy) (snd xy)) (combine a b))
  else match a, b with
       | [x], _ => Some (map (f x) b)
       | _, [y] => Some (map (fun x => f x y) a)
       | _, _ => None
       end.
Definition lassoc {A} (x : N) (l : list (N * A)) : option A :=
  option_map snd (find (fun kv => N.eqb x (fst kv)) l).
Fixpoint eval (locals : list (N * vec)) (input : vec) (e : expr) : option vec :=
  match e with
  | EInput => Some input
  | ELocal x => lassoc x locals
  | EConst v => Some v
  | EAdd a b => match eval locals input a, eval locals input b with Some x, Some y => vop add64 x y | _, _ => None end
  | EMul a b => match eval locals input a, eval locals input b with Some x, Some y => vop mul64 x y | _, _ => None end
  | ESum a => match eval locals input a with Some x => Some [fold_right add64 0%Z x] | None => None end
  end.

(* reservations of one Scope object: name -> the collections (None = a child scope) it is reserved for *)
Definition resv := list (name * option N).
(* name_reserved(name, col) *)
Definition name_reserved (r : resv) (nm : name) (col : option N) : bool :=
  existsb (fun e => name_eqb nm (fst e) &&
                    match snd e, col with
                    | None, _ => true
                    | _, None => true
                    | Some c, Some c' => N.eqb c c'
                    end) r.

Fixpoint counter (cs : list (path * N * nat)) (p : path) (s : N) : nat :=
  match cs with
  | [] => 0
  | (q, t, n) :: r => if path_eqb p q && N.eqb s t then n else counter r p s
  end.
Fixpoint set_counter (cs : list (path * N * nat)) (p : path) (s : N) (n : nat) : list (path * N * nat) :=
  match cs with
  | [] => [(p, s, n)]
  | (q, t, m) :: r => if path_eqb p q && N.eqb s t then (q, t, n) :: r else (q, t, m) :: set_counter r p s n
  end.

(* Scope.make_rng *)
Definition make_rng (ev : env) (p : path) (stream : N) (s : st) : res st :=
  let stream' := if memN stream (e_streams ev) then Some stream
                 else if memN (e_params ev) (e_streams ev) then Some (e_params ev) else None in
  match stream' with
  | None => Err EInvalidRng
  | Some t => let n := S (counter (s_counters s) p t) in
              Ok (mkSt (s_vars s) (set_counter (s_counters s) p t n) (s_trace s ++ [KeyDrawn t p n]))
  end.

Record frame := mkFrame {
  f_locals : list (N * vec);
  f_resv : resv;
  f_auto : list (N * nat);                   (* _state.autoname_cursor *)
  f_insts : list (N * (N * path));           (* instance variable -> (class, scope path) *)
}.
Definition frame0 : frame := mkFrame [] [] [] [].

Definition zeros_like (v : vec) : vec := map (fun _ => 0%Z) v.

Section Interp.
  Variable ev : env.
  (* running a child module's __call__: supplied by the fuelled recursion below *)
  Variable call : N -> path -> vec -> st -> res (vec * st).

  Definition mut (col : N) : bool := in_filter (e_mutable ev) col.

  (* the declared shape of a parameter: n entries, or (n = 0) the shape of the module's input, like a Dense kernel *)
  Definition psize (n : nat) (input : vec) : nat := match n with O => length input | _ => n end.

  Definition step (p : path) (input : vec) (fr : frame) (s : st) (c : stmt) : res (frame * st) :=
    let bind x v := mkFrame ((x, v) :: f_locals fr) (f_resv fr) (f_auto fr) (f_insts fr) in
    let reserve nm col (fr' : frame) := mkFrame (f_locals fr') ((nm, col) :: f_resv fr') (f_auto fr') (f_insts fr') in
    match c with
    | SParam x nm n c0 =>
        let col := e_params ev in
        if name_reserved (f_resv fr) nm (Some col) then Err ENameInUse else
        let fr1 := reserve nm (Some col) fr in
        if has_var (s_vars s) col p nm then
          match get_var (s_vars s) col p nm with
          | Some (SVec v) => if Nat.eqb (length v) (psize n input)
                             then Ok (mkFrame ((x, v) :: f_locals fr1) (f_resv fr1) (f_auto fr1) (f_insts fr1), s)
                             else Err EParamShape
          | _ => Err EOther
          end
        else if negb (mut col) then (if col_empty (s_vars s) col then Err ECollectionNotFound else Err EParamNotFound)
        else match make_rng ev p col s with
             | Err e => Err e
             | Ok s1 => let v := repeat c0 (psize n input) in
                        match put_var (s_vars s1) col p nm (SVec v) with
                        | Some t' => Ok (mkFrame ((x, v) :: f_locals fr1) (f_resv fr1) (f_auto fr1) (f_insts fr1),
                                         mkSt t' (s_counters s1) (s_trace s1 ++ [ParamInit p nm]))
                        | None => Err EOther
                        end
             end
    | SVar x col nm n c0 =>
        if name_reserved (f_resv fr) nm (Some col) then Err ENameInUse else
        let fr1 := reserve nm (Some col) fr in
        if has_var (s_vars s) col p nm then
          match get_var (s_vars s) col p nm with
          | Some (SVec v) => Ok (mkFrame ((x, v) :: f_locals fr1) (f_resv fr1) (f_auto fr1) (f_insts fr1), s)
          | _ => Err EOther
          end
        else if negb (mut col) then (if col_empty (s_vars s) col then Err ECollectionNotFound else Err EVariableNotFound)
        else let v := repeat c0 n in
             match put_var (s_vars s) col p nm (SVec v) with
             | Some t' => Ok (mkFrame ((x, v) :: f_locals fr1) (f_resv fr1) (f_auto fr1) (f_insts fr1), mkSt t' (s_counters s) (s_trace s))
             | None => Err EOther
             end
    | SVarSet col nm e =>
        match eval (f_locals fr) input e with
        | None => Err EOther
        | Some v => if mut col then
                      match put_var (s_vars s) col p nm (SVec v) with
                      | Some t' => Ok (fr, mkSt t' (s_counters s) (s_trace s))
                      | None => Err EOther
                      end
                    else Err EModifyScope
        end
    | SSow col nm e =>
        match eval (f_locals fr) input e with
        | None => Err EOther
        | Some v =>
            if negb (mut col) then Ok (fr, s) else
            if has_var (s_vars s) col p nm then
              match get_var (s_vars s) col p nm with
              | Some (STuple vs) => match put_var (s_vars s) col p nm (STuple (vs ++ [v])) with
                                    | Some t' => Ok (fr, mkSt t' (s_counters s) (s_trace s))
                                    | None => Err EOther
                                    end
              | _ => Err EOther
              end
            else if name_reserved (f_resv fr) nm (Some col) then Err EDuplicateName
            else match put_var (s_vars s) col p nm (STuple [v]) with
                 | Some t' => Ok (reserve nm (Some col) fr, mkSt t' (s_counters s) (s_trace s))
                 | None => Err EOther
                 end
        end
    | SPerturb x nm e =>
        let col := e_perturb ev in
        match eval (f_locals fr) input e with
        | None => Err EOther
        | Some v =>
            let step1 : res (frame * st) :=
              if mut col && negb (has_var (s_vars s) col p nm) then
                if name_reserved (f_resv fr) nm (Some col) then Err EDuplicateName
                else match put_var (s_vars s) col p nm (SVec (zeros_like v)) with
                     | Some t' => Ok (reserve nm (Some col) fr, mkSt t' (s_counters s) (s_trace s))
                     | None => Err EOther
                     end
              else Ok (fr, s) in
            match step1 with
            | Err e => Err e
            | Ok (fr1, s1) =>
                match cassoc col (s_vars s1) with
                | None => Ok (mkFrame ((x, v) :: f_locals fr1) (f_resv fr1) (f_auto fr1) (f_insts fr1), s1)
                | Some _ =>
                    match get_var (s_vars s1) col p nm with
                    | Some (SVec old) => match vop add64 v old with
                                         | Some v' => Ok (mkFrame ((x, v') :: f_locals fr1) (f_resv fr1) (f_auto fr1) (f_insts fr1), s1)
                                         | None => Err EOther end
                    | _ => Err EPerturbMissing
                    end
                end
            end
        end
    | SRng stream => match make_rng ev p stream s with Ok s1 => Ok (fr, s1) | Err e => Err e end
    | SLet x e => match eval (f_locals fr) input e with Some v => Ok (bind x v, s) | None => Err EOther end
    | SChild i cls nm =>
        let '(name', auto') :=
          match nm with
          | Some n => (NExp n, f_auto fr)
          | None => let k := match lassoc cls (f_auto fr) with Some k => k | None => 0 end in
                    (NAuto cls k, (cls, S k) :: filter (fun ck => negb (N.eqb cls (fst ck))) (f_auto fr))
          end in
        if name_reserved (f_resv fr) name' None then Err ENameInUse
        else Ok (mkFrame (f_locals fr) ((name', None) :: f_resv fr) auto' ((i, (cls, p ++ [name'])) :: f_insts fr), s)
    | SCall x i e =>
        match eval (f_locals fr) input e, lassoc i (f_insts fr) with
        | Some v, Some (cls, cp) =>
            match call cls cp v s with
            | Ok (y, s1) => Ok (bind x y, s1)
            | Err er => Err er
            end
        | _, _ => Err EOther
        end
    end.

  Fixpoint steps (p : path) (input : vec) (fr : frame) (s : st) (cs : list stmt) : res (frame * st) :=
    match cs with
    | [] => Ok (fr, s)
    | c :: r => match step p input fr s c with Ok (fr1, s1) => steps p input fr1 s1 r | Err e => Err e end
    end.
End Interp.

(* a module call: fresh frame (the scope is rewound and the internal state reset after every compact call) *)
Fixpoint run_call (fuel : nat) (ev : env) (cls : N) (p : path) (input : vec) (s : st) : res (vec * st) :=
  match fuel with
  | O => Err EOther
  | S f =>
      match lassoc cls (e_classes ev) with
      | None => Err EOther
      | Some (body, ret) =>
          match steps ev (run_call f ev) p input frame0 s body with
          | Err e => Err e
          | Ok (fr, s1) => match eval (f_locals fr) input ret with Some y => Ok (y, s1) | None => Err EOther end
          end
      end
  end.

Definition FUEL := 12.

(* Module.apply(variables, x, rngs, mutable): output, final variable tree, trace *)
Definition apply_m (ev : env) (top : N) (vars : vtree) (x : vec) : res (vec * st) :=
  run_call FUEL ev top [] x (mkSt vars [] []).
(* what apply returns besides the output: the collections selected by `mutable` *)
Definition returned (ev : env) (t : vtree) : vtree := filter (fun cv => in_filter (e_mutable ev) (fst cv)) t.

(* ---- order-insensitive comparison of variable trees ---- *)
Definition vec_beq : vec -> vec -> bool := list_beq Z.eqb.
Definition sval_beq (a b : sval) : bool :=
  match a, b with SVec x, SVec y => vec_beq x y | STuple x, STuple y => list_beq vec_beq x y | _, _ => false end.
Fixpoint node_eqv (a b : node) : bool :=
  let go := fun (y : list (name * node)) =>
    fix go (x : list (name * node)) : bool :=
      match x with
      | [] => true
      | (k, ta) :: r =>
          (fix find (y : list (name * node)) : bool :=
             match y with [] => false | (k', tb) :: r' => if name_eqb k k' then node_eqv ta tb else find r' end) y && go r
      end in
  match a, b with
  | VLeaf x, VLeaf y => sval_beq x y
  | VNode x, VNode y => Nat.eqb (length x) (length y) && go y x
  | _, _ => false
  end.
Definition vtree_eqv (a b : vtree) : bool :=
  Nat.eqb (length a) (length b) &&
  forallb (fun cv => match cassoc (fst cv) b with Some n => node_eqv (snd cv) n | None => false end) a.
