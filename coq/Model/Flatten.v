(* flax/traverse_util.py flatten_dict / unflatten_dict / path_aware_map, flax/nnx/traversals.py
   flatten_mapping / flatten_to_sequence / unflatten_mapping, and the flat-state algebra of
   flax/nnx/statelib.py (merge_state, diff, to/from_flat_state).  Definitions only. *)
From Flaxm Require Import Lib.Harness.

Definition key := list N.           (* a string as UTF-8 bytes *)
Definition path := list key.
Definition key_eqb : key -> key -> bool := list_beq N.eqb.
Definition path_eqb : path -> path -> bool := list_beq key_eqb.

Inductive tree := Leaf (a : N) | Node (kids : list (key * tree)).

(* values of a flat dict: a leaf or a dict declared leaf by is_leaf (kept whole), or the empty_node sentinel *)
Inductive fval := VTree (t : tree) | VEmpty.

Definition cons_path (k : key) (e : path * fval) : path * fval := (k :: fst e, snd e).

(* _flatten, written relative to the current node: `il` receives the absolute path because each
   recursive call prepends the key it descends through; `g` post-processes leaf payloads with their
   absolute path (identity for flatten_dict; the user's function for path_aware_map) *)
Fixpoint dfs (keep : bool) (il : path -> tree -> bool) (g : path -> N -> N) (root : bool) (t : tree)
  : list (path * fval) :=
  match t with
  | Leaf a => [([], VTree (Leaf (g [] a)))]
  | Node kids =>
      if il [] t then [([], VTree t)] else
      match kids with
      | [] => if keep then (if root then [] else [([], VEmpty)]) else []
      | _ => flat_map (fun kt => map (cons_path (fst kt))
                                   (dfs keep (fun p => il (fst kt :: p)) (fun p => g (fst kt :: p)) false (snd kt))) kids
      end
  end.

Definition no_leaf : path -> tree -> bool := fun _ _ => false.
Definition idg : path -> N -> N := fun _ a => a.

Definition flatten (keep : bool) (il : path -> tree -> bool) (t : tree) := dfs keep il idg true t.

(* ---- unflatten ---- *)
Fixpoint assoc (k : key) (kids : list (key * tree)) : option tree :=
  match kids with [] => None | (k', v) :: r => if key_eqb k k' then Some v else assoc k r end.
Fixpoint assoc_set (k : key) (v : tree) (kids : list (key * tree)) : list (key * tree) :=
  match kids with
  | [] => [(k, v)]
  | (k', v') :: r => if key_eqb k k' then (k', v) :: r else (k', v') :: assoc_set k v r
  end.

Definition val_tree (v : fval) : tree := match v with VTree t => t | VEmpty => Node [] end.

(* one iteration of the loop in unflatten_dict; None = the IndexError on an empty path, or indexing
   into a non-dict *)
Fixpoint insert (p : path) (v : tree) (t : tree) : option tree :=
  match p with
  | [] => None
  | [k] => match t with Node kids => Some (Node (assoc_set k v kids)) | Leaf _ => None end
  | k :: rest =>
      match t with
      | Node kids =>
          match assoc k kids with
          | Some sub => option_map (fun s => Node (assoc_set k s kids)) (insert rest v sub)
          | None => option_map (fun s => Node (assoc_set k s kids)) (insert rest v (Node []))
          end
      | Leaf _ => None
      end
  end.

Fixpoint ins_all (l : list (path * fval)) (t : tree) : option tree :=
  match l with
  | [] => Some t
  | (p, v) :: r => match insert p (val_tree v) t with Some t' => ins_all r t' | None => None end
  end.

Definition unflatten (l : list (path * fval)) : option tree := ins_all l (Node []).

(* path_aware_map f = unflatten (map f over flatten(keep_empty_nodes=True)) *)
Definition path_aware_map (g : path -> N -> N) (t : tree) : option tree :=
  unflatten (dfs true no_leaf g true t).

(* the structural reference: map over leaves with their path, keeping everything else *)
Fixpoint tmap (g : path -> N -> N) (t : tree) : tree :=
  match t with
  | Leaf a => Leaf (g [] a)
  | Node kids => Node (map (fun kt => (fst kt, tmap (fun p => g (fst kt :: p)) (snd kt))) kids)
  end.

(* prune: what survives a round trip without keep_empty_nodes -- sub-dicts that contain no leaf vanish.
   has_leaf respects is_leaf (a dict declared leaf counts as a leaf). *)
Fixpoint has_leaf (il : path -> tree -> bool) (t : tree) : bool :=
  match t with
  | Leaf _ => true
  | Node kids => il [] t || existsb (fun kt => has_leaf (fun p => il (fst kt :: p)) (snd kt)) kids
  end.
Fixpoint prune (il : path -> tree -> bool) (t : tree) : tree :=
  match t with
  | Leaf a => t
  | Node kids =>
      if il [] t then t else
      Node (flat_map (fun kt => if has_leaf (fun p => il (fst kt :: p)) (snd kt)
                                then [(fst kt, prune (fun p => il (fst kt :: p)) (snd kt))] else []) kids)
  end.

(* well-formed: sibling keys are pairwise different *)
Fixpoint keys_nodup (ks : list key) : bool :=
  match ks with [] => true | k :: r => negb (existsb (key_eqb k) r) && keys_nodup r end.
Fixpoint wf (t : tree) : bool :=
  match t with
  | Leaf _ => true
  | Node kids => keys_nodup (map fst kids) && forallb (fun kt => wf (snd kt)) kids
  end.

(* ---- separator-joined keys ---- *)
Fixpoint join (sep : key) (p : path) : key :=
  match p with [] => [] | [k] => k | k :: r => k ++ sep ++ join sep r end.

Fixpoint is_prefix (a b : key) : bool :=
  match a, b with [] , _ => true | x :: a', y :: b' => N.eqb x y && is_prefix a' b' | _ :: _, [] => false end.

(* Python's str.split(sep) for a non-empty sep: leftmost non-overlapping occurrences *)
Fixpoint split_go (sep : key) (s : key) (skip : nat) (cur : key) : list key :=
  match s with
  | [] => [rev cur]
  | c :: r =>
      match skip with
      | S k => split_go sep r k cur
      | O => if is_prefix sep s then rev cur :: split_go sep r (length sep - 1) []
             else split_go sep r 0 (c :: cur)
      end
  end.
Definition split (sep : key) (s : key) : path := split_go sep s 0 [].

Definition flatten_sep sep keep il t : list (key * fval) :=
  map (fun e => (join sep (fst e), snd e)) (flatten keep il t).
Definition unflatten_sep sep (l : list (key * fval)) : option tree :=
  unflatten (map (fun e => (split sep (fst e), snd e)) l).

(* ---- is_leaf predicates the harness can name ---- *)
Inductive leafpred := LPNone | LPDepth (n : nat) | LPLastKey (k : key) | LPHasKey (k : key) | LPAll.
Definition run_lp (lp : leafpred) : path -> tree -> bool :=
  fun p t =>
    match lp with
    | LPNone => false
    | LPAll => true
    | LPDepth n => Nat.leb n (length p)
    | LPLastKey k => match rev p with k' :: _ => key_eqb k k' | [] => false end
    | LPHasKey k => match t with Node kids => existsb (fun kt => key_eqb k (fst kt)) kids | Leaf _ => false end
    end.

(* ---- flat states (statelib): association lists path -> leaf id ---- *)
Definition flat := list (path * N).
Fixpoint flookup (p : path) (l : flat) : option N :=
  match l with [] => None | (q, v) :: r => if path_eqb p q then Some v else flookup p r end.
Fixpoint fset (p : path) (v : N) (l : flat) : flat :=
  match l with
  | [] => [(p, v)]
  | (q, w) :: r => if path_eqb p q then (q, v) :: r else (q, w) :: fset p v r
  end.
(* dict.update *)
Definition fupdate (d e : flat) : flat := fold_left (fun acc pv => fset (fst pv) (snd pv) acc) e d.
(* merge_state: new_state = {}; for s in states: new_state.update(flatten(s)) *)
Definition merge_flat (ss : list flat) : flat := fold_left fupdate ss [].
(* diff (after the fix: commit 9d92229): the entries of a whose path is not a path of b *)
Definition diff_flat (a b : flat) : flat :=
  match b with [] => a | _ => filter (fun pv => negb (existsb (path_eqb (fst pv)) (map fst b))) a end.

(* executable comparison helpers for the cases files *)
Fixpoint tree_beq (x y : tree) : bool :=
  match x, y with
  | Leaf a, Leaf b => N.eqb a b
  | Node k1, Node k2 =>
      (fix go (a b : list (key * tree)) : bool :=
         match a, b with
         | [], [] => true
         | (ka, ta) :: ra, (kb, tb) :: rb => key_eqb ka kb && tree_beq ta tb && go ra rb
         | _, _ => false
         end) k1 k2
  | _, _ => false
  end.
Definition fval_beq (x y : fval) : bool :=
  match x, y with VTree a, VTree b => tree_beq a b | VEmpty, VEmpty => true | _, _ => false end.
