(* flax/nnx/transforms/iteration.py _update_variable_sharding_metadata: which substate of a graph node gets the partition
   name added / removed at which axis.  nnx.vmap keeps one substate per filter of the StateAxes in NodeStates.states;
   nnx.scan keeps only the substates whose axis is an integer (carry and broadcast substates travel separately), or one
   empty placeholder when there is none.  Definitions only. *)
From Flaxm Require Import Lib.Harness.

Inductive sax := SAInt (k : Z) | SANone | SACarry.
Definition is_int (a : sax) : bool := match a with SAInt _ => true | _ => false end.

(* the axes the substates are paired with (after the fix F34): all of them when there is one substate per filter, the
   integer ones when only the vectorized substates are there *)
Definition aligned_axes (nstates : nat) (axes : list sax) : list sax :=
  if Nat.eqb nstates (length axes) then axes else filter is_int axes.

Section Apply.
  Variable S : Type.
  Variable axis_fn : S -> Z -> S.        (* spmd.add_axis / spmd.remove_axis with the transform's metadata *)
  Fixpoint pair_up (states : list S) (axes : list sax) : list S :=
    match states with
    | [] => []
    | s :: r => match axes with
                | SAInt k :: ar => axis_fn s k :: pair_up r ar
                | _ :: ar => s :: pair_up r ar
                | [] => s :: pair_up r []
                end
    end.
  Definition update_meta (states : list S) (axes : list sax) : list S := pair_up states (aligned_axes (length states) axes).
  (* before the fix: zip(states, axes), the tail of states dropped *)
  Fixpoint update_meta_old (states : list S) (axes : list sax) : list S :=
    match states, axes with
    | s :: r, SAInt k :: ar => axis_fn s k :: update_meta_old r ar
    | s :: r, _ :: ar => s :: update_meta_old r ar
    | _, _ => []
    end.

  (* what the two transforms put into `states` *)
  Definition scan_states (per_filter : list S) (axes : list sax) (placeholder : S) : list S :=
    match map fst (filter (fun sa => is_int (snd sa)) (combine per_filter axes)) with
    | [] => [placeholder]
    | l => l
    end.
End Apply.
