(* Row-major (C order) index arithmetic of n-dimensional arrays, as numpy / jax use it for reshape, ravel and reductions over
   axes; grouping of the flat indices of an array by a key.  Used for the reduction groups of the normalisation layers
   (flax/linen/normalization.py _compute_stats / _normalize, GroupNorm's reshape of the feature axis).  Definitions only. *)
From Coq Require Import List Arith Bool.
Import ListNotations.

Definition prod (shape : list nat) : nat := fold_right Nat.mul 1 shape.

(* flat index -> multi-index, last axis fastest *)
Fixpoint unravel (shape : list nat) (i : nat) : list nat :=
  match shape with
  | [] => []
  | _ :: r => (i / prod r) :: unravel r (i mod prod r)
  end.

Fixpoint ravel (shape idx : list nat) : nat :=
  match shape, idx with
  | _ :: r, k :: ks => k * prod r + ravel r ks
  | _, _ => 0
  end.

Fixpoint in_range (shape idx : list nat) : bool :=
  match shape, idx with
  | [], [] => true
  | d :: r, k :: ks => Nat.ltb k d && in_range r ks
  | _, _ => false
  end.

(* group the numbers 0 .. n-1 by a key: one group per distinct key, in order of first appearance, members ascending *)
Fixpoint keys_seen {K} (eqb : K -> K -> bool) (key : nat -> K) (l : list nat) (seen : list K) : list K :=
  match l with
  | [] => []
  | i :: r => if existsb (eqb (key i)) seen then keys_seen eqb key r seen else key i :: keys_seen eqb key r (key i :: seen)
  end.
Definition groups_by {K} (eqb : K -> K -> bool) (key : nat -> K) (n : nat) : list (list nat) :=
  map (fun k => filter (fun i => eqb (key i) k) (seq 0 n)) (keys_seen eqb key (seq 0 n) []).

(* ---- the keys of the normalisation layers: two elements share their statistics iff their keys are equal ---- *)
Definition list_nat_eqb (a b : list nat) : bool := if list_eq_dec Nat.eq_dec a b then true else false.

(* LayerNorm / RMSNorm / InstanceNorm: statistics over the reduction axes; the key keeps the other coordinates *)
Definition mask_axes (red : list nat) (idx : list nat) : list nat :=
  map (fun ak => if existsb (Nat.eqb (fst ak)) red then 0 else snd ak) (combine (seq 0 (length idx)) idx).
Definition reduce_key (shape red : list nat) (i : nat) : list nat := mask_axes red (unravel shape i).

(* GroupNorm: x.reshape(shape[:-1] + (G, C/G)), statistics over every axis but the batch axis 0 and the group axis *)
Definition group_shape (shape : list nat) (g : nat) : list nat :=
  removelast shape ++ [g; last shape 1 / g].
Definition group_key (shape : list nat) (g : nat) (i : nat) : list nat :=
  let gs := group_shape shape g in
  let nd := length gs in
  mask_axes (filter (fun a => negb (Nat.eqb a 0) && negb (Nat.eqb a (nd - 2))) (seq 0 nd)) (unravel gs i).

(* ---- sorting axis lists (flax normalises contraction / reduction axes with sorted(...)) ---- *)
Fixpoint ninsert (x : nat) (l : list nat) : list nat :=
  match l with
  | [] => [x]
  | y :: r => if Nat.leb x y then x :: l else y :: ninsert x r
  end.
Definition nsort (l : list nat) : list nat := fold_right ninsert [] l.
(* axis % ndim for an axis in [-ndim, ndim), given as (negative, magnitude) *)
Definition norm_ax (ndim : nat) (a : bool * nat) : nat := if fst a then ndim - snd a else snd a.
