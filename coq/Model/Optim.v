(* flax/training/train_state.py TrainState.apply_gradients (incl. the OVERWRITE_WITH_GRADIENT branch),
   flax/nnx/training/optimizer.py Optimizer.update with _wrap_optimizer_state / _opt_state_variables_to_state /
   _update_opt_state, flax/nnx/helpers.py TrainState.apply_gradients; flax/nnx/training/metrics.py Average,
   Accuracy, Welford, MultiMetric.  Definitions only. *)
From Coq Require Import QArith.
From Flaxm Require Import Lib.Harness Model.NnxFilters.

(* ---------------- the functional train states, for an arbitrary optax transformation ---------------- *)
Section Wrappers.
  Variables P G O U : Type.
  Variable tx_update : G -> O -> P -> U * O.       (* optax: tx.update(grads, opt_state, params) *)
  Variable apply_updates : P -> U -> P.            (* optax.apply_updates *)

  Record tstate := mkTs { ts_step : N; ts_params : P; ts_ostate : O }.

  Definition apply_gradients (ts : tstate) (g : G) : tstate :=
    let (u, o') := tx_update g (ts_ostate ts) (ts_params ts) in
    mkTs (ts_step ts + 1) (apply_updates (ts_params ts) u) o'.

  (* what one writes by hand *)
  Definition hand_step (po : P * O) (g : G) : P * O :=
    let (u, o') := tx_update g (snd po) (fst po) in (apply_updates (fst po) u, o').

  (* OVERWRITE_WITH_GRADIENT: params = {'params': inner, OWG: x}; the OWG part is replaced by its gradient and
     excluded from the transformation *)
  Variable W : Type.
  Definition apply_gradients_owg (ts : tstate) (w : W) (g : G) (gw : W) : tstate * W :=
    let (u, o') := tx_update g (ts_ostate ts) (ts_params ts) in
    (mkTs (ts_step ts + 1) (apply_updates (ts_params ts) u) o', gw).
End Wrappers.
Arguments mkTs {P O}. Arguments ts_step {P O}. Arguments ts_params {P O}. Arguments ts_ostate {P O}.

(* ---------------- nnx.Optimizer over the Variables of a model ---------------- *)
Definition vec := list Z.
Record var := mkVar { v_path : list N; v_mro : list N; v_val : vec }.
Definition flatp := list (list N * vec).

Definition var_leaf (v : var) : leaf := mkLeaf (v_path v) (v_mro v) None 0.
Definition selected (wrt : nfilt) (v : var) : bool := denote wrt (var_leaf v).
(* nnx.state(model, wrt) *)
Definition state_of (wrt : nfilt) (vars : list var) : flatp :=
  map (fun v => (v_path v, v_val v)) (filter (selected wrt) vars).

Fixpoint plookup (p : list N) (s : flatp) : option vec :=
  match s with [] => None | (q, x) :: r => if list_beq N.eqb p q then Some x else plookup p r end.
(* nnx.update(model, new_params): values are assigned along paths *)
Definition write_back (vars : list var) (s : flatp) : list var :=
  map (fun v => match plookup (v_path v) s with Some x => mkVar (v_path v) (v_mro v) x | None => v end) vars.

Definition vadd (a b : vec) : vec := map (fun xy => (fst xy + snd xy)%Z) (combine a b).
(* optax.apply_updates on states with the same paths *)
Definition apply_updates_flat (p u : flatp) : flatp :=
  map (fun pu => (fst (fst pu), vadd (snd (fst pu)) (snd (snd pu)))) (combine p u).

Section NnxOptimizer.
  Variable O : Type.
  Variable tx_update : flatp -> O -> flatp -> flatp * O.
  Record opt := mkOpt { o_step : N; o_vars : list var; o_state : O }.
  Definition opt_update (wrt : nfilt) (o : opt) (grads : flatp) : opt :=
    let params := state_of wrt (o_vars o) in
    let (u, s') := tx_update grads (o_state o) params in
    mkOpt (o_step o + 1) (write_back (o_vars o) (apply_updates_flat params u)) s'.
End NnxOptimizer.
Arguments mkOpt {O}. Arguments o_step {O}. Arguments o_vars {O}. Arguments o_state {O}.

(* optimizer-state leaves are wrapped as Variables (OptVariable remembers the source type) and unwrapped
   before each tx.update *)
Inductive ostleaf := OArr (x : vec) | OVarState (ty : N) (x : vec).
Inductive wrapped := WOptArray (x : vec) | WOptVariable (source_ty : N) (x : vec).
Definition wrap (l : ostleaf) : wrapped := match l with OArr x => WOptArray x | OVarState t x => WOptVariable t x end.
Definition unwrap (w : wrapped) : ostleaf := match w with WOptArray x => OArr x | WOptVariable t x => OVarState t x end.

(* an executable instance used by the correspondence check: integer "momentum with weight decay":
   trace' = g + trace ; update = -(2 g + trace + p) *)
Definition mom_update (g : flatp) (tr : flatp) (p : flatp) : flatp * flatp :=
  (map (fun gtp => let '(gx, tx, px) := gtp in
          (fst gx, map (fun abc => let '(a, b, c) := abc in (- (2 * a + b + c))%Z) (combine (combine (snd gx) (snd tx)) (snd px))))
       (combine (combine g tr) p),
   map (fun gt => (fst (fst gt), vadd (snd (fst gt)) (snd (snd gt)))) (combine g tr)).
Definition zeros_like (p : flatp) : flatp := map (fun pv => (fst pv, map (fun _ => 0%Z) (snd pv))) p.

(* ---------------- metrics over Q ---------------- *)
Open Scope Q_scope.
Definition qsum (l : list Q) : Q := fold_right Qplus 0 l.
Definition qsumsq (l : list Q) : Q := fold_right (fun x a => x * x + a) 0 l.
Definition qlen (l : list Q) : Q := inject_Z (Z.of_nat (length l)).

(* Average: total += values.sum(); count += values.size *)
Definition avg_state := (Q * Q)%type.
Definition avg_update (s : avg_state) (batch : list Q) : avg_state := (fst s + qsum batch, snd s + qlen batch).
Definition avg_compute (s : avg_state) : Q := fst s / snd s.

(* Welford: count, mean, m2 with the Chan merge as coded *)
Definition wf_state := (Q * Q * Q)%type.
Definition wf_init : wf_state := (0, 0, 0).
Definition wf_update (s : wf_state) (batch : list Q) : wf_state :=
  let '(n, m, m2) := s in
  let c := qlen batch in
  let mb := qsum batch / c in                       (* values.mean() *)
  let vb := qsumsq batch / c - mb * mb in           (* values.var()  *)
  let n' := n + c in
  let d := mb - m in
  (n', m + d * c / n', m2 + (vb * c + d * d * c * n / n')).
Definition wf_variance (s : wf_state) : Q := let '(n, _, m2) := s in m2 / n.
Definition wf_mean (s : wf_state) : Q := let '(_, m, _) := s in m.

(* the statistic of a stream, from its sums *)
Definition of_sums (c a b : Q) : wf_state := (c, a / c, b - a * a / c).
Close Scope Q_scope.
