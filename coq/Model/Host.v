(* flax/jax_utils.py pad_shard_unpad (padding arithmetic), _invert_perm, prefetch_to_device (after the `fix:`
   commit that drains the queue before re-raising); flax/training/prefetch_iterator.py PrefetchIterator as a
   labelled transition system (constructor order as after the `fix:` commit).  Definitions only. *)
From Flaxm Require Import Lib.Harness Model.Serial.

(* ---------------- pad_shard_unpad ---------------- *)
(* per-device batch after padding: db, rest = divmod(b, d); if rest: db += 1; if mdb and db < mdb: db = mdb *)
Definition device_batch (b d : nat) (mdb : option nat) : nat :=
  let db := if Nat.eqb (b mod d) 0 then b / d else S (b / d) in
  match mdb with
  | Some m => if Nat.eqb m 0 then db else if Nat.ltb db m then m else db
  | None => db
  end.
(* the padded, sharded argument: d rows of db examples (zeros appended) *)
Definition pad_shard (d : nat) (mdb : option nat) (x : list Z) : list (list Z) :=
  let b := length x in let db := device_batch b d mdb in
  chunks db (x ++ repeat 0%Z (d * db - b)).
(* the wrapped function maps a per-example f over every device's rows; unpad = reshape(d*db, ...)[:b] *)
Definition pad_shard_unpad (f : Z -> Z) (d : nat) (mdb : option nat) (x : list Z) : list Z :=
  firstn (length x) (concat (map (map f) (pad_shard d mdb x))).

(* ---------------- flax/training/common_utils.py: shard, stack_forest, onehot ---------------- *)
(* shard: reshape (d * n, ...) to (d, n, ...) -- d rows of n examples each *)
Definition shard (d : nat) (x : list Z) : list (list Z) := chunks (length x / d) x.
(* stack_forest: a list of trees with the same structure (each given by its leaves) becomes one tree whose leaf j
   stacks leaf j of every tree *)
Definition stack_forest (m : nat) (forest : list (list Z)) : list (list Z) :=
  map (fun j => map (fun t => nth j t 0%Z) forest) (seq 0 m).
(* onehot: x = labels[..., None] == arange(num_classes); select(x, on, off) *)
Definition onehot (labels : list Z) (k : nat) (on off : Z) : list (list Z) :=
  map (fun l => map (fun j => if (Z.of_nat j =? l)%Z then on else off) (seq 0 k)) labels.

(* ---------------- _invert_perm ---------------- *)
Fixpoint set_nth_nat (i : nat) (v : nat) (l : list nat) : list nat :=
  match l, i with
  | [], _ => []
  | _ :: r, O => v :: r
  | x :: r, S j => x :: set_nth_nat j v r
  end.
(* perm_inv = [0]*len; for i, j in enumerate(perm): perm_inv[j] = i *)
Definition invert_perm (perm : list nat) : list nat :=
  fold_left (fun acc ij => set_nth_nat (snd ij) (fst ij) acc) (combine (seq 0 (length perm)) perm) (repeat 0 (length perm)).

(* scan_in_dim builds perm from the caller's axis values as given: a negative entry j indexes perm_inv from the end *)
Definition invert_perm_z (perm : list Z) : list nat :=
  invert_perm (map (fun j => Z.to_nat (if (j <? 0)%Z then (j + Z.of_nat (length perm))%Z else j)) perm).

(* ---------------- prefetch_to_device ---------------- *)
Inductive ev := Item (x : N) | Stop | Err.
Definition ev_beq (a b : ev) : bool :=
  match a, b with Item x, Item y => N.eqb x y | Stop, Stop | Err, Err => true | _, _ => false end.
(* a source: its items, then StopIteration (fail = false) or an exception (fail = true) *)
Record gstate := mkG { g_queue : list N; g_src : list N; g_fail : bool; g_error : bool }.

(* enqueue(n): islice pulls up to n items; an exception is remembered, exhaustion just ends the loop *)
Fixpoint enqueue (n : nat) (s : gstate) : gstate :=
  match n with
  | O => s
  | S m =>
      match g_src s with
      | x :: r => enqueue m (mkG (g_queue s ++ [x]) r (g_fail s) (g_error s))
      | [] => if g_fail s then mkG (g_queue s) [] false true else s
      end
  end.
(* while queue: yield queue.popleft(); if error is None: enqueue(1) ; then raise error if any *)
Fixpoint gen_loop (fuel : nat) (s : gstate) : list ev :=
  match fuel with
  | O => []
  | S f =>
      match g_queue s with
      | x :: q => Item x :: gen_loop f (let s' := mkG q (g_src s) (g_fail s) (g_error s) in if g_error s then s' else enqueue 1 s')
      | [] => [if g_error s then Err else Stop]
      end
  end.
Definition prefetch_to_device (size : nat) (items : list N) (fail : bool) : list ev :=
  gen_loop (S (length items)) (enqueue size (mkG [] items fail false)).

(* ---------------- PrefetchIterator ---------------- *)
Inductive ppc := PIdle | PHave (x : N) | PFailing | PWaiting | PDone.
Record pstate := mkP {
  p_buf : list N; p_active : bool; p_err : option bool;   (* Some true: the source's exception; Some false: StopIteration *)
  p_src : list N; p_pc : ppc; p_obs : list ev }.
Inductive label := LNext | LPut | LWake | LFail | LGet.

Definition can_continue (size : nat) (buf : list N) (active : bool) : bool := Nat.ltb (length buf) size || negb active.

(* one atomic step (critical sections of the Condition are atomic; next(data_iter) runs outside the lock);
   None = the step is not enabled in this state *)
Definition pstep (size : nat) (fail : bool) (s : pstate) (l : label) : option pstate :=
  match l with
  | LNext =>
      match p_pc s with
      | PIdle => match p_src s with
                 | x :: r => Some (mkP (p_buf s) (p_active s) (p_err s) r (PHave x) (p_obs s))
                 | [] => Some (mkP (p_buf s) (p_active s) (p_err s) [] PFailing (p_obs s))
                 end
      | _ => None
      end
  | LPut =>
      match p_pc s with
      | PHave x =>
          let buf := p_buf s ++ [x] in
          let pc := if can_continue size buf (p_active s) then (if p_active s then PIdle else PDone) else PWaiting in
          Some (mkP buf (p_active s) (p_err s) (p_src s) pc (p_obs s))
      | _ => None
      end
  | LWake =>
      match p_pc s with
      | PWaiting => if can_continue size (p_buf s) (p_active s)
                    then Some (mkP (p_buf s) (p_active s) (p_err s) (p_src s) (if p_active s then PIdle else PDone) (p_obs s))
                    else None
      | _ => None
      end
  | LFail =>
      match p_pc s with
      | PFailing => Some (mkP (p_buf s) false (Some fail) (p_src s) PDone (p_obs s))
      | _ => None
      end
  | LGet =>   (* a consumer next(): passes wait_for(buffer or not active) *)
      match p_buf s with
      | x :: r => Some (mkP r (p_active s) (p_err s) (p_src s) (p_pc s) (p_obs s ++ [Item x]))
      | [] => if p_active s then None
              else Some (mkP [] false (p_err s) (p_src s) (p_pc s)
                             (p_obs s ++ [match p_err s with Some true => Err | _ => Stop end]))
      end
  end.

Definition pinit (items : list N) : pstate := mkP [] true None items PIdle [].
(* a schedule is any sequence of labels; steps that are not enabled are skipped *)
Definition prun (size : nat) (fail : bool) (sched : list label) (s : pstate) : pstate :=
  fold_left (fun s l => match pstep size fail s l with Some s' => s' | None => s end) sched s.
(* strict replay: every label must be enabled *)
Fixpoint preplay (size : nat) (fail : bool) (sched : list label) (s : pstate) : option pstate :=
  match sched with
  | [] => Some s
  | l :: r => match pstep size fail s l with Some s' => preplay size fail r s' | None => None end
  end.

Definition term (fail : bool) : ev := if fail then Err else Stop.
