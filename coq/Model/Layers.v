(* flax/linen/linear.py + flax/nnx/nn/linear.py (Dense, _Conv.__call__ for one spatial dimension: padding
   canonicalisation, CIRCULAR / REFLECT / CAUSAL pre-padding with jnp.pad, then lax.conv_general_dilated with VALID;
   Embed), flax/linen/pooling.py (pool / avg_pool / max_pool / min_pool, one spatial dimension) and the statistics of
   flax/linen/normalization.py (_compute_stats with mask, BatchNorm's running averages).  Values are integers (the
   harness feeds integer-valued float64 arrays); statistics are rationals.  Definitions only. *)
From Coq Require Import QArith Qabs.
From Flaxm Require Import Lib.Harness Model.NdIndex.
Open Scope Z_scope.

Definition row := list Z.
Definition sig := list row.                 (* length x channels *)

Definition zsum (l : list Z) : Z := fold_right Z.add 0 l.
Definition getc (r : row) (c : nat) : Z := nth c r 0.

(* ---------------- Dense ---------------- *)
(* y[o] = sum_i x[i] * k[i][o] + b[o] *)
Definition dense_row (k : list row) (b : option row) (nout : nat) (x : row) : row :=
  map (fun o => zsum (map (fun ik => fst ik * getc (snd ik) o) (combine x k)) + match b with Some bb => getc bb o | None => 0 end) (seq 0 nout).
Definition dense (k : list row) (b : option row) (nout : nat) (xs : list row) : list row := map (dense_row k b nout) xs.

(* ---------------- boundary rules ---------------- *)
Inductive pmode := PZero | PWrap | PReflect.
(* the index of the signal element that position i of the (conceptually infinite) extension shows; None = zero *)
Definition ext_index (m : pmode) (n : nat) (i : Z) : option nat :=
  if (0 <=? i) && (i <? Z.of_nat n) then Some (Z.to_nat i) else
  match m with
  | PZero => None
  | PWrap => if Nat.eqb n 0 then None else Some (Z.to_nat (i mod Z.of_nat n))
  | PReflect =>
      match n with
      | O => None
      | 1%nat => Some 0%nat
      | _ => let period := 2 * (Z.of_nat n - 1) in
             let j := i mod period in
             Some (Z.to_nat (if j <? Z.of_nat n then j else period - j))
      end
  end.
Definition ext_row (m : pmode) (x : sig) (i : Z) : row :=
  match ext_index m (length x) i with Some j => nth j x [] | None => [] end.

(* jnp.pad(x, (lo, hi), mode): positions 0 .. lo + n + hi - 1 show the extension at i - lo *)
Definition pad_sig (m : pmode) (lo hi : nat) (x : sig) : sig :=
  map (fun j => ext_row m x (Z.of_nat j - Z.of_nat lo)) (seq 0 (lo + length x + hi)).

(* ---------------- 1-D convolution ---------------- *)
Record convcfg := mkConv { cv_k : list (list row);      (* kernel[t][ci][f] *)
                           cv_bias : option row;
                           cv_stride : nat; cv_dil : nat; cv_groups : nat;
                           cv_cin : nat; cv_feats : nat }.
Definition ksize (c : convcfg) : nat := length (cv_k c).
Definition keff (c : convcfg) : nat := (ksize c - 1) * cv_dil c + 1.
Definition kget (c : convcfg) (t ci f : nat) : Z := getc (nth ci (nth t (cv_k c) []) []) f.

(* the documented formula: y[o][f] = sum_{t, ci} ext(x)[o*s + t*d - lo][g*Cg + ci] * k[t][ci][f] + b[f] *)
Definition conv_out (c : convcfg) (m : pmode) (lo : Z) (x : sig) (o f : nat) : Z :=
  let cg := (cv_cin c / cv_groups c)%nat in
  let fg := (cv_feats c / cv_groups c)%nat in
  let g := (f / fg)%nat in
  zsum (map (fun t =>
          let r := ext_row m x (Z.of_nat (o * cv_stride c + t * cv_dil c) - lo) in
          zsum (map (fun ci => getc r (g * cg + ci) * kget c t ci f) (seq 0 cg)))
        (seq 0 (ksize c)))
  + match cv_bias c with Some b => getc b f | None => 0 end.
Definition conv_spec (c : convcfg) (m : pmode) (lo : Z) (nout : nat) (x : sig) : sig :=
  map (fun o => map (fun f => conv_out c m lo x o f) (seq 0 (cv_feats c))) (seq 0 nout).

Definition out_len (n lo hi : nat) (c : convcfg) : nat := ((n + lo + hi - keff c) / cv_stride c + 1)%nat.

(* what the code does: pre-pad with jnp.pad, then a VALID convolution *)
Definition conv_impl (c : convcfg) (m : pmode) (lo hi : nat) (x : sig) : sig :=
  let xp := pad_sig m lo hi x in
  conv_spec c PZero 0 (out_len (length x) lo hi c) xp.

(* padding by name *)
Inductive padding := PadValid | PadSame | PadCircular | PadReflect | PadCausal | PadExplicit (lo hi : nat).
Definition ceil_div (a b : nat) : nat := ((a + b - 1) / b)%nat.
Definition pads_of (p : padding) (n : nat) (c : convcfg) : pmode * nat * nat :=
  match p with
  | PadValid => (PZero, 0, 0)%nat
  | PadSame => let total := ((ceil_div n (cv_stride c) - 1) * cv_stride c + keff c - n)%nat in (PZero, total / 2, total - total / 2)%nat
  | PadCircular => (PWrap, (keff c - 1) / 2, keff c / 2)%nat
  | PadReflect => (PReflect, (keff c - 1) / 2, keff c / 2)%nat
  | PadCausal => (PZero, cv_dil c * (ksize c - 1), 0)%nat
  | PadExplicit lo hi => (PZero, lo, hi)
  end.
Definition conv1d (c : convcfg) (p : padding) (x : sig) : sig :=
  let '(m, lo, hi) := pads_of p (length x) c in conv_impl c m lo hi x.

(* ---------------- 2-D convolution ---------------- *)
(* the same code path with two spatial dimensions: jnp.pad pads both (one boundary rule), then a VALID convolution *)
Definition img := list sig.                  (* height x width x channels *)
Definition ext_sig (m : pmode) (x : img) (i : Z) : sig :=
  match ext_index m (length x) i with Some j => nth j x [] | None => [] end.
Definition pix (m : pmode) (x : img) (i1 i2 : Z) : row := ext_row m (ext_sig m x i1) i2.
Definition pad_img (m : pmode) (lo1 hi1 lo2 hi2 : nat) (x : img) : img :=
  let rows := map (pad_sig m lo2 hi2) x in
  map (fun j => ext_sig m rows (Z.of_nat j - Z.of_nat lo1)) (seq 0 (lo1 + length x + hi1)).

Record conv2cfg := mkConv2 { c2_k : list (list (list row));      (* kernel[t1][t2][ci][f] *)
                             c2_bias : option row;
                             c2_s1 : nat; c2_s2 : nat; c2_d1 : nat; c2_d2 : nat; c2_groups : nat;
                             c2_cin : nat; c2_feats : nat }.
Definition k2size1 (c : conv2cfg) : nat := length (c2_k c).
Definition k2size2 (c : conv2cfg) : nat := length (nth 0 (c2_k c) []).
Definition k2get (c : conv2cfg) (t1 t2 ci f : nat) : Z := getc (nth ci (nth t2 (nth t1 (c2_k c) []) []) []) f.

Definition conv2_out (c : conv2cfg) (m : pmode) (lo1 lo2 : Z) (x : img) (o1 o2 f : nat) : Z :=
  let cg := (c2_cin c / c2_groups c)%nat in
  let fg := (c2_feats c / c2_groups c)%nat in
  let g := (f / fg)%nat in
  zsum (map (fun t1 => zsum (map (fun t2 =>
          let r := pix m x (Z.of_nat (o1 * c2_s1 c + t1 * c2_d1 c) - lo1) (Z.of_nat (o2 * c2_s2 c + t2 * c2_d2 c) - lo2) in
          zsum (map (fun ci => getc r (g * cg + ci) * k2get c t1 t2 ci f) (seq 0 cg)))
        (seq 0 (k2size2 c)))) (seq 0 (k2size1 c)))
  + match c2_bias c with Some b => getc b f | None => 0 end.
Definition conv2_spec (c : conv2cfg) (m : pmode) (lo1 lo2 : Z) (n1 n2 : nat) (x : img) : list sig :=
  map (fun o1 => map (fun o2 => map (fun f => conv2_out c m lo1 lo2 x o1 o2 f) (seq 0 (c2_feats c))) (seq 0 n2)) (seq 0 n1).

Definition olen (n lo hi ke s : nat) : nat := ((n + lo + hi - ke) / s + 1)%nat.
Definition keff1 (c : conv2cfg) : nat := ((k2size1 c - 1) * c2_d1 c + 1)%nat.
Definition keff2 (c : conv2cfg) : nat := ((k2size2 c - 1) * c2_d2 c + 1)%nat.
Definition conv2_impl (c : conv2cfg) (m : pmode) (lo1 hi1 lo2 hi2 : nat) (w : nat) (x : img) : list sig :=
  conv2_spec c PZero 0 0 (olen (length x) lo1 hi1 (keff1 c) (c2_s1 c)) (olen w lo2 hi2 (keff2 c) (c2_s2 c)) (pad_img m lo1 hi1 lo2 hi2 x).

(* padding by name, per dimension, as for one dimension *)
Definition pads1 (p : padding) (n ke s d k : nat) : pmode * nat * nat :=
  match p with
  | PadValid => (PZero, 0, 0)%nat
  | PadSame => let total := ((ceil_div n s - 1) * s + ke - n)%nat in (PZero, total / 2, total - total / 2)%nat
  | PadCircular => (PWrap, (ke - 1) / 2, ke / 2)%nat
  | PadReflect => (PReflect, (ke - 1) / 2, ke / 2)%nat
  | PadCausal => (PZero, d * (k - 1), 0)%nat
  | PadExplicit lo hi => (PZero, lo, hi)
  end.
Definition conv2d (c : conv2cfg) (p1 p2 : padding) (w : nat) (x : img) : list sig :=
  let '(m, lo1, hi1) := pads1 p1 (length x) (keff1 c) (c2_s1 c) (c2_d1 c) (k2size1 c) in
  let '(_, lo2, hi2) := pads1 p2 w (keff2 c) (c2_s2 c) (c2_d2 c) (k2size2 c) in
  conv2_impl c m lo1 hi1 lo2 hi2 w x.

(* ---------------- 1-D transposed convolution ---------------- *)
(* lax.conv_transpose as ConvTranspose calls it: the input is dilated by the stride (lhs_dilation: s - 1 zero rows
   between consecutive rows), padded by the pair below and convolved with stride 1 and the kernel dilation; then the
   layer's own CIRCULAR post-processing: pad the VALID result to whole periods n * s and sum the periods. *)
Definition dilate (s : nat) (x : sig) : sig :=
  match x with
  | [] => []
  | r :: rest => r :: flat_map (fun r' => repeat [] (s - 1) ++ [r']) rest
  end.

Inductive tpadding := TSame | TValid | TCircular | TExplicit (lo hi : nat).
(* jax's _conv_transpose_padding on the effective kernel size; CIRCULAR runs the VALID convolution first *)
Definition tpads (ke s : nat) (p : tpadding) : nat * nat :=
  match p with
  | TSame => let pl := (ke + s - 2)%nat in
             let pa := if Nat.ltb (ke - 1) s then (ke - 1)%nat else ((pl + 1) / 2)%nat in (pa, (pl - pa)%nat)
  | TValid | TCircular => let pl := (ke + s - 2 + (ke - s))%nat in ((ke - 1)%nat, (pl - (ke - 1))%nat)
  | TExplicit lo hi => (lo, hi)
  end.

Definition lin_cfg (c : convcfg) : convcfg := mkConv (cv_k c) None 1 (cv_dil c) 1 (cv_cin c) (cv_feats c).
Definition convT_len (c : convcfg) (p : tpadding) (n : nat) : nat :=
  let '(pa, pb) := tpads (keff c) (cv_stride c) p in (((n - 1) * cv_stride c + 1) + pa + pb + 1 - keff c)%nat.
(* without bias and without the circular wrap *)
Definition convT_lin (c : convcfg) (p : tpadding) (x : sig) : sig :=
  let xd := dilate (cv_stride c) x in
  let '(pa, pb) := tpads (keff c) (cv_stride c) p in
  conv_spec (lin_cfg c) PZero (Z.of_nat pa) (length xd + pa + pb + 1 - keff c) xd.

(* y padded by `left` zero rows on the left (and zeros on the right), cut into periods of P rows, the periods summed *)
Definition wrap_sum (P feats left : nat) (y : sig) : sig :=
  let ypad := repeat [] left ++ y in
  map (fun j => map (fun f => zsum (map (fun m => getc (nth (m * P + j) ypad []) f) (seq 0 (length ypad / P + 1)))) (seq 0 feats)) (seq 0 P).

(* size_diff = -(len - P) mod 2P; the odd unit goes left, or right when the kernel is given transposed *)
Definition circ_left (P len : nat) (tk : bool) : nat :=
  let sd := ((2 * P - (len - P) mod (2 * P)) mod (2 * P))%nat in if tk then (sd / 2)%nat else ((sd + 1) / 2)%nat.

Definition add_bias (b : option row) (feats : nat) (y : sig) : sig :=
  match b with
  | None => y
  | Some bb => map (fun r => map (fun f => getc r f + getc bb f) (seq 0 feats)) y
  end.

Definition conv_transpose1d (c : convcfg) (p : tpadding) (tk : bool) (x : sig) : sig :=
  let y := convT_lin c p x in
  let y' := match p with
            | TCircular => let P := (length x * cv_stride c)%nat in wrap_sum P (cv_feats c) (circ_left P (length y) tk) y
            | _ => y
            end in
  add_bias (cv_bias c) (cv_feats c) y'.

(* ---------------- Embed ---------------- *)
Definition embed_lookup (table : list row) (ids : list nat) : list row := map (fun i => nth i table []) ids.
Definition embed_attend (table : list row) (q : row) : row := map (fun r => zsum (map (fun ab => fst ab * snd ab) (combine q r))) table.

(* ---------------- 1-D pooling (one channel) ---------------- *)
(* the valid elements of window o *)
Definition window_vals (x : list Z) (w s lo : nat) (o : nat) : list Z :=
  concat (map (fun t => match ext_index PZero (length x) (Z.of_nat (o * s + t) - Z.of_nat lo) with Some j => [nth j x 0] | None => [] end) (seq 0 w)).
Definition pool_len (n w s lo hi : nat) : nat := ((n + lo + hi - w) / s + 1)%nat.
Definition max_list (l : list Z) : option Z := match l with [] => None | a :: r => Some (fold_left Z.max r a) end.
Definition min_list (l : list Z) : option Z := match l with [] => None | a :: r => Some (fold_left Z.min r a) end.
Definition max_pool1 (x : list Z) (w s lo hi : nat) : list (option Z) := map (fun o => max_list (window_vals x w s lo o)) (seq 0 (pool_len (length x) w s lo hi)).
Definition min_pool1 (x : list Z) (w s lo hi : nat) : list (option Z) := map (fun o => min_list (window_vals x w s lo o)) (seq 0 (pool_len (length x) w s lo hi)).
(* avg_pool: (sum, divisor); count_include_pad divides by the window size, otherwise by the number of valid elements *)
Definition avg_pool1 (x : list Z) (w s lo hi : nat) (include_pad : bool) : list (Z * nat) :=
  map (fun o => let v := window_vals x w s lo o in (zsum v, if include_pad then w else length v)) (seq 0 (pool_len (length x) w s lo hi)).

(* ---------------- normalisation statistics ---------------- *)
Open Scope Q_scope.
Definition qsum (l : list Q) : Q := fold_right Qplus 0 l.
(* _compute_stats over one reduction group: mean and variance of the unmasked elements (variance as E[x^2] - E[x]^2) *)
Definition valid (xs : list Z) (mask : list bool) : list Z := map fst (filter snd (combine xs mask)).
Definition qmean (v : list Z) : Q := qsum (map inject_Z v) / inject_Z (Z.of_nat (length v)).
Definition qmean2 (v : list Z) : Q := qsum (map (fun z => inject_Z (z * z)) v) / inject_Z (Z.of_nat (length v)).
Definition stats (xs : list Z) (mask : list bool) : Q * Q :=
  let v := valid xs mask in (qmean v, qmean2 v - qmean v * qmean v).
(* BatchNorm in training mode stores momentum * old + (1 - momentum) * batch statistic *)
Definition running (momentum old batch : Q) : Q := momentum * old + (1 - momentum) * batch.

(* ---------------- the normalised output, without square roots ---------------- *)
(* y = (x - mean) / sqrt(var + eps) * scale + bias  is the root of
   (y - bias)^2 * (var + eps) = scale^2 * (x - mean)^2  whose sign is that of scale * (x - mean).
   `tol` is the relative tolerance of the comparison (0 for the exact statement). *)
Definition qclose (tol x y : Q) : bool := Qle_bool (Qabs (x - y)) (tol * (1 + Qabs y)).
Definition norm_ok (tol eps : Q) (x mean var scale bias y : Q) : bool :=
  qclose tol ((y - bias) * (y - bias) * (var + eps)) (scale * scale * ((x - mean) * (x - mean)))
  && Qle_bool (- tol) ((y - bias) * scale * (x - mean)).
(* LayerNorm / GroupNorm / InstanceNorm over one reduction group (the elements that share their statistics), RMSNorm with
   use_mean = false: every unmasked element is normalised with the group's masked statistics *)
Definition group_norm_ok (tol eps : Q) (use_mean : bool) (xs : list Z) (mask : list bool) (scale bias ys : list Q) : bool :=
  let v := valid xs mask in
  let mean := if use_mean then qmean v else 0 in
  let var := if use_mean then qmean2 v - qmean v * qmean v else qmean2 v in
  forallb (fun t => let '(x, m, s, b, y) := t in negb m || norm_ok tol eps (inject_Z x) mean var s b y)
          (combine (combine (combine (combine xs mask) scale) bias) ys).

(* ---------------- whole normalisation layers: the model computes the reduction groups itself ---------------- *)
(* the tensors are given flat (row-major) together with the shape; scale / bias / mask already broadcast to the shape *)
Definition gather {A} (d : A) (l : list A) (is : list nat) : list A := map (fun i => nth i l d) is.
Definition norm_groups_ok (tol eps : Q) (use_mean : bool) (groups : list (list nat))
                          (xs : list Z) (mask : list bool) (scale bias ys : list Q) : bool :=
  forallb (fun g => group_norm_ok tol eps use_mean (gather 0%Z xs g) (gather true mask g) (gather 0 scale g) (gather 0 bias g) (gather 0 ys g)) groups.
(* LayerNorm / RMSNorm (use_mean = false) / InstanceNorm (reduction axes 1 .. nd-2): statistics over `red` *)
Definition layer_norm_ok (tol eps : Q) (use_mean : bool) (shape red : list nat) xs mask scale bias ys : bool :=
  norm_groups_ok tol eps use_mean (groups_by list_nat_eqb (reduce_key shape red) (prod shape)) xs mask scale bias ys.
(* GroupNorm with g groups over the last axis *)
Definition group_norm_layer_ok (tol eps : Q) (shape : list nat) (g : nat) xs mask scale bias ys : bool :=
  norm_groups_ok tol eps true (groups_by list_nat_eqb (group_key shape g) (prod shape)) xs mask scale bias ys.

(* ---------------- DenseGeneral / LinearGeneral (flax/linen/linear.py, flax/nnx/nn/linear.py), no batch_dims ---------------- *)
(* the contracted axes are normalised and SORTED (_normalize_axes); kernel dimension i belongs to the i-th smallest contracted axis;
   the output keeps the other axes of x in order, followed by the feature dimensions.  Tensors are flat, row-major. *)
Close Scope Q_scope.
Fixpoint index_of (d : nat) (l : list nat) : option nat :=
  match l with
  | [] => None
  | y :: r => if Nat.eqb d y then Some 0%nat else option_map S (index_of d r)
  end.
Definition znth (l : list Z) (i : nat) : Z := nth i l 0%Z.
(* the multi-index into x that has bi on the batch axes and ci on the contracted axes *)
Definition place (rank : nat) (batch ax bi ci : list nat) : list nat :=
  map (fun d => match index_of d batch with
                | Some p => nth p bi 0%nat
                | None => match index_of d ax with Some p => nth p ci 0%nat | None => 0%nat end
                end) (seq 0 rank).
Definition dense_general (xshape axes fshape : list nat) (x k : list Z) (bias : option (list Z)) : list Z :=
  let rank := length xshape in
  let ax := nsort axes in
  let batch := filter (fun d => negb (existsb (Nat.eqb d) ax)) (seq 0 rank) in
  let cshape := map (fun a => nth a xshape 0%nat) ax in
  let bshape := map (fun a => nth a xshape 0%nat) batch in
  let kshape := cshape ++ fshape in
  let oshape := bshape ++ fshape in
  map (fun o =>
         let oi := unravel oshape o in
         let bi := firstn (length batch) oi in
         let fi := skipn (length batch) oi in
         (fold_right Z.add 0%Z
            (map (fun c => let ci := unravel cshape c in
                           (znth x (ravel xshape (place rank batch ax bi ci)) * znth k (ravel kshape (ci ++ fi)))%Z)
                 (seq 0 (prod cshape)))
          + match bias with Some b => znth b (ravel fshape fi) | None => 0%Z end)%Z)
      (seq 0 (prod oshape)).
Definition dense_general_oshape (xshape axes fshape : list nat) : list nat :=
  map (fun a => nth a xshape 0%nat) (filter (fun d => negb (existsb (Nat.eqb d) (nsort axes))) (seq 0 (length xshape))) ++ fshape.
