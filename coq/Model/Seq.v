(* flax/linen/recurrent.py + flax/nnx/nn/recurrent.py: RNN.__call__ (flip_sequences for reverse, the scan over ALL time
   steps, _select_last_carry at seq_len - 1, flipping the outputs back for keep_order), Bidirectional; and the cache
   bookkeeping of MultiHeadDotProductAttention's decode branch (write position cache_index, attend to positions
   <= cache_index).  The cell and the attention function are parameters.  Definitions only. *)
From Flaxm Require Import Lib.Harness.

Section RNN.
  Variables C X Y : Type.
  Variable cell : C -> X -> C * Y.

  (* the scan: the carry after every step and every output *)
  Fixpoint run (c : C) (xs : list X) : list C * list Y :=
    match xs with
    | [] => ([], [])
    | x :: r => let '(c', y) := cell c x in let '(cs, ys) := run c' r in (c' :: cs, y :: ys)
    end.

  (* flip_sequences: reverse the first n entries, the padding stays where it is *)
  Definition flip {A} (n : nat) (l : list A) : list A := rev (firstn n l) ++ skipn n l.

  (* one sequence; len = None when no seq_lengths are given *)
  Definition rnn (reverse keep_order : bool) (len : option nat) (c0 : C) (xs : list X) : option C * list Y :=
    let n := match len with Some n => n | None => length xs end in
    let xs' := if reverse then flip n xs else xs in
    let '(cs, ys) := run c0 xs' in
    let final := match len with Some n => nth_error cs (n - 1) | None => nth_error cs (length xs - 1) end in
    (final, if reverse && keep_order then flip n ys else ys).

  (* the Python loop over the valid steps only *)
  Fixpoint loop (c : C) (xs : list X) : C * list Y :=
    match xs with
    | [] => (c, [])
    | x :: r => let '(c', y) := cell c x in let '(cf, ys) := loop c' r in (cf, y :: ys)
    end.
End RNN.

(* Bidirectional: forward RNN and a (reverse, keep_order) backward RNN on the same inputs, outputs paired position-wise *)
Definition bidirectional {C1 C2 X Y} (cf : C1 -> X -> C1 * Y) (cb : C2 -> X -> C2 * Y) (len : option nat) (c1 : C1) (c2 : C2) (xs : list X)
  : (option C1 * option C2) * list (Y * Y) :=
  let '(f1, y1) := rnn C1 X Y cf false false len c1 xs in
  let '(f2, y2) := rnn C2 X Y cb true true len c2 xs in
  ((f1, f2), combine y1 y2).

(* the integer cell used by the correspondence: carry' = a * carry + b * x ; y = carry' + c * x *)
Definition int_cell (a b c : Z) (carry x : Z) : Z * Z := let n := (a * carry + b * x)%Z in (n, (n + c * x)%Z).

Section Decode.
  Variables KV Q Y : Type.
  Variable zero : KV.
  (* attention of one query over the positions it may see, given as the list of their (key, value) entries *)
  Variable att : Q -> list KV -> Y.

  (* whole-sequence attention under the causal mask: row t sees positions 0 .. t *)
  Definition causal_rows (qs : list Q) (kvs : list KV) : list Y :=
    map (fun tq => att (snd tq) (firstn (S (fst tq)) kvs)) (combine (seq 0 (length qs)) qs).

  (* decoding: the cache has max_len slots; a step writes slot cache_index and attends to slots <= cache_index *)
  Definition dstep (st : list KV * nat) (qkv : Q * KV) : (list KV * nat) * Y :=
    let '(cache, i) := st in
    let cache' := firstn i cache ++ [snd qkv] ++ skipn (S i) cache in
    ((cache', S i), att (fst qkv) (firstn (S i) cache')).
  Fixpoint decode (st : list KV * nat) (steps : list (Q * KV)) : (list KV * nat) * list Y :=
    match steps with
    | [] => (st, [])
    | s :: r => let '(st', y) := dstep st s in let '(stf, ys) := decode st' r in (stf, y :: ys)
    end.
  Definition init_cache (max_len : nat) : list KV * nat := (repeat zero max_len, 0).
End Decode.

(* ---------------- attention mask helpers (make_attention_mask, make_causal_mask, combine_masks) ---------------- *)
Definition attn_mask {A B} (f : A -> B -> bool) (q : list A) (k : list B) : list (list bool) := map (fun a => map (f a) k) q.
(* make_causal_mask: make_attention_mask(arange(n), arange(n), greater_equal) *)
Definition causal_mask (n : nat) : list (list bool) := attn_mask (fun i j => Nat.leb j i) (seq 0 n) (seq 0 n).
Definition and_mask (a b : list (list bool)) : list (list bool) :=
  map (fun rs => map (fun xy => andb (fst xy) (snd xy)) (combine (fst rs) (snd rs))) (combine a b).
(* combine_masks: None when every argument is None, else the logical and of the others *)
Definition combine_masks (ms : list (option (list (list bool)))) : option (list (list bool)) :=
  match flat_map (fun m => match m with Some x => [x] | None => [] end) ms with
  | [] => None
  | m :: r => Some (fold_left and_mask r m)
  end.
(* the keys a query row may look at *)
Definition visible {K} (row : list bool) (ks : list K) : list K := map fst (filter snd (combine ks row)).
