(* flax/jax_utils.py _scan_nd / scan_in_dim: an n-dimensional scan is a scan whose body is an (n-1)-dimensional scan; the
   scanned axes were moved to the front (Model/Host.v invert_perm, Model/Axes.v), so xs is a nest of depth n whose leaves are
   the slices handed to the body.  Definitions only. *)
From Coq Require Import List.
Import ListNotations.
From Flaxm Require Import Model.LinenLoop.

Section ScanNd.
  Variables C X Y : Type.
  Variable body : C -> X -> C * Y.
  (* lax.scan at every level: the carry is threaded, the outputs are stacked in order *)
  Fixpoint scan_nd (c : C) (t : nest X) : C * nest Y :=
    match t with
    | NLeaf x => let '(c', y) := body c x in (c', NLeaf y)
    | NNode kids =>
        let '(c', ys) := fold_left (fun acc k => let '(c1, y) := scan_nd (fst acc) k in (c1, snd acc ++ [y])) kids (c, []) in
        (c', NNode ys)
    end.
  (* the nested Python loop over the scanned axes, in row-major order *)
  Definition loop_nd (c : C) (xs : list X) : C * list Y :=
    fold_left (fun acc x => let '(c1, y) := body (fst acc) x in (c1, snd acc ++ [y])) xs (c, []).
End ScanNd.
