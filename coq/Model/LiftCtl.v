(* flax/core/lift.py cond / switch / while_loop on top of pack (Model/Lift.v): which variables the branch and loop
   bodies see, what they may mutate, how the carried collections are threaded through the loop by repack_fn, what
   publish_results writes back, and the effects of JAX tracing that are visible to a user (lax.cond / lax.switch
   trace every branch, lax.while_loop traces condition and body once whatever the trip count, and both demand
   that the structure of what goes round stays fixed).  A small statement language gives executable bodies for the
   correspondence check.  Definitions only. *)
From Flaxm Require Import Lib.Harness Model.Filters Model.Linen Model.Lift.

(* observation of the variables of one scope: the entry `k` of collection `c` *)
Definition cv_entry (xs : cvars) (c : N) (k : name) : option node :=
  match cv_get c xs with Some kids => nassoc k kids | None => None end.

(* the structure lax control flow compares: collection names and the variable names inside each *)
Definition cshape (xs : cvars) : list (N * list name) := map (fun ck => (fst ck, map fst (snd ck))) xs.
Definition cshape_eqb (a b : cvars) : bool :=
  list_beq (pair_beq N.eqb (list_beq name_eqb)) (cshape a) (cshape b).

(* repack_fn of one inner scope for out filters fs: the mutable collections grouped by fs, None when a mutable
   collection matches none of them ("unmapped output variables") *)
Definition repack (im : N -> bool) (fs : list filt) (inner' : cvars) : option (list cvars) :=
  let groups := cgroup (filter (fun cv => im (fst cv)) inner') (fs ++ [FBool true]) in
  match last groups [] with
  | _ :: _ => None
  | [] => Some (removelast groups)
  end.

Section Ctl.
  Variable Y : Type.
  (* a user function over a scope: visible variables, mutability -> result and the scope's variables afterwards *)
  Definition sfun := cvars -> (N -> bool) -> option (Y * cvars).

  (* ---- cond / switch: pack(inner, (variables,), (variables,), rngs); every branch is traced on its own inner scope and
     must succeed and repack to the same structure; the selected one is what comes out ---- *)
  Definition branch_out (om : N -> bool) (vf : filt) (xs : cvars) (b : sfun) : option (Y * list cvars) :=
    let im := inner_mutable om [vf] (fun _ => true) in
    match b (inner_vars xs [vf]) im with
    | None => None
    | Some (y, inner') => match repack im [vf] inner' with None => None | Some gs => Some (y, gs) end
    end.
  Definition lift_switch (branches : list sfun) (idx : nat) (vf : filt) (om : N -> bool) (xs : cvars) : pres Y :=
    let outs := map (branch_out om vf xs) branches in
    match outs with
    | [] => PErr Y
    | o0 :: _ =>
        if forallb (fun o => match o, o0 with
                             | Some (_, gs), Some (_, gs0) => cshape_eqb (concat gs) (concat gs0)
                             | _, _ => false end) outs
        then match nth (Nat.min idx (length branches - 1)) outs None with     (* lax.switch clamps the index *)
             | Some (y, gs) => POk Y y (publish om xs (concat gs))
             | None => PErr Y
             end
        else PErr Y
    end.
  (* lax.cond(pred, true_fun, false_fun) *)
  Definition lift_cond (pred : bool) (ft ff : sfun) := lift_switch [ft; ff] (if pred then 0 else 1).
End Ctl.

Section While.
  Variable C : Type.
  Variable cond_fn : cvars -> (N -> bool) -> C -> option bool.
  Variable body_fn : cvars -> (N -> bool) -> C -> option (C * cvars).

  (* body_wrapper: scope_fn((carry_variables, broadcast_variables)), body_fn, repack_fn -> the new carry_variables;
     the structure of carry_variables must not change (lax.while_loop) *)
  Definition wbody (im : N -> bool) (carry_f : filt) (carry bcast : cvars) (c : C) : option (C * cvars) :=
    match body_fn (carry ++ bcast) im c with
    | None => None
    | Some (c', inner') =>
        match repack im [carry_f] inner' with
        | Some [cv'] => if cshape_eqb cv' carry then Some (c', cv') else None
        | _ => None
        end
    end.
  (* cond_wrapper: the scope is made with mutable_filter=False *)
  Definition wcond (carry bcast : cvars) (c : C) : option bool := cond_fn (carry ++ bcast) (fun _ => false) c.

  (* outer None: out of fuel; inner None: raised *)
  Fixpoint wloop (fuel : nat) (im : N -> bool) (carry_f : filt) (carry bcast : cvars) (c : C) : option (option (C * cvars)) :=
    match fuel with
    | O => None
    | S f =>
        match wcond carry bcast c with
        | None => Some None
        | Some false => Some (Some (c, carry))
        | Some true =>
            match wbody im carry_f carry bcast c with
            | None => Some None
            | Some (c', cv') => wloop f im carry_f cv' bcast c'
            end
        end
    end.

  (* pack(inner, (carry_variables, broadcast_variables), (carry_variables,), rngs) *)
  Definition lift_while (fuel : nat) (om : N -> bool) (carry_f bcast_f : filt) (xs : cvars) (c0 : C) : option (pres C) :=
    let gs := cgroup xs [carry_f; bcast_f] in
    let carry0 := nth 0 gs [] in
    let bcast := nth 1 gs [] in
    let im := inner_mutable om [carry_f] (fun _ => true) in
    (* tracing: condition and body are run once on the initial values whatever the trip count *)
    match wcond carry0 bcast c0, wbody im carry_f carry0 bcast c0 with
    | Some _, Some _ =>
        match wloop fuel im carry_f carry0 bcast c0 with
        | None => None
        | Some None => Some (PErr C)
        | Some (Some (c, cv)) => Some (POk C c (publish om xs cv))
        end
    | _, _ => Some (PErr C)
    end.

  (* the Python loop on the scope itself: `m` is what the body may mutate *)
  Fixpoint ploop (fuel : nat) (m : N -> bool) (xs : cvars) (c : C) : option (option (C * cvars)) :=
    match fuel with
    | O => None
    | S f =>
        match cond_fn xs (fun _ => false) c with
        | None => Some None
        | Some false => Some (Some (c, xs))
        | Some true =>
            match body_fn xs m c with
            | None => Some None
            | Some (c', xs') => ploop f m xs' c'
            end
        end
    end.
End While.

(* ---------------- a statement language for bodies (integer scalars; the carry is one integer) ---------------- *)
Inductive cexpr := XConst (z : Z) | XCarry | XVar (c : N) (k : N) | XAdd (a b : cexpr) | XMul (a b : cexpr).
Inductive cstmt := KPut (c : N) (k : N) (e : cexpr) | KCarry (e : cexpr).

Definition rd (xs : cvars) (c : N) (k : N) : option Z :=
  match cv_entry xs c (NExp k) with Some (VLeaf (SVec [z])) => Some z | _ => None end.
Fixpoint xeval (xs : cvars) (cr : Z) (e : cexpr) : option Z :=
  match e with
  | XConst z => Some z
  | XCarry => Some cr
  | XVar c k => rd xs c k                      (* get_variable: raises when missing *)
  | XAdd a b => match xeval xs cr a, xeval xs cr b with Some x, Some y => Some (x + y)%Z | _, _ => None end
  | XMul a b => match xeval xs cr a, xeval xs cr b with Some x, Some y => Some (x * y)%Z | _, _ => None end
  end.
(* put_variable: raises on an immutable collection; creates the collection when it is missing *)
Definition kput (xs : cvars) (c : N) (k : N) (z : Z) : cvars :=
  cv_set c (nset (NExp k) (VLeaf (SVec [z])) (match cv_get c xs with Some kids => kids | None => [] end)) xs.
Fixpoint krun (ss : list cstmt) (xs : cvars) (m : N -> bool) (cr : Z) : option (Z * cvars) :=
  match ss with
  | [] => Some (cr, xs)
  | KPut c k e :: r =>
      match xeval xs cr e with
      | Some z => if m c then krun r (kput xs c k z) m cr else None
      | None => None
      end
  | KCarry e :: r => match xeval xs cr e with Some z => krun r xs m z | None => None end
  end.
(* condition: carry-dependent expression < limit *)
Definition kcond (e : cexpr) (limit : Z) (xs : cvars) (m : N -> bool) (cr : Z) : option bool :=
  match xeval xs cr e with Some z => Some (Z.ltb z limit) | None => None end.
