(* flax/core/lift.py: _partial_pack / pack -- how every lifted transform (jit, remat, cond, switch, while_loop,
   map_variables, vmap, scan, vjp, ...) moves the variables of a scope into the scope(s) the transformed function
   sees and back: group_collections (first matching filter), the inner scope's mutability
   (scope.mutable /\ union of the out filters /\ mutable_filter), repack (mutable collections grouped by the out
   filters, "unmapped output variables" otherwise) and publish_results (put_variable entry by entry into collections
   the outer scope may mutate).  Definitions only. *)
From Flaxm Require Import Lib.Harness Model.Filters Model.Linen.

Definition kids := list (name * node).
Definition cvars := list (N * kids).          (* the variables of ONE scope: collection -> its dict at the scope's path *)

Fixpoint cv_get (c : N) (xs : cvars) : option kids :=
  match xs with [] => None | (c', k) :: r => if N.eqb c c' then Some k else cv_get c r end.
Fixpoint cv_set (c : N) (k : kids) (xs : cvars) : cvars :=
  match xs with
  | [] => [(c, k)]
  | (c', k') :: r => if N.eqb c c' then (c', k) :: r else (c', k') :: cv_set c k r
  end.

(* group_collections(xs, filters): every collection goes to the first filter that matches it; the rest is dropped *)
Fixpoint cgroup (xs : cvars) (fs : list filt) : list cvars :=
  match fs with
  | [] => []
  | f :: r => filter (fun cv => in_filter f (fst cv)) xs :: cgroup (filter (fun cv => negb (in_filter f (fst cv))) xs) r
  end.
Definition any_filter (fs : list filt) (c : N) : bool := existsb (fun f => in_filter f c) fs.

(* the variables the inner scope starts with: the union of the groups *)
Definition inner_vars (xs : cvars) (in_fs : list filt) : cvars := concat (cgroup xs in_fs).
(* scope_mutable = intersect(intersect(scope.mutable, union(out filters)), mutable_filter) *)
Definition inner_mutable (outer_mut : N -> bool) (out_fs : list filt) (mfilter : N -> bool) (c : N) : bool :=
  outer_mut c && any_filter out_fs c && mfilter c.

(* publish_results: scope.put_variable(col, name, value) for every entry of every returned collection that the outer
   scope may mutate *)
Definition put_entries (old new : kids) : kids := fold_left (fun acc kv => nset (fst kv) (snd kv) acc) new old.
Definition publish (outer_mut : N -> bool) (xs : cvars) (out : cvars) : cvars :=
  fold_left (fun acc cv => if outer_mut (fst cv)
                           then cv_set (fst cv) (put_entries (match cv_get (fst cv) acc with Some k => k | None => [] end) (snd cv)) acc
                           else acc) out xs.

Section Pack.
  Variable Y : Type.
  (* the transformed function: from the inner scope's variables and mutability to a result and the inner scope's
     variables afterwards (None = it raised) *)
  Variable body : cvars -> (N -> bool) -> option (Y * cvars).

  Inductive pres := POk (y : Y) (xs : cvars) | PErr | PUnmapped.
  Definition pack (outer_mut : N -> bool) (in_fs out_fs : list filt) (mfilter : N -> bool) (xs : cvars) : pres :=
    let im := inner_mutable outer_mut out_fs mfilter in
    match body (inner_vars xs in_fs) im with
    | None => PErr
    | Some (y, inner') =>
        (* repack: the mutable collections, grouped by out filters + a catch-all that must stay empty *)
        let mv := filter (fun cv => im (fst cv)) inner' in
        let groups := cgroup mv (out_fs ++ [FBool true]) in
        match last groups [] with
        | _ :: _ => PUnmapped
        | [] => POk y (publish outer_mut xs (concat (removelast groups)))
        end
    end.
End Pack.

(* ---------------- lift.vmap / lift.scan: variable_axes entries may be wrapped in flax.typing.In / Out ---------------- *)
(* _split_in_out_axes: an entry without a marker has an in axis and an out axis, In(axis) only an in axis, Out(axis) only an out
   axis; the filters with an in axis are pack's in filters, those with an out axis its out filters *)
Inductive axmark := AxBoth (a : Z) | AxIn (a : Z) | AxOut (a : Z).
Definition ax_of (m : axmark) : Z := match m with AxBoth a | AxIn a | AxOut a => a end.
Definition is_out (m : axmark) : bool := match m with AxOut _ => true | _ => false end.
Definition is_in (m : axmark) : bool := match m with AxIn _ => true | _ => false end.
Definition split_in_out (xs : list (filt * axmark)) : list (filt * Z) * list (filt * Z) :=
  (map (fun fm => (fst fm, ax_of (snd fm))) (filter (fun fm => negb (is_out (snd fm))) xs),
   map (fun fm => (fst fm, ax_of (snd fm))) (filter (fun fm => negb (is_in (snd fm))) xs)).
Definition in_filters (xs : list (filt * axmark)) : list filt := map fst (fst (split_in_out xs)).
Definition out_filters (xs : list (filt * axmark)) : list filt := map fst (snd (split_in_out xs)).
