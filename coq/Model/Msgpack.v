(* The restoring half of flax/serialization.py: msgpack-python's wire decoder (unpackb) for the formats the encoder of
   Model/Serial.v emits, _msgpack_ext_unpack / _ndarray_from_bytes, msgpack_restore and from_bytes.  Definitions only. *)
From Flaxm Require Import Lib.Harness Model.Flatten Model.Serial.

Definition be_val (bs : list N) : N := fold_left (fun a b => (a * 256 + b)%N) bs 0%N.

(* n bytes off the front; None = the buffer is too short *)
Definition take (n : N) (bs : list N) : option (list N * list N) :=
  if (lenN bs <? n)%N then None else Some (firstn (N.to_nat n) bs, skipn (N.to_nat n) bs).

Definition take_be (k : N) (bs : list N) : option (N * list N) :=
  match take k bs with Some (h, r) => Some (be_val h, r) | None => None end.

Fixpoint dec_seq (d : list N -> option (mv * list N)) (n : nat) (bs : list N) : option (list mv * list N) :=
  match n with
  | O => Some ([], bs)
  | S m => match d bs with
           | None => None
           | Some (v, r) => match dec_seq d m r with None => None | Some (vs, r') => Some (v :: vs, r') end
           end
  end.

Fixpoint dec_pairs (d : list N -> option (mv * list N)) (n : nat) (bs : list N) : option (list (mv * mv) * list N) :=
  match n with
  | O => Some ([], bs)
  | S m => match d bs with
           | None => None
           | Some (k, r) =>
               match d r with
               | None => None
               | Some (v, r') => match dec_pairs d m r' with None => None | Some (kvs, r'') => Some ((k, v) :: kvs, r'') end
               end
           end
  end.

Definition dec_str (n : N) (bs : list N) : option (mv * list N) :=
  match take n bs with Some (h, r) => Some (MStr h, r) | None => None end.
Definition dec_bin (n : N) (bs : list N) : option (mv * list N) :=
  match take n bs with Some (h, r) => Some (MBin h, r) | None => None end.
Definition dec_ext (n : N) (bs : list N) : option (mv * list N) :=
  match bs with
  | [] => None
  | code :: r => match take n r with Some (h, r') => Some (MExt code h, r') | None => None end
  end.
(* every element takes at least one byte, so a count above the remaining length cannot be satisfied *)
Definition dec_arr (d : list N -> option (mv * list N)) (n : N) (bs : list N) : option (mv * list N) :=
  if (lenN bs <? n)%N then None else
  match dec_seq d (N.to_nat n) bs with Some (l, r) => Some (MArr l, r) | None => None end.
Definition dec_map (d : list N -> option (mv * list N)) (n : N) (bs : list N) : option (mv * list N) :=
  if (lenN bs <? n)%N then None else
  match dec_pairs d (N.to_nat n) bs with Some (l, r) => Some (MMap l, r) | None => None end.

Definition with_len (k : N) (bs : list N) (f : N -> list N -> option (mv * list N)) : option (mv * list N) :=
  match take_be k bs with Some (n, r) => f n r | None => None end.

Definition dec_uint (k : N) (bs : list N) : option (mv * list N) :=
  match take_be k bs with Some (n, r) => Some (MInt (Z.of_N n), r) | None => None end.
Definition dec_sint (k : N) (bs : list N) : option (mv * list N) :=
  match take_be k bs with
  | Some (n, r) => Some (MInt (if (n <? 2 ^ (8 * k - 1))%N then Z.of_N n else Z.of_N n - Z.of_N (2 ^ (8 * k))), r)
  | None => None
  end.

(* one msgpack object off the front of the buffer.  Formats the encoder never emits (0xc1, float32) are None. *)
Fixpoint decode (fuel : nat) (bs : list N) : option (mv * list N) :=
  match fuel with
  | O => None
  | S f =>
      match bs with
      | [] => None
      | b :: r =>
          if (b <? 128)%N then Some (MInt (Z.of_N b), r)
          else if (b <? 144)%N then dec_map (decode f) (b - 128) r
          else if (b <? 160)%N then dec_arr (decode f) (b - 144) r
          else if (b <? 192)%N then dec_str (b - 160) r
          else if (224 <=? b)%N then (if (b <? 256)%N then Some (MInt (Z.of_N b - 256), r) else None)
          else match b with
               | 192 => Some (MNil, r)
               | 194 => Some (MBool false, r)
               | 195 => Some (MBool true, r)
               | 196 => with_len 1 r dec_bin
               | 197 => with_len 2 r dec_bin
               | 198 => with_len 4 r dec_bin
               | 199 => with_len 1 r dec_ext
               | 200 => with_len 2 r dec_ext
               | 201 => with_len 4 r dec_ext
               | 203 => match take_be 8 r with Some (n, r') => Some (MF64 n, r') | None => None end
               | 204 => dec_uint 1 r
               | 205 => dec_uint 2 r
               | 206 => dec_uint 4 r
               | 207 => dec_uint 8 r
               | 208 => dec_sint 1 r
               | 209 => dec_sint 2 r
               | 210 => dec_sint 4 r
               | 211 => dec_sint 8 r
               | 212 => dec_ext 1 r
               | 213 => dec_ext 2 r
               | 214 => dec_ext 4 r
               | 215 => dec_ext 8 r
               | 216 => dec_ext 16 r
               | 217 => with_len 1 r dec_str
               | 218 => with_len 2 r dec_str
               | 219 => with_len 4 r dec_str
               | 220 => with_len 2 r (dec_arr (decode f))
               | 221 => with_len 4 r (dec_arr (decode f))
               | 222 => with_len 2 r (dec_map (decode f))
               | 223 => with_len 4 r (dec_map (decode f))
               | _ => None
               end%N
      end
  end.

(* unpackb: exactly one object, no trailing bytes (ExtraData otherwise) *)
Definition unpackb (bs : list N) : option mv :=
  match decode (length bs) bs with
  | Some (v, []) => Some v
  | _ => None
  end.

(* ---- flax: _msgpack_ext_unpack, _ndarray_from_bytes ---- *)
Section Restore.
  Variable isz_of : key -> N.        (* np.dtype(name).itemsize *)

  Definition shape_of (l : list mv) : option (list N) :=
    fold_right (fun v acc => match v, acc with
                             | MInt z, Some r => if (0 <=? z)%Z then Some (Z.to_N z :: r) else None
                             | _, _ => None end) (Some []) l.

  (* np.frombuffer(buffer, dtype).reshape(shape): the buffer must hold exactly prod(shape) items *)
  Definition ndarray_from_bytes (data : list N) : option (key * list N * list N) :=
    match unpackb data with
    | Some (MArr [MArr sh; MStr dt; MBin buf]) =>
        match shape_of sh with
        | Some dims => if ((1 <=? isz_of dt) && (lenN buf =? prodN dims * isz_of dt))%N then Some (dt, dims, buf) else None
        | None => None
        end
    | _ => None
    end.

  Definition ext_unpack (code : N) (data : list N) : option leaf :=
    if (code =? 1)%N then
      match ndarray_from_bytes data with Some (dt, dims, buf) => Some (LArr dt dims (isz_of dt) buf) | None => None end
    else if (code =? 2)%N then
      match unpackb data with Some (MArr [MF64 re; MF64 im]) => Some (LComplex re im) | _ => None end
    else if (code =? 3)%N then
      match ndarray_from_bytes data with
      | Some (dt, [], buf) => Some (LNpScalar dt (isz_of dt) buf)
      | _ => None
      end
    else None.

  (* the Python value unpackb(ext_hook=_msgpack_ext_unpack, raw=False) builds, as a state dict; lists and
     non-string keys never occur in a state dict and are outside the model (None) *)
  Fixpoint mv_sd (v : mv) : option sd :=
    match v with
    | MNil => Some (SLeaf LNone)
    | MBool b => Some (SLeaf (LBool b))
    | MInt z => Some (SLeaf (LInt z))
    | MF64 b => Some (SLeaf (LFloat b))
    | MStr s => Some (SLeaf (LStr s))
    | MBin b => Some (SLeaf (LBytes b))
    | MExt code data => option_map SLeaf (ext_unpack code data)
    | MArr _ => None
    | MMap l =>
        option_map SDict
          ((fix go (l : list (mv * mv)) : option (list (key * sd)) :=
              match l with
              | [] => Some []
              | (MStr k, v) :: r => match mv_sd v, go r with
                                    | Some s, Some r' => Some ((k, s) :: r') | _, _ => None end
              | _ => None
              end) l)
    end.

  Definition msgpack_restore (bs : list N) : option sd :=
    match unpackb bs with
    | Some v => match mv_sd v with Some s => unchunk_leaves s | None => None end
    | None => None
    end.

  Definition from_bytes (t : ptree) (bs : list N) : res ptree :=
    match msgpack_restore bs with
    | Some s => from_state_dict t s
    | None => Err EOther
    end.

  (* ---- everything fits msgpack's size limits and numpy's invariants ---- *)
  Definition two32 : N := 4294967296.
  Definition two64 : N := 18446744073709551616.

  Fixpoint mv_wfb (v : mv) : bool :=
    match v with
    | MNil | MBool _ => true
    | MInt z => ((-9223372036854775808 <=? z) && (z <? 18446744073709551616))%Z
    | MF64 b => (b <? two64)%N
    | MStr s | MBin s => (lenN s <? two32)%N
    | MExt _ d => (lenN d <? two32)%N
    | MArr l => (lenN l <? two32)%N && forallb mv_wfb l
    | MMap l => (lenN l <? two32)%N && forallb (fun kv => mv_wfb (fst kv) && mv_wfb (snd kv)) l
    end.

  Definition arr_fits (dt : key) (sh : list N) (isz : N) (data : list N) : bool :=
    ((isz =? isz_of dt) && (1 <=? isz) && (lenN data =? prodN sh * isz)
     && forallb (fun d => d <? two64) sh && (lenN sh <? two32) && (lenN dt <? two32) && (lenN data <? two32)
     && (lenN (ndarray_bytes dt sh data) <? two32))%N.

  Definition leaf_fits (l : leaf) : bool :=
    match l with
    | LArr dt sh isz data => arr_fits dt sh isz data
    | LNpScalar dt isz data => arr_fits dt [] isz data
    | LInt z => ((-9223372036854775808 <=? z) && (z <? 18446744073709551616))%Z
    | LFloat b => (b <? two64)%N
    | LBool _ | LNone => true
    | LStr s | LBytes s => (lenN s <? two32)%N
    | LComplex re im => ((re <? two64) && (im <? two64))%N
    end.

  Fixpoint sd_fits (s : sd) : bool :=
    match s with
    | SLeaf l => leaf_fits l
    | SDict kids => (lenN kids <? two32)%N && forallb (fun kv => (lenN (fst kv) <? two32)%N && sd_fits (snd kv)) kids
    end.
End Restore.

(* the dtypes the harness generates *)
Definition isz_table (tab : list (key * N)) (dt : key) : N :=
  match find (fun kv => key_eqb dt (fst kv)) tab with Some kv => snd kv | None => 0%N end.
