(* Random keys.
   Linen: flax/core/scope.py LazyRng / _fold_in_static (the byte string that is hashed), Scope.make_rng.
   NNX:   flax/nnx/rnglib.py RngStream.__call__, Rngs._get_stream (fallback to 'default'), split_rngs, restore_rngs,
          reseed.
   The PRNG itself is idealised: keys are terms of a free algebra (KSeed / KFold / KSplit are injective and
   disjoint) -- this is the assumption under which "different term => different key".  Definitions only. *)
From Flaxm Require Import Lib.Harness.

(* ---------------- the bytes hashed by _fold_in_static ---------------- *)
Inductive foldable := FStr (bytes : list N) | FInt (n : N).

(* int.to_bytes((n.bit_length() + 7) // 8, 'big'): minimal big-endian bytes, empty for 0 *)
Fixpoint nat_bytes_le (fuel : nat) (n : N) : list N :=
  match fuel with
  | O => []
  | S f => if (n =? 0)%N then [] else (n mod 256)%N :: nat_bytes_le f (n / 256)%N
  end.
Definition int_bytes (n : N) : list N := rev (nat_bytes_le 16 n).

Definition enc1 (sep : bool) (x : foldable) : list N :=
  (if sep then [0%N] else []) ++ match x with FStr b => b | FInt n => int_bytes n end.
(* the byte string fed to SHA-1 for a suffix *)
Definition enc (sep : bool) (suffix : list foldable) : list N := concat (map (enc1 sep) suffix).

(* ---------------- NNX streams ---------------- *)
(* split(k, n)[i] does not depend on n (threefry's split is prefix-stable, observed), so the term records i only *)
Inductive kterm := KSeed (s : N) | KFold (k : kterm) (d : N) | KSplit (k : kterm) (i : nat).

Fixpoint kterm_beq (a b : kterm) : bool :=
  match a, b with
  | KSeed x, KSeed y => N.eqb x y
  | KFold k d, KFold k' d' => kterm_beq k k' && N.eqb d d'
  | KSplit k i, KSplit k' i' => kterm_beq k k' && Nat.eqb i i'
  | _, _ => false
  end.

(* a stream: scalar key and count, or -- after split_rngs -- a vector of keys and counts plus the backup *)
Inductive stream :=
| Plain (key : kterm) (count : N)
| Split (keys : list kterm) (counts : list N) (backup_key : kterm) (backup_count : N).

Definition streams := list (N * stream).          (* stream name -> state *)
Fixpoint sassoc (nm : N) (ss : streams) : option stream :=
  match ss with [] => None | (k, v) :: r => if N.eqb nm k then Some v else sassoc nm r end.
Fixpoint sset (nm : N) (v : stream) (ss : streams) : streams :=
  match ss with
  | [] => [(nm, v)]
  | (k, v') :: r => if N.eqb nm k then (k, v) :: r else (k, v') :: sset nm v r
  end.

Inductive rop :=
| RDraw (nm : N)                 (* rngs.<nm>() ; a missing stream falls back to 'default' *)
| RSplit (only : list N) (n : nat)   (* split_rngs(rngs, splits=n, only=<those streams>) *)
| RSplitSq (only : list N)          (* split_rngs(rngs, splits=1, only=..., squeeze=True): the stream stays scalar *)
| RRestore                       (* restore_rngs of the most recent split *)
| RReseed (nm : N) (seed : N).

Definition default_stream : N := 0%N.

(* RngStream.__call__: fold_in(key, count); count += 1 -- elementwise on a split stream *)
Definition draw (s : stream) : list kterm * stream :=
  match s with
  | Plain k c => ([KFold k c], Plain k (c + 1))
  | Split ks cs bk bc => (map (fun kc => KFold (fst kc) (snd kc)) (combine ks cs), Split ks (map (fun c => (c + 1)%N) cs) bk bc)
  end.

Definition resolve (nm : N) (ss : streams) : option N :=
  match sassoc nm ss with Some _ => Some nm | None => match sassoc default_stream ss with Some _ => Some default_stream | None => None end end.

(* r_sq: the streams split with squeeze=True (one lane, scalar key: reseed is accepted on them) *)
Record rstate := mkR { r_streams : streams; r_out : list (list kterm); r_sq : list N }.

(* None = the operation raised *)
Definition rstep (s : rstate) (o : rop) : option rstate :=
  match o with
  | RDraw nm =>
      match resolve nm (r_streams s) with
      | None => None
      | Some t => match sassoc t (r_streams s) with
                  | Some st => let '(ks, st') := draw st in Some (mkR (sset t st' (r_streams s)) (r_out s ++ [ks]) (r_sq s))
                  | None => None end
      end
  | RSplit only n =>
      (* every selected plain stream: key = stream(); backup (key, count); key := split(key, n); count := zeros(n) *)
      Some (mkR (map (fun nv => match snd nv with
                                 | Plain k c => if memN (fst nv) only
                                                then (fst nv, Split (map (KSplit (KFold k c)) (seq 0 n)) (repeat 0%N n) k (c + 1))
                                                else nv
                                 | _ => nv end) (r_streams s)) (r_out s) (r_sq s))
  | RSplitSq only =>
      (* the same with one lane; key[0] is kept, so the key stays a scalar *)
      Some (mkR (map (fun nv => match snd nv with
                                 | Plain k c => if memN (fst nv) only
                                                then (fst nv, Split [KSplit (KFold k c) 0] [0%N] k (c + 1))
                                                else nv
                                 | _ => nv end) (r_streams s)) (r_out s)
                (map fst (filter (fun nv => match snd nv with Plain _ _ => memN (fst nv) only | _ => false end) (r_streams s)) ++ r_sq s))
  | RRestore =>
      Some (mkR (map (fun nv => match snd nv with Split _ _ bk bc => (fst nv, Plain bk bc) | _ => nv end) (r_streams s)) (r_out s) [])
  | RReseed nm seed =>
      match sassoc nm (r_streams s) with
      | Some (Plain _ _) => Some (mkR (sset nm (Plain (KSeed seed) 0) (r_streams s)) (r_out s) (r_sq s))
      | Some (Split _ _ bk bc) =>
          if memN nm (r_sq s) then Some (mkR (sset nm (Split [KSeed seed] [0%N] bk bc) (r_streams s)) (r_out s) (r_sq s))
          else None          (* ValueError: non-scalar key *)
      | None => Some s
      end
  end.
Definition rrun (ops : list rop) (s : rstate) : rstate :=
  fold_left (fun s o => match rstep s o with Some s' => s' | None => s end) ops s.

(* ---------------- Linen: LazyRng and the jit boundary (flax/core/scope.py LazyRng, flax/core/lift.py jit / fold_rngs) ---------------- *)
(* a Linen key is the seed key or the result of folding the SHA-1 digest of a byte string into a key; the hash and fold_in
   are idealised as injective (the byte string is kept) *)
Inductive lkey := LRoot (s : N) | LFold (k : lkey) (bytes : list N).
Fixpoint lkey_beq (a b : lkey) : bool :=
  match a, b with
  | LRoot x, LRoot y => N.eqb x y
  | LFold k x, LFold k' y => lkey_beq k k' && list_beq N.eqb x y
  | _, _ => false
  end.
(* LazyRng: a key and the static suffix (path, counts) still to be folded in *)
Record lazyrng := mkLazy { lr_key : lkey; lr_suffix : list foldable }.
Definition lazy_create (r : lazyrng) (more : list foldable) : lazyrng := mkLazy (lr_key r) (lr_suffix r ++ more).
(* as_jax_rng: _fold_in_static returns the key itself for an empty suffix *)
Definition as_jax_rng (sep : bool) (r : lazyrng) : lkey :=
  match lr_suffix r with [] => lr_key r | _ => LFold (lr_key r) (enc sep (lr_suffix r)) end.
(* Scope.make_rng: LazyRng.create(self.rngs[name], count).as_jax_rng() *)
Definition make_rng_key (sep : bool) (r : lazyrng) (count : N) : lkey := as_jax_rng sep (lazy_create r [FInt count]).
(* the rngs of a child scope: LazyRng.create(parent_rng, name) *)
Definition child_rng (r : lazyrng) (name : list N) : lazyrng := lazy_create r [FStr name].
(* what lift.jit / fold_rngs hand to the transformed function: before the repair the suffix was dropped (clear_suffix),
   now it is folded into the key data *)
Definition clear_suffix (r : lazyrng) : lazyrng := mkLazy (lr_key r) [].
Definition materialise (sep : bool) (r : lazyrng) : lazyrng := mkLazy (as_jax_rng sep r) [].

(* ---------------- Linen: rng counters through lift.cond / lift.switch ---------------- *)
(* lax.cond / lax.switch trace every branch, one after the other, on inner scopes that share the rng counters of the
   lifted scope: a branch that is listed at position i starts after the draws of the branches before it, and the draw
   that follows the transform comes after the draws of ALL branches.  ds = draws per branch, entry = the count so far. *)
Definition branch_counts (entry : nat) (ds : list nat) (i : nat) : list nat :=
  seq (entry + fold_right Nat.add 0 (firstn i ds) + 1) (nth i ds 0).
Definition count_after (entry : nat) (ds : list nat) : nat := entry + fold_right Nat.add 0 ds + 1.
