(* flax/linen/attention.py and flax/nnx/nn/attention.py dot_product_attention_weights / dot_product_attention for one
   (batch, head) slice: logits = q . k / sqrt(d) + bias, masked logits replaced by finfo.min (whose exponential is exactly
   0 after the maximum is subtracted), softmax, weighted sum of the values.  To stay executable over the rationals the
   logits are integer multiples of ln 2 (the harness feeds q = ln 2 * sqrt(d) * integers, integer keys, bias = ln 2 *
   integers), so exp(logit) = 2^n.  Definitions only. *)
From Coq Require Import QArith Qpower List ZArith Bool.
Import ListNotations.
From Flaxm Require Import Model.Layers.
Open Scope Q_scope.

Definition pow2 (n : Z) : Q := (2 # 1) ^ n.
Definition dotz (a b : list Z) : Z := fold_right Z.add 0%Z (map (fun p => (fst p * snd p)%Z) (combine a b)).
(* the logits of one query against every key, in units of ln 2 *)
Definition logits_of (q : list Z) (ks : list (list Z)) (bias : list Z) : list Z :=
  map (fun kb => (dotz q (fst kb) + snd kb)%Z) (combine ks bias).
(* exponentials: a masked position contributes exactly 0 *)
Definition expo (logits : list Z) (mask : list bool) : list Q :=
  map (fun lm => if (snd lm : bool) then pow2 (fst lm) else 0) (combine logits mask).
Definition weights (logits : list Z) (mask : list bool) : list Q :=
  let e := expo logits mask in let s := qsum e in map (fun x => x / s) e.
(* the output vector of one query: feature f is the weighted sum of feature f of the values *)
Definition wsum (w : list Q) (vs : list (list Z)) (f : nat) : Q :=
  qsum (map (fun wv => fst wv * inject_Z (nth f (snd wv) 0%Z)) (combine w vs)).
Definition attend (dv : nat) (q : list Z) (ks : list (list Z)) (bias : list Z) (mask : list bool) (vs : list (list Z)) : list Q :=
  let w := weights (logits_of q ks bias) mask in map (wsum w vs) (seq 0 dv).
(* whole attention: every query with its own bias row and mask row *)
Definition attention (dv : nat) (qs ks vs : list (list Z)) (bias : list (list Z)) (mask : list (list bool)) : list (list Q) :=
  map (fun qbm => attend dv (fst (fst qbm)) ks (snd (fst qbm)) (snd qbm) vs) (combine (combine qs bias) mask).

(* attention as the decode cache uses it: the keys and values cached so far, no bias, nothing masked *)
Definition att_kv (dv : nat) (q : list Z) (kvs : list (list Z * list Z)) : list Q :=
  attend dv q (map fst kvs) (repeat 0%Z (length kvs)) (repeat true (length kvs)) (map snd kvs).
(* row t of the causal mask over T keys *)
Definition causal_row (t T : nat) : list bool := repeat true (S t) ++ repeat false (T - S t).
