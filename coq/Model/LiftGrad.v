(* flax/core/lift.py vjp / jvp / value_and_grad (and the Linen wrappers nn.vjp, nn.jvp, nn.grad, nn.value_and_grad): which
   variables of the module receive a cotangent / carry a tangent (the collections matched by vjp_variables /
   present in variable_tangents), what the primal inputs receive, and the forward pass's writes being published once.
   The function differentiated is a polynomial in the module's scalar variables and its inputs (jax.vjp / jvp are
   idealised as the symbolic derivative).  Definitions only. *)
From Flaxm Require Import Lib.Harness Model.Filters Model.NnxLift.

(* values: the module's variables (with their collection) followed by the primal inputs *)
Record dfun := mkD { d_cols : list N;          (* collection of each variable *)
                     d_vals : list Z;          (* variables, then inputs *)
                     d_poly : gexp;
                     d_bumps : list nat }.     (* variables the forward pass increments (forward-pass side effects) *)
Definition nvars (d : dfun) : nat := length (d_cols d).
Definition nins (d : dfun) : nat := length (d_vals d) - nvars d.

(* the forward pass first applies its side effects, then evaluates *)
Definition fwd_vals (d : dfun) : list Z :=
  map (fun i => (nth i (d_vals d) 0 + (if existsb (Nat.eqb i) (d_bumps d) then 1 else 0))%Z) (seq 0 (length (d_vals d))).
Definition primal (d : dfun) : Z := geval (fwd_vals d) 0 (d_poly d).
Definition partial (d : dfun) (i : nat) : Z := geval (fwd_vals d) 0 (deriv i (d_poly d)).

Definition selected (f : filt) (d : dfun) : list nat := filter (fun i => in_filter f (nth i (d_cols d) 0%N)) (seq 0 (nvars d)).

(* vjp: (primal, cotangent of every selected variable, cotangent of every input) *)
Definition vjp_model (f : filt) (d : dfun) (ct : Z) : Z * list (nat * Z) * list Z :=
  (primal d, map (fun i => (i, (ct * partial d i)%Z)) (selected f d), map (fun k => (ct * partial d (nvars d + k))%Z) (seq 0 (nins d))).
(* jvp: tangents are given for some variables (variable_tangents) and for every input *)
Definition jvp_model (d : dfun) (tvars : list (nat * Z)) (tins : list Z) : Z * Z :=
  (primal d,
   (fold_right Z.add 0 (map (fun it => snd it * partial d (fst it)) tvars) +
    fold_right Z.add 0 (map (fun kt => snd kt * partial d (nvars d + fst kt)) (combine (seq 0 (nins d)) tins)))%Z).
(* grad / value_and_grad: gradients for the inputs only *)
Definition grad_inputs (d : dfun) : list Z := map (fun k => partial d (nvars d + k)) (seq 0 (nins d)).
(* the variables after the call: the side effects of the forward pass, once *)
Definition vars_after (d : dfun) : list Z := firstn (nvars d) (fwd_vals d).

(* a history of calls on the same bound module (direct calls and calls under nn.vjp / jvp / grad alike): each call starts
   from the variables the previous one left.  Result: the primal output of every call and the variables at the end. *)
Definition next_d (d : dfun) : dfun := mkD (d_cols d) (vars_after d ++ skipn (nvars d) (d_vals d)) (d_poly d) (d_bumps d).
Fixpoint hist (n : nat) (d : dfun) : list Z * list Z :=
  match n with
  | O => ([], firstn (nvars d) (d_vals d))
  | S m => let '(ys, vs) := hist m (next_d d) in (primal d :: ys, vs)
  end.

(* lift.custom_vjp(fn, forward_fn, backward_fn, grad_vars): evaluated without differentiation the result is fn's value; under
   differentiation the cotangents are what the USER's backward rule returns for the residuals and the incoming cotangent, for the
   collections grad_vars selects and for the inputs.  The rule used by the correspondence returns rv times the true cotangent
   for every selected variable and ri times the true cotangent for every input. *)
Definition custom_vjp_value (d : dfun) : Z := primal d.
Definition custom_vjp_model (f : filt) (d : dfun) (rv ri ct : Z) : Z * list (nat * Z) * list Z :=
  let '(y, vg, ig) := vjp_model f d ct in (y, map (fun g => (fst g, (rv * snd g)%Z)) vg, map (Z.mul ri) ig).
