(* flax/nnx/bridge: variables.py (linen_vars_to_nnx_attrs, nnx_attrs_to_linen_vars, _recursive_merge, to_nnx_var /
   to_linen_var's choice of type by collection name), wrappers.py (ToNNX.__call__: variables from attributes, Linen apply,
   merging the updates of mutable collections back into the attributes) and the name <-> type registry of
   variablelib (variable_type_from_name / variable_name_from_type / register_variable_name).
   Variable trees are kept flat, path -> leaf, which is how the code itself merges them (traversals.flatten_mapping).
   Definitions only. *)
From Flaxm Require Import Lib.Harness Model.Filters Model.Linen.

(* ---------------- the registry ---------------- *)
Definition registry := list (N * N).                (* collection name -> Variable type, in insertion order *)
Fixpoint type_of_name (r : registry) (nm : N) : option N :=
  match r with [] => None | (n, t) :: q => if N.eqb n nm then Some t else type_of_name q nm end.
Fixpoint name_of_type (r : registry) (t : N) : option N :=          (* the first name registered for the type *)
  match r with [] => None | (n, t') :: q => if N.eqb t' t then Some n else name_of_type q t end.
(* variable_type_from_name(name, allow_register=True): a new class is created for an unknown name; the new class is
   identified with (fresh r), a code no registered type has *)
Definition fresh (r : registry) : N := N.succ (fold_right (fun nt m => N.max (snd nt) m) 0%N r).
Definition type_from_name (r : registry) (nm : N) : N * registry :=
  match type_of_name r nm with Some t => (t, r) | None => (fresh r, r ++ [(nm, fresh r)]) end.
(* variable_name_from_type(typ, allow_register=True): typ.__name__ (given as cls_name) is registered unless taken *)
Definition name_from_type (r : registry) (t cls_name : N) : option (N * registry) :=
  match name_of_type r t with
  | Some n => Some (n, r)
  | None => match type_of_name r cls_name with Some _ => None | None => Some (cls_name, r ++ [(cls_name, t)]) end
  end.
Definition reg_inj (r : registry) : Prop := NoDup (map fst r) /\ NoDup (map snd r).
(* register_variable_name(name, typ, overwrite): VariableTypeCache[name] = typ (a dict: an existing name keeps its place) *)
Fixpoint reg_set (r : registry) (nm t : N) : registry :=
  match r with [] => [(nm, t)] | (n, t') :: q => if N.eqb n nm then (n, t) :: q else (n, t') :: reg_set q nm t end.
Definition reg_register (r : registry) (nm t : N) (overwrite : bool) : option registry :=
  match type_of_name r nm with
  | Some _ => if overwrite then Some (reg_set r nm t) else None
  | None => Some (r ++ [(nm, t)])
  end.
(* histories of registry operations and what each returns (OErr = ValueError) *)
Inductive regop := ROReg (nm t : N) (ow : bool) | RONameOf (t cls : N) (allow : bool) | ROTypeOf (nm : N).
Inductive regobs := OErr | OOk | OName (n : N) | OType (t : N).
Definition reg_step (r : registry) (o : regop) : regobs * registry :=
  match o with
  | ROReg nm t ow => match reg_register r nm t ow with Some r' => (OOk, r') | None => (OErr, r) end
  | RONameOf t cls allow =>
      if allow then match name_from_type r t cls with Some (n, r') => (OName n, r') | None => (OErr, r) end
      else match name_of_type r t with Some n => (OName n, r) | None => (OErr, r) end
  | ROTypeOf nm => match type_of_name r nm with Some t => (OType t, r) | None => (OErr, r) end
  end.
Definition regobs_beq (a b : regobs) : bool :=
  match a, b with OErr, OErr | OOk, OOk => true | OName x, OName y | OType x, OType y => N.eqb x y | _, _ => false end.
Fixpoint reg_run (r : registry) (h : list (regop * regobs)) : bool :=
  match h with [] => true | (o, e) :: q => let '(g, r') := reg_step r o in regobs_beq g e && reg_run r' q end.

(* ---------------- flat variable trees ---------------- *)
Definition fmap (A : Type) := list (path * A).
Fixpoint fm_get {A} (p : path) (m : fmap A) : option A :=
  match m with [] => None | (q, v) :: r => if path_eqb p q then Some v else fm_get p r end.
Fixpoint fm_set {A} (p : path) (v : A) (m : fmap A) : fmap A :=
  match m with
  | [] => [(p, v)]
  | (q, w) :: r => if path_eqb p q then (q, v) :: r else (q, w) :: fm_set p v r
  end.
(* dict union, right operand wins: _recursive_merge on flattened mappings *)
Definition fm_union {A} (a b : fmap A) : fmap A := fold_left (fun m pv => fm_set (fst pv) (snd pv) m) b a.

(* Linen variables: collection -> flat tree;  NNX attributes: one flat tree whose leaves carry their collection *)
Definition lvars := list (N * fmap sval).
Definition attrs := fmap (N * sval).

(* linen_vars_to_nnx_attrs: every collection is merged into one attribute tree; a path that occurs in two collections
   keeps the entry of the later one (F11) *)
(* jax.tree_util.tree_map rebuilds the dict of collections with SORTED keys, so "later" means alphabetically later;
   collection names are interned in alphabetical order *)
Fixpoint ins_col {A} (cm : N * A) (l : list (N * A)) : list (N * A) :=
  match l with [] => [cm] | x :: r => if (fst cm <=? fst x)%N then cm :: l else x :: ins_col cm r end.
Definition sort_cols {A} (l : list (N * A)) : list (N * A) := fold_right ins_col [] l.
Definition to_nnx (v : lvars) : attrs :=
  fold_left (fun a cm => fm_union a (map (fun pv => (fst pv, (fst cm, snd pv))) (snd cm))) (sort_cols v) [].

(* nnx_attrs_to_linen_vars: the leaves are regrouped by the collection their type is registered for *)
Fixpoint lv_add (c : N) (p : path) (x : sval) (v : lvars) : lvars :=
  match v with
  | [] => [(c, [(p, x)])]
  | (c', m) :: r => if N.eqb c c' then (c', fm_set p x m) :: r else (c', m) :: lv_add c p x r
  end.
Definition to_linen (a : attrs) : lvars := fold_left (fun v pcx => lv_add (fst (snd pcx)) (fst pcx) (snd (snd pcx)) v) a [].

Definition lv_get (v : lvars) (c : N) (p : path) : option sval :=
  match find (fun cm => N.eqb (fst cm) c) v with Some cm => fm_get p (snd cm) | None => None end.

(* ToNNX.__call__ with mutable collections: the returned updates are merged into the attributes (after the repair of
   F23: recursively, i.e. leaf by leaf) *)
Definition merge_updates (a : attrs) (upd : lvars) : attrs := fm_union a (to_nnx upd).

(* before the repair: `original_tree | value` per top-level attribute -- a sub-layer attribute is REPLACED by the part of
   it the updates contain, a top-level variable is replaced as before *)
Definition top (p : path) : option name := match p with k :: _ => Some k | [] => None end.
Definition is_sublayer (p : path) : bool := match p with _ :: _ :: _ => true | _ => false end.
Definition merge_updates_old (a : attrs) (upd : lvars) : attrs :=
  let u := to_nnx upd in
  (* top-level attribute names that come back as dicts; the old tree under them survives only one level deep *)
  let replaced := fun (p : path) =>
    match p with
    | k :: k2 :: _ :: _ =>      (* depth >= 3: a leaf of a nested dict: dropped when the update holds the same second-level key *)
        existsb (fun qv => match fst qv with k' :: k2' :: _ => name_eqb k k' && name_eqb k2 k2' | _ => false end) u
    | _ => false
    end in
  fm_union (filter (fun pv => negb (replaced (fst pv))) a) u.

(* ---------------- flattening the trees of Model/Linen.v ---------------- *)
Fixpoint flat_node (p : path) (n : node) : fmap sval :=
  match n with
  | VLeaf v => [(p, v)]
  | VNode kids => (fix go (ks : list (name * node)) : fmap sval :=
                     match ks with [] => [] | (k, c) :: r => flat_node (p ++ [k]) c ++ go r end) kids
  end.
Definition flat_vtree (t : vtree) : lvars := map (fun cn => (fst cn, flat_node [] (snd cn))) t.

(* comparison up to order *)
Definition sval_beq (a b : sval) : bool :=
  match a, b with SVec x, SVec y => list_beq Z.eqb x y | STuple x, STuple y => list_beq (list_beq Z.eqb) x y | _, _ => false end.
Definition fm_sub {A} (eq : A -> A -> bool) (a b : fmap A) : bool :=
  forallb (fun pv => match fm_get (fst pv) b with Some w => eq (snd pv) w | None => false end) a.
Definition fm_eqv {A} (eq : A -> A -> bool) (a b : fmap A) : bool := fm_sub eq a b && fm_sub eq b a.
Definition lv_nonempty (v : lvars) : lvars := filter (fun cm => match snd cm with [] => false | _ => true end) v.
Definition lv_eqv (a b : lvars) : bool :=
  let sub x y := forallb (fun cm => match find (fun dm => N.eqb (fst dm) (fst cm)) y with
                                    | Some dm => fm_eqv sval_beq (snd cm) (snd dm) | None => false end) x in
  sub (lv_nonempty a) (lv_nonempty b) && sub (lv_nonempty b) (lv_nonempty a).
