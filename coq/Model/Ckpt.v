(* flax/training/checkpoints.py: save_checkpoint (legacy msgpack and Orbax back-ends), _check_overwrite_error,
   _save_main_ckpt_file, _save_commit, _remove_invalid_ckpts (after the `fix:` commit that skips temporaries),
   _all_checkpoints, latest_checkpoint, restore of a listed name -- as a directory state machine whose saves are
   sequences of atomic file-system operations, so that a crash is "execute a prefix".  Definitions only.
   Names are structured (prefix + step, prefix + 'tmp', prefix + step + '.orbax-checkpoint-tmp', unrelated):
   the model covers prefixes for which the natural sort orders names by the numeric value of the step. *)
From Flaxm Require Import Lib.Harness.

(* steps are integers: the harness scales the steps (and keep_every_n_steps) of a history by a common positive
   factor so that every step is an integer; only comparisons and differences of steps are used *)
Inductive fname := NStep (s : Z) | NTmp | NOrbTmp (s : Z) | NOther (k : N).
Inductive content := Complete (p : N) | Partial.
Inductive entry := EFile (c : content) | EDir (c : content).
Definition dir := list (fname * entry).

Definition fname_eqb (a b : fname) : bool :=
  match a, b with
  | NStep x, NStep y | NOrbTmp x, NOrbTmp y => Z.eqb x y
  | NTmp, NTmp => true
  | NOther x, NOther y => N.eqb x y
  | _, _ => false
  end.

Fixpoint dlookup (n : fname) (d : dir) : option entry :=
  match d with [] => None | (m, e) :: r => if fname_eqb n m then Some e else dlookup n r end.
Fixpoint dremove (n : fname) (d : dir) : dir :=
  match d with [] => [] | (m, e) :: r => if fname_eqb n m then dremove n r else (m, e) :: dremove n r end.
Definition dset (n : fname) (e : entry) (d : dir) : dir := (n, e) :: dremove n d.

(* natural sort of names with a common prefix: by step, a step's Orbax temporary right after it, 'tmp' last *)
Definition name_le (a b : fname) : bool :=
  match a, b with
  | NOther _, _ => true
  | _, NOther _ => false
  | _, NTmp => true
  | NTmp, _ => false
  | NStep x, NStep y => Z.leb x y
  | NStep x, NOrbTmp y => Z.leb x y
  | NOrbTmp x, NStep y => Z.ltb x y
  | NOrbTmp x, NOrbTmp y => Z.leb x y
  end.
Fixpoint insert_sorted (n : fname) (l : list fname) : list fname :=
  match l with [] => [n] | m :: r => if name_le n m then n :: l else m :: insert_sorted n r end.
Definition natural_sort (l : list fname) : list fname := fold_right insert_sorted [] l.

Definition is_step (n : fname) : bool := match n with NStep _ => true | _ => false end.
Definition matches_prefix (n : fname) : bool := match n with NOther _ => false | _ => true end.

(* _all_checkpoints: prefix*, not tmp, not an Orbax temporary *)
Definition all_checkpoints (d : dir) : list fname := natural_sort (filter is_step (map fst d)).
Definition latest (d : dir) : option fname := last (map Some (all_checkpoints d)) None.
(* restoring a listed name: the payload, or None if the file/dir is torn or half deleted *)
Definition restore (d : dir) (n : fname) : option N :=
  match dlookup n d with
  | Some (EFile (Complete p)) | Some (EDir (Complete p)) => Some p
  | _ => None
  end.

(* atomic file-system operations *)
Inductive fsop :=
| OpCreate (n : fname)                 (* open(..., 'wb'): creates or truncates *)
| OpWrite (n : fname) (p : N)          (* the write completes *)
| OpMkTmpDir (n : fname) | OpFillDir (n : fname) (p : N)
| OpRename (src dst : fname)
| OpRemove (n : fname)                 (* os.remove of a file *)
| OpRmtreeBegin (n : fname) | OpRmtreeEnd (n : fname).

Definition exec_op (d : dir) (o : fsop) : dir :=
  match o with
  | OpCreate n => dset n (EFile Partial) d
  | OpWrite n p => dset n (EFile (Complete p)) d
  | OpMkTmpDir n => dset n (EDir Partial) d
  | OpFillDir n p => dset n (EDir (Complete p)) d
  | OpRename s t => match dlookup s d with Some e => dset t e (dremove s d) | None => d end
  | OpRemove n => dremove n d
  | OpRmtreeBegin n => match dlookup n d with Some (EDir _) => dset n (EDir Partial) d | _ => d end
  | OpRmtreeEnd n => dremove n d
  end.
Definition exec_ops (ops : list fsop) (d : dir) : dir := fold_left exec_op ops d.

(* _safe_remove *)
Definition remove_ops (d : dir) (n : fname) : list fsop :=
  match dlookup n d with
  | Some (EDir _) => [OpRmtreeBegin n; OpRmtreeEnd n]
  | _ => [OpRemove n]
  end.

Record req := mkReq { r_step : Z; r_payload : N; r_keep : nat; r_overwrite : bool; r_every : option Z; r_orbax : bool }.

Definition step_of (n : fname) : Z := match n with NStep s | NOrbTmp s => s | _ => 0%Z end.

(* the keep / keep_every_n_steps pass over the old checkpoints, oldest first *)
Fixpoint retain_old (every : option Z) (last_kept : option Z) (olds : list fname) : list fname (* to delete *) :=
  match olds with
  | [] => []
  | n :: r =>
      match every with
      | Some ev =>
          let s := step_of n in
          if negb (Z.eqb s 0) && (match last_kept with None => true | Some lk => Z.leb ev (s - lk) end)
          then retain_old every (Some s) r
          else n :: retain_old every last_kept r
      | None => n :: retain_old every last_kept r
      end
  end.

Fixpoint split_after (n : fname) (l : list fname) : option (list fname * list fname) :=
  match l with
  | [] => None
  | m :: r => if fname_eqb n m then Some ([m], r)
              else match split_after n r with Some (a, b) => Some (m :: a, b) | None => None end
  end.

(* _remove_invalid_ckpts on the directory d (computed after the commit rename) *)
Definition retention_deletes (d : dir) (q : req) : list fname :=
  let files := natural_sort (filter is_step (map fst d)) in
  let '(files1, newer) :=
      if r_overwrite q then match split_after (NStep (r_step q)) files with Some (a, b) => (a, b) | None => (files, []) end
      else (files, []) in
  (* old_ckpts = checkpoint_files[:-keep]; note that [:-0] is empty *)
  let olds := if Nat.eqb (r_keep q) 0 then [] else firstn (length files1 - r_keep q) files1 in
  newer ++ (if Nat.ltb (r_keep q) (length files1) then retain_old (r_every q) None olds else []).

Definition retention_ops (d : dir) (q : req) : list fsop :=
  flat_map (remove_ops d) (retention_deletes d q).

Inductive outcome := Saved | ErrExists | ErrOlder.

(* _check_overwrite_error (legacy, only without overwrite): lists prefix* including temporaries *)
Definition check_overwrite (d : dir) (s : Z) : outcome :=
  let files := filter matches_prefix (map fst d) in
  if existsb (fname_eqb (NStep s)) files then ErrExists else
  let sorted := natural_sort (NStep s :: files) in
  let sorted' := match last sorted NTmp with NTmp => removelast sorted | _ => sorted end in
  match last sorted' NTmp with
  | NStep s' => if Z.eqb s s' then Saved else ErrOlder
  | _ => ErrOlder
  end.

(* the atomic steps of one save, given the directory it starts from *)
Definition save_ops (d : dir) (q : req) : outcome * list fsop :=
  let me := NStep (r_step q) in
  if r_orbax q then
    match dlookup me d with
    | Some _ => if r_overwrite q
                then (* Checkpointer.save(force=True): delete the destination first *)
                  let pre := remove_ops d me in
                  let tmp := NOrbTmp (r_step q) in
                  let main := [OpMkTmpDir tmp; OpFillDir tmp (r_payload q); OpRename tmp me] in
                  let d' := exec_ops (pre ++ main) d in
                  (Saved, pre ++ main ++ retention_ops d' q)
                else (ErrExists, [])
    | None =>
        let tmp := NOrbTmp (r_step q) in
        let main := [OpMkTmpDir tmp; OpFillDir tmp (r_payload q); OpRename tmp me] in
        let d' := exec_ops main d in
        (Saved, main ++ retention_ops d' q)
    end
  else
    match (if r_overwrite q then Saved else check_overwrite d (r_step q)) with
    | Saved =>
        let main := [OpCreate NTmp; OpWrite NTmp (r_payload q); OpRename NTmp me] in
        let d' := exec_ops main d in
        (Saved, main ++ retention_ops d' q)
    | e => (e, [])
    end.

(* a save that dies after `crash` atomic operations (None: runs to completion) *)
Definition run_save (d : dir) (q : req) (crash : option nat) : dir * outcome :=
  let '(o, ops) := save_ops d q in
  (exec_ops (match crash with Some k => firstn k ops | None => ops end) d, o).

Definition run_history (h : list (req * option nat)) (d : dir) : dir :=
  fold_left (fun d qc => fst (run_save d (fst qc) (snd qc))) h d.

(* ---- executable comparison ---- *)
Definition content_beq (a b : content) : bool :=
  match a, b with Complete x, Complete y => N.eqb x y | Partial, Partial => true | _, _ => false end.
Definition entry_beq (a b : entry) : bool :=
  match a, b with EFile x, EFile y | EDir x, EDir y => content_beq x y | _, _ => false end.
Definition dir_equiv (a b : dir) : bool :=
  Nat.eqb (length a) (length b) && forallb (fun ne => option_beq entry_beq (dlookup (fst ne) b) (Some (snd ne))) a.
Definition outcome_beq (a b : outcome) : bool :=
  match a, b with Saved, Saved | ErrExists, ErrExists | ErrOlder, ErrOlder => true | _, _ => false end.
