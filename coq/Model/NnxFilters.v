(* NNX filters: flax/nnx/filterlib.py to_predicate, WithTag, PathContains, PathIn, OfType, Any, All, Not,
   Everything, Nothing, filters_to_predicates; the first-match loops of statelib._split_state and
   variablelib.split_flat_state.  Definitions only. *)
From Flaxm Require Import Lib.Harness.

(* what a predicate can observe of a leaf: its path, the (codes of the) classes the leaf is an instance of
   or whose `.type` is a subclass of, its tag; lid identifies the leaf for comparison of outputs *)
Record leaf := mkLeaf { lpath : list N; lmro : list N; ltag : option N; lid : N }.

Inductive nfilt :=
| NType (t : N) | NTag (s : N) | NPathContains (k : N) | NPathIn (ps : list (list N))
| NAny (l : list nfilt) | NAll (l : list nfilt) | NNot (f : nfilt)
| NBool (b : bool) | NEllipsis | NNone | NSeq (l : list nfilt).

(* to_predicate followed by application: str -> WithTag, type -> OfType, True/... -> Everything,
   False/None -> Nothing, list/tuple -> Any *)
Fixpoint denote (f : nfilt) (x : leaf) : bool :=
  match f with
  | NType t => memN t (lmro x)
  | NTag s => match ltag x with Some t => N.eqb s t | None => false end
  | NPathContains k => memN k (lpath x)
  | NPathIn ps => existsb (list_beq N.eqb (lpath x)) ps
  | NAny l => existsb (fun g => denote g x) l
  | NSeq l => existsb (fun g => denote g x) l
  | NAll l => forallb (fun g => denote g x) l
  | NNot g => negb (denote g x)
  | NBool b => b
  | NEllipsis => true
  | NNone => false
  end.

Definition is_catchall (f : nfilt) : bool :=
  match f with NEllipsis => true | NBool true => true | _ => false end.

(* the "`...` or `True` can only be used as the last filters" check *)
Fixpoint ellipsis_ok (fs : list nfilt) : bool :=
  match fs with
  | [] => true
  | f :: r => (if is_catchall f then forallb is_catchall r else true) && ellipsis_ok r
  end.

(* index of the first predicate that holds; length fs when none does *)
Fixpoint first_idx (fs : list nfilt) (x : leaf) : nat :=
  match fs with
  | [] => 0
  | f :: r => if denote f x then 0 else S (first_idx r x)
  end.

Fixpoint add_at {A} (i : nat) (x : A) (bs : list (list A)) : list (list A) :=
  match bs, i with
  | b :: r, O => (b ++ [x]) :: r
  | b :: r, S j => b :: add_at j x r
  | [], _ => []
  end.

(* the loop of _split_state: n + 1 buckets, each leaf appended to the bucket of its first match, or to
   the last bucket *)
Definition split_loop (fs : list nfilt) (ls : list leaf) : list (list leaf) :=
  fold_left (fun bs x => add_at (first_idx fs x) x bs) ls (repeat [] (S (length fs))).

Definition nnx_split (fs : list nfilt) (ls : list leaf) : option (list (list leaf)) :=
  if ellipsis_ok fs then Some (split_loop fs ls) else None.

(* variablelib.split_flat_state / nnx.split_state: the remainder must be empty *)
Definition nnx_split_exhaustive (fs : list nfilt) (ls : list leaf) : option (list (list leaf)) :=
  match nnx_split fs ls with
  | Some bs => match last bs [] with [] => Some (removelast bs) | _ => None end
  | None => None
  end.

Definition ids (bs : list (list leaf)) : list (list N) := map (map lid) bs.
