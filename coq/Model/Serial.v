(* flax/serialization.py: to_state_dict / from_state_dict and the registered handlers (dict, list, tuple,
   namedtuple, FrozenDict, struct.dataclass), _chunk/_unchunk and their in-place drivers, the msgpack
   ext packing of arrays / numpy scalars / complex, and msgpack-python's wire encoder.  Definitions only. *)
From Flaxm Require Import Lib.Harness Model.Flatten.

Inductive leaf :=
| LArr (dtype : key) (shape : list N) (itemsize : N) (data : list N)     (* data = arr.tobytes('C') *)
| LNpScalar (dtype : key) (itemsize : N) (data : list N)
| LInt (z : Z) | LFloat (bits : N) | LBool (b : bool) | LNone | LStr (s : key) | LBytes (b : list N)
| LComplex (re im : N).

Inductive ptree :=
| PLeaf (l : leaf)
| PDict (kids : list (key * ptree))
| PFrozen (kids : list (key * ptree))
| PList (xs : list ptree)
| PTuple (xs : list ptree)
| PNamed (ty : N) (fields : list (key * ptree))       (* a namedtuple class and its fields in order *)
| PData (cls : N) (fields : list (key * ptree)).      (* a struct.dataclass: its pytree (data) fields in order;
                                                         static fields live in the class/instance and are copied by replace *)

Inductive sd := SLeaf (l : leaf) | SDict (kids : list (key * sd)).

(* ---- str(i) ---- *)
Fixpoint dec_go (fuel : nat) (n : nat) (acc : key) : key :=
  match fuel with
  | O => acc
  | S f => let d := (N.of_nat (n mod 10) + 48)%N in
           if Nat.ltb n 10 then d :: acc else dec_go f (n / 10) (d :: acc)
  end.
Definition dec (n : nat) : key := dec_go (S n) n [].

Fixpoint enumerate_from {A} (i : nat) (l : list A) : list (nat * A) :=
  match l with [] => [] | x :: r => (i, x) :: enumerate_from (S i) r end.

(* ---- to_state_dict ---- *)
Fixpoint to_sd (t : ptree) : sd :=
  match t with
  | PLeaf l => SLeaf l
  | PDict kids => SDict (map (fun kv => (fst kv, to_sd (snd kv))) kids)
  | PFrozen kids => SDict (map (fun kv => (fst kv, to_sd (snd kv))) kids)
  | PList xs => SDict (map (fun ix => (dec (fst ix), snd ix)) (enumerate_from 0 (map to_sd xs)))
  | PTuple xs => SDict (map (fun ix => (dec (fst ix), snd ix)) (enumerate_from 0 (map to_sd xs)))
  | PNamed _ fields => SDict (map (fun kv => (fst kv, to_sd (snd kv))) fields)
  | PData _ fields => SDict (map (fun kv => (fst kv, to_sd (snd kv))) fields)
  end.

(* ---- from_state_dict ---- *)
Inductive err :=
| EMissingKeys (p : path)      (* dict / FrozenDict target keys absent from the state *)
| ELength (p : path)           (* list / tuple size mismatch *)
| EFields (p : path)           (* namedtuple / dataclass field names differ *)
| EOther.                      (* KeyError / AttributeError: the state has the wrong kind of value *)
Inductive res (A : Type) := Ok (a : A) | Err (e : err).
Arguments Ok {A} a. Arguments Err {A} e.

Fixpoint sd_lookup (k : key) (kids : list (key * sd)) : option sd :=
  match kids with [] => None | (k', v) :: r => if key_eqb k k' then Some v else sd_lookup k r end.

(* an unregistered (leaf) target returns the state unchanged: nested dicts stay plain dicts *)
Fixpoint sd_to_ptree (s : sd) : ptree :=
  match s with
  | SLeaf l => PLeaf l
  | SDict kids => PDict (map (fun kv => (fst kv, sd_to_ptree (snd kv))) kids)
  end.

Definition has_key (k : key) (kids : list (key * sd)) : bool := existsb (fun kv => key_eqb k (fst kv)) kids.
Definition keyset_eq (a b : list key) : bool :=
  forallb (fun k => existsb (key_eqb k) b) a && forallb (fun k => existsb (key_eqb k) a) b.

Definition legacy_nt_keys : list key :=
  [[110; 97; 109; 101]; [102; 105; 101; 108; 100; 115]; [118; 97; 108; 117; 101; 115]]%N. (* name fields values *)

Section FromSd.
  (* restore the children of a keyed container, looking every target key up in the state *)
  Variable from_sd : path -> ptree -> sd -> res ptree.
  Fixpoint restore_fields (p : path) (fields : list (key * ptree)) (st : list (key * sd)) : res (list (key * ptree)) :=
    match fields with
    | [] => Ok []
    | (k, t) :: r =>
        match sd_lookup k st with
        | None => Err EOther
        | Some s =>
            match from_sd (p ++ [k]) t s with
            | Err e => Err e
            | Ok t' => match restore_fields p r st with Err e => Err e | Ok r' => Ok ((k, t') :: r') end
            end
        end
    end.
  Fixpoint restore_items (p : path) (i : nat) (xs : list ptree) (st : list (key * sd)) : res (list ptree) :=
    match xs with
    | [] => Ok []
    | t :: r =>
        match sd_lookup (dec i) st with
        | None => Err EOther
        | Some s =>
            match from_sd (p ++ [dec i]) t s with
            | Err e => Err e
            | Ok t' => match restore_items p (S i) r st with Err e => Err e | Ok r' => Ok (t' :: r') end
            end
        end
    end.
End FromSd.

(* fuel = height of the target; the path argument is the error-message path (root '.') *)
Fixpoint from_sd (fuel : nat) (p : path) (t : ptree) (s : sd) : res ptree :=
  match fuel with O => Err EOther | S f =>
  match t with
  | PLeaf _ => Ok (sd_to_ptree s)
  | PDict kids =>
      match s with
      | SDict st =>
          if forallb (fun kv => has_key (fst kv) st) kids
          then match restore_fields (from_sd f) p kids st with Ok r => Ok (PDict r) | Err e => Err e end
          else Err (EMissingKeys p)
      | SLeaf _ => Err EOther
      end
  | PFrozen kids =>
      match s with
      | SDict st =>
          if forallb (fun kv => has_key (fst kv) st) kids
          then match restore_fields (from_sd f) p kids st with Ok r => Ok (PFrozen r) | Err e => Err e end
          else Err (EMissingKeys p)
      | SLeaf _ => Err EOther
      end
  | PList xs =>
      match s with
      | SDict st =>
          if Nat.eqb (length st) (length xs)
          then match restore_items (from_sd f) p 0 xs st with Ok r => Ok (PList r) | Err e => Err e end
          else Err (ELength p)
      | SLeaf _ => Err EOther
      end
  | PTuple xs =>
      match s with
      | SDict st =>
          if Nat.eqb (length st) (length xs)
          then match restore_items (from_sd f) p 0 xs st with Ok r => Ok (PTuple r) | Err e => Err e end
          else Err (ELength p)
      | SLeaf _ => Err EOther
      end
  | PNamed ty fields =>
      match s with
      | SDict st =>
          if keyset_eq (map fst st) (map fst fields)
          then (* rebuilt by keyword from the state's entries: same fields, class order *)
               match restore_fields (from_sd f) p fields st with Ok r => Ok (PNamed ty r) | Err e => Err e end
          else Err (EFields p)
      | SLeaf _ => Err EOther
      end
  | PData cls fields =>
      match s with
      | SDict st =>
          if forallb (fun kv => has_key (fst kv) st) fields && forallb (fun k => existsb (key_eqb k) (map fst fields)) (map fst st)
          then match restore_fields (from_sd f) p fields st with Ok r => Ok (PData cls r) | Err e => Err e end
          else Err (EFields p)
      | SLeaf _ => Err EOther
      end
  end end.

Fixpoint height (t : ptree) : nat :=
  match t with
  | PLeaf _ => 1
  | PDict kids | PFrozen kids | PNamed _ kids | PData _ kids => S (fold_right (fun kv m => Nat.max (height (snd kv)) m) 0 kids)
  | PList xs | PTuple xs => S (fold_right (fun x m => Nat.max (height x) m) 0 xs)
  end.

Definition root_path : path := [[46%N]].  (* '.' *)
Definition from_state_dict (t : ptree) (s : sd) : res ptree := from_sd (height t) root_path t s.

(* ---- chunking ---- *)
Definition k_chunked : key := map N.of_nat (map (fun c => c) [95;95;109;115;103;112;97;99;107;95;99;104;117;110;107;101;100;95;97;114;114;97;121;95;95]).
Definition k_shape : key := [115; 104; 97; 112; 101]%N.
Definition k_chunks : key := [99; 104; 117; 110; 107; 115]%N.

Fixpoint chunks_go {A} (fuel : nat) (n : nat) (l : list A) : list (list A) :=
  match fuel with
  | O => []
  | S f => match l with [] => [] | _ => firstn n l :: chunks_go f n (skipn n l) end
  end.
Definition chunks {A} (n : nat) (l : list A) : list (list A) := chunks_go (length l) n l.

Definition prodN (l : list N) : N := fold_right N.mul 1%N l.

(* _chunk: chunksize elements = max(1, int(MAX_CHUNK_SIZE / itemsize)); each chunk is a rank-1 array *)
Definition chunk (th : N) (dtype : key) (shape : list N) (itemsize : N) (data : list N) : sd :=
  let csize := N.max 1 (th / itemsize) in
  let cbytes := N.to_nat (csize * itemsize) in
  let cs := chunks cbytes data in
  SDict [ (k_chunked, SLeaf (LBool true));
          (k_shape, SDict (map (fun ix => (dec (fst ix), SLeaf (LInt (Z.of_N (snd ix))))) (enumerate_from 0 shape)));
          (k_chunks, SDict (map (fun ix => (dec (fst ix),
                       SLeaf (LArr dtype [N.of_nat (length (snd ix)) / itemsize]%N itemsize (snd ix)))) (enumerate_from 0 cs))) ].

(* _chunk_array_leaves_in_place on a state dict *)
Fixpoint chunk_leaves (th : N) (s : sd) : sd :=
  match s with
  | SLeaf (LArr dt sh isz data) => if N.ltb th (prodN sh * isz) then chunk th dt sh isz data else s
  | SLeaf _ => s
  | SDict kids => SDict (map (fun kv => (fst kv, chunk_leaves th (snd kv))) kids)
  end.

(* _dict_to_tuple *)
Fixpoint dict_to_list (i n : nat) (st : list (key * sd)) : option (list sd) :=
  match n with
  | O => Some []
  | S m => match sd_lookup (dec i) st with
           | None => None
           | Some s => option_map (cons s) (dict_to_list (S i) m st)
           end
  end.

Definition unchunk (kids : list (key * sd)) : option sd :=
  match sd_lookup k_shape kids, sd_lookup k_chunks kids with
  | Some (SDict sh), Some (SDict cs) =>
      match dict_to_list 0 (length sh) sh, dict_to_list 0 (length cs) cs with
      | Some shl, Some csl =>
          let dims := map (fun s => match s with SLeaf (LInt z) => Z.to_N z | _ => 0%N end) shl in
          match csl with
          | SLeaf (LArr dt _ isz _) :: _ =>
              Some (SLeaf (LArr dt dims isz (concat (map (fun s => match s with SLeaf (LArr _ _ _ d) => d | _ => [] end) csl))))
          | _ => None       (* np.concatenate of nothing raises *)
          end
      | _, _ => None
      end
  | _, _ => None
  end.

(* _unchunk_array_leaves_in_place; None = an exception inside _unchunk *)
Fixpoint unchunk_leaves (s : sd) : option sd :=
  match s with
  | SLeaf _ => Some s
  | SDict kids =>
      if has_key k_chunked kids then unchunk kids else
      option_map SDict
        ((fix go (l : list (key * sd)) : option (list (key * sd)) :=
            match l with
            | [] => Some []
            | (k, v) :: r => match unchunk_leaves v, go r with
                             | Some v', Some r' => Some ((k, v') :: r') | _, _ => None end
            end) kids)
  end.

(* ---- msgpack values and msgpack-python's encoder ---- *)
Inductive mv :=
| MNil | MBool (b : bool) | MInt (z : Z) | MF64 (bits : N) | MStr (s : list N) | MBin (b : list N)
| MArr (l : list mv) | MMap (l : list (mv * mv)) | MExt (code : N) (data : list N).

(* k big-endian bytes of n *)
Fixpoint le_bytes (k : nat) (n : N) : list N :=
  match k with O => [] | S k' => (n mod 256)%N :: le_bytes k' (n / 256)%N end.
Definition be_bytes (k : nat) (n : N) : list N := rev (le_bytes k n).

Definition enc_int (z : Z) : list N :=
  if (0 <=? z)%Z then
    let n := Z.to_N z in
    if (n <? 128)%N then [n]
    else if (n <? 256)%N then 204%N :: be_bytes 1 n
    else if (n <? 65536)%N then 205%N :: be_bytes 2 n
    else if (n <? 4294967296)%N then 206%N :: be_bytes 4 n
    else 207%N :: be_bytes 8 n
  else
    if (-32 <=? z)%Z then [Z.to_N (256 + z)]
    else if (-128 <=? z)%Z then 208%N :: be_bytes 1 (Z.to_N (256 + z))
    else if (-32768 <=? z)%Z then 209%N :: be_bytes 2 (Z.to_N (65536 + z))
    else if (-2147483648 <=? z)%Z then 210%N :: be_bytes 4 (Z.to_N (4294967296 + z))
    else 211%N :: be_bytes 8 (Z.to_N (18446744073709551616 + z)).

(* length header: optional 8-bit form, then 16-bit, then 32-bit *)
Definition enc_len (c8 : option N) (c16 c32 : N) (n : N) : list N :=
  match c8 with
  | Some c => if (n <? 256)%N then c :: be_bytes 1 n
              else if (n <? 65536)%N then c16 :: be_bytes 2 n else c32 :: be_bytes 4 n
  | None => if (n <? 65536)%N then c16 :: be_bytes 2 n else c32 :: be_bytes 4 n
  end.

Definition lenN {A} (l : list A) : N := N.of_nat (length l).

Definition enc_ext (code : N) (data : list N) : list N :=
  let n := lenN data in
  (if (n =? 1)%N then [212%N] else if (n =? 2)%N then [213%N] else if (n =? 4)%N then [214%N]
   else if (n =? 8)%N then [215%N] else if (n =? 16)%N then [216%N]
   else if (n <? 256)%N then 199%N :: be_bytes 1 n
   else if (n <? 65536)%N then 200%N :: be_bytes 2 n
   else 201%N :: be_bytes 4 n) ++ [code] ++ data.

Fixpoint encode (v : mv) : list N :=
  match v with
  | MNil => [192%N]
  | MBool false => [194%N]
  | MBool true => [195%N]
  | MInt z => enc_int z
  | MF64 bits => 203%N :: be_bytes 8 bits
  | MStr s => (if (lenN s <? 32)%N then [160 + lenN s]%N else enc_len (Some 217%N) 218%N 219%N (lenN s)) ++ s
  | MBin b => enc_len (Some 196%N) 197%N 198%N (lenN b) ++ b
  | MArr l => (if (lenN l <? 16)%N then [144 + lenN l]%N else enc_len None 220%N 221%N (lenN l)) ++ concat (map encode l)
  | MMap l => (if (lenN l <? 16)%N then [128 + lenN l]%N else enc_len None 222%N 223%N (lenN l))
              ++ concat (map (fun kv => encode (fst kv) ++ encode (snd kv)) l)
  | MExt code data => enc_ext code data
  end.

(* _ndarray_to_bytes: msgpack.packb((shape, dtype.name, tobytes), use_bin_type=True) *)
Definition ndarray_bytes (dtype : key) (shape : list N) (data : list N) : list N :=
  encode (MArr [MArr (map (fun d => MInt (Z.of_N d)) shape); MStr dtype; MBin data]).

Definition leaf_mv (l : leaf) : mv :=
  match l with
  | LArr dt sh _ data => MExt 1 (ndarray_bytes dt sh data)
  | LNpScalar dt _ data => MExt 3 (ndarray_bytes dt [] data)
  | LInt z => MInt z
  | LFloat b => MF64 b
  | LBool b => MBool b
  | LNone => MNil
  | LStr s => MStr s
  | LBytes b => MBin b
  | LComplex re im => MExt 2 (encode (MArr [MF64 re; MF64 im]))
  end.

Fixpoint sd_mv (s : sd) : mv :=
  match s with
  | SLeaf l => leaf_mv l
  | SDict kids => MMap (map (fun kv => (MStr (fst kv), sd_mv (snd kv))) kids)
  end.

(* to_bytes with MAX_CHUNK_SIZE = th *)
Definition to_bytes (th : N) (t : ptree) : list N := encode (sd_mv (chunk_leaves th (to_sd t))).

(* ---- executable equalities ---- *)
Definition leaf_beq (a b : leaf) : bool :=
  match a, b with
  | LArr d1 s1 i1 x1, LArr d2 s2 i2 x2 => key_eqb d1 d2 && list_beq N.eqb s1 s2 && N.eqb i1 i2 && list_beq N.eqb x1 x2
  | LNpScalar d1 i1 x1, LNpScalar d2 i2 x2 => key_eqb d1 d2 && N.eqb i1 i2 && list_beq N.eqb x1 x2
  | LInt x, LInt y => Z.eqb x y
  | LFloat x, LFloat y => N.eqb x y
  | LBool x, LBool y => Bool.eqb x y
  | LNone, LNone => true
  | LStr x, LStr y => key_eqb x y
  | LBytes x, LBytes y => list_beq N.eqb x y
  | LComplex a1 b1, LComplex a2 b2 => N.eqb a1 a2 && N.eqb b1 b2
  | _, _ => false
  end.

Fixpoint sd_beq (a b : sd) : bool :=
  match a, b with
  | SLeaf x, SLeaf y => leaf_beq x y
  | SDict k1, SDict k2 =>
      (fix go (x y : list (key * sd)) : bool :=
         match x, y with
         | [], [] => true
         | (ka, ta) :: ra, (kb, tb) :: rb => key_eqb ka kb && sd_beq ta tb && go ra rb
         | _, _ => false
         end) k1 k2
  | _, _ => false
  end.

Fixpoint ptree_beq (a b : ptree) : bool :=
  let fix gok (x y : list (key * ptree)) : bool :=
      match x, y with
      | [], [] => true
      | (ka, ta) :: ra, (kb, tb) :: rb => key_eqb ka kb && ptree_beq ta tb && gok ra rb
      | _, _ => false
      end in
  let fix gol (x y : list ptree) : bool :=
      match x, y with
      | [], [] => true
      | ta :: ra, tb :: rb => ptree_beq ta tb && gol ra rb
      | _, _ => false
      end in
  match a, b with
  | PLeaf x, PLeaf y => leaf_beq x y
  | PDict x, PDict y => gok x y
  | PFrozen x, PFrozen y => gok x y
  | PList x, PList y => gol x y
  | PTuple x, PTuple y => gol x y
  | PNamed t1 x, PNamed t2 y => N.eqb t1 t2 && gok x y
  | PData c1 x, PData c2 y => N.eqb c1 c2 && gok x y
  | _, _ => false
  end.

Definition err_beq (a b : err) : bool :=
  match a, b with
  | EMissingKeys p, EMissingKeys q | ELength p, ELength q | EFields p, EFields q => path_eqb p q
  | EOther, EOther => true
  | _, _ => false
  end.
Definition res_beq (a b : res ptree) : bool :=
  match a, b with Ok x, Ok y => ptree_beq x y | Err e, Err f => err_beq e f | _, _ => false end.
