(* flax/core/lift.py scan over flax/core/axes_scan.py: broadcast collections are computed in a pre-pass outside the
   loop, so a write to a broadcast variable is accepted only when its value does not depend on anything that varies
   per iteration (the mapped input, the carry, axis or carry collections) -- and is then applied ONCE; a write that
   does depend on the loop raises.  Everything else is the scan of Model/NnxLift.v.  Definitions only. *)
From Flaxm Require Import Lib.Harness Model.NnxFilters Model.NnxLift.

Definition loop_varying (s : spec) : bool := negb (is_none s).

Definition lscan_model (sa : list (nfilt * spec)) (b : body) (reverse : bool) (vs : list var) (c0 : Z) (xs : list Z)
  : res (list vval * Z * list Z) :=
  match all_specs sa vs with
  | None => Err E_NOAXIS
  | Some specs =>
      let tv := fst (fold_left tstep (b_stmts b) (map loop_varying specs, true)) in
      if existsb (fun st => is_none (fst st) && snd st) (combine specs tv) then Err E_BATCHED else
      let n := length xs in
      let order := if reverse then rev (seq 0 n) else seq 0 n in
      let orig := map v_val vs in
      (* the pre-pass: what one application of the body leaves in the broadcast variables (the same whatever iteration
         it is computed for: see the theorem); the loop then runs with THESE values as the broadcast input, and they
         are also what the caller finds afterwards -- what the body writes to them inside the loop is dropped *)
      let once := match order with
                  | i :: _ => fst (fst (brun b (map (view i) orig) (nth i xs 0%Z) c0))
                  | [] => map (view 0) orig
                  end in
      let orig' := map (fun jsv => match snd (fst jsv) with SNone => Whole (nth (fst (fst jsv)) once []) | _ => snd jsv end)
                       (combine (combine (seq 0 (length orig)) specs) orig) in
      let '(cur, c, ys) := scan_loop specs b orig' order xs (orig', c0) [] in
      Ok (cur, c, ys_in_order n ys)
  end.

(* ---------------- nn.remat_scan: nested scans over a stack of layers ---------------- *)
(* the parameters of prod(lengths) layers stacked as a tensor of shape lengths: one scan per level, the innermost over
   the layers themselves.  The layer is a parameter: carry -> weights -> carry. *)
Inductive nest (W : Type) := NLeaf (w : W) | NNode (kids : list (nest W)).
Arguments NLeaf {W} w. Arguments NNode {W} kids.
Section NestedScan.
  Variables C W : Type.
  Variable layer : C -> W -> C.
  Fixpoint nscan (c : C) (t : nest W) : C :=
    match t with
    | NLeaf w => layer c w
    | NNode kids => fold_left nscan kids c
    end.
  Fixpoint nflatten (t : nest W) : list W :=
    match t with
    | NLeaf w => [w]
    | NNode kids => flat_map nflatten kids
    end.
End NestedScan.
