(* flax/linen/stochastic.py Dropout.__call__ and flax/nnx/nn/stochastic.py Dropout.__call__ (same body): identity when
   deterministic or rate = 0, zeros at rate = 1, otherwise a Bernoulli(1 - rate) mask drawn on the input shape with the
   broadcast dimensions set to 1, broadcast back to the input shape, survivors divided by 1 - rate.  The bits of the
   drawn mask are a parameter (what jax.random.bernoulli returns for the key: C09 covers the key); tensors are flat
   row-major lists with their shape.  Definitions only. *)
From Coq Require Import QArith.
From Flaxm Require Import Lib.Harness Model.NdIndex.

(* broadcast_shape[dim] = 1 for dim in broadcast_dims; dims may be negative: (negative?, magnitude) *)
Definition norm_dims (ndim : nat) (bd : list (bool * nat)) : list nat := map (norm_ax ndim) bd.
Definition bshape (shape : list nat) (bd : list nat) : list nat :=
  map (fun ad => if existsb (Nat.eqb (fst ad)) bd then 1%nat else snd ad) (combine (seq 0%nat (length shape)) shape).
(* jnp.broadcast_to(mask, inputs.shape): element i of the input reads the mask entry whose coordinates are those of i
   with the broadcast dimensions set to 0 *)
Definition mask_pos (shape : list nat) (bd : list nat) (i : nat) : nat :=
  ravel (bshape shape bd) (mask_axes bd (unravel shape i)).
Definition mask_at (shape : list nat) (bd : list nat) (bits : list bool) (i : nat) : bool :=
  nth (mask_pos shape bd i) bits false.
(* lax.select(mask, inputs / keep_prob, zeros) *)
Definition drop_entry (keep : Q) (m : bool) (x : Q) : Q := if m then x / keep else 0.

Definition dropout (det : bool) (rate : Q) (shape : list nat) (bd : list (bool * nat)) (bits : list bool) (x : list Q) : list Q :=
  if det || Qeq_bool rate 0 then x
  else if Qeq_bool rate 1 then map (fun _ => 0) x
  else map (fun ix => drop_entry (1 - rate) (mask_at shape (norm_dims (length shape) bd) bits (fst ix)) (snd ix))
           (combine (seq 0%nat (length x)) x).
