(* flax/struct.py: dataclass(), field(pytree_node=False), replace, the pytree registration
   (jax.tree_util.register_dataclass(data_fields, meta_fields)).  Definitions only. *)
From Flaxm Require Import Lib.Harness.

(* an instance: class id and its fields in declaration order, each marked data (true) or static *)
Record inst := mkInst { i_cls : N; i_fields : list (bool * N) }.
(* the treedef: class, layout, and the values of the static fields *)
Record treedef := mkTd { td_cls : N; td_layout : list bool; td_static : list N }.

Definition sflatten (x : inst) : list N * treedef :=
  (map snd (filter fst (i_fields x)),
   mkTd (i_cls x) (map fst (i_fields x)) (map snd (filter (fun f => negb (fst f)) (i_fields x)))).

Fixpoint rebuild (layout : list bool) (data static : list N) : list (bool * N) :=
  match layout with
  | [] => []
  | true :: r => match data with d :: ds => (true, d) :: rebuild r ds static | [] => [] end
  | false :: r => match static with s :: ss => (false, s) :: rebuild r data ss | [] => [] end
  end.
Definition sunflatten (td : treedef) (leaves : list N) : inst :=
  mkInst (td_cls td) (rebuild (td_layout td) leaves (td_static td)).

(* replace with a new value for the i-th field *)
Fixpoint set_field (i : nat) (v : N) (fs : list (bool * N)) : list (bool * N) :=
  match fs, i with
  | [], _ => []
  | (b, _) :: r, O => (b, v) :: r
  | f :: r, S j => f :: set_field j v r
  end.
Definition replace (x : inst) (i : nat) (v : N) : inst := mkInst (i_cls x) (set_field i v (i_fields x)).

Definition td_beq (a b : treedef) : bool :=
  N.eqb (td_cls a) (td_cls b) && list_beq Bool.eqb (td_layout a) (td_layout b) && list_beq N.eqb (td_static a) (td_static b).
Definition inst_beq (a b : inst) : bool :=
  N.eqb (i_cls a) (i_cls b) && list_beq (pair_beq Bool.eqb N.eqb) (i_fields a) (i_fields b).
