(* Linen collection filters: flax/core/scope.py  in_filter, is_filter_empty, filter_to_set,
   union_filters, subtract_filters, intersect_filters, group_collections.
   Definitions only.  Names are N codes (the harness interns the real strings). *)
From Flaxm Require Import Lib.Harness.

Inductive filt := FBool (b : bool) | FName (n : N) | FSet (l : list N) | FDeny (f : filt).

Fixpoint in_filter (f : filt) (c : N) : bool :=
  match f with
  | FBool b => b
  | FName n => N.eqb c n
  | FSet l => memN c l
  | FDeny g => negb (in_filter g c)
  end.

Fixpoint size (f : filt) : nat := match f with FDeny g => S (size g) | _ => 1 end.

(* filter_to_set; None = the 'Infinite set' assertion *)
Definition to_set (f : filt) : option (list N) :=
  match f with
  | FBool false => Some []
  | FName n => Some [n]
  | FSet l => Some l
  | _ => None
  end.

Inductive op := OUnion | OSub | OInter.

Definition is_true f := match f with FBool true => true | _ => false end.

Definition lunion (a b : list N) := a ++ b.
Definition lsub (a b : list N) := filter (fun x => negb (memN x b)) a.
Definition linter (a b : list N) := filter (fun x => memN x b) a.

(* One fuelled function for the three mutually recursive operations, in the code's case order
   (argument swaps included).  None = assertion failure or out of fuel. *)
Fixpoint comb (fuel : nat) (o : op) (a b : filt) : option filt :=
  match fuel with O => None | S k =>
  match o with
  | OUnion =>
      if is_true a || is_true b then Some (FBool true) else
      match a, b with
      | FDeny a', FDeny b' => option_map FDeny (comb k OInter a' b')
      | FDeny a', _ => option_map FDeny (comb k OSub a' b)
      | _, FDeny b' => option_map FDeny (comb k OSub b' a)
      | _, _ => match to_set a, to_set b with Some x, Some y => Some (FSet (lunion x y)) | _, _ => None end
      end
  | OSub =>
      if is_true b then Some (FBool false) else
      if is_true a then Some (FDeny b) else
      match a, b with
      | FDeny a', FDeny b' => comb k OSub b' a'
      | FDeny a', _ => option_map FDeny (comb k OUnion a' b)
      | _, FDeny b' => comb k OInter a b'
      | _, _ => match to_set a, to_set b with Some x, Some y => Some (FSet (lsub x y)) | _, _ => None end
      end
  | OInter =>
      if is_true a then Some b else if is_true b then Some a else
      match a, b with
      | FDeny a', FDeny b' => option_map FDeny (comb k OUnion b' a')
      | FDeny a', _ => comb k OSub b a'
      | _, FDeny b' => comb k OSub a b'
      | _, _ => match to_set a, to_set b with Some x, Some y => Some (FSet (linter x y)) | _, _ => None end
      end
  end end.

Definition comb_top (o : op) (a b : filt) : option filt := comb (size a + size b + 1) o a b.

Definition sem (o : op) (x y : bool) :=
  match o with OUnion => x || y | OSub => x && negb y | OInter => x && y end.

(* is_filter_empty after the repair of F17/F7 (see DESIGN section 6): a DenyList is empty iff what it
   denies matches every name (`_is_filter_full`), and full iff what it denies is empty. *)
Fixpoint decide_ef (want_full : bool) (f : filt) : bool :=
  match f with
  | FBool b => if want_full then b else negb b
  | FName _ => false
  | FSet l => if want_full then false else match l with [] => true | _ => false end
  | FDeny g => decide_ef (negb want_full) g
  end.
Definition is_empty := decide_ef false.
Definition is_full := decide_ef true.

(* is_filter_empty as coded before the repair: probes the denied filter with a stub name. *)
Definition is_empty_stub (stub : N) (f : filt) : bool :=
  match f with
  | FName _ => false
  | FSet l => match l with [] => true | _ => false end
  | FBool b => negb b
  | FDeny g => in_filter g stub
  end.

(* group_collections: cols in dict order; each filter takes the remaining cols it matches. *)
Fixpoint group (cols : list N) (fs : list filt) : list (list N) :=
  match fs with
  | [] => []
  | f :: r => filter (in_filter f) cols :: group (filter (fun c => negb (in_filter f c)) cols) r
  end.

(* --- executable comparison used by the generated cases files --- *)
Definition probes_agree (probes : list N) (f : filt) (expected : list bool) : bool :=
  list_beq Bool.eqb (map (in_filter f) probes) expected.
