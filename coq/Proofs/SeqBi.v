(* Bidirectional(forward_rnn, backward_rnn): position-wise pairing of a forward pass and a (reverse, keep_order) backward pass;
   at the valid positions it is the Python loop of the forward cell over the valid inputs paired with the REVERSED outputs of
   the Python loop of the backward cell over the valid inputs reversed -- reversal within each sequence's valid length. *)
From Coq Require Import Lia.
From Flaxm Require Import Lib.Harness Model.Seq Proofs.Seq.

Lemma firstn_combine {A B} : forall n (a : list A) (b : list B), firstn n (combine a b) = combine (firstn n a) (firstn n b).
Proof.
  induction n as [|n IH]; intros [|x a] [|y b]; cbn [firstn combine]; try reflexivity.
  now rewrite IH.
Qed.
Lemma firstn_flip {A} n (l : list A) : n <= length l -> firstn n (flip n l) = rev (firstn n l).
Proof.
  intros H. unfold flip. rewrite firstn_app. rewrite rev_length, firstn_length, Nat.min_l by exact H.
  rewrite Nat.sub_diag. cbn [firstn]. rewrite app_nil_r. apply firstn_all2. rewrite rev_length, firstn_length. lia.
Qed.
Lemma rnn_out_length C X Y (cell : C -> X -> C * Y) r k len c0 xs : length (snd (rnn C X Y cell r k len c0 xs)) = length xs.
Proof.
  unfold rnn. cbn zeta.
  set (n := match len with Some n => n | None => length xs end).
  assert (Hf : forall A (l : list A), length (flip n l) = length l).
  { intros A l. unfold flip. rewrite app_length, rev_length. rewrite <- (firstn_skipn n l) at 3. now rewrite app_length. }
  assert (Hr : forall c l, length (snd (run C X Y cell c l)) = length l).
  { intros c l; revert c; induction l as [|x l IH]; intros c; cbn [run]; [reflexivity|].
    destruct (cell c x) as [c' y]. specialize (IH c'). destruct (run C X Y cell c' l) as [cs ys]. cbn [snd length] in *. now rewrite IH. }
  destruct (run C X Y cell c0 (if r then flip n xs else xs)) as [cs ys] eqn:E.
  assert (L : length ys = length xs).
  { pose proof (Hr c0 (if r then flip n xs else xs)) as L. rewrite E in L. cbn [snd] in L. rewrite L. destruct r; [apply Hf|reflexivity]. }
  cbn [snd]. destruct (r && k); [rewrite Hf|]; exact L.
Qed.

Theorem bidirectional_spec {C1 C2 X Y} (cf : C1 -> X -> C1 * Y) (cb : C2 -> X -> C2 * Y) n c1 c2 xs : 1 <= n <= length xs ->
  let valid := firstn n xs in
  fst (bidirectional cf cb (Some n) c1 c2 xs) = (Some (fst (loop C1 X Y cf c1 valid)), Some (fst (loop C2 X Y cb c2 (rev valid)))) /\
  firstn n (snd (bidirectional cf cb (Some n) c1 c2 xs)) =
    combine (snd (loop C1 X Y cf c1 valid)) (rev (snd (loop C2 X Y cb c2 (rev valid)))).
Proof.
  intros Hn valid. unfold bidirectional.
  destruct (rnn_is_loop_on_valid C1 X Y cf false n c1 xs Hn) as [F1 F2].
  destruct (rnn_is_loop_on_valid C2 X Y cb true n c2 xs Hn) as [B1 B2].
  destruct (keep_order_flips C2 X Y cb true n c2 xs) as [K1 K2].
  pose proof (rnn_out_length C2 X Y cb true false (Some n) c2 xs) as Lb.
  destruct (rnn C1 X Y cf false false (Some n) c1 xs) as [f1 y1].
  destruct (rnn C2 X Y cb true true (Some n) c2 xs) as [f2 y2].
  cbn [fst snd] in *. subst valid. split.
  - rewrite F1, K2, B1. reflexivity.
  - rewrite firstn_combine, F2, K1, firstn_flip by lia. now rewrite B2.
Qed.

(* inputs at or beyond seq_lengths influence neither direction *)
Corollary bidirectional_padding_inert {C1 C2 X Y} (cf : C1 -> X -> C1 * Y) (cb : C2 -> X -> C2 * Y) n c1 c2 xs xs' :
  1 <= n <= length xs -> length xs = length xs' -> firstn n xs = firstn n xs' ->
  fst (bidirectional cf cb (Some n) c1 c2 xs) = fst (bidirectional cf cb (Some n) c1 c2 xs') /\
  firstn n (snd (bidirectional cf cb (Some n) c1 c2 xs)) = firstn n (snd (bidirectional cf cb (Some n) c1 c2 xs')).
Proof.
  intros Hn L E. destruct (bidirectional_spec cf cb n c1 c2 xs Hn) as [A1 A2].
  destruct (bidirectional_spec cf cb n c1 c2 xs' ltac:(lia)) as [B1 B2]. cbn zeta in *. rewrite A1, A2, B1, B2, E. auto.
Qed.
