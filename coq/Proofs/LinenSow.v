(* C01: observation by sow never changes the primary output.  Making the collection that only sow writes to
   immutable (so that sow stores nothing) leaves the output and every other collection as they were. *)
From Coq Require Import Lia.
From Flaxm Require Import Lib.Harness Model.Filters Model.Linen Proofs.Linen Proofs.LinenInit.

Section SowInert.
  Variable C : N.      (* the collection that only sow uses, e.g. 'intermediates' *)

  Definition sow_only_stmt (c : stmt) : bool :=
    match c with
    | SVar _ col _ _ _ => negb (N.eqb col C)
    | SVarSet col _ _ => negb (N.eqb col C)
    | _ => true
    end.
  Definition sow_only (cl : classes) : bool := forallb (fun kc => forallb sow_only_stmt (fst (snd kc))) cl.

  Definition agree (VA VB : vtree) : Prop := forall c, c <> C -> cassoc c VA = cassoc c VB.

  Lemma agree_has VA VB col p nm : agree VA VB -> col <> C -> has_var VA col p nm = has_var VB col p nm.
  Proof. intros A H. rewrite !has_var_nhas, (A _ H). reflexivity. Qed.
  Lemma agree_get VA VB col p nm : agree VA VB -> col <> C -> get_var VA col p nm = get_var VB col p nm.
  Proof. intros A H. rewrite !get_var_nget, (A _ H). reflexivity. Qed.
  Lemma agree_empty VA VB col : agree VA VB -> col <> C -> col_empty VA col = col_empty VB col.
  Proof. intros A H. unfold col_empty. now rewrite (A _ H). Qed.
  Lemma agree_put VA VB col p nm v tA : agree VA VB -> col <> C -> put_var VA col p nm v = Some tA ->
    exists tB, put_var VB col p nm v = Some tB /\ agree tA tB.
  Proof.
    intros A H E. unfold put_var in *. rewrite <- (A _ H).
    destruct (put_at p nm v _) as [r'|]; [|discriminate]. inv E. eexists. split; [reflexivity|].
    intros c Hc. rewrite !cassoc_cset. destruct (N.eqb c col); [reflexivity|auto].
  Qed.
  Lemma agree_put_C VA VB p nm v tA : agree VA VB -> put_var VA C p nm v = Some tA -> agree tA VB.
  Proof. intros A E c Hc. rewrite (put_var_other _ _ _ _ _ _ _ E Hc). auto. Qed.

  Variables evA evB : env.
  Hypothesis Hstreams : e_streams evB = e_streams evA.
  Hypothesis Hclasses : e_classes evB = e_classes evA.
  Hypothesis Hparams : e_params evB = e_params evA.
  Hypothesis Hperturb : e_perturb evB = e_perturb evA.
  Hypothesis Hmut : forall c, c <> C -> in_filter (e_mutable evB) c = in_filter (e_mutable evA) c.
  Hypothesis HmutC : in_filter (e_mutable evB) C = false.
  Hypothesis HpC : e_params evA <> C.
  Hypothesis HqC : e_perturb evA <> C.

  Lemma make_rng_B p stream sA sA' sB : make_rng evA p stream sA = Ok sA' ->
    exists sB', make_rng evB p stream sB = Ok sB' /\ s_vars sB' = s_vars sB.
  Proof.
    unfold make_rng. rewrite Hstreams, Hparams.
    destruct (if memN stream (e_streams evA) then Some stream else if memN (e_params evA) (e_streams evA) then Some (e_params evA) else None);
      [|discriminate]. intros _. eexists. split; reflexivity.
  Qed.

  Variables callA callB : N -> path -> vec -> st -> res (vec * st).
  Hypothesis call_sim : forall cls p v sA y sA', callA cls p v sA = Ok (y, sA') ->
    forall sB, agree (s_vars sA) (s_vars sB) -> exists sB', callB cls p v sB = Ok (y, sB') /\ agree (s_vars sA') (s_vars sB').

  Lemma step_sow p input frA sA c frA' sA' frB sB :
    sow_only_stmt c = true -> step evA callA p input frA sA c = Ok (frA', sA') -> frel frA frB -> agree (s_vars sA) (s_vars sB) ->
    exists frB' sB', step evB callB p input frB sB c = Ok (frB', sB') /\ frel frA' frB' /\ agree (s_vars sA') (s_vars sB').
  Proof.
    intros R H (FL & FA & FI & FS) A. unfold step, mut in *. rewrite ?Hparams, ?Hperturb. rewrite <- ?FL, <- ?FA, <- ?FI. destruct c.
    - (* SParam *)
      destruct (name_reserved (f_resv frA) nm (Some (e_params evA))) eqn:NA; [discriminate|].
      destruct (name_reserved (f_resv frB) nm (Some (e_params evA))) eqn:NB; [apply FS in NB; congruence|].
      rewrite <- (agree_has _ _ _ p nm A HpC), <- (agree_get _ _ _ p nm A HpC), <- (agree_empty _ _ _ A HpC), (Hmut _ HpC).
      destruct (has_var (s_vars sA) (e_params evA) p nm).
      + destruct (get_var (s_vars sA) (e_params evA) p nm) as [[v|vs]|]; try discriminate.
        destruct (Nat.eqb (length v) (psize n input)); [|discriminate]. inv H.
        eexists. eexists. split; [reflexivity|]. split; [|exact A]. repeat split; simpl; try congruence. now apply sub_cons_both.
      + destruct (negb (in_filter (e_mutable evA) (e_params evA))); [destruct (col_empty (s_vars sA) (e_params evA)); discriminate|].
        destruct (make_rng evA p (e_params evA) sA) as [s1|] eqn:Er; [|discriminate].
        destruct (make_rng_B _ _ _ _ sB Er) as (sB1 & Er' & Ev'). rewrite Er'.
        destruct (put_var (s_vars s1) (e_params evA) p nm _) as [tA|] eqn:Ep; [|discriminate]. inv H.
        assert (A1 : agree (s_vars s1) (s_vars sB1)) by (rewrite Ev', (make_rng_vars _ _ _ _ _ Er); exact A).
        destruct (agree_put _ _ _ _ _ _ _ A1 HpC Ep) as (tB & Ep' & A2). rewrite Ep'.
        eexists. eexists. split; [reflexivity|]. split; [|exact A2]. repeat split; simpl; try congruence. now apply sub_cons_both.
    - (* SVar *)
      simpl in R. apply negb_true_iff in R. apply N.eqb_neq in R.
      destruct (name_reserved (f_resv frA) nm (Some col)) eqn:NA; [discriminate|].
      destruct (name_reserved (f_resv frB) nm (Some col)) eqn:NB; [apply FS in NB; congruence|].
      rewrite <- (agree_has _ _ _ p nm A R), <- (agree_get _ _ _ p nm A R), <- (agree_empty _ _ _ A R), (Hmut _ R).
      destruct (has_var (s_vars sA) col p nm).
      + destruct (get_var (s_vars sA) col p nm) as [[v|vs]|]; try discriminate. inv H.
        eexists. eexists. split; [reflexivity|]. split; [|exact A]. repeat split; simpl; try congruence. now apply sub_cons_both.
      + destruct (negb (in_filter (e_mutable evA) col)); [destruct (col_empty (s_vars sA) col); discriminate|].
        destruct (put_var (s_vars sA) col p nm _) as [tA|] eqn:Ep; [|discriminate]. inv H.
        destruct (agree_put _ _ _ _ _ _ _ A R Ep) as (tB & Ep' & A2). rewrite Ep'.
        eexists. eexists. split; [reflexivity|]. split; [|exact A2]. repeat split; simpl; try congruence. now apply sub_cons_both.
    - (* SVarSet *)
      simpl in R. apply negb_true_iff in R. apply N.eqb_neq in R.
      destruct (eval (f_locals frA) input e) as [v|]; [|discriminate]. rewrite (Hmut _ R).
      destruct (in_filter (e_mutable evA) col); [|discriminate].
      destruct (put_var (s_vars sA) col p nm _) as [tA|] eqn:Ep; [|discriminate]. inv H.
      destruct (agree_put _ _ _ _ _ _ _ A R Ep) as (tB & Ep' & A2). rewrite Ep'.
      eexists. eexists. split; [reflexivity|]. split; [|exact A2]. repeat split; simpl; try congruence. exact FS.
    - (* SSow *)
      destruct (eval (f_locals frA) input e) as [v|]; [|discriminate].
      destruct (N.eqb_spec col C) as [->|Hc].
      + rewrite HmutC. cbn [negb]. eexists. eexists. split; [reflexivity|].
        destruct (negb (in_filter (e_mutable evA) C)); [inv H; split; [repeat split; simpl; try congruence; exact FS|exact A]|].
        destruct (has_var (s_vars sA) C p nm).
        * destruct (get_var (s_vars sA) C p nm) as [[v0|vs]|]; try discriminate.
          destruct (put_var (s_vars sA) C p nm _) as [tA|] eqn:Ep; [|discriminate]. inv H.
          split; [repeat split; simpl; try congruence; exact FS|]. eapply agree_put_C; eauto.
        * destruct (name_reserved (f_resv frA) nm (Some C)); [discriminate|].
          destruct (put_var (s_vars sA) C p nm _) as [tA|] eqn:Ep; [|discriminate]. inv H.
          split; [repeat split; simpl; try congruence; now apply sub_cons_left|]. eapply agree_put_C; eauto.
      + rewrite (Hmut _ Hc), <- (agree_has _ _ _ p nm A Hc), <- (agree_get _ _ _ p nm A Hc).
        destruct (negb (in_filter (e_mutable evA) col)).
        { inv H. eexists. eexists. split; [reflexivity|]. split; [repeat split; simpl; try congruence; exact FS|exact A]. }
        destruct (has_var (s_vars sA) col p nm).
        * destruct (get_var (s_vars sA) col p nm) as [[v0|vs]|]; try discriminate.
          destruct (put_var (s_vars sA) col p nm _) as [tA|] eqn:Ep; [|discriminate]. inv H.
          destruct (agree_put _ _ _ _ _ _ _ A Hc Ep) as (tB & Ep' & A2). rewrite Ep'.
          eexists. eexists. split; [reflexivity|]. split; [repeat split; simpl; try congruence; exact FS|exact A2].
        * destruct (name_reserved (f_resv frA) nm (Some col)) eqn:NA; [discriminate|].
          destruct (name_reserved (f_resv frB) nm (Some col)) eqn:NB; [apply FS in NB; congruence|].
          destruct (put_var (s_vars sA) col p nm _) as [tA|] eqn:Ep; [|discriminate]. inv H.
          destruct (agree_put _ _ _ _ _ _ _ A Hc Ep) as (tB & Ep' & A2). rewrite Ep'.
          eexists. eexists. split; [reflexivity|]. split; [repeat split; simpl; try congruence; now apply sub_cons_both|exact A2].
    - (* SPerturb *)
      destruct (eval (f_locals frA) input e) as [v|]; [|discriminate].
      rewrite (Hmut _ HqC), <- (agree_has _ _ _ p nm A HqC).
      destruct (in_filter (e_mutable evA) (e_perturb evA) && negb (has_var (s_vars sA) (e_perturb evA) p nm)).
      + destruct (name_reserved (f_resv frA) nm (Some (e_perturb evA))) eqn:NA; [discriminate|].
        destruct (name_reserved (f_resv frB) nm (Some (e_perturb evA))) eqn:NB; [apply FS in NB; congruence|].
        destruct (put_var (s_vars sA) (e_perturb evA) p nm _) as [tA|] eqn:Ep; [|discriminate].
        destruct (agree_put _ _ _ _ _ _ _ A HqC Ep) as (tB & Ep' & A2). rewrite Ep'. cbn [s_vars] in *.
        rewrite <- (A2 _ HqC), <- (agree_get _ _ _ p nm A2 HqC).
        destruct (cassoc (e_perturb evA) tA).
        * destruct (get_var tA (e_perturb evA) p nm) as [[old|vs]|]; try discriminate.
          destruct (vop add64 v old); [|discriminate]. inv H.
          eexists. eexists. split; [reflexivity|]. split; [repeat split; simpl; try congruence; now apply sub_cons_both|exact A2].
        * inv H. eexists. eexists. split; [reflexivity|]. split; [repeat split; simpl; try congruence; now apply sub_cons_both|exact A2].
      + rewrite <- (A _ HqC), <- (agree_get _ _ _ p nm A HqC).
        destruct (cassoc (e_perturb evA) (s_vars sA)).
        * destruct (get_var (s_vars sA) (e_perturb evA) p nm) as [[old|vs]|]; try discriminate.
          destruct (vop add64 v old); [|discriminate]. inv H.
          eexists. eexists. split; [reflexivity|]. split; [repeat split; simpl; try congruence; exact FS|exact A].
        * inv H. eexists. eexists. split; [reflexivity|]. split; [repeat split; simpl; try congruence; exact FS|exact A].
    - (* SRng *)
      destruct (make_rng evA p stream sA) as [s1|] eqn:Er; [|discriminate]. inv H.
      destruct (make_rng_B _ _ _ _ sB Er) as (sB1 & Er' & Ev'). rewrite Er'.
      eexists. eexists. split; [reflexivity|]. split; [repeat split; simpl; try congruence; exact FS|].
      rewrite Ev', (make_rng_vars _ _ _ _ _ Er). exact A.
    - (* SLet *)
      destruct (eval (f_locals frA) input e) as [v|]; [|discriminate]. inv H.
      eexists. eexists. split; [reflexivity|]. split; [repeat split; simpl; try congruence; exact FS|exact A].
    - (* SChild *)
      destruct nm as [n|].
      + destruct (name_reserved (f_resv frA) (NExp n) None) eqn:NA; [discriminate|].
        destruct (name_reserved (f_resv frB) (NExp n) None) eqn:NB; [apply FS in NB; congruence|]. inv H.
        eexists. eexists. split; [reflexivity|]. split; [repeat split; simpl; try congruence; now apply sub_cons_both|exact A].
      + match type of H with context[name_reserved ?r ?n None] => destruct (name_reserved r n None) eqn:NA end; [discriminate|].
        match goal with |- context[name_reserved (f_resv frB) ?n None] => destruct (name_reserved (f_resv frB) n None) eqn:NB end;
          [apply FS in NB; congruence|]. inv H.
        eexists. eexists. split; [reflexivity|]. split; [repeat split; simpl; try congruence; now apply sub_cons_both|exact A].
    - (* SCall *)
      destruct (eval (f_locals frA) input e) as [v|]; [|discriminate].
      destruct (lassoc i (f_insts frA)) as [[cls cp]|]; [|discriminate].
      destruct (callA cls cp v sA) as [[y s1]|] eqn:Ec; [|discriminate]. inv H.
      destruct (call_sim _ _ _ _ _ _ Ec sB A) as (sB' & E1 & A2). rewrite E1.
      eexists. eexists. split; [reflexivity|]. split; [repeat split; simpl; try congruence; exact FS|exact A2].
  Qed.

  Lemma steps_sow p input : forall cs frA sA frA' sA' frB sB,
    forallb sow_only_stmt cs = true -> steps evA callA p input frA sA cs = Ok (frA', sA') -> frel frA frB -> agree (s_vars sA) (s_vars sB) ->
    exists frB' sB', steps evB callB p input frB sB cs = Ok (frB', sB') /\ frel frA' frB' /\ agree (s_vars sA') (s_vars sB').
  Proof.
    induction cs as [|c r IH]; intros frA sA frA' sA' frB sB R H FR A; simpl in H.
    - inv H. exists frB, sB. simpl. auto.
    - simpl in R. apply andb_true_iff in R as [R1 R2].
      destruct (step evA callA p input frA sA c) as [[frA1 sA1]|] eqn:E; [|discriminate].
      destruct (step_sow _ _ _ _ _ _ _ _ _ R1 E FR A) as (frB1 & sB1 & E1 & FR1 & A1).
      destruct (IH _ _ _ _ _ _ R2 H FR1 A1) as (frB' & sB' & E2 & FR2 & A2).
      exists frB', sB'. simpl. rewrite E1. auto.
  Qed.
End SowInert.

Lemma sow_lookup C cl cls body ret : sow_only C cl = true -> lassoc cls cl = Some (body, ret) -> forallb (sow_only_stmt C) body = true.
Proof.
  unfold sow_only, lassoc. induction cl as [|[k c] r IH]; simpl; [discriminate|]. intros R H.
  apply andb_true_iff in R as [R1 R2]. destruct (N.eqb cls k); [simpl in H; inv H; exact R1|auto].
Qed.

Theorem run_call_sow C evA evB :
  e_streams evB = e_streams evA -> e_classes evB = e_classes evA -> e_params evB = e_params evA -> e_perturb evB = e_perturb evA ->
  (forall c, c <> C -> in_filter (e_mutable evB) c = in_filter (e_mutable evA) c) -> in_filter (e_mutable evB) C = false ->
  e_params evA <> C -> e_perturb evA <> C -> sow_only C (e_classes evA) = true ->
  forall fuel cls p v sA y sA', run_call fuel evA cls p v sA = Ok (y, sA') ->
  forall sB, agree C (s_vars sA) (s_vars sB) ->
  exists sB', run_call fuel evB cls p v sB = Ok (y, sB') /\ agree C (s_vars sA') (s_vars sB').
Proof.
  intros H1 H2 H3 H4 H5 H6 H7 H8 R. induction fuel as [|f IH]; intros cls p v sA y sA' H sB A; [discriminate|]. simpl in H. simpl.
  rewrite H2. destruct (lassoc cls (e_classes evA)) as [[body ret]|] eqn:El; [|discriminate].
  destruct (steps evA (run_call f evA) p v frame0 sA body) as [[frA s1]|] eqn:E; [|discriminate].
  destruct (eval (f_locals frA) v ret) as [y0|] eqn:Ee; [|discriminate]. injection H as Hy Hs. subst y0 s1.
  assert (FR0 : frel frame0 frame0) by (repeat split; auto; intros ? ? X; exact X).
  destruct (steps_sow C evA evB H1 H3 H4 H5 H6 H7 H8 (run_call f evA) (run_call f evB) IH p v body frame0 sA frA sA' frame0 sB
              (sow_lookup _ _ _ _ _ R El) E FR0 A) as (frB & sB' & E1 & (FL & _) & A').
  rewrite E1, <- FL, Ee. exists sB'. auto.
Qed.

(* C01: sow never changes the primary output.  If C is used by sow only, then applying with C removed from `mutable`
   (sow stores nothing) succeeds whenever applying with C mutable does, returns the same output and leaves every other
   collection exactly as the observing run does. *)
Theorem sow_is_inert C evA evB top vars x y sA :
  e_streams evB = e_streams evA -> e_classes evB = e_classes evA -> e_params evB = e_params evA -> e_perturb evB = e_perturb evA ->
  (forall c, c <> C -> in_filter (e_mutable evB) c = in_filter (e_mutable evA) c) -> in_filter (e_mutable evB) C = false ->
  e_params evA <> C -> e_perturb evA <> C -> sow_only C (e_classes evA) = true ->
  apply_m evA top vars x = Ok (y, sA) ->
  exists sB, apply_m evB top vars x = Ok (y, sB) /\ forall c, c <> C -> cassoc c (s_vars sA) = cassoc c (s_vars sB).
Proof.
  intros H1 H2 H3 H4 H5 H6 H7 H8 R H. unfold apply_m in *.
  destruct (run_call_sow C evA evB H1 H2 H3 H4 H5 H6 H7 H8 R _ _ _ _ _ _ _ H (mkSt vars [] []) (fun c _ => eq_refl)) as (sB & E & A).
  exists sB. split; [exact E|exact A].
Qed.

(* perturb without a perturbation collection is the identity on its argument *)
Theorem perturb_without_collection ev call p input fr s x nm e v :
  eval (f_locals fr) input e = Some v -> in_filter (e_mutable ev) (e_perturb ev) = false -> cassoc (e_perturb ev) (s_vars s) = None ->
  step ev call p input fr s (SPerturb x nm e) = Ok (mkFrame ((x, v) :: f_locals fr) (f_resv fr) (f_auto fr) (f_insts fr), s).
Proof. intros He Hm Hc. unfold step, mut. rewrite He, Hm. cbn [andb]. now rewrite Hc. Qed.
