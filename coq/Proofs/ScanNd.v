From Coq Require Import List Lia.
Import ListNotations.
From Flaxm Require Import Model.LinenLoop Proofs.LinenLoop Model.ScanNd.

Section ScanNd.
  Variables C X Y : Type.
  Variable body : C -> X -> C * Y.
  Let step := fun (acc : C * list Y) (x : X) => let '(c1, y) := body (fst acc) x in (c1, snd acc ++ [y]).

  Lemma loop_acc xs : forall c ys0, fold_left step xs (c, ys0) = (fst (fold_left step xs (c, [])), ys0 ++ snd (fold_left step xs (c, []))).
  Proof.
    induction xs as [|x xs IH]; intros c ys0; cbn [fold_left fst snd]; [now rewrite app_nil_r|].
    unfold step at 2 4 6. cbn [fst snd]. destruct (body c x) as [c1 y]. cbn [app].
    rewrite (IH c1 (ys0 ++ [y])), (IH c1 [y]). cbn [fst snd]. now rewrite app_assoc.
  Qed.

  Lemma loop_nd_app xs1 xs2 c :
    loop_nd C X Y body c (xs1 ++ xs2) =
    (fst (loop_nd C X Y body (fst (loop_nd C X Y body c xs1)) xs2),
     snd (loop_nd C X Y body c xs1) ++ snd (loop_nd C X Y body (fst (loop_nd C X Y body c xs1)) xs2)).
  Proof.
    unfold loop_nd. fold step. rewrite fold_left_app. destruct (fold_left step xs1 (c, [])) as [c1 ys1] eqn:E. cbn [fst snd].
    apply loop_acc.
  Qed.

  (* scan_in_dim's nested scans thread the carry and stack the outputs exactly like the nested Python loop over the
     scanned axes in row-major order, for every nesting depth and every extent *)
  Theorem scan_nd_is_loop : forall t c,
    fst (scan_nd C X Y body c t) = fst (loop_nd C X Y body c (nflatten X t)) /\
    nflatten Y (snd (scan_nd C X Y body c t)) = snd (loop_nd C X Y body c (nflatten X t)).
  Proof.
    induction t as [x|kids IH] using nest_ind'; intros c.
    - cbn [scan_nd nflatten]. unfold loop_nd. cbn [fold_left fst snd]. destruct (body c x) as [c1 y]. cbn [fst snd nflatten app]. split; reflexivity.
    - cbn [scan_nd nflatten].
      set (kstep := fun (acc : C * list (nest Y)) (k : nest X) => let '(c1, y) := scan_nd C X Y body (fst acc) k in (c1, snd acc ++ [y])).
      assert (G : forall ys0 c,
                 fst (fold_left kstep kids (c, ys0)) = fst (loop_nd C X Y body c (flat_map (nflatten X) kids)) /\
                 flat_map (nflatten Y) (snd (fold_left kstep kids (c, ys0))) =
                   flat_map (nflatten Y) ys0 ++ snd (loop_nd C X Y body c (flat_map (nflatten X) kids))).
      { clear c. induction IH as [|k r Hk Hr IHr]; intros ys0 c.
        - cbn [fold_left flat_map fst snd]. unfold loop_nd. cbn [fold_left fst snd]. now rewrite app_nil_r.
        - cbn [fold_left flat_map]. unfold kstep at 2 4. cbn [fst snd].
          destruct (Hk c) as [H1 H2]. destruct (scan_nd C X Y body c k) as [c1 y] eqn:E. cbn [fst snd] in H1, H2.
          destruct (IHr (ys0 ++ [y]) c1) as [G1 G2]. rewrite loop_nd_app. cbn [fst snd]. rewrite <- H1. split; [exact G1|].
          rewrite G2, flat_map_app. cbn [flat_map]. rewrite app_nil_r, H2, <- app_assoc. reflexivity. }
      destruct (G [] c) as [G1 G2]. destruct (fold_left kstep kids (c, [])) as [c' ys]. cbn [fst snd nflatten] in *. split; [exact G1|exact G2].
  Qed.
End ScanNd.
