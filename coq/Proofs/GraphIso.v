(* flatten only sees a graph up to isomorphism: two heaps related by an injective renaming of locations give the same
   graphdef and the same leaves.  Consequences: the graphdef / leaves pair is a canonical form, flatten after unflatten
   gives back what was unflattened, and (C04) the observation of a graph does not depend on where its objects live. *)
From Coq Require Import Lia.
From Flaxm Require Import Lib.Harness Model.NnxFilters Model.Graph Model.UpdateCtx Proofs.Graph Proofs.UpdateCtx.

Fixpoint closed_val (D : loc -> Prop) (v : value) : Prop :=
  match v with
  | VRef l => D l
  | VTree _ xs => (fix go (xs : list (key * value)) : Prop := match xs with [] => True | (_, x) :: r => closed_val D x /\ go r end) xs
  | _ => True
  end.
Definition closed_attrs (D : loc -> Prop) (xs : list (key * value)) : Prop := Forall (fun kv => closed_val D (snd kv)) xs.
Lemma closed_tree D kd xs : closed_val D (VTree kd xs) <-> closed_attrs D xs.
Proof.
  cbn [closed_val]. unfold closed_attrs. induction xs as [|[k x] r IH]; [split; [constructor|trivial]|].
  rewrite IH. split; [intros [A B]; constructor; assumption|intros H; inversion H; subst; auto].
Qed.
Definition closed_obj (D : loc -> Prop) (o : obj) : Prop := match o with ONode _ attrs => closed_attrs D attrs | OVar _ _ _ => True end.

Section Iso.
  Variable phi : loc -> loc.
  Variable D : loc -> Prop.
  Hypothesis phi_inj : forall a b, D a -> D b -> phi a = phi b -> a = b.
  Variables h h' : heap.
  (* every object of the domain has its renamed copy at the renamed location, and refers to the domain only *)
  Hypothesis Hrel : forall l, D l -> exists o, nth_error h l = Some o /\ nth_error h' (phi l) = Some (relocate_obj phi o) /\ closed_obj D o.

  Lemma index_of_map l ri : D l -> Forall D ri -> index_of (phi l) (map phi ri) = index_of l ri.
  Proof.
    intros Dl F. induction F as [|x r Dx _ IH]; cbn [map index_of]; [reflexivity|].
    destruct (Nat.eqb_spec x l) as [->|Hne].
    - now rewrite Nat.eqb_refl.
    - destruct (Nat.eqb_spec (phi x) (phi l)) as [E|_]; [exfalso; apply Hne; now apply phi_inj|]. now rewrite IH.
  Qed.

  Definition SameRun (s : fst_) (r : option (gattr * fst_)) (r' : option (gattr * fst_)) : Prop :=
    match r with
    | Some (a, s1) => r' = Some (a, (map phi (fst s1), snd s1)) /\ Forall D (fst s1)
    | None => True
    end.

  Lemma items_iso rec rec' :
    (forall p v s, closed_val D v -> Forall D (fst s) -> SameRun s (rec p v s) (rec' p (relocate phi v) (map phi (fst s), snd s))) ->
    forall xs p s, closed_attrs D xs -> Forall D (fst s) ->
      match items_with rec p xs s with
      | Some (as_, s1) => items_with rec' p (relocate_attrs phi xs) (map phi (fst s), snd s) = Some (as_, (map phi (fst s1), snd s1)) /\ Forall D (fst s1)
      | None => True
      end.
  Proof.
    intros Hrec xs; induction xs as [|[k v] r IH]; intros p s Cx Fs.
    - cbn. auto.
    - inversion Cx as [|? ? Cv Cr]; subst. cbn [relocate_attrs map fst snd]. rewrite !items_with_cons.
      pose proof (Hrec (p ++ [k]) v s Cv Fs) as H1. unfold SameRun in H1.
      destruct (rec (p ++ [k]) v s) as [[a s1]|]; [|exact I]. destruct H1 as [-> F1].
      specialize (IH p s1 Cr F1). destruct (items_with rec p r s1) as [[as1 s2]|]; [|exact I]. destruct IH as [E F2].
      cbn [fst snd] in E. fold (relocate_attrs phi r). rewrite E. auto.
  Qed.

  Theorem flat_iso : forall fuel p v s, closed_val D v -> Forall D (fst s) ->
    SameRun s (flat fuel h p v s) (flat fuel h' p (relocate phi v) (map phi (fst s), snd s)).
  Proof.
    induction fuel as [|f IH]; intros p v s Cv Fs; [exact I|]. unfold SameRun. cbn [flat].
    destruct v as [l|x|x|kd xs]; cbn [relocate fst snd].
    - cbn [closed_val] in Cv. rewrite (index_of_map l (fst s) Cv Fs).
      destruct (index_of l (fst s)) as [i|] eqn:Ei; [split; [reflexivity|exact Fs]|].
      destruct (Hrel l Cv) as (o & Ho & Ho' & Co). rewrite Ho, Ho'.
      destruct o as [ty attrs|vty pl m]; cbn [relocate_obj].
      + assert (Fs' : Forall D (fst (fst s ++ [l], snd s))) by (cbn [fst]; apply Forall_app; split; [exact Fs|constructor; [exact Cv|constructor]]).
        pose proof (items_iso (flat f h) (flat f h') (fun p0 v0 s0 => IH p0 v0 s0) attrs p (fst s ++ [l], snd s) Co Fs') as HI.
        destruct (items_with (flat f h) p attrs (fst s ++ [l], snd s)) as [[as_ s1]|]; [|exact I].
        destruct HI as [E F1]. cbn [fst snd] in E. rewrite map_app in E. cbn [map] in E. rewrite E, map_length. auto.
      + cbn [fst snd]. rewrite map_length, map_app. cbn [map]. split; [reflexivity|]. cbn [fst]. apply Forall_app; split; [exact Fs|constructor; [exact Cv|constructor]].
    - split; [reflexivity|exact Fs].
    - split; [reflexivity|exact Fs].
    - apply closed_tree in Cv.
      pose proof (items_iso (flat f h) (flat f h') (fun p0 v0 s0 => IH p0 v0 s0) xs p s Cv Fs) as HI.
      fold (relocate_attrs phi xs). change ((fix go (xs0 : list (key * value)) : list (key * value) := match xs0 with [] => [] | (k, x) :: r => (k, relocate phi x) :: go r end) xs) with (relocate_attrs phi xs) || idtac.
      rewrite <- (relocate_tree phi kd xs) || idtac.
      destruct (items_with (flat f h) p xs s) as [[as_ s1]|]; [|exact I]. destruct HI as [E F1].
      assert (R : relocate phi (VTree kd xs) = VTree kd (relocate_attrs phi xs)) by apply relocate_tree.
      cbn [relocate] in R. injection R as R. rewrite R, E. auto.
  Qed.
End Iso.

(* more fuel never changes a result *)
Lemma items_mono rec rec' : (forall p v s r, rec p v s = Some r -> rec' p v s = Some r) ->
  forall xs p s r, items_with rec p xs s = Some r -> items_with rec' p xs s = Some r.
Proof.
  intros H xs; induction xs as [|[k v] rest IH]; intros p s r E; [exact E|]. rewrite items_with_cons in *.
  destruct (rec (p ++ [k]) v s) as [[a s1]|] eqn:E1; [|discriminate]. rewrite (H _ _ _ _ E1).
  destruct (items_with rec p rest s1) as [[as1 s2]|] eqn:E2; [|discriminate]. now rewrite (IH _ _ _ E2).
Qed.
Lemma flat_fuel_mono h : forall f f' p v s r, f <= f' -> flat f h p v s = Some r -> flat f' h p v s = Some r.
Proof.
  induction f as [|f IH]; intros f' p v s r Hle E; [discriminate|]. destruct f' as [|f']; [lia|]. cbn [flat] in *.
  destruct v as [l|x|x|kd xs]; try exact E.
  - destruct (index_of l (fst s)); [exact E|]. destruct (nth_error h l) as [[ty attrs|vty pl m]|]; try exact E.
    destruct (items_with (flat f h) p attrs (fst s ++ [l], snd s)) as [[as_ s1]|] eqn:Ei; [|discriminate].
    rewrite (items_mono (flat f h) (flat f' h) (fun p0 v0 s0 r0 => IH f' p0 v0 s0 r0 ltac:(lia)) _ _ _ _ Ei). exact E.
  - destruct (items_with (flat f h) p xs s) as [[as_ s1]|] eqn:Ei; [|discriminate].
    rewrite (items_mono (flat f h) (flat f' h) (fun p0 v0 s0 r0 => IH f' p0 v0 s0 r0 ltac:(lia)) _ _ _ _ Ei). exact E.
Qed.

(* the graphdef and the leaves are a canonical form: isomorphic rooted heaps flatten alike *)
Theorem flatten_iso phi (D : loc -> Prop) h h' v g ls g' ls' :
  (forall a b, D a -> D b -> phi a = phi b -> a = b) ->
  (forall l, D l -> exists o, nth_error h l = Some o /\ nth_error h' (phi l) = Some (relocate_obj phi o) /\ closed_obj D o) ->
  closed_val D v -> flatten h v = Some (g, ls) -> flatten h' (relocate phi v) = Some (g', ls') -> g = g' /\ ls = ls'.
Proof.
  intros Inj Rel Cv F F'. unfold flatten in *.
  destruct (flat (fuel_for h v) h [] v ([], [])) as [[a s]|] eqn:E; [|discriminate]. inversion F; subst; clear F.
  destruct (flat (fuel_for h' (relocate phi v)) h' [] (relocate phi v) ([], [])) as [[a' s']|] eqn:E'; [|discriminate]. inversion F'; subst; clear F'.
  set (fm := Nat.max (fuel_for h v) (fuel_for h' (relocate phi v))).
  pose proof (flat_fuel_mono h _ fm _ _ _ _ (Nat.le_max_l _ _) E) as E1.
  pose proof (flat_fuel_mono h' _ fm _ _ _ _ (Nat.le_max_r _ _) E') as E2.
  pose proof (flat_iso phi D Inj h h' Rel fm [] v ([], []) Cv (Forall_nil _)) as S. unfold SameRun in S. rewrite E1 in S. destruct S as [S _].
  cbn [fst snd map] in S. rewrite E2 in S. inversion S; subst. auto.
Qed.

(* ------------------------------------------------------------------------------------------------ *)
(* the numbering of flatten as a renaming                                                            *)
Definition phi_of (ri : list loc) (l : loc) : loc := match index_of l ri with Some i => i | None => 0 end.

Lemma rv_relocate ri v : forall v', rv ri v = Some v' -> v' = relocate (phi_of ri) v /\ closed_val (fun l => In l ri) v.
Proof.
  induction v as [l|s|a|kd xs IH] using value_ind'; intros v' H.
  - cbn [rv] in H. destruct (index_of l ri) as [i|] eqn:E; [|discriminate]. inversion H; subst. cbn [relocate closed_val]. unfold phi_of. rewrite E.
    split; [reflexivity|]. apply index_of_nth in E. eapply nth_error_In; eauto.
  - inversion H; subst. split; [reflexivity|exact I].
  - inversion H; subst. split; [reflexivity|exact I].
  - rewrite rv_tree in H. destruct (rattrs ri xs) as [ys|] eqn:E; [|discriminate]. inversion H; subst. rewrite relocate_tree, closed_tree.
    assert (G : ys = relocate_attrs (phi_of ri) xs /\ closed_attrs (fun l => In l ri) xs).
    { clear H. revert ys E. induction IH as [|[k x] r Hx _ IHr]; intros ys E; cbn [rattrs] in E.
      - inversion E. split; [reflexivity|constructor].
      - destruct (rv ri x) as [x'|] eqn:Ex; [|discriminate]. destruct (rattrs ri r) as [r'|] eqn:Er; [|discriminate]. inversion E; subst.
        destruct (Hx _ Ex) as [-> Cx]. destruct (IHr _ eq_refl) as [-> Cr]. split; [reflexivity|constructor; assumption]. }
    destruct G as [-> C]. auto.
Qed.
Lemma rattrs_relocate ri xs ys : rattrs ri xs = Some ys -> ys = relocate_attrs (phi_of ri) xs /\ closed_attrs (fun l => In l ri) xs.
Proof.
  revert ys; induction xs as [|[k x] r IH]; intros ys E; cbn [rattrs] in E.
  - inversion E. split; [reflexivity|constructor].
  - destruct (rv ri x) as [x'|] eqn:Ex; [|discriminate]. destruct (rattrs ri r) as [r'|] eqn:Er; [|discriminate]. inversion E; subst.
    destruct (rv_relocate _ _ _ Ex) as [-> Cx]. destruct (IH _ eq_refl) as [-> Cr]. split; [reflexivity|constructor; assumption].
Qed.
Lemma ro_relocate ri o0 o : ro ri o0 = Some o -> o = relocate_obj (phi_of ri) o0 /\ closed_obj (fun l => In l ri) o0.
Proof.
  destruct o0 as [ty xs|t p m]; cbn [ro].
  - destruct (rattrs ri xs) as [ys|] eqn:E; [|discriminate]. intros H; inversion H; subst. destruct (rattrs_relocate _ _ _ E) as [-> C]. auto.
  - intros H; inversion H; subst. split; [reflexivity|exact I].
Qed.

(* flatten after unflatten gives back what was unflattened: (graphdef, leaves) is a canonical form of the graph *)
Theorem flatten_unflatten_id h v g ls :
  flatten h v = Some (g, ls) ->
  exists h' v', unflatten g (map snd ls) = Some (h', v') /\
    forall g' ls', flatten h' v' = Some (g', ls') -> g' = g /\ ls' = ls.
Proof.
  intros F. destruct (roundtrip_iso _ _ _ _ F) as (ri & h' & v' & U & ND & L & Hv & Cells).
  exists h', v'. split; [exact U|]. intros g' ls' F'.
  destruct (rv_relocate _ _ _ Hv) as [-> Cv].
  destruct (flatten_iso (phi_of ri) (fun l => In l ri) h h' v g ls g' ls') as [-> ->]; auto.
  - intros a b Da Db E. unfold phi_of in E. destruct (index_of_in _ _ Da) as [i Ei]. destruct (index_of_in _ _ Db) as [j Ej]. rewrite Ei, Ej in E. subst j.
    exact (index_of_inj _ _ _ _ Ei Ej).
  - intros l Dl. destruct (index_of_in _ _ Dl) as [i Ei]. destruct (Cells _ _ (index_of_nth _ _ _ Ei)) as (o0 & o & A & B & C).
    destruct (ro_relocate _ _ _ B) as [-> Co]. exists o0. unfold phi_of at 1. rewrite Ei. auto.
Qed.

(* ------------------------------------------------------------------------------------------------ *)
(* variants that also relate the numberings                                                          *)
Theorem flatten_ri_iso phi (D : loc -> Prop) h h' v g ls ri g' ls' ri' :
  (forall a b, D a -> D b -> phi a = phi b -> a = b) ->
  (forall l, D l -> exists o, nth_error h l = Some o /\ nth_error h' (phi l) = Some (relocate_obj phi o) /\ closed_obj D o) ->
  closed_val D v -> flatten_ri h v = Some (g, ls, ri) -> flatten_ri h' (relocate phi v) = Some (g', ls', ri') ->
  g = g' /\ ls = ls' /\ ri' = map phi ri /\ Forall D ri.
Proof.
  intros Inj Rel Cv F F'. unfold flatten_ri in *.
  destruct (flat (fuel_for h v) h [] v ([], [])) as [[a s]|] eqn:E; [|discriminate]. inversion F; subst; clear F.
  destruct (flat (fuel_for h' (relocate phi v)) h' [] (relocate phi v) ([], [])) as [[a' s']|] eqn:E'; [|discriminate]. inversion F'; subst; clear F'.
  set (fm := Nat.max (fuel_for h v) (fuel_for h' (relocate phi v))).
  pose proof (flat_fuel_mono h _ fm _ _ _ _ (Nat.le_max_l _ _) E) as E1.
  pose proof (flat_fuel_mono h' _ fm _ _ _ _ (Nat.le_max_r _ _) E') as E2.
  pose proof (flat_iso phi D Inj h h' Rel fm [] v ([], []) Cv (Forall_nil _)) as S. unfold SameRun in S. rewrite E1 in S. destruct S as [S FD].
  cbn [fst snd map] in S. rewrite E2 in S. inversion S; subst. auto.
Qed.

Theorem roundtrip_iso_ri h v g ls ri :
  flatten_ri h v = Some (g, ls, ri) -> exists h' v', unflatten g (map snd ls) = Some (h', v') /\ iso h v ri h' v'.
Proof.
  unfold flatten_ri. destruct (flat (fuel_for h v) h [] v ([], [])) as [[a s]|] eqn:E; [|discriminate].
  intros H; inversion H; subst; clear H.
  destruct (flat_good _ _ _ _ _ _ _ E) as (ext & newls & v' & Hf & Hs & Hn & Hv & Hu).
  cbn [fst snd app] in Hf, Hs, Hn.
  destruct (Hu [] [] [] eq_refl) as (news & ir' & U & _ & [LC CC]).
  { intros i Hi; simpl in Hi; lia. }
  exists news, v'. unfold unflatten. rewrite Hs. rewrite app_nil_r in U. rewrite U. cbn [app].
  split; [reflexivity|]. split; [apply Hn; constructor|]. split; [now rewrite Hf|]. split; [exact Hv|].
  intros i l Hi. rewrite Hf in Hi. exact (CC _ _ Hi).
Qed.

(* composition and extensionality of relocation *)
Lemma relocate_comp f g v : relocate f (relocate g v) = relocate (fun x => f (g x)) v.
Proof.
  induction v as [l|s|a|kd xs IH] using value_ind'; try reflexivity.
  rewrite !relocate_tree. f_equal. unfold relocate_attrs. rewrite map_map. cbn [fst snd].
  induction IH as [|[k x] r Hx _ IHr]; cbn [map fst snd]; [reflexivity|]. simpl in Hx. now rewrite Hx, IHr.
Qed.
Lemma relocate_attrs_comp f g xs : relocate_attrs f (relocate_attrs g xs) = relocate_attrs (fun x => f (g x)) xs.
Proof. unfold relocate_attrs. rewrite map_map. apply map_ext. intros [k x]. cbn [fst snd]. now rewrite relocate_comp. Qed.
Lemma relocate_obj_comp f g o : relocate_obj f (relocate_obj g o) = relocate_obj (fun x => f (g x)) o.
Proof. destruct o as [ty xs|t p m]; cbn [relocate_obj]; [now rewrite relocate_attrs_comp|reflexivity]. Qed.

Lemma relocate_ext (D : loc -> Prop) f g v : (forall l, D l -> f l = g l) -> closed_val D v -> relocate f v = relocate g v.
Proof.
  intros H. induction v as [l|s|a|kd xs IH] using value_ind'; intros C; try reflexivity.
  - cbn [relocate closed_val] in *. now rewrite H.
  - rewrite !relocate_tree. apply closed_tree in C. f_equal. unfold relocate_attrs, closed_attrs in *.
    induction IH as [|[k x] r Hx _ IHr]; [reflexivity|]. inversion C; subst. cbn [map fst snd]. simpl in Hx. rewrite Hx by assumption. f_equal. now apply IHr.
Qed.
