(* C02: the variables returned by init are exactly what apply consumes.  Re-running a module program (one that only
   declares, sows and perturbs -- no put_variable) on the variables its first run left, with every collection
   immutable, finds every parameter and variable, reads the values the first run read, returns the same output,
   initialises nothing and leaves the variables untouched. *)
From Coq Require Import Lia.
From Flaxm Require Import Lib.Harness Model.Filters Model.Linen Proofs.Linen.

Lemma name_eqb_eq a b : name_eqb a b = true <-> a = b.
Proof.
  destruct a, b; simpl; split; intros H; try discriminate; try (inversion H; subst; rewrite ?N.eqb_refl, ?Nat.eqb_refl; reflexivity).
  - apply N.eqb_eq in H. now subst.
  - apply andb_true_iff in H as [H1 H2]. apply N.eqb_eq in H1. apply Nat.eqb_eq in H2. now subst.
Qed.
Lemma name_eqb_refl a : name_eqb a a = true.  Proof. now apply name_eqb_eq. Qed.
Lemma name_eqb_neq a b : a <> b -> name_eqb a b = false.
Proof. intros H. destruct (name_eqb a b) eqn:E; [apply name_eqb_eq in E; contradiction|reflexivity]. Qed.

Lemma nassoc_nset_same k v kids : nassoc k (nset k v kids) = Some v.
Proof.
  induction kids as [|[k' x] r IH]; simpl; [now rewrite name_eqb_refl|].
  destruct (name_eqb k k') eqn:E; simpl; rewrite E; [reflexivity|exact IH].
Qed.
Lemma nassoc_nset_other k k' v kids : k' <> k -> nassoc k' (nset k v kids) = nassoc k' kids.
Proof.
  intros H. induction kids as [|[k0 x] r IH]; simpl; [now rewrite name_eqb_neq|].
  destruct (name_eqb k k0) eqn:E; simpl.
  - apply name_eqb_eq in E. subst k0. now rewrite name_eqb_neq.
  - destruct (name_eqb k' k0); [reflexivity|exact IH].
Qed.

(* ---------------- reading below a root dict ---------------- *)
Definition nget (root : node) (p : path) (nm : name) : option sval :=
  match walk p root with
  | Some (VNode kids) => match nassoc nm kids with Some (VLeaf v) => Some v | _ => None end
  | _ => None
  end.
Definition nhas (root : node) (p : path) (nm : name) : bool :=
  match walk p root with
  | Some (VNode kids) => match nassoc nm kids with Some _ => true | None => false end
  | _ => false
  end.
(* the entry is absent or a leaf: what every declaration, sow and perturb writes over *)
Definition leafish (root : node) (p : path) (nm : name) : Prop := nhas root p nm = false \/ exists w, nget root p nm = Some w.

Lemma nget_cons k r nm kids : nget (VNode kids) (k :: r) nm = match nassoc k kids with Some s => nget s r nm | None => None end.
Proof. unfold nget. simpl. destruct (nassoc k kids); reflexivity. Qed.
Lemma nhas_cons k r nm kids : nhas (VNode kids) (k :: r) nm = match nassoc k kids with Some s => nhas s r nm | None => false end.
Proof. unfold nhas. simpl. destruct (nassoc k kids); reflexivity. Qed.
Lemma nget_leaf x p nm : nget (VLeaf x) p nm = None.
Proof. unfold nget. destruct p; reflexivity. Qed.
Lemma nhas_leaf x p nm : nhas (VLeaf x) p nm = false.
Proof. unfold nhas. destruct p; reflexivity. Qed.
Lemma nget_empty p nm : nget (VNode []) p nm = None.
Proof. destruct p; [reflexivity|]. now rewrite nget_cons. Qed.
Lemma nhas_empty p nm : nhas (VNode []) p nm = false.
Proof. destruct p; [reflexivity|]. now rewrite nhas_cons. Qed.

Lemma put_at_get : forall p nm v n n', put_at p nm v n = Some n' -> nget n' p nm = Some v /\ nhas n' p nm = true.
Proof.
  induction p as [|k r IH]; intros nm v n n' H; destruct n as [x|kids]; try discriminate.
  - simpl in H. inv H. unfold nget, nhas. simpl. now rewrite nassoc_nset_same.
  - cbn [put_at] in H. destruct (put_at r nm v _) as [sub'|] eqn:E; [|discriminate]. inv H.
    rewrite nget_cons, nhas_cons, nassoc_nset_same. eapply IH; eauto.
Qed.

Lemma put_at_other : forall p nm v n n', put_at p nm v n = Some n' -> leafish n p nm ->
  forall p' nm', (p' <> p \/ nm' <> nm) ->
  (forall w, nget n p' nm' = Some w -> nget n' p' nm' = Some w) /\ (nhas n p' nm' = true -> nhas n' p' nm' = true).
Proof.
  induction p as [|k r IH]; intros nm v n n' H L p' nm' D; destruct n as [x|kids]; try discriminate.
  - simpl in H. inv H. destruct p' as [|k' r'].
    + assert (nm' <> nm) by (destruct D; congruence).
      unfold nget, nhas. simpl. rewrite nassoc_nset_other by assumption. auto.
    + rewrite !nget_cons, !nhas_cons. destruct (name_eqb k' nm) eqn:E.
      * apply name_eqb_eq in E. subst k'. destruct L as [L|[w L]]; unfold nhas, nget in L; simpl in L.
        -- destruct (nassoc nm kids); [discriminate|]. split; [discriminate|discriminate].
        -- destruct (nassoc nm kids) as [[x|ks]|]; try discriminate.
           rewrite nget_leaf, nhas_leaf. split; [discriminate|discriminate].
      * rewrite nassoc_nset_other by (intros ->; now rewrite name_eqb_refl in E). auto.
  - cbn [put_at] in H. destruct (put_at r nm v _) as [sub'|] eqn:E; [|discriminate]. inv H.
    set (sub := match nassoc k kids with Some s => s | None => VNode [] end) in *.
    assert (Lsub : leafish sub r nm).
    { destruct L as [L|[w L]]; [left|right].
      - rewrite nhas_cons in L. subst sub. destruct (nassoc k kids); [exact L|apply nhas_empty].
      - exists w. rewrite nget_cons in L. subst sub. destruct (nassoc k kids); [exact L|discriminate]. }
    destruct p' as [|k' r'].
    + unfold nget, nhas. simpl. destruct (name_eqb nm' k) eqn:Ek.
      * apply name_eqb_eq in Ek. subst nm'. rewrite nassoc_nset_same. split.
        -- intros w Hw. destruct (nassoc k kids) as [[x|ks]|] eqn:Ea; try discriminate.
           subst sub. destruct r; discriminate.
        -- reflexivity.
      * rewrite nassoc_nset_other by (intros ->; now rewrite name_eqb_refl in Ek). auto.
    + rewrite !nget_cons, !nhas_cons. destruct (name_eqb k' k) eqn:Ek.
      * apply name_eqb_eq in Ek. subst k'. rewrite nassoc_nset_same.
        assert (D' : r' <> r \/ nm' <> nm) by (destruct D as [D|D]; [left; congruence|right; exact D]).
        destruct (IH nm v sub sub' E Lsub r' nm' D') as [G1 G2].
        subst sub. destruct (nassoc k kids); [auto|]. split; [discriminate|discriminate].
      * rewrite nassoc_nset_other by (intros ->; now rewrite name_eqb_refl in Ek). auto.
Qed.

(* ---------------- the same at the level of variable trees ---------------- *)
Lemma get_var_nget t col p nm : get_var t col p nm = match cassoc col t with Some root => nget root p nm | None => None end.
Proof. reflexivity. Qed.
Lemma has_var_nhas t col p nm : has_var t col p nm = match cassoc col t with Some root => nhas root p nm | None => false end.
Proof. reflexivity. Qed.

Definition vleafish (t : vtree) (col : N) (p : path) (nm : name) : Prop :=
  has_var t col p nm = false \/ exists w, get_var t col p nm = Some w.

Lemma put_var_get t col p nm v t' : put_var t col p nm v = Some t' ->
  get_var t' col p nm = Some v /\ has_var t' col p nm = true.
Proof.
  unfold put_var. intros H. destruct (put_at p nm v _) as [root'|] eqn:E; [|discriminate]. inv H.
  rewrite get_var_nget, has_var_nhas, cassoc_cset, N.eqb_refl. eapply put_at_get; eauto.
Qed.

Lemma put_var_preserves t col p nm v t' : put_var t col p nm v = Some t' -> vleafish t col p nm ->
  forall c' p' nm', (c' <> col \/ p' <> p \/ nm' <> nm) ->
  (forall w, get_var t c' p' nm' = Some w -> get_var t' c' p' nm' = Some w) /\
  (has_var t c' p' nm' = true -> has_var t' c' p' nm' = true).
Proof.
  unfold put_var. intros H L c' p' nm' D. destruct (put_at p nm v _) as [root'|] eqn:E; [|discriminate]. inv H.
  rewrite !get_var_nget, !has_var_nhas, cassoc_cset. destruct (N.eqb_spec c' col) as [->|Hc]; [|auto].
  assert (D' : p' <> p \/ nm' <> nm) by (destruct D as [D|D]; [contradiction|exact D]).
  assert (L' : leafish (match cassoc col t with Some r => r | None => VNode [] end) p nm).
  { unfold vleafish in L. rewrite get_var_nget, has_var_nhas in L. destruct (cassoc col t).
    - exact L.
    - left. apply nhas_empty. }
  destruct (put_at_other _ _ _ _ _ E L' p' nm' D') as [G1 G2].
  destruct (cassoc col t); [auto|]. split; [discriminate|discriminate].
Qed.

(* V' extends V: vector-valued entries keep their value, entries stay *)
Definition ext (V V' : vtree) : Prop :=
  (forall c p nm v, get_var V c p nm = Some (SVec v) -> get_var V' c p nm = Some (SVec v)) /\
  (forall c p nm, has_var V c p nm = true -> has_var V' c p nm = true).
Lemma ext_refl V : ext V V.  Proof. split; auto. Qed.
Lemma ext_trans A B C : ext A B -> ext B C -> ext A C.
Proof. intros [A1 A2] [B1 B2]. split; auto. Qed.

(* a write over an absent entry, or of a tuple over a tuple, extends *)
Lemma ext_put t col p nm v t' : put_var t col p nm v = Some t' ->
  (has_var t col p nm = false \/ exists vs, get_var t col p nm = Some (STuple vs)) -> ext t t'.
Proof.
  intros H L. assert (L' : vleafish t col p nm) by (destruct L as [L|[vs L]]; [left; exact L|right; eauto]).
  split.
  - intros c q n w G. destruct (N.eqb_spec c col) as [->|Hc]; [|eapply put_var_preserves; eauto].
    destruct (path_eqb q p) eqn:Ep.
    + apply path_eqb_eq in Ep. subst q. destruct (name_eqb n nm) eqn:En.
      * apply name_eqb_eq in En. subst n. destruct L as [L|[vs L]].
        -- rewrite has_var_nhas in L. rewrite get_var_nget in G. destruct (cassoc col t) as [root|]; [|discriminate].
           unfold nhas in L. unfold nget in G. destruct (walk p root) as [[x|ks]|]; try discriminate.
           destruct (nassoc nm ks); discriminate.
        -- congruence.
      * eapply put_var_preserves; eauto. right. right. intros ->. now rewrite name_eqb_refl in En.
    + eapply put_var_preserves; eauto. right. left. intros ->. assert (path_eqb p p = true) by now apply path_eqb_eq. congruence.
  - intros c q n G. destruct (N.eqb_spec c col) as [->|Hc]; [|eapply put_var_preserves; eauto].
    destruct (path_eqb q p) eqn:Ep.
    + apply path_eqb_eq in Ep. subst q. destruct (name_eqb n nm) eqn:En.
      * apply name_eqb_eq in En. subst n. eapply put_var_get; eauto.
      * eapply put_var_preserves; eauto. right. right. intros ->. now rewrite name_eqb_refl in En.
    + eapply put_var_preserves; eauto. right. left. intros ->. assert (path_eqb p p = true) by now apply path_eqb_eq. congruence.
Qed.

(* ---------------- programs that never overwrite a variable (no put_variable) only extend the tree ---------------- *)
Definition ro_stmt (c : stmt) : bool := match c with SVarSet _ _ _ => false | _ => true end.
Definition ro_classes (cl : classes) : bool := forallb (fun kc => forallb ro_stmt (fst (snd kc))) cl.

Section StepExt.
  Variable ev : env.
  Variable call : N -> path -> vec -> st -> res (vec * st).
  Hypothesis call_ext : forall cls p v s y s', call cls p v s = Ok (y, s') -> ext (s_vars s) (s_vars s').

  Lemma step_ext p input fr s c fr' s' : ro_stmt c = true ->
    step ev call p input fr s c = Ok (fr', s') -> ext (s_vars s) (s_vars s').
  Proof.
    unfold step, mut. intros R H. destruct c; try discriminate R.
    - (* SParam *)
      destruct (name_reserved (f_resv fr) nm (Some (e_params ev))); [discriminate|].
      destruct (has_var (s_vars s) (e_params ev) p nm) eqn:Eh.
      + destruct (get_var (s_vars s) (e_params ev) p nm) as [[v|vs]|]; try discriminate.
        destruct (Nat.eqb (length v) (psize n input)); [|discriminate]. inv H. apply ext_refl.
      + destruct (in_filter (e_mutable ev) (e_params ev)) eqn:Em; simpl in H; [|destruct (col_empty (s_vars s) (e_params ev)); discriminate].
        destruct (make_rng ev p (e_params ev) s) as [s1|] eqn:Er; [|discriminate].
        destruct (put_var (s_vars s1) (e_params ev) p nm _) as [t'|] eqn:Ep; [|discriminate]. inv H. simpl.
        rewrite (make_rng_vars _ _ _ _ _ Er) in Ep. eapply ext_put; eauto.
    - (* SVar *)
      destruct (name_reserved (f_resv fr) nm (Some col)); [discriminate|].
      destruct (has_var (s_vars s) col p nm) eqn:Eh.
      + destruct (get_var (s_vars s) col p nm) as [[v|vs]|]; try discriminate. inv H. apply ext_refl.
      + destruct (in_filter (e_mutable ev) col) eqn:Em; simpl in H; [|destruct (col_empty (s_vars s) col); discriminate].
        destruct (put_var (s_vars s) col p nm _) as [t'|] eqn:Ep; [|discriminate]. inv H. simpl. eapply ext_put; eauto.
    - (* SSow *)
      destruct (eval (f_locals fr) input e); [|discriminate].
      destruct (in_filter (e_mutable ev) col) eqn:Em; simpl in H; [|inv H; apply ext_refl].
      destruct (has_var (s_vars s) col p nm) eqn:Eh.
      + destruct (get_var (s_vars s) col p nm) as [[v0|vs]|] eqn:Eg; try discriminate.
        destruct (put_var (s_vars s) col p nm _) as [t'|] eqn:Ep; [|discriminate]. inv H. simpl. eapply ext_put; eauto.
      + destruct (name_reserved (f_resv fr) nm (Some col)); [discriminate|].
        destruct (put_var (s_vars s) col p nm _) as [t'|] eqn:Ep; [|discriminate]. inv H. simpl. eapply ext_put; eauto.
    - (* SPerturb *)
      destruct (eval (f_locals fr) input e) as [v|]; [|discriminate].
      destruct (in_filter (e_mutable ev) (e_perturb ev) && negb (has_var (s_vars s) (e_perturb ev) p nm)) eqn:Eg.
      + destruct (name_reserved (f_resv fr) nm (Some (e_perturb ev))); [discriminate|].
        apply andb_true_iff in Eg as [Em Eh]. apply negb_true_iff in Eh.
        destruct (put_var (s_vars s) (e_perturb ev) p nm _) as [t'|] eqn:Ep; [|discriminate].
        assert (X : ext (s_vars s) t') by (eapply ext_put; eauto).
        match type of H with context[cassoc ?c ?t] => destruct (cassoc c t) end.
        * match type of H with context[get_var ?t ?c ?q ?m] => destruct (get_var t c q m) as [[old|vs]|] end; try discriminate.
          destruct (vop add64 v old); [|discriminate]. inv H. exact X.
        * inv H. exact X.
      + destruct (cassoc (e_perturb ev) (s_vars s)).
        * destruct (get_var (s_vars s) (e_perturb ev) p nm) as [[old|vs]|]; try discriminate.
          destruct (vop add64 v old); [|discriminate]. inv H. apply ext_refl.
        * inv H. apply ext_refl.
    - (* SRng *)
      destruct (make_rng ev p stream s) as [s1|] eqn:Er; [|discriminate]. inv H.
      rewrite (make_rng_vars _ _ _ _ _ Er). apply ext_refl.
    - (* SLet *) destruct (eval (f_locals fr) input e); [|discriminate]. inv H. apply ext_refl.
    - (* SChild *)
      destruct nm as [n|].
      + destruct (name_reserved (f_resv fr) (NExp n) None); [discriminate|]. inv H. apply ext_refl.
      + match type of H with context[name_reserved ?r ?n None] => destruct (name_reserved r n None) end; [discriminate|]. inv H. apply ext_refl.
    - (* SCall *)
      destruct (eval (f_locals fr) input e) as [v|]; [|discriminate].
      destruct (lassoc i (f_insts fr)) as [[cls cp]|]; [|discriminate].
      destruct (call cls cp v s) as [[y s1]|] eqn:Ec; [|discriminate]. inv H. eapply call_ext; eauto.
  Qed.

  Lemma steps_ext p input : forall cs fr s fr' s', forallb ro_stmt cs = true ->
    steps ev call p input fr s cs = Ok (fr', s') -> ext (s_vars s) (s_vars s').
  Proof.
    induction cs as [|c r IH]; intros fr s fr' s' R H; simpl in H; [inv H; apply ext_refl|].
    simpl in R. apply andb_true_iff in R as [R1 R2].
    destruct (step ev call p input fr s c) as [[fr1 s1]|] eqn:E; [|discriminate].
    eapply ext_trans; [eapply step_ext; eauto|eapply IH; eauto].
  Qed.
End StepExt.

Lemma ro_lookup cl cls body ret : ro_classes cl = true -> lassoc cls cl = Some (body, ret) -> forallb ro_stmt body = true.
Proof.
  unfold ro_classes, lassoc. induction cl as [|[k c] r IH]; simpl; [discriminate|]. intros R H.
  apply andb_true_iff in R as [R1 R2]. destruct (N.eqb cls k); [simpl in H; inv H; exact R1|auto].
Qed.

Theorem run_call_ext ev : ro_classes (e_classes ev) = true ->
  forall fuel cls p v s y s', run_call fuel ev cls p v s = Ok (y, s') -> ext (s_vars s) (s_vars s').
Proof.
  intros R. induction fuel as [|f IH]; intros cls p v s y s' H; [discriminate|]. simpl in H.
  destruct (lassoc cls (e_classes ev)) as [[body ret]|] eqn:El; [|discriminate].
  destruct (steps ev (run_call f ev) p v frame0 s body) as [[fr s1]|] eqn:E; [|discriminate].
  destruct (eval (f_locals fr) v ret); [|discriminate]. inv H.
  eapply steps_ext; [|eapply ro_lookup; eauto|exact E]. intros; eapply IH; eauto.
Qed.

(* ---------------- the second run: every collection immutable, on the variables the first run left ---------------- *)
Definition immut (F : filt) (ev : env) : env := mkEnv F (e_streams ev) (e_classes ev) (e_params ev) (e_perturb ev).
Definition is_pinit (e : event) : bool := match e with ParamInit _ _ => true | _ => false end.
Definition pinits (tr : list event) : list event := filter is_pinit tr.

Definition sub (rb ra : resv) : Prop := forall nm col, name_reserved rb nm col = true -> name_reserved ra nm col = true.
Lemma sub_cons_both e ra rb : sub rb ra -> sub (e :: rb) (e :: ra).
Proof. unfold sub, name_reserved. simpl. intros H nm col X. apply orb_true_iff in X as [X|X]; apply orb_true_iff; [left; exact X|right; auto]. Qed.
Lemma sub_cons_left e ra rb : sub rb ra -> sub rb (e :: ra).
Proof. unfold sub, name_reserved. simpl. intros H nm col X. apply orb_true_iff. right. auto. Qed.

Definition frel (a b : frame) : Prop :=
  f_locals a = f_locals b /\ f_auto a = f_auto b /\ f_insts a = f_insts b /\ sub (f_resv b) (f_resv a).

(* what the rest of the first run guarantees about the variables V1 it ends with *)
Definition future (ev : env) (V V1 : vtree) : Prop :=
  ext V V1 /\ (forall c, in_filter (e_mutable ev) c = false -> cassoc c V1 = cassoc c V).
Lemma future_refl ev V : future ev V V.  Proof. split; [apply ext_refl|auto]. Qed.
Lemma future_trans ev A B C : future ev A B -> future ev B C -> future ev A C.
Proof. intros [A1 A2] [B1 B2]. split; [eapply ext_trans; eauto|]. intros c Hc. now rewrite B2, A2. Qed.

Lemma run_call_future ev : ro_classes (e_classes ev) = true ->
  forall fuel cls p v s y s', run_call fuel ev cls p v s = Ok (y, s') -> future ev (s_vars s) (s_vars s').
Proof. intros R fuel cls p v s y s' H. split; [eapply run_call_ext; eauto|]. exact (proj1 (run_call_frame ev _ _ _ _ _ _ _ H)). Qed.

Lemma get_var_cassoc t c p nm v : get_var t c p nm = Some v -> cassoc c t <> None.
Proof. rewrite get_var_nget. destruct (cassoc c t); [discriminate|discriminate]. Qed.
Lemma has_var_cassoc t c p nm : has_var t c p nm = true -> cassoc c t <> None.
Proof. rewrite has_var_nhas. destruct (cassoc c t); [discriminate|discriminate]. Qed.

Lemma pinits_app a b : pinits (a ++ b) = pinits a ++ pinits b.
Proof. apply filter_app. Qed.

Lemma make_rng_immut F ev p stream sA sA' sB : make_rng ev p stream sA = Ok sA' ->
  exists sB', make_rng (immut F ev) p stream sB = Ok sB' /\ s_vars sB' = s_vars sB /\ pinits (s_trace sB') = pinits (s_trace sB).
Proof.
  unfold make_rng. cbn [immut e_streams e_params].
  destruct (if memN stream (e_streams ev) then Some stream else if memN (e_params ev) (e_streams ev) then Some (e_params ev) else None) as [t|];
    [|discriminate].
  intros _. eexists. split; [reflexivity|]. simpl. split; [reflexivity|]. rewrite pinits_app. simpl. apply app_nil_r.
Qed.

Section Sim.
  Variable ev : env.
  Variable F : filt.
  Hypothesis HF : forall c, in_filter F c = false.
  Variable V1 : vtree.
  Variables call1 call2 : N -> path -> vec -> st -> res (vec * st).
  Hypothesis call1_ext : forall cls p v s y s', call1 cls p v s = Ok (y, s') -> ext (s_vars s) (s_vars s').
  Hypothesis call1_frame : forall cls p v s y s', call1 cls p v s = Ok (y, s') -> frame_rel ev s s'.
  Hypothesis call_sim : forall cls p v sA y sA', call1 cls p v sA = Ok (y, sA') -> future ev (s_vars sA') V1 ->
    forall sB, s_vars sB = V1 ->
    exists sB', call2 cls p v sB = Ok (y, sB') /\ s_vars sB' = V1 /\ pinits (s_trace sB') = pinits (s_trace sB).

  Lemma step_future p input fr s c fr' s' : ro_stmt c = true ->
    step ev call1 p input fr s c = Ok (fr', s') -> future ev (s_vars s) (s_vars s').
  Proof.
    intros R H. split.
    - eapply step_ext; [|exact R|exact H]. exact call1_ext.
    - exact (proj1 (step_frame ev call1 call1_frame _ _ _ _ _ _ _ H)).
  Qed.

  Lemma steps_future p input cs fr s fr' s' : forallb ro_stmt cs = true ->
    steps ev call1 p input fr s cs = Ok (fr', s') -> future ev (s_vars s) (s_vars s').
  Proof.
    intros R H. split.
    - eapply steps_ext; [|exact R|exact H]. exact call1_ext.
    - exact (proj1 (steps_frame ev call1 call1_frame _ _ _ _ _ _ _ H)).
  Qed.

  Let ev2 := immut F ev.

  Lemma step_sim p input frA sA c frA' sA' frB sB :
    ro_stmt c = true -> step ev call1 p input frA sA c = Ok (frA', sA') -> future ev (s_vars sA') V1 ->
    frel frA frB -> s_vars sB = V1 ->
    exists frB' sB', step ev2 call2 p input frB sB c = Ok (frB', sB') /\ frel frA' frB' /\ s_vars sB' = V1 /\
                     pinits (s_trace sB') = pinits (s_trace sB).
  Proof.
    intros R H [[X1 X2] X3] (FL & FA & FI & FS) HV.
    destruct sB as [vB cB tB]. simpl in HV. subst vB.
    unfold step, mut in *. unfold ev2. cbn [immut e_mutable e_streams e_classes e_params e_perturb s_vars s_counters s_trace].
    rewrite <- ?FL, <- ?FA, <- ?FI. destruct c; try discriminate R.
    - (* SParam *)
      destruct (name_reserved (f_resv frA) nm (Some (e_params ev))) eqn:NA; [discriminate|].
      destruct (name_reserved (f_resv frB) nm (Some (e_params ev))) eqn:NB; [apply FS in NB; congruence|].
      assert (G : exists v, get_var V1 (e_params ev) p nm = Some (SVec v) /\ has_var V1 (e_params ev) p nm = true /\
                            Nat.eqb (length v) (psize n input) = true /\
                            frA' = mkFrame ((x, v) :: f_locals frA) ((nm, Some (e_params ev)) :: f_resv frA) (f_auto frA) (f_insts frA)).
      { destruct (has_var (s_vars sA) (e_params ev) p nm) eqn:Eh.
        - destruct (get_var (s_vars sA) (e_params ev) p nm) as [[v|vs]|] eqn:Eg; try discriminate.
          destruct (Nat.eqb (length v) (psize n input)) eqn:El; [|discriminate]. inv H. exists v. auto.
        - destruct (in_filter (e_mutable ev) (e_params ev)) eqn:Em; simpl in H; [|destruct (col_empty (s_vars sA) (e_params ev)); discriminate].
          destruct (make_rng ev p (e_params ev) sA) as [s1|] eqn:Er; [|discriminate].
          destruct (put_var (s_vars s1) (e_params ev) p nm _) as [t'|] eqn:Ep; [|discriminate]. inv H. simpl in *.
          destruct (put_var_get _ _ _ _ _ _ Ep) as [Pg Ph]. eexists. repeat split; eauto.
          rewrite repeat_length. apply Nat.eqb_refl. }
      destruct G as (v & Gg & Gh & Gl & ->). rewrite Gh, Gg, Gl.
      eexists. eexists. split; [reflexivity|]. split; [|split; reflexivity].
      repeat split; simpl; try congruence; auto. now apply sub_cons_both.
    - (* SVar *)
      destruct (name_reserved (f_resv frA) nm (Some col)) eqn:NA; [discriminate|].
      destruct (name_reserved (f_resv frB) nm (Some col)) eqn:NB; [apply FS in NB; congruence|].
      assert (G : exists v, get_var V1 col p nm = Some (SVec v) /\ has_var V1 col p nm = true /\
                            frA' = mkFrame ((x, v) :: f_locals frA) ((nm, Some col) :: f_resv frA) (f_auto frA) (f_insts frA)).
      { destruct (has_var (s_vars sA) col p nm) eqn:Eh.
        - destruct (get_var (s_vars sA) col p nm) as [[v|vs]|] eqn:Eg; try discriminate. inv H. exists v. auto.
        - destruct (in_filter (e_mutable ev) col) eqn:Em; simpl in H; [|destruct (col_empty (s_vars sA) col); discriminate].
          destruct (put_var (s_vars sA) col p nm _) as [t'|] eqn:Ep; [|discriminate]. inv H. simpl in *.
          destruct (put_var_get _ _ _ _ _ _ Ep) as [Pg Ph]. eexists. repeat split; eauto. }
      destruct G as (v & Gg & Gh & ->). rewrite Gh, Gg.
      eexists. eexists. split; [reflexivity|]. split; [|split; reflexivity].
      repeat split; simpl; try congruence; auto. now apply sub_cons_both.
    - (* SSow *)
      destruct (eval (f_locals frA) input e) as [v|]; [|discriminate]. rewrite HF. cbn [negb].
      eexists. eexists. split; [reflexivity|]. split; [|split; reflexivity].
      destruct (negb (in_filter (e_mutable ev) col)); [inv H; repeat split; simpl; try congruence; auto|].
      destruct (has_var (s_vars sA) col p nm).
      + destruct (get_var (s_vars sA) col p nm) as [[v0|vs]|]; try discriminate.
        destruct (put_var (s_vars sA) col p nm _); [|discriminate]. inv H. repeat split; simpl; try congruence; auto.
      + destruct (name_reserved (f_resv frA) nm (Some col)); [discriminate|].
        destruct (put_var (s_vars sA) col p nm _); [|discriminate]. inv H. repeat split; simpl; try congruence; auto. now apply sub_cons_left.
    - (* SPerturb *)
      destruct (eval (f_locals frA) input e) as [v|]; [|discriminate]. rewrite HF. cbn [andb s_vars s_counters s_trace].
      destruct (in_filter (e_mutable ev) (e_perturb ev) && negb (has_var (s_vars sA) (e_perturb ev) p nm)) eqn:Eg.
      + destruct (name_reserved (f_resv frA) nm (Some (e_perturb ev))); [discriminate|].
        destruct (put_var (s_vars sA) (e_perturb ev) p nm _) as [t'|] eqn:Ep; [|discriminate].
        destruct (put_var_get _ _ _ _ _ _ Ep) as [Pg Ph]. cbn [s_vars] in H.
        pose proof (get_var_cassoc _ _ _ _ _ Pg) as Pc. destruct (cassoc (e_perturb ev) t') as [rt|]; [|contradiction].
        rewrite Pg in H. destruct (vop add64 v (zeros_like v)) as [v'|] eqn:Ev; [|discriminate]. inv H. simpl in *.
        pose proof (X1 _ _ _ _ Pg) as Pg1. pose proof (get_var_cassoc _ _ _ _ _ Pg1) as Pc1.
        destruct (cassoc (e_perturb ev) V1) as [rt1|]; [|contradiction]. rewrite Pg1, Ev.
        eexists. eexists. split; [reflexivity|]. split; [|split; reflexivity].
        repeat split; simpl; try congruence; auto. now apply sub_cons_left.
      + destruct (cassoc (e_perturb ev) (s_vars sA)) as [rt|] eqn:Ec.
        * destruct (get_var (s_vars sA) (e_perturb ev) p nm) as [[old|vs]|] eqn:Eo; try discriminate.
          destruct (vop add64 v old) as [v'|] eqn:Ev; [|discriminate]. inv H.
          pose proof (X1 _ _ _ _ Eo) as Pg1. pose proof (get_var_cassoc _ _ _ _ _ Pg1) as Pc1.
          destruct (cassoc (e_perturb ev) V1) as [rt1|]; [|contradiction]. rewrite Pg1, Ev.
          eexists. eexists. split; [reflexivity|]. split; [|split; reflexivity]. repeat split; simpl; try congruence; auto.
        * inv H. apply andb_false_iff in Eg. destruct Eg as [Em|Eh].
          -- rewrite (X3 _ Em), Ec. eexists. eexists. split; [reflexivity|]. split; [|split; reflexivity]. repeat split; simpl; try congruence; auto.
          -- apply negb_false_iff in Eh. apply has_var_cassoc in Eh. congruence.
    - (* SRng *)
      destruct (make_rng ev p stream sA) as [s1|] eqn:Er; [|discriminate]. inv H.
      destruct (make_rng_immut F ev p stream _ _ (mkSt V1 cB tB) Er) as (sB' & E1 & E2 & E3). rewrite E1.
      eexists. eexists. split; [reflexivity|]. split; [repeat split; simpl; try congruence; auto|]. split; assumption.
    - (* SLet *)
      destruct (eval (f_locals frA) input e) as [v|]; [|discriminate]. inv H.
      eexists. eexists. split; [reflexivity|]. split; [|split; reflexivity]. repeat split; simpl; try congruence; auto.
    - (* SChild *)
      destruct nm as [n|].
      + destruct (name_reserved (f_resv frA) (NExp n) None) eqn:NA; [discriminate|].
        destruct (name_reserved (f_resv frB) (NExp n) None) eqn:NB; [apply FS in NB; congruence|]. inv H.
        eexists. eexists. split; [reflexivity|]. split; [|split; reflexivity]. repeat split; simpl; try congruence; auto. now apply sub_cons_both.
      + match type of H with context[name_reserved ?r ?n None] => destruct (name_reserved r n None) eqn:NA end; [discriminate|].
        match goal with |- context[name_reserved (f_resv frB) ?n None] => destruct (name_reserved (f_resv frB) n None) eqn:NB end;
          [apply FS in NB; congruence|]. inv H.
        eexists. eexists. split; [reflexivity|]. split; [|split; reflexivity]. repeat split; simpl; try congruence; auto. now apply sub_cons_both.
    - (* SCall *)
      destruct (eval (f_locals frA) input e) as [v|]; [|discriminate].
      destruct (lassoc i (f_insts frA)) as [[cls cp]|]; [|discriminate].
      destruct (call1 cls cp v sA) as [[y s1]|] eqn:Ec; [|discriminate]. inv H.
      destruct (call_sim _ _ _ _ _ _ Ec (conj (conj X1 X2) X3) (mkSt V1 cB tB) eq_refl) as (sB' & E1 & E2 & E3). rewrite E1.
      eexists. eexists. split; [reflexivity|]. split; [repeat split; simpl; try congruence; auto|]. split; assumption.
  Qed.

  Lemma steps_sim p input : forall cs frA sA frA' sA' frB sB,
    forallb ro_stmt cs = true -> steps ev call1 p input frA sA cs = Ok (frA', sA') -> future ev (s_vars sA') V1 ->
    frel frA frB -> s_vars sB = V1 ->
    exists frB' sB', steps ev2 call2 p input frB sB cs = Ok (frB', sB') /\ frel frA' frB' /\ s_vars sB' = V1 /\
                     pinits (s_trace sB') = pinits (s_trace sB).
  Proof.
    induction cs as [|c r IH]; intros frA sA frA' sA' frB sB R H Fu FR HV; simpl in H.
    - inv H. exists frB, sB. simpl. auto.
    - simpl in R. apply andb_true_iff in R as [R1 R2].
      destruct (step ev call1 p input frA sA c) as [[frA1 sA1]|] eqn:E; [|discriminate].
      assert (Fu1 : future ev (s_vars sA1) V1) by (eapply future_trans; [eapply steps_future; eauto|exact Fu]).
      destruct (step_sim _ _ _ _ _ _ _ _ _ R1 E Fu1 FR HV) as (frB1 & sB1 & E1 & FR1 & HV1 & T1).
      destruct (IH _ _ _ _ _ _ R2 H Fu FR1 HV1) as (frB' & sB' & E2 & FR2 & HV2 & T2).
      exists frB', sB'. simpl. rewrite E1. split; [exact E2|]. split; [exact FR2|]. split; [exact HV2|congruence].
  Qed.
End Sim.

Theorem run_call_sim ev F V1 : (forall c, in_filter F c = false) -> ro_classes (e_classes ev) = true ->
  forall fuel cls p v sA y sA', run_call fuel ev cls p v sA = Ok (y, sA') -> future ev (s_vars sA') V1 ->
  forall sB, s_vars sB = V1 ->
  exists sB', run_call fuel (immut F ev) cls p v sB = Ok (y, sB') /\ s_vars sB' = V1 /\ pinits (s_trace sB') = pinits (s_trace sB).
Proof.
  intros HF R. induction fuel as [|f IH]; intros cls p v sA y sA' H Fu sB HV; [discriminate|]. simpl in H. simpl.
  destruct (lassoc cls (e_classes ev)) as [[body ret]|] eqn:El; [|discriminate].
  destruct (steps ev (run_call f ev) p v frame0 sA body) as [[frA s1]|] eqn:E; [|discriminate].
  destruct (eval (f_locals frA) v ret) as [y0|] eqn:Ee; [|discriminate]. injection H as Hy Hs. subst y0 s1.
  assert (FR0 : frel frame0 frame0) by (repeat split; auto; intros ? ? X; exact X).
  destruct (steps_sim ev F HF V1 (run_call f ev) (run_call f (immut F ev))
              (run_call_ext ev R f) (run_call_frame ev f) IH p v body frame0 sA frA sA' frame0 sB
              (ro_lookup _ _ _ _ R El) E Fu FR0 HV) as (frB & sB' & E1 & (FL & _) & HV' & T).
  rewrite E1, <- FL, Ee. exists sB'. auto.
Qed.

(* apply(init's variables, same input), nothing mutable: same output, nothing initialised, the variables unchanged *)
Theorem apply_reproduces_init ev F top vars x y s1 :
  (forall c, in_filter F c = false) -> ro_classes (e_classes ev) = true ->
  apply_m ev top vars x = Ok (y, s1) ->
  exists s2, apply_m (immut F ev) top (s_vars s1) x = Ok (y, s2) /\ s_vars s2 = s_vars s1 /\ pinits (s_trace s2) = [].
Proof.
  intros HF R H. unfold apply_m in *.
  destruct (run_call_sim ev F (s_vars s1) HF R _ _ _ _ _ _ _ H (future_refl _ _) (mkSt (s_vars s1) [] []) eq_refl) as (s2 & E & HV & T).
  exists s2. auto.
Qed.

(* every parameter and variable the second run declares is found: a missing entry would have raised *)
Corollary apply_after_init_never_fails_lookup ev F top vars x y s1 :
  (forall c, in_filter F c = false) -> ro_classes (e_classes ev) = true ->
  apply_m ev top vars x = Ok (y, s1) ->
  forall e, apply_m (immut F ev) top (s_vars s1) x <> Err e.
Proof. intros HF R H e. destruct (apply_reproduces_init ev F top vars x y s1 HF R H) as (s2 & E & _). congruence. Qed.
