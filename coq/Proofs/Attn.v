From Coq Require Import QArith Qpower Qfield Lqa List ZArith Bool Lia.
Import ListNotations.
From Flaxm Require Import Model.Layers Model.Attn.
Open Scope Q_scope.

Lemma pow2_pos n : 0 < pow2 n.
Proof. unfold pow2. apply Qpower_0_lt. reflexivity. Qed.

Lemma pow2_plus a b : pow2 (a + b) == pow2 a * pow2 b.
Proof. unfold pow2. apply Qpower_plus. intros C. discriminate C. Qed.

Lemma expo_nonneg l : forall m, Forall (fun x => 0 <= x) (expo l m).
Proof.
  unfold expo. induction l as [|a l IH]; intros [|b m]; cbn [combine map]; try constructor; [|apply IH].
  cbn [fst snd]. destruct b; [apply Qlt_le_weak, pow2_pos|apply Qle_refl].
Qed.

Lemma qsum_nonneg l : Forall (fun x => 0 <= x) l -> 0 <= qsum l.
Proof.
  induction 1 as [|x l Hx _ IH]; cbn [qsum fold_right]; [apply Qle_refl|].
  change (fold_right Qplus 0 l) with (qsum l). rewrite <- (Qplus_0_r 0). apply Qplus_le_compat; assumption.
Qed.

Lemma expo_length l m : length l = length m -> length (expo l m) = length l.
Proof. intros H. unfold expo. rewrite map_length, combine_length. lia. Qed.

Lemma expo_nth l : forall m j, (j < length l)%nat -> length l = length m ->
  nth j (expo l m) 0 = if nth j m true then pow2 (nth j l 0%Z) else 0.
Proof.
  unfold expo. induction l as [|a l IH]; intros [|b m] j Hj Hl; cbn [length] in *; try lia.
  destruct j as [|j]; cbn [combine map nth fst snd]; [reflexivity|]. apply IH; lia.
Qed.

(* some allowed position makes the normaliser positive *)
Lemma qsum_expo_pos l : forall m, length l = length m -> (exists j, (j < length l)%nat /\ nth j m true = true) -> 0 < qsum (expo l m).
Proof.
  induction l as [|a l IH]; intros [|b m] Hl [j [Hj Hm]]; cbn [length] in *; try lia.
  unfold expo. cbn [combine map qsum fold_right fst snd]. change (fold_right Qplus 0 (map _ (combine l m))) with (qsum (expo l m)).
  pose proof (qsum_nonneg _ (expo_nonneg l m)) as Hn.
  destruct j as [|j].
  - cbn [nth] in Hm. subst b. pose proof (pow2_pos a). lra.
  - assert (0 < qsum (expo l m)) by (apply IH; [lia|exists j; split; [lia|exact Hm]]).
    destruct b; [pose proof (pow2_pos a)|]; lra.
Qed.

Lemma weights_nth l m j : (j < length l)%nat -> length l = length m ->
  nth j (weights l m) 0 == nth j (expo l m) 0 / qsum (expo l m).
Proof.
  intros Hj Hl. unfold weights. cbv zeta.
  rewrite (nth_indep _ 0 ((fun x => x / qsum (expo l m)) 0)) by (rewrite map_length, expo_length; assumption).
  rewrite (map_nth (fun x => x / qsum (expo l m))). reflexivity.
Qed.

(* a masked position receives weight exactly 0 *)
Theorem masked_weight_zero l m j : (j < length l)%nat -> length l = length m -> nth j m true = false -> nth j (weights l m) 0 == 0.
Proof.
  intros Hj Hl Hm. rewrite weights_nth by assumption. rewrite expo_nth by assumption. rewrite Hm. unfold Qdiv. ring.
Qed.

Lemma qsum_div l s : qsum (map (fun x => x / s) l) == qsum l / s.
Proof.
  induction l as [|x l IH]; cbn [map qsum fold_right]; [unfold Qdiv; ring|].
  change (fold_right Qplus 0 (map (fun x => x / s) l)) with (qsum (map (fun x => x / s) l)). rewrite IH.
  change (fold_right Qplus 0 l) with (qsum l). unfold Qdiv. ring.
Qed.

(* the weights of a query that may see at least one key sum to one *)
Theorem weights_sum_one l m : length l = length m -> (exists j, (j < length l)%nat /\ nth j m true = true) -> qsum (weights l m) == 1.
Proof.
  intros Hl He. unfold weights. cbv zeta. rewrite qsum_div. pose proof (qsum_expo_pos l m Hl He) as Hp. field. lra.
Qed.

(* over the allowed positions the weights are proportional to exp(logit): the softmax *)
Theorem weights_proportional l m i j : (i < length l)%nat -> (j < length l)%nat -> length l = length m ->
  nth i m true = true -> nth j m true = true ->
  nth i (weights l m) 0 * pow2 (nth j l 0%Z) == nth j (weights l m) 0 * pow2 (nth i l 0%Z).
Proof.
  intros Hi Hj Hl Mi Mj. rewrite !weights_nth by assumption. rewrite !expo_nth by assumption. rewrite Mi, Mj.
  assert (Hp : 0 < qsum (expo l m)) by (apply qsum_expo_pos; [exact Hl|exists i; split; assumption]).
  field. lra.
Qed.

(* adding a constant to every logit (the maximum that softmax subtracts, a bias shared by all keys) changes nothing *)
Lemma expo_shift c l : forall m, Forall2 Qeq (expo (map (Z.add c) l) m) (map (Qmult (pow2 c)) (expo l m)).
Proof.
  unfold expo. induction l as [|a l IH]; intros [|b m]; cbn [map combine]; try constructor; [|apply IH].
  cbn [fst snd]. destruct b; [apply pow2_plus|ring].
Qed.

Lemma qsum_Forall2 a b : Forall2 Qeq a b -> qsum a == qsum b.
Proof.
  induction 1 as [|x y a b Hxy _ IH]; cbn [qsum fold_right]; [reflexivity|].
  change (fold_right Qplus 0 a) with (qsum a). change (fold_right Qplus 0 b) with (qsum b). now rewrite Hxy, IH.
Qed.

Lemma qsum_scale c l : qsum (map (Qmult c) l) == c * qsum l.
Proof.
  induction l as [|x l IH]; cbn [map qsum fold_right]; [ring|].
  change (fold_right Qplus 0 (map (Qmult c) l)) with (qsum (map (Qmult c) l)). rewrite IH. change (fold_right Qplus 0 l) with (qsum l). ring.
Qed.

Theorem weights_shift_invariant c l m j : (j < length l)%nat -> length l = length m -> (exists i, (i < length l)%nat /\ nth i m true = true) ->
  nth j (weights (map (Z.add c) l) m) 0 == nth j (weights l m) 0.
Proof.
  intros Hj Hl He. assert (Hl' : length (map (Z.add c) l) = length m) by now rewrite map_length.
  rewrite !weights_nth by (rewrite ?map_length; assumption). rewrite !expo_nth by (rewrite ?map_length; assumption).
  pose proof (qsum_Forall2 _ _ (expo_shift c l m)) as S. rewrite qsum_scale in S. rewrite S.
  pose proof (qsum_expo_pos l m Hl He) as Hp. pose proof (pow2_pos c) as Hc.
  rewrite (nth_indep _ 0%Z (Z.add c 0%Z)) by (rewrite map_length; exact Hj). rewrite (map_nth (Z.add c)).
  destruct (nth j m true).
  - rewrite pow2_plus. field. split; lra.
  - field. split; lra.
Qed.

(* ---- outputs: keys and values at masked positions cannot influence the output ---- *)
Lemma expo_agree : forall l l' m, length l = length l' -> (forall j, (j < length l)%nat -> nth j m true = true -> nth j l 0%Z = nth j l' 0%Z) ->
  length l = length m -> expo l m = expo l' m.
Proof.
  unfold expo. induction l as [|a l IH]; intros [|a' l'] [|b m] Hl H Hm; cbn [length] in *; try lia; try reflexivity.
  cbn [combine map fst snd]. f_equal.
  - destruct b; [|reflexivity]. f_equal. apply (H 0%nat); [lia|reflexivity].
  - apply IH; [lia| |lia]. intros j Hj Hb. apply (H (S j)); [lia|exact Hb].
Qed.

Theorem weights_ignore_masked_logits l l' m : length l = length l' -> length l = length m ->
  (forall j, (j < length l)%nat -> nth j m true = true -> nth j l 0%Z = nth j l' 0%Z) -> weights l m = weights l' m.
Proof. intros Hl Hm H. unfold weights. now rewrite (expo_agree l l' m Hl H Hm). Qed.

Lemma wsum_agree f : forall w vs vs', length vs = length vs' -> length w = length vs ->
  (forall j, (j < length w)%nat -> nth j w 0 == 0 \/ nth j vs [] = nth j vs' []) -> wsum w vs f == wsum w vs' f.
Proof.
  unfold wsum. induction w as [|x w IH]; intros [|v vs] [|v' vs'] Hl Hw H; cbn [length] in *; try lia; [reflexivity|].
  cbn [combine map qsum fold_right fst snd].
  change (fold_right Qplus 0 (map (fun wv => fst wv * inject_Z (nth f (snd wv) 0%Z)) (combine w vs))) with (wsum w vs f).
  change (fold_right Qplus 0 (map (fun wv => fst wv * inject_Z (nth f (snd wv) 0%Z)) (combine w vs'))) with (wsum w vs' f).
  unfold wsum in IH |- *. rewrite (IH vs vs') by (try lia; intros j Hj; apply (H (S j)); lia).
  destruct (H 0%nat ltac:(lia)) as [E|E]; cbn [nth] in E.
  - rewrite E. ring.
  - subst v'. reflexivity.
Qed.

(* the output of a query depends on the keys, biases and values of the positions its mask allows, and on nothing else *)
Theorem attend_ignores_masked dv q ks ks' bias bias' mask vs vs' :
  length ks = length mask -> length ks' = length mask -> length bias = length mask -> length bias' = length mask ->
  length vs = length mask -> length vs' = length mask ->
  (forall j, (j < length mask)%nat -> nth j mask true = true ->
     nth j ks [] = nth j ks' [] /\ nth j bias 0%Z = nth j bias' 0%Z /\ nth j vs [] = nth j vs' []) ->
  Forall2 Qeq (attend dv q ks bias mask vs) (attend dv q ks' bias' mask vs').
Proof.
  intros L1 L2 L3 L4 L5 L6 H. unfold attend. cbv zeta.
  assert (LL : length (logits_of q ks bias) = length mask) by (unfold logits_of; rewrite map_length, combine_length; lia).
  assert (LL' : length (logits_of q ks' bias') = length mask) by (unfold logits_of; rewrite map_length, combine_length; lia).
  assert (N : forall ks bias j, (j < length mask)%nat -> length ks = length mask -> length bias = length mask ->
              nth j (logits_of q ks bias) 0%Z = (dotz q (nth j ks []) + nth j bias 0%Z)%Z).
  { intros ks0 bias0 j Hj K1 K2. unfold logits_of.
    rewrite (nth_indep _ 0%Z ((fun kb => (dotz q (fst kb) + snd kb)%Z) ([], 0%Z))) by (rewrite map_length, combine_length; lia).
    rewrite (map_nth (fun kb => (dotz q (fst kb) + snd kb)%Z)), combine_nth by lia. reflexivity. }
  assert (W : weights (logits_of q ks bias) mask = weights (logits_of q ks' bias') mask).
  { apply weights_ignore_masked_logits; [lia|lia|]. intros j Hj Hm. rewrite LL in Hj.
    destruct (H j Hj Hm) as [E1 [E2 _]]. rewrite !N by assumption. now rewrite E1, E2. }
  rewrite <- W. set (w := weights (logits_of q ks bias) mask).
  assert (Lw : length w = length mask) by (unfold w, weights; cbv zeta; rewrite map_length, expo_length; lia).
  induction (seq 0 dv) as [|f fs IH]; cbn [map]; constructor; [|exact IH].
  apply wsum_agree; [lia|lia|]. intros j Hj. rewrite Lw in Hj.
  destruct (nth j mask true) eqn:Hm.
  - right. apply (H j Hj Hm).
  - left. unfold w. apply masked_weight_zero; [lia|lia|exact Hm].
Qed.

(* ---- a causal (or padding) mask row is the same as not having the later keys at all ---- *)
Lemma expo_app l1 : forall m1 l2 m2, length l1 = length m1 -> expo (l1 ++ l2) (m1 ++ m2) = expo l1 m1 ++ expo l2 m2.
Proof.
  unfold expo. induction l1 as [|a l1 IH]; intros [|b m1] l2 m2 H; cbn [length] in H; try discriminate; [reflexivity|].
  cbn [app combine map]. f_equal. apply IH. lia.
Qed.

Lemma expo_all_false l : expo l (repeat false (length l)) = repeat 0 (length l).
Proof. unfold expo. induction l as [|a l IH]; cbn [length repeat combine map]; [reflexivity|]. now rewrite IH. Qed.

Lemma qsum_app a b : qsum (a ++ b) == qsum a + qsum b.
Proof.
  induction a as [|x a IH].
  - change (qsum ([] ++ b)) with (qsum b). change (qsum []) with 0. ring.
  - change (qsum ((x :: a) ++ b)) with (x + qsum (a ++ b)). change (qsum (x :: a)) with (x + qsum a). rewrite IH. ring.
Qed.

Lemma qsum_zeros n : qsum (repeat 0 n) == 0.
Proof. induction n as [|n IH]; cbn [repeat qsum fold_right]; [reflexivity|]. change (fold_right Qplus 0 (repeat 0 n)) with (qsum (repeat 0 n)). rewrite IH. ring. Qed.

Definition wterm (f : nat) (wv : Q * list Z) : Q := fst wv * inject_Z (nth f (snd wv) 0%Z).
Lemma wsum_cons f x w v vs : wsum (x :: w) (v :: vs) f == x * inject_Z (nth f v 0%Z) + wsum w vs f.
Proof. unfold wsum. cbn [combine map fst snd]. change (qsum (?a :: ?l)) with (a + qsum l). reflexivity. Qed.
Lemma wsum_nil_l f vs : wsum [] vs f == 0.
Proof. reflexivity. Qed.
Lemma wsum_nil_r f w : wsum w [] f == 0.
Proof. unfold wsum. destruct w; reflexivity. Qed.

Lemma wsum_app f w1 : forall vs1 w2 vs2, length w1 = length vs1 -> wsum (w1 ++ w2) (vs1 ++ vs2) f == wsum w1 vs1 f + wsum w2 vs2 f.
Proof.
  induction w1 as [|x w1 IH]; intros [|v vs1] w2 vs2 H; cbn [length] in H; try discriminate.
  - cbn [app]. rewrite wsum_nil_l. ring.
  - cbn [app]. rewrite !wsum_cons, IH by lia. ring.
Qed.

Lemma wsum_zero_weights f n s : forall vs, wsum (map (fun x => x / s) (repeat 0 n)) vs f == 0.
Proof.
  induction n as [|n IH]; intros vs; cbn [repeat map]; [apply wsum_nil_l|].
  destruct vs as [|v vs]; [apply wsum_nil_r|]. rewrite wsum_cons, IH. unfold Qdiv. ring.
Qed.

Lemma wsum_weights_ext f : forall e vs s s', s == s' -> wsum (map (fun x => x / s) e) vs f == wsum (map (fun x => x / s') e) vs f.
Proof.
  induction e as [|x e IH]; intros vs s s' Hs; [reflexivity|]. destruct vs as [|v vs]; [cbn [map]; now rewrite !wsum_nil_r|].
  cbn [map]. rewrite !wsum_cons, (IH vs s s' Hs). now rewrite Hs.
Qed.

Lemma logits_of_app q ks1 : forall b1 ks2 b2, length ks1 = length b1 ->
  logits_of q (ks1 ++ ks2) (b1 ++ b2) = logits_of q ks1 b1 ++ logits_of q ks2 b2.
Proof.
  unfold logits_of. induction ks1 as [|k ks1 IH]; intros [|b b1] ks2 b2 H; cbn [length] in H; try discriminate; [reflexivity|].
  cbn [app combine map]. f_equal. apply IH. lia.
Qed.

(* attention over the whole sequence, with the keys after position n masked out (row n-1 of the causal mask, or a padding
   mask), is attention over the first n keys alone: what the decode cache holds at that step *)
Theorem masked_suffix_is_absent dv q ks1 ks2 b1 b2 vs1 vs2 :
  length b1 = length ks1 -> length vs1 = length ks1 -> length b2 = length ks2 -> length vs2 = length ks2 ->
  Forall2 Qeq (attend dv q (ks1 ++ ks2) (b1 ++ b2) (repeat true (length ks1) ++ repeat false (length ks2)) (vs1 ++ vs2))
              (attend dv q ks1 b1 (repeat true (length ks1)) vs1).
Proof.
  intros L1 L2 L3 L4. unfold attend. cbv zeta. rewrite logits_of_app by lia.
  set (l1 := logits_of q ks1 b1). set (l2 := logits_of q ks2 b2).
  assert (Ll1 : length l1 = length ks1) by (unfold l1, logits_of; rewrite map_length, combine_length; lia).
  assert (Ll2 : length l2 = length ks2) by (unfold l2, logits_of; rewrite map_length, combine_length; lia).
  unfold weights. cbv zeta. rewrite expo_app by (rewrite repeat_length; lia).
  replace (repeat false (length ks2)) with (repeat false (length l2)) by now rewrite Ll2.
  rewrite expo_all_false. set (e1 := expo l1 (repeat true (length ks1))).
  assert (S : qsum (e1 ++ repeat 0 (length l2)) == qsum e1) by (rewrite qsum_app, qsum_zeros; ring).
  rewrite map_app.
  assert (Le1 : length e1 = length ks1) by (unfold e1; rewrite expo_length; rewrite ?repeat_length; lia).
  induction (seq 0 dv) as [|f fs IH]; cbn [map]; constructor; [|exact IH].
  rewrite wsum_app by (rewrite map_length; lia). rewrite wsum_zero_weights.
  rewrite (wsum_weights_ext f e1 vs1 _ _ S). ring.
Qed.

(* row t of whole-sequence attention under the causal mask is attention over the first t+1 keys and values, which is what
   the decode cache holds at step t (Model/Seq.v decode, theorem decode_equals_causal, is parametric in the attention function) *)
Lemma prefix_attention dv q (k1 k2 : list (list Z * list Z)) :
  Forall2 Qeq (attend dv q (map fst (k1 ++ k2)) (repeat 0%Z (length (k1 ++ k2))) (repeat true (length k1) ++ repeat false (length k2)) (map snd (k1 ++ k2)))
              (att_kv dv q k1).
Proof.
  unfold att_kv. rewrite !map_app, app_length, repeat_app.
  pose proof (masked_suffix_is_absent dv q (map fst k1) (map fst k2) (repeat 0%Z (length k1)) (repeat 0%Z (length k2)) (map snd k1) (map snd k2)) as H.
  rewrite !map_length in H. apply H; rewrite ?repeat_length, ?map_length; reflexivity.
Qed.

Theorem causal_row_is_prefix_attention dv q kvs t : (t < length kvs)%nat ->
  Forall2 Qeq (attend dv q (map fst kvs) (repeat 0%Z (length kvs)) (causal_row t (length kvs)) (map snd kvs))
              (att_kv dv q (firstn (S t) kvs)).
Proof.
  intros Ht. unfold causal_row.
  assert (L1 : length (firstn (S t) kvs) = S t) by (rewrite firstn_length; lia).
  assert (L2 : length (skipn (S t) kvs) = (length kvs - S t)%nat) by (rewrite skipn_length; lia).
  pose proof (prefix_attention dv q (firstn (S t) kvs) (skipn (S t) kvs)) as H.
  rewrite firstn_skipn, L1, L2 in H. exact H.
Qed.
