From Flaxm Require Import Lib.Harness Model.NnxFilters Model.NnxLift Proofs.NnxLift.
