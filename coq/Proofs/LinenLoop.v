(* Proofs about Model/LinenLoop.v (nn.scan's broadcast pre-pass) on top of Proofs/NnxLift.v. *)
From Coq Require Import Lia ZArith.
From Flaxm Require Import Lib.Harness Model.NnxFilters Model.NnxLift Model.LinenLoop Proofs.NnxFilters Proofs.NnxLift.

(* non-interference, packaged: positions that are not tainted at the end get the same value in two runs that agree on
   the untainted inputs *)
Lemma brun_agree b tv tc v1 v2 x1 x2 c1 c2 j :
  agree tv v1 v2 -> (tc = false -> c1 = c2) ->
  nth j (fst (fold_left tstep (b_stmts b) (tv, tc))) false = false ->
  nth j (fst (fst (brun b v1 x1 c1))) [] = nth j (fst (fst (brun b v2 x2 c2))) [].
Proof.
  intros A Hc T. pose proof (bsteps_agree (b_stmts b) tv tc v1 v2 x1 x2 c1 c2 A Hc) as B. unfold brun.
  destruct (fold_left tstep (b_stmts b) (tv, tc)) as [tv' tc'].
  destruct (fold_left (bstep x1) (b_stmts b) (v1, c1)) as [w1 d1]. destruct (fold_left (bstep x2) (b_stmts b) (v2, c2)) as [w2 d2].
  destruct B as [(_ & _ & Ag) _]. cbn [fst] in *. now apply Ag.
Qed.

Lemma combine_nth_gen {A B} (l : list A) (l' : list B) j da db : j < length l -> j < length l' ->
  nth j (combine l l') (da, db) = (nth j l da, nth j l' db).
Proof. revert j l'; induction l as [|a r IH]; intros [|j] [|b r'] H1 H2; simpl in *; try lia; [reflexivity|]. apply IH; lia. Qed.

Lemma nth_combine3 {A B} (specs : list A) (cur : list B) j (da : A) (db : B) : j < length cur -> length cur = length specs ->
  nth j (combine (combine (seq 0 (length cur)) specs) cur) (0, da, db) = (j, nth j specs da, nth j cur db).
Proof.
  intros Hj L. rewrite combine_nth by (rewrite combine_length, seq_length; lia).
  rewrite combine_nth by (rewrite seq_length; lia). rewrite seq_nth by lia. reflexivity.
Qed.

(* the views of two iterations agree on everything that is not loop-varying, i.e. on the broadcast variables *)
Lemma views_agree specs (vals : list vval) i1 i2 : rep_ok specs vals ->
  agree (map loop_varying specs) (map (view i1) vals) (map (view i2) vals).
Proof.
  intros [RL RO]. split; [now rewrite !map_length|]. split; [now rewrite !map_length|].
  intros k Hk. destruct (nth_error specs k) as [s|] eqn:Es.
  - assert (Hlt : k < length vals) by (rewrite RL; apply nth_error_Some; congruence).
    rewrite (nth_indep _ [] (view i1 (Whole []))), (nth_indep (map (view i2) vals) [] (view i2 (Whole []))) by now rewrite map_length.
    rewrite !map_nth. pose proof (RO _ _ Es) as R. destruct (nth k vals (Whole [])) as [t|l]; [reflexivity|].
    rewrite (nth_indep _ false (loop_varying s)) in Hk by (rewrite map_length; apply nth_error_Some; congruence).
    rewrite (map_nth loop_varying), (nth_error_nth _ _ _ Es) in Hk. unfold loop_varying in Hk. destruct s; simpl in *; congruence.
  - apply nth_error_None in Es. rewrite !nth_overflow; [reflexivity| |]; rewrite map_length; lia.
Qed.

(* when nn.scan accepts a body, what the body leaves in a broadcast variable is the same for every iteration, input and
   carry: the pre-pass value is well defined (and a write that does depend on the loop is rejected, never resolved) *)
Theorem prepass_well_defined sa b rev0 vs c0 xs r specs :
  lscan_model sa b rev0 vs c0 xs = Ok r -> all_specs sa vs = Some specs -> rep_ok specs (map v_val vs) ->
  forall j i1 i2 x1 x2 c1 c2, nth_error specs j = Some SNone ->
    nth j (fst (fst (brun b (map (view i1) (map v_val vs)) x1 c1))) [] = nth j (fst (fst (brun b (map (view i2) (map v_val vs)) x2 c2))) [].
Proof.
  unfold lscan_model. intros H Hs R. rewrite Hs in H.
  destruct (existsb (fun st => is_none (fst st) && snd st) (combine specs (fst (fold_left tstep (b_stmts b) (map loop_varying specs, true))))) eqn:Ex; [discriminate|]. clear H.
  intros j i1 i2 x1 x2 c1 c2 Hj.
  apply (brun_agree b (map loop_varying specs) true); [now apply views_agree|discriminate|].
  set (tv' := fst (fold_left tstep (b_stmts b) (map loop_varying specs, true))) in *.
  destruct (nth j tv' false) eqn:Tj; [|reflexivity]. exfalso.
  assert (Hlt : j < length specs) by (apply nth_error_Some; congruence).
  assert (Hl' : j < length tv'). { destruct (Nat.ltb_spec j (length tv')); [assumption|]. rewrite nth_overflow in Tj by lia. discriminate. }
  assert (X : existsb (fun st => is_none (fst st) && snd st) (combine specs tv') = true).
  { apply existsb_exists. exists (SNone, true). split; [|reflexivity].
    assert (E : nth j (combine specs tv') (SNone, false) = (nth j specs SNone, nth j tv' false)) by (apply combine_nth_gen; assumption).
    rewrite Tj, (nth_error_nth _ _ _ Hj) in E. rewrite <- E. apply nth_In. rewrite combine_length. lia. }
  congruence.
Qed.

(* for a body that leaves the broadcast variables alone, nn.scan IS the unrolled Python loop *)
Theorem lscan_is_loop sa b rev0 vs c0 xs specs :
  all_specs sa vs = Some specs -> scan_inv specs (map v_val vs) (map v_val vs) ->
  (forall j, nth_error specs j = Some SNone -> writes b j = false) ->
  lscan_model sa b rev0 vs c0 xs =
    (let order := if rev0 then rev (seq 0 (length xs)) else seq 0 (length xs) in
     let '(cur, c, ys) := loop_ref specs b order xs (map v_val vs, c0) [] in Ok (cur, c, ys_in_order (length xs) ys)).
Proof.
  intros Hs I NW. unfold lscan_model. rewrite Hs.
  set (orig := map v_val vs) in *. destruct I as (L1 & L2 & Inv).
  (* no broadcast variable becomes tainted: it is never written *)
  assert (Taint : forall stmts tv tc, (forall j, nth_error specs j = Some SNone -> existsb (fun s => match s with BAddTo i _ | BScale i _ => Nat.eqb i j | BSetC _ => false end) stmts = false) ->
            forall j, nth_error specs j = Some SNone -> nth j (fst (fold_left tstep stmts (tv, tc))) false = nth j tv false).
  { induction stmts as [|s r IH]; intros tv tc H j Hj; cbn [fold_left]; [reflexivity|].
    assert (Hr : forall j0, nth_error specs j0 = Some SNone -> existsb (fun s0 => match s0 with BAddTo i _ | BScale i _ => Nat.eqb i j0 | BSetC _ => false end) r = false).
    { intros j0 Hj0. specialize (H j0 Hj0). cbn [existsb] in H. now apply orb_false_iff in H as [_ H]. }
    specialize (H j Hj). cbn [existsb] in H. apply orb_false_iff in H as [H1 _].
    destruct s as [i e|i z|e]; cbn [tstep]; rewrite (IH _ _ Hr j Hj); try reflexivity.
    apply nth_upd_ne. intros ->. now rewrite Nat.eqb_refl in H1. }
  assert (NoErr : existsb (fun st => is_none (fst st) && snd st) (combine specs (fst (fold_left tstep (b_stmts b) (map loop_varying specs, true)))) = false).
  { apply not_true_is_false. intros X. apply existsb_exists in X as ([s t] & Hin & Hb). cbn [fst snd] in Hb. apply andb_true_iff in Hb as [Hn Ht].
    destruct s; try discriminate. subst t. apply In_nth with (d := (SNone, false)) in Hin as (j & Hj & E).
    rewrite combine_length in Hj.
    assert (E2 : nth j (combine specs (fst (fold_left tstep (b_stmts b) (map loop_varying specs, true)))) (SNone, false) =
                 (nth j specs SNone, nth j (fst (fold_left tstep (b_stmts b) (map loop_varying specs, true))) false)) by (apply combine_nth_gen; lia).
    rewrite E in E2. inversion E2 as [[Es Et]].
    assert (Hjs : nth_error specs j = Some SNone). { rewrite Es. apply nth_error_nth'. lia. }
    rewrite (Taint (b_stmts b) _ true (fun j0 Hj0 => NW j0 Hj0) j Hjs) in Et.
    rewrite (nth_indep _ false (loop_varying SNone)) in Et by (rewrite map_length; lia).
    rewrite (map_nth loop_varying), <- Es in Et. cbn in Et. discriminate. }
  rewrite NoErr.
  (* the pre-pass leaves the broadcast variables as they were, so the loop starts from the caller's values *)
  set (order := if rev0 then rev (seq 0 (length xs)) else seq 0 (length xs)).
  set (once := match order with i :: _ => fst (fst (brun b (map (view i) orig) (nth i xs 0%Z) c0)) | [] => map (view 0) orig end).
  set (F := fun jsv : nat * spec * vval => match snd (fst jsv) with SNone => Whole (nth (fst (fst jsv)) once []) | _ => snd jsv end).
  assert (Same : map F (combine (combine (seq 0 (length orig)) specs) orig) = orig).
  { apply nth_ext with (d := Whole []) (d' := Whole []); [rewrite map_length, !combine_length, seq_length; lia|].
    intros j Hj. rewrite map_length, !combine_length, seq_length in Hj.
    assert (Hjo : j < length orig) by lia.
    rewrite (nth_indep _ (Whole []) (F (0, SNone, Whole []))) by (rewrite map_length, !combine_length, seq_length; lia).
    rewrite (map_nth F), (nth_combine3 specs orig j SNone (Whole []) Hjo L1). unfold F. cbn [fst snd].
    destruct (nth j specs SNone) eqn:Es; try reflexivity.
    assert (Hjs : nth_error specs j = Some SNone). { rewrite <- Es. apply nth_error_nth'. lia. }
    pose proof (Inv _ _ Hjs) as Iv. cbn in Iv. destruct (nth j orig (Whole [])) as [t|l] eqn:Eo; [|contradiction].
    f_equal. unfold once. destruct order as [|i o].
    + rewrite (nth_indep _ [] (view 0 (Whole []))) by now rewrite map_length. now rewrite map_nth, Eo.
    + rewrite (brun_unwritten b _ _ _ j (NW _ Hjs)).
      rewrite (nth_indep _ [] (view i (Whole []))) by now rewrite map_length. now rewrite map_nth, Eo. }
  rewrite Same. fold order.
  rewrite (scan_is_loop specs b orig order xs (orig, c0) []); [reflexivity| |exact NW].
  cbn [fst]. split; [exact L1|]. split; [exact L2|exact Inv].
Qed.

(* nn.remat_scan(lengths) is the loop over prod(lengths) layers in row-major order, for every nesting *)
Lemma nest_ind' {W} (P : nest W -> Prop) :
  (forall w, P (NLeaf w)) -> (forall kids, Forall P kids -> P (NNode kids)) -> forall t, P t.
Proof.
  intros HL HN. fix IH 1. intros [w|kids]; [apply HL|]. apply HN.
  induction kids as [|k r IHr]; constructor; [apply IH|exact IHr].
Qed.

Theorem nested_scan_is_loop {C W} (layer : C -> W -> C) : forall t c, nscan C W layer c t = fold_left layer (nflatten W t) c.
Proof.
  induction t as [w|kids IH] using nest_ind'; intros c; [reflexivity|].
  cbn [nscan nflatten]. revert c. induction IH as [|k r Hk Hr IHr]; intros c; [reflexivity|].
  cbn [fold_left flat_map]. rewrite fold_left_app, <- Hk. apply IHr.
Qed.
