(* Proofs about Model/NnxLift.v: StateAxes picks the first matching filter; under vmap what is written to shared
   (None) state cannot depend on the index; scan is the Python loop whenever the body leaves broadcast state alone;
   the gradient lists exactly the selected Variables and `deriv` is the derivative. *)
From Coq Require Import Lia ZArith Ring.
From Flaxm Require Import Lib.Harness Model.NnxFilters Model.NnxLift Proofs.NnxFilters.

(* ------------------------------------------------------------------------------------------------ *)
(* 1. StateAxes.map_prefix                                                                           *)
Theorem spec_first_match sa v s : spec_of sa v = Some s ->
  exists i f, nth_error sa i = Some (f, s) /\ denote f (v_leaf v) = true /\
    forall j g s', j < i -> nth_error sa j = Some (g, s') -> denote g (v_leaf v) = false.
Proof.
  unfold spec_of. intros H. set (i := first_idx (map fst sa) (v_leaf v)) in *.
  assert (Hi : i < length (map fst sa)). { rewrite map_length, <- (map_length snd). apply nth_error_Some. congruence. }
  destruct (first_idx_spec (map fst sa) (v_leaf v) i eq_refl Hi) as [(f & Hf & Hd) Hb].
  exists i, f. split; [|split; [exact Hd|]].
  - rewrite nth_error_map in H, Hf. destruct (nth_error sa i) as [[f0 s0]|]; [|discriminate]. simpl in *. congruence.
  - intros j g s' Hj Hn. apply (Hb j g Hj). rewrite nth_error_map, Hn. reflexivity.
Qed.

(* ------------------------------------------------------------------------------------------------ *)
(* 2. vmap: non-interference of the batchedness analysis                                             *)
Lemma nth_upd_eq {A} (l : list A) i f d : i < length l -> nth i (upd i f l) d = f (nth i l d).
Proof. revert i; induction l as [|a r IH]; intros [|i] H; simpl in *; try lia; [reflexivity|]. apply IH. lia. Qed.
Lemma nth_upd_ne {A} (l : list A) i j f d : i <> j -> nth j (upd i f l) d = nth j l d.
Proof. revert i j; induction l as [|a r IH]; intros [|i] [|j] H; simpl; try reflexivity; try congruence. apply IH. congruence. Qed.
Lemma upd_length {A} (l : list A) i f : length (upd i f l) = length l.
Proof. revert i; induction l as [|a r IH]; intros [|i]; simpl; auto. Qed.
Lemma nth_upd_oob {A} (l : list A) i f : length l <= i -> upd i f l = l.
Proof. revert i; induction l as [|a r IH]; intros [|i] H; simpl in *; try reflexivity; try lia. f_equal. apply IH. lia. Qed.

(* two runs agree on the positions that are not batched *)
Definition agree (tv : list bool) (v1 v2 : list (list Z)) : Prop :=
  length v1 = length tv /\ length v2 = length tv /\ forall j, nth j tv false = false -> nth j v1 [] = nth j v2 [].

Lemma beval_agree tv tc v1 v2 x1 x2 c1 c2 e :
  agree tv v1 v2 -> (tc = false -> c1 = c2) -> btaint tv tc e = false -> beval v1 x1 c1 e = beval v2 x2 c2 e.
Proof.
  intros (_ & _ & A) Hc. induction e as [z| | |i|a IHa b IHb|a IHa b IHb]; cbn [btaint beval]; intros T; try reflexivity; try discriminate.
  - now apply Hc.
  - now rewrite (A _ T).
  - apply orb_false_iff in T as [Ta Tb]. now rewrite IHa, IHb.
  - apply orb_false_iff in T as [Ta Tb]. now rewrite IHa, IHb.
Qed.

Lemma bstep_agree tv tc v1 v2 x1 x2 c1 c2 s :
  agree tv v1 v2 -> (tc = false -> c1 = c2) ->
  let '(tv', tc') := tstep (tv, tc) s in
  let '(w1, d1) := bstep x1 (v1, c1) s in
  let '(w2, d2) := bstep x2 (v2, c2) s in
  agree tv' w1 w2 /\ (tc' = false -> d1 = d2).
Proof.
  intros A Hc. pose proof A as (L1 & L2 & Ag). destruct s as [i e|i z|e]; cbn [tstep bstep].
  - split; [|exact Hc]. split; [now rewrite !upd_length|]. split; [now rewrite !upd_length|].
    intros j Hj. destruct (Nat.eq_dec i j) as [<-|Hne].
    + destruct (Nat.ltb_spec i (length tv)) as [Hlt|Hge].
      * rewrite nth_upd_eq in Hj by exact Hlt. apply orb_false_iff in Hj as [Hj1 Hj2].
        rewrite !nth_upd_eq by lia. rewrite (Ag _ Hj1), (beval_agree tv tc v1 v2 x1 x2 c1 c2 e A Hc Hj2). reflexivity.
      * rewrite !nth_upd_oob by lia. rewrite nth_upd_oob in Hj by lia. now apply Ag.
    + rewrite nth_upd_ne in Hj by exact Hne. rewrite !nth_upd_ne by exact Hne. now apply Ag.
  - split; [|exact Hc]. split; [now rewrite upd_length|]. split; [now rewrite upd_length|].
    intros j Hj. destruct (Nat.eq_dec i j) as [<-|Hne].
    + destruct (Nat.ltb_spec i (length tv)) as [Hlt|Hge].
      * rewrite !nth_upd_eq by lia. now rewrite (Ag _ Hj).
      * rewrite !nth_upd_oob by lia. now apply Ag.
    + rewrite !nth_upd_ne by exact Hne. now apply Ag.
  - split; [exact A|]. intros T. apply (beval_agree tv tc v1 v2 x1 x2 c1 c2 e A Hc T).
Qed.

Lemma bsteps_agree stmts : forall tv tc v1 v2 x1 x2 c1 c2,
  agree tv v1 v2 -> (tc = false -> c1 = c2) ->
  let '(tv', tc') := fold_left tstep stmts (tv, tc) in
  let '(w1, d1) := fold_left (bstep x1) stmts (v1, c1) in
  let '(w2, d2) := fold_left (bstep x2) stmts (v2, c2) in
  agree tv' w1 w2 /\ (tc' = false -> d1 = d2).
Proof.
  induction stmts as [|s r IH]; intros tv tc v1 v2 x1 x2 c1 c2 A Hc; cbn [fold_left]; [auto|].
  pose proof (bstep_agree tv tc v1 v2 x1 x2 c1 c2 s A Hc) as H.
  destruct (tstep (tv, tc) s) as [tv' tc']. destruct (bstep x1 (v1, c1) s) as [w1 d1]. destruct (bstep x2 (v2, c2) s) as [w2 d2].
  destruct H as [A' Hc']. apply IH; assumption.
Qed.

(* the representation: axis groups are stored as slices, everything else whole *)
Definition rep_ok (specs : list spec) (vals : list vval) : Prop :=
  length vals = length specs /\
  forall j s, nth_error specs j = Some s -> match nth j vals (Whole []) with Whole _ => is_axis s = false | Slices _ => is_axis s = true end.

(* if vmap_model accepts a body, then whatever it leaves in a None-group Variable is the same for every index:
   the "shared" state really is shared, and taking the value from index 0 loses nothing *)
Theorem vmap_none_index_independent sa b vs xs out ys specs :
  vmap_model sa b vs xs = Ok (out, ys) -> all_specs sa vs = Some specs -> rep_ok specs (map v_val vs) ->
  forall j i1 i2, nth_error specs j = Some SNone ->
    nth j (fst (fst (brun b (map (fun v => view i1 (v_val v)) vs) (nth i1 xs 0%Z) 0%Z))) [] =
    nth j (fst (fst (brun b (map (fun v => view i2 (v_val v)) vs) (nth i2 xs 0%Z) 0%Z))) [].
Proof.
  unfold vmap_model. intros H Hs [RL RO]. rewrite Hs in H.
  destruct (existsb (fun fs => is_carry (snd fs)) sa); [discriminate|].
  set (tvf := fst (fold_left tstep (b_stmts b) (map is_axis specs, false))) in *.
  destruct (existsb (fun st => is_none (fst st) && snd st) (combine specs tvf)) eqn:Ex; [discriminate|]. clear H.
  intros j i1 i2 Hj.
  set (v1 := map (fun v => view i1 (v_val v)) vs). set (v2 := map (fun v => view i2 (v_val v)) vs).
  assert (LS : length vs = length specs) by (now rewrite map_length in RL).
  assert (A : agree (map is_axis specs) v1 v2).
  { unfold v1, v2. split; [now rewrite !map_length|]. split; [now rewrite !map_length|].
    intros k Hk. destruct (nth_error specs k) as [s|] eqn:Es.
    - pose proof (RO _ _ Es) as R. assert (Hlt : k < length vs) by (rewrite LS; apply nth_error_Some; congruence).
      rewrite (nth_indep _ [] (view i1 (v_val (nth k vs (mkVar (mkLeaf [] [] None 0) (Whole [])))))) by now rewrite map_length.
      rewrite (nth_indep (map (fun v => view i2 (v_val v)) vs) [] (view i2 (v_val (nth k vs (mkVar (mkLeaf [] [] None 0) (Whole [])))))) by now rewrite map_length.
      rewrite !(map_nth (fun v => view _ (v_val v))).
      rewrite (nth_indep _ (Whole []) (v_val (nth k vs (mkVar (mkLeaf [] [] None 0) (Whole []))))) in R by now rewrite map_length.
      rewrite (map_nth v_val) in R.
      destruct (v_val (nth k vs _)) as [t|l]; [reflexivity|].
      rewrite (nth_indep _ false (is_axis s)) in Hk by (rewrite map_length; apply nth_error_Some; congruence).
      erewrite (map_nth is_axis), nth_error_nth in Hk by exact Es. congruence.
    - apply nth_error_None in Es. rewrite !nth_overflow; [reflexivity| |]; rewrite map_length; lia. }
  pose proof (bsteps_agree (b_stmts b) (map is_axis specs) false v1 v2 (nth i1 xs 0%Z) (nth i2 xs 0%Z) 0%Z 0%Z A (fun _ => eq_refl)) as B.
  unfold brun. fold v1 v2.
  destruct (fold_left tstep (b_stmts b) (map is_axis specs, false)) as [tv' tc'] eqn:Et.
  destruct (fold_left (bstep (nth i1 xs 0%Z)) (b_stmts b) (v1, 0%Z)) as [w1 d1].
  destruct (fold_left (bstep (nth i2 xs 0%Z)) (b_stmts b) (v2, 0%Z)) as [w2 d2].
  destruct B as [(L1 & L2 & Ag) _]. cbn [fst]. apply Ag.
  (* position j is not batched at the end, otherwise the E_BATCHED check would have fired *)
  unfold tvf in Ex. cbn [fst] in Ex.
  destruct (nth j tv' false) eqn:Tj; [|reflexivity]. exfalso.
  assert (Hlt : j < length specs) by (apply nth_error_Some; congruence).
  assert (X : existsb (fun st => is_none (fst st) && snd st) (combine specs tv') = true).
  { apply existsb_exists. exists (SNone, true). split; [|reflexivity].
    assert (Hl' : j < length tv'). { destruct (Nat.ltb_spec j (length tv')); [assumption|]. rewrite nth_overflow in Tj by lia. discriminate. }
    rewrite <- Tj. replace SNone with (nth j specs SNone) by (now apply nth_error_nth).
    rewrite <- combine_nth' || idtac.
    assert (E : nth j (combine specs tv') (SNone, false) = (nth j specs SNone, nth j tv' false)).
    { clear - Hlt Hl'. revert j tv' Hlt Hl'. induction specs as [|s r IH]; intros [|j] [|t tv'] H1 H2; simpl in *; try lia; [reflexivity|]. apply IH; lia. }
    rewrite <- E. apply nth_In. clear - Hlt Hl'. revert j tv' Hlt Hl'. induction specs as [|s r IH]; intros j [|t tv'] H1 H2; simpl in *; try lia.
    destruct j; [lia|]. specialize (IH j tv'). lia. }
  congruence.
Qed.

(* ------------------------------------------------------------------------------------------------ *)
(* 3. scan is the Python loop when the body leaves broadcast state alone                              *)
Lemma bstep_unwritten x st s j : match s with BAddTo i _ | BScale i _ => i <> j | BSetC _ => True end ->
  nth j (fst (bstep x st s)) [] = nth j (fst st) [].
Proof. destruct st as [vals c]. destruct s as [i e|i z|e]; cbn [bstep fst]; intros H; try reflexivity; now apply nth_upd_ne. Qed.

Lemma brun_unwritten b vals x c j : writes b j = false -> nth j (fst (fst (brun b vals x c))) [] = nth j vals [].
Proof.
  unfold brun, writes. intros W.
  assert (G : forall stmts st, existsb (fun s => match s with BAddTo i _ | BScale i _ => Nat.eqb i j | BSetC _ => false end) stmts = false ->
              nth j (fst (fold_left (bstep x) stmts st)) [] = nth j (fst st) []).
  { induction stmts as [|s r IH]; intros st H; cbn [fold_left]; [reflexivity|]. cbn [existsb] in H. apply orb_false_iff in H as [H1 H2].
    rewrite (IH _ H2). apply bstep_unwritten. destruct s as [i e|i z|e]; auto; intros ->; now rewrite Nat.eqb_refl in H1. }
  specialize (G (b_stmts b) (vals, c) W). destruct (fold_left (bstep x) (b_stmts b) (vals, c)) as [vals' c']. exact G.
Qed.

Definition scan_inv (specs : list spec) (orig cur : list vval) : Prop :=
  length cur = length specs /\ length orig = length specs /\
  forall j s, nth_error specs j = Some s ->
    match s, nth j cur (Whole []) with
    | SAxis _, Slices _ => True
    | SCarry, Whole _ => True
    | SNone, Whole t => nth j orig (Whole []) = Whole t
    | _, _ => False
    end.

Lemma in_combine3 {A B} (specs : list A) (cur : list B) j s v n :
  In (j, s, v) (combine (combine (seq n (length cur)) specs) cur) -> length cur = length specs ->
  n <= j /\ nth_error specs (j - n) = Some s /\ nth_error cur (j - n) = Some v.
Proof.
  revert specs n; induction cur as [|c r IH]; intros [|s0 specs] n H L; simpl in *; try tauto; try discriminate.
  destruct H as [H|H].
  - inversion H; subst. rewrite Nat.sub_diag. simpl. auto.
  - destruct (IH specs (S n) H ltac:(lia)) as (Hle & H1 & H2). split; [lia|].
    replace (j - n) with (S (j - S n)) by lia. simpl. auto.
Qed.

Lemma step_same specs b orig i x st :
  scan_inv specs orig (fst st) -> (forall j, nth_error specs j = Some SNone -> writes b j = false) ->
  scan_step specs b orig i x st = loop_step specs b i x st /\ scan_inv specs orig (fst (fst (scan_step specs b orig i x st))).
Proof.
  destruct st as [cur c]. cbn [fst]. intros (L1 & L2 & Inv) NW. unfold scan_step, loop_step.
  pose proof (fun j => brun_unwritten b (map (view i) cur) x c j) as UW.
  destruct (brun b (map (view i) cur) x c) as [[vals' c'] y] eqn:Eb. cbn [fst] in UW.
  assert (Eq : forall jsv, In jsv (combine (combine (seq 0 (length cur)) specs) cur) ->
            (let '(j, s, v) := jsv in match s, v with
               | SAxis _, Slices l => Slices (upd i (fun _ => nth j vals' []) l)
               | SCarry, _ => Whole (nth j vals' [])
               | _, _ => nth j orig v end) =
            (let '(j, s, v) := jsv in match v with
               | Slices l => Slices (upd i (fun _ => nth j vals' []) l)
               | Whole _ => Whole (nth j vals' []) end)).
  { intros [[j s] v] Hin. destruct (in_combine3 _ _ _ _ _ _ Hin L1) as (_ & Hs & Hv). rewrite Nat.sub_0_r in Hs, Hv.
    pose proof (Inv _ _ Hs) as I. rewrite (nth_error_nth _ _ _ Hv) in I.
    destruct s as [k| |], v as [t|l]; try contradiction; try reflexivity.
    (* SNone, Whole t: the body did not write it, so what it left is what it saw, which is the original *)
    rewrite (nth_indep orig (Whole t) (Whole [])) by (rewrite L2; apply nth_error_Some; congruence). rewrite I. f_equal.
    rewrite (UW j (NW _ Hs)).
    assert (Hlt : j < length cur) by (apply nth_error_Some; congruence).
    rewrite (nth_indep _ [] (view i (Whole []))) by now rewrite map_length.
    rewrite (map_nth (view i)), (nth_error_nth _ _ _ Hv). reflexivity. }
  split.
  - f_equal. f_equal. apply map_ext_in. exact Eq.
  - cbn [fst]. split; [|split; [exact L2|]].
    + rewrite map_length, combine_length, combine_length, seq_length. lia.
    + intros j s Hs. assert (Hlt : j < length cur) by (rewrite L1; apply nth_error_Some; congruence).
      destruct (nth_error cur j) as [v|] eqn:Hv; [|apply nth_error_None in Hv; lia].
      pose proof (Inv _ _ Hs) as I. rewrite (nth_error_nth _ _ _ Hv) in I.
      set (merge := fun jsv : nat * spec * vval => let '(j0, s0, v0) := jsv in
                      match s0, v0 with SAxis _, Slices l => Slices (upd i (fun _ => nth j0 vals' []) l) | SCarry, _ => Whole (nth j0 vals' []) | _, _ => nth j0 orig v0 end).
      assert (Hn : nth j (map merge (combine (combine (seq 0 (length cur)) specs) cur)) (Whole []) = merge (j, s, v)).
      { rewrite (nth_indep _ (Whole []) (merge (0, SNone, Whole []))) by (rewrite map_length, !combine_length, seq_length; lia).
        rewrite (map_nth merge). f_equal.
        rewrite combine_nth by (rewrite combine_length, seq_length; lia).
        rewrite combine_nth by (rewrite seq_length; lia).
        rewrite seq_nth by lia. rewrite (nth_error_nth _ _ _ Hs), (nth_error_nth _ _ _ Hv). reflexivity. }
      fold merge. rewrite Hn. unfold merge.
      destruct s as [k| |], v as [t|l]; try contradiction; auto.
      rewrite (nth_indep orig (Whole t) (Whole [])) by (rewrite L2; apply nth_error_Some; congruence). rewrite I. reflexivity.
Qed.

Theorem scan_is_loop specs b orig order xs : forall st ys,
  scan_inv specs orig (fst st) -> (forall j, nth_error specs j = Some SNone -> writes b j = false) ->
  scan_loop specs b orig order xs st ys = loop_ref specs b order xs st ys.
Proof.
  induction order as [|i r IH]; intros st ys I NW; cbn [scan_loop loop_ref]; [reflexivity|].
  destruct (step_same specs b orig i (nth i xs 0%Z) st I NW) as [E I'].
  rewrite <- E. destruct (scan_step specs b orig i (nth i xs 0%Z) st) as [[cur' c'] y]. apply IH; [exact I'|exact NW].
Qed.

(* ------------------------------------------------------------------------------------------------ *)
(* 4. grad                                                                                            *)
(* the gradient lists exactly the Variables the filter selects, in order; nothing else *)
Theorem grad_paths_selected wrt vs vals x loss bumps :
  map fst (g_grads (grad_model wrt vs vals x loss bumps)) = map lpath (filter (denote wrt) vs).
Proof.
  unfold grad_model. cbn [g_grads]. rewrite map_map. cbn [fst].
  assert (G : forall n, map (fun iv : nat * leaf => lpath (snd iv)) (filter (fun iv => denote wrt (snd iv)) (combine (seq n (length vs)) vs)) = map lpath (filter (denote wrt) vs)).
  { induction vs as [|v r IH]; intros n; simpl; [reflexivity|]. destruct (denote wrt v); simpl; now rewrite IH. }
  apply G.
Qed.

(* deriv is the derivative: moving Variable i by h changes the polynomial by h * deriv + O(h^2) *)
Theorem deriv_is_derivative i vals x e h : i < length vals ->
  exists r, geval (upd i (Z.add h) vals) x e = (geval vals x e + h * geval vals x (deriv i e) + h * h * r)%Z.
Proof.
  intros Hi. induction e as [z|j| |a [ra IHa] b [rb IHb]|a [ra IHa] b [rb IHb]]; cbn [geval deriv].
  - exists 0%Z. ring.
  - destruct (Nat.eqb_spec i j) as [<-|Hne]; cbn [geval].
    + rewrite nth_upd_eq by exact Hi. exists 0%Z. ring.
    + rewrite nth_upd_ne by exact Hne. exists 0%Z. ring.
  - exists 0%Z. ring.
  - rewrite IHa, IHb. exists (ra + rb)%Z. ring.
  - rewrite IHa, IHb.
    exists (ra * geval vals x b + rb * geval vals x a + geval vals x (deriv i a) * geval vals x (deriv i b)
            + h * (ra * geval vals x (deriv i b) + rb * geval vals x (deriv i a)) + h * h * ra * rb)%Z. ring.
Qed.
