From Coq Require Import List Arith Bool Lia Permutation.
Import ListNotations.
From Flaxm Require Import Model.NdIndex.

Lemma prod_cons d r : prod (d :: r) = d * prod r.
Proof. reflexivity. Qed.

Lemma in_range_length shape : forall idx, in_range shape idx = true -> length idx = length shape.
Proof.
  induction shape as [|d r IH]; intros [|k ks] H; cbn [in_range] in H; try discriminate; [reflexivity|].
  apply andb_true_iff in H. destruct H as [_ H]. cbn [length]. f_equal. apply IH. exact H.
Qed.

Lemma ravel_lt shape : forall idx, in_range shape idx = true -> ravel shape idx < prod shape.
Proof.
  induction shape as [|d r IH]; intros [|k ks] H; cbn [in_range] in H; try discriminate.
  - cbn. lia.
  - apply andb_true_iff in H. destruct H as [Hk H]. apply Nat.ltb_lt in Hk. specialize (IH ks H).
    cbn [ravel]. rewrite prod_cons. nia.
Qed.

(* unravel is the inverse of ravel on in-range multi-indices ... *)
Theorem unravel_ravel shape : forall idx, in_range shape idx = true -> unravel shape (ravel shape idx) = idx.
Proof.
  induction shape as [|d r IH]; intros [|k ks] H; cbn [in_range] in H; try discriminate; [reflexivity|].
  apply andb_true_iff in H. destruct H as [Hk H]. pose proof (ravel_lt r ks H) as Hlt.
  cbn [ravel unravel]. assert (Hp : prod r <> 0) by lia.
  rewrite Nat.div_add_l by exact Hp. rewrite (Nat.div_small _ _ Hlt), Nat.add_0_r.
  rewrite Nat.add_comm, Nat.mod_add by exact Hp. rewrite (Nat.mod_small _ _ Hlt). f_equal. apply IH. exact H.
Qed.

(* ... and ravel the inverse of unravel on in-range flat indices, which unravel maps to in-range multi-indices *)
Theorem ravel_unravel shape : forall i, i < prod shape -> ravel shape (unravel shape i) = i /\ in_range shape (unravel shape i) = true.
Proof.
  induction shape as [|d r IH]; intros i Hi.
  - cbn in *. split; [lia|reflexivity].
  - rewrite prod_cons in Hi. assert (Hp : prod r <> 0) by (intros E; rewrite E in Hi; lia).
    cbn [unravel ravel in_range]. destruct (IH (i mod prod r)) as [E1 E2]; [apply Nat.mod_upper_bound; exact Hp|].
    rewrite E1, E2. split.
    + pose proof (Nat.div_mod i (prod r) Hp). lia.
    + rewrite andb_true_r. apply Nat.ltb_lt. apply Nat.div_lt_upper_bound; [exact Hp|]. lia.
Qed.

Corollary unravel_injective shape i j : i < prod shape -> j < prod shape -> unravel shape i = unravel shape j -> i = j.
Proof. intros Hi Hj E. destruct (ravel_unravel shape i Hi) as [Ei _], (ravel_unravel shape j Hj) as [Ej _]. congruence. Qed.

(* ---- grouping by a key ---- *)
Section Groups.
  Context {K : Type} (eqb : K -> K -> bool) (eqb_spec : forall a b, eqb a b = true <-> a = b).
  Variable key : nat -> K.

  Lemma existsb_eqb k seen : existsb (eqb k) seen = true <-> In k seen.
  Proof.
    rewrite existsb_exists. split.
    - intros [x [Hin E]]. apply eqb_spec in E. now subst.
    - intros Hin. exists k. split; [exact Hin|]. now apply eqb_spec.
  Qed.

  Lemma keys_seen_spec l : forall seen k, In k (keys_seen eqb key l seen) <-> (exists i, In i l /\ key i = k) /\ ~ In k seen.
  Proof.
    induction l as [|i r IH]; intros seen k; cbn [keys_seen].
    - split; [intros []|intros [[j [[] _]] _]].
    - destruct (existsb (eqb (key i)) seen) eqn:E.
      + apply existsb_eqb in E. rewrite IH. split.
        * intros [[j [Hj Hk]] Hn]. split; [exists j; split; [now right|exact Hk]|exact Hn].
        * intros [[j [[->|Hj] Hk]] Hn]; [subst; contradiction|]. split; [now exists j|exact Hn].
      + assert (Hni : ~ In (key i) seen) by (intros C; apply existsb_eqb in C; congruence).
        cbn [In]. rewrite IH. split.
        * intros [<-|[[j [Hj Hk]] Hn]]; [split; [exists i; split; [now left|reflexivity]|exact Hni]|].
          split; [exists j; split; [now right|exact Hk]|]. intros C. apply Hn. now right.
        * intros [[j [[->|Hj] Hk]] Hn].
          -- now left.
          -- destruct (eqb (key i) k) eqn:Ek; [apply eqb_spec in Ek; now left|]. right. split; [now exists j|].
             intros [C|C]; [apply eqb_spec in C; congruence|contradiction].
  Qed.

  Lemma keys_seen_nodup l : forall seen, NoDup (keys_seen eqb key l seen).
  Proof.
    induction l as [|i r IH]; intros seen; cbn [keys_seen]; [constructor|].
    destruct (existsb (eqb (key i)) seen); [apply IH|]. constructor; [|apply IH].
    intros C. apply keys_seen_spec in C. destruct C as [_ C]. apply C. now left.
  Qed.

  (* every number below n is in exactly one group; the members of a group share their key, members of different groups do not *)
  Theorem groups_by_member n i : i < n ->
    exists g, In g (groups_by eqb key n) /\ In i g /\ forall g', In g' (groups_by eqb key n) -> In i g' -> g' = g.
  Proof.
    intros Hi. unfold groups_by. set (ks := keys_seen eqb key (seq 0 n) []).
    assert (Hk : In (key i) ks).
    { apply keys_seen_spec. split; [exists i; split; [apply in_seq; lia|reflexivity]|intros []]. }
    exists (filter (fun j => eqb (key j) (key i)) (seq 0 n)). split; [|split].
    - apply in_map_iff. exists (key i). split; [reflexivity|exact Hk].
    - apply filter_In. split; [apply in_seq; lia|now apply eqb_spec].
    - intros g' Hg' Hin. apply in_map_iff in Hg'. destruct Hg' as [k [<- _]]. apply filter_In in Hin. destruct Hin as [_ E].
      apply eqb_spec in E. now subst.
  Qed.

  Theorem groups_by_same_key n g i j : In g (groups_by eqb key n) -> In i g -> (In j g <-> j < n /\ key j = key i).
  Proof.
    intros Hg Hi. unfold groups_by in Hg. apply in_map_iff in Hg. destruct Hg as [k [<- _]].
    apply filter_In in Hi. destruct Hi as [_ Ei]. apply eqb_spec in Ei. rewrite filter_In, in_seq, eqb_spec. split.
    - intros [H1 H2]. split; [lia|congruence].
    - intros [H1 H2]. split; [lia|congruence].
  Qed.

  Theorem groups_by_nonempty n g : In g (groups_by eqb key n) -> g <> [].
  Proof.
    intros Hg. unfold groups_by in Hg. apply in_map_iff in Hg. destruct Hg as [k [<- Hk]].
    apply keys_seen_spec in Hk. destruct Hk as [[i [Hi Ek]] _]. intros C.
    assert (Hin : In i (filter (fun j => eqb (key j) k) (seq 0 n))) by (apply filter_In; split; [exact Hi|now apply eqb_spec]).
    rewrite C in Hin. destruct Hin.
  Qed.
End Groups.

Lemma list_nat_eqb_spec a b : list_nat_eqb a b = true <-> a = b.
Proof. unfold list_nat_eqb. destruct (list_eq_dec Nat.eq_dec a b); split; intros; congruence. Qed.

(* ---- the keys of the normalisation layers ---- *)
Lemma unravel_length shape : forall i, length (unravel shape i) = length shape.
Proof. induction shape as [|d r IH]; intros i; cbn [unravel length]; [reflexivity|]. now rewrite IH. Qed.

Lemma mask_axes_go red : forall idx idx' s, length idx = length idx' ->
  (map (fun ak => if existsb (Nat.eqb (fst ak)) red then 0 else snd ak) (combine (seq s (length idx)) idx) =
   map (fun ak => if existsb (Nat.eqb (fst ak)) red then 0 else snd ak) (combine (seq s (length idx')) idx')) <->
  (forall a, a < length idx -> ~ In (s + a) red -> nth a idx 0 = nth a idx' 0).
Proof.
  induction idx as [|k ks IH]; intros [|k' ks'] s Hl; cbn [length] in Hl; try discriminate.
  - split; [intros _ a Ha; cbn in Ha; lia|reflexivity].
  - injection Hl as Hl. cbn [length seq combine map fst snd]. split.
    + intros E. injection E as E0 E. intros a Ha Hn. destruct a as [|a].
      * cbn [nth]. rewrite Nat.add_0_r in Hn. destruct (existsb (Nat.eqb s) red) eqn:Ex; [|exact E0].
        exfalso. apply Hn. apply existsb_exists in Ex. destruct Ex as [x [Hx Ex]]. apply Nat.eqb_eq in Ex. now subst.
      * cbn [nth]. apply (proj1 (IH ks' (S s) Hl) E a); [cbn [length] in Ha; lia|]. replace (S s + a) with (s + S a) by lia. exact Hn.
    + intros H. f_equal.
      * destruct (existsb (Nat.eqb s) red) eqn:Ex; [reflexivity|]. apply (H 0); [cbn; lia|]. rewrite Nat.add_0_r. intros C.
        assert (existsb (Nat.eqb s) red = true) by (apply existsb_exists; exists s; split; [exact C|apply Nat.eqb_refl]). congruence.
      * apply (proj2 (IH ks' (S s) Hl)). intros a Ha Hn. apply (H (S a)); [cbn [length]; lia|]. replace (s + S a) with (S s + a) by lia. exact Hn.
Qed.

Lemma mask_axes_eq red idx idx' : length idx = length idx' ->
  (mask_axes red idx = mask_axes red idx' <-> forall a, a < length idx -> ~ In a red -> nth a idx 0 = nth a idx' 0).
Proof. intros Hl. unfold mask_axes. apply (mask_axes_go red idx idx' 0 Hl). Qed.

(* LayerNorm / RMSNorm / InstanceNorm: two elements share their statistics exactly when they agree on every axis that is
   not reduced *)
Theorem reduce_key_same shape red i j :
  reduce_key shape red i = reduce_key shape red j <->
  forall a, a < length shape -> ~ In a red -> nth a (unravel shape i) 0 = nth a (unravel shape j) 0.
Proof.
  unfold reduce_key. rewrite mask_axes_eq by now rewrite !unravel_length. rewrite unravel_length. reflexivity.
Qed.

Lemma prod_app s t : prod (s ++ t) = prod s * prod t.
Proof. induction s as [|d r IH]; cbn [app]; [cbn; lia|]. rewrite !prod_cons, IH. lia. Qed.

(* reshaping trailing axes does not move the leading coordinates: the multi-index of the concatenated shape is the
   multi-index of the quotient followed by the multi-index of the remainder *)
Theorem unravel_app s : forall t i, i < prod (s ++ t) -> unravel (s ++ t) i = unravel s (i / prod t) ++ unravel t (i mod prod t).
Proof.
  induction s as [|d r IH]; intros t i Hi; cbn [app unravel].
  - cbn [app] in Hi. now rewrite Nat.mod_small.
  - cbn [app] in Hi. rewrite prod_cons, prod_app in Hi.
    assert (Hr : prod r <> 0) by (intros E; rewrite E in Hi; lia).
    assert (Ht : prod t <> 0) by (intros E; rewrite E in Hi; lia).
    rewrite IH by (rewrite prod_app; apply Nat.mod_upper_bound; lia). rewrite prod_app. f_equal.
    + rewrite (Nat.mul_comm (prod r)). now rewrite Nat.div_div.
    + assert (E1 : (i mod (prod r * prod t)) / prod t = (i / prod t) mod prod r).
      { rewrite (Nat.mul_comm (prod r)), Nat.mod_mul_r by assumption.
        rewrite (Nat.mul_comm (prod t)), Nat.div_add by exact Ht. rewrite Nat.div_small by (apply Nat.mod_upper_bound; exact Ht). reflexivity. }
      assert (E2 : (i mod (prod r * prod t)) mod prod t = i mod prod t).
      { rewrite (Nat.mul_comm (prod r)), Nat.mod_mul_r by assumption.
        rewrite (Nat.mul_comm (prod t)), Nat.mod_add by exact Ht. now rewrite Nat.mod_mod. }
      now rewrite E1, E2.
Qed.

Lemma removelast_snoc {A} (l : list A) x : removelast (l ++ [x]) = l.
Proof. apply removelast_last. Qed.
Lemma last_snoc {A} (l : list A) x d : last (l ++ [x]) d = x.
Proof. apply last_last. Qed.

(* the channel of a flat index is its remainder modulo the feature size *)
Theorem channel_is_mod s c i : i < prod (s ++ [c]) -> last (unravel (s ++ [c]) i) 0 = i mod c.
Proof.
  intros Hi. rewrite unravel_app by exact Hi. cbn [unravel prod fold_right]. rewrite Nat.mul_1_r, Nat.div_1_r.
  apply last_last.
Qed.

(* GroupNorm over (..., C) with G groups of C/G channels: two elements share their statistics exactly when they are in the
   same batch row and their channels fall in the same block of C/G consecutive channels *)
Theorem group_key_same s c g gs i j : s <> [] -> c = g * gs -> g <> 0 -> gs <> 0 -> i < prod (s ++ [c]) -> j < prod (s ++ [c]) ->
  (group_key (s ++ [c]) g i = group_key (s ++ [c]) g j <->
   nth 0 (unravel (s ++ [c]) i) 0 = nth 0 (unravel (s ++ [c]) j) 0 /\ (i mod c) / gs = (j mod c) / gs).
Proof.
  intros Hs Hc Hg Hgs Hi Hj. unfold group_key, group_shape. rewrite removelast_snoc, last_snoc.
  assert (Egs : c / g = gs) by (subst c; rewrite Nat.mul_comm; apply Nat.div_mul; exact Hg). rewrite Egs.
  set (sh := s ++ [g; gs]). assert (Hl : length sh = length s + 2) by (unfold sh; rewrite app_length; reflexivity).
  rewrite mask_axes_eq by now rewrite !unravel_length. rewrite unravel_length, Hl.
  replace (length s + 2 - 2) with (length s) by lia.
  assert (Hp : prod [g; gs] = c) by (cbn; subst c; lia). assert (Hp' : prod [c] = c) by (cbn; lia).
  assert (Hc0 : c <> 0) by (subst c; nia).
  assert (U : forall k, k < prod (s ++ [c]) -> unravel sh k = unravel s (k / c) ++ [(k mod c) / gs; (k mod c) mod gs]).
  { intros k Hk. unfold sh. rewrite unravel_app by (rewrite prod_app, Hp; rewrite prod_app, Hp' in Hk; exact Hk). rewrite Hp. cbn [unravel prod fold_right].
    rewrite !Nat.mul_1_r, Nat.div_1_r. reflexivity. }
  assert (V : forall k, k < prod (s ++ [c]) -> unravel (s ++ [c]) k = unravel s (k / c) ++ [k mod c]).
  { intros k Hk. rewrite unravel_app by exact Hk. rewrite Hp'. cbn [unravel prod fold_right]. now rewrite Nat.div_1_r. }
  assert (Hls : 0 < length s) by (destruct s; [contradiction|cbn; lia]).
  assert (N0 : forall k, k < prod (s ++ [c]) -> nth 0 (unravel sh k) 0 = nth 0 (unravel (s ++ [c]) k) 0).
  { intros k Hk. rewrite (U k Hk), (V k Hk), !app_nth1 by (rewrite unravel_length; exact Hls). reflexivity. }
  assert (NG : forall k, k < prod (s ++ [c]) -> nth (length s) (unravel sh k) 0 = (k mod c) / gs).
  { intros k Hk. rewrite (U k Hk), app_nth2 by (rewrite unravel_length; lia). rewrite unravel_length, Nat.sub_diag. reflexivity. }
  split.
  - intros H. split.
    + rewrite <- (N0 i Hi), <- (N0 j Hj). apply H; [lia|]. rewrite filter_In. intros [_ C]. cbn in C. discriminate.
    + rewrite <- (NG i Hi), <- (NG j Hj). apply H; [lia|]. rewrite filter_In. intros [_ C]. rewrite Nat.eqb_refl in C. cbn in C. rewrite andb_false_r in C. discriminate.
  - intros [H0 HG] a Ha Hn. destruct (Nat.eq_dec a 0) as [->|Ha0]; [rewrite (N0 i Hi), (N0 j Hj); exact H0|].
    destruct (Nat.eq_dec a (length s)) as [->|Has]; [rewrite (NG i Hi), (NG j Hj); exact HG|].
    exfalso. apply Hn. rewrite filter_In. split; [apply in_seq; lia|].
    apply andb_true_iff. split; apply negb_true_iff; apply Nat.eqb_neq; assumption.
Qed.

(* ---- nsort: the sorted form depends only on the multiset of axes ---- *)
Lemma ninsert_comm x y l : ninsert x (ninsert y l) = ninsert y (ninsert x l).
Proof.
  induction l as [|z l IH]; cbn [ninsert].
  - destruct (Nat.leb_spec x y), (Nat.leb_spec y x); try reflexivity; try lia. assert (x = y) by lia. now subst.
  - destruct (Nat.leb_spec y z), (Nat.leb_spec x z); cbn [ninsert].
    + destruct (Nat.leb_spec x y), (Nat.leb_spec y x); try lia.
      * assert (x = y) by lia. now subst.
      * destruct (Nat.leb_spec y z); [reflexivity|lia].
      * destruct (Nat.leb_spec x z); [reflexivity|lia].
    + destruct (Nat.leb_spec x y); [lia|]. destruct (Nat.leb_spec y z); [|lia]. destruct (Nat.leb_spec x z); [lia|]. reflexivity.
    + destruct (Nat.leb_spec y x); [lia|]. destruct (Nat.leb_spec x z); [|lia]. destruct (Nat.leb_spec y z); [lia|]. reflexivity.
    + destruct (Nat.leb_spec x z); [lia|]. destruct (Nat.leb_spec y z); [lia|]. now rewrite IH.
Qed.

Theorem nsort_perm_eq l l' : Permutation l l' -> nsort l = nsort l'.
Proof.
  induction 1 as [|x l l' _ IH|x y l|l l' l'' _ IH1 _ IH2]; cbn [nsort fold_right].
  - reflexivity.
  - change (fold_right ninsert [] l) with (nsort l). change (fold_right ninsert [] l') with (nsort l'). now rewrite IH.
  - apply ninsert_comm.
  - now rewrite IH1.
Qed.

Lemma ninsert_perm x l : Permutation (ninsert x l) (x :: l).
Proof.
  induction l as [|y l IH]; cbn [ninsert]; [reflexivity|]. destruct (Nat.leb x y); [reflexivity|].
  rewrite IH. apply perm_swap.
Qed.
Lemma nsort_perm l : Permutation (nsort l) l.
Proof. induction l as [|x l IH]; cbn [nsort fold_right]; [reflexivity|]. rewrite ninsert_perm. now constructor. Qed.
