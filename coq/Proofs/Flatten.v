From Coq Require Import Lia.
From Flaxm Require Import Lib.Harness Model.Flatten.

Lemma key_eqb_eq a b : key_eqb a b = true <-> a = b.
Proof. apply list_beq_spec. intros x y. apply N.eqb_eq. Qed.
Lemma key_eqb_refl a : key_eqb a a = true.
Proof. now apply key_eqb_eq. Qed.
Lemma key_eqb_neq a b : key_eqb a b = false <-> a <> b.
Proof. split; intros H. - intros E. apply key_eqb_eq in E. congruence. - destruct (key_eqb a b) eqn:E; auto. apply key_eqb_eq in E. contradiction. Qed.
Lemma path_eqb_eq a b : path_eqb a b = true <-> a = b.
Proof. apply list_beq_spec. apply key_eqb_eq. Qed.

Lemma tree_ind' (P : tree -> Prop) :
  (forall a, P (Leaf a)) -> (forall kids, Forall (fun kt => P (snd kt)) kids -> P (Node kids)) -> forall t, P t.
Proof.
  intros HL HN. fix IH 1. intros [a|kids]; [apply HL|]. apply HN.
  induction kids as [|[k t] r IHr]; constructor; [apply IH | exact IHr].
Qed.

(* tmap that stops at dicts declared leaves *)
Fixpoint tmapil (il : path -> tree -> bool) (g : path -> N -> N) (t : tree) : tree :=
  match t with
  | Leaf a => Leaf (g [] a)
  | Node kids => if il [] t then t else
      Node (map (fun kt => (fst kt, tmapil (fun p => il (fst kt :: p)) (fun p => g (fst kt :: p)) (snd kt))) kids)
  end.

Lemma tmapil_id : forall t il, tmapil il idg t = t.
Proof.
  induction t as [a|kids IH] using tree_ind'; intros il; simpl; [reflexivity|].
  destruct (il [] (Node kids)); [reflexivity|]. f_equal.
  induction kids as [|[k t] r IHr]; simpl; [reflexivity|]. inversion IH; subst. f_equal.
  - simpl. f_equal. apply (H1 (fun p => il (k :: p))).
  - apply IHr. assumption.
Qed.

Lemma tmapil_noleaf : forall t g, tmapil no_leaf g t = tmap g t.
Proof.
  induction t as [a|kids IH] using tree_ind'; intros g; simpl; [reflexivity|]. f_equal.
  induction kids as [|[k t] r IHr]; simpl; [reflexivity|]. inversion IH; subst. f_equal.
  - simpl. f_equal. apply H1.
  - apply IHr. assumption.
Qed.

Definition notin (k : key) (kids : list (key * tree)) : Prop := existsb (key_eqb k) (map fst kids) = false.

Lemma assoc_notin k kids : notin k kids -> assoc k kids = None.
Proof.
  unfold notin. induction kids as [|[k' v] r IH]; simpl; [reflexivity|].
  intros H. apply orb_false_iff in H as [H1 H2]. rewrite H1. now apply IH.
Qed.
Lemma assoc_set_notin k v kids : notin k kids -> assoc_set k v kids = kids ++ [(k, v)].
Proof.
  unfold notin. induction kids as [|[k' v'] r IH]; simpl; [reflexivity|].
  intros H. apply orb_false_iff in H as [H1 H2]. rewrite H1. f_equal. now apply IH.
Qed.
Lemma assoc_last k v kids : notin k kids -> assoc k (kids ++ [(k, v)]) = Some v.
Proof.
  unfold notin. induction kids as [|[k' v'] r IH]; simpl.
  - now rewrite key_eqb_refl.
  - intros H. apply orb_false_iff in H as [H1 H2]. rewrite H1. now apply IH.
Qed.
Lemma assoc_set_last k v v0 kids : notin k kids -> assoc_set k v (kids ++ [(k, v0)]) = kids ++ [(k, v)].
Proof.
  unfold notin. induction kids as [|[k' v'] r IH]; simpl.
  - now rewrite key_eqb_refl.
  - intros H. apply orb_false_iff in H as [H1 H2]. rewrite H1. f_equal. now apply IH.
Qed.

Lemma ins_all_app l1 l2 t :
  ins_all (l1 ++ l2) t = match ins_all l1 t with Some t' => ins_all l2 t' | None => None end.
Proof.
  revert t; induction l1 as [|[p v] r IH]; intros t; simpl; [reflexivity|].
  destruct (insert p (val_tree v) t); [apply IH|reflexivity].
Qed.

Definition nonempty_paths (E : list (path * fval)) : Prop := Forall (fun e => fst e <> []) E.

Lemma insert_cons2 k k1 rest v kids :
  insert (k :: k1 :: rest) v (Node kids) =
  match assoc k kids with
  | Some sub => option_map (fun s => Node (assoc_set k s kids)) (insert (k1 :: rest) v sub)
  | None => option_map (fun s => Node (assoc_set k s kids)) (insert (k1 :: rest) v (Node []))
  end.
Proof. reflexivity. Qed.

(* inserting below an existing key k that is the last sibling *)
Lemma ins_under k acc : notin k acc -> forall E s0, nonempty_paths E ->
  ins_all (map (cons_path k) E) (Node (acc ++ [(k, s0)])) =
  option_map (fun s' => Node (acc ++ [(k, s')])) (ins_all E s0).
Proof.
  intros Hk E; induction E as [|[p v] r IH]; intros s0 HE; [reflexivity|]. cbn [map ins_all].
  inversion HE as [|? ? Hp Hr]; subst. simpl in Hp.
  destruct p as [|k1 rest]; [contradiction|].
  unfold cons_path at 1. cbn [fst snd]. rewrite insert_cons2, (assoc_last _ _ _ Hk).
  destruct (insert (k1 :: rest) (val_tree v) s0) as [s1|] eqn:E1; cbn [option_map]; [|reflexivity].
  rewrite (assoc_set_last _ _ _ _ Hk). apply IH. exact Hr.
Qed.

(* the first entry creates the sub-dict *)
Lemma ins_fresh k acc : notin k acc -> forall E, E <> [] -> nonempty_paths E ->
  ins_all (map (cons_path k) E) (Node acc) =
  option_map (fun s' => Node (acc ++ [(k, s')])) (ins_all E (Node [])).
Proof.
  intros Hk [|[p v] r] Hne HE; [contradiction|]. cbn [map ins_all].
  inversion HE as [|? ? Hp Hr]; subst. simpl in Hp.
  destruct p as [|k1 rest]; [contradiction|].
  unfold cons_path at 1. cbn [fst snd]. rewrite insert_cons2, (assoc_notin _ _ Hk).
  destruct (insert (k1 :: rest) (val_tree v) (Node [])) as [s1|] eqn:E1; cbn [option_map]; [|reflexivity].
  rewrite (assoc_set_notin _ _ _ Hk). apply ins_under; assumption.
Qed.

Lemma ins_single k acc v : notin k acc ->
  ins_all (map (cons_path k) [([], v)]) (Node acc) = Some (Node (acc ++ [(k, val_tree v)])).
Proof. intros Hk. simpl. now rewrite (assoc_set_notin _ _ _ Hk). Qed.

Lemma notin_app k a b : notin k (a ++ b) <-> notin k a /\ notin k b.
Proof. unfold notin. rewrite map_app, existsb_app, orb_false_iff. tauto. Qed.

Lemma keys_nodup_cons k r : keys_nodup (k :: r) = true -> existsb (key_eqb k) r = false /\ keys_nodup r = true.
Proof. simpl. intros H. apply andb_true_iff in H as [H1 H2]. split; [now destruct (existsb (key_eqb k) r)|exact H2]. Qed.

(* the entries of a non-root subtree, with keep_empty_nodes = True *)
Definition sub_ok (il : path -> tree -> bool) (g : path -> N -> N) (t : tree) : Prop :=
  forall k acc, notin k acc ->
    ins_all (map (cons_path k) (dfs true il g false t)) (Node acc) = Some (Node (acc ++ [(k, tmapil il g t)])).

Lemma existsb_key_sym k r : existsb (key_eqb k) r = false -> forall k', In k' r -> key_eqb k' k = false.
Proof.
  intros H k' Hin. apply key_eqb_neq. intros ->. 
  assert (existsb (key_eqb k) r = true) by (apply existsb_exists; exists k; split; [exact Hin|apply key_eqb_refl]). congruence.
Qed.

(* inserting the entries of all kids, one kid after the other *)
Lemma kids_ok : forall kids il g,
  Forall (fun kt => forall il g, sub_ok il g (snd kt)) kids ->
  keys_nodup (map fst kids) = true ->
  forall acc, (forall k, In k (map fst kids) -> notin k acc) ->
  ins_all (flat_map (fun kt => map (cons_path (fst kt))
             (dfs true (fun p => il (fst kt :: p)) (fun p => g (fst kt :: p)) false (snd kt))) kids) (Node acc)
  = Some (Node (acc ++ map (fun kt => (fst kt, tmapil (fun p => il (fst kt :: p)) (fun p => g (fst kt :: p)) (snd kt))) kids)).
Proof.
  induction kids as [|[k t] r IH]; intros il g HF Hnd acc Hacc; simpl.
  - now rewrite app_nil_r.
  - inversion HF as [|? ? Hk Hr]; subst. simpl in Hk, Hnd.
    apply keys_nodup_cons in Hnd as [Hkr Hnd].
    rewrite ins_all_app. rewrite (Hk _ _ k acc); [|apply Hacc; simpl; auto].
    rewrite (IH il g Hr Hnd).
    + now rewrite <- app_assoc.
    + intros k' Hin. apply notin_app. split; [apply Hacc; simpl; auto|].
      unfold notin. simpl. rewrite orb_false_r. now apply (existsb_key_sym k (map fst r)).
Qed.

Lemma dfs_sub_shape : forall t il g,
  (exists v, dfs true il g false t = [([], v)]) \/
  (dfs true il g false t <> [] /\ nonempty_paths (dfs true il g false t)).
Proof.
  induction t as [a|kids IH] using tree_ind'; intros il g; simpl; [left; eauto|].
  destruct (il [] (Node kids)); [left; eauto|].
  destruct kids as [|[k t] r]; [left; eauto|]. right. split.
  - simpl. inversion IH as [|? ? Hk Hr]; subst. simpl in Hk.
    destruct (Hk (fun p => il (k :: p)) (fun p => g (k :: p))) as [[v Hv]|[Hne _]].
    + rewrite Hv. simpl. discriminate.
    + destruct (dfs true _ _ false t); [contradiction|simpl; discriminate].
  - unfold nonempty_paths. apply Forall_forall. intros e Hin. apply in_flat_map in Hin as (kt & _ & Hin).
    apply in_map_iff in Hin as (e' & <- & _). simpl. discriminate.
Qed.

Lemma dfs_sub_nonempty t il g : dfs true il g false t <> [].
Proof. destruct (dfs_sub_shape t il g) as [[v Hv]|[H _]]; [rewrite Hv; discriminate|exact H]. Qed.

Definition kid_entries il g (kids : list (key * tree)) :=
  flat_map (fun kt => map (cons_path (fst kt))
     (dfs true (fun p => il (fst kt :: p)) (fun p => g (fst kt :: p)) false (snd kt))) kids.

Lemma kid_entries_shape kids il g : kids <> [] -> kid_entries il g kids <> [] /\ nonempty_paths (kid_entries il g kids).
Proof.
  intros Hne. split.
  - destruct kids as [|[k t] r]; [contradiction|]. unfold kid_entries. simpl.
    pose proof (dfs_sub_nonempty t (fun p => il (k :: p)) (fun p => g (k :: p))) as H.
    destruct (dfs true _ _ false t); [contradiction|simpl; discriminate].
  - unfold nonempty_paths, kid_entries. apply Forall_forall. intros e Hin. apply in_flat_map in Hin as (kt & _ & Hin).
    apply in_map_iff in Hin as (e' & <- & _). simpl. discriminate.
Qed.

Lemma dfs_node_nonempty keep il g root kt0 r :
  il [] (Node (kt0 :: r)) = false ->
  dfs keep il g root (Node (kt0 :: r)) =
  flat_map (fun kt => map (cons_path (fst kt))
     (dfs keep (fun p => il (fst kt :: p)) (fun p => g (fst kt :: p)) false (snd kt))) (kt0 :: r).
Proof. intros H. cbn [dfs]. rewrite H. reflexivity. Qed.

Theorem sub_ok_all : forall t, wf t = true -> forall il g, sub_ok il g t.
Proof.
  induction t as [a|kids IH] using tree_ind'; intros Hwf il g k acc Hk.
  - simpl. now rewrite (assoc_set_notin _ _ _ Hk).
  - destruct (il [] (Node kids)) eqn:Eil.
    + cbn [dfs tmapil]. rewrite Eil. simpl. now rewrite (assoc_set_notin _ _ _ Hk).
    + destruct kids as [|kt0 r] eqn:Ekids.
      * cbn [dfs tmapil]. rewrite Eil. simpl. now rewrite (assoc_set_notin _ _ _ Hk).
      * rewrite (dfs_node_nonempty _ _ _ _ _ _ Eil). cbn [tmapil]. rewrite Eil.
        rewrite <- Ekids in *. simpl in Hwf. apply andb_true_iff in Hwf as [Hnd Hall].
        assert (HF : Forall (fun kt => forall il g, sub_ok il g (snd kt)) kids).
        { apply Forall_forall. intros kt Hin il' g'. rewrite Forall_forall in IH. apply IH; [exact Hin|].
          rewrite forallb_forall in Hall. now apply Hall. }
        pose proof (kids_ok kids il g HF Hnd [] (fun _ _ => eq_refl)) as HK. simpl in HK.
        destruct (kid_entries_shape kids il g) as [Hne Hnp]; [rewrite Ekids; discriminate|].
        unfold kid_entries in Hne, Hnp.
        rewrite (ins_fresh k acc Hk _ Hne Hnp), HK. reflexivity.
Qed.

(* ---- the round trip with keep_empty_nodes=True, any is_leaf, and path_aware_map ---- *)
Theorem unflatten_dfs_keep : forall kids il g,
  wf (Node kids) = true -> il [] (Node kids) = false ->
  unflatten (dfs true il g true (Node kids)) = Some (tmapil il g (Node kids)).
Proof.
  intros kids il g Hwf Hil. unfold unflatten. destruct kids as [|kt0 r] eqn:Ekids.
  - cbn [dfs tmapil]. rewrite Hil. reflexivity.
  - rewrite (dfs_node_nonempty _ _ _ _ _ _ Hil). cbn [tmapil]. rewrite Hil. rewrite <- Ekids in *.
    simpl in Hwf. apply andb_true_iff in Hwf as [Hnd Hall].
    assert (HF : Forall (fun kt => forall il g, sub_ok il g (snd kt)) kids).
    { apply Forall_forall. intros kt Hin il' g'. apply sub_ok_all. rewrite forallb_forall in Hall. now apply Hall. }
    exact (kids_ok kids il g HF Hnd [] (fun _ _ => eq_refl)).
Qed.

Corollary unflatten_flatten_keep : forall kids il,
  wf (Node kids) = true -> il [] (Node kids) = false ->
  unflatten (flatten true il (Node kids)) = Some (Node kids).
Proof. intros kids il Hwf Hil. unfold flatten. rewrite unflatten_dfs_keep by assumption. now rewrite tmapil_id. Qed.

Corollary path_aware_map_spec : forall kids g,
  wf (Node kids) = true -> path_aware_map g (Node kids) = Some (tmap g (Node kids)).
Proof. intros kids g Hwf. unfold path_aware_map. rewrite unflatten_dfs_keep by auto. now rewrite tmapil_noleaf. Qed.

(* the root declared a leaf (F10), or a non-dict root: the flat key is the empty path and unflatten fails *)
Theorem root_leaf_refuted : forall t il, il [] t = true \/ (exists a, t = Leaf a) -> unflatten (flatten true il t) = None.
Proof.
  intros t il [H|[a ->]]; unfold flatten, unflatten; [|reflexivity].
  destruct t as [a|kids]; [reflexivity|]. cbn [dfs]. rewrite H. reflexivity.
Qed.

(* ---------------- without keep_empty_nodes: the round trip prunes leafless sub-dicts ---------------- *)
Fixpoint prunemap (il : path -> tree -> bool) (g : path -> N -> N) (t : tree) : tree :=
  match t with
  | Leaf a => Leaf (g [] a)
  | Node kids =>
      if il [] t then t else
      Node (flat_map (fun kt => if has_leaf (fun p => il (fst kt :: p)) (snd kt)
                                then [(fst kt, prunemap (fun p => il (fst kt :: p)) (fun p => g (fst kt :: p)) (snd kt))] else []) kids)
  end.

Lemma prunemap_id : forall t il, prunemap il idg t = prune il t.
Proof.
  induction t as [a|kids IH] using tree_ind'; intros il; simpl; [reflexivity|].
  destruct (il [] (Node kids)); [reflexivity|]. f_equal.
  induction kids as [|[k t] r IHr]; simpl; [reflexivity|]. inversion IH; subst. simpl in *.
  rewrite IHr by assumption. destruct (has_leaf _ t); [|reflexivity]. simpl. do 2 f_equal. apply (H1 (fun p => il (k :: p))).
Qed.

Definition kid_entries0 il g (kids : list (key * tree)) :=
  flat_map (fun kt => map (cons_path (fst kt))
     (dfs false (fun p => il (fst kt :: p)) (fun p => g (fst kt :: p)) false (snd kt))) kids.

Lemma dfs0_shape : forall t il g,
  (has_leaf il t = false -> dfs false il g false t = []) /\
  (has_leaf il t = true ->
     (exists v, dfs false il g false t = [([], v)]) \/
     (dfs false il g false t <> [] /\ nonempty_paths (dfs false il g false t))).
Proof.
  induction t as [a|kids IH] using tree_ind'; intros il g.
  - split; [discriminate|]. intros _. left. simpl. eauto.
  - cbn [has_leaf dfs]. destruct (il [] (Node kids)) eqn:Eil; cbn [orb].
    + split; [discriminate|]. intros _. left; eauto.
    + destruct kids as [|kt0 r] eqn:Ek; [split; [reflexivity|discriminate]|]. rewrite <- Ek in *. split.
      * intros Hn. clear Ek Eil. induction kids as [|[k t] r' IHr]; [reflexivity|]. simpl in Hn. apply orb_false_iff in Hn as [H1 H2].
        inversion IH as [|? ? Hk Hr]; subst. simpl in Hk. cbn [flat_map fst snd].
        rewrite (proj1 (Hk _ _) H1). simpl. apply IHr; assumption.
      * intros Hy. right. split.
        -- clear Ek Eil. induction kids as [|[k t] r' IHr]; [discriminate|]. simpl in Hy. inversion IH as [|? ? Hk Hr]; subst. simpl in Hk.
           cbn [flat_map fst snd]. destruct (has_leaf (fun p => il (k :: p)) t) eqn:Eh.
           ++ destruct (proj2 (Hk (fun p => il (k :: p)) (fun p => g (k :: p))) Eh) as [[v Hv]|[Hne _]].
              ** rewrite Hv. simpl. discriminate.
              ** destruct (dfs false _ _ false t); [contradiction|simpl; discriminate].
           ++ rewrite (proj1 (Hk _ _) Eh). simpl. apply IHr; assumption.
        -- unfold nonempty_paths. apply Forall_forall. intros e Hin. apply in_flat_map in Hin as (kt & _ & Hin).
           apply in_map_iff in Hin as (e' & <- & _). simpl. discriminate.
Qed.

Definition sub_ok0 (il : path -> tree -> bool) (g : path -> N -> N) (t : tree) : Prop :=
  has_leaf il t = true -> forall k acc, notin k acc ->
    ins_all (map (cons_path k) (dfs false il g false t)) (Node acc) = Some (Node (acc ++ [(k, prunemap il g t)])).

Lemma kids_ok0 : forall kids il g,
  Forall (fun kt => forall il g, sub_ok0 il g (snd kt)) kids ->
  keys_nodup (map fst kids) = true ->
  forall acc, (forall k, In k (map fst kids) -> notin k acc) ->
  ins_all (kid_entries0 il g kids) (Node acc)
  = Some (Node (acc ++ flat_map (fun kt => if has_leaf (fun p => il (fst kt :: p)) (snd kt)
        then [(fst kt, prunemap (fun p => il (fst kt :: p)) (fun p => g (fst kt :: p)) (snd kt))] else []) kids)).
Proof.
  unfold kid_entries0.
  induction kids as [|[k t] r IH]; intros il g HF Hnd acc Hacc; simpl.
  - now rewrite app_nil_r.
  - inversion HF as [|? ? Hk Hr]; subst. simpl in Hk, Hnd.
    apply keys_nodup_cons in Hnd as [Hkr Hnd].
    rewrite ins_all_app. destruct (has_leaf (fun p => il (k :: p)) t) eqn:Eh.
    + rewrite (Hk _ _ Eh k acc); [|apply Hacc; simpl; auto].
      rewrite (IH il g Hr Hnd).
      * now rewrite <- app_assoc.
      * intros k' Hin. apply notin_app. split; [apply Hacc; simpl; auto|].
        unfold notin. simpl. rewrite orb_false_r. now apply (existsb_key_sym k (map fst r)).
    + rewrite (proj1 (dfs0_shape t _ _) Eh). simpl. apply (IH il g Hr Hnd). intros k' Hin. apply Hacc. simpl; auto.
Qed.

Theorem sub_ok0_all : forall t, wf t = true -> forall il g, sub_ok0 il g t.
Proof.
  induction t as [a|kids IH] using tree_ind'; intros Hwf il g Hl k acc Hk.
  - simpl. now rewrite (assoc_set_notin _ _ _ Hk).
  - destruct (il [] (Node kids)) eqn:Eil.
    + cbn [dfs prunemap]. rewrite Eil. simpl. now rewrite (assoc_set_notin _ _ _ Hk).
    + destruct kids as [|kt0 r] eqn:Ekids.
      * cbn [has_leaf] in Hl. rewrite Eil in Hl. discriminate.
      * pose proof (proj2 (dfs0_shape (Node (kt0 :: r)) il g) Hl) as Hsh.
        rewrite (dfs_node_nonempty _ _ _ _ _ _ Eil) in *. cbn [prunemap]. rewrite Eil.
        rewrite <- Ekids in *. simpl in Hwf. apply andb_true_iff in Hwf as [Hnd Hall].
        assert (HF : Forall (fun kt => forall il g, sub_ok0 il g (snd kt)) kids).
        { apply Forall_forall. intros kt Hin il' g'. rewrite Forall_forall in IH. apply IH; [exact Hin|].
          rewrite forallb_forall in Hall. now apply Hall. }
        pose proof (kids_ok0 kids il g HF Hnd [] (fun _ _ => eq_refl)) as HK. simpl in HK. unfold kid_entries0 in HK.
        destruct Hsh as [[v Hv]|[Hne Hnp]].
        -- exfalso. assert (Hin : In ([], v) (flat_map (fun kt => map (cons_path (fst kt))
               (dfs false (fun p => il (fst kt :: p)) (fun p => g (fst kt :: p)) false (snd kt))) kids)) by (rewrite Hv; simpl; auto).
           apply in_flat_map in Hin as (kt & _ & Hin). apply in_map_iff in Hin as (e' & He & _). discriminate.
        -- rewrite (ins_fresh k acc Hk _ Hne Hnp), HK. reflexivity.
Qed.

Theorem unflatten_dfs_prune : forall kids il g,
  wf (Node kids) = true -> il [] (Node kids) = false ->
  unflatten (dfs false il g true (Node kids)) = Some (prunemap il g (Node kids)).
Proof.
  intros kids il g Hwf Hil. unfold unflatten. destruct kids as [|kt0 r] eqn:Ekids.
  - cbn [dfs prunemap]. rewrite Hil. reflexivity.
  - rewrite (dfs_node_nonempty _ _ _ _ _ _ Hil). cbn [prunemap]. rewrite Hil. rewrite <- Ekids in *.
    simpl in Hwf. apply andb_true_iff in Hwf as [Hnd Hall].
    assert (HF : Forall (fun kt => forall il g, sub_ok0 il g (snd kt)) kids).
    { apply Forall_forall. intros kt Hin il' g'. apply sub_ok0_all. rewrite forallb_forall in Hall. now apply Hall. }
    exact (kids_ok0 kids il g HF Hnd [] (fun _ _ => eq_refl)).
Qed.

Corollary unflatten_flatten_prune : forall kids il,
  wf (Node kids) = true -> il [] (Node kids) = false ->
  unflatten (flatten false il (Node kids)) = Some (prune il (Node kids)).
Proof. intros kids il Hwf Hil. unfold flatten. rewrite unflatten_dfs_prune by assumption. now rewrite prunemap_id. Qed.

(* ---------------- separator-joined keys (single-byte separator not occurring in any key) ---------------- *)
Definition key_free (c : N) (k : key) : Prop := ~ In c k.

Lemma split_go_key c k : key_free c k -> forall rest cur,
  split_go [c] (k ++ rest) 0 cur = split_go [c] rest 0 (rev k ++ cur).
Proof.
  induction k as [|x k IH]; intros Hf rest cur; [reflexivity|].
  cbn [app split_go is_prefix]. assert (N.eqb c x = false) as -> by (apply N.eqb_neq; intros ->; apply Hf; simpl; auto).
  cbn [andb]. rewrite IH by (intros H; apply Hf; simpl; auto). simpl. now rewrite <- app_assoc.
Qed.

Lemma split_go_sep c rest cur : split_go [c] (c :: rest) 0 cur = rev cur :: split_go [c] rest 0 [].
Proof. cbn [split_go is_prefix]. rewrite N.eqb_refl. reflexivity. Qed.

Theorem split_join c p : p <> [] -> Forall (key_free c) p -> split [c] (join [c] p) = p.
Proof.
  unfold split. induction p as [|k r IH]; intros Hne HF; [contradiction|].
  inversion HF as [|? ? Hk Hr]; subst. destruct r as [|k2 r'].
  - cbn [join]. rewrite <- (app_nil_r k) at 1. rewrite split_go_key by assumption. simpl. now rewrite app_nil_r, rev_involutive.
  - change (join [c] (k :: k2 :: r')) with (k ++ [c] ++ join [c] (k2 :: r')).
    rewrite split_go_key by assumption. cbn [app]. rewrite split_go_sep, app_nil_r, rev_involutive. f_equal.
    apply IH; [discriminate|assumption].
Qed.

Corollary join_injective c p q : p <> [] -> q <> [] -> Forall (key_free c) p -> Forall (key_free c) q ->
  join [c] p = join [c] q -> p = q.
Proof. intros Hp Hq Fp Fq E. rewrite <- (split_join c p Hp Fp), <- (split_join c q Hq Fq). now rewrite E. Qed.

Fixpoint keys_all (P : key -> Prop) (t : tree) : Prop :=
  match t with
  | Leaf _ => True
  | Node kids => (fix go (l : list (key * tree)) : Prop :=
                    match l with [] => True | (k, s) :: r => P k /\ keys_all P s /\ go r end) kids
  end.

Lemma dfs_paths_keys (P : key -> Prop) : forall t keep il g root, keys_all P t ->
  Forall (fun e => Forall P (fst e)) (dfs keep il g root t).
Proof.
  induction t as [a|kids IH] using tree_ind'; intros keep il g root HK; cbn [dfs].
  - repeat constructor.
  - destruct (il [] (Node kids)); [repeat constructor|].
    destruct kids as [|kt0 r] eqn:Ek; [destruct keep, root; repeat constructor|]. rewrite <- Ek in *. clear Ek.
    apply Forall_forall. intros e Hin. apply in_flat_map in Hin as ([k s] & Hks & Hin).
    apply in_map_iff in Hin as (e' & <- & Hin'). simpl.
    assert (P k /\ keys_all P s) as [Pk Ps].
    { clear IH Hin'. simpl in HK. induction kids as [|[k0 s0] r' IHr]; [contradiction|].
      destruct HK as (A & B & C). destruct Hks as [E|Hks]; [inversion E; subst; auto|apply IHr; auto]. }
    constructor; [exact Pk|]. rewrite Forall_forall in IH. specialize (IH _ Hks). simpl in IH.
    specialize (IH keep (fun p => il (k :: p)) (fun p => g (k :: p)) false Ps). rewrite Forall_forall in IH. exact (IH _ Hin').
Qed.

Lemma dfs_root_nonempty_paths keep il g kids : il [] (Node kids) = false ->
  nonempty_paths (dfs keep il g true (Node kids)).
Proof.
  intros Hil. cbn [dfs]. rewrite Hil. destruct kids as [|kt0 r]; [destruct keep; constructor|].
  apply Forall_forall. intros e Hin. apply in_flat_map in Hin as (kt & _ & Hin).
  apply in_map_iff in Hin as (e' & <- & _). simpl. discriminate.
Qed.

Theorem unflatten_sep_flatten_sep c keep il kids :
  keys_all (key_free c) (Node kids) -> il [] (Node kids) = false ->
  unflatten_sep [c] (flatten_sep [c] keep il (Node kids)) = unflatten (flatten keep il (Node kids)).
Proof.
  intros HK Hil. unfold unflatten_sep, flatten_sep, flatten. f_equal. rewrite map_map.
  pose proof (dfs_paths_keys (key_free c) (Node kids) keep il idg true HK) as HP.
  pose proof (dfs_root_nonempty_paths keep il idg kids Hil) as HN.
  induction (dfs keep il idg true (Node kids)) as [|[p v] r IH]; [reflexivity|].
  inversion HP; inversion HN; subst. simpl in *. rewrite split_join by assumption. f_equal. now apply IH.
Qed.

(* multi-character separators are not injective: F13 *)
Example multichar_sep_refuted :
  let s := 47%N in  (* '/' *)
  split [s; s] (join [s; s] [[97%N; s]; [98%N]]) = [[97%N]; [s; 98%N]].
Proof. vm_compute. reflexivity. Qed.

(* ---------------- flat states ---------------- *)
Lemma path_eqb_refl p : path_eqb p p = true.  Proof. now apply path_eqb_eq. Qed.

Lemma flookup_fset p q v l : flookup p (fset q v l) = if path_eqb p q then Some v else flookup p l.
Proof.
  induction l as [|[r w] l IH]; simpl.
  - reflexivity.
  - destruct (path_eqb q r) eqn:Eqr; simpl.
    + apply path_eqb_eq in Eqr; subst. destruct (path_eqb p r); reflexivity.
    + rewrite IH. destruct (path_eqb p r) eqn:Epr; [|reflexivity].
      apply path_eqb_eq in Epr; subst. destruct (path_eqb r q) eqn:E; [|reflexivity].
      apply path_eqb_eq in E; subst. now rewrite path_eqb_refl in Eqr.
Qed.

(* dict.update: the updating dict wins *)
Theorem flookup_fupdate p e : forall d,
  flookup p (fupdate d e) = match flookup p (rev e) with Some v => Some v | None => flookup p d end.
Proof.
  unfold fupdate. induction e as [|[q v] r IH]; intros d; simpl; [reflexivity|].
  rewrite IH. rewrite flookup_fset.
  assert (L : forall l1 l2, flookup p (l1 ++ l2) = match flookup p l1 with Some x => Some x | None => flookup p l2 end).
  { induction l1 as [|[a b] l1 IH1]; intros l2; simpl; [reflexivity|]. destruct (path_eqb p a); [reflexivity|apply IH1]. }
  rewrite L. simpl. destruct (flookup p (rev r)); [reflexivity|]. destruct (path_eqb p q); reflexivity.
Qed.

(* for a state with distinct paths the "last entry" is the entry *)
Definition paths_nodup (l : flat) : Prop := NoDup (map fst l).
Lemma flookup_rev p l : paths_nodup l -> flookup p (rev l) = flookup p l.
Proof.
  unfold paths_nodup.
  assert (L : forall l1 l2, flookup p (l1 ++ l2) = match flookup p l1 with Some x => Some x | None => flookup p l2 end).
  { induction l1 as [|[a b] l1 IH1]; intros l2; simpl; [reflexivity|]. destruct (path_eqb p a); [reflexivity|apply IH1]. }
  induction l as [|[q v] r IH]; intros ND; simpl; [reflexivity|]. inversion ND as [|? ? Hn Hr]; subst.
  rewrite L, IH by assumption. simpl. destruct (path_eqb p q) eqn:E.
  - apply path_eqb_eq in E; subst. destruct (flookup q r) eqn:F; [|reflexivity]. exfalso. apply Hn.
    clear -F. induction r as [|[a b] r IHr]; simpl in *; [discriminate|]. destruct (path_eqb q a) eqn:E; [apply path_eqb_eq in E; auto|right; auto].
  - destruct (flookup p r); reflexivity.
Qed.

(* merge_state: on a path present in several states the last state's leaf wins *)
Fixpoint last_hit (p : path) (ss : list flat) : option N :=
  match ss with
  | [] => None
  | s :: r => match last_hit p r with Some v => Some v | None => flookup p s end
  end.

Theorem merge_later_wins p ss : Forall paths_nodup ss -> flookup p (merge_flat ss) = last_hit p ss.
Proof.
  unfold merge_flat. intros HF.
  assert (G : forall acc, flookup p (fold_left fupdate ss acc) = match last_hit p ss with Some v => Some v | None => flookup p acc end).
  { induction ss as [|s r IH]; intros acc; simpl; [reflexivity|]. inversion HF; subst.
    rewrite IH by assumption. destruct (last_hit p r); [reflexivity|]. rewrite flookup_fupdate, flookup_rev by assumption. reflexivity. }
  rewrite G. simpl. destruct (last_hit p ss); reflexivity.
Qed.

(* a - b keeps exactly the entries of a whose path is absent from b *)
Theorem diff_exact a b p v :
  In (p, v) (diff_flat a b) <-> In (p, v) a /\ ~ In p (map fst b).
Proof.
  unfold diff_flat. destruct b as [|b0 br] eqn:Eb.
  - simpl. tauto.
  - rewrite <- Eb. clear Eb. rewrite filter_In. simpl. split; intros [H1 H2]; split; auto.
    + intros Hin. apply negb_true_iff in H2.
      assert (existsb (path_eqb p) (map fst b) = true) by (apply existsb_exists; exists p; split; [exact Hin|apply path_eqb_refl]). congruence.
    + apply negb_true_iff. destruct (existsb (path_eqb p) (map fst b)) eqn:E; [|reflexivity].
      apply existsb_exists in E as (q & Hq & E). apply path_eqb_eq in E; subst. contradiction.
Qed.

(* ---------------- merge is the inverse of split ---------------- *)
Lemma flookup_none p l : flookup p l = None <-> ~ In p (map fst l).
Proof.
  induction l as [|[q v] r IH]; simpl; [tauto|]. destruct (path_eqb p q) eqn:E.
  - apply path_eqb_eq in E; subst. split; [discriminate|]. intros H; exfalso; apply H; auto.
  - rewrite IH. split; intros H; [intros [->|H']; [now rewrite path_eqb_refl in E|auto]|tauto].
Qed.

Lemma flookup_in p v l : paths_nodup l -> (flookup p l = Some v <-> In (p, v) l).
Proof.
  unfold paths_nodup. induction l as [|[q w] r IH]; intros ND; simpl; [split; [discriminate|tauto]|].
  inversion ND as [|? ? Hn Hr]; subst. destruct (path_eqb p q) eqn:E.
  - apply path_eqb_eq in E; subst. split; [intros H; inversion H; auto|].
    intros [H|H]; [inversion H; auto|]. exfalso. apply Hn. apply in_map_iff. exists (q, v); auto.
  - rewrite IH by assumption. split; [auto|]. intros [H|H]; [inversion H; subst; now rewrite path_eqb_refl in E|exact H].
Qed.

Lemma paths_nodup_filter (f : path * N -> bool) l : paths_nodup l -> paths_nodup (filter f l).
Proof.
  unfold paths_nodup. induction l as [|e r IH]; intros ND; simpl; [constructor|]. inversion ND as [|? ? Hn Hr]; subst.
  destruct (f e); simpl; [constructor; [|now apply IH]|now apply IH].
  intros Hin. apply Hn. apply in_map_iff in Hin as (x & Hx & Hin). apply filter_In in Hin as [Hin _]. apply in_map_iff. eauto.
Qed.

Lemma last_hit_unique p v ss :
  (forall s, In s ss -> flookup p s = None \/ flookup p s = Some v) ->
  (exists s, In s ss /\ flookup p s = Some v) -> last_hit p ss = Some v.
Proof.
  induction ss as [|s r IH]; intros Hall [s0 [Hin Hs0]]; [contradiction|]. simpl.
  destruct (last_hit p r) eqn:E.
  - destruct Hin as [->|Hin].
    + (* some later one hit too: it must be v *)
      assert (forall r', (forall s, In s r' -> flookup p s = None \/ flookup p s = Some v) -> forall n, last_hit p r' = Some n -> n = v) as U.
      { induction r' as [|s' r' IHr]; intros Ha n' Hn; [discriminate|]. simpl in Hn. destruct (last_hit p r') eqn:E'.
        - inversion Hn; subst. apply IHr; auto. intros; apply Ha; simpl; auto.
        - destruct (Ha s' (or_introl eq_refl)) as [H|H]; rewrite H in Hn; [discriminate|now inversion Hn]. }
      f_equal. apply (U r); auto. intros; apply Hall; simpl; auto.
    + apply IH; [intros; apply Hall; simpl; auto|eauto].
  - destruct Hin as [->|Hin]; [exact Hs0|].
    exfalso. assert (None = Some v) by (apply IH; [intros; apply Hall; simpl; auto|eauto]). congruence.
Qed.

Lemma last_hit_none p ss : (forall s, In s ss -> flookup p s = None) -> last_hit p ss = None.
Proof. induction ss as [|s r IH]; intros H; simpl; [reflexivity|]. rewrite IH by (intros; apply H; simpl; auto). apply H; simpl; auto. Qed.

Theorem merge_inverse_of_split (idx : path * N -> nat) n s p :
  paths_nodup s -> (forall e, In e s -> idx e < n) ->
  flookup p (merge_flat (map (fun i => filter (fun e => Nat.eqb (idx e) i) s) (seq 0 n))) = flookup p s.
Proof.
  intros ND Hidx. rewrite merge_later_wins.
  2:{ apply Forall_forall. intros b Hb. apply in_map_iff in Hb as (i & <- & _). now apply paths_nodup_filter. }
  destruct (flookup p s) as [v|] eqn:F.
  - apply (flookup_in p v s ND) in F. apply last_hit_unique.
    + intros b Hb. apply in_map_iff in Hb as (i & <- & _).
      destruct (flookup p (filter (fun e => Nat.eqb (idx e) i) s)) as [w|] eqn:G; [right|left; reflexivity].
      apply flookup_in in G; [|now apply paths_nodup_filter]. apply filter_In in G as [G _].
      f_equal. apply (flookup_in p w s ND) in G. apply (flookup_in p v s ND) in F. congruence.
    + exists (filter (fun e => Nat.eqb (idx e) (idx (p, v))) s). split.
      * apply in_map_iff. exists (idx (p, v)). split; [reflexivity|]. apply in_seq. specialize (Hidx _ F). lia.
      * apply flookup_in; [now apply paths_nodup_filter|]. apply filter_In. split; [exact F|apply Nat.eqb_refl].
  - apply last_hit_none. intros b Hb. apply in_map_iff in Hb as (i & <- & _). apply flookup_none.
    apply flookup_none in F. intros Hin. apply F. apply in_map_iff in Hin as (x & Hx & Hin). apply filter_In in Hin as [Hin _].
    apply in_map_iff. eauto.
Qed.
