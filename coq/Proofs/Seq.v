(* Proofs about Model/Seq.v: padding is inert, the final carry is the loop's, reverse / keep_order only re-index the valid
   prefix, stepwise decoding equals whole-sequence causal attention. *)
From Coq Require Import Lia.
From Flaxm Require Import Lib.Harness Model.Seq.

Section RNNFacts.
  Variables C X Y : Type.
  Variable cell : C -> X -> C * Y.
  Notation run := (run C X Y cell).
  Notation loop := (loop C X Y cell).
  Notation rnn := (rnn C X Y cell).

  Lemma run_length c xs : length (fst (run c xs)) = length xs /\ length (snd (run c xs)) = length xs.
  Proof. revert c; induction xs as [|x r IH]; intros c; cbn [run]; [auto|]. destruct (cell c x) as [c' y]. specialize (IH c'). destruct (run c' r) as [cs ys]. simpl in *. lia. Qed.

  (* the scan over a sequence followed by more steps: its first part is the scan of the first part *)
  Lemma run_app c a b : fst (run c (a ++ b)) = fst (run c a) ++ fst (run (fst (loop c a)) b) /\
                        snd (run c (a ++ b)) = snd (run c a) ++ snd (run (fst (loop c a)) b).
  Proof.
    revert c; induction a as [|x r IH]; intros c; cbn [app run loop]; [auto|].
    destruct (cell c x) as [c' y]. specialize (IH c'). destruct (run c' (r ++ b)) as [cs ys]. destruct (run c' r) as [cs1 ys1]. destruct (loop c' r) as [cf yl].
    cbn [fst snd] in *. destruct IH as [-> ->]. auto.
  Qed.
  Lemma run_loop c xs : snd (run c xs) = snd (loop c xs) /\ (xs <> [] -> nth_error (fst (run c xs)) (length xs - 1) = Some (fst (loop c xs))).
  Proof.
    revert c; induction xs as [|x r IH]; intros c; cbn [Seq.run Seq.loop]; [split; [reflexivity|congruence]|].
    destruct (cell c x) as [c' y]. destruct (IH c') as [IH1 IH2]. destruct r as [|x2 r2].
    - cbn. split; [reflexivity|intros _; reflexivity].
    - destruct (Seq.run C X Y cell c' (x2 :: r2)) as [cs ys]. destruct (Seq.loop C X Y cell c' (x2 :: r2)) as [cf yl]. cbn [fst snd] in *.
      split; [now rewrite IH1|]. intros _. specialize (IH2 ltac:(discriminate)).
      cbn [length] in *. replace (S (S (length r2)) - 1) with (S (S (length r2) - 1)) by lia. cbn [nth_error]. exact IH2.
  Qed.

  (* for every sequence length 1 <= n <= T: the outputs at the valid positions and the returned carry are those of the
     Python loop over the n valid inputs (in reverse mode: over the valid prefix reversed) *)
  Theorem rnn_is_loop_on_valid (reverse : bool) n c0 xs : 1 <= n <= length xs ->
    let valid := if reverse then rev (firstn n xs) else firstn n xs in
    fst (rnn reverse false (Some n) c0 xs) = Some (fst (loop c0 valid)) /\
    firstn n (snd (rnn reverse false (Some n) c0 xs)) = snd (loop c0 valid).
  Proof.
    intros Hn. unfold Seq.rnn. cbn zeta.
    set (xs' := if reverse then flip n xs else xs).
    assert (Ex : xs' = (if reverse then rev (firstn n xs) else firstn n xs) ++ skipn n xs).
    { unfold xs', flip. destruct reverse; [reflexivity|]. now rewrite firstn_skipn. }
    set (valid := if reverse then rev (firstn n xs) else firstn n xs) in *.
    assert (Lv : length valid = n). { unfold valid. destruct reverse; rewrite ?rev_length, firstn_length; lia. }
    destruct (run c0 xs') as [cs ys] eqn:Er. rewrite andb_false_r. cbn [fst snd].
    pose proof (run_app c0 valid (skipn n xs)) as [A B]. rewrite <- Ex, Er in A, B. cbn [fst snd] in A, B.
    pose proof (run_length c0 valid) as [L1 L2]. pose proof (run_loop c0 valid) as [R1 R2].
    split.
    - rewrite A. rewrite nth_error_app1 by (rewrite L1, Lv; lia). replace (n - 1) with (length valid - 1) by lia. apply R2. intros E. rewrite E in Lv. simpl in Lv. lia.
    - rewrite B. assert (En : n = length (snd (run c0 valid))) by (rewrite L2; now symmetry). rewrite En at 1. rewrite firstn_app, Nat.sub_diag, firstn_all. cbn [firstn]. rewrite app_nil_r. exact R1.
  Qed.

  (* padding is inert: inputs at and beyond seq_len influence neither the valid outputs nor the returned carry *)
  Theorem padding_inert (reverse : bool) n c0 xs xs' : 1 <= n <= length xs -> length xs = length xs' -> firstn n xs = firstn n xs' ->
    fst (rnn reverse false (Some n) c0 xs) = fst (rnn reverse false (Some n) c0 xs') /\
    firstn n (snd (rnn reverse false (Some n) c0 xs)) = firstn n (snd (rnn reverse false (Some n) c0 xs')).
  Proof.
    intros Hn L E. destruct (rnn_is_loop_on_valid reverse n c0 xs Hn) as [A1 B1].
    destruct (rnn_is_loop_on_valid reverse n c0 xs' ltac:(lia)) as [A2 B2]. rewrite A1, A2, B1, B2, E. auto.
  Qed.

  (* keep_order only flips the valid outputs back *)
  Theorem keep_order_flips (reverse : bool) n c0 xs :
    snd (rnn reverse true (Some n) c0 xs) = (if reverse then flip n (snd (rnn reverse false (Some n) c0 xs)) else snd (rnn reverse false (Some n) c0 xs)) /\
    fst (rnn reverse true (Some n) c0 xs) = fst (rnn reverse false (Some n) c0 xs).
  Proof. unfold Seq.rnn. cbn zeta. destruct (run c0 (if reverse then flip n xs else xs)) as [cs ys]. destruct reverse; cbn; auto. Qed.
End RNNFacts.

Section DecodeFacts.
  Variables KV Q Y : Type.
  Variable zero : KV.
  Variable att : Q -> list KV -> Y.
  Notation dstep := (dstep KV Q Y att).
  Notation decode := (decode KV Q Y att).

  Lemma firstn_app_exact {A} (a b : list A) : firstn (length a) (a ++ b) = a.
  Proof. rewrite firstn_app, Nat.sub_diag, firstn_all. cbn. apply app_nil_r. Qed.

  (* invariant: after i steps the cache holds the first i entries followed by untouched slots, and the index is i *)
  Theorem decode_equals_causal (qs : list Q) (kvs : list KV) : forall done rest,
    length qs = length kvs -> length done + length qs <= length (done ++ rest) ->
    let st := (done ++ rest, length done) in
    let '(stf, ys) := decode st (combine qs kvs) in
    ys = map (fun tq => att (snd tq) (done ++ firstn (S (fst tq)) kvs)) (combine (seq 0 (length qs)) qs) /\
    snd stf = length done + length qs /\ firstn (length done + length qs) (fst stf) = done ++ kvs.
  Proof.
    revert kvs; induction qs as [|q qs IH]; intros [|kv kvs] done rest L Hlen; try discriminate; cbn zeta.
    - cbn. rewrite Nat.add_0_r, app_nil_r. repeat split; auto. apply firstn_app_exact.
    - cbn [combine Seq.decode]. unfold Seq.dstep at 1. cbn [fst snd].
      rewrite app_length in Hlen. cbn [length] in *.
      assert (Hr : rest <> []) by (destruct rest; [simpl in Hlen; lia|discriminate]).
      destruct rest as [|r0 rest]; [congruence|].
      rewrite firstn_app_exact.
      assert (Sk : skipn (S (length done)) (done ++ r0 :: rest) = rest).
      { replace (S (length done)) with (length (done ++ [r0])) by (rewrite app_length; simpl; lia). rewrite (app_assoc done [r0] rest) || idtac.
        change (done ++ r0 :: rest) with (done ++ [r0] ++ rest). rewrite app_assoc. rewrite skipn_app, skipn_all, Nat.sub_diag. reflexivity. }
      rewrite Sk.
      specialize (IH kvs (done ++ [kv]) rest ltac:(lia)).
      assert (E : done ++ [kv] ++ rest = (done ++ [kv]) ++ rest) by now rewrite app_assoc.
      rewrite E. assert (Ld : S (length done) = length (done ++ [kv])) by (rewrite app_length; simpl; lia). rewrite Ld.
      cbn zeta in IH. specialize (IH ltac:(rewrite !app_length in *; simpl in *; lia)).
      destruct (Seq.decode KV Q Y att ((done ++ [kv]) ++ rest, length (done ++ [kv])) (combine qs kvs)) as [stf ys].
      destruct IH as (Hy & Hi & Hc). split; [|split].
      + rewrite Hy. cbn [length seq combine map fst snd]. f_equal.
        * rewrite firstn_app_exact. cbn. reflexivity.
        * rewrite <- seq_shift, map_map || idtac. clear.
          assert (G : forall s, map (fun tq : nat * Q => att (snd tq) ((done ++ [kv]) ++ firstn (S (fst tq)) kvs)) (combine (seq s (length qs)) qs) =
                                map (fun tq : nat * Q => att (snd tq) (done ++ firstn (S (fst tq)) (kv :: kvs))) (combine (seq (S s) (length qs)) qs)).
          { induction qs as [|q0 qs0 IHq]; intros s; [reflexivity|]. cbn [length seq combine map fst snd]. rewrite IHq. f_equal. now rewrite <- app_assoc. }
          apply G.
      + rewrite Hi, app_length. simpl. lia.
      + rewrite app_length in Hc. simpl in Hc. replace (length done + S (length qs)) with (length done + 1 + length qs) by lia. rewrite Hc, <- app_assoc. reflexivity.
  Qed.
End DecodeFacts.

(* ---------------- attention mask helpers ---------------- *)
Lemma attn_mask_entry {A B} (f : A -> B -> bool) q k i j da db : i < length q -> j < length k ->
  nth j (nth i (attn_mask f q k) []) false = f (nth i q da) (nth j k db).
Proof.
  intros Hi Hj. unfold attn_mask.
  rewrite (nth_indep _ [] ((fun a => map (f a) k) da)) by (now rewrite map_length).
  rewrite (map_nth (fun a => map (f a) k)).
  rewrite (nth_indep _ false (f (nth i q da) db)) by (now rewrite map_length).
  apply (map_nth (f (nth i q da))).
Qed.

(* the causal mask lets query i see exactly the keys 0 .. i *)
Theorem causal_mask_entry n i j : i < n -> j < n -> nth j (nth i (causal_mask n) []) false = Nat.leb j i.
Proof.
  intros Hi Hj. unfold causal_mask. rewrite (attn_mask_entry _ _ _ i j 0 0) by (now rewrite seq_length).
  now rewrite !seq_nth by assumption.
Qed.

Lemma visible_firstn {K} : forall (ks : list K) s n m, length ks = n ->
  visible (map (fun j => Nat.leb j m) (seq s n)) ks = firstn (S m - s) ks.
Proof.
  induction ks as [|k r IH]; intros s n m Hl; subst n; [destruct (S m - s); reflexivity|].
  cbn [length seq map]. unfold visible in *. cbn [combine filter snd].
  destruct (Nat.leb_spec s m) as [L|L].
  - cbn [map fst]. replace (S m - s) with (S (S m - S s)) by lia. cbn [firstn]. f_equal. apply (IH (S s) (length r) m eq_refl).
  - replace (S m - s) with 0 by lia. cbn [firstn].
    rewrite (IH (S s) (length r) m eq_refl). replace (S m - S s) with 0 by lia. reflexivity.
Qed.

Theorem causal_row_sees_prefix {K} (ks : list K) i : i < length ks ->
  visible (nth i (causal_mask (length ks)) []) ks = firstn (S i) ks.
Proof.
  intros Hi. unfold causal_mask, attn_mask.
  rewrite (nth_indep _ [] ((fun a => map (fun j => Nat.leb j a) (seq 0 (length ks))) 0)) by (now rewrite map_length, seq_length).
  rewrite (map_nth (fun a => map (fun j => Nat.leb j a) (seq 0 (length ks)))), seq_nth by exact Hi. cbn [Nat.add].
  rewrite (visible_firstn ks 0 (length ks) i eq_refl). now rewrite Nat.sub_0_r.
Qed.

(* combine_masks is the pointwise conjunction of the masks that are given *)
Lemma nth_nil_mask i j : nth j (nth i (@nil (list bool)) []) false = false.
Proof. destruct i, j; reflexivity. Qed.
Lemma nth_nil_bool j : nth j (@nil bool) false = false.
Proof. destruct j; reflexivity. Qed.

Lemma and_row_entry : forall ra rb j,
  nth j (map (fun xy : bool * bool => fst xy && snd xy) (combine ra rb)) false = nth j ra false && nth j rb false.
Proof.
  induction ra as [|x ra IH]; intros rb j.
  - cbn [combine map]. now rewrite !nth_nil_bool.
  - destruct rb as [|y rb]; cbn [combine map]; [now rewrite !nth_nil_bool, andb_false_r|].
    destruct j as [|j]; cbn [nth fst snd]; [reflexivity|apply IH].
Qed.

Lemma and_mask_entry : forall a b i j, nth j (nth i (and_mask a b) []) false = nth j (nth i a []) false && nth j (nth i b []) false.
Proof.
  unfold and_mask. induction a as [|ra a IH]; intros b i j.
  - cbn [combine map]. now rewrite !nth_nil_mask.
  - destruct b as [|rb b]; cbn [combine map]; [now rewrite !nth_nil_mask, andb_false_r|].
    destruct i as [|i]; cbn [nth fst snd]; [apply and_row_entry|apply IH].
Qed.

Theorem combine_masks_entry ms m i j : combine_masks ms = Some m ->
  nth j (nth i m []) false = forallb (fun x => match x with Some a => nth j (nth i a []) false | None => true end) ms.
Proof.
  unfold combine_masks.
  assert (G : forall r acc, nth j (nth i (fold_left and_mask r acc) []) false =
                            nth j (nth i acc []) false && forallb (fun a => nth j (nth i a []) false) r).
  { induction r as [|b r IH]; intros acc; cbn [fold_left forallb]; [now rewrite andb_true_r|].
    rewrite IH, and_mask_entry. now rewrite andb_assoc. }
  assert (F : forall l, forallb (fun x => match x with Some a => nth j (nth i a []) false | None => true end) l =
                        forallb (fun a => nth j (nth i a []) false) (flat_map (fun m0 => match m0 with Some x => [x] | None => [] end) l)).
  { induction l as [|[a|] l IH]; cbn [forallb flat_map app]; [reflexivity|now rewrite IH|exact IH]. }
  rewrite F. destruct (flat_map _ ms) as [|m0 r]; [discriminate|]. intros H. inversion H; subst. cbn [forallb]. apply G.
Qed.
Theorem combine_masks_none ms : combine_masks ms = None <-> forall x, In x ms -> x = None.
Proof.
  unfold combine_masks. induction ms as [|[a|] ms IH]; cbn [flat_map app].
  - split; [intros _ x []|reflexivity].
  - split; [discriminate|]. intros H. specialize (H (Some a) (or_introl eq_refl)). discriminate.
  - rewrite IH. split; intros H x; [intros [<-|Hx]; [reflexivity|now apply H]|intros Hx; apply H; now right].
Qed.
