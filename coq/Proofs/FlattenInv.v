(* The other direction of "mutual inverses" (C16): unflatten_dict followed by flatten_dict(keep_empty_nodes=True)
   gives back the flat dict it started from -- same keys, same values -- for every flat dict whose keys are
   non-empty and prefix-free (no key is a prefix of, or equal to, another), which is exactly what flatten_dict
   emits.  The order of the entries may differ (dict insertion order groups siblings), so the statement is on
   membership together with the pairwise distinctness of the emitted paths. *)
From Coq Require Import Lia FinFun.
From Flaxm Require Import Lib.Harness Model.Flatten Proofs.Flatten.

Definition ents (root : bool) (t : tree) : list (path * fval) := dfs true no_leaf idg root t.
Definition kents (kids : list (key * tree)) : list (path * fval) :=
  flat_map (fun kt => map (cons_path (fst kt)) (ents false (snd kt))) kids.

Lemma ents_node root kids : kids <> [] \/ root = true -> ents root (Node kids) = kents kids.
Proof.
  intros H. destruct kids as [|kt r]; [|reflexivity]. destruct H as [H|H]; [contradiction|]. subst. reflexivity.
Qed.

Fixpoint ppfx (a b : path) : bool :=
  match a, b with
  | [], _ => true
  | x :: a', y :: b' => key_eqb x y && ppfx a' b'
  | _ :: _, [] => false
  end.
Definition compat (p q : path) : Prop := ppfx p q = false /\ ppfx q p = false.
Definition compat_all (p : path) (S : list (path * fval)) : Prop := forall e, In e S -> compat p (fst e).

Lemma ppfx_cons k a b : ppfx (k :: a) (k :: b) = ppfx a b.
Proof. simpl. now rewrite key_eqb_refl. Qed.

(* leaf values of a flat dict: a leaf or the empty-node sentinel *)
Definition lv (v : fval) : Prop := match v with VTree (Leaf _) => True | VEmpty => True | _ => False end.
Lemma ents_val v : lv v -> ents false (val_tree v) = [([], v)].
Proof. destruct v as [[a|k]|]; simpl; intros H; try contradiction; reflexivity. Qed.
Lemma wf_val v : lv v -> wf (val_tree v) = true.
Proof. destruct v as [[a|k]|]; simpl; intros H; try contradiction; reflexivity. Qed.

Lemma keys_nodup_snoc ks k : keys_nodup ks = true -> existsb (key_eqb k) ks = false -> keys_nodup (ks ++ [k]) = true.
Proof.
  induction ks as [|x r IH]; simpl; intros Hnd Hk; [reflexivity|].
  apply andb_true_iff in Hnd as [H1 H2]. apply orb_false_iff in Hk as [Hkx Hkr].
  apply andb_true_iff. split; [|now apply IH].
  rewrite existsb_app. simpl. rewrite orb_false_r.
  apply negb_true_iff in H1. rewrite H1. simpl. apply negb_true_iff.
  apply key_eqb_neq. intros ->. rewrite key_eqb_refl in Hkx. discriminate.
Qed.

Lemma wf_snoc kids k t : wf (Node kids) = true -> notin k kids -> wf t = true -> wf (Node (kids ++ [(k, t)])) = true.
Proof.
  simpl. intros H Hk Ht. apply andb_true_iff in H as [H1 H2]. apply andb_true_iff. split.
  - rewrite map_app. simpl. now apply keys_nodup_snoc.
  - rewrite forallb_app, H2. simpl. now rewrite Ht.
Qed.

Lemma kents_app a b : kents (a ++ b) = kents a ++ kents b.
Proof. unfold kents. now rewrite flat_map_app. Qed.
Lemma kents_one k t : kents [(k, t)] = map (cons_path k) (ents false t).
Proof. unfold kents. simpl. now rewrite app_nil_r. Qed.

(* inserting into a fresh empty dict creates the chain of sub-dicts down to the value *)
Lemma ins_fresh_ents : forall p v, p <> [] -> lv v ->
  exists kids', insert p (val_tree v) (Node []) = Some (Node kids') /\ wf (Node kids') = true /\ kids' <> [] /\
                ents false (Node kids') = [(p, v)].
Proof.
  induction p as [|k rest IH]; intros v Hp Hv; [contradiction|].
  destruct rest as [|k1 rest].
  - exists [(k, val_tree v)]. simpl insert. repeat split.
    + simpl. now rewrite (wf_val v Hv).
    + discriminate.
    + rewrite ents_node by (left; discriminate). rewrite kents_one. cbn [snd]. rewrite (ents_val v Hv). reflexivity.
  - destruct (IH v ltac:(discriminate) Hv) as (k' & Hi & Hw & Hne & He).
    exists [(k, Node k')]. rewrite insert_cons2. cbn [assoc]. rewrite Hi. cbn [option_map assoc_set]. repeat split.
    + simpl in *. now rewrite Hw.
    + discriminate.
    + rewrite ents_node by (left; discriminate). rewrite kents_one. cbn [snd]. rewrite He. reflexivity.
Qed.

Lemma assoc_split k kids sub : assoc k kids = Some sub ->
  exists l1 l2, kids = l1 ++ (k, sub) :: l2 /\ notin k l1 /\ forall s', assoc_set k s' kids = l1 ++ (k, s') :: l2.
Proof.
  induction kids as [|[k' v'] r IH]; simpl; [discriminate|].
  destruct (key_eqb k k') eqn:E.
  - intros [= ->]. apply key_eqb_eq in E. subst k'. exists [], r. repeat split.
  - intros H. destruct (IH H) as (l1 & l2 & -> & Hn & Hs). exists ((k', v') :: l1), l2. repeat split.
    + unfold notin in *. simpl. now rewrite E.
    + intros s'. now rewrite Hs.
Qed.

Lemma assoc_some_or_notin k kids : (exists sub, assoc k kids = Some sub) \/ notin k kids.
Proof.
  unfold notin. induction kids as [|[k' v'] r IH]; simpl; [now right|].
  destruct (key_eqb k k'); [left; eauto|exact IH].
Qed.

Lemma in_kents_sub k sub l1 l2 e : In e (ents false sub) -> In (cons_path k e) (kents (l1 ++ (k, sub) :: l2)).
Proof.
  intros H. rewrite kents_app. apply in_or_app. right. unfold kents. simpl. apply in_or_app. left.
  now apply in_map.
Qed.

(* the central step: one insertion adds exactly one entry *)
Lemma ins_ents : forall p v kids root, p <> [] -> lv v -> wf (Node kids) = true -> (kids <> [] \/ root = true) ->
  compat_all p (ents root (Node kids)) ->
  exists kids', insert p (val_tree v) (Node kids) = Some (Node kids') /\ wf (Node kids') = true /\ kids' <> [] /\
    forall e, In e (ents root (Node kids')) <-> e = (p, v) \/ In e (ents root (Node kids)).
Proof.
  induction p as [|k rest IH]; intros v kids root Hp Hv Hwf Hroot Hc; [contradiction|].
  rewrite (ents_node root kids Hroot) in Hc.
  (* a key that is already there has entries below it, all of which have [k] as a prefix *)
  assert (Hsub : forall sub, assoc k kids = Some sub -> forall e, In e (ents false sub) -> compat (k :: rest) (k :: fst e)).
  { intros sub Ha e He. destruct (assoc_split _ _ _ Ha) as (l1 & l2 & -> & _ & _).
    apply (Hc (cons_path k e)). now apply in_kents_sub. }
  destruct rest as [|k1 rest].
  - (* the last key: it cannot be there yet *)
    assert (Hn : notin k kids).
    { destruct (assoc_some_or_notin k kids) as [[sub Ha]|Hn]; [|exact Hn]. exfalso.
      pose proof (dfs_sub_nonempty sub no_leaf idg) as Hne. fold (ents false sub) in Hne.
      destruct (ents false sub) as [|e0 r0] eqn:E0; [contradiction|].
      destruct (Hsub sub Ha e0 ltac:(rewrite E0; now left)) as [H1 _]. simpl in H1. rewrite key_eqb_refl in H1. discriminate. }
    exists (kids ++ [(k, val_tree v)]). cbn [insert]. rewrite (assoc_set_notin _ _ _ Hn). repeat split.
    + apply wf_snoc; [exact Hwf|exact Hn|now apply wf_val].
    + destruct kids; discriminate.
    + intros H. rewrite ents_node in H by (left; destruct kids; discriminate).
      rewrite (ents_node root kids Hroot). rewrite kents_app, kents_one in H. cbn [snd] in H.
      rewrite (ents_val v Hv) in H. apply in_app_or in H as [H|[H|[]]]; [now right|left; now rewrite <- H].
    + intros H. rewrite ents_node by (left; destruct kids; discriminate).
      rewrite (ents_node root kids Hroot) in H. rewrite kents_app, kents_one. cbn [snd]. rewrite (ents_val v Hv).
      apply in_or_app. destruct H as [->|H]; [right; now left|now left].
  - rewrite insert_cons2.
    destruct (assoc_some_or_notin k kids) as [[sub Ha]|Hn].
    + rewrite Ha. destruct (assoc_split _ _ _ Ha) as (l1 & l2 & Ekids & Hn1 & Hset).
      assert (Hwfs : wf sub = true).
      { subst kids. simpl in Hwf. apply andb_true_iff in Hwf as [_ Hall]. rewrite forallb_app in Hall.
        apply andb_true_iff in Hall as [_ Hall]. simpl in Hall. now apply andb_true_iff in Hall as [Hall _]. }
      (* sub is a non-empty dict: a leaf or an empty dict there would be an entry at [k] *)
      assert (Hshape : exists sk, sub = Node sk /\ sk <> []).
      { destruct sub as [a|sk].
        - exfalso. destruct (Hsub _ Ha ([], VTree (Leaf a)) (or_introl eq_refl)) as [_ H2]. simpl in H2.
          rewrite key_eqb_refl in H2. discriminate.
        - destruct sk as [|kt0 sk]; [|exists (kt0 :: sk); split; [reflexivity|discriminate]].
          exfalso. destruct (Hsub _ Ha ([], VEmpty) (or_introl eq_refl)) as [_ H2]. simpl in H2.
          rewrite key_eqb_refl in H2. discriminate. }
      destruct Hshape as (sk & -> & Hsk).
      destruct (IH v sk false ltac:(discriminate) Hv Hwfs (or_introl Hsk)) as (sk' & Hi & Hw' & Hne' & Hiff).
      { intros e He. destruct (Hsub _ Ha e He) as [H1 H2]. rewrite !ppfx_cons in H1, H2. now split. }
      exists (l1 ++ (k, Node sk') :: l2). rewrite Hi. cbn [option_map]. rewrite Hset. repeat split.
      * subst kids. simpl in Hwf |- *. apply andb_true_iff in Hwf as [Hnd Hall]. apply andb_true_iff. split.
        -- rewrite map_app in *. exact Hnd.
        -- rewrite forallb_app in *. apply andb_true_iff in Hall as [Ha1 Ha2]. rewrite Ha1. simpl in Ha2 |- *.
           apply andb_true_iff in Ha2 as [_ Ha2]. rewrite Ha2. simpl in Hw'. now rewrite Hw'.
      * destruct l1; discriminate.
      * rewrite ents_node by (left; destruct l1; discriminate). rewrite (ents_node root kids Hroot). subst kids.
        rewrite !kents_app. unfold kents at 2 4. cbn [flat_map fst snd]. intros H.
        apply in_app_or in H as [H|H]; [right; apply in_or_app; now left|].
        apply in_app_or in H as [H|H]; [|right; apply in_or_app; right; apply in_or_app; now right].
        apply in_map_iff in H as (e' & <- & He'). apply Hiff in He' as [->|He'].
        -- left. reflexivity.
        -- right. apply in_or_app; right; apply in_or_app; left. now apply in_map.
      * rewrite (ents_node root kids Hroot). rewrite ents_node by (left; destruct l1; discriminate). subst kids.
        rewrite !kents_app. unfold kents at 2 4. cbn [flat_map fst snd]. intros [->|H].
        -- apply in_or_app; right; apply in_or_app; left.
           change (k :: k1 :: rest, v) with (cons_path k (k1 :: rest, v)). apply in_map. apply Hiff. now left.
        -- apply in_app_or in H as [H|H]; [apply in_or_app; now left|].
           apply in_app_or in H as [H|H]; [|apply in_or_app; right; apply in_or_app; now right].
           apply in_map_iff in H as (e' & <- & He'). apply in_or_app; right; apply in_or_app; left.
           apply in_map. apply Hiff. now right.
    + rewrite (assoc_notin _ _ Hn).
      destruct (ins_fresh_ents (k1 :: rest) v ltac:(discriminate) Hv) as (k' & Hi & Hw & Hne & He).
      exists (kids ++ [(k, Node k')]). rewrite Hi. cbn [option_map]. rewrite (assoc_set_notin _ _ _ Hn). repeat split.
      * now apply wf_snoc.
      * destruct kids; discriminate.
      * rewrite ents_node by (left; destruct kids; discriminate). rewrite (ents_node root kids Hroot).
        rewrite kents_app, kents_one. cbn [snd]. rewrite He. intros H.
        apply in_app_or in H as [H|[H|[]]]; [now right|left; now rewrite <- H].
      * rewrite (ents_node root kids Hroot). rewrite ents_node by (left; destruct kids; discriminate).
        rewrite kents_app, kents_one. cbn [snd]. rewrite He. intros [->|H]; apply in_or_app; [right; now left|now left].
Qed.

(* prefix-free flat dicts: what flatten_dict emits and what unflatten_dict can rebuild *)
Definition compatb (p q : path) : bool := negb (ppfx p q) && negb (ppfx q p).
Fixpoint pfreeb (l : list (path * fval)) : bool :=
  match l with
  | [] => true
  | e :: r => forallb (fun e' => compatb (fst e) (fst e')) r && pfreeb r
  end.
Lemma compatb_spec p q : compatb p q = true <-> compat p q.
Proof.
  unfold compatb, compat. rewrite andb_true_iff, !negb_true_iff. tauto.
Qed.
Lemma compat_sym p q : compat p q -> compat q p.
Proof. unfold compat. tauto. Qed.

Lemma ins_all_ents : forall l kids, wf (Node kids) = true -> pfreeb l = true ->
  Forall (fun e => fst e <> [] /\ lv (snd e)) l ->
  (forall e, In e l -> compat_all (fst e) (ents true (Node kids))) ->
  exists kids', ins_all l (Node kids) = Some (Node kids') /\ wf (Node kids') = true /\
    forall e, In e (ents true (Node kids')) <-> In e l \/ In e (ents true (Node kids)).
Proof.
  induction l as [|[p v] r IH]; intros kids Hwf Hpf Hl Hc.
  - exists kids. split; [reflexivity|]. split; [exact Hwf|]. intros e. split; [intros H; now right|intros [[]|H]; exact H].
  - cbn [ins_all]. inversion Hl as [|? ? [Hp Hv] Hr]; subst. cbn [fst snd] in Hp, Hv.
    cbn [pfreeb] in Hpf. apply andb_true_iff in Hpf as [Hhead Hpf]. cbn [fst] in Hhead.
    destruct (ins_ents p v kids true Hp Hv Hwf (or_intror eq_refl)) as (k1 & Hi & Hw1 & _ & Hiff1).
    { apply (Hc (p, v)). now left. }
    rewrite Hi. destruct (IH k1 Hw1 Hpf Hr) as (k2 & Hi2 & Hw2 & Hiff2).
    { intros e He e1 He1. apply Hiff1 in He1 as [->|He1].
      - cbn [fst]. apply compat_sym. apply compatb_spec. rewrite forallb_forall in Hhead. now apply Hhead.
      - apply (Hc e); [now right|exact He1]. }
    exists k2. repeat split; [exact Hi2|exact Hw2| |].
    + intros H. apply Hiff2 in H as [H|H]; [left; now right|]. apply Hiff1 in H as [->|H]; [left; now left|now right].
    + intros [[<-|H]|H]; apply Hiff2; [right; apply Hiff1; now left|now left|right; apply Hiff1; now right].
Qed.

Theorem flatten_unflatten : forall l, pfreeb l = true -> Forall (fun e => fst e <> [] /\ lv (snd e)) l ->
  exists kids, unflatten l = Some (Node kids) /\ wf (Node kids) = true /\
    forall e, In e (flatten true no_leaf (Node kids)) <-> In e l.
Proof.
  intros l Hpf Hl. unfold unflatten.
  destruct (ins_all_ents l [] eq_refl Hpf Hl) as (kids & Hi & Hw & Hiff).
  - intros e _ e' [].
  - exists kids. repeat split; [exact Hi|exact Hw| |].
    + intros H. apply Hiff in H as [H|[]]. exact H.
    + intros H. apply Hiff. now left.
Qed.

(* the paths flatten emits are pairwise different (so together with the theorem above: flatten (unflatten l) is a
   permutation of l) and prefix-free *)
Lemma in_kents e kids : In e (kents kids) <-> exists k t e', In (k, t) kids /\ In e' (ents false t) /\ e = cons_path k e'.
Proof.
  unfold kents. rewrite in_flat_map. split.
  - intros ([k t] & Hin & He). apply in_map_iff in He as (e' & <- & He'). exists k, t, e'. auto.
  - intros (k & t & e' & Hin & He' & ->). exists (k, t). split; [exact Hin|]. now apply in_map.
Qed.

Lemma NoDup_map_cons_path k l : NoDup (map fst l) -> NoDup (map fst (map (cons_path k) l)).
Proof.
  rewrite map_map. cbn [cons_path fst]. intros H. rewrite <- (map_map fst (cons k)).
  apply FinFun.Injective_map_NoDup; [|exact H]. intros a b [= ->]. reflexivity.
Qed.

Lemma ents_nodup : forall t root, wf t = true -> NoDup (map fst (ents root t)).
Proof.
  induction t as [a|kids IH] using tree_ind'; intros root Hwf.
  - simpl. constructor; [intros []|constructor].
  - destruct kids as [|kt0 r0] eqn:Ek.
    + destruct root; simpl; [constructor|constructor; [intros []|constructor]].
    + rewrite <- Ek in *. rewrite ents_node by (left; rewrite Ek; discriminate). clear Ek kt0 r0.
      simpl in Hwf. apply andb_true_iff in Hwf as [Hnd Hall].
      induction kids as [|[k t] r IHr]; [constructor|].
      unfold kents. cbn [flat_map fst snd]. fold (kents r). rewrite map_app.
      inversion IH as [|? ? Hk Hr]; subst. cbn [snd] in Hk.
      simpl in Hnd, Hall. apply andb_true_iff in Hnd as [Hkr Hnd]. apply andb_true_iff in Hall as [Hwt Hall].
      apply negb_true_iff in Hkr.
      assert (Hdisj : forall x, In x (map fst (map (cons_path k) (ents false t))) -> ~ In x (map fst (kents r))).
      { intros x Hx Hx'. apply in_map_iff in Hx as (e1 & <- & He1). apply in_map_iff in He1 as (e1' & <- & _).
        apply in_map_iff in Hx' as (e2 & Heq & He2). apply in_kents in He2 as (k2 & t2 & e2' & Hin2 & _ & ->).
        cbn [cons_path fst] in Heq. injection Heq as Hk2 _. subst k2.
        assert (existsb (key_eqb k) (map fst r) = true); [|congruence].
        apply existsb_exists. exists k. split; [|apply key_eqb_refl].
        change k with (fst (k, t2)). now apply in_map. }
      clear IH. revert Hdisj. generalize (NoDup_map_cons_path k _ (Hk false Hwt)).
      generalize (IHr Hr Hnd Hall). generalize (map fst (kents r)) as B.
      generalize (map fst (map (cons_path k) (ents false t))) as A.
      induction A as [|a A IHA]; intros B HB HA Hd; [exact HB|]. simpl. inversion HA; subst. constructor.
      * intros Hin. apply in_app_or in Hin as [Hin|Hin]; [contradiction|]. apply (Hd a); [now left|exact Hin].
      * apply IHA; [exact HB|assumption|]. intros x Hx. apply Hd. now right.
Qed.

Theorem flatten_paths_distinct : forall t, wf t = true -> NoDup (map fst (flatten true no_leaf t)).
Proof. intros t H. exact (ents_nodup t true H). Qed.
