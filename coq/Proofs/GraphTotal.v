(* flatten terminates: with the fuel the model gives itself, the traversal of a closed heap never runs out, cycles and
   shared objects included.  The argument is the one that makes the Python code terminate: an object is entered only when
   it is not yet in ref_index, and entering it puts it there. *)
From Coq Require Import Lia.
From Flaxm Require Import Lib.Harness Model.NnxFilters Model.Graph Model.UpdateCtx Proofs.Graph Proofs.UpdateCtx Proofs.GraphIso.

Definition inb (h : heap) : loc -> Prop := fun l => l < length h.
Definition heap_closed (h : heap) : Prop :=
  Forall (fun o => match o with ONode _ attrs => closed_attrs (inb h) attrs | OVar _ _ _ => True end) h.

(* the weight of the objects that are not yet in ref_index *)
Fixpoint Wfrom (i : nat) (h : heap) (ri : list loc) : nat :=
  match h with
  | [] => 0
  | o :: r => (match index_of i ri with Some _ => 0 | None => osize o end) + Wfrom (S i) r ri
  end.

Lemma Wfrom_le_total i h ri : Wfrom i h ri <= fold_right (fun o n => osize o + n) 0 h.
Proof. revert i. induction h as [|o r IH]; intros i; simpl; [lia|]. specialize (IH (S i)). destruct (index_of i ri); lia. Qed.

Lemma Wfrom_ext i h ri e : Wfrom i h (ri ++ e) <= Wfrom i h ri.
Proof.
  revert i. induction h as [|o r IH]; intros i; simpl; [lia|]. specialize (IH (S i)).
  destruct (index_of i ri) as [k|] eqn:E; [pose proof (index_of_app_some _ _ e _ E) as Q; unfold loc in *; rewrite Q; lia|].
  destruct (index_of i (ri ++ e)); lia.
Qed.

Lemma index_of_app_other x l ri : index_of x ri = None -> x <> l -> index_of x (ri ++ [l]) = None.
Proof.
  induction ri as [|y r IH]; intros E Hn; simpl in *.
  - destruct (Nat.eqb_spec l x); [congruence|reflexivity].
  - destruct (Nat.eqb y x); [discriminate|]. destruct (index_of x r); [discriminate|]. now rewrite IH.
Qed.

Lemma Wfrom_visit h : forall i ri l o, i <= l -> nth_error h (l - i) = Some o -> index_of l ri = None ->
  Wfrom i h (ri ++ [l]) + osize o <= Wfrom i h ri.
Proof.
  induction h as [|o0 r IH]; intros i ri l o Hi Hn Hl; [destruct (l - i); discriminate|]. simpl.
  destruct (Nat.eq_dec i l) as [->|Hne].
  - rewrite Nat.sub_diag in Hn. simpl in Hn. inversion Hn; subst o0.
    pose proof (index_of_app_new _ _ Hl) as Q. pose proof (Wfrom_ext (S l) r ri [l]) as X. unfold loc in *. rewrite Hl, Q. lia.
  - replace (l - i) with (S (l - S i)) in Hn by lia. simpl in Hn.
    specialize (IH (S i) ri l o ltac:(lia) Hn Hl).
    destruct (index_of i ri) as [k|] eqn:E.
    + pose proof (index_of_app_some _ _ [l] _ E) as Q. unfold loc in *. rewrite Q. lia.
    + pose proof (index_of_app_other _ _ _ E Hne) as Q. unfold loc in *. rewrite Q. lia.
Qed.

Lemma vsize_child (xs : list (key * value)) x : In x (map snd xs) -> vsize x <= fold_right (fun kv n => vsize (snd kv) + n) 0 xs.
Proof. induction xs as [|[k v] r IH]; intros []; simpl in *; [subst; lia|]. specialize (IH H). lia. Qed.

Lemma closed_attrs_child D (xs : list (key * value)) x : closed_attrs D xs -> In x (map snd xs) -> closed_val D x.
Proof.
  unfold closed_attrs. rewrite Forall_forall. intros H Hin. apply in_map_iff in Hin as ([k v] & <- & Hkv). exact (H _ Hkv).
Qed.

(* a sequence of children: each one succeeds from any state that extends the initial one, and extends it *)
Lemma items_total (rec : path -> value -> fst_ -> option (gattr * fst_)) : forall xs p s,
  (forall q x s1, In x (map snd xs) -> (exists e, fst s1 = fst s ++ e) ->
                  exists a s2, rec q x s1 = Some (a, s2) /\ exists e, fst s2 = fst s1 ++ e) ->
  exists as_ s', items_with rec p xs s = Some (as_, s') /\ exists e, fst s' = fst s ++ e.
Proof.
  induction xs as [|[k v] r IH]; intros p s H.
  - exists [], s. split; [reflexivity|]. exists []. now rewrite app_nil_r.
  - rewrite items_with_cons.
    destruct (H (p ++ [k]) v s (or_introl eq_refl) (ex_intro _ [] (eq_sym (app_nil_r _)))) as (a & s1 & E1 & e1 & X1).
    rewrite E1.
    destruct (IH p s1) as (as_ & s2 & E2 & e2 & X2).
    { intros q x s' Hin [e He]. apply H; [now right|]. exists (e1 ++ e). now rewrite He, X1, app_assoc. }
    rewrite E2. eexists. eexists. split; [reflexivity|]. exists (e1 ++ e2). now rewrite X2, X1, app_assoc.
Qed.

Lemma flat_total h : heap_closed h -> forall fuel p v s, closed_val (inb h) v -> vsize v + Wfrom 0 h (fst s) < fuel ->
  exists a s', flat fuel h p v s = Some (a, s') /\ exists e, fst s' = fst s ++ e.
Proof.
  intros HC. induction fuel as [|f IH]; intros p v s Cv Hf; [lia|]. cbn [flat].
  destruct v as [l|x|a|kd xs].
  - (* VRef *)
    cbn [closed_val] in Cv. unfold inb in Cv.
    destruct (index_of l (fst s)) as [i|] eqn:Ei.
    { eexists. eexists. split; [reflexivity|]. exists []. now rewrite app_nil_r. }
    destruct (nth_error h l) as [o|] eqn:En; [|apply nth_error_None in En; lia].
    destruct o as [ty attrs|vty pl m].
    + pose proof (Wfrom_visit h 0 (fst s) l _ (Nat.le_0_l _) ltac:(rewrite Nat.sub_0_r; exact En) Ei) as HW. cbn [osize] in HW.
      assert (CA : closed_attrs (inb h) attrs).
      { unfold heap_closed in HC. rewrite Forall_forall in HC. exact (HC _ (nth_error_In _ _ En)). }
      destruct (items_total (flat f h) attrs p (fst s ++ [l], snd s)) as (as_ & s' & E & e & X).
      { intros q x s1 Hin [e He]. apply IH; [eapply closed_attrs_child; eauto|].
        pose proof (vsize_child attrs x Hin). cbn [fst] in He. rewrite He.
        pose proof (Wfrom_ext 0 h (fst s ++ [l]) e). cbn [vsize] in Hf. unfold loc in *. lia. }
      rewrite E. eexists. eexists. split; [reflexivity|]. cbn [fst] in X. exists ([l] ++ e). now rewrite X, app_assoc.
    + eexists. eexists. split; [reflexivity|]. cbn [fst]. now exists [l].
  - eexists. eexists. split; [reflexivity|]. exists []. now rewrite app_nil_r.
  - eexists. eexists. split; [reflexivity|]. cbn [fst]. exists []. now rewrite app_nil_r.
  - (* VTree *)
    apply closed_tree in Cv.
    destruct (items_total (flat f h) xs p s) as (as_ & s' & E & e & X).
    { intros q x s1 Hin [e He]. apply IH; [eapply closed_attrs_child; eauto|].
      pose proof (vsize_child xs x Hin). rewrite He. pose proof (Wfrom_ext 0 h (fst s) e). cbn [vsize] in Hf. unfold loc in *. lia. }
    rewrite E. eexists. eexists. split; [reflexivity|]. now exists e.
Qed.

(* flatten never runs out of fuel and never meets a dangling reference on a closed heap *)
Theorem flatten_total h v : heap_closed h -> closed_val (inb h) v -> exists g ls, flatten h v = Some (g, ls).
Proof.
  intros HC Cv. unfold flatten.
  destruct (flat_total h HC (fuel_for h v) [] v ([], []) Cv) as (a & s' & E & _).
  { unfold fuel_for. pose proof (Wfrom_le_total 0 h []). cbn [fst]. lia. }
  rewrite E. eauto.
Qed.
