(* C02, last sentence: shape-only initialisation (eval_shape / jit / lazy_init of init) yields the same tree structure and
   shapes as concrete init.  Nothing a Linen module program decides -- name reservations, has_variable, the shape check
   of a parameter, broadcasting, mutability, the rng counters -- depends on the VALUES held by arrays, only on their
   shapes.  So two runs of one program on inputs of the same shape, starting from variable trees of the same structure
   and shapes, stay in lock step: both fail with the same error, or both succeed and leave outputs, variable trees,
   counters and traces of the same structure and shapes.  A shape-only run is a run on some other array of the same
   shape (tracing evaluates the program on an abstract value that carries exactly the shape): this theorem is what
   makes its result the structure of every concrete run. *)
From Coq Require Import Lia.
From Flaxm Require Import Lib.Harness Model.Filters Model.Linen Proofs.Linen.

Definition veq (a b : vec) : Prop := length a = length b.
Definition sveq (a b : sval) : Prop :=
  match a, b with
  | SVec x, SVec y => length x = length y
  | STuple xs, STuple ys => map (@length Z) xs = map (@length Z) ys
  | _, _ => False
  end.
Inductive nrel : node -> node -> Prop :=
| NR_leaf a b : sveq a b -> nrel (VLeaf a) (VLeaf b)
| NR_node ka kb : Forall2 (fun x y => fst x = fst y /\ nrel (snd x) (snd y)) ka kb -> nrel (VNode ka) (VNode kb).
Definition krel (ka kb : list (name * node)) : Prop := Forall2 (fun x y => fst x = fst y /\ nrel (snd x) (snd y)) ka kb.
Definition trel (ta tb : vtree) : Prop := Forall2 (fun x y => fst x = fst y /\ nrel (snd x) (snd y)) ta tb.

(* "both None, or both Some and related" *)
Definition orel {A} (R : A -> A -> Prop) (x y : option A) : Prop :=
  match x, y with Some a, Some b => R a b | None, None => True | _, _ => False end.

Lemma krel_nassoc k ka kb : krel ka kb -> orel nrel (nassoc k ka) (nassoc k kb).
Proof.
  induction 1 as [|[k1 a] [k2 b] ra rb [Hk Hn] _ IH]; cbn [nassoc orel]; [exact I|]. cbn [fst snd] in *. subst k2.
  destruct (name_eqb k k1); [exact Hn|exact IH].
Qed.
Lemma krel_nset k va vb ka kb : krel ka kb -> nrel va vb -> krel (nset k va ka) (nset k vb kb).
Proof.
  intros H Hv. induction H as [|[k1 a] [k2 b] ra rb [Hk Hn] Hr IH]; cbn [nset].
  - constructor; [split; [reflexivity|exact Hv]|constructor].
  - cbn [fst snd] in *. subst k2. destruct (name_eqb k k1).
    + constructor; [split; [reflexivity|exact Hv]|exact Hr].
    + constructor; [split; [reflexivity|exact Hn]|exact IH].
Qed.
Lemma trel_cassoc c ta tb : trel ta tb -> orel nrel (cassoc c ta) (cassoc c tb).
Proof.
  induction 1 as [|[k1 a] [k2 b] ra rb [Hk Hn] _ IH]; cbn [cassoc orel]; [exact I|]. cbn [fst snd] in *. subst k2.
  destruct (N.eqb c k1); [exact Hn|exact IH].
Qed.
Lemma trel_cset c va vb ta tb : trel ta tb -> nrel va vb -> trel (cset c va ta) (cset c vb tb).
Proof.
  intros H Hv. induction H as [|[k1 a] [k2 b] ra rb [Hk Hn] Hr IH]; cbn [cset].
  - constructor; [split; [reflexivity|exact Hv]|constructor].
  - cbn [fst snd] in *. subst k2. destruct (N.eqb c k1).
    + constructor; [split; [reflexivity|exact Hv]|exact Hr].
    + constructor; [split; [reflexivity|exact Hn]|exact IH].
Qed.

Lemma nrel_walk : forall p a b, nrel a b -> orel nrel (walk p a) (walk p b).
Proof.
  induction p as [|k r IH]; intros a b H; cbn [walk]; [exact H|].
  inversion H as [x y Hs|ka kb Hk]; subst; [exact I|].
  pose proof (krel_nassoc k ka kb Hk) as X. destruct (nassoc k ka), (nassoc k kb); try contradiction; [now apply IH|exact I].
Qed.
Lemma nrel_empty : nrel (VNode []) (VNode []).  Proof. constructor. constructor. Qed.

Lemma nrel_put_at : forall p nm va vb a b, sveq va vb -> nrel a b -> orel nrel (put_at p nm va a) (put_at p nm vb b).
Proof.
  induction p as [|k r IH]; intros nm va vb a b Hv H; inversion H as [x y Hs|ka kb Hk]; subst; cbn [put_at orel]; try exact I.
  - constructor. apply krel_nset; [exact Hk|now constructor].
  - pose proof (krel_nassoc k ka kb Hk) as X.
    assert (Hsub : nrel (match nassoc k ka with Some s => s | None => VNode [] end) (match nassoc k kb with Some s => s | None => VNode [] end)).
    { destruct (nassoc k ka), (nassoc k kb); try contradiction; [exact X|exact nrel_empty]. }
    pose proof (IH nm va vb _ _ Hv Hsub) as Y.
    destruct (put_at r nm va _), (put_at r nm vb _); try contradiction; cbn [orel]; [|exact I].
    constructor. now apply krel_nset.
Qed.

Lemma trel_has ta tb col p nm : trel ta tb -> has_var ta col p nm = has_var tb col p nm.
Proof.
  intros H. unfold has_var. pose proof (trel_cassoc col ta tb H) as X.
  destruct (cassoc col ta), (cassoc col tb); try contradiction; [|reflexivity].
  pose proof (nrel_walk p _ _ X) as Y. destruct (walk p n), (walk p n0); try contradiction; [|reflexivity].
  inversion Y as [x y Hs|ka kb Hk]; subst; [reflexivity|].
  pose proof (krel_nassoc nm ka kb Hk) as Z. destruct (nassoc nm ka), (nassoc nm kb); try contradiction; reflexivity.
Qed.
Lemma trel_get ta tb col p nm : trel ta tb -> orel sveq (get_var ta col p nm) (get_var tb col p nm).
Proof.
  intros H. unfold get_var. pose proof (trel_cassoc col ta tb H) as X.
  destruct (cassoc col ta), (cassoc col tb); try contradiction; [|exact I].
  pose proof (nrel_walk p _ _ X) as Y. destruct (walk p n), (walk p n0); try contradiction; [|exact I].
  inversion Y as [x y Hs|ka kb Hk]; subst; [exact I|].
  pose proof (krel_nassoc nm ka kb Hk) as Z. destruct (nassoc nm ka), (nassoc nm kb); try contradiction; [|exact I].
  inversion Z; subst; [assumption|exact I].
Qed.
Lemma trel_empty ta tb col : trel ta tb -> col_empty ta col = col_empty tb col.
Proof.
  intros H. unfold col_empty. pose proof (trel_cassoc col ta tb H) as X.
  destruct (cassoc col ta), (cassoc col tb); try contradiction; [|reflexivity].
  inversion X as [x y Hs|ka kb Hk]; subst; [reflexivity|]. inversion Hk; reflexivity.
Qed.
Lemma trel_present ta tb col : trel ta tb -> (cassoc col ta = None <-> cassoc col tb = None).
Proof. intros H. pose proof (trel_cassoc col ta tb H) as X. destruct (cassoc col ta), (cassoc col tb); try contradiction; split; congruence. Qed.
Lemma trel_put ta tb col p nm va vb : trel ta tb -> sveq va vb -> orel trel (put_var ta col p nm va) (put_var tb col p nm vb).
Proof.
  intros H Hv. unfold put_var. pose proof (trel_cassoc col ta tb H) as X.
  assert (Hr : nrel (match cassoc col ta with Some r => r | None => VNode [] end) (match cassoc col tb with Some r => r | None => VNode [] end)).
  { destruct (cassoc col ta), (cassoc col tb); try contradiction; [exact X|exact nrel_empty]. }
  pose proof (nrel_put_at p nm va vb _ _ Hv Hr) as Y.
  destruct (put_at p nm va _), (put_at p nm vb _); try contradiction; cbn [orel]; [|exact I]. now apply trel_cset.
Qed.

(* ---- values computed by the program ---- *)
Lemma vop_shape f a b a' b' : veq a a' -> veq b b' -> orel veq (vop f a b) (vop f a' b').
Proof.
  unfold veq, vop. intros Ha Hb. rewrite <- Ha, <- Hb.
  destruct (Nat.eqb (length a) (length b)) eqn:E; cbn [orel].
  - unfold veq. rewrite !map_length, !combine_length. lia.
  - destruct a as [|x [|x2 a]], a' as [|x' [|x2' a']]; cbn [length] in Ha; try discriminate;
      try (destruct b as [|y [|y2 b]], b' as [|y' [|y2' b']]; cbn [length] in Hb; try discriminate; cbn [orel]; unfold veq; rewrite ?map_length; cbn [length]; auto; lia).
Qed.

Definition lrel (la lb : list (N * vec)) : Prop := Forall2 (fun x y => fst x = fst y /\ veq (snd x) (snd y)) la lb.
Lemma lrel_lassoc x la lb : lrel la lb -> orel veq (lassoc x la) (lassoc x lb).
Proof.
  unfold lassoc. induction 1 as [|[k1 a] [k2 b] ra rb [Hk Hn] _ IH]; cbn [find option_map orel]; [exact I|]. cbn [fst snd] in *. subst k2.
  destruct (N.eqb x k1); [exact Hn|exact IH].
Qed.
Lemma eval_shape la lb x x' e : lrel la lb -> veq x x' -> orel veq (eval la x e) (eval lb x' e).
Proof.
  intros Hl Hx. induction e; cbn [eval].
  - exact Hx.
  - now apply lrel_lassoc.
  - cbn [orel]. reflexivity.
  - destruct (eval la x e1), (eval lb x' e1); try contradiction; [|exact I].
    destruct (eval la x e2), (eval lb x' e2); try contradiction; [|exact I]. now apply vop_shape.
  - destruct (eval la x e1), (eval lb x' e1); try contradiction; [|exact I].
    destruct (eval la x e2), (eval lb x' e2); try contradiction; [|exact I]. now apply vop_shape.
  - destruct (eval la x e), (eval lb x' e); try contradiction; [|exact I]. cbn [orel]. reflexivity.
Qed.

(* ---- states, frames, results ---- *)
Definition srel (a b : st) : Prop := trel (s_vars a) (s_vars b) /\ s_counters a = s_counters b /\ s_trace a = s_trace b.
Definition frel (a b : frame) : Prop :=
  lrel (f_locals a) (f_locals b) /\ f_resv a = f_resv b /\ f_auto a = f_auto b /\ f_insts a = f_insts b.
Definition rrel {A} (R : A -> A -> Prop) (x y : res A) : Prop :=
  match x, y with Ok a, Ok b => R a b | Err e, Err e' => e = e' | _, _ => False end.

Lemma make_rng_shape ev p stream sa sb : srel sa sb -> rrel srel (make_rng ev p stream sa) (make_rng ev p stream sb).
Proof.
  intros (Hv & Hc & Ht). unfold make_rng.
  destruct (if memN stream (e_streams ev) then Some stream else if memN (e_params ev) (e_streams ev) then Some (e_params ev) else None);
    cbn [rrel]; [|reflexivity]. rewrite Hc, Ht. repeat split; assumption.
Qed.
Lemma repeat_shape c n : veq (repeat c n) (repeat c n).  Proof. reflexivity. Qed.

Ltac rel2 H := match type of H with orel _ ?a ?b => destruct a, b; cbn [orel] in H; try contradiction end.
Ltac res2 H := match type of H with rrel _ ?a ?b => destruct a, b; cbn [rrel] in H; try contradiction end.

Section Sim.
  Variable ev : env.
  Variables callA callB : N -> path -> vec -> st -> res (vec * st).
  Definition outrel (a b : vec * st) : Prop := veq (fst a) (fst b) /\ srel (snd a) (snd b).
  Definition fsrel (a b : frame * st) : Prop := frel (fst a) (fst b) /\ srel (snd a) (snd b).
  Hypothesis call_sim : forall cls p v v' s s', veq v v' -> srel s s' -> rrel outrel (callA cls p v s) (callB cls p v' s').

  Lemma psize_shape n x x' : veq x x' -> psize n x = psize n x'.
  Proof. intros H. unfold psize. destruct n; [exact H|reflexivity]. Qed.

  Lemma lrel_cons x v v' la lb : veq v v' -> lrel la lb -> lrel ((x, v) :: la) ((x, v') :: lb).
  Proof. intros Hv Hl. constructor; [split; [reflexivity|exact Hv]|exact Hl]. Qed.

  Lemma step_shape p x x' fa fb sa sb c : veq x x' -> frel fa fb -> srel sa sb ->
    rrel fsrel (step ev callA p x fa sa c) (step ev callB p x' fb sb c).
  Proof.
    intros Hx (Hl & Hr & Ha & Hi) (Hv & Hc & Ht).
    destruct fa as [la ra aa ia], fb as [lb rb ab ib]. cbn [f_locals f_resv f_auto f_insts] in *. subst rb ab ib.
    destruct sa as [ta ca tra], sb as [tb cb trb]. cbn [s_vars s_counters s_trace] in *. subst cb trb.
    assert (SR : forall t t', trel t t' -> srel (mkSt t ca tra) (mkSt t' ca tra)) by (intros t t' H; repeat split; assumption).
    unfold step, mut. cbn [f_locals f_resv f_auto f_insts s_vars s_counters s_trace]. destruct c as [x0 nm n c0|x0 col nm n c0|col nm e|col nm e|x0 nm e|stream|x0 e|i cls nm|x0 i e].
    - (* SParam *)
      destruct (name_reserved ra nm (Some (e_params ev))); [reflexivity|].
      rewrite <- (trel_has ta tb (e_params ev) p nm Hv), <- (trel_empty ta tb (e_params ev) Hv).
      destruct (has_var ta (e_params ev) p nm).
      + pose proof (trel_get ta tb (e_params ev) p nm Hv) as G. rel2 G; [|reflexivity].
        destruct s as [v|vs], s0 as [v'|vs']; cbn [sveq] in G; try contradiction; [|reflexivity].
        rewrite <- (psize_shape n x x' Hx), <- G. destruct (Nat.eqb (length v) (psize n x)); [|reflexivity].
        split; [|now apply SR]. repeat split; cbn [f_locals f_resv f_auto f_insts]; auto. now apply lrel_cons.
      + destruct (negb (in_filter (e_mutable ev) (e_params ev))); [destruct (col_empty ta (e_params ev)); reflexivity|].
        pose proof (make_rng_shape ev p (e_params ev) _ _ (SR _ _ Hv)) as M. res2 M; [|exact M].
        destruct M as (Mv & Mc & Mt). rewrite <- (psize_shape n x x' Hx).
        pose proof (trel_put _ _ (e_params ev) p nm (SVec (repeat c0 (psize n x))) (SVec (repeat c0 (psize n x))) Mv eq_refl) as P.
        rel2 P; [|reflexivity]. split.
        * repeat split; cbn [f_locals f_resv f_auto f_insts]; auto. now apply lrel_cons.
        * repeat split; cbn [s_vars s_counters s_trace]; [exact P|exact Mc|now rewrite Mt].
    - (* SVar *)
      destruct (name_reserved ra nm (Some col)); [reflexivity|].
      rewrite <- (trel_has ta tb col p nm Hv), <- (trel_empty ta tb col Hv).
      destruct (has_var ta col p nm).
      + pose proof (trel_get ta tb col p nm Hv) as G. rel2 G; [|reflexivity].
        destruct s as [v|vs], s0 as [v'|vs']; cbn [sveq] in G; try contradiction; [|reflexivity].
        split; [|now apply SR]. repeat split; cbn [f_locals f_resv f_auto f_insts]; auto. now apply lrel_cons.
      + destruct (negb (in_filter (e_mutable ev) col)); [destruct (col_empty ta col); reflexivity|].
        pose proof (trel_put ta tb col p nm (SVec (repeat c0 n)) (SVec (repeat c0 n)) Hv eq_refl) as P.
        rel2 P; [|reflexivity]. split; [|now apply SR].
        repeat split; cbn [f_locals f_resv f_auto f_insts]; auto. now apply lrel_cons.
    - (* SVarSet *)
      pose proof (eval_shape la lb x x' e Hl Hx) as E. rel2 E; [|reflexivity].
      destruct (in_filter (e_mutable ev) col); [|reflexivity].
      pose proof (trel_put ta tb col p nm (SVec v) (SVec v0) Hv E) as P. rel2 P; [|reflexivity].
      split; [repeat split; auto|now apply SR].
    - (* SSow *)
      pose proof (eval_shape la lb x x' e Hl Hx) as E. rel2 E; [|reflexivity].
      destruct (negb (in_filter (e_mutable ev) col)); [split; [repeat split; auto|now apply SR]|].
      rewrite <- (trel_has ta tb col p nm Hv). destruct (has_var ta col p nm).
      + pose proof (trel_get ta tb col p nm Hv) as G. rel2 G; [|reflexivity].
        destruct s as [w|vs], s0 as [w'|vs']; cbn [sveq] in G; try contradiction; [reflexivity|].
        assert (S2 : sveq (STuple (vs ++ [v])) (STuple (vs' ++ [v0]))) by (cbn [sveq]; rewrite !map_app; f_equal; [exact G|cbn [map]; f_equal; exact E]).
        pose proof (trel_put ta tb col p nm _ _ Hv S2) as P. rel2 P; [|reflexivity].
        split; [repeat split; auto|now apply SR].
      + destruct (name_reserved ra nm (Some col)); [reflexivity|].
        assert (S2 : sveq (STuple [v]) (STuple [v0])) by (cbn [sveq map]; f_equal; exact E).
        pose proof (trel_put ta tb col p nm _ _ Hv S2) as P. rel2 P; [|reflexivity].
        split; [repeat split; auto|now apply SR].
    - (* SPerturb *)
      pose proof (eval_shape la lb x x' e Hl Hx) as E. rel2 E; [|reflexivity].
      rewrite <- (trel_has ta tb (e_perturb ev) p nm Hv).
      assert (Z0 : sveq (SVec (zeros_like v)) (SVec (zeros_like v0))) by (cbn [sveq]; unfold zeros_like; rewrite !map_length; exact E).
      assert (K : forall (ra' : resv) t t', trel t t' ->
        rrel fsrel
          (match cassoc (e_perturb ev) t with
           | None => Ok (mkFrame ((x0, v) :: la) ra' aa ia, mkSt t ca tra)
           | Some _ => match get_var t (e_perturb ev) p nm with
                       | Some (SVec old) => match vop add64 v old with
                                            | Some v' => Ok (mkFrame ((x0, v') :: la) ra' aa ia, mkSt t ca tra)
                                            | None => Err EOther end
                       | _ => Err EPerturbMissing end
           end)
          (match cassoc (e_perturb ev) t' with
           | None => Ok (mkFrame ((x0, v0) :: lb) ra' aa ia, mkSt t' ca tra)
           | Some _ => match get_var t' (e_perturb ev) p nm with
                       | Some (SVec old) => match vop add64 v0 old with
                                            | Some v' => Ok (mkFrame ((x0, v') :: lb) ra' aa ia, mkSt t' ca tra)
                                            | None => Err EOther end
                       | _ => Err EPerturbMissing end
           end)).
      { intros ra' t t' Ht. pose proof (trel_cassoc (e_perturb ev) t t' Ht) as X.
        destruct (cassoc (e_perturb ev) t), (cassoc (e_perturb ev) t'); try contradiction.
        - pose proof (trel_get t t' (e_perturb ev) p nm Ht) as G. rel2 G; [|reflexivity].
          destruct s as [w|vs], s0 as [w'|vs']; cbn [sveq] in G; try contradiction; [|reflexivity].
          pose proof (vop_shape add64 v w v0 w' E G) as V. rel2 V; [|reflexivity].
          split; [|now apply SR]. repeat split; cbn [f_locals f_resv f_auto f_insts]; auto. now apply lrel_cons.
        - split; [|now apply SR]. repeat split; cbn [f_locals f_resv f_auto f_insts]; auto. now apply lrel_cons. }
      destruct (in_filter (e_mutable ev) (e_perturb ev) && negb (has_var ta (e_perturb ev) p nm)).
      + destruct (name_reserved ra nm (Some (e_perturb ev))); [reflexivity|].
        pose proof (trel_put ta tb (e_perturb ev) p nm _ _ Hv Z0) as P. rel2 P; [|reflexivity].
        cbn [f_locals f_resv f_auto f_insts s_vars s_counters s_trace]. now apply K.
      + cbn [f_locals f_resv f_auto f_insts s_vars s_counters s_trace]. now apply K.
    - (* SRng *)
      pose proof (make_rng_shape ev p stream _ _ (SR _ _ Hv)) as M. res2 M; [|exact M].
      split; [repeat split; auto|exact M].
    - (* SLet *)
      pose proof (eval_shape la lb x x' e Hl Hx) as E. rel2 E; [|reflexivity].
      split; [|now apply SR]. repeat split; cbn [f_locals f_resv f_auto f_insts]; auto. now apply lrel_cons.
    - (* SChild *)
      destruct (match nm with
                | Some n => (NExp n, aa)
                | None => (NAuto cls match lassoc cls aa with Some k => k | None => 0 end,
                           (cls, S match lassoc cls aa with Some k => k | None => 0 end) :: filter (fun ck => negb (N.eqb cls (fst ck))) aa)
                end) as [name' auto'].
      destruct (name_reserved ra name' None); [reflexivity|].
      split; [repeat split; auto|now apply SR].
    - (* SCall *)
      pose proof (eval_shape la lb x x' e Hl Hx) as E. rel2 E.
      + destruct (lassoc i ia) as [[cls cp]|]; [|reflexivity].
        pose proof (call_sim cls cp v v0 _ _ E (SR _ _ Hv)) as Cs.
        destruct (callA cls cp v _) as [[y s1]|ea], (callB cls cp v0 _) as [[y' s1']|eb]; cbn [rrel] in Cs; try contradiction; [|exact Cs].
        destruct Cs as [Cy Cs]. cbn [fst snd] in *.
        split; [|exact Cs]. repeat split; cbn [f_locals f_resv f_auto f_insts]; auto. now apply lrel_cons.
      + reflexivity.
  Qed.

  Lemma steps_shape p x x' : veq x x' -> forall cs fa fb sa sb, frel fa fb -> srel sa sb ->
    rrel fsrel (steps ev callA p x fa sa cs) (steps ev callB p x' fb sb cs).
  Proof.
    intros Hx. induction cs as [|c r IH]; intros fa fb sa sb Hf Hs; cbn [steps].
    - split; assumption.
    - pose proof (step_shape p x x' fa fb sa sb c Hx Hf Hs) as S.
      destruct (step ev callA p x fa sa c) as [[f1 s1]|ea], (step ev callB p x' fb sb c) as [[f2 s2]|eb]; cbn [rrel] in S; try contradiction; [|exact S].
      destruct S as [S1 S2]. now apply IH.
  Qed.
End Sim.

Theorem run_call_shape ev : forall fuel cls p x x' s s', veq x x' -> srel s s' ->
  rrel outrel (run_call fuel ev cls p x s) (run_call fuel ev cls p x' s').
Proof.
  induction fuel as [|f IH]; intros cls p x x' s s' Hx Hs; cbn [run_call]; [reflexivity|].
  destruct (lassoc cls (e_classes ev)) as [[body ret]|]; [|reflexivity].
  assert (F0 : frel frame0 frame0) by (repeat split; constructor).
  pose proof (steps_shape ev (run_call f ev) (run_call f ev) IH p x x' Hx body frame0 frame0 s s' F0 Hs) as S.
  destruct (steps ev (run_call f ev) p x frame0 s body) as [[f1 s1]|ea], (steps ev (run_call f ev) p x' frame0 s' body) as [[f2 s2]|eb]; cbn [rrel] in S; try contradiction; [|exact S].
  destruct S as [(Hl & _) S2]. cbn [fst snd] in *.
  pose proof (eval_shape _ _ x x' ret Hl Hx) as E. rel2 E; [|reflexivity]. split; assumption.
Qed.

(* init / apply on inputs of the same shape and variables of the same structure and shapes: the same error, or outputs and
   variable trees of the same structure and shapes, the same rng counters and the same trace of keys and initialisations *)
Theorem shape_only_agrees ev top vars vars' x x' : veq x x' -> trel vars vars' ->
  rrel outrel (apply_m ev top vars x) (apply_m ev top vars' x').
Proof. intros Hx Hv. unfold apply_m. apply run_call_shape; [exact Hx|]. repeat split; assumption. Qed.
