From Coq Require Import Lia Permutation Sorting.Sorted.
From Flaxm Require Import Lib.Harness Model.Ckpt.

(* ---------------- names and directories ---------------- *)
Lemma fname_eqb_eq a b : fname_eqb a b = true <-> a = b.
Proof.
  destruct a, b; simpl; split; intros H; try discriminate; try reflexivity;
    try (apply Z.eqb_eq in H; now subst); try (inversion H; apply Z.eqb_refl);
    try (apply N.eqb_eq in H; now subst); try (inversion H; apply N.eqb_refl).
Qed.
Lemma fname_eqb_refl a : fname_eqb a a = true.  Proof. now apply fname_eqb_eq. Qed.
Lemma fname_eqb_neq a b : fname_eqb a b = false <-> a <> b.
Proof. split; intros H. - intros E. apply fname_eqb_eq in E. congruence. - destruct (fname_eqb a b) eqn:E; auto. apply fname_eqb_eq in E. contradiction. Qed.

Lemma dlookup_dremove n m d : dlookup n (dremove m d) = if fname_eqb n m then None else dlookup n d.
Proof.
  induction d as [|[k e] r IH]; simpl; [destruct (fname_eqb n m); reflexivity|].
  destruct (fname_eqb m k) eqn:Emk.
  - rewrite IH. apply fname_eqb_eq in Emk. subst k. destruct (fname_eqb n m) eqn:Enm; [reflexivity|]. reflexivity.
  - simpl. rewrite IH. destruct (fname_eqb n k) eqn:Enk; [|reflexivity].
    apply fname_eqb_eq in Enk. subst k. destruct (fname_eqb n m) eqn:Enm; [|reflexivity].
    apply fname_eqb_eq in Enm. subst. rewrite fname_eqb_refl in Emk. discriminate.
Qed.
Lemma dlookup_dset n m e d : dlookup n (dset m e d) = if fname_eqb n m then Some e else dlookup n d.
Proof. unfold dset. simpl. destruct (fname_eqb n m) eqn:E; [reflexivity|]. rewrite dlookup_dremove, E. reflexivity. Qed.

Definition present (d : dir) (s : Z) : Prop := dlookup (NStep s) d <> None.

Lemma dlookup_in n d : dlookup n d <> None <-> In n (map fst d).
Proof.
  induction d as [|[k e] r IH]; simpl; [tauto|]. destruct (fname_eqb n k) eqn:E.
  - apply fname_eqb_eq in E. subst. split; [auto|discriminate].
  - rewrite IH. apply fname_eqb_neq in E. split; [auto|]. intros [H|H]; [congruence|exact H].
Qed.

(* ---------------- the natural sort on step names is a sort of the integers ---------------- *)
Fixpoint zinsert (x : Z) (l : list Z) : list Z :=
  match l with [] => [x] | y :: r => if (x <=? y)%Z then x :: l else y :: zinsert x r end.
Definition zsort (l : list Z) : list Z := fold_right zinsert [] l.
Definition steps_z (d : dir) : list Z := flat_map (fun n => match n with NStep s => [s] | _ => [] end) (map fst d).

Lemma insert_sorted_steps x l : insert_sorted (NStep x) (map NStep l) = map NStep (zinsert x l).
Proof. induction l as [|y r IH]; simpl; [reflexivity|]. destruct (x <=? y)%Z; simpl; [reflexivity|]. now rewrite IH. Qed.
Lemma natural_sort_steps l : natural_sort (map NStep l) = map NStep (zsort l).
Proof. induction l as [|x r IH]; [reflexivity|]. change (natural_sort (map NStep (x :: r))) with (insert_sorted (NStep x) (natural_sort (map NStep r))). rewrite IH. apply insert_sorted_steps. Qed.
Lemma filter_steps d : filter is_step (map fst d) = map NStep (steps_z d).
Proof. unfold steps_z. induction (map fst d) as [|n r IH]; simpl; [reflexivity|]. destruct n; simpl; rewrite IH; reflexivity. Qed.
Lemma all_checkpoints_z d : all_checkpoints d = map NStep (zsort (steps_z d)).
Proof. unfold all_checkpoints. now rewrite filter_steps, natural_sort_steps. Qed.

Lemma steps_z_in d s : In s (steps_z d) <-> present d s.
Proof.
  unfold present. rewrite dlookup_in. unfold steps_z. rewrite in_flat_map. split.
  - intros (n & Hn & Hs). destruct n; simpl in Hs; try contradiction. destruct Hs as [->|[]]. exact Hn.
  - intros H. exists (NStep s). split; [exact H|simpl; auto].
Qed.

Lemma zinsert_perm x l : Permutation (zinsert x l) (x :: l).
Proof. induction l as [|y r IH]; simpl; [auto|]. destruct (x <=? y)%Z; [auto|]. eapply perm_trans; [apply perm_skip, IH|apply perm_swap]. Qed.
Lemma zsort_perm l : Permutation (zsort l) l.
Proof. induction l as [|x r IH]; simpl; [auto|]. eapply perm_trans; [apply zinsert_perm|]. now constructor. Qed.
Lemma zinsert_sorted x l : StronglySorted Z.le l -> StronglySorted Z.le (zinsert x l).
Proof.
  induction 1 as [|y r Hs IH Hf]; simpl; [repeat constructor|].
  destruct (Z.leb_spec x y).
  - constructor; [constructor; assumption|]. constructor; [exact H|]. eapply Forall_impl; [|exact Hf]. intros; lia.
  - constructor; [exact IH|]. apply Forall_forall. intros z Hz. apply (Permutation_in _ (zinsert_perm x r)) in Hz.
    destruct Hz as [<-|Hz]; [lia|]. rewrite Forall_forall in Hf. now apply Hf.
Qed.
Lemma zsort_sorted l : StronglySorted Z.le (zsort l).
Proof. induction l as [|x r IH]; simpl; [constructor|]. now apply zinsert_sorted. Qed.

Lemma last_map_some (l : list Z) : last (map Some (map NStep l)) None = match l with [] => None | _ => Some (NStep (last l 0%Z)) end.
Proof. induction l as [|x r IH]; [reflexivity|]. destruct r as [|y r']; [reflexivity|]. change (last (map Some (map NStep (x :: y :: r'))) None) with (last (map Some (map NStep (y :: r'))) None). rewrite IH. reflexivity. Qed.

Lemma sorted_last_max l : StronglySorted Z.le l -> forall x, In x l -> (x <= last l 0)%Z.
Proof.
  induction 1 as [|y r Hs IH Hf]; intros x Hx; [contradiction|]. destruct r as [|z r'].
  - destruct Hx as [->|[]]. simpl. lia.
  - change (last (y :: z :: r') 0%Z) with (last (z :: r') 0%Z). destruct Hx as [->|Hx]; [|now apply IH].
    rewrite Forall_forall in Hf. assert (In (last (z :: r') 0%Z) (z :: r')) by (apply exists_last' || (clear; revert z; induction r' as [|a r IHr]; intros z; [left; reflexivity|right; apply IHr])).
    now apply Hf.
Qed.
Lemma last_in (l : list Z) : l <> [] -> In (last l 0%Z) l.
Proof. induction l as [|x r IH]; [congruence|]. intros _. destruct r as [|y r']; [left; reflexivity|]. right. apply IH. discriminate. Qed.

(* 'latest' is the numerically largest step present *)
Theorem latest_spec d :
  match latest d with
  | Some n => exists M, n = NStep M /\ present d M /\ forall s, present d s -> (s <= M)%Z
  | None => forall s, ~ present d s
  end.
Proof.
  unfold latest. rewrite all_checkpoints_z, last_map_some. destruct (zsort (steps_z d)) as [|x r] eqn:E.
  - intros s Hs. apply steps_z_in in Hs. apply (Permutation_in _ (Permutation_sym (zsort_perm _))) in Hs. rewrite E in Hs. contradiction.
  - rewrite <- E. exists (last (zsort (steps_z d)) 0%Z). split; [reflexivity|]. split.
    + apply steps_z_in. apply (Permutation_in _ (zsort_perm _)). apply last_in. rewrite E. discriminate.
    + intros s Hs. apply sorted_last_max; [apply zsort_sorted|]. apply (Permutation_in _ (Permutation_sym (zsort_perm _))). now apply steps_z_in.
Qed.

Lemma latest_is M d : present d M -> (forall s, present d s -> (s <= M)%Z) -> latest d = Some (NStep M).
Proof.
  intros HM Hmax. pose proof (latest_spec d) as S. destruct (latest d) as [n|].
  - destruct S as (M' & -> & HM' & Hmax'). f_equal. f_equal. specialize (Hmax _ HM'). specialize (Hmax' _ HM). lia.
  - exfalso. exact (S M HM).
Qed.
Lemma latest_none d : (forall s, ~ present d s) -> latest d = None.
Proof. intros H. pose proof (latest_spec d) as S. destruct (latest d) as [n|]; [|reflexivity]. destruct S as (M & _ & HM & _). exfalso. exact (H M HM). Qed.
Lemma latest_ext d d' : (forall s, present d s <-> present d' s) -> latest d = latest d'.
Proof.
  intros H. pose proof (latest_spec d) as S. destruct (latest d) as [n|].
  - destruct S as (M & -> & HM & Hmax). symmetry. apply latest_is; [now apply H|]. intros s Hs. apply Hmax. now apply H.
  - symmetry. apply latest_none. intros s Hs. apply (S s). now apply H.
Qed.

(* ---------------- the effect of atomic operations on the step names ---------------- *)
Definition is_tmp (n : fname) : bool := match n with NTmp | NOrbTmp _ => true | _ => false end.

Lemma neq_tmp_step n s : is_tmp n = true -> fname_eqb (NStep s) n = false.
Proof. destruct n; simpl; congruence. Qed.

Definition LatestOK (d : dir) : Prop := match latest d with Some n => restore d n <> None | None => True end.

Lemma restore_lookup d d' n : dlookup n d' = dlookup n d -> restore d' n = restore d n.
Proof. unfold restore. now intros ->. Qed.

(* operations that only touch names in `touched` and never the step M *)
Definition below (M : Z) (o : fsop) : Prop :=
  match o with
  | OpRemove (NStep x) | OpRmtreeBegin (NStep x) | OpRmtreeEnd (NStep x) => (x < M)%Z
  | _ => False
  end.

Lemma exec_below M o d : below M o -> present d M -> (forall s, present d s -> (s <= M)%Z) ->
  present (exec_op d o) M /\ (forall s, present (exec_op d o) s -> (s <= M)%Z) /\
  dlookup (NStep M) (exec_op d o) = dlookup (NStep M) d.
Proof.
  intros Hb HM Hmax. unfold present in *.
  assert (NE : forall x, (x < M)%Z -> fname_eqb (NStep M) (NStep x) = false) by (intros x Hx; simpl; apply Z.eqb_neq; lia).
  destruct o as [n|n p|n|n p|a b|n|n|n]; simpl in Hb; try contradiction; destruct n as [x| |x|x]; try contradiction; simpl.
  - (* remove *) rewrite dlookup_dremove, (NE x Hb). split; [exact HM|]. split; [|reflexivity].
    intros s Hs. rewrite dlookup_dremove in Hs. destruct (fname_eqb (NStep s) (NStep x)); [congruence|now apply Hmax].
  - (* rmtree begin *) destruct (dlookup (NStep x) d) as [[c|c]|] eqn:E; try (split; [exact HM|split; [exact Hmax|reflexivity]]).
    rewrite dlookup_dset, (NE x Hb). split; [exact HM|]. split; [|reflexivity].
    intros s Hs. rewrite dlookup_dset in Hs. destruct (fname_eqb (NStep s) (NStep x)) eqn:Es; [|now apply Hmax].
    apply fname_eqb_eq in Es. inversion Es; subst. apply Hmax. rewrite E. discriminate.
  - (* rmtree end *) rewrite dlookup_dremove, (NE x Hb). split; [exact HM|]. split; [|reflexivity].
    intros s Hs. rewrite dlookup_dremove in Hs. destruct (fname_eqb (NStep s) (NStep x)); [congruence|now apply Hmax].
Qed.

Lemma exec_ops_below M ops : Forall (below M) ops -> forall d, present d M -> (forall s, present d s -> (s <= M)%Z) ->
  latest (exec_ops ops d) = Some (NStep M) /\ dlookup (NStep M) (exec_ops ops d) = dlookup (NStep M) d.
Proof.
  induction 1 as [|o r Ho Hr IH]; intros d HM Hmax; simpl.
  - split; [now apply latest_is|reflexivity].
  - destruct (exec_below M o d Ho HM Hmax) as (HM' & Hmax' & HL). destruct (IH _ HM' Hmax') as [A B]. split; [exact A|congruence].
Qed.

Lemma firstn_In {A} k : forall (l : list A) x, In x (firstn k l) -> In x l.
Proof. induction k as [|k IH]; intros [|a r] x H; simpl in *; try contradiction. destruct H as [->|H]; [now left|right; now apply IH]. Qed.

Lemma firstn_mono_In {A} : forall m n (l : list A) x, m <= n -> In x (firstn m l) -> In x (firstn n l).
Proof.
  induction m as [|m IH]; intros n l x Hmn H; [simpl in H; contradiction|]. destruct n as [|n]; [lia|]. destruct l as [|a r]; [simpl in H; contradiction|].
  simpl in *. destruct H as [->|H]; [now left|right; apply (IH n); [lia|exact H]].
Qed.

Lemma Forall_firstn {A} (P : A -> Prop) k l : Forall P l -> Forall P (firstn k l).
Proof. intros H. apply Forall_forall. intros x Hx. rewrite Forall_forall in H. apply H. eapply firstn_In; eauto. Qed.

(* ---------------- what retention may delete ---------------- *)
Lemma retain_old_incl every : forall olds lk x, In x (retain_old every lk olds) -> In x olds.
Proof.
  induction olds as [|n r IH]; intros lk x H; simpl in *; [contradiction|]. destruct every as [ev|].
  - destruct (negb (step_of n =? 0)%Z && match lk with Some l => (ev <=? step_of n - l)%Z | None => true end);
      [right; eapply IH; eauto|destruct H as [->|H]; [now left|right; eapply IH; eauto]].
  - destruct H as [->|H]; [now left|right; eapply IH; eauto].
Qed.

Lemma sorted_nodup_firstn l k : StronglySorted Z.le l -> NoDup l -> 1 <= k -> forall x, In x (firstn (length l - k) l) -> (x < last l 0)%Z.
Proof.
  intros Hs Hn Hk x Hx.
  assert (Hx' : In x (removelast l)).
  { destruct l as [|a r]; [simpl in Hx; contradiction|]. rewrite removelast_firstn_len.
    eapply firstn_mono_In; [|exact Hx]. cbn [length Init.Nat.pred]. lia. }
  destruct l as [|a r]; [contradiction|]. assert (Hne : a :: r <> []) by discriminate.
  pose proof (app_removelast_last 0%Z Hne) as E. set (m := last (a :: r) 0%Z) in *. set (rl := removelast (a :: r)) in *.
  rewrite E in Hs, Hn.
  assert (x <= m)%Z.
  { clear -Hs Hx'. induction rl as [|y t IH]; [contradiction|]. simpl in Hs. inversion Hs as [|? ? Hs' Hf]; subst.
    destruct Hx' as [->|Hx']; [|now apply IH]. rewrite Forall_forall in Hf. apply Hf. apply in_or_app. right. left. reflexivity. }
  assert (x <> m).
  { intros ->. apply NoDup_remove_2 in Hn. apply Hn. rewrite app_nil_r. exact Hx'. }
  lia.
Qed.

Definition wfd (d : dir) : Prop := NoDup (map fst d).
Lemma steps_z_nodup d : wfd d -> NoDup (steps_z d).
Proof.
  unfold wfd, steps_z. induction (map fst d) as [|n r IH]; intros ND; simpl; [constructor|]. inversion ND as [|? ? Hn Hr]; subst.
  destruct n; simpl; try (now apply IH). constructor; [|now apply IH].
  intros Hin. apply Hn. apply in_flat_map in Hin as (m & Hm & Hs). destruct m; simpl in Hs; try contradiction. destruct Hs as [->|[]]. exact Hm.
Qed.

Lemma dremove_names n d : forall x, In x (map fst (dremove n d)) <-> In x (map fst d) /\ x <> n.
Proof.
  induction d as [|[k e] r IH]; intros x; simpl; [tauto|]. destruct (fname_eqb n k) eqn:E.
  - apply fname_eqb_eq in E. subst k. rewrite IH. split; [tauto|]. intros [[->|H] Hn]; [congruence|tauto].
  - simpl. rewrite IH. apply fname_eqb_neq in E. split; [intros [->|[H Hn]]; [split; [auto|congruence]|tauto]|tauto].
Qed.
Lemma wfd_dremove n d : wfd d -> wfd (dremove n d).
Proof.
  unfold wfd. induction d as [|[k e] r IH]; intros ND; simpl; [constructor|]. inversion ND as [|? ? Hn Hr]; subst.
  destruct (fname_eqb n k); [now apply IH|]. simpl. constructor; [|now apply IH]. intros H. apply dremove_names in H. tauto.
Qed.
Lemma wfd_dset n e d : wfd d -> wfd (dset n e d).
Proof. intros H. unfold wfd, dset. simpl. constructor; [|now apply wfd_dremove]. intros Hin. apply dremove_names in Hin. tauto. Qed.
Lemma wfd_exec_op d o : wfd d -> wfd (exec_op d o).
Proof.
  intros H. destruct o; simpl; auto using wfd_dset, wfd_dremove.
  - destruct (dlookup src d); auto using wfd_dset, wfd_dremove.
  - destruct (dlookup n d) as [[|]|]; auto using wfd_dset.
Qed.
Lemma wfd_exec_ops ops : forall d, wfd d -> wfd (exec_ops ops d).
Proof. induction ops as [|o r IH]; intros d H; simpl; [exact H|]. apply IH. now apply wfd_exec_op. Qed.

(* without overwrite, every operation of the retention pass is a removal of a step strictly below the maximum *)
Lemma retention_below d q M : r_overwrite q = false -> wfd d -> present d M -> (forall s, present d s -> (s <= M)%Z) ->
  Forall (below M) (retention_ops d q).
Proof.
  intros Hov Hw HM Hmax. unfold retention_ops. apply Forall_forall. intros o Ho. apply in_flat_map in Ho as (n & Hn & Ho).
  unfold retention_deletes in Hn. rewrite Hov in Hn. fold (all_checkpoints d) in Hn. rewrite all_checkpoints_z in Hn. simpl in Hn.
  destruct (Nat.ltb (r_keep q) (length (map NStep (zsort (steps_z d))))); [|contradiction].
  apply retain_old_incl in Hn. destruct (Nat.eqb_spec (r_keep q) 0) as [|Hk]; [contradiction|].
  rewrite firstn_map in Hn. apply in_map_iff in Hn as (x & <- & Hx). rewrite map_length in Hx.
  assert (Hlt : (x < M)%Z).
  { assert (E : last (zsort (steps_z d)) 0%Z = M).
    { pose proof (latest_is M d HM Hmax) as L. unfold latest in L. rewrite all_checkpoints_z, last_map_some in L.
      destruct (zsort (steps_z d)); [discriminate|]. now inversion L. }
    rewrite <- E. eapply sorted_nodup_firstn; [apply zsort_sorted| |exact (proj1 (Nat.le_succ_l 0 _) (proj1 (Nat.neq_0_lt_0 _) Hk))|exact Hx].
    eapply Permutation_NoDup; [apply Permutation_sym, zsort_perm|]. now apply steps_z_nodup. }
  unfold remove_ops in Ho. destruct (dlookup (NStep x) d) as [[c|c]|]; simpl in Ho;
    repeat (destruct Ho as [<-|Ho]; [simpl; exact Hlt|]); contradiction.
Qed.

(* ---------------- crash safety without overwrite (both back-ends) ---------------- *)
Lemma firstn_app_cases {A} k (a b : list A) : firstn k (a ++ b) = firstn k a ++ firstn (k - length a) b.
Proof. apply firstn_app. Qed.

Lemma present_max_or_new d s M : present d M -> (forall x, present d x -> (x <= M)%Z) ->
  exists M', (M' = M \/ M' = s) /\ (M <= M')%Z /\ (s <= M')%Z.
Proof. intros _ _. destruct (Z.le_gt_cases s M); [exists M|exists s]; split; auto; lia. Qed.

(* the three operations of the main phase, for a temporary name tmp *)
Lemma main_phase d tmp me c1 c2 (mk : content -> entry) :
  is_tmp tmp = true -> me = NStep (step_of me) ->
  let o1 := exec_op d c1 in let o2 := exec_op o1 c2 in
  forall s p, me = NStep s ->
  (c1 = OpCreate tmp /\ c2 = OpWrite tmp p /\ mk = EFile) \/ (c1 = OpMkTmpDir tmp /\ c2 = OpFillDir tmp p /\ mk = EDir) ->
  (forall x, dlookup (NStep x) o1 = dlookup (NStep x) d) /\
  (forall x, dlookup (NStep x) o2 = dlookup (NStep x) d) /\
  (forall x, dlookup (NStep x) (exec_op o2 (OpRename tmp me)) = if Z.eqb x s then Some (mk (Complete p)) else dlookup (NStep x) d).
Proof.
  intros Ht _ o1 o2 s p -> Hc.
  assert (T : forall x, fname_eqb (NStep x) tmp = false) by (intros x; now apply neq_tmp_step).
  assert (G : forall e1 e2 x,
    dlookup (NStep x) (exec_op (dset tmp e2 (dset tmp e1 d)) (OpRename tmp (NStep s))) = if Z.eqb x s then Some e2 else dlookup (NStep x) d).
  { intros e1 e2 x. cbn [exec_op]. rewrite dlookup_dset, fname_eqb_refl, dlookup_dset.
    change (fname_eqb (NStep x) (NStep s)) with (Z.eqb x s). destruct (Z.eqb x s); [reflexivity|].
    rewrite dlookup_dremove, T, !dlookup_dset, !T. reflexivity. }
  destruct Hc as [(-> & -> & ->)|(-> & -> & ->)]; subst o1 o2; cbn [exec_op].
  - split; [intros x; now rewrite dlookup_dset, T|]. split; [intros x; now rewrite !dlookup_dset, !T|]. intros x. apply (G (EFile Partial) (EFile (Complete p))).
  - split; [intros x; now rewrite dlookup_dset, T|]. split; [intros x; now rewrite !dlookup_dset, !T|]. intros x. apply (G (EDir Partial) (EDir (Complete p))).
Qed.

Lemma latest_same d d' : (forall x, dlookup (NStep x) d' = dlookup (NStep x) d) -> latest d' = latest d /\ (LatestOK d -> LatestOK d').
Proof.
  intros H. assert (L : latest d' = latest d) by (apply latest_ext; intros s; unfold present; now rewrite H).
  split; [exact L|]. unfold LatestOK. rewrite L. pose proof (latest_spec d) as S. destruct (latest d) as [n|]; [|auto].
  destruct S as (M & -> & _). unfold restore. now rewrite H.
Qed.

(* the general shape: main = [c1; c2; rename], then retention *)
Lemma crash_shape d q tmp c1 c2 mk k :
  r_overwrite q = false -> wfd d -> LatestOK d -> ~ present d (r_step q) ->
  is_tmp tmp = true ->
  (c1 = OpCreate tmp /\ c2 = OpWrite tmp (r_payload q) /\ mk = EFile) \/ (c1 = OpMkTmpDir tmp /\ c2 = OpFillDir tmp (r_payload q) /\ mk = EDir) ->
  let main := [c1; c2; OpRename tmp (NStep (r_step q))] in
  let d3 := exec_ops main d in
  let d' := exec_ops (firstn k (main ++ retention_ops d3 q)) d in
  LatestOK d' /\ (latest d' = latest d \/ latest d' = Some (NStep (r_step q))).
Proof.
  intros Hov Hw Hok Hnew Ht Hc main d3 d'.
  destruct (main_phase d tmp (NStep (r_step q)) c1 c2 mk Ht eq_refl (r_step q) (r_payload q) eq_refl Hc) as (S1 & S2 & S3).
  subst d'. rewrite firstn_app_cases.
  destruct k as [|[|[|k]]]; cbn [firstn main length Nat.sub app exec_ops fold_left].
  - split; [exact Hok|now left].
  - rewrite firstn_nil || idtac. destruct (latest_same d (exec_op d c1) S1) as [L O]. simpl. rewrite ?firstn_nil. simpl. split; [now apply O|now left].
  - destruct (latest_same d (exec_op (exec_op d c1) c2) S2) as [L O]. rewrite ?firstn_nil. simpl. split; [now apply O|now left].
  - (* the rename has happened; then a prefix of the retention pass *)
    set (s := r_step q) in *. set (dr := exec_op (exec_op (exec_op d c1) c2) (OpRename tmp (NStep s))).
    assert (Ed3 : d3 = dr) by reflexivity.
    assert (Pres : forall x, present dr x <-> x = s \/ present d x).
    { intros x. unfold present. unfold dr. rewrite S3. destruct (Z.eqb_spec x s); [split; [auto|discriminate]|]. split; [auto|]. intros [?|?]; [contradiction|assumption]. }
    assert (Hwr : wfd dr) by (unfold dr; repeat apply wfd_exec_op; exact Hw).
    (* the maximum after the rename *)
    assert (HM : exists M, present dr M /\ (forall x, present dr x -> (x <= M)%Z) /\
                 (latest dr = latest d \/ latest dr = Some (NStep s)) /\ restore dr (NStep M) <> None).
    { pose proof (latest_spec d) as LS. unfold LatestOK in Hok. destruct (latest d) as [n|] eqn:EL.
      - destruct LS as (M0 & -> & HM0 & Hmax0). destruct (Z.le_gt_cases s M0).
        + exists M0. split; [apply Pres; auto|]. split; [intros x Hx; apply Pres in Hx as [->|Hx]; [lia|now apply Hmax0]|].
          assert (EM : latest dr = Some (NStep M0)) by (apply latest_is; [apply Pres; auto|intros x Hx; apply Pres in Hx as [->|Hx]; [lia|now apply Hmax0]]).
          split; [left; exact EM|]. unfold restore. unfold dr. rewrite S3.
          destruct (Z.eqb_spec M0 s) as [->|_]; [exfalso; apply Hnew; exact HM0|]. exact Hok.
        + exists s. split; [apply Pres; auto|]. split; [intros x Hx; apply Pres in Hx as [->|Hx]; [lia|specialize (Hmax0 _ Hx); lia]|].
          split; [right; apply latest_is; [apply Pres; auto|intros x Hx; apply Pres in Hx as [->|Hx]; [lia|specialize (Hmax0 _ Hx); lia]]|].
          unfold restore, dr. rewrite S3, Z.eqb_refl. destruct Hc as [(_ & _ & ->)|(_ & _ & ->)]; discriminate.
      - exists s. split; [apply Pres; auto|]. split; [intros x Hx; apply Pres in Hx as [->|Hx]; [lia|exfalso; exact (LS x Hx)]|].
        split; [right; apply latest_is; [apply Pres; auto|intros x Hx; apply Pres in Hx as [->|Hx]; [lia|exfalso; exact (LS x Hx)]]|].
        unfold restore, dr. rewrite S3, Z.eqb_refl. destruct Hc as [(_ & _ & ->)|(_ & _ & ->)]; discriminate. }
    destruct HM as (M & HMp & HMmax & HL & HR).
    pose proof (retention_below dr q M Hov Hwr HMp HMmax) as RB. rewrite Ed3.
    destruct (exec_ops_below M (firstn (k - 0) (retention_ops dr q)) (Forall_firstn _ _ _ RB) dr HMp HMmax) as [A B].
    rewrite firstn_nil. cbn [app].
    change (fold_left exec_op (firstn (k - 0) (retention_ops dr q)) dr) with (exec_ops (firstn (k - 0) (retention_ops dr q)) dr).
    split.
    + unfold LatestOK. rewrite A. unfold restore in *. rewrite B. exact HR.
    + rewrite A. rewrite (latest_is M dr HMp HMmax) in HL. exact HL.
Qed.

Lemma check_saved_not_present d s : check_overwrite d s = Saved -> ~ present d s.
Proof.
  unfold check_overwrite. destruct (existsb (fname_eqb (NStep s)) (filter matches_prefix (map fst d))) eqn:E; [discriminate|].
  intros _ Hp. apply dlookup_in in Hp.
  assert (existsb (fname_eqb (NStep s)) (filter matches_prefix (map fst d)) = true); [|congruence].
  apply existsb_exists. exists (NStep s). split; [apply filter_In; split; [exact Hp|reflexivity]|apply fname_eqb_refl].
Qed.

(* If save_checkpoint (either back-end, no overwrite) dies after ANY number k of atomic file-system operations,
   the latest checkpoint is still complete and restorable, and it is the previous latest or the new one. *)
Theorem crash_safe d q k : r_overwrite q = false -> wfd d -> LatestOK d ->
  let d' := fst (run_save d q (Some k)) in
  LatestOK d' /\ (latest d' = latest d \/ latest d' = Some (NStep (r_step q))) /\ wfd d'.
Proof.
  intros Hov Hw Hok. unfold run_save, save_ops. rewrite Hov. destruct (r_orbax q).
  - destruct (dlookup (NStep (r_step q)) d) eqn:E.
    + simpl. rewrite firstn_nil. simpl. split; [exact Hok|split; [now left|exact Hw]].
    + cbn [fst]. assert (Hnew : ~ present d (r_step q)) by (unfold present; rewrite E; tauto).
      destruct (crash_shape d q (NOrbTmp (r_step q)) _ _ EDir k Hov Hw Hok Hnew eq_refl (or_intror (conj eq_refl (conj eq_refl eq_refl)))) as [A B].
      split; [exact A|]. split; [exact B|]. now apply wfd_exec_ops.
  - destruct (check_overwrite d (r_step q)) eqn:E.
    + cbn [fst]. pose proof (check_saved_not_present _ _ E) as Hnew.
      destruct (crash_shape d q NTmp _ _ EFile k Hov Hw Hok Hnew eq_refl (or_introl (conj eq_refl (conj eq_refl eq_refl)))) as [A B].
      split; [exact A|]. split; [exact B|]. now apply wfd_exec_ops.
    + simpl. rewrite firstn_nil. simpl. split; [exact Hok|split; [now left|exact Hw]].
    + simpl. rewrite firstn_nil. simpl. split; [exact Hok|split; [now left|exact Hw]].
Qed.

(* a completed save is the case "no crash"; the same proof covers it *)
Lemma run_save_none_as_some d q : fst (run_save d q None) = fst (run_save d q (Some (length (snd (save_ops d q))))).
Proof. unfold run_save. destruct (save_ops d q) as [o ops]. simpl. now rewrite firstn_all. Qed.

(* ... hence for every history of saves without overwrite, each of which may die at any point *)
Theorem history_safe h : Forall (fun qc => r_overwrite (fst qc) = false) h -> forall d, wfd d -> LatestOK d ->
  LatestOK (run_history h d) /\ wfd (run_history h d).
Proof.
  induction 1 as [|[q c] r Hq Hr IH]; intros d Hw Hok; simpl; [auto|]. simpl in Hq. apply IH.
  - destruct c as [k|]; [|rewrite run_save_none_as_some]; apply (crash_safe d q _ Hq Hw Hok).
  - destruct c as [k|]; [|rewrite run_save_none_as_some]; apply (crash_safe d q _ Hq Hw Hok).
Qed.

(* a save at an existing step without overwrite raises and changes nothing (both back-ends) *)
Theorem existing_step_raises_unchanged d q c : r_overwrite q = false -> present d (r_step q) ->
  run_save d q c = (d, ErrExists).
Proof.
  intros Hov Hp. unfold run_save, save_ops. rewrite Hov. destruct (r_orbax q).
  - unfold present in Hp. destruct (dlookup (NStep (r_step q)) d); [|contradiction]. destruct c; simpl; rewrite ?firstn_nil; reflexivity.
  - unfold check_overwrite.
    assert (existsb (fname_eqb (NStep (r_step q))) (filter matches_prefix (map fst d)) = true) as ->.
    { apply existsb_exists. exists (NStep (r_step q)). split; [|apply fname_eqb_refl]. apply filter_In. split; [now apply dlookup_in|reflexivity]. }
    destruct c; simpl; rewrite ?firstn_nil; reflexivity.
Qed.

(* ---------------- the legacy back-end rejects every step older than the latest ---------------- *)
Definition nle (a b : fname) : Prop := name_le a b = true.
Lemma name_le_trans a b c : nle a b -> nle b c -> nle a c.
Proof. unfold nle. destruct a, b, c; simpl; intros H1 H2; try reflexivity; try discriminate; try lia. Qed.
Lemma name_le_total a b : nle a b \/ nle b a.
Proof. unfold nle. destruct a, b; simpl; auto; lia. Qed.

Lemma insert_sorted_perm n l : Permutation (insert_sorted n l) (n :: l).
Proof. induction l as [|m r IH]; simpl; [auto|]. destruct (name_le n m); [auto|]. eapply perm_trans; [apply perm_skip, IH|apply perm_swap]. Qed.
Lemma natural_sort_perm l : Permutation (natural_sort l) l.
Proof. induction l as [|x r IH]; simpl; [auto|]. eapply perm_trans; [apply insert_sorted_perm|]. now constructor. Qed.
Lemma insert_sorted_sorted n l : StronglySorted nle l -> StronglySorted nle (insert_sorted n l).
Proof.
  induction 1 as [|m r Hs IH Hf]; simpl; [repeat constructor|]. destruct (name_le n m) eqn:E.
  - constructor; [constructor; assumption|]. constructor; [exact E|]. eapply Forall_impl; [|exact Hf]. intros a Ha. eapply name_le_trans; eauto.
  - constructor; [exact IH|]. apply Forall_forall. intros z Hz. apply (Permutation_in _ (insert_sorted_perm n r)) in Hz.
    destruct Hz as [<-|Hz]; [destruct (name_le_total m n) as [H|H]; [exact H|unfold nle in H; congruence]|]. rewrite Forall_forall in Hf. now apply Hf.
Qed.
Lemma natural_sort_sorted l : StronglySorted nle (natural_sort l).
Proof. induction l as [|x r IH]; simpl; [constructor|]. now apply insert_sorted_sorted. Qed.

Lemma sorted_last_ge (l : list fname) dflt : StronglySorted nle l -> forall x, In x l -> nle x (last l dflt).
Proof.
  induction 1 as [|y r Hs IH Hf]; intros x Hx; [contradiction|]. destruct r as [|z r'].
  - destruct Hx as [->|[]]. simpl. unfold nle. destruct x; simpl; try reflexivity; lia.
  - change (last (y :: z :: r') dflt) with (last (z :: r') dflt). destruct Hx as [->|Hx]; [|now apply IH].
    rewrite Forall_forall in Hf. apply Hf. clear. revert z; induction r' as [|a r IHr]; intros z; [left; reflexivity|right; apply IHr].
Qed.

Theorem legacy_rejects_older d q c x : r_orbax q = false -> r_overwrite q = false ->
  present d x -> (r_step q < x)%Z -> exists e, run_save d q c = (d, e) /\ e <> Saved.
Proof.
  intros Hl Hov Hx Hlt. unfold run_save, save_ops. rewrite Hl, Hov.
  destruct (check_overwrite d (r_step q)) eqn:E.
  - exfalso. unfold check_overwrite in E. set (s := r_step q) in *. set (files := filter matches_prefix (map fst d)) in *.
    destruct (existsb (fname_eqb (NStep s)) files); [discriminate|]. set (sorted := natural_sort (NStep s :: files)) in *.
    assert (Hin : In (NStep x) sorted).
    { apply (Permutation_in _ (Permutation_sym (natural_sort_perm _))). right. apply filter_In. split; [now apply dlookup_in|reflexivity]. }
    assert (Hs : StronglySorted nle sorted) by apply natural_sort_sorted.
    assert (Hne : sorted <> []) by (intros E0; rewrite E0 in Hin; contradiction).
    pose proof (app_removelast_last NTmp Hne) as EL.
    destruct (last sorted NTmp) eqn:ELast; rewrite ?ELast in E.
    + (* last is a step: it must be s, but x > s is in the list *)
      destruct (Z.eqb_spec s s0) as [Es|]; [subst s0|discriminate].
      pose proof (sorted_last_ge sorted NTmp Hs _ Hin) as Hle. rewrite ELast in Hle. unfold nle in Hle. simpl in Hle. lia.
    + (* last is tmp: look at the list without it *)
      assert (Hs' : StronglySorted nle (removelast sorted)).
      { rewrite EL in Hs. clear -Hs. induction (removelast sorted) as [|a r IH]; [constructor|]. simpl in Hs. inversion Hs as [|? ? H1 H2]; subst.
        constructor; [now apply IH|]. apply Forall_forall. intros z Hz. rewrite Forall_forall in H2. apply H2. apply in_or_app. now left. }
      assert (Hin' : In (NStep x) (removelast sorted)).
      { rewrite EL in Hin. apply in_app_or in Hin as [H|[H|[]]]; [exact H|discriminate]. }
      destruct (last (removelast sorted) NTmp) eqn:EL2; try discriminate.
      destruct (Z.eqb_spec s s0) as [Es|]; [subst s0|discriminate].
      pose proof (sorted_last_ge (removelast sorted) NTmp Hs' _ Hin') as Hle. rewrite EL2 in Hle. unfold nle in Hle. simpl in Hle. lia.
    + discriminate.
    + discriminate.
  - exists ErrExists. split; [destruct c; simpl; rewrite ?firstn_nil; reflexivity|discriminate].
  - exists ErrOlder. split; [destruct c; simpl; rewrite ?firstn_nil; reflexivity|discriminate].
Qed.

(* F14: with the Orbax back-end, overwriting the existing latest step is delete-then-write; dying after the first
   operation leaves a listed latest checkpoint that cannot be restored *)
Example orbax_overwrite_crash_refuted :
  let d := [(NStep 3, EDir (Complete 30)); (NStep 2, EDir (Complete 20))] in
  let q := mkReq 3 31 5 true None true in
  LatestOK d /\ let d' := fst (run_save d q (Some 1)) in latest d' = Some (NStep 3%Z) /\ restore d' (NStep 3%Z) = None.
Proof. vm_compute. split; [discriminate|split; reflexivity]. Qed.

(* a checkpoint never listed: temporaries *)
Theorem temporaries_never_listed d n : In n (all_checkpoints d) -> is_step n = true.
Proof.
  unfold all_checkpoints. intros H. apply (Permutation_in _ (natural_sort_perm _)) in H. apply filter_In in H. tauto.
Qed.
