(* Proofs about Model/UpdateCtx.v: the write-back step (4) of the UpdateContext protocol puts an isomorphic copy of the
   inner graph into the caller's heap, re-using the caller's objects wherever the placement says so and touching
   nothing else; arguments that alias each other are one object inside the transform. *)
From Coq Require Import Lia.
From Flaxm Require Import Lib.Harness Model.NnxFilters Model.Graph Model.UpdateCtx Proofs.Graph.

(* ------------------------------------------------------------------------------------------------ *)
(* relocation of canonical (index) references to heap locations                                      *)
Fixpoint relocate (pi : place) (v : value) : value :=
  match v with
  | VRef i => VRef (pi i)
  | VTree kd xs => VTree kd ((fix go (xs : list (key * value)) : list (key * value) :=
                               match xs with [] => [] | (k, x) :: r => (k, relocate pi x) :: go r end) xs)
  | _ => v
  end.
Definition relocate_attrs (pi : place) (xs : list (key * value)) : list (key * value) :=
  map (fun kv => (fst kv, relocate pi (snd kv))) xs.
Lemma relocate_tree pi kd xs : relocate pi (VTree kd xs) = VTree kd (relocate_attrs pi xs).
Proof. cbn [relocate]. f_equal. induction xs as [|[k x] r IH]; cbn [relocate_attrs map fst snd]; [reflexivity|]. now rewrite IH. Qed.
Definition relocate_obj (pi : place) (o : obj) : obj :=
  match o with ONode ty xs => ONode ty (relocate_attrs pi xs) | OVar _ _ _ => o end.

Lemma unflat_p_tree pi kd attrs s :
  unflat_p pi (ASub (GTree kd attrs)) s =
  match uitems_with (unflat_p pi) attrs s with None => None | Some (vs, s') => Some (VTree kd vs, s') end.
Proof. destruct s as [[h ir] ls]; reflexivity. Qed.
Lemma unflat_p_node pi ty i attrs (h : heap) (ir : list (nat * loc)) (ls : list leaf) :
  unflat_p pi (ASub (GNode ty i attrs)) (h, ir, ls) =
  match uitems_with (unflat_p pi) attrs (set_nth (pi i) (ONode ty []) h, @pair nat loc i (pi i) :: ir, ls) with
  | None => None
  | Some (vs, (h', ir', ls')) => Some (VRef (pi i), (set_nth (pi i) (ONode ty vs) h', ir', ls'))
  end.
Proof. reflexivity. Qed.

(* index_ref maps every index allocated so far to its placement *)
Definition irp_ok (pi : place) (n : nat) (ir : list (nat * loc)) : Prop := forall i, i < n -> iassoc i ir = Some (pi i).
Lemma irp_ok_cons pi n ir : irp_ok pi n ir -> irp_ok pi (S n) ((n, pi n) :: ir).
Proof. intros H i Hi. cbn [iassoc]. destruct (Nat.eqb_spec i n); [now subst|]. apply H. lia. Qed.

(* the placement is injective and in bounds on the indices in use *)
Definition place_ok (pi : place) (n : nat) (len : nat) : Prop :=
  (forall i j, i < n -> j < n -> pi i = pi j -> i = j) /\ (forall i, i < n -> pi i < len).
Lemma place_ok_le pi n m len : m <= n -> place_ok pi n len -> place_ok pi m len.
Proof. intros Hle [I B]. split; [intros i j Hi Hj; apply I; lia|intros i Hi; apply B; lia]. Qed.

Definition GoodP (hi : heap) (s : fst_) (v : value) (a : gattr) (s' : fst_) : Prop :=
  exists ext newls v0,
    fst s' = fst s ++ ext /\ snd s' = snd s ++ newls /\
    rv (fst s') v = Some v0 /\
    forall pi hw ir tail,
      place_ok pi (length (fst s')) (length hw) -> irp_ok pi (length (fst s)) ir ->
      exists hw' ir',
        unflat_p pi a (hw, ir, map snd newls ++ tail) = Some (relocate pi v0, (hw', ir', tail)) /\
        length hw' = length hw /\ irp_ok pi (length (fst s')) ir' /\
        (forall l, (forall j, length (fst s) <= j < length (fst s') -> pi j <> l) -> nth_error hw' l = nth_error hw l) /\
        (forall j l, nth_error ext j = Some l ->
           exists o0 o, nth_error hi l = Some o0 /\ ro (fst s') o0 = Some o /\
                        nth_error hw' (pi (length (fst s) + j)) = Some (relocate_obj pi o)).

Definition GoodPItems (hi : heap) (s : fst_) (xs : list (key * value)) (as_ : list (key * gattr)) (s' : fst_) : Prop :=
  exists ext newls vs0,
    fst s' = fst s ++ ext /\ snd s' = snd s ++ newls /\
    rattrs (fst s') xs = Some vs0 /\
    forall pi hw ir tail,
      place_ok pi (length (fst s')) (length hw) -> irp_ok pi (length (fst s)) ir ->
      exists hw' ir',
        uitems_with (unflat_p pi) as_ (hw, ir, map snd newls ++ tail) = Some (relocate_attrs pi vs0, (hw', ir', tail)) /\
        length hw' = length hw /\ irp_ok pi (length (fst s')) ir' /\
        (forall l, (forall j, length (fst s) <= j < length (fst s') -> pi j <> l) -> nth_error hw' l = nth_error hw l) /\
        (forall j l, nth_error ext j = Some l ->
           exists o0 o, nth_error hi l = Some o0 /\ ro (fst s') o0 = Some o /\
                        nth_error hw' (pi (length (fst s) + j)) = Some (relocate_obj pi o)).

Lemma items_goodp hi rec :
  (forall p v s a s', rec p v s = Some (a, s') -> GoodP hi s v a s') ->
  forall xs p s as_ s', items_with rec p xs s = Some (as_, s') -> GoodPItems hi s xs as_ s'.
Proof.
  intros Hrec xs; induction xs as [|[k v] r IH]; intros p s as_ s' H.
  - cbn in H. inversion H; subst. exists [], [], []. rewrite !app_nil_r. repeat split; auto.
    intros pi hw ir tail P I. exists hw, ir. cbn. repeat split; auto. intros [|j] l Hj; discriminate.
  - rewrite items_with_cons in H.
    destruct (rec (p ++ [k]) v s) as [[a s1]|] eqn:E1; [|discriminate].
    destruct (items_with rec p r s1) as [[as1 s2]|] eqn:E2; [|discriminate].
    inversion H; subst; clear H.
    destruct (Hrec _ _ _ _ _ E1) as (e1 & n1 & v1 & Hf1 & Hs1 & Hv1 & Hu1).
    destruct (IH _ _ _ _ E2) as (e2 & n2 & vs2 & Hf2 & Hs2 & Hr2 & Hu2).
    exists (e1 ++ e2), (n1 ++ n2), ((k, v1) :: vs2).
    split; [rewrite Hf2, Hf1, app_assoc; reflexivity|].
    split; [rewrite Hs2, Hs1, app_assoc; reflexivity|]. split.
    + cbn [rattrs]. rewrite Hr2, Hf2, (rv_mono _ e2 _ _ Hv1). reflexivity.
    + intros pi hw ir tail P I.
      assert (L1 : length (fst s1) = length (fst s) + length e1) by (rewrite Hf1, app_length; reflexivity).
      assert (L2 : length (fst s') = length (fst s1) + length e2) by (rewrite Hf2, app_length; reflexivity).
      destruct (Hu1 pi hw ir (map snd n2 ++ tail)) as (hw1 & ir1 & U1 & Len1 & I1 & F1 & C1); [eapply place_ok_le; [|exact P]; lia|exact I|].
      destruct (Hu2 pi hw1 ir1 tail) as (hw2 & ir2 & U2 & Len2 & I2 & F2 & C2); [now rewrite Len1|exact I1|].
      exists hw2, ir2. split; [|split; [congruence|split; [exact I2|split]]].
      * replace (map snd (n1 ++ n2) ++ tail) with (map snd n1 ++ map snd n2 ++ tail) by (rewrite map_app, <- app_assoc; reflexivity).
        rewrite uitems_with_cons, U1.
        match goal with |- match ?x with _ => _ end = _ => replace x with (Some (relocate_attrs pi vs2, (hw2, ir2, tail))) by (symmetry; exact U2) end.
        reflexivity.
      * intros l Hl. rewrite F2, F1; [reflexivity| |]; intros j Hj; apply Hl; lia.
      * intros j l Hj. destruct (Nat.ltb_spec j (length e1)) as [Hlt|Hge].
        -- rewrite nth_error_app1 in Hj by exact Hlt. destruct (C1 _ _ Hj) as (o0 & o & A & B & C).
           exists o0, o. split; [exact A|]. split; [rewrite Hf2; now apply ro_mono|].
           rewrite F2; [exact C|]. intros j2 Hj2 E. destruct P as [Pi _].
           apply Pi in E; lia.
        -- rewrite nth_error_app2 in Hj by exact Hge. destruct (C2 _ _ Hj) as (o0 & o & A & B & C).
           exists o0, o. split; [exact A|]. split; [exact B|].
           replace (length (fst s) + j) with (length (fst s1) + (j - length e1)) by lia. exact C.
Qed.

Theorem flat_goodp : forall fuel hi p v s a s', flat fuel hi p v s = Some (a, s') -> GoodP hi s v a s'.
Proof.
  induction fuel as [|f IH]; intros hi p v s a s' H; [discriminate|]. cbn [flat] in H.
  assert (Triv : forall v0 (s0 : fst_) a0, rv (fst s0) v = Some v0 ->
            (forall pi (hw : heap) (ir : list (nat * loc)) (tail : list leaf), irp_ok pi (length (fst s0)) ir -> unflat_p pi a0 (hw, ir, tail) = Some (relocate pi v0, (hw, ir, tail))) ->
            GoodP hi s0 v a0 s0).
  { intros v0 s0 a0 Hv Hu. exists [], [], v0. rewrite !app_nil_r. repeat split; auto.
    intros pi hw ir tail P I. exists hw, ir. cbn [map app]. rewrite (Hu _ _ _ _ I). repeat split; auto.
    intros [|j] l Hj; discriminate. }
  destruct v as [l|x|x|kd xs].
  - destruct (index_of l (fst s)) as [i|] eqn:Ei.
    { inversion H; subst. apply (Triv (VRef i)); [cbn [rv]; now rewrite Ei|].
      intros pi hw ir tail I. cbn [unflat_p relocate].
      assert (Hi : i < length (fst s')). { apply index_of_nth in Ei. apply nth_error_Some. congruence. }
      now rewrite (I _ Hi). }
    destruct (nth_error hi l) as [[ty attrs|vty pl m]|] eqn:Eh; [| |discriminate].
    + destruct (items_with (flat f hi) p attrs (fst s ++ [l], snd s)) as [[as_ s1]|] eqn:Eit; [|discriminate].
      inversion H; subst; clear H.
      destruct (items_goodp hi (flat f hi) (fun p v s a s' => IH hi p v s a s') _ _ _ _ _ Eit) as (e & n & vs & Hf & Hs & Hr & Hu).
      cbn [fst snd] in Hf, Hs.
      assert (Hf' : fst s' = fst s ++ l :: e) by (rewrite Hf, <- app_assoc; reflexivity).
      assert (Ls : length (fst s') = S (length (fst s)) + length e) by (rewrite Hf', app_length; simpl; lia).
      exists (l :: e), n, (VRef (length (fst s))).
      split; [exact Hf'|]. split; [exact Hs|]. split.
      * cbn [rv]. rewrite Hf, (index_of_app_some l (fst s ++ [l]) e (length (fst s))); [reflexivity|]. now apply index_of_app_new.
      * intros pi hw ir tail P I. rewrite unflat_p_node. set (i := length (fst s)) in *.
        assert (Hb : pi i < length hw) by (destruct P as [_ B]; apply B; lia).
        destruct (Hu pi (set_nth (pi i) (ONode ty []) hw) (@pair nat loc i (pi i) :: ir) tail) as (hw1 & ir1 & U & Len1 & I1 & F1 & C1).
        { now rewrite set_nth_length. }
        { cbn [fst]. rewrite app_length. simpl. rewrite Nat.add_1_r. now apply irp_ok_cons. }
        exists (set_nth (pi i) (ONode ty (relocate_attrs pi vs)) hw1), ir1.
        split; [now rewrite U|]. split; [now rewrite set_nth_length, Len1, set_nth_length|]. split; [exact I1|]. split.
        -- intros l0 Hl0. assert (pi i <> l0) by (apply Hl0; lia).
           rewrite nth_error_set_nth_ne by assumption. rewrite F1.
           ++ now apply nth_error_set_nth_ne.
           ++ intros j Hj. cbn [fst] in Hj. rewrite app_length in Hj. simpl in Hj. apply Hl0. lia.
        -- intros [|j] l0 Hj; cbn [nth_error] in Hj.
           ++ inversion Hj; subst l0. exists (ONode ty attrs), (ONode ty vs). split; [exact Eh|]. split; [cbn [ro]; now rewrite Hr|].
              rewrite Nat.add_0_r. cbn [relocate_obj]. apply nth_error_set_nth_eq. now rewrite Len1, set_nth_length.
           ++ destruct (C1 _ _ Hj) as (o0 & o & A & B & C). exists o0, o. split; [exact A|]. split; [exact B|].
              cbn [fst] in C. rewrite app_length in C. simpl in C.
              replace (i + S j) with (i + 1 + j) by lia.
              rewrite nth_error_set_nth_ne; [exact C|].
              intros E. destruct P as [Pi _]. apply Pi in E; try lia.
              apply nth_error_Some_lt in Hj || idtac.
              assert (j < length e) by (apply nth_error_Some; congruence). lia.
    + inversion H; subst; clear H. cbn [fst snd].
      exists [l], [(p, LVar vty pl m)], (VRef (length (fst s))).
      split; [reflexivity|]. split; [reflexivity|]. split.
      * cbn [rv fst]. now rewrite (index_of_app_new _ _ Ei).
      * intros pi hw ir tail P I. cbn [fst snd] in P, I |- *. rewrite app_length in P |- *. cbn [length] in P |- *. rewrite Nat.add_1_r in P |- *.
        cbn [unflat_p map snd app relocate]. set (i := length (fst s)) in *.
        assert (Hb : pi i < length hw). { destruct P as [_ B]. apply B. lia. }
        exists (set_nth (pi i) (OVar vty pl m) hw), ((i, pi i) :: ir).
        split; [reflexivity|]. split; [apply set_nth_length|]. split; [now apply irp_ok_cons|]. split.
        -- intros l0 Hl0. apply nth_error_set_nth_ne. apply Hl0. lia.
        -- intros [|[|j]] l0 Hj; try discriminate. inversion Hj; subst l0.
           exists (OVar vty pl m), (OVar vty pl m). repeat split; auto. rewrite Nat.add_0_r. now apply nth_error_set_nth_eq.
  - inversion H; subst. apply (Triv (VStatic x)); [reflexivity|]. intros; reflexivity.
  - inversion H; subst; clear H. cbn [fst snd]. exists [], [(p, LArr x)], (VArr x). rewrite !app_nil_r. repeat split; auto.
    intros pi hw ir tail P I. exists hw, ir. cbn. repeat split; auto. intros [|j] l Hj; discriminate.
  - destruct (items_with (flat f hi) p xs s) as [[as_ s1]|] eqn:Eit; [|discriminate].
    inversion H; subst; clear H.
    destruct (items_goodp hi (flat f hi) (fun p v s a s' => IH hi p v s a s') _ _ _ _ _ Eit) as (e & n & vs & Hf & Hs & Hr & Hu).
    exists e, n, (VTree kd vs). repeat split; auto.
    + rewrite rv_tree, Hr. reflexivity.
    + intros pi hw ir tail P I. destruct (Hu pi hw ir tail P I) as (hw' & ir' & U & Rest).
      exists hw', ir'. rewrite unflat_p_tree, U, relocate_tree. split; [reflexivity|exact Rest].
Qed.

(* ------------------------------------------------------------------------------------------------ *)
(* step (4) for ANY graph the function leaves behind and ANY injective in-bounds placement:           *)
(* the i-th object of the inner graph ends up at location pi i, as the same cell with every reference *)
(* sent through the numbering and the placement; no other location of the caller's heap is touched    *)
Theorem writeback hi v g ls ri :
  flatten_ri hi v = Some (g, ls, ri) ->
  exists v0, rv ri v = Some v0 /\
  forall pi hw, place_ok pi (length ri) (length hw) ->
    exists hw' ir', unflat_p pi g (hw, [], map snd ls) = Some (relocate pi v0, (hw', ir', [])) /\
      length hw' = length hw /\
      (forall l, (forall j, j < length ri -> pi j <> l) -> nth_error hw' l = nth_error hw l) /\
      (forall i l, nth_error ri i = Some l ->
         exists o0 o, nth_error hi l = Some o0 /\ ro ri o0 = Some o /\ nth_error hw' (pi i) = Some (relocate_obj pi o)).
Proof.
  unfold flatten_ri. destruct (flat (fuel_for hi v) hi [] v ([], [])) as [[a s]|] eqn:E; [|discriminate].
  intros H; inversion H; subst; clear H.
  destruct (flat_goodp _ _ _ _ _ _ _ E) as (ext & newls & v0 & Hf & Hs & Hv & Hu). cbn [fst snd app] in Hf, Hs.
  exists v0. split; [exact Hv|]. intros pi hw P.
  destruct (Hu pi hw [] [] P) as (hw' & ir' & U & Len & _ & F & C).
  { intros i Hi. simpl in Hi. lia. }
  exists hw', ir'. rewrite Hs. rewrite app_nil_r in U. split; [exact U|]. split; [exact Len|]. split.
  - intros l Hl. apply F. intros j Hj. apply Hl. lia.
  - intros i l Hi. rewrite Hf in Hi. exact (C _ _ Hi).
Qed.

(* ------------------------------------------------------------------------------------------------ *)
(* steps (1)-(2): all arguments are flattened with one ref_index, so the inner copies alias exactly    *)
(* like the caller's objects do, across arguments as well                                             *)
Theorem inner_copy h args g ls :
  flatten h (args_root args) = Some (g, ls) ->
  exists hi rooti, unflatten g (map snd ls) = Some (hi, rooti) /\
    (forall p u, at_path h (args_root args) p = Some u -> exists u', at_path hi rooti p = Some u' /\ shape hi u' = shape h u) /\
    (forall p q, same_object h (args_root args) p q <-> same_object hi rooti p q).
Proof.
  intros F. destruct (roundtrip_paths _ _ _ _ F) as (hi & rooti & U & A & _ & S). exists hi, rooti. auto.
Qed.

(* the placement of step (4): caller's objects for the copies made in step (2), fresh locations for the rest *)
Lemma placement_length ri1 ri3 next : length (placement ri1 ri3 next) = length ri3.
Proof. revert next; induction ri3 as [|l r IH]; intros next; cbn [placement]; [reflexivity|]. destruct (nth_error ri1 l); simpl; now rewrite IH. Qed.

(* a copy of one of the caller's objects is written back to that very object *)
Lemma placement_reuse ri1 ri3 next i l lo :
  nth_error ri3 i = Some l -> nth_error ri1 l = Some lo -> nth i (placement ri1 ri3 next) 0 = lo.
Proof.
  revert next i; induction ri3 as [|x r IH]; intros next [|i] H1 H2; cbn [placement nth_error] in *; try discriminate.
  - inversion H1; subst. now rewrite H2.
  - destruct (nth_error ri1 x); cbn [nth]; eauto.
Qed.
(* an object created inside the transform gets a location the caller's heap did not have *)
Lemma placement_fresh ri1 ri3 next i l :
  nth_error ri3 i = Some l -> nth_error ri1 l = None -> next <= nth i (placement ri1 ri3 next) 0.
Proof.
  revert next i; induction ri3 as [|x r IH]; intros next [|i] H1 H2; cbn [placement nth_error] in *; try discriminate.
  - inversion H1; subst. rewrite H2. simpl. lia.
  - destruct (nth_error ri1 x); cbn [nth]; [eauto|]. specialize (IH (S next) i H1 H2). lia.
Qed.

Lemma flatten_ri_nodup h v g ls ri : flatten_ri h v = Some (g, ls, ri) -> NoDup ri.
Proof.
  unfold flatten_ri. destruct (flat (fuel_for h v) h [] v ([], [])) as [[a s]|] eqn:E; [|discriminate].
  intros H; inversion H; subst. destruct (flat_good _ _ _ _ _ _ _ E) as (_ & _ & _ & _ & _ & Hn & _). apply Hn. constructor.
Qed.

Lemma count_new_cons_some (ri1 : list loc) l r lo : nth_error ri1 l = Some lo -> count_new ri1 (l :: r) = count_new ri1 r.
Proof. intros H. unfold count_new. cbn [filter]. assert (l < length ri1) by (apply nth_error_Some; congruence).
  destruct (Nat.leb_spec (length ri1) l); [lia|reflexivity]. Qed.
Lemma count_new_cons_none (ri1 : list loc) l r : nth_error ri1 l = None -> count_new ri1 (l :: r) = S (count_new ri1 r).
Proof. intros H. unfold count_new. cbn [filter]. apply nth_error_None in H.
  destruct (Nat.leb_spec (length ri1) l); [reflexivity|lia]. Qed.

Lemma placement_spec (ri1 : list loc) len : NoDup ri1 -> (forall lo, In lo ri1 -> lo < len) ->
  forall ri3 next, len <= next -> NoDup ri3 ->
    NoDup (placement ri1 ri3 next) /\
    (forall x, In x (placement ri1 ri3 next) ->
       (exists l, In l ri3 /\ nth_error ri1 l = Some x) \/ next <= x < next + count_new ri1 ri3).
Proof.
  intros ND1 B1. induction ri3 as [|l r IH]; intros next Hn ND3; cbn [placement].
  - split; [constructor|]. intros x [].
  - inversion ND3 as [|? ? Hnotin ND3']; subst. destruct (nth_error ri1 l) as [lo|] eqn:E.
    + destruct (IH next Hn ND3') as [NDr Sr]. rewrite (count_new_cons_some _ _ _ _ E). split.
      * constructor; [|exact NDr]. intros Hin. destruct (Sr _ Hin) as [(l' & Hl' & E')|Hrange].
        -- assert (l = l'). { apply (proj1 (NoDup_nth_error ri1) ND1 l l'); [apply nth_error_Some; congruence|congruence]. } subst. contradiction.
        -- assert (lo < len) by (apply B1; eapply nth_error_In; eauto). lia.
      * intros x [<-|Hin]; [left; exists l; split; [now left|exact E]|].
        destruct (Sr _ Hin) as [(l' & Hl' & E')|Hrange]; [left; exists l'; split; [now right|exact E']|right; exact Hrange].
    + destruct (IH (S next) ltac:(lia) ND3') as [NDr Sr]. rewrite (count_new_cons_none _ _ _ E). split.
      * constructor; [|exact NDr]. intros Hin. destruct (Sr _ Hin) as [(l' & Hl' & E')|Hrange]; [|lia].
        assert (next < len) by (apply B1; eapply nth_error_In; eauto). lia.
      * intros x [<-|Hin]; [right; lia|].
        destruct (Sr _ Hin) as [(l' & Hl' & E')|Hrange]; [left; exists l'; split; [now right|exact E']|right; lia].
Qed.

Lemma placement_ok (h : heap) (ri1 ri3 : list loc) : NoDup ri1 -> (forall lo, In lo ri1 -> lo < length h) -> NoDup ri3 ->
  place_ok (fun i => nth i (placement ri1 ri3 (length h)) 0) (length ri3) (length h + count_new ri1 ri3).
Proof.
  intros ND1 B1 ND3. destruct (placement_spec ri1 (length h) ND1 B1 ri3 (length h) (le_n _) ND3) as [ND S].
  split.
  - intros i j Hi Hj E. rewrite <- (placement_length ri1 ri3 (length h)) in Hi, Hj.
    exact (proj1 (NoDup_nth _ 0) ND i j Hi Hj E).
  - intros i Hi. cbv beta. rewrite <- (placement_length ri1 ri3 (length h)) in Hi.
    destruct (S _ (nth_In _ 0 Hi)) as [(l & _ & E)|Hr]; [|exact (proj2 Hr)].
    assert (nth i (placement ri1 ri3 (length h)) 0 < length h) by (apply B1; eapply nth_error_In; eauto). lia.
Qed.

(* step (4) as the model runs it: for whatever graph the function left inside, the caller's heap afterwards holds that
   graph (cell by cell, references renumbered and placed), the copies made in step (2) are written back into the
   caller's own objects, objects created inside land on fresh locations, and every location of the caller's heap that
   is not the target of a copy keeps its content *)
Theorem merge_back_spec (h : heap) (ri1 : list loc) hi out3 g3 ls3 ri3 :
  NoDup ri1 -> (forall lo, In lo ri1 -> lo < length h) ->
  flatten_ri hi out3 = Some (g3, ls3, ri3) ->
  let pi := fun i => nth i (placement ri1 ri3 (length h)) 0 in
  exists h' v0, rv ri3 out3 = Some v0 /\
    merge_back h ri1 ri3 g3 (map snd ls3) = Some (h', relocate pi v0) /\
    length h' = length h + count_new ri1 ri3 /\
    (forall l, l < length h -> (forall j, j < length ri3 -> pi j <> l) -> nth_error h' l = nth_error h l) /\
    (forall i l, nth_error ri3 i = Some l ->
       exists o0 o, nth_error hi l = Some o0 /\ ro ri3 o0 = Some o /\ nth_error h' (pi i) = Some (relocate_obj pi o)) /\
    (forall i l lo, nth_error ri3 i = Some l -> nth_error ri1 l = Some lo -> pi i = lo) /\
    (forall i l, nth_error ri3 i = Some l -> nth_error ri1 l = None -> length h <= pi i).
Proof.
  intros ND1 B1 F pi. pose proof (flatten_ri_nodup _ _ _ _ _ F) as ND3.
  destruct (writeback _ _ _ _ _ F) as (v0 & Hv & W).
  pose proof (placement_ok h ri1 ri3 ND1 B1 ND3) as P. fold pi in P.
  destruct (W pi (h ++ repeat DUMMY (count_new ri1 ri3))) as (h' & ir' & U & Len & Fr & C).
  { now rewrite app_length, repeat_length. }
  exists h', v0. split; [exact Hv|]. split.
  - unfold merge_back. fold pi. cbv zeta.
    match goal with |- match ?x with _ => _ end = _ => replace x with (Some (relocate pi v0, (h', ir', @nil leaf))) by (symmetry; exact U) end.
    reflexivity.
  - split; [now rewrite Len, app_length, repeat_length|]. split; [|split; [exact C|split]].
    + intros l Hl Hno. rewrite (Fr _ Hno). now apply nth_error_app1.
    + intros i l lo H3 H1. unfold pi. eapply placement_reuse; eauto.
    + intros i l H3 H1. unfold pi. eapply placement_fresh; eauto.
Qed.
