(* msgpack: decode after encode is the identity; msgpack_restore after to_bytes restores the state dict. *)
From Coq Require Import Lia ZifyBool.
From Flaxm Require Import Lib.Harness Model.Flatten Proofs.Flatten Model.Serial Proofs.Serial Model.Msgpack.

(* ---------------- big-endian integers ---------------- *)
Lemma lenN_app {A} (a b : list A) : lenN (a ++ b) = (lenN a + lenN b)%N.
Proof. unfold lenN. rewrite app_length. lia. Qed.

Lemma le_bytes_length : forall k n, length (le_bytes k n) = k.
Proof. induction k as [|k IH]; intros n; simpl; [reflexivity|]. now rewrite IH. Qed.
Lemma be_bytes_length k n : length (be_bytes k n) = k.
Proof. unfold be_bytes. now rewrite rev_length, le_bytes_length. Qed.

Definition le_val (bs : list N) : N := fold_right (fun b a => (a * 256 + b)%N) 0%N bs.
Lemma be_val_rev bs : be_val (rev bs) = le_val bs.
Proof. unfold be_val, le_val. rewrite <- (rev_involutive bs) at 2. rewrite fold_left_rev_right. reflexivity. Qed.

Lemma le_val_le_bytes : forall k n, le_val (le_bytes k n) = (n mod 256 ^ N.of_nat k)%N.
Proof.
  induction k as [|k IH]; intros n.
  - simpl. now rewrite N.mod_1_r.
  - cbn [le_bytes le_val fold_right]. fold (le_val (le_bytes k (n / 256))). rewrite IH.
    rewrite Nat2N.inj_succ, N.pow_succ_r'. rewrite N.mod_mul_r by (try apply N.pow_nonzero; lia). lia.
Qed.

Lemma be_val_be_bytes k n : (n < 256 ^ N.of_nat k)%N -> be_val (be_bytes k n) = n.
Proof. intros H. unfold be_bytes. rewrite be_val_rev, le_val_le_bytes. now apply N.mod_small. Qed.

(* ---------------- take ---------------- *)
Lemma firstn_len_app {A} (l r : list A) : firstn (length l) (l ++ r) = l.
Proof. induction l as [|x l IH]; simpl; [now destruct r|]. now rewrite IH. Qed.
Lemma skipn_len_app {A} (l r : list A) : skipn (length l) (l ++ r) = r.
Proof. induction l as [|x l IH]; simpl; [reflexivity|]. exact IH. Qed.

Lemma take_app l n rest : n = lenN l -> take n (l ++ rest) = Some (l, rest).
Proof.
  intros ->. unfold take. rewrite lenN_app. destruct (N.ltb_spec (lenN l + lenN rest) (lenN l)); [lia|].
  unfold lenN. rewrite Nat2N.id, firstn_len_app, skipn_len_app. reflexivity.
Qed.

Lemma take_be_app k kn bound n rest :
  kn = N.of_nat k -> bound = (256 ^ kn)%N -> (n < bound)%N -> take_be kn (be_bytes k n ++ rest) = Some (n, rest).
Proof.
  intros -> -> H. unfold take_be. rewrite take_app by (unfold lenN; now rewrite be_bytes_length).
  now rewrite be_val_be_bytes.
Qed.

(* ---------------- the dispatch on the first byte ---------------- *)
Lemma dtag_192 f r : decode (S f) (192%N :: r) = Some (MNil, r). Proof. reflexivity. Qed.
Lemma dtag_194 f r : decode (S f) (194%N :: r) = Some (MBool false, r). Proof. reflexivity. Qed.
Lemma dtag_195 f r : decode (S f) (195%N :: r) = Some (MBool true, r). Proof. reflexivity. Qed.
Lemma dtag_196 f r : decode (S f) (196%N :: r) = with_len 1 r dec_bin. Proof. reflexivity. Qed.
Lemma dtag_197 f r : decode (S f) (197%N :: r) = with_len 2 r dec_bin. Proof. reflexivity. Qed.
Lemma dtag_198 f r : decode (S f) (198%N :: r) = with_len 4 r dec_bin. Proof. reflexivity. Qed.
Lemma dtag_199 f r : decode (S f) (199%N :: r) = with_len 1 r dec_ext. Proof. reflexivity. Qed.
Lemma dtag_200 f r : decode (S f) (200%N :: r) = with_len 2 r dec_ext. Proof. reflexivity. Qed.
Lemma dtag_201 f r : decode (S f) (201%N :: r) = with_len 4 r dec_ext. Proof. reflexivity. Qed.
Lemma dtag_203 f r : decode (S f) (203%N :: r) = match take_be 8 r with Some (n, r') => Some (MF64 n, r') | None => None end. Proof. reflexivity. Qed.
Lemma dtag_204 f r : decode (S f) (204%N :: r) = dec_uint 1 r. Proof. reflexivity. Qed.
Lemma dtag_205 f r : decode (S f) (205%N :: r) = dec_uint 2 r. Proof. reflexivity. Qed.
Lemma dtag_206 f r : decode (S f) (206%N :: r) = dec_uint 4 r. Proof. reflexivity. Qed.
Lemma dtag_207 f r : decode (S f) (207%N :: r) = dec_uint 8 r. Proof. reflexivity. Qed.
Lemma dtag_208 f r : decode (S f) (208%N :: r) = dec_sint 1 r. Proof. reflexivity. Qed.
Lemma dtag_209 f r : decode (S f) (209%N :: r) = dec_sint 2 r. Proof. reflexivity. Qed.
Lemma dtag_210 f r : decode (S f) (210%N :: r) = dec_sint 4 r. Proof. reflexivity. Qed.
Lemma dtag_211 f r : decode (S f) (211%N :: r) = dec_sint 8 r. Proof. reflexivity. Qed.
Lemma dtag_212 f r : decode (S f) (212%N :: r) = dec_ext 1 r. Proof. reflexivity. Qed.
Lemma dtag_213 f r : decode (S f) (213%N :: r) = dec_ext 2 r. Proof. reflexivity. Qed.
Lemma dtag_214 f r : decode (S f) (214%N :: r) = dec_ext 4 r. Proof. reflexivity. Qed.
Lemma dtag_215 f r : decode (S f) (215%N :: r) = dec_ext 8 r. Proof. reflexivity. Qed.
Lemma dtag_216 f r : decode (S f) (216%N :: r) = dec_ext 16 r. Proof. reflexivity. Qed.
Lemma dtag_217 f r : decode (S f) (217%N :: r) = with_len 1 r dec_str. Proof. reflexivity. Qed.
Lemma dtag_218 f r : decode (S f) (218%N :: r) = with_len 2 r dec_str. Proof. reflexivity. Qed.
Lemma dtag_219 f r : decode (S f) (219%N :: r) = with_len 4 r dec_str. Proof. reflexivity. Qed.
Lemma dtag_220 f r : decode (S f) (220%N :: r) = with_len 2 r (dec_arr (decode f)). Proof. reflexivity. Qed.
Lemma dtag_221 f r : decode (S f) (221%N :: r) = with_len 4 r (dec_arr (decode f)). Proof. reflexivity. Qed.
Lemma dtag_222 f r : decode (S f) (222%N :: r) = with_len 2 r (dec_map (decode f)). Proof. reflexivity. Qed.
Lemma dtag_223 f r : decode (S f) (223%N :: r) = with_len 4 r (dec_map (decode f)). Proof. reflexivity. Qed.

Lemma decode_fixint f b r : (b < 128)%N -> decode (S f) (b :: r) = Some (MInt (Z.of_N b), r).
Proof. intros H. cbn [decode]. destruct (N.ltb_spec b 128); [reflexivity|lia]. Qed.

Lemma decode_negfix f b r : (224 <= b < 256)%N -> decode (S f) (b :: r) = Some (MInt (Z.of_N b - 256), r).
Proof.
  intros H. cbn [decode].
  destruct (N.ltb_spec b 128); [lia|]. destruct (N.ltb_spec b 144); [lia|]. destruct (N.ltb_spec b 160); [lia|].
  destruct (N.ltb_spec b 192); [lia|]. destruct (N.leb_spec 224 b); [|lia]. destruct (N.ltb_spec b 256); [reflexivity|lia].
Qed.

Lemma decode_fixmap f n r : (n < 16)%N -> decode (S f) ((128 + n)%N :: r) = dec_map (decode f) n r.
Proof.
  intros H. cbn [decode].
  destruct (N.ltb_spec (128 + n) 128); [lia|]. destruct (N.ltb_spec (128 + n) 144); [|lia].
  replace (128 + n - 128)%N with n by lia. reflexivity.
Qed.

Lemma decode_fixarr f n r : (n < 16)%N -> decode (S f) ((144 + n)%N :: r) = dec_arr (decode f) n r.
Proof.
  intros H. cbn [decode].
  destruct (N.ltb_spec (144 + n) 128); [lia|]. destruct (N.ltb_spec (144 + n) 144); [lia|].
  destruct (N.ltb_spec (144 + n) 160); [|lia]. replace (144 + n - 144)%N with n by lia. reflexivity.
Qed.

Lemma decode_fixstr f n r : (n < 32)%N -> decode (S f) ((160 + n)%N :: r) = dec_str n r.
Proof.
  intros H. cbn [decode].
  destruct (N.ltb_spec (160 + n) 128); [lia|]. destruct (N.ltb_spec (160 + n) 144); [lia|].
  destruct (N.ltb_spec (160 + n) 160); [lia|]. destruct (N.ltb_spec (160 + n) 192); [|lia].
  replace (160 + n - 160)%N with n by lia. reflexivity.
Qed.

(* ---------------- length headers ---------------- *)
Lemma with_len_app k kn bound n rest F :
  kn = N.of_nat k -> bound = (256 ^ kn)%N -> (n < bound)%N -> with_len kn (be_bytes k n ++ rest) F = F n rest.
Proof. intros Hk Hb H. unfold with_len. now rewrite (take_be_app k kn bound n rest Hk Hb H). Qed.

Lemma dec_enc_len8 f c8 c16 c32 n F body :
  (n < two32)%N ->
  (forall r, decode (S f) (c8 :: r) = with_len 1 r F) ->
  (forall r, decode (S f) (c16 :: r) = with_len 2 r F) ->
  (forall r, decode (S f) (c32 :: r) = with_len 4 r F) ->
  decode (S f) (enc_len (Some c8) c16 c32 n ++ body) = F n body.
Proof.
  intros Hn H8 H16 H32. unfold enc_len, two32 in *.
  destruct (N.ltb_spec n 256); [|destruct (N.ltb_spec n 65536)]; rewrite <- app_comm_cons.
  - rewrite H8. now apply (with_len_app 1 1 256).
  - rewrite H16. now apply (with_len_app 2 2 65536).
  - rewrite H32. now apply (with_len_app 4 4 4294967296).
Qed.

Lemma dec_enc_len16 f c16 c32 n F body :
  (n < two32)%N ->
  (forall r, decode (S f) (c16 :: r) = with_len 2 r F) ->
  (forall r, decode (S f) (c32 :: r) = with_len 4 r F) ->
  decode (S f) (enc_len None c16 c32 n ++ body) = F n body.
Proof.
  intros Hn H16 H32. unfold enc_len, two32 in *.
  destruct (N.ltb_spec n 65536); rewrite <- app_comm_cons.
  - rewrite H16. now apply (with_len_app 2 2 65536).
  - rewrite H32. now apply (with_len_app 4 4 4294967296).
Qed.

(* ---------------- integers ---------------- *)
Lemma dec_uint_app k kn bound n rest :
  kn = N.of_nat k -> bound = (256 ^ kn)%N -> (n < bound)%N -> dec_uint kn (be_bytes k n ++ rest) = Some (MInt (Z.of_N n), rest).
Proof. intros Hk Hb H. unfold dec_uint. now rewrite (take_be_app k kn bound n rest Hk Hb H). Qed.

Lemma dec_sint_app k kn half full z rest :
  kn = N.of_nat k -> half = (2 ^ (8 * kn - 1))%N -> full = (2 ^ (8 * kn))%N -> full = (256 ^ kn)%N -> full = (2 * half)%N ->
  (- Z.of_N half <= z < 0)%Z ->
  dec_sint kn (be_bytes k (Z.to_N (Z.of_N full + z)) ++ rest) = Some (MInt z, rest).
Proof.
  intros Hk Hh Hf Hf' Hd Hz. unfold dec_sint.
  rewrite (take_be_app k kn full (Z.to_N (Z.of_N full + z)) rest Hk Hf') by lia.
  rewrite <- Hh, <- Hf. destruct (N.ltb_spec (Z.to_N (Z.of_N full + z)) half); do 3 f_equal; lia.
Qed.

Lemma decode_enc_int f z rest :
  (-9223372036854775808 <= z < 18446744073709551616)%Z -> decode (S f) (enc_int z ++ rest) = Some (MInt z, rest).
Proof.
  intros Hz. unfold enc_int.
  destruct (Z.leb_spec 0 z) as [H0|H0].
  - destruct (N.ltb_spec (Z.to_N z) 128).
    { cbn [app]. rewrite decode_fixint by assumption. now rewrite Z2N.id. }
    assert (E : MInt z = MInt (Z.of_N (Z.to_N z))) by now rewrite Z2N.id. rewrite E.
    destruct (N.ltb_spec (Z.to_N z) 256); [|destruct (N.ltb_spec (Z.to_N z) 65536); [|destruct (N.ltb_spec (Z.to_N z) 4294967296)]];
      rewrite <- app_comm_cons.
    + rewrite dtag_204. now apply (dec_uint_app 1 1 256).
    + rewrite dtag_205. now apply (dec_uint_app 2 2 65536).
    + rewrite dtag_206. now apply (dec_uint_app 4 4 4294967296).
    + rewrite dtag_207. apply (dec_uint_app 8 8 18446744073709551616); [reflexivity|reflexivity|lia].
  - destruct (Z.leb_spec (-32) z).
    { cbn [app]. rewrite decode_negfix by lia. do 3 f_equal. lia. }
    destruct (Z.leb_spec (-128) z); [|destruct (Z.leb_spec (-32768) z); [|destruct (Z.leb_spec (-2147483648) z)]];
      rewrite <- app_comm_cons.
    + rewrite dtag_208. apply (dec_sint_app 1 1 128 256); try reflexivity. lia.
    + rewrite dtag_209. apply (dec_sint_app 2 2 32768 65536); try reflexivity. lia.
    + rewrite dtag_210. apply (dec_sint_app 4 4 2147483648 4294967296); try reflexivity. lia.
    + rewrite dtag_211. apply (dec_sint_app 8 8 9223372036854775808 18446744073709551616); try reflexivity. lia.
Qed.

(* ---------------- nested values ---------------- *)
Lemma mv_ind' (P : mv -> Prop) :
  P MNil -> (forall b, P (MBool b)) -> (forall z, P (MInt z)) -> (forall b, P (MF64 b)) -> (forall s, P (MStr s)) ->
  (forall b, P (MBin b)) -> (forall l, Forall P l -> P (MArr l)) ->
  (forall l, Forall (fun kv => P (fst kv) /\ P (snd kv)) l -> P (MMap l)) -> (forall c d, P (MExt c d)) -> forall v, P v.
Proof.
  intros H1 H2 H3 H4 H5 H6 HA HM HE. fix IH 1. intros [|b|z|b|s|b|l|l|c d]; [exact H1|apply H2|apply H3|apply H4|apply H5|apply H6| | |apply HE].
  - apply HA. induction l as [|x r IHr]; constructor; [apply IH|exact IHr].
  - apply HM. induction l as [|[k v] r IHr]; constructor; [split; apply IH|exact IHr].
Qed.

Fixpoint mv_depth (v : mv) : nat :=
  match v with
  | MArr l => S (fold_right (fun x m => Nat.max (mv_depth x) m) 0 l)
  | MMap l => S (fold_right (fun kv m => Nat.max (Nat.max (mv_depth (fst kv)) (mv_depth (snd kv))) m) 0 l)
  | _ => 1
  end.

Lemma encode_nonempty v : 1 <= length (encode v).
Proof.
  destruct v as [|[|]|z|b|s|b|l|l|c d]; cbn [encode]; try (simpl; lia).
  - unfold enc_int. repeat match goal with |- context [if ?c then _ else _] => destruct c end; simpl; lia.
  - rewrite app_length. destruct (lenN s <? 32)%N; [simpl; lia|]. unfold enc_len.
    repeat match goal with |- context [if ?c then _ else _] => destruct c end; simpl; lia.
  - rewrite app_length. unfold enc_len. repeat match goal with |- context [if ?c then _ else _] => destruct c end; simpl; lia.
  - rewrite app_length. destruct (lenN l <? 16)%N; [simpl; lia|]. unfold enc_len.
    repeat match goal with |- context [if ?c then _ else _] => destruct c end; simpl; lia.
  - rewrite app_length. destruct (lenN l <? 16)%N; [simpl; lia|]. unfold enc_len.
    repeat match goal with |- context [if ?c then _ else _] => destruct c end; simpl; lia.
  - unfold enc_ext. rewrite !app_length. simpl. lia.
Qed.

Lemma concat_encode_len (l : list mv) : length l <= length (concat (map encode l)).
Proof. induction l as [|x r IH]; simpl; [lia|]. rewrite app_length. pose proof (encode_nonempty x). lia. Qed.

Lemma concat_pairs_len (l : list (mv * mv)) :
  length l <= length (concat (map (fun kv => encode (fst kv) ++ encode (snd kv)) l)).
Proof. induction l as [|x r IH]; simpl; [lia|]. rewrite !app_length. pose proof (encode_nonempty (fst x)). lia. Qed.

Lemma dec_seq_encode d (l : list mv) rest :
  Forall (fun v => forall r, d (encode v ++ r) = Some (v, r)) l ->
  dec_seq d (length l) (concat (map encode l) ++ rest) = Some (l, rest).
Proof.
  induction 1 as [|x r Hx Hr IH]; [reflexivity|]. cbn [length map concat dec_seq].
  rewrite <- app_assoc, Hx, IH. reflexivity.
Qed.

Lemma dec_pairs_encode d (l : list (mv * mv)) rest :
  Forall (fun kv => (forall r, d (encode (fst kv) ++ r) = Some (fst kv, r)) /\ (forall r, d (encode (snd kv) ++ r) = Some (snd kv, r))) l ->
  dec_pairs d (length l) (concat (map (fun kv => encode (fst kv) ++ encode (snd kv)) l) ++ rest) = Some (l, rest).
Proof.
  induction 1 as [|[k v] r [Hk Hv] Hr IH]; [reflexivity|]. cbn [length map concat dec_pairs fst snd] in *.
  rewrite <- !app_assoc, Hk, Hv, IH. reflexivity.
Qed.

Lemma dec_arr_encode d (l : list mv) rest :
  Forall (fun v => forall r, d (encode v ++ r) = Some (v, r)) l ->
  dec_arr d (lenN l) (concat (map encode l) ++ rest) = Some (MArr l, rest).
Proof.
  intros H. unfold dec_arr. rewrite lenN_app. pose proof (concat_encode_len l).
  destruct (N.ltb_spec (lenN (concat (map encode l)) + lenN rest) (lenN l)); [unfold lenN in *; lia|].
  unfold lenN at 1. rewrite Nat2N.id, dec_seq_encode by exact H. reflexivity.
Qed.

Lemma dec_map_encode d (l : list (mv * mv)) rest :
  Forall (fun kv => (forall r, d (encode (fst kv) ++ r) = Some (fst kv, r)) /\ (forall r, d (encode (snd kv) ++ r) = Some (snd kv, r))) l ->
  dec_map d (lenN l) (concat (map (fun kv => encode (fst kv) ++ encode (snd kv)) l) ++ rest) = Some (MMap l, rest).
Proof.
  intros H. unfold dec_map. rewrite lenN_app. pose proof (concat_pairs_len l).
  destruct (N.ltb_spec (lenN (concat (map (fun kv => encode (fst kv) ++ encode (snd kv)) l)) + lenN rest) (lenN l)); [unfold lenN in *; lia|].
  unfold lenN at 1. rewrite Nat2N.id, dec_pairs_encode by exact H. reflexivity.
Qed.

Lemma dec_ext_app n code data rest : n = lenN data -> dec_ext n (code :: data ++ rest) = Some (MExt code data, rest).
Proof. intros E. unfold dec_ext. now rewrite take_app. Qed.

Lemma max_le_fold {A} (g : A -> nat) (l : list A) x : In x l -> g x <= fold_right (fun y m => Nat.max (g y) m) 0 l.
Proof. induction l as [|y r IH]; intros []; simpl; [subst; lia|]. specialize (IH H). lia. Qed.

Theorem decode_encode : forall v, mv_wfb v = true ->
  forall f rest, mv_depth v <= f -> decode f (encode v ++ rest) = Some (v, rest).
Proof.
  induction v as [|b|z|b|s|b|l IH|l IH|c d] using mv_ind'; intros Hwf f rest Hf;
    (destruct f as [|f]; [simpl in Hf; lia|]); cbn [encode mv_wfb] in *.
  - reflexivity.
  - destruct b; reflexivity.
  - apply decode_enc_int. lia.
  - rewrite <- app_comm_cons, dtag_203.
    apply N.ltb_lt in Hwf. unfold two64 in Hwf.
    rewrite (take_be_app 8 8 18446744073709551616 b rest eq_refl eq_refl Hwf). reflexivity.
  - rewrite <- app_assoc. destruct (N.ltb_spec (lenN s) 32).
    + cbn [app]. rewrite decode_fixstr by assumption. unfold dec_str. now rewrite take_app.
    + rewrite (dec_enc_len8 f 217 218 219 (lenN s) dec_str) by (try (intros; reflexivity); lia).
      unfold dec_str. now rewrite take_app.
  - rewrite <- app_assoc. rewrite (dec_enc_len8 f 196 197 198 (lenN b) dec_bin) by (try (intros; reflexivity); lia).
    unfold dec_bin. now rewrite take_app.
  - apply andb_true_iff in Hwf as [Hl Hall]. rewrite <- app_assoc.
    assert (G : Forall (fun v => forall r, decode f (encode v ++ r) = Some (v, r)) l).
    { rewrite Forall_forall in *. intros v Hv r. apply IH; [exact Hv| |].
      - rewrite forallb_forall in Hall. now apply Hall.
      - cbn [mv_depth] in Hf. pose proof (max_le_fold mv_depth l v Hv). lia. }
    destruct (N.ltb_spec (lenN l) 16).
    + cbn [app]. rewrite decode_fixarr by assumption. now apply dec_arr_encode.
    + rewrite (dec_enc_len16 f 220 221 (lenN l) (dec_arr (decode f))) by (try (intros; reflexivity); lia).
      now apply dec_arr_encode.
  - apply andb_true_iff in Hwf as [Hl Hall]. rewrite <- app_assoc.
    assert (G : Forall (fun kv => (forall r, decode f (encode (fst kv) ++ r) = Some (fst kv, r)) /\
                                  (forall r, decode f (encode (snd kv) ++ r) = Some (snd kv, r))) l).
    { rewrite Forall_forall in *. intros kv Hkv. rewrite forallb_forall in Hall. specialize (Hall kv Hkv).
      apply andb_true_iff in Hall as [W1 W2]. destruct (IH kv Hkv) as [I1 I2]. cbn [mv_depth] in Hf.
      pose proof (max_le_fold (fun kv => Nat.max (mv_depth (fst kv)) (mv_depth (snd kv))) l kv Hkv) as M. cbv beta in M.
      split; intros r; [apply I1|apply I2]; try assumption; lia. }
    destruct (N.ltb_spec (lenN l) 16).
    + cbn [app]. rewrite decode_fixmap by assumption. now apply dec_map_encode.
    + rewrite (dec_enc_len16 f 222 223 (lenN l) (dec_map (decode f))) by (try (intros; reflexivity); lia).
      now apply dec_map_encode.
  - apply N.ltb_lt in Hwf. unfold two32 in Hwf.
    unfold enc_ext. rewrite <- !app_assoc. cbn [app].
    destruct (N.eqb_spec (lenN d) 1); [|destruct (N.eqb_spec (lenN d) 2); [|destruct (N.eqb_spec (lenN d) 4);
      [|destruct (N.eqb_spec (lenN d) 8); [|destruct (N.eqb_spec (lenN d) 16);
      [|destruct (N.ltb_spec (lenN d) 256); [|destruct (N.ltb_spec (lenN d) 65536)]]]]]]; cbn [app].
    + rewrite dtag_212. now apply dec_ext_app.
    + rewrite dtag_213. now apply dec_ext_app.
    + rewrite dtag_214. now apply dec_ext_app.
    + rewrite dtag_215. now apply dec_ext_app.
    + rewrite dtag_216. now apply dec_ext_app.
    + rewrite dtag_199. rewrite (with_len_app 1 1 256) by (try reflexivity; lia). now apply dec_ext_app.
    + rewrite dtag_200. rewrite (with_len_app 2 2 65536) by (try reflexivity; lia). now apply dec_ext_app.
    + rewrite dtag_201. rewrite (with_len_app 4 4 4294967296) by (try reflexivity; lia). now apply dec_ext_app.
Qed.

(* ---------------- unpackb ---------------- *)
Lemma header_len_arr (n : N) : 1 <= length (if (n <? 16)%N then [(144 + n)%N] else enc_len None 220 221 n).
Proof. unfold enc_len. repeat match goal with |- context [if ?c then _ else _] => destruct c end; simpl; lia. Qed.
Lemma header_len_map (n : N) : 1 <= length (if (n <? 16)%N then [(128 + n)%N] else enc_len None 222 223 n).
Proof. unfold enc_len. repeat match goal with |- context [if ?c then _ else _] => destruct c end; simpl; lia. Qed.

Lemma depth_le_len : forall v, mv_depth v <= length (encode v).
Proof.
  induction v as [|b|z|b|s|b|l IH|l IH|c d] using mv_ind';
    try (cbn [mv_depth]; apply encode_nonempty).
  - cbn [mv_depth encode]. rewrite app_length.
    assert (fold_right (fun x m => Nat.max (mv_depth x) m) 0 l <= length (concat (map encode l))); [|pose proof (header_len_arr (lenN l)); lia].
    induction IH as [|x r Hx Hr IHr]; cbn [map concat fold_right length]; [lia|]. rewrite app_length. lia.
  - cbn [mv_depth encode]. rewrite app_length.
    assert (fold_right (fun kv m => Nat.max (Nat.max (mv_depth (fst kv)) (mv_depth (snd kv))) m) 0 l
            <= length (concat (map (fun kv => encode (fst kv) ++ encode (snd kv)) l))); [|pose proof (header_len_map (lenN l)); lia].
    induction IH as [|x r [Hk Hv] Hr IHr]; cbn [map concat fold_right length]; [lia|]. rewrite !app_length. lia.
Qed.

Theorem unpackb_encode v : mv_wfb v = true -> unpackb (encode v) = Some v.
Proof.
  intros H. unfold unpackb. pose proof (decode_encode v H (length (encode v)) [] (depth_le_len v)) as E.
  rewrite app_nil_r in E. rewrite E. reflexivity.
Qed.

(* ---------------- flax: arrays, scalars and complex numbers in ext payloads ---------------- *)
Lemma shape_of_map sh : shape_of (map (fun d => MInt (Z.of_N d)) sh) = Some sh.
Proof.
  induction sh as [|d r IH]; [reflexivity|]. cbn [map shape_of fold_right] in *. fold (shape_of (map (fun d => MInt (Z.of_N d)) r)).
  rewrite IH. destruct (Z.leb_spec 0 (Z.of_N d)); [|lia]. now rewrite N2Z.id.
Qed.

Lemma int_wf_of_N d : (d <? two64)%N = true ->
  ((-9223372036854775808 <=? Z.of_N d) && (Z.of_N d <? 18446744073709551616))%Z = true.
Proof.
  intros H. apply N.ltb_lt in H. unfold two64 in H. apply andb_true_iff; split; [apply Z.leb_le|apply Z.ltb_lt]; lia.
Qed.

Section RestoreProofs.
  Variable isz_of : key -> N.

  Lemma arr_payload_wf dt sh isz data : arr_fits isz_of dt sh isz data = true ->
    mv_wfb (MArr [MArr (map (fun d => MInt (Z.of_N d)) sh); MStr dt; MBin data]) = true.
  Proof.
    unfold arr_fits. rewrite !andb_true_iff. intros [[[[[[[_ _] _] Hdims] Hsh] Hdt] Hdata] _].
    cbn [mv_wfb forallb]. rewrite Hdt, Hdata. unfold lenN at 2. rewrite map_length. fold (lenN sh). rewrite Hsh.
    assert (E : forallb mv_wfb (map (fun d => MInt (Z.of_N d)) sh) = true).
    { rewrite forallb_forall in *. intros v Hv. apply in_map_iff in Hv as (d & <- & Hd). cbn [mv_wfb]. apply int_wf_of_N. now apply Hdims. }
    rewrite E. reflexivity.
  Qed.

  Lemma ndarray_roundtrip dt sh isz data : arr_fits isz_of dt sh isz data = true ->
    ndarray_from_bytes isz_of (ndarray_bytes dt sh data) = Some (dt, sh, data) /\ isz = isz_of dt.
  Proof.
    intros H. pose proof (arr_payload_wf _ _ _ _ H) as W. unfold arr_fits in H. rewrite !andb_true_iff in H.
    destruct H as [[[[[[[Hi H1] Hlen] _] _] _] _] _]. apply N.eqb_eq in Hi. subst isz.
    unfold ndarray_from_bytes, ndarray_bytes. rewrite (unpackb_encode _ W), shape_of_map, H1, Hlen. now split.
  Qed.

  Lemma complex_len re im : length (encode (MArr [MF64 re; MF64 im])) = 19.
  Proof. cbn [encode map concat lenN length N.of_nat]. simpl. reflexivity. Qed.

  Lemma leaf_roundtrip l : leaf_fits isz_of l = true -> mv_sd isz_of (leaf_mv l) = Some (SLeaf l).
  Proof.
    intros H. destruct l as [dt sh isz data|dt isz data|z|b|b| |s|b|re im]; try reflexivity; cbn [leaf_mv leaf_fits mv_sd] in *.
    - destruct (ndarray_roundtrip _ _ _ _ H) as [E ->]. unfold ext_unpack. cbn [N.eqb Pos.eqb]. rewrite E. reflexivity.
    - destruct (ndarray_roundtrip _ _ _ _ H) as [E ->]. unfold ext_unpack. cbn [N.eqb Pos.eqb]. rewrite E. reflexivity.
    - unfold ext_unpack. cbn [N.eqb Pos.eqb]. rewrite unpackb_encode; [reflexivity|].
      apply andb_true_iff in H as [H1 H2]. cbn [mv_wfb forallb]. now rewrite H1, H2.
  Qed.

  Lemma leaf_wf l : leaf_fits isz_of l = true -> mv_wfb (leaf_mv l) = true.
  Proof.
    intros H. destruct l as [dt sh isz data|dt isz data|z|b|b| |s|b|re im]; try exact H; try reflexivity; cbn [leaf_mv leaf_fits mv_wfb] in *.
    - unfold arr_fits in H. rewrite !andb_true_iff in H. apply H.
    - unfold arr_fits in H. rewrite !andb_true_iff in H. apply H.
  Qed.

  Theorem mv_sd_sd_mv : forall s, sd_fits isz_of s = true -> mv_sd isz_of (sd_mv s) = Some s.
  Proof.
    induction s as [l|kids IH] using sd_ind'; intros H.
    - now apply leaf_roundtrip.
    - cbn [sd_mv mv_sd sd_fits] in *. apply andb_true_iff in H as [_ H].
      assert (G : (fix go (l : list (mv * mv)) : option (list (key * sd)) :=
                     match l with
                     | [] => Some []
                     | (MStr k, v) :: r => match mv_sd isz_of v, go r with Some s, Some r' => Some ((k, s) :: r') | _, _ => None end
                     | _ => None
                     end) (map (fun kv => (MStr (fst kv), sd_mv (snd kv))) kids) = Some kids).
      { induction kids as [|[k v] r IHr]; [reflexivity|]. inversion IH as [|? ? Hv Hr]; subst.
        cbn [forallb fst snd] in H. apply andb_true_iff in H as [Hkv Hrest]. apply andb_true_iff in Hkv as [_ Hfv].
        cbn [map fst snd]. simpl in Hv. rewrite (Hv Hfv), (IHr Hr Hrest). reflexivity. }
      rewrite G. reflexivity.
  Qed.

  Theorem sd_fits_wf : forall s, sd_fits isz_of s = true -> mv_wfb (sd_mv s) = true.
  Proof.
    induction s as [l|kids IH] using sd_ind'; intros H.
    - now apply leaf_wf.
    - cbn [sd_mv mv_wfb sd_fits] in *. apply andb_true_iff in H as [Hn H]. apply andb_true_iff; split; [unfold lenN in *; rewrite map_length; exact Hn|].
      rewrite forallb_forall. rewrite forallb_forall in H. intros kv Hkv. apply in_map_iff in Hkv as ([k v] & <- & Hin).
      rewrite Forall_forall in IH. specialize (H _ Hin). specialize (IH _ Hin). cbn [fst snd mv_wfb] in *.
      apply andb_true_iff in H as [Hk Hv]. now rewrite Hk, (IH Hv).
  Qed.

  (* msgpack_restore inverts msgpack_serialize on every state dict that fits the format's limits, whatever the chunk threshold *)
  Theorem restore_serialize th s : clean s -> sd_fits isz_of (chunk_leaves th s) = true ->
    msgpack_restore isz_of (encode (sd_mv (chunk_leaves th s))) = Some s.
  Proof.
    intros Hc Hf. unfold msgpack_restore. rewrite unpackb_encode by (now apply sd_fits_wf).
    rewrite mv_sd_sd_mv by exact Hf. now apply unchunk_chunk_leaves.
  Qed.

  Theorem from_bytes_to_bytes th t : pwf t = true -> clean (to_sd t) -> sd_fits isz_of (chunk_leaves th (to_sd t)) = true ->
    from_bytes isz_of t (to_bytes th t) = Ok t.
  Proof.
    intros Hp Hc Hf. unfold from_bytes, to_bytes. rewrite restore_serialize by assumption.
    unfold from_state_dict. now apply from_to_sd.
  Qed.

  (* a strict prefix of an encoding is never accepted: decode consumes exactly the encoding *)
  Theorem decode_consumes v rest : mv_wfb v = true -> unpackb (encode v ++ rest) = (match rest with [] => Some v | _ => None end).
  Proof.
    intros H. unfold unpackb.
    assert (D : mv_depth v <= length (encode v ++ rest)) by (rewrite app_length; pose proof (depth_le_len v); lia).
    rewrite (decode_encode v H _ rest D). reflexivity.
  Qed.
End RestoreProofs.
