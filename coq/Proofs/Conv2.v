(* C12: the two-dimensional convolution of Model/Layers.v -- padding both dimensions with jnp.pad and convolving VALID is
   the documented direct sum over the extended image. *)
From Coq Require Import Lia ZArith QArith ZifyNat.
From Flaxm Require Import Lib.Harness Model.Layers Proofs.Layers Proofs.ConvT.
Ltac Zify.zify_post_hook ::= Z.div_mod_to_equations.
Open Scope Z_scope.

Lemma ext_index_bound m n i j : ext_index m n i = Some j -> (j < n)%nat.
Proof.
  unfold ext_index. destruct ((0 <=? i) && (i <? Z.of_nat n)) eqn:E.
  - intros H. inversion H; subst. apply andb_true_iff in E as [E1 E2]. apply Z.leb_le in E1. apply Z.ltb_lt in E2. lia.
  - destruct m; [discriminate| |].
    + destruct (Nat.eqb_spec n 0); [discriminate|]. intros H. inversion H; subst.
      assert (Hn : 0 < Z.of_nat n) by lia. pose proof (Z.mod_pos_bound i (Z.of_nat n) Hn) as B. remember (i mod Z.of_nat n) as r. clear Heqr. lia.
    + destruct n as [|[|n']]; [discriminate|intros H; inversion H; lia|].
      remember (S (S n')) as N eqn:HN. assert (HN2 : (2 <= N)%nat) by lia. clear HN.
      intros H. assert (G : forall v : nat, Some v = Some j -> v = j) by (intros v Hv; now inversion Hv). apply G in H. subst j. clear G.
      assert (Hp : 0 < 2 * (Z.of_nat N - 1)) by lia.
      pose proof (Z.mod_pos_bound i (2 * (Z.of_nat N - 1)) Hp) as B.
      cbv zeta. remember (i mod (2 * (Z.of_nat N - 1))) as r. clear Heqr.
      destruct (Z.ltb_spec r (Z.of_nat N)); lia.
Qed.

Lemma pad_img_length m lo1 hi1 lo2 hi2 x : length (pad_img m lo1 hi1 lo2 hi2 x) = (lo1 + length x + hi1)%nat.
Proof. unfold pad_img. now rewrite map_length, seq_length. Qed.

Lemma ext_sig_pad m lo1 hi1 lo2 hi2 x j : (j < lo1 + length x + hi1)%nat ->
  ext_sig PZero (pad_img m lo1 hi1 lo2 hi2 x) (Z.of_nat j) = ext_sig m (map (pad_sig m lo2 hi2) x) (Z.of_nat j - Z.of_nat lo1).
Proof.
  intros Hj. unfold ext_sig at 1. unfold ext_index. rewrite pad_img_length.
  destruct ((0 <=? Z.of_nat j) && (Z.of_nat j <? Z.of_nat (lo1 + length x + hi1))) eqn:E.
  - rewrite Nat2Z.id. unfold pad_img.
    rewrite (nth_indep _ [] ((fun j0 => ext_sig m (map (pad_sig m lo2 hi2) x) (Z.of_nat j0 - Z.of_nat lo1)) 0%nat)) by (rewrite map_length, seq_length; lia).
    rewrite (map_nth (fun j0 => ext_sig m (map (pad_sig m lo2 hi2) x) (Z.of_nat j0 - Z.of_nat lo1))), seq_nth by lia. reflexivity.
  - apply andb_false_iff in E as [E|E]; [apply Z.leb_gt in E|apply Z.ltb_ge in E]; lia.
Qed.

Lemma ext_row_nil m i : ext_row m [] i = [].
Proof. unfold ext_row, ext_index. cbn [length]. destruct ((0 <=? i) && (i <? Z.of_nat 0)) eqn:E; [apply andb_true_iff in E as [E1 E2]; apply Z.leb_le in E1; apply Z.ltb_lt in E2; lia|]. destruct m; reflexivity. Qed.

Definition rect (w : nat) (x : img) : Prop := Forall (fun r => length r = w) x.

Lemma pix_pad m lo1 hi1 lo2 hi2 w x j1 j2 : rect w x -> (j1 < lo1 + length x + hi1)%nat -> (j2 < lo2 + w + hi2)%nat ->
  pix PZero (pad_img m lo1 hi1 lo2 hi2 x) (Z.of_nat j1) (Z.of_nat j2) = pix m x (Z.of_nat j1 - Z.of_nat lo1) (Z.of_nat j2 - Z.of_nat lo2).
Proof.
  intros R H1 H2. unfold pix. rewrite ext_sig_pad by exact H1. unfold ext_sig. rewrite map_length.
  destruct (ext_index m (length x) (Z.of_nat j1 - Z.of_nat lo1)) as [j|] eqn:E.
  - pose proof (ext_index_bound _ _ _ _ E) as Hj.
    rewrite (nth_indep _ [] (pad_sig m lo2 hi2 [])) by (now rewrite map_length). rewrite (map_nth (pad_sig m lo2 hi2)).
    apply ext_row_pad. unfold rect in R. rewrite Forall_forall in R. rewrite (R (nth j x [])) by (apply nth_In; exact Hj). exact H2.
  - now rewrite !ext_row_nil.
Qed.

Lemma mul_div_le_nat2 a b : (b <> 0 -> a / b * b <= a)%nat.
Proof. intros H. pose proof (Nat.div_mod a b H). rewrite Nat.mul_comm. lia. Qed.

Lemma tap_in_range n lo hi ks d s o t : (s <> 0)%nat -> ((ks - 1) * d + 1 <= n + lo + hi)%nat -> (t < ks)%nat ->
  (o < olen n lo hi ((ks - 1) * d + 1) s)%nat -> (o * s + t * d < lo + n + hi)%nat.
Proof.
  intros Hs Hk Ht Ho. unfold olen in Ho.
  pose proof (mul_div_le_nat2 (n + lo + hi - ((ks - 1) * d + 1)) s Hs) as D.
  assert (o * s <= (n + lo + hi - ((ks - 1) * d + 1)) / s * s)%nat by (apply Nat.mul_le_mono_r; lia).
  assert (t * d <= (ks - 1) * d)%nat by (apply Nat.mul_le_mono_r; lia).
  lia.
Qed.

Theorem conv2_impl_is_spec c m lo1 hi1 lo2 hi2 w x :
  rect w x -> (c2_s1 c <> 0)%nat -> (c2_s2 c <> 0)%nat ->
  (keff1 c <= length x + lo1 + hi1)%nat -> (keff2 c <= w + lo2 + hi2)%nat ->
  conv2_impl c m lo1 hi1 lo2 hi2 w x =
  conv2_spec c m (Z.of_nat lo1) (Z.of_nat lo2) (olen (length x) lo1 hi1 (keff1 c) (c2_s1 c)) (olen w lo2 hi2 (keff2 c) (c2_s2 c)) x.
Proof.
  intros R Hs1 Hs2 Hk1 Hk2. unfold conv2_impl, conv2_spec.
  apply map_ext_in. intros o1 Ho1. apply in_seq in Ho1. apply map_ext_in. intros o2 Ho2. apply in_seq in Ho2.
  apply map_ext_in. intros f _. unfold conv2_out. f_equal. apply zsum_ext. intros t1 Ht1. apply in_seq in Ht1.
  apply zsum_ext. intros t2 Ht2. apply in_seq in Ht2. rewrite !Z.sub_0_r.
  rewrite (pix_pad m lo1 hi1 lo2 hi2 w x _ _ R); [reflexivity| |].
  - unfold keff1 in *. apply (tap_in_range (length x) lo1 hi1 (k2size1 c) (c2_d1 c) (c2_s1 c)); auto; lia.
  - unfold keff2 in *. apply (tap_in_range w lo2 hi2 (k2size2 c) (c2_d2 c) (c2_s2 c)); auto; lia.
Qed.
