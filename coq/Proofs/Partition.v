From Coq Require Import Lia.
From Flaxm Require Import Lib.Harness Model.Partition.

Lemma py_insert_in_range {A} (i : Z) (x : A) l : (0 <= i <= Z.of_nat (length l))%Z ->
  py_insert i x l = firstn (Z.to_nat i) l ++ x :: skipn (Z.to_nat i) l.
Proof.
  intros H. unfold py_insert. destruct (Z.ltb_spec i 0); [lia|]. rewrite Z.min_l by lia. reflexivity.
Qed.

Lemma py_pop_in_range {A} (i : Z) (l : list A) x : (0 <= i < Z.of_nat (length l))%Z ->
  nth_error l (Z.to_nat i) = Some x ->
  py_pop i l = Some (x, firstn (Z.to_nat i) l ++ skipn (S (Z.to_nat i)) l).
Proof.
  intros H Hn. unfold py_pop. destruct (Z.ltb_spec i 0); [lia|].
  replace ((0 <=? i)%Z && (i <? Z.of_nat (length l))%Z) with true by (symmetry; apply andb_true_iff; split; [apply Z.leb_le|apply Z.ltb_lt]; lia).
  now rewrite Hn.
Qed.

Lemma pad_to_noop names i : (i <= Z.of_nat (length names))%Z -> pad_to names i = names.
Proof. intros H. unfold pad_to. replace (Z.to_nat (i - Z.of_nat (length names))) with 0 by lia. reflexivity. Qed.

Lemma norm_range fr k : (- fr <= k < fr)%Z -> (0 <= norm fr k < fr)%Z.
Proof. intros H. unfold norm. destruct (Z.ltb_spec k 0); lia. Qed.

(* position of the stacked axis, as a nat *)
Definition pos (r : nat) (k : Z) : nat := Z.to_nat (norm (Z.of_nat r + 1) k).

Lemma add_axis_full r k nm names : length names = r -> (- (Z.of_nat r + 1) <= k <= Z.of_nat r)%Z ->
  add_axis (Z.of_nat r + 1) k nm names = firstn (pos r k) names ++ Some nm :: skipn (pos r k) names.
Proof.
  intros Hl Hk. unfold add_axis. cbv zeta. pose proof (norm_range (Z.of_nat r + 1) k ltac:(lia)) as Hn.
  rewrite pad_to_noop by lia. rewrite py_insert_in_range by lia. reflexivity.
Qed.

(* one entry per dimension, the declared name at the stacked position *)
Theorem add_axis_aligned r k nm names : length names = r -> (- (Z.of_nat r + 1) <= k <= Z.of_nat r)%Z ->
  length (add_axis (Z.of_nat r + 1) k nm names) = S r /\
  nth_error (add_axis (Z.of_nat r + 1) k nm names) (pos r k) = Some (Some nm).
Proof.
  intros Hl Hk. rewrite add_axis_full by assumption.
  pose proof (norm_range (Z.of_nat r + 1) k ltac:(lia)) as Hn.
  assert (Hp : pos r k <= length names) by (unfold pos; lia).
  split.
  - rewrite app_length. simpl. rewrite firstn_length, skipn_length. lia.
  - rewrite nth_error_app2 by (rewrite firstn_length; lia). rewrite firstn_length.
    replace (pos r k - Nat.min (pos r k) (length names)) with 0 by lia. reflexivity.
Qed.

(* the array is stacked at the same position *)
Theorem stack_shape_same_position r k n shape : length shape = r -> (- (Z.of_nat r + 1) <= k <= Z.of_nat r)%Z ->
  length (stack_shape k n shape) = S r /\ nth_error (stack_shape k n shape) (pos r k) = Some n.
Proof.
  intros Hl Hk. unfold stack_shape. rewrite Hl.
  pose proof (norm_range (Z.of_nat r + 1) k ltac:(lia)) as Hn.
  rewrite py_insert_in_range by lia. fold (pos r k).
  assert (Hp : pos r k <= length shape) by (unfold pos; lia).
  split.
  - rewrite app_length. simpl. rewrite firstn_length, skipn_length. lia.
  - rewrite nth_error_app2 by (rewrite firstn_length; lia). rewrite firstn_length.
    replace (pos r k - Nat.min (pos r k) (length shape)) with 0 by lia. reflexivity.
Qed.

(* slicing removes it again: remove_axis is the inverse of add_axis *)
Theorem remove_add r k nm names : length names = r -> (- (Z.of_nat r + 1) <= k <= Z.of_nat r)%Z ->
  remove_axis (Z.of_nat r + 1) k nm (add_axis (Z.of_nat r + 1) k nm names) = Some names.
Proof.
  intros Hl Hk. destruct (add_axis_aligned r k nm names Hl Hk) as [Hlen Hnth].
  pose proof (norm_range (Z.of_nat r + 1) k ltac:(lia)) as Hn.
  unfold remove_axis. rewrite (py_pop_in_range _ _ (Some nm)); [|rewrite Hlen; lia|exact Hnth].
  rewrite N.eqb_refl. f_equal. fold (pos r k). rewrite add_axis_full by assumption.
  assert (Hp : pos r k <= length names) by (unfold pos; lia).
  assert (Hf : length (firstn (pos r k) names) = pos r k) by (rewrite firstn_length; lia).
  rewrite firstn_app, Hf, Nat.sub_diag, firstn_O, app_nil_r, firstn_firstn, Nat.min_id.
  replace (S (pos r k)) with (length (firstn (pos r k) names) + 1) by lia.
  rewrite skipn_app, Hf. replace (pos r k + 1 - pos r k) with 1 by lia.
  rewrite skipn_all2 by lia. simpl. apply firstn_skipn.
Qed.

Theorem add_remove fr k nm names rest : Z.of_nat (length names) = fr -> (- fr <= k < fr)%Z ->
  remove_axis fr k nm names = Some rest -> add_axis fr k nm rest = names.
Proof.
  intros Hl Hk H. pose proof (norm_range fr k Hk) as Hn. unfold remove_axis in H.
  destruct (nth_error names (Z.to_nat (norm fr k))) as [x|] eqn:En; [|apply nth_error_None in En; lia].
  rewrite (py_pop_in_range _ _ x) in H by (try exact En; lia).
  destruct x as [x|]; [|discriminate]. destruct (N.eqb_spec x nm); [|discriminate]. subst x. inversion H; subst rest; clear H.
  set (p := Z.to_nat (norm fr k)) in *.
  assert (Hp : p < length names) by (unfold p; lia).
  assert (Hlen : length (firstn p names ++ skipn (S p) names) = length names - 1) by (rewrite app_length, firstn_length, skipn_length; lia).
  assert (Hf : length (firstn p names) = p) by (rewrite firstn_length; lia).
  unfold add_axis. cbv zeta. fold p.
  change (match names with [] => [] | _ :: l => skipn p l end) with (skipn (S p) names).
  remember (skipn (S p) names) as sk eqn:Esk.
  rewrite pad_to_noop by (rewrite Hlen; lia). rewrite py_insert_in_range by (rewrite Hlen; lia). fold p.
  rewrite firstn_app, Hf, Nat.sub_diag, firstn_O, app_nil_r, firstn_firstn, Nat.min_id.
  assert (E : skipn p (firstn p names ++ sk) = sk).
  { rewrite skipn_app, Hf, Nat.sub_diag. rewrite skipn_all2 by lia. reflexivity. }
  rewrite E. subst sk.
  rewrite <- (firstn_skipn p names) at 3. f_equal.
  clear -En. revert names En; induction p as [|p IH]; intros [|y r] En; simpl in *; try discriminate.
  - now inversion En.
  - now apply IH.
Qed.

(* names shorter than the rank are padded with None up to the stacked position *)
Lemma pad_none_spec l n : pad_none l n = l ++ repeat None n.
Proof. revert l; induction n as [|n IH]; intros l; simpl; [now rewrite app_nil_r|]. rewrite IH, <- app_assoc. reflexivity. Qed.

Theorem add_axis_short fr k nm names : (Z.of_nat (length names) <= k)%Z ->
  add_axis fr k nm names = names ++ repeat None (Z.to_nat k - length names) ++ [Some nm].
Proof.
  intros Hk. unfold add_axis, norm. cbv zeta. destruct (Z.ltb_spec k 0); [lia|]. unfold pad_to. rewrite pad_none_spec.
  replace (Z.to_nat (k - Z.of_nat (length names))) with (Z.to_nat k - length names) by lia.
  set (l := names ++ repeat None (Z.to_nat k - length names)).
  assert (Hl : length l = Z.to_nat k) by (unfold l; rewrite app_length, repeat_length; lia).
  rewrite py_insert_in_range by lia.
  rewrite (firstn_all2 l) by lia. rewrite (skipn_all2 l) by lia. unfold l. rewrite <- app_assoc. reflexivity.
Qed.

(* the arithmetic before the fix misplaces the name for a negative axis: F4 *)
Example negative_axis_old_refuted :
  let a := Some 1%N in let b := Some 2%N in
  add_axis_old (-1) 9 [a; b] = [a; Some 9%N; b] /\ stack_shape (-1) 4 [2; 3]%N = [2; 3; 4]%N /\
  remove_axis_old (-1) 9 (add_axis_old (-1) 9 [a; b]) = None.
Proof. vm_compute. repeat split; reflexivity. Qed.
Example negative_axis_fixed :
  let a := Some 1%N in let b := Some 2%N in
  add_axis 3 (-1) 9 [a; b] = [a; b; Some 9%N] /\ remove_axis 3 (-1) 9 [a; b; Some 9%N] = Some [a; b].
Proof. vm_compute. repeat split; reflexivity. Qed.

(* ---------------- logical_to_mesh_axes ---------------- *)
(* no mesh axis is used for two different dimensions *)
Definition disjoint_entries (res : list entry) : Prop :=
  forall i j a, i <> j -> (exists e, nth_error res i = Some e /\ In a (entry_axes e)) ->
                (exists e, nth_error res j = Some e /\ In a (entry_axes e)) -> False.

Lemma nth_set_entry i e l j : nth_error (set_entry i e l) j =
  if Nat.eqb j i then (if Nat.ltb i (length l) then Some e else None) else nth_error l j.
Proof.
  revert i j; induction l as [|y r IH]; intros i j; simpl.
  - destruct i; destruct (Nat.eqb j _); destruct j; reflexivity.
  - destruct i as [|i]; destruct j as [|j]; simpl; try reflexivity. rewrite IH.
    change (Nat.ltb (S i) (S (length r))) with (Nat.ltb i (length r)). reflexivity.
Qed.

Lemma mesh_free_spec m res : mesh_free m res = true ->
  forall a, In a m -> forall j e, nth_error res j = Some e -> ~ In a (entry_axes e).
Proof.
  unfold mesh_free. intros H a Ha j e Hj Hin. apply negb_true_iff in H.
  assert (existsb (fun a => existsb (fun e => memN a (entry_axes e)) res) m = true); [|congruence].
  apply existsb_exists. exists a. split; [exact Ha|]. apply existsb_exists. exists e. split; [eapply nth_error_In; eauto|].
  unfold memN. apply existsb_exists. exists a. split; [exact Hin|apply N.eqb_refl].
Qed.

Lemma apply_rule_disjoint names res r : disjoint_entries res -> disjoint_entries (apply_rule names res r).
Proof.
  intros D. unfold apply_rule. destruct (index_of_name (fst r) names) as [p|]; [|exact D].
  destruct (nth_error res p) as [[| |ax]|] eqn:Ep; try exact D.
  destruct (mesh_free (snd r) res) eqn:Ef; [|exact D].
  intros i j a Hij (e1 & H1 & A1) (e2 & H2 & A2). rewrite nth_set_entry in H1, H2.
  destruct (Nat.eqb_spec i p) as [->|Hi]; destruct (Nat.eqb_spec j p) as [->|Hj]; try congruence.
  - destruct (Nat.ltb p (length res)); [|discriminate]. inversion H1; subst e1. simpl in A1.
    exact (mesh_free_spec _ _ Ef a A1 j e2 H2 A2).
  - destruct (Nat.ltb p (length res)); [|discriminate]. inversion H2; subst e2. simpl in A2.
    exact (mesh_free_spec _ _ Ef a A2 i e1 H1 A1).
  - apply (D i j a Hij); eauto.
Qed.

Theorem mesh_axes_disjoint names rules res : logical_to_mesh names rules = Some res -> disjoint_entries res.
Proof.
  unfold logical_to_mesh. destruct (has_dup names); [discriminate|]. intros H. inversion H; subst; clear H.
  assert (G : forall rules res0, disjoint_entries res0 -> disjoint_entries (fold_left (apply_rule names) rules res0)).
  { induction rules0 as [|r rs IH]; intros res0 D; simpl; [exact D|]. apply IH. now apply apply_rule_disjoint. }
  apply G. intros i j a _ (e1 & H1 & A1) _. rewrite nth_error_map in H1.
  destruct (nth_error names i) as [[x|]|]; simpl in H1; inversion H1; subst; contradiction.
Qed.

(* rule priority: once a dimension is assigned no later rule changes it *)
Lemma apply_rule_stable names res r i e : nth_error res i = Some e -> e <> EUnassigned ->
  nth_error (apply_rule names res r) i = Some e.
Proof.
  intros Hi He. unfold apply_rule. destruct (index_of_name (fst r) names) as [p|]; [|exact Hi].
  destruct (nth_error res p) as [[| |ax]|] eqn:Ep; try exact Hi.
  destruct (mesh_free (snd r) res); [|exact Hi]. rewrite nth_set_entry.
  destruct (Nat.eqb_spec i p) as [->|]; [|exact Hi]. rewrite Ep in Hi. inversion Hi; subst. contradiction.
Qed.
Theorem mesh_priority names rules1 rules2 res0 i e :
  nth_error (fold_left (apply_rule names) rules1 res0) i = Some e -> e <> EUnassigned ->
  nth_error (fold_left (apply_rule names) (rules1 ++ rules2) res0) i = Some e.
Proof.
  intros H He. rewrite fold_left_app. generalize dependent (fold_left (apply_rule names) rules1 res0).
  induction rules2 as [|r rs IH]; intros res H; simpl; [exact H|]. apply IH. now apply apply_rule_stable.
Qed.
(* a rule fires exactly when its dimension is present and unassigned and all its mesh axes are unused *)
Theorem rule_fires names res r p : index_of_name (fst r) names = Some p -> nth_error res p = Some EUnassigned ->
  mesh_free (snd r) res = true -> nth_error (apply_rule names res r) p = Some (EMesh (snd r)).
Proof.
  intros Hp Hn Hf. unfold apply_rule. rewrite Hp, Hn, Hf, nth_set_entry, Nat.eqb_refl.
  assert (p < length res) by (apply nth_error_Some; congruence). apply Nat.ltb_lt in H. now rewrite H.
Qed.
Theorem length_preserved names rules res : logical_to_mesh names rules = Some res -> length res = length names.
Proof.
  unfold logical_to_mesh. destruct (has_dup names); [discriminate|]. intros H. inversion H; subst; clear H.
  assert (G : forall rules res0, length (fold_left (apply_rule names) rules res0) = length res0).
  { induction rules0 as [|r rs IH]; intros res0; simpl; [reflexivity|]. rewrite IH. unfold apply_rule.
    destruct (index_of_name (fst r) names); [|reflexivity]. destruct (nth_error res0 n) as [[| |]|]; try reflexivity.
    destruct (mesh_free (snd r) res0); [|reflexivity]. clear. revert n; induction res0 as [|x l IHl]; intros [|n]; simpl; auto. }
  rewrite G. apply map_length.
Qed.
