From Flaxm Require Import Lib.Harness Model.Filters Model.Linen.
