From Coq Require Import Lia.
From Flaxm Require Import Lib.Harness Model.Filters Model.Linen.

Ltac inv H := inversion H; subst; clear H.

(* ---------------- writes touch one collection only ---------------- *)
Lemma cassoc_cset c c' v t : cassoc c (cset c' v t) = if N.eqb c c' then Some v else cassoc c t.
Proof.
  induction t as [|[k x] r IH]; simpl.
  - destruct (N.eqb c c'); reflexivity.
  - destruct (N.eqb_spec c' k) as [->|Hk]; simpl.
    + destruct (N.eqb c k); reflexivity.
    + rewrite IH. destruct (N.eqb_spec c k) as [->|Hc]; [|reflexivity].
      destruct (N.eqb_spec k c'); [congruence|reflexivity].
Qed.
Lemma put_var_other t col p nm v t' c : put_var t col p nm v = Some t' -> c <> col -> cassoc c t' = cassoc c t.
Proof.
  unfold put_var. intros E H. destruct (put_at p nm v _); [|discriminate]. inv E.
  rewrite cassoc_cset. destruct (N.eqb_spec c col); [contradiction|reflexivity].
Qed.
Lemma put_var_keeps t col p nm v t' c : put_var t col p nm v = Some t' -> cassoc c t <> None -> cassoc c t' <> None.
Proof.
  unfold put_var. intros E H. destruct (put_at p nm v _); [|discriminate]. inv E.
  rewrite cassoc_cset. destruct (N.eqb c col); [discriminate|exact H].
Qed.

Lemma make_rng_vars ev p stream s s' : make_rng ev p stream s = Ok s' -> s_vars s' = s_vars s.
Proof.
  unfold make_rng. destruct (memN stream (e_streams ev)); [|destruct (memN (e_params ev) (e_streams ev))];
    intros H; inv H; reflexivity.
Qed.

(* the state after a computation: collections that `mutable` does not select are exactly as before, and no
   collection disappears *)
Definition frame_rel (ev : env) (s s' : st) : Prop :=
  (forall c, in_filter (e_mutable ev) c = false -> cassoc c (s_vars s') = cassoc c (s_vars s)) /\
  (forall c, cassoc c (s_vars s) <> None -> cassoc c (s_vars s') <> None).

Lemma frame_refl ev s : frame_rel ev s s.  Proof. split; auto. Qed.
Lemma frame_trans ev a b c : frame_rel ev a b -> frame_rel ev b c -> frame_rel ev a c.
Proof. intros [A1 A2] [B1 B2]. split; [intros x Hx; now rewrite B1, A1|auto]. Qed.

Lemma frame_put ev s col p nm v t' cs tr : in_filter (e_mutable ev) col = true ->
  put_var (s_vars s) col p nm v = Some t' -> frame_rel ev s (mkSt t' cs tr).
Proof.
  intros Hm E. split; simpl.
  - intros c Hc. eapply put_var_other; [exact E|]. intros ->. congruence.
  - intros c Hc. eapply put_var_keeps; eauto.
Qed.
Lemma frame_same_vars ev s s' : s_vars s' = s_vars s -> frame_rel ev s s'.
Proof. intros H. split; intros c Hc; now rewrite H. Qed.

Section StepFrame.
  Variable ev : env.
  Variable call : N -> path -> vec -> st -> res (vec * st).
  Hypothesis call_frame : forall cls p v s y s', call cls p v s = Ok (y, s') -> frame_rel ev s s'.

  Lemma step_frame p input fr s c fr' s' : step ev call p input fr s c = Ok (fr', s') -> frame_rel ev s s'.
  Proof.
    unfold step, mut. intros H. destruct c.
    - (* SParam *)
      destruct (name_reserved (f_resv fr) nm (Some (e_params ev))); [discriminate|].
      destruct (has_var (s_vars s) (e_params ev) p nm).
      + destruct (get_var (s_vars s) (e_params ev) p nm) as [[v|vs]|]; try discriminate.
        destruct (Nat.eqb (length v) (psize n input)); [|discriminate]. inv H. apply frame_refl.
      + destruct (in_filter (e_mutable ev) (e_params ev)) eqn:Em; simpl in H; [|destruct (col_empty (s_vars s) (e_params ev)); discriminate].
        destruct (make_rng ev p (e_params ev) s) as [s1|] eqn:Er; [|discriminate].
        destruct (put_var (s_vars s1) (e_params ev) p nm _) as [t'|] eqn:Ep; [|discriminate]. inv H.
        eapply frame_trans; [apply frame_same_vars; eapply make_rng_vars; eauto|]. eapply frame_put; eauto.
    - (* SVar *)
      destruct (name_reserved (f_resv fr) nm (Some col)); [discriminate|].
      destruct (has_var (s_vars s) col p nm).
      + destruct (get_var (s_vars s) col p nm) as [[v|vs]|]; try discriminate. inv H. apply frame_refl.
      + destruct (in_filter (e_mutable ev) col) eqn:Em; simpl in H; [|destruct (col_empty (s_vars s) col); discriminate].
        destruct (put_var (s_vars s) col p nm _) as [t'|] eqn:Ep; [|discriminate]. inv H. eapply frame_put; eauto.
    - (* SVarSet *)
      destruct (eval (f_locals fr) input e); [|discriminate].
      destruct (in_filter (e_mutable ev) col) eqn:Em; [|discriminate].
      destruct (put_var (s_vars s) col p nm _) as [t'|] eqn:Ep; [|discriminate]. inv H. eapply frame_put; eauto.
    - (* SSow *)
      destruct (eval (f_locals fr) input e); [|discriminate].
      destruct (in_filter (e_mutable ev) col) eqn:Em; simpl in H; [|inv H; apply frame_refl].
      destruct (has_var (s_vars s) col p nm).
      + destruct (get_var (s_vars s) col p nm) as [[v0|vs]|]; try discriminate.
        destruct (put_var (s_vars s) col p nm _) as [t'|] eqn:Ep; [|discriminate]. inv H. eapply frame_put; eauto.
      + destruct (name_reserved (f_resv fr) nm (Some col)); [discriminate|].
        destruct (put_var (s_vars s) col p nm _) as [t'|] eqn:Ep; [|discriminate]. inv H. eapply frame_put; eauto.
    - (* SPerturb *)
      destruct (eval (f_locals fr) input e) as [v|]; [|discriminate].
      destruct (in_filter (e_mutable ev) (e_perturb ev) && negb (has_var (s_vars s) (e_perturb ev) p nm)) eqn:Eg.
      + destruct (name_reserved (f_resv fr) nm (Some (e_perturb ev))); [discriminate|].
        apply andb_true_iff in Eg as [Em _].
        destruct (put_var (s_vars s) (e_perturb ev) p nm _) as [t'|] eqn:Ep; [|discriminate].
        match type of H with context[cassoc ?c ?t] => destruct (cassoc c t) end.
        * match type of H with context[get_var ?t ?c ?q ?m] => destruct (get_var t c q m) as [[old|vs]|] end; try discriminate.
          destruct (vop add64 v old); [|discriminate]. inv H. eapply frame_put; eauto.
        * inv H. eapply frame_put; eauto.
      + destruct (cassoc (e_perturb ev) (s_vars s)).
        * destruct (get_var (s_vars s) (e_perturb ev) p nm) as [[old|vs]|]; try discriminate.
          destruct (vop add64 v old); [|discriminate]. inv H. apply frame_refl.
        * inv H. apply frame_refl.
    - (* SRng *)
      destruct (make_rng ev p stream s) as [s1|] eqn:Er; [|discriminate]. inv H. apply frame_same_vars. eapply make_rng_vars; eauto.
    - (* SLet *) destruct (eval (f_locals fr) input e); [|discriminate]. inv H. apply frame_refl.
    - (* SChild *)
      destruct nm as [n|].
      + destruct (name_reserved (f_resv fr) (NExp n) None); [discriminate|]. inv H. apply frame_refl.
      + match type of H with context[name_reserved ?r ?n None] => destruct (name_reserved r n None) end; [discriminate|]. inv H. apply frame_refl.
    - (* SCall *)
      destruct (eval (f_locals fr) input e) as [v|]; [|discriminate].
      destruct (lassoc i (f_insts fr)) as [[cls cp]|]; [|discriminate].
      destruct (call cls cp v s) as [[y s1]|] eqn:Ec; [|discriminate]. inv H. eapply call_frame; eauto.
  Qed.

  Lemma steps_frame p input : forall cs fr s fr' s', steps ev call p input fr s cs = Ok (fr', s') -> frame_rel ev s s'.
  Proof.
    induction cs as [|c r IH]; intros fr s fr' s' H; simpl in H; [inv H; apply frame_refl|].
    destruct (step ev call p input fr s c) as [[fr1 s1]|] eqn:E; [|discriminate].
    eapply frame_trans; [eapply step_frame; eauto|eapply IH; eauto].
  Qed.
End StepFrame.

Theorem run_call_frame ev : forall fuel cls p v s y s', run_call fuel ev cls p v s = Ok (y, s') -> frame_rel ev s s'.
Proof.
  induction fuel as [|f IH]; intros cls p v s y s' H; [discriminate|]. simpl in H.
  destruct (lassoc cls (e_classes ev)) as [[body ret]|]; [|discriminate].
  destruct (steps ev (run_call f ev) p v frame0 s body) as [[fr s1]|] eqn:E; [|discriminate].
  destruct (eval (f_locals fr) v ret); [|discriminate]. inv H.
  eapply steps_frame; [|exact E]. intros; eapply IH; eauto.
Qed.

(* C01: only the collections selected by `mutable` can change; every existing collection survives, so those that
   match `mutable` are all returned *)
Theorem mutable_contract ev top vars x y s : apply_m ev top vars x = Ok (y, s) ->
  (forall c, in_filter (e_mutable ev) c = false -> cassoc c (s_vars s) = cassoc c vars) /\
  (forall c, cassoc c vars <> None -> cassoc c (s_vars s) <> None) /\
  (forall c n, In (c, n) (returned ev (s_vars s)) <-> In (c, n) (s_vars s) /\ in_filter (e_mutable ev) c = true).
Proof.
  intros H. destruct (run_call_frame ev _ _ _ _ _ _ _ H) as [A B]. split; [exact A|]. split; [exact B|].
  intros c n. unfold returned. rewrite filter_In. simpl. tauto.
Qed.

(* a write to a collection that is not mutable raises instead of taking effect *)
Theorem immutable_write_raises ev call p input fr s col nm e v :
  eval (f_locals fr) input e = Some v -> in_filter (e_mutable ev) col = false ->
  step ev call p input fr s (SVarSet col nm e) = Err EModifyScope.
Proof. intros He Hm. unfold step, mut. now rewrite He, Hm. Qed.
Theorem immutable_param_init_raises ev call p input fr s x nm n c :
  name_reserved (f_resv fr) nm (Some (e_params ev)) = false -> has_var (s_vars s) (e_params ev) p nm = false ->
  in_filter (e_mutable ev) (e_params ev) = false ->
  step ev call p input fr s (SParam x nm n c) = Err ECollectionNotFound \/ step ev call p input fr s (SParam x nm n c) = Err EParamNotFound.
Proof. intros Hr Hh Hm. unfold step, mut. rewrite Hr, Hh, Hm. simpl. destruct (col_empty (s_vars s) (e_params ev)); auto. Qed.
Theorem immutable_sow_is_noop ev call p input fr s col nm e v :
  eval (f_locals fr) input e = Some v -> in_filter (e_mutable ev) col = false ->
  step ev call p input fr s (SSow col nm e) = Ok (fr, s).
Proof. intros He Hm. unfold step, mut. now rewrite He, Hm. Qed.
Theorem wrong_shape_param_raises ev call p input fr s x nm n c v :
  name_reserved (f_resv fr) nm (Some (e_params ev)) = false -> has_var (s_vars s) (e_params ev) p nm = true ->
  get_var (s_vars s) (e_params ev) p nm = Some (SVec v) -> length v <> psize n input ->
  step ev call p input fr s (SParam x nm n c) = Err EParamShape.
Proof. intros Hr Hh Hg Hl. unfold step. rewrite Hr, Hh, Hg. apply Nat.eqb_neq in Hl. now rewrite Hl. Qed.

(* ---------------- C02: name clashes raise ---------------- *)
Theorem child_name_clash ev call p input fr s i cls n :
  name_reserved (f_resv fr) (NExp n) None = true -> step ev call p input fr s (SChild i cls (Some n)) = Err ENameInUse.
Proof. intros H. unfold step. now rewrite H. Qed.
Theorem variable_name_clash ev call p input fr s x col nm n c :
  name_reserved (f_resv fr) nm (Some col) = true -> step ev call p input fr s (SVar x col nm n c) = Err ENameInUse.
Proof. intros H. unfold step. now rewrite H. Qed.
Theorem param_name_clash ev call p input fr s x nm n c :
  name_reserved (f_resv fr) nm (Some (e_params ev)) = true -> step ev call p input fr s (SParam x nm n c) = Err ENameInUse.
Proof. intros H. unfold step. now rewrite H. Qed.
(* what "reserved" means: a child scope clashes with everything of that name; two variables clash only within
   one collection *)
Theorem reserved_child_blocks_all r nm col : In (nm, None) r -> name_reserved r nm col = true.
Proof.
  intros H. unfold name_reserved. apply existsb_exists. exists (nm, None). split; [exact H|]. simpl.
  assert (name_eqb nm nm = true) as -> by (destruct nm; simpl; rewrite ?N.eqb_refl, ?Nat.eqb_refl; reflexivity). reflexivity.
Qed.
Theorem same_name_other_collection_allowed nm c c' : c <> c' -> name_reserved [(nm, Some c)] nm (Some c') = false.
Proof. intros H. unfold name_reserved. simpl. destruct (name_eqb nm nm); [|reflexivity]. simpl. destruct (N.eqb_spec c c'); [congruence|reflexivity]. Qed.

(* ---------------- C09: keys are position-addressed and never reused ---------------- *)
(* every KeyDrawn event carries the count the counter had just reached; counters only grow *)
Definition keys_of (tr : list event) : list (N * path * nat) :=
  flat_map (fun e => match e with KeyDrawn s p n => [(s, p, n)] | ParamInit _ _ => [] end) tr.

Lemma path_eqb_eq a b : path_eqb a b = true <-> a = b.
Proof.
  apply list_beq_spec. intros x y. destruct x, y; simpl; split; intros H; try discriminate; try (inversion H; subst; rewrite ?N.eqb_refl, ?Nat.eqb_refl; reflexivity).
  - apply N.eqb_eq in H. now subst.
  - apply andb_true_iff in H as [H1 H2]. apply N.eqb_eq in H1. apply Nat.eqb_eq in H2. now subst.
Qed.

Lemma counter_set cs p s n q t : counter (set_counter cs p s n) q t = if path_eqb q p && N.eqb t s then n else counter cs q t.
Proof.
  induction cs as [|[[q0 t0] m] r IH]; simpl.
  - reflexivity.
  - destruct (path_eqb p q0 && N.eqb s t0) eqn:E; simpl.
    + apply andb_true_iff in E as [E1 E2]. apply path_eqb_eq in E1. apply N.eqb_eq in E2. subst.
      destruct (path_eqb q q0 && N.eqb t t0); reflexivity.
    + rewrite IH. destruct (path_eqb q q0 && N.eqb t t0) eqn:E2; [|reflexivity].
      apply andb_true_iff in E2 as [A B]. apply path_eqb_eq in A. apply N.eqb_eq in B. subst.
      destruct (path_eqb q0 p && N.eqb t0 s) eqn:E3; [|reflexivity].
      apply andb_true_iff in E3 as [A B]. apply path_eqb_eq in A. apply N.eqb_eq in B. subst.
      assert (path_eqb p p = true) by now apply path_eqb_eq. rewrite H, N.eqb_refl in E. discriminate.
Qed.

(* invariant: every key in the trace has a count between 1 and the current counter of its (path, stream), and
   the keys are pairwise different *)
Definition keys_inv (s : st) : Prop :=
  NoDup (keys_of (s_trace s)) /\
  forall t p n, In (t, p, n) (keys_of (s_trace s)) -> 1 <= n <= counter (s_counters s) p t.

Lemma keys_of_app a b : keys_of (a ++ b) = keys_of a ++ keys_of b.
Proof. unfold keys_of. apply flat_map_app. Qed.

Lemma make_rng_inv ev p stream s s' : keys_inv s -> make_rng ev p stream s = Ok s' -> keys_inv s'.
Proof.
  intros [ND B] H. unfold make_rng in H.
  assert (G : forall t, keys_inv (mkSt (s_vars s) (set_counter (s_counters s) p t (S (counter (s_counters s) p t)))
                                       (s_trace s ++ [KeyDrawn t p (S (counter (s_counters s) p t))]))).
  { intros t. split; simpl; rewrite keys_of_app; simpl.
    - apply NoDup_app_remove_r || idtac. rewrite <- (app_nil_r (keys_of (s_trace s))) in ND.
      apply NoDup_remove_1 in ND || idtac. 
      assert (~ In (t, p, S (counter (s_counters s) p t)) (keys_of (s_trace s))) by (intros Hin; specialize (B _ _ _ Hin); lia).
      clear -ND H0. rewrite app_nil_r in ND. induction (keys_of (s_trace s)) as [|a r IH]; simpl; [constructor; [auto|constructor]|].
      inv ND. constructor; [|apply IH; auto; intros Hx; apply H0; now right].
      intros Hin. apply in_app_or in Hin as [Hin|[Hin|[]]]; [contradiction|]. apply H0. left. now symmetry.
    - intros t' p' n' Hin. apply in_app_or in Hin as [Hin|[Hin|[]]].
      + specialize (B _ _ _ Hin). rewrite counter_set. destruct (path_eqb p' p && N.eqb t' t) eqn:E; [|exact B].
        apply andb_true_iff in E as [E1 E2]. apply path_eqb_eq in E1. apply N.eqb_eq in E2. subst. lia.
      + inv Hin. rewrite counter_set. assert (path_eqb p' p' = true) by now apply path_eqb_eq. rewrite H0, N.eqb_refl. simpl. lia. }
  destruct (memN stream (e_streams ev)); [inv H; apply G|].
  destruct (memN (e_params ev) (e_streams ev)); [inv H; apply G|discriminate].
Qed.

Lemma keys_inv_vars s v : keys_inv s -> keys_inv (mkSt v (s_counters s) (s_trace s)).
Proof. intros H. exact H. Qed.
Lemma keys_inv_param s v p nm : keys_inv s -> keys_inv (mkSt v (s_counters s) (s_trace s ++ [ParamInit p nm])).
Proof. intros [A B]. split; simpl; rewrite keys_of_app; simpl; rewrite app_nil_r; assumption. Qed.

Section StepKeys.
  Variable ev : env.
  Variable call : N -> path -> vec -> st -> res (vec * st).
  Hypothesis call_keys : forall cls p v s y s', keys_inv s -> call cls p v s = Ok (y, s') -> keys_inv s'.

  Lemma step_keys p input fr s c fr' s' : keys_inv s -> step ev call p input fr s c = Ok (fr', s') -> keys_inv s'.
  Proof.
    unfold step. intros I H. destruct c.
    - destruct (name_reserved (f_resv fr) nm (Some (e_params ev))); [discriminate|].
      destruct (has_var (s_vars s) (e_params ev) p nm).
      + destruct (get_var (s_vars s) (e_params ev) p nm) as [[v|vs]|]; try discriminate.
        destruct (Nat.eqb (length v) (psize n input)); [|discriminate]. inv H. exact I.
      + destruct (negb (mut ev (e_params ev))); [destruct (col_empty (s_vars s) (e_params ev)); discriminate|].
        destruct (make_rng ev p (e_params ev) s) as [s1|] eqn:Er; [|discriminate].
        destruct (put_var (s_vars s1) (e_params ev) p nm _) as [t'|]; [|discriminate]. inv H.
        apply keys_inv_param. eapply make_rng_inv; eauto.
    - destruct (name_reserved (f_resv fr) nm (Some col)); [discriminate|].
      destruct (has_var (s_vars s) col p nm).
      + destruct (get_var (s_vars s) col p nm) as [[v|vs]|]; try discriminate. inv H. exact I.
      + destruct (negb (mut ev col)); [destruct (col_empty (s_vars s) col); discriminate|].
        destruct (put_var (s_vars s) col p nm _) as [t'|]; [|discriminate]. inv H. exact I.
    - destruct (eval (f_locals fr) input e); [|discriminate]. destruct (mut ev col); [|discriminate].
      destruct (put_var (s_vars s) col p nm _) as [t'|]; [|discriminate]. inv H. exact I.
    - destruct (eval (f_locals fr) input e); [|discriminate]. destruct (negb (mut ev col)); [inv H; exact I|].
      destruct (has_var (s_vars s) col p nm).
      + destruct (get_var (s_vars s) col p nm) as [[v0|vs]|]; try discriminate.
        destruct (put_var (s_vars s) col p nm _) as [t'|]; [|discriminate]. inv H. exact I.
      + destruct (name_reserved (f_resv fr) nm (Some col)); [discriminate|].
        destruct (put_var (s_vars s) col p nm _) as [t'|]; [|discriminate]. inv H. exact I.
    - destruct (eval (f_locals fr) input e) as [v|]; [|discriminate].
      destruct (mut ev (e_perturb ev) && negb (has_var (s_vars s) (e_perturb ev) p nm)).
      + destruct (name_reserved (f_resv fr) nm (Some (e_perturb ev))); [discriminate|].
        destruct (put_var (s_vars s) (e_perturb ev) p nm _) as [t'|]; [|discriminate].
        match type of H with context[cassoc ?c ?t] => destruct (cassoc c t) end.
        * match type of H with context[get_var ?t ?c ?q ?m] => destruct (get_var t c q m) as [[old|vs]|] end; try discriminate.
          destruct (vop add64 v old); [|discriminate]. inv H. exact I.
        * inv H. exact I.
      + destruct (cassoc (e_perturb ev) (s_vars s)).
        * destruct (get_var (s_vars s) (e_perturb ev) p nm) as [[old|vs]|]; try discriminate.
          destruct (vop add64 v old); [|discriminate]. inv H. exact I.
        * inv H. exact I.
    - destruct (make_rng ev p stream s) as [s1|] eqn:Er; [|discriminate]. inv H. eapply make_rng_inv; eauto.
    - destruct (eval (f_locals fr) input e); [|discriminate]. inv H. exact I.
    - destruct nm as [n|].
      + destruct (name_reserved (f_resv fr) (NExp n) None); [discriminate|]. inv H. exact I.
      + match type of H with context[name_reserved ?r ?n None] => destruct (name_reserved r n None) end; [discriminate|]. inv H. exact I.
    - destruct (eval (f_locals fr) input e) as [v|]; [|discriminate].
      destruct (lassoc i (f_insts fr)) as [[cls cp]|]; [|discriminate].
      destruct (call cls cp v s) as [[y s1]|] eqn:Ec; [|discriminate]. inv H. eapply call_keys; eauto.
  Qed.

  Lemma steps_keys p input : forall cs fr s fr' s', keys_inv s -> steps ev call p input fr s cs = Ok (fr', s') -> keys_inv s'.
  Proof.
    induction cs as [|c r IH]; intros fr s fr' s' I H; simpl in H; [inv H; exact I|].
    destruct (step ev call p input fr s c) as [[fr1 s1]|] eqn:E; [|discriminate].
    eapply IH; [eapply step_keys; eauto|eauto].
  Qed.
End StepKeys.

Theorem run_call_keys ev : forall fuel cls p v s y s', keys_inv s -> run_call fuel ev cls p v s = Ok (y, s') -> keys_inv s'.
Proof.
  induction fuel as [|f IH]; intros cls p v s y s' I H; [discriminate|]. simpl in H.
  destruct (lassoc cls (e_classes ev)) as [[body ret]|]; [|discriminate].
  destruct (steps ev (run_call f ev) p v frame0 s body) as [[fr s1]|] eqn:E; [|discriminate].
  destruct (eval (f_locals fr) v ret); [|discriminate]. inv H.
  eapply steps_keys; [|exact I|exact E]. intros; eapply IH; eauto.
Qed.

(* C09 (Linen): within one init/apply no two draws get the same (stream, module path, count) *)
Theorem keys_never_reused ev top vars x y s : apply_m ev top vars x = Ok (y, s) -> NoDup (keys_of (s_trace s)).
Proof.
  intros H. assert (I0 : keys_inv (mkSt vars [] [])) by (split; simpl; [constructor|intros ? ? ? []]).
  exact (proj1 (run_call_keys ev _ _ _ _ _ _ _ I0 H)).
Qed.
