From Flaxm Require Import Lib.Harness Model.Graph.
