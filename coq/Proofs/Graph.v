(* Proofs about Model/Graph.v: the flatten/unflatten round trip is a graph isomorphism (cycles and sharing
   included), filtered split partitions the leaves, merge does not depend on the order of the states,
   update and pop frames. *)
From Coq Require Import Lia Permutation.
From Flaxm Require Import Lib.Harness Model.NnxFilters Model.Graph Proofs.NnxFilters.

(* ------------------------------------------------------------------------------------------------ *)
(* 1. renaming of a heap by the numbering ref_index computes                                          *)

Fixpoint rv (ri : list loc) (v : value) : option value :=
  match v with
  | VRef l => option_map VRef (index_of l ri)
  | VStatic s => Some (VStatic s)
  | VArr a => Some (VArr a)
  | VTree kd xs =>
      option_map (VTree kd)
        ((fix go (xs : list (key * value)) : option (list (key * value)) :=
            match xs with
            | [] => Some []
            | (k, x) :: r => match rv ri x, go r with Some x', Some r' => Some ((k, x') :: r') | _, _ => None end
            end) xs)
  end.
Fixpoint rattrs (ri : list loc) (xs : list (key * value)) : option (list (key * value)) :=
  match xs with
  | [] => Some []
  | (k, x) :: r => match rv ri x, rattrs ri r with Some x', Some r' => Some ((k, x') :: r') | _, _ => None end
  end.
Lemma rv_tree ri kd xs : rv ri (VTree kd xs) = option_map (VTree kd) (rattrs ri xs).
Proof. cbn [rv]. f_equal. induction xs as [|[k x] r IH]; cbn [rattrs]; [reflexivity|]. now rewrite IH. Qed.
Definition ro (ri : list loc) (o : obj) : option obj :=
  match o with OVar t p m => Some (OVar t p m) | ONode ty xs => option_map (ONode ty) (rattrs ri xs) end.

Section ValueInd.
  Variable P : value -> Prop.
  Hypothesis Href : forall l, P (VRef l).
  Hypothesis Hst : forall s, P (VStatic s).
  Hypothesis Harr : forall a, P (VArr a).
  Hypothesis Htree : forall kd xs, Forall (fun kv => P (snd kv)) xs -> P (VTree kd xs).
  Fixpoint value_ind' (v : value) : P v :=
    match v with
    | VRef l => Href l
    | VStatic s => Hst s
    | VArr a => Harr a
    | VTree kd xs => Htree kd xs ((fix go (xs : list (key * value)) : Forall (fun kv => P (snd kv)) xs :=
                                     match xs with [] => Forall_nil _ | kv :: r => Forall_cons kv (value_ind' (snd kv)) (go r) end) xs)
    end.
End ValueInd.

Lemma index_of_app_some l ri e i : index_of l ri = Some i -> index_of l (ri ++ e) = Some i.
Proof. revert i; induction ri as [|x xs IH]; simpl; intros i H; [discriminate|].
  destruct (Nat.eqb x l); [assumption|].
  destruct (index_of l xs) eqn:E; simpl in H; [|discriminate]. rewrite (IH _ eq_refl). exact H. Qed.
Lemma index_of_app_new l ri : index_of l ri = None -> index_of l (ri ++ [l]) = Some (length ri).
Proof. induction ri as [|x xs IH]; simpl; intros H.
  - now rewrite Nat.eqb_refl.
  - destruct (Nat.eqb x l); [discriminate|]. destruct (index_of l xs); [discriminate|]. now rewrite IH. Qed.
Lemma index_of_nth l ri i : index_of l ri = Some i -> nth_error ri i = Some l.
Proof. revert i; induction ri as [|x xs IH]; simpl; intros i H; [discriminate|].
  destruct (Nat.eqb_spec x l); [inversion H; subst; reflexivity|].
  destruct (index_of l xs) eqn:E; simpl in H; [|discriminate]. inversion H; subst. simpl. now apply IH. Qed.
Lemma index_of_none_not_in l ri : index_of l ri = None -> ~ In l ri.
Proof. induction ri as [|x xs IH]; simpl; intros H; [tauto|].
  destruct (Nat.eqb_spec x l); [discriminate|]. destruct (index_of l xs); [discriminate|]. intros [E|E]; [congruence|]. now apply IH. Qed.
Lemma index_of_in l ri : In l ri -> exists i, index_of l ri = Some i.
Proof. induction ri as [|x xs IH]; simpl; intros H; [tauto|].
  destruct (Nat.eqb_spec x l); [eauto|]. destruct H as [H|H]; [congruence|]. destruct (IH H) as [i ->]. simpl; eauto. Qed.
(* the numbering is injective: two objects get the same index only if they are the same object *)
Lemma index_of_inj l1 l2 ri i : index_of l1 ri = Some i -> index_of l2 ri = Some i -> l1 = l2.
Proof. intros H1 H2. apply index_of_nth in H1, H2. congruence. Qed.

Lemma rv_mono ri e v : forall v', rv ri v = Some v' -> rv (ri ++ e) v = Some v'.
Proof.
  induction v as [l|s|a|kd xs IH] using value_ind'; intros v' H; try exact H.
  - cbn [rv] in *. destruct (index_of l ri) eqn:E; simpl in H; [|discriminate]. now rewrite (index_of_app_some _ _ e _ E).
  - rewrite rv_tree in *. destruct (rattrs ri xs) as [ys|] eqn:E; [|discriminate]. simpl in H.
    assert (R : rattrs (ri ++ e) xs = Some ys).
    { clear H. revert ys E. induction IH as [|[k x] r Hx _ IHr]; intros ys E; cbn [rattrs] in *; [exact E|].
      destruct (rv ri x) eqn:Ex; [|discriminate]. destruct (rattrs ri r) eqn:Er; [|discriminate].
      simpl in Hx. rewrite (Hx _ Ex), (IHr _ eq_refl). exact E. }
    now rewrite R.
Qed.
Lemma rattrs_mono ri e xs xs' : rattrs ri xs = Some xs' -> rattrs (ri ++ e) xs = Some xs'.
Proof. revert xs'; induction xs as [|[k v] r IH]; cbn [rattrs]; intros xs' H; [exact H|].
  destruct (rv ri v) eqn:Ev; [|discriminate]. destruct (rattrs ri r) eqn:Er; [|discriminate].
  rewrite (rv_mono _ e _ _ Ev), (IH _ eq_refl). exact H. Qed.
Lemma ro_mono ri e o o' : ro ri o = Some o' -> ro (ri ++ e) o = Some o'.
Proof. destruct o as [ty xs|t p m]; simpl; [|auto]. destruct (rattrs ri xs) eqn:E; simpl; [|discriminate].
  intros H; rewrite (rattrs_mono _ e _ _ E); exact H. Qed.

Lemma nth_error_app_l {A} (l e : list A) i x : nth_error l i = Some x -> nth_error (l ++ e) i = Some x.
Proof. intros H. rewrite nth_error_app1; [exact H|]. apply nth_error_Some. congruence. Qed.

Lemma set_nth_app_mid {A} (h : list A) x y r : set_nth (length h) y (h ++ x :: r) = h ++ y :: r.
Proof. induction h as [|a h IH]; simpl; [reflexivity|]. now rewrite IH. Qed.

(* ------------------------------------------------------------------------------------------------ *)
(* 2. the joint invariant of _graph_flatten and _graph_unflatten                                     *)

(* index_ref maps every index allocated so far to the location with the same number *)
Definition ir_ok (n : nat) (ir : list (nat * loc)) : Prop := forall i, i < n -> iassoc i ir = Some i.

Lemma ir_ok_cons n ir : ir_ok n ir -> ir_ok (S n) ((n, n) :: ir).
Proof. intros H i Hi. cbn [iassoc]. destruct (Nat.eqb_spec i n); [now subst|]. apply H. lia. Qed.

(* what the rebuilt cells look like: cell j of the new part is the renaming of the cell of the j-th new object *)
Definition cells_ok (h : heap) (ri : list loc) (ext : list loc) (news : heap) : Prop :=
  length news = length ext /\
  forall j l, nth_error ext j = Some l ->
    exists o0 o, nth_error h l = Some o0 /\ ro ri o0 = Some o /\ nth_error news j = Some o.

Definition Good (h : heap) (s : fst_) (v : value) (a : gattr) (s' : fst_) : Prop :=
  exists ext newls v',
    fst s' = fst s ++ ext /\ snd s' = snd s ++ newls /\
    (NoDup (fst s) -> NoDup (fst s')) /\
    rv (fst s') v = Some v' /\
    forall h2 ir tail,
      length h2 = length (fst s) -> ir_ok (length h2) ir ->
      exists news ir',
        unflat a (h2, ir, map snd newls ++ tail) = Some (v', (h2 ++ news, ir', tail)) /\
        ir_ok (length h2 + length ext) ir' /\ cells_ok h (fst s') ext news.

Definition GoodItems (h : heap) (s : fst_) (xs : list (key * value)) (as_ : list (key * gattr)) (s' : fst_) : Prop :=
  exists ext newls vs,
    fst s' = fst s ++ ext /\ snd s' = snd s ++ newls /\
    (NoDup (fst s) -> NoDup (fst s')) /\
    rattrs (fst s') xs = Some vs /\
    forall h2 ir tail,
      length h2 = length (fst s) -> ir_ok (length h2) ir ->
      exists news ir',
        uitems_with unflat as_ (h2, ir, map snd newls ++ tail) = Some (vs, (h2 ++ news, ir', tail)) /\
        ir_ok (length h2 + length ext) ir' /\ cells_ok h (fst s') ext news.

Lemma cells_ok_nil h ri : cells_ok h ri [] [].
Proof. split; [reflexivity|]. intros [|j] l H; discriminate. Qed.

Lemma cells_ok_app h ri e1 e2 n1 n2 :
  cells_ok h ri e1 n1 -> cells_ok h ri e2 n2 -> cells_ok h ri (e1 ++ e2) (n1 ++ n2).
Proof.
  intros [L1 C1] [L2 C2]. split; [rewrite !app_length; lia|].
  intros j l Hj. destruct (Nat.ltb_spec j (length e1)) as [Hlt|Hge].
  - rewrite nth_error_app1 in Hj by exact Hlt. destruct (C1 _ _ Hj) as (o0 & o & A & B & C).
    exists o0, o. repeat split; auto. rewrite nth_error_app1 by lia. exact C.
  - rewrite nth_error_app2 in Hj by exact Hge. destruct (C2 _ _ Hj) as (o0 & o & A & B & C).
    exists o0, o. repeat split; auto. rewrite nth_error_app2 by lia. now rewrite L1.
Qed.

Lemma cells_ok_mono h ri e ext news : cells_ok h ri ext news -> cells_ok h (ri ++ e) ext news.
Proof. intros [L C]. split; [exact L|]. intros j l Hj. destruct (C _ _ Hj) as (o0 & o & A & B & D).
  exists o0, o. repeat split; auto. now apply ro_mono. Qed.

Lemma items_with_cons rec p k v r s :
  items_with rec p ((k, v) :: r) s =
  match rec (p ++ [k]) v s with
  | None => None
  | Some (a, s1) => match items_with rec p r s1 with None => None | Some (as_, s2) => Some ((k, a) :: as_, s2) end
  end.
Proof. reflexivity. Qed.
Lemma uitems_with_cons rec k a r s :
  uitems_with rec ((k, a) :: r) s =
  match rec a s with
  | None => None
  | Some (v, s1) => match uitems_with rec r s1 with None => None | Some (vs, s2) => Some ((k, v) :: vs, s2) end
  end.
Proof. reflexivity. Qed.
Lemma unflat_tree kd attrs s :
  unflat (ASub (GTree kd attrs)) s =
  match uitems_with unflat attrs s with None => None | Some (vs, s') => Some (VTree kd vs, s') end.
Proof. destruct s as [[h ir] ls]; reflexivity. Qed.
Lemma unflat_node ty i attrs (h : heap) (ir : list (nat * loc)) (ls : list leaf) :
  unflat (ASub (GNode ty i attrs)) (h, ir, ls) =
  match uitems_with unflat attrs (h ++ [ONode ty []], @pair nat loc i (length h) :: ir, ls) with
  | None => None
  | Some (vs, (h', ir', ls')) => Some (VRef (length h), (set_nth (length h) (ONode ty vs) h', ir', ls'))
  end.
Proof. reflexivity. Qed.

Lemma items_good h rec :
  (forall p v s a s', rec p v s = Some (a, s') -> Good h s v a s') ->
  forall xs p s as_ s', items_with rec p xs s = Some (as_, s') -> GoodItems h s xs as_ s'.
Proof.
  intros Hrec xs; induction xs as [|[k v] r IH]; intros p s as_ s' H.
  - cbn in H. inversion H; subst. exists [], [], []. rewrite !app_nil_r. repeat split; auto.
    intros h2 ir tail L I. exists [], ir. cbn. rewrite app_nil_r, Nat.add_0_r. repeat split; auto.
    intros [|j] l Hj; discriminate.
  - rewrite items_with_cons in H.
    destruct (rec (p ++ [k]) v s) as [[a s1]|] eqn:E1; [|discriminate].
    destruct (items_with rec p r s1) as [[as1 s2]|] eqn:E2; [|discriminate].
    inversion H; subst; clear H.
    destruct (Hrec _ _ _ _ _ E1) as (e1 & n1 & v1 & Hf1 & Hs1 & Hn1 & Hv1 & Hu1).
    destruct (IH _ _ _ _ E2) as (e2 & n2 & vs2 & Hf2 & Hs2 & Hn2 & Hr2 & Hu2).
    exists (e1 ++ e2), (n1 ++ n2), ((k, v1) :: vs2).
    split; [rewrite Hf2, Hf1, app_assoc; reflexivity|].
    split; [rewrite Hs2, Hs1, app_assoc; reflexivity|].
    split; [auto|]. split.
    + cbn [rattrs]. rewrite Hr2, Hf2, (rv_mono _ e2 _ _ Hv1). reflexivity.
    + intros h2 ir tail L I.
      destruct (Hu1 h2 ir (map snd n2 ++ tail) L I) as (news1 & ir1 & U1 & I1 & C1).
      assert (L1 : length news1 = length e1) by (destruct C1; assumption).
      destruct (Hu2 (h2 ++ news1) ir1 tail) as (news2 & ir2 & U2 & I2 & C2).
      { rewrite app_length, Hf1, app_length. lia. }
      { rewrite app_length, L1. exact I1. }
      exists (news1 ++ news2), ir2. split; [|split].
      * replace (map snd (n1 ++ n2) ++ tail) with (map snd n1 ++ map snd n2 ++ tail) by (rewrite map_app, <- app_assoc; reflexivity).
        rewrite uitems_with_cons, U1, U2, app_assoc. reflexivity.
      * rewrite app_length in I2 |- *. rewrite L1 in I2. now rewrite Nat.add_assoc.
      * apply cells_ok_app; [|exact C2]. rewrite Hf2. now apply cells_ok_mono.
Qed.

Theorem flat_good : forall fuel h p v s a s', flat fuel h p v s = Some (a, s') -> Good h s v a s'.
Proof.
  induction fuel as [|f IH]; intros h p v s a s' H; [discriminate|]. cbn [flat] in H.
  destruct v as [l|x|x|kd xs].
  - (* reference *)
    destruct (index_of l (fst s)) as [i|] eqn:Ei.
    { inversion H; subst. exists [], [], (VRef i). rewrite !app_nil_r. repeat split; auto.
      - cbn [rv]. now rewrite Ei.
      - intros h2 ir tail L I. exists [], ir. cbn [unflat map app].
        assert (Hi : i < length h2). { rewrite L. apply index_of_nth in Ei. apply nth_error_Some. congruence. }
        rewrite (I _ Hi), app_nil_r, Nat.add_0_r. repeat split; auto. intros [|j] l0 Hj; discriminate. }
    destruct (nth_error h l) as [[ty attrs|vty pl m]|] eqn:Eh; [| |discriminate].
    + destruct (items_with (flat f h) p attrs (fst s ++ [l], snd s)) as [[as_ s1]|] eqn:Eit; [|discriminate].
      inversion H; subst; clear H.
      destruct (items_good h (flat f h) (fun p v s a s' => IH h p v s a s') _ _ _ _ _ Eit) as (e & n & vs & Hf & Hs & Hn & Hr & Hu).
      cbn [fst snd] in Hf, Hs, Hn.
      assert (Hf' : fst s' = fst s ++ l :: e) by (rewrite Hf, <- app_assoc; reflexivity).
      exists (l :: e), n, (VRef (length (fst s))).
      split; [exact Hf'|]. split; [exact Hs|]. split; [|split].
      * intros ND. apply Hn. apply NoDup_app_remove_l with (l := []) || idtac.
        clear - ND Ei. apply index_of_none_not_in in Ei.
        induction (fst s) as [|x r IHr]; simpl; [constructor; [tauto|constructor]|].
        inversion ND; subst. constructor.
        -- intros Hin. apply in_app_or in Hin as [Hin|[Hin|[]]]; [tauto|]. subst. apply Ei. now left.
        -- apply IHr; auto. intros Hin. apply Ei. now right.
      * cbn [rv]. rewrite Hf, (index_of_app_some l (fst s ++ [l]) e (length (fst s))); [reflexivity|]. now apply index_of_app_new.
      * intros h2 ir tail L I. rewrite unflat_node.
        destruct (Hu (h2 ++ [ONode ty []]) (@pair nat loc (length (fst s)) (length h2) :: ir) tail) as (news & ir' & U & I' & C).
        { cbn [fst]. rewrite !app_length. simpl. lia. }
        { rewrite app_length. simpl. rewrite Nat.add_1_r, <- L. now apply ir_ok_cons. }
        exists (ONode ty vs :: news), ir'. split; [|split].
        -- rewrite U, <- app_assoc. cbn [app]. rewrite set_nth_app_mid, L. reflexivity.
        -- rewrite app_length in I'. simpl in I' |- *. now rewrite <- Nat.add_assoc in I'.
        -- destruct C as [LC CC]. split; [simpl; now rewrite LC|].
           intros [|j] l0 Hj; cbn [nth_error] in *.
           ++ inversion Hj; subst l0. exists (ONode ty attrs), (ONode ty vs). repeat split; auto.
              cbn [ro]. now rewrite Hr.
           ++ exact (CC _ _ Hj).
    + inversion H; subst; clear H. cbn [fst snd].
      exists [l], [(p, LVar vty pl m)], (VRef (length (fst s))).
      split; [reflexivity|]. split; [reflexivity|]. split; [|split].
      * intros ND. apply index_of_none_not_in in Ei. clear - ND Ei.
        induction (fst s) as [|x r IHr]; simpl; [constructor; [tauto|constructor]|].
        inversion ND; subst. constructor.
        -- intros Hin. apply in_app_or in Hin as [Hin|[Hin|[]]]; [tauto|]. subst. apply Ei. now left.
        -- apply IHr; auto. intros Hin. apply Ei. now right.
      * cbn [rv fst]. now rewrite (index_of_app_new _ _ Ei).
      * intros h2 ir tail L I. cbn [unflat map snd app]. rewrite <- L.
        exists [OVar vty pl m], ((length h2, length h2) :: ir). split; [reflexivity|]. split.
        -- simpl. rewrite Nat.add_1_r. now apply ir_ok_cons.
        -- split; [reflexivity|]. intros [|[|j]] l0 Hj; try discriminate. inversion Hj; subst l0.
           exists (OVar vty pl m), (OVar vty pl m). repeat split; auto.
  - (* static *)
    inversion H; subst. exists [], [], (VStatic x). rewrite !app_nil_r. repeat split; auto.
    intros h2 ir tail L I. exists [], ir. cbn. rewrite app_nil_r, Nat.add_0_r. repeat split; auto.
    intros [|j] l Hj; discriminate.
  - (* array *)
    inversion H; subst. cbn [fst snd]. exists [], [(p, LArr x)], (VArr x). rewrite !app_nil_r. repeat split; auto.
    intros h2 ir tail L I. exists [], ir. cbn. rewrite app_nil_r, Nat.add_0_r. repeat split; auto.
    intros [|j] l Hj; discriminate.
  - (* list / tuple / dict *)
    destruct (items_with (flat f h) p xs s) as [[as_ s1]|] eqn:Eit; [|discriminate].
    inversion H; subst; clear H.
    destruct (items_good h (flat f h) (fun p v s a s' => IH h p v s a s') _ _ _ _ _ Eit) as (e & n & vs & Hf & Hs & Hn & Hr & Hu).
    exists e, n, (VTree kd vs). repeat split; auto.
    + rewrite rv_tree, Hr. reflexivity.
    + intros h2 ir tail L I. destruct (Hu h2 ir tail L I) as (news & ir' & U & I' & C).
      exists news, ir'. rewrite unflat_tree, U. auto.
Qed.

(* ------------------------------------------------------------------------------------------------ *)
(* 3. merge(split(g)) is isomorphic to g                                                              *)

(* ri lists the reference objects reachable from v (each once); the rebuilt heap has exactly one cell per
   reachable object, cell i being the cell of the i-th object with every reference l replaced by its number;
   the rebuilt root is the old root renamed the same way.  The renaming is injective (index_of_inj), so two
   paths reach the same object afterwards exactly when they did before. *)
Definition iso (h : heap) (v : value) (ri : list loc) (h' : heap) (v' : value) : Prop :=
  NoDup ri /\ length h' = length ri /\ rv ri v = Some v' /\
  forall i l, nth_error ri i = Some l ->
    exists o0 o, nth_error h l = Some o0 /\ ro ri o0 = Some o /\ nth_error h' i = Some o.

Theorem roundtrip_iso h v g ls :
  flatten h v = Some (g, ls) ->
  exists ri h' v', unflatten g (map snd ls) = Some (h', v') /\ iso h v ri h' v'.
Proof.
  unfold flatten. destruct (flat (fuel_for h v) h [] v ([], [])) as [[a s]|] eqn:E; [|discriminate].
  intros H; inversion H; subst; clear H.
  destruct (flat_good _ _ _ _ _ _ _ E) as (ext & newls & v' & Hf & Hs & Hn & Hv & Hu).
  cbn [fst snd app] in Hf, Hs, Hn.
  destruct (Hu [] [] [] eq_refl) as (news & ir' & U & _ & [LC CC]).
  { intros i Hi; simpl in Hi; lia. }
  exists (fst s), news, v'. unfold unflatten. rewrite Hs. rewrite app_nil_r in U. rewrite U. cbn [app].
  split; [reflexivity|]. split; [apply Hn; constructor|]. split; [now rewrite Hf|]. split; [exact Hv|].
  intros i l Hi. rewrite Hf in Hi. exact (CC _ _ Hi).
Qed.

(* ------------------------------------------------------------------------------------------------ *)
(* 4. consequences for paths: the same paths exist, with the same shapes, and two paths reach the     *)
(*    same object after the round trip exactly when they did before                                   *)

Inductive shape_t := SNode (ty : N) (keys : list key) | SVar (t p m : N) | SStatic (s : N) | SArr (a : N) | STree (kd : N) (keys : list key) | SDangling.
Definition shape (h : heap) (u : value) : shape_t :=
  match u with
  | VRef l => match nth_error h l with
              | Some (ONode ty attrs) => SNode ty (map fst attrs)
              | Some (OVar t p m) => SVar t p m
              | None => SDangling end
  | VStatic s => SStatic s
  | VArr a => SArr a
  | VTree kd xs => STree kd (map fst xs)
  end.

Lemma kassoc_rattrs ri k xs ys v : rattrs ri xs = Some ys -> kassoc k xs = Some v ->
  exists v', kassoc k ys = Some v' /\ rv ri v = Some v'.
Proof.
  revert ys; induction xs as [|[k0 x] r IH]; cbn [rattrs kassoc]; intros ys H K; [discriminate|].
  destruct (rv ri x) as [x'|] eqn:Ex; [|discriminate]. destruct (rattrs ri r) as [r'|] eqn:Er; [|discriminate].
  inversion H; subst; clear H. cbn [kassoc]. destruct (N.eqb k k0).
  - inversion K; subst. eauto.
  - apply (IH _ eq_refl K).
Qed.
Lemma kassoc_rattrs_inv ri k xs ys v' : rattrs ri xs = Some ys -> kassoc k ys = Some v' ->
  exists v, kassoc k xs = Some v /\ rv ri v = Some v'.
Proof.
  revert ys; induction xs as [|[k0 x] r IH]; cbn [rattrs kassoc]; intros ys H K.
  - inversion H; subst. discriminate.
  - destruct (rv ri x) as [x'|] eqn:Ex; [|discriminate]. destruct (rattrs ri r) as [r'|] eqn:Er; [|discriminate].
    inversion H; subst; clear H. cbn [kassoc] in K. destruct (N.eqb k k0).
    + inversion K; subst. eauto.
    + apply (IH _ eq_refl K).
Qed.
Lemma rattrs_keys ri xs ys : rattrs ri xs = Some ys -> map fst ys = map fst xs.
Proof.
  revert ys; induction xs as [|[k0 x] r IH]; cbn [rattrs]; intros ys H; [now inversion H|].
  destruct (rv ri x) as [x'|]; [|discriminate]. destruct (rattrs ri r) as [r'|] eqn:Er; [|discriminate].
  inversion H; subst. simpl. f_equal. now apply IH.
Qed.

Lemma iso_cell h v ri h' v' l i : iso h v ri h' v' -> index_of l ri = Some i ->
  exists o0 o, nth_error h l = Some o0 /\ ro ri o0 = Some o /\ nth_error h' i = Some o.
Proof. intros (_ & _ & _ & C) H. apply index_of_nth in H. exact (C _ _ H). Qed.

Lemma resolve_fwd h v ri h' v' : iso h v ri h' v' ->
  forall fuel p w x u, rv ri w = Some x -> resolve fuel h w p = Some u ->
    exists u', resolve fuel h' x p = Some u' /\ rv ri u = Some u'.
Proof.
  intros I. induction fuel as [|f IH]; intros p w x u Hw R; [discriminate|]. cbn [resolve] in *.
  destruct p as [|k r]; [inversion R; subst; eauto|].
  destruct w as [l|s|a|kd xs]; try discriminate.
  - cbn [rv] in Hw. destruct (index_of l ri) as [i|] eqn:Ei; [|discriminate]. inversion Hw; subst x.
    destruct (iso_cell _ _ _ _ _ _ _ I Ei) as (o0 & o & A & B & C). rewrite A in R. rewrite C.
    destruct o0 as [ty attrs|t pl m]; [|discriminate]. cbn [ro] in B.
    destruct (rattrs ri attrs) as [vs|] eqn:Er; [|discriminate]. inversion B; subst o.
    destruct (kassoc k attrs) as [v1|] eqn:K; [|discriminate].
    destruct (kassoc_rattrs _ _ _ _ _ Er K) as (v1' & K' & Hv1). rewrite K'. exact (IH _ _ _ _ Hv1 R).
  - rewrite rv_tree in Hw. destruct (rattrs ri xs) as [vs|] eqn:Er; [|discriminate]. inversion Hw; subst x.
    destruct (kassoc k xs) as [v1|] eqn:K; [|discriminate].
    destruct (kassoc_rattrs _ _ _ _ _ Er K) as (v1' & K' & Hv1). rewrite K'. exact (IH _ _ _ _ Hv1 R).
Qed.

Lemma resolve_bwd h v ri h' v' : iso h v ri h' v' ->
  forall fuel p w x u', rv ri w = Some x -> resolve fuel h' x p = Some u' ->
    exists u, resolve fuel h w p = Some u /\ rv ri u = Some u'.
Proof.
  intros I. induction fuel as [|f IH]; intros p w x u' Hw R; [discriminate|]. cbn [resolve] in *.
  destruct p as [|k r]; [inversion R; subst; eauto|].
  destruct w as [l|s|a|kd xs]; [cbn [rv] in Hw|cbn [rv] in Hw|cbn [rv] in Hw|rewrite rv_tree in Hw].
  - destruct (index_of l ri) as [i|] eqn:Ei; [|discriminate]. inversion Hw; subst x.
    destruct (iso_cell _ _ _ _ _ _ _ I Ei) as (o0 & o & A & B & C). rewrite C in R. rewrite A.
    destruct o0 as [ty attrs|t pl m]; cbn [ro] in B.
    + destruct (rattrs ri attrs) as [vs|] eqn:Er; [|discriminate]. inversion B; subst o.
      destruct (kassoc k vs) as [v1'|] eqn:K; [|discriminate].
      destruct (kassoc_rattrs_inv _ _ _ _ _ Er K) as (v1 & K' & Hv1). rewrite K'. exact (IH _ _ _ _ Hv1 R).
    + inversion B; subst o. discriminate.
  - inversion Hw; subst x. discriminate.
  - inversion Hw; subst x. discriminate.
  - destruct (rattrs ri xs) as [vs|] eqn:Er; [|discriminate]. inversion Hw; subst x.
    destruct (kassoc k vs) as [v1'|] eqn:K; [|discriminate].
    destruct (kassoc_rattrs_inv _ _ _ _ _ Er K) as (v1 & K' & Hv1). rewrite K'. exact (IH _ _ _ _ Hv1 R).
Qed.

Lemma shape_rv h v ri h' v' u u' : iso h v ri h' v' -> rv ri u = Some u' -> shape h' u' = shape h u.
Proof.
  intros I H. destruct u as [l|s|a|kd xs]; [cbn [rv] in H|cbn [rv] in H|cbn [rv] in H|rewrite rv_tree in H].
  - destruct (index_of l ri) as [i|] eqn:Ei; [|discriminate]. inversion H; subst u'.
    destruct (iso_cell _ _ _ _ _ _ _ I Ei) as (o0 & o & A & B & C). cbn [shape]. rewrite A, C.
    destruct o0 as [ty attrs|t pl m]; cbn [ro] in B.
    + destruct (rattrs ri attrs) as [vs|] eqn:Er; [|discriminate]. inversion B; subst o. now rewrite (rattrs_keys _ _ _ Er).
    + now inversion B.
  - now inversion H.
  - now inversion H.
  - destruct (rattrs ri xs) as [vs|] eqn:Er; [|discriminate]. inversion H; subst u'.
    cbn [shape]. now rewrite (rattrs_keys _ _ _ Er).
Qed.

Definition at_path (h : heap) (v : value) (p : path) : option value := resolve (S (length p)) h v p.
Definition same_object (h : heap) (v : value) (p q : path) : Prop :=
  exists l, at_path h v p = Some (VRef l) /\ at_path h v q = Some (VRef l).

Theorem roundtrip_paths h v g ls :
  flatten h v = Some (g, ls) ->
  exists h' v', unflatten g (map snd ls) = Some (h', v') /\
    (* every path of g exists afterwards and leads to the same kind of thing (type, static value, Variable
       type / value / metadata, attribute names) *)
    (forall p u, at_path h v p = Some u -> exists u', at_path h' v' p = Some u' /\ shape h' u' = shape h u) /\
    (* no path is invented *)
    (forall p u', at_path h' v' p = Some u' -> exists u, at_path h v p = Some u /\ shape h' u' = shape h u) /\
    (* sharing and cycles: two paths reach one object afterwards iff they did before *)
    (forall p q, same_object h v p q <-> same_object h' v' p q).
Proof.
  intros F. destruct (roundtrip_iso _ _ _ _ F) as (ri & h' & v' & U & I).
  exists h', v'. split; [exact U|]. pose proof I as (_ & _ & Hv & _). unfold at_path. split; [|split].
  - intros p u R. destruct (resolve_fwd _ _ _ _ _ I _ _ _ _ _ Hv R) as (u' & R' & Hu). exists u'. split; [exact R'|]. eapply shape_rv; eauto.
  - intros p u' R. destruct (resolve_bwd _ _ _ _ _ I _ _ _ _ _ Hv R) as (u & R' & Hu). exists u. split; [exact R'|]. eapply shape_rv; eauto.
  - intros p q. split.
    + intros (l & Rp & Rq).
      destruct (resolve_fwd _ _ _ _ _ I _ _ _ _ _ Hv Rp) as (up & Rp' & Hp).
      destruct (resolve_fwd _ _ _ _ _ I _ _ _ _ _ Hv Rq) as (uq & Rq' & Hq).
      cbn [rv] in Hp, Hq. destruct (index_of l ri) as [i|]; [|discriminate]. inversion Hp; inversion Hq; subst.
      exists i. unfold at_path. auto.
    + intros (i & Rp & Rq). unfold at_path in *.
      destruct (resolve_bwd _ _ _ _ _ I _ _ _ _ _ Hv Rp) as (up & Rp' & Hp).
      destruct (resolve_bwd _ _ _ _ _ I _ _ _ _ _ Hv Rq) as (uq & Rq' & Hq).
      destruct up as [l1| | |kd1 xs1]; [cbn [rv] in Hp|discriminate|discriminate|rewrite rv_tree in Hp; destruct (rattrs ri xs1); discriminate].
      destruct uq as [l2| | |kd2 xs2]; [cbn [rv] in Hq|discriminate|discriminate|rewrite rv_tree in Hq; destruct (rattrs ri xs2); discriminate].
      destruct (index_of l1 ri) as [i1|] eqn:E1; [|discriminate]. destruct (index_of l2 ri) as [i2|] eqn:E2; [|discriminate].
      inversion Hp; inversion Hq; subst. rewrite (index_of_inj _ _ _ _ E1 E2) in Rp'. exists l2. auto.
Qed.

(* ------------------------------------------------------------------------------------------------ *)
(* 5. filtered split: a partition by first match                                                      *)

Section NfiltInd.
  Variable P : nfilt -> Prop.
  Hypothesis H1 : forall t, P (NType t).
  Hypothesis H2 : forall s, P (NTag s).
  Hypothesis H3 : forall k, P (NPathContains k).
  Hypothesis H4 : forall ps, P (NPathIn ps).
  Hypothesis H5 : forall l, Forall P l -> P (NAny l).
  Hypothesis H6 : forall l, Forall P l -> P (NAll l).
  Hypothesis H7 : forall f, P f -> P (NNot f).
  Hypothesis H8 : forall b, P (NBool b).
  Hypothesis H9 : P NEllipsis.
  Hypothesis H10 : P NNone.
  Hypothesis H11 : forall l, Forall P l -> P (NSeq l).
  Fixpoint nfilt_ind' (f : nfilt) : P f :=
    let go := fix go (l : list nfilt) : Forall P l := match l with [] => Forall_nil _ | x :: r => Forall_cons x (nfilt_ind' x) (go r) end in
    match f with
    | NType t => H1 t | NTag s => H2 s | NPathContains k => H3 k | NPathIn ps => H4 ps
    | NAny l => H5 l (go l) | NAll l => H6 l (go l) | NNot g => H7 g (nfilt_ind' g)
    | NBool b => H8 b | NEllipsis => H9 | NNone => H10 | NSeq l => H11 l (go l)
    end.
End NfiltInd.

(* the identifying tag of a leaf is invisible to predicates *)
Lemma denote_lid f p m t i j : denote f (mkLeaf p m t i) = denote f (mkLeaf p m t j).
Proof.
  induction f as [| | | |l IH|l IH|g IH| | | |l IH] using nfilt_ind'; cbn [denote lmro ltag lpath]; try reflexivity.
  - induction IH as [|x r Hx _ IHr]; cbn [existsb]; [reflexivity|]. now rewrite Hx, IHr.
  - induction IH as [|x r Hx _ IHr]; cbn [forallb]; [reflexivity|]. now rewrite Hx, IHr.
  - now rewrite IH.
  - induction IH as [|x r Hx _ IHr]; cbn [existsb]; [reflexivity|]. now rewrite Hx, IHr.
Qed.
Lemma first_idx_tag ti fs x i : first_idx fs (leaf_view ti x i) = first_idx fs (leaf_view ti x 0).
Proof.
  induction fs as [|f r IH]; cbn [first_idx]; [reflexivity|]. rewrite IH.
  unfold leaf_view. destruct (snd x); now rewrite (denote_lid f _ _ _ i 0%N).
Qed.

Lemma map_fst_combine {A B} (l : list A) (l' : list B) : length l = length l' -> map fst (combine l l') = l.
Proof. revert l'; induction l as [|a r IH]; intros [|b r'] H; simpl in *; try discriminate; [reflexivity|]. f_equal. apply IH. lia. Qed.

Theorem split_leaves_spec ti fs ls bs :
  split_leaves ti fs ls = Some bs ->
  length bs = length fs /\
  Permutation (concat bs) ls /\
  (forall i b x, nth_error bs i = Some b -> In x b -> first_idx fs (leaf_view ti x 0) = i) /\
  (forall x, In x ls -> first_idx fs (leaf_view ti x 0) < length fs).
Proof.
  unfold split_leaves. cbv zeta. destruct (negb (ellipsis_ok fs)); [discriminate|].
  set (tagged := combine ls (map N.of_nat (seq 0 (length ls)))).
  set (idx := fun pl_i : fleaf * N => first_idx fs (leaf_view ti (fst pl_i) (snd pl_i))).
  match goal with |- (if ?c then _ else _) = _ -> _ => destruct c eqn:Ex end; intros H; [discriminate H|].
  change (existsb (fun pl_i => Nat.eqb (idx pl_i) (length fs)) tagged = false) in Ex.
  inversion H; subst bs; clear H.
  match goal with |- context[map ?F (seq 0 (length fs))] =>
    change F with (fun i => map fst (filter (fun pl_i => Nat.eqb (idx pl_i) i) tagged)) end.
  assert (Hlt : forall y, In y tagged -> idx y < length fs).
  { intros y Hy. pose proof (first_idx_le fs (leaf_view ti (fst y) (snd y))) as Hle. fold (idx y) in Hle.
    destruct (Nat.eqb_spec (idx y) (length fs)) as [E|E]; [|lia].
    exfalso. assert (X : existsb (fun pl_i => Nat.eqb (idx pl_i) (length fs)) tagged = true).
    { apply existsb_exists. exists y. split; [exact Hy|]. now apply Nat.eqb_eq. }
    congruence. }
  assert (Hfst : map fst tagged = ls).
  { unfold tagged. apply map_fst_combine. now rewrite map_length, seq_length. }
  split; [now rewrite map_length, seq_length|]. split; [|split].
  - rewrite <- Hfst.
    rewrite <- (map_map (fun i => filter (fun pl_i => Nat.eqb (idx pl_i) i) tagged) (map fst)), <- concat_map.
    apply Permutation_map. eapply Permutation_trans; [apply concat_classes|].
    rewrite (filter_ext_in _ (fun _ => true)).
    + clear. induction tagged; simpl; auto.
    + intros y Hy. specialize (Hlt y Hy). simpl. apply Nat.ltb_lt. exact Hlt.
  - intros i b x Hb Hx.
    destruct (Nat.ltb_spec i (length fs)) as [Hi|Hi].
    2:{ apply nth_error_Some_lt in Hb || idtac. assert (nth_error (map (fun i0 => map fst (filter (fun pl_i => Nat.eqb (idx pl_i) i0) tagged)) (seq 0 (length fs))) i = None) by (apply nth_error_None; rewrite map_length, seq_length; lia). congruence. }
    rewrite nth_error_map in Hb.
    assert (E : nth_error (seq 0 (length fs)) i = Some i).
    { rewrite nth_error_nth' with (d := 0); [|now rewrite seq_length]. now rewrite seq_nth. }
    rewrite E in Hb. inversion Hb; subst b; clear Hb.
    apply in_map_iff in Hx as (y & <- & Hy). apply filter_In in Hy as [_ Hy]. apply Nat.eqb_eq in Hy.
    unfold idx in Hy. now rewrite first_idx_tag in Hy.
  - intros x Hx. rewrite <- Hfst in Hx. apply in_map_iff in Hx as (y & <- & Hy). specialize (Hlt y Hy).
    unfold idx in Hlt. now rewrite first_idx_tag in Hlt.
Qed.

(* each Variable lands in the first matching state and in no other *)
Corollary split_first_match ti fs ls bs i b x :
  split_leaves ti fs ls = Some bs -> nth_error bs i = Some b -> In x b ->
  (exists f, nth_error fs i = Some f /\ denote f (leaf_view ti x 0) = true) /\
  (forall j g, j < i -> nth_error fs j = Some g -> denote g (leaf_view ti x 0) = false) /\
  (forall j b', nth_error bs j = Some b' -> In x b' -> j = i).
Proof.
  intros S Hb Hx. destruct (split_leaves_spec _ _ _ _ S) as (L & _ & F & _).
  pose proof (F _ _ _ Hb Hx) as E.
  assert (Hi : i < length fs). { rewrite <- L. apply nth_error_Some. congruence. }
  destruct (first_idx_spec _ _ _ E Hi) as [A B]. split; [exact A|]. split; [exact B|].
  intros j b' Hb' Hx'. rewrite <- (F _ _ _ Hb' Hx'). exact E.
Qed.

(* ------------------------------------------------------------------------------------------------ *)
(* 6. merge: the order of the states does not matter                                                  *)

Lemma path_leb_refl a : path_leb a a = true.
Proof. induction a as [|x a IH]; simpl; [reflexivity|]. now rewrite N.ltb_irrefl. Qed.
Lemma path_leb_total a b : path_leb a b = true \/ path_leb b a = true.
Proof.
  revert b; induction a as [|x a IH]; intros [|y b]; simpl; auto.
  destruct (N.ltb_spec x y), (N.ltb_spec y x); auto; lia.
Qed.
Lemma path_leb_antisym a b : path_leb a b = true -> path_leb b a = true -> a = b.
Proof.
  revert b; induction a as [|x a IH]; intros [|y b]; simpl; auto; try discriminate.
  destruct (N.ltb_spec x y), (N.ltb_spec y x); try discriminate; try lia.
  intros H1 H2. assert (x = y) by lia. subst. f_equal. now apply IH.
Qed.
Lemma path_leb_trans a b c : path_leb a b = true -> path_leb b c = true -> path_leb a c = true.
Proof.
  revert b c; induction a as [|x a IH]; intros [|y b] [|z c]; simpl; auto; try discriminate.
  destruct (N.ltb_spec x y), (N.ltb_spec y x), (N.ltb_spec y z), (N.ltb_spec z y), (N.ltb_spec x z), (N.ltb_spec z x);
    try discriminate; try lia; auto.
  apply IH.
Qed.

Inductive sorted_l : list fleaf -> Prop :=
| sorted_nil : sorted_l []
| sorted_cons x l : sorted_l l -> (forall y, In y l -> path_leb (fst x) (fst y) = true) -> sorted_l (x :: l).

Lemma insert_leaf_in x l y : In y (insert_leaf x l) <-> y = x \/ In y l.
Proof.
  induction l as [|z r IH]; simpl; [intuition|].
  destruct (path_leb (fst x) (fst z)); simpl; [intuition|]. rewrite IH. intuition.
Qed.
Lemma insert_sorted x l : sorted_l l -> sorted_l (insert_leaf x l).
Proof.
  induction 1 as [|z r Hs IH Hz]; simpl.
  - constructor; [constructor|]. intros y [].
  - destruct (path_leb (fst x) (fst z)) eqn:E.
    + constructor; [now constructor|]. intros y [<-|Hy]; [exact E|]. eapply path_leb_trans; [exact E|]. now apply Hz.
    + constructor; [exact IH|]. intros y Hy. apply insert_leaf_in in Hy as [->|Hy]; [|now apply Hz].
      destruct (path_leb_total (fst x) (fst z)); congruence.
Qed.
Lemma sort_sorted l : sorted_l (sort_leaves l).
Proof. induction l as [|x r IH]; simpl; [constructor|]. now apply insert_sorted. Qed.

Lemma insert_comm x y l : sorted_l l -> fst x <> fst y ->
  insert_leaf x (insert_leaf y l) = insert_leaf y (insert_leaf x l).
Proof.
  intros Hs Hne. induction Hs as [|z r Hs IH Hz].
  - simpl. destruct (path_leb (fst x) (fst y)) eqn:A, (path_leb (fst y) (fst x)) eqn:B; auto.
    + exfalso. apply Hne. now apply path_leb_antisym.
    + destruct (path_leb_total (fst x) (fst y)); congruence.
  - cbn [insert_leaf].
    destruct (path_leb (fst y) (fst z)) eqn:Y, (path_leb (fst x) (fst z)) eqn:X; cbn [insert_leaf]; rewrite ?X, ?Y.
    + destruct (path_leb (fst x) (fst y)) eqn:A, (path_leb (fst y) (fst x)) eqn:B; auto.
      * exfalso. apply Hne. now apply path_leb_antisym.
      * destruct (path_leb_total (fst x) (fst y)); congruence.
    + (* y <= z < x *)
      assert (path_leb (fst x) (fst y) = false).
      { destruct (path_leb (fst x) (fst y)) eqn:A; [|reflexivity]. rewrite (path_leb_trans _ _ _ A Y) in X. discriminate. }
      now rewrite H.
    + assert (path_leb (fst y) (fst x) = false).
      { destruct (path_leb (fst y) (fst x)) eqn:A; [|reflexivity]. rewrite (path_leb_trans _ _ _ A X) in Y. discriminate. }
      now rewrite H.
    + now rewrite IH.
Qed.

Lemma sort_leaves_perm l l' : Permutation l l' -> NoDup (map fst l) -> sort_leaves l = sort_leaves l'.
Proof.
  induction 1 as [|x l l' HP IH|x y l|l l' l'' HP1 IH1 HP2 IH2]; intros ND; cbn [sort_leaves fold_right map] in *.
  - reflexivity.
  - inversion ND; subst. fold (sort_leaves l) (sort_leaves l'). now rewrite IH.
  - fold (sort_leaves l). apply insert_comm; [apply sort_sorted|].
    inversion ND as [|? ? Hn _]; subst. intros E. apply Hn. left. now symmetry.
  - rewrite IH1 by exact ND. apply IH2. eapply Permutation_NoDup; [|exact ND]. now apply Permutation_map.
Qed.

Lemma Permutation_concat' {A} (ss ss' : list (list A)) : Permutation ss ss' -> Permutation (concat ss) (concat ss').
Proof.
  induction 1 as [|x l l' HP IH|x y l|l l' l'' HP1 IH1 HP2 IH2]; cbn [concat].
  - constructor.
  - now apply Permutation_app_head.
  - rewrite !app_assoc. apply Permutation_app_tail, Permutation_app_comm.
  - eapply Permutation_trans; eauto.
Qed.

(* merging the states in any argument order rebuilds the same graph (paths of distinct leaves are distinct) *)
Theorem merge_any_order g ss ss' :
  Permutation ss ss' -> NoDup (map fst (concat ss)) -> merge g ss = merge g ss'.
Proof. intros HP ND. unfold merge. do 2 f_equal. exact (sort_leaves_perm _ _ (Permutation_concat' _ _ HP) ND). Qed.

(* merge of a filtered split is the plain round trip, provided the leaves come out of flatten in sorted path order
   (what FlatState.from_sorted_keys_values relies on; checked for every generated graph) *)
Theorem merge_split ti fs h v g bs ls :
  flatten h v = Some (g, ls) -> split ti fs h v = Some (g, bs) ->
  NoDup (map fst ls) -> sort_leaves ls = ls ->
  merge g bs = unflatten g (map snd ls).
Proof.
  intros F S ND Srt. unfold split in S. rewrite F in S. unfold merge. destruct fs as [|f fs].
  - inversion S; subst. cbn [concat]. now rewrite app_nil_r, Srt.
  - destruct (split_leaves ti (f :: fs) ls) as [bs0|] eqn:E; [|discriminate]. inversion S; subst bs0.
    destruct (split_leaves_spec _ _ _ _ E) as (_ & P & _).
    do 2 f_equal. rewrite <- Srt. apply (sort_leaves_perm _ _ P).
    eapply Permutation_NoDup; [|exact ND]. apply Permutation_map. now apply Permutation_sym.
Qed.

(* ------------------------------------------------------------------------------------------------ *)
(* 7. update: in place, identity and structure kept                                                   *)

Lemma nth_error_set_nth_eq {A} (l : list A) n x : n < length l -> nth_error (set_nth n x l) n = Some x.
Proof. revert n; induction l as [|y r IH]; intros [|n] H; simpl in *; try lia; [reflexivity|]. apply IH. lia. Qed.
Lemma nth_error_set_nth_ne {A} (l : list A) n m x : n <> m -> nth_error (set_nth n x l) m = nth_error l m.
Proof. revert n m; induction l as [|y r IH]; intros [|n] [|m] H; simpl; try reflexivity; try congruence. apply IH. congruence. Qed.
Lemma set_nth_length {A} (l : list A) n x : length (set_nth n x l) = length l.
Proof. revert n; induction l as [|y r IH]; intros [|n]; simpl; auto. Qed.

(* two heaps with the same nodes (Variables may differ in payload) resolve every path alike *)
Definition same_nodes (h h' : heap) : Prop :=
  length h' = length h /\
  (forall l ty attrs, nth_error h l = Some (ONode ty attrs) <-> nth_error h' l = Some (ONode ty attrs)).

Lemma resolve_same_nodes h h' : same_nodes h h' -> forall fuel v p, resolve fuel h' v p = resolve fuel h v p.
Proof.
  intros [L N]. induction fuel as [|f IH]; intros v p; [reflexivity|]. cbn [resolve].
  destruct p as [|k r]; [reflexivity|]. destruct v as [l| | |kd xs]; try reflexivity.
  - destruct (nth_error h l) as [[ty attrs|t pl m]|] eqn:E.
    + rewrite (proj1 (N _ _ _) E). destruct (kassoc k attrs); [apply IH|reflexivity].
    + destruct (nth_error h' l) as [[ty' attrs'|t' pl' m']|] eqn:E'; try reflexivity.
      apply N in E'. congruence.
    + destruct (nth_error h' l) as [[ty' attrs'|t' pl' m']|] eqn:E'; try reflexivity.
      apply N in E'. congruence.
  - destruct (kassoc k xs); [apply IH|reflexivity].
Qed.

Theorem update1_spec h root pl h' :
  update1 h root pl = Some h' ->
  exists l t p0 m0 t' p' m',
    at_path h root (fst pl) = Some (VRef l) /\ snd pl = LVar t' p' m' /\
    nth_error h l = Some (OVar t p0 m0) /\ nth_error h' l = Some (OVar t p' m') /\
    (forall l', l' <> l -> nth_error h' l' = nth_error h l') /\ same_nodes h h'.
Proof.
  unfold update1, at_path. destruct (resolve (S (length (fst pl))) h root (fst pl)) as [[l| | |]|] eqn:R; try discriminate.
  destruct (snd pl) as [t' p' m'|]; [|discriminate].
  destruct (nth_error h l) as [[|t p0 m0]|] eqn:E; try discriminate. intros H; inversion H; subst h'; clear H.
  assert (Hl : l < length h) by (apply nth_error_Some; congruence).
  exists l, t, p0, m0, t', p', m'. repeat split; auto.
  - now apply nth_error_set_nth_eq.
  - intros l' Hne. apply nth_error_set_nth_ne. congruence.
  - apply set_nth_length.
  - intros Hn. destruct (Nat.eq_dec l l0) as [<-|Hne]; [congruence|]. now rewrite nth_error_set_nth_ne.
  - intros Hn. destruct (Nat.eq_dec l l0) as [<-|Hne].
    + rewrite nth_error_set_nth_eq in Hn by exact Hl. discriminate.
    + now rewrite nth_error_set_nth_ne in Hn.
Qed.

Lemma same_nodes_refl h : same_nodes h h.  Proof. split; [reflexivity|tauto]. Qed.
Lemma same_nodes_trans a b c : same_nodes a b -> same_nodes b c -> same_nodes a c.
Proof. intros [L1 N1] [L2 N2]. split; [congruence|]. intros l ty attrs. rewrite N1. apply N2. Qed.

(* update keeps every object where it is: no node changes at all, every Variable keeps its location and type;
   a Variable that no path of the state leads to keeps its value and metadata as well *)
Theorem update_frame h root st : forall h', update h root st = Some h' ->
  same_nodes h h' /\
  (forall l t p m, nth_error h l = Some (OVar t p m) -> exists p' m', nth_error h' l = Some (OVar t p' m')) /\
  (forall l, (forall pl, In pl st -> at_path h root (fst pl) <> Some (VRef l)) -> nth_error h' l = nth_error h l).
Proof.
  revert h; induction st as [|pl r IH]; intros h h' H; cbn [update] in H.
  - inversion H; subst. split; [apply same_nodes_refl|]. split; eauto.
  - destruct (update1 h root pl) as [h1|] eqn:E1; [|discriminate].
    destruct (update1_spec _ _ _ _ E1) as (l & t & p0 & m0 & t' & p' & m' & R & _ & A & B & C & SN).
    destruct (IH _ _ H) as (SN2 & V2 & U2). split; [eapply same_nodes_trans; eauto|]. split.
    + intros l0 t0 p1 m1 Hl0. destruct (Nat.eq_dec l0 l) as [->|Hne].
      * rewrite A in Hl0. inversion Hl0; subst. apply (V2 _ _ _ _ B).
      * rewrite <- (C _ Hne) in Hl0. apply (V2 _ _ _ _ Hl0).
    + intros l0 Hno. rewrite U2.
      * apply C. intros ->. apply (Hno pl); [now left|exact R].
      * intros pl0 Hin. unfold at_path. rewrite (resolve_same_nodes _ _ SN). apply Hno. now right.
Qed.

(* the last state entry written through a path is what the Variable holds afterwards *)
Theorem update_last h root st pl h' t' p' m' :
  update h root (st ++ [pl]) = Some h' -> snd pl = LVar t' p' m' ->
  exists l t, at_path h root (fst pl) = Some (VRef l) /\ nth_error h' l = Some (OVar t p' m').
Proof.
  revert h; induction st as [|x r IH]; intros h H S; cbn [app update] in H.
  - destruct (update1 h root pl) as [h1|] eqn:E1; [|discriminate]. inversion H; subst h1.
    destruct (update1_spec _ _ _ _ E1) as (l & t & p0 & m0 & t2 & p2 & m2 & R & S2 & A & B & _).
    rewrite S in S2. inversion S2; subst. eauto.
  - destruct (update1 h root x) as [h1|] eqn:E1; [|discriminate].
    destruct (update1_spec _ _ _ _ E1) as (_ & _ & _ & _ & _ & _ & _ & _ & _ & _ & _ & _ & SN).
    destruct (IH _ H S) as (l & t & R & B). exists l, t. split; [|exact B].
    unfold at_path in *. now rewrite <- (resolve_same_nodes _ _ SN).
Qed.

(* ------------------------------------------------------------------------------------------------ *)
(* 8. pop: only removes attributes that hold Variables selected by a filter                           *)

(* what pop may do to a heap: Variables untouched; a node keeps its type and loses some attributes *)
Definition pop_rel (h h' : heap) : Prop :=
  length h' = length h /\
  (forall l t p m, nth_error h l = Some (OVar t p m) <-> nth_error h' l = Some (OVar t p m)) /\
  (forall l ty attrs', nth_error h' l = Some (ONode ty attrs') ->
     exists attrs, nth_error h l = Some (ONode ty attrs) /\ incl attrs' attrs).
Lemma pop_rel_refl h : pop_rel h h.
Proof. split; [reflexivity|]. split; [tauto|]. intros l ty a H. exists a. split; [exact H|apply incl_refl]. Qed.
Lemma pop_rel_trans a b c : pop_rel a b -> pop_rel b c -> pop_rel a c.
Proof.
  intros (L1 & V1 & N1) (L2 & V2 & N2). split; [congruence|]. split.
  - intros l t p m. rewrite V1. apply V2.
  - intros l ty attrs' H. destruct (N2 _ _ _ H) as (a2 & H2 & I2). destruct (N1 _ _ _ H2) as (a1 & H1 & I1).
    exists a1. split; [exact H1|]. eapply incl_tran; eauto.
Qed.
Lemma kremove_incl k xs : incl (kremove k xs) xs.
Proof. induction xs as [|[k' v] r IH]; cbn [kremove]; [apply incl_refl|]. destruct (N.eqb k k'); [apply incl_tl, incl_refl|].
  intros x [<-|H]; [now left|right; now apply IH]. Qed.

(* every recorded leaf is a Variable of the original heap that its filter selects at the recorded path *)
Definition out_ok (ti : tyinfo) (fs : list nfilt) (h : heap) (out : list (list fleaf)) : Prop :=
  length out = length fs /\
  forall i b x, nth_error out i = Some b -> In x b ->
    first_idx fs (leaf_view ti x 0) = i /\ exists l t p m, snd x = LVar t p m /\ nth_error h l = Some (OVar t p m).

Lemma add_bucket_length i x bs : length (add_bucket i x bs) = length bs.
Proof. revert i; induction bs as [|b r IH]; intros [|i]; simpl; auto. Qed.
Lemma add_bucket_in i x bs j b y : nth_error (add_bucket i x bs) j = Some b -> In y b ->
  (j = i /\ y = x) \/ (exists b0, nth_error bs j = Some b0 /\ In y b0).
Proof.
  revert i j; induction bs as [|b0 r IH]; intros i j H Hy.
  - destruct i, j; discriminate.
  - destruct i as [|i], j as [|j]; cbn [add_bucket nth_error] in H.
    + inversion H; subst b. apply in_app_or in Hy as [Hy|[<-|[]]]; [right; exists b0; split; [reflexivity|exact Hy]|left; auto].
    + right. exists b. split; [exact H|exact Hy].
    + inversion H; subst b. right. exists b0. split; [reflexivity|exact Hy].
    + destruct (IH _ _ H Hy) as [[-> ->]|X]; [left; auto|right; exact X].
Qed.

Definition PopGood ti fs h0 (s s' : pst) : Prop :=
  pop_rel (p_heap s) (p_heap s') /\ (out_ok ti fs h0 (p_out s) -> pop_rel h0 (p_heap s) -> out_ok ti fs h0 (p_out s')).

Lemma pitems_good ti fs h0 rec :
  (forall p parent k v s s', rec p parent k v s = Some s' -> PopGood ti fs h0 s s') ->
  forall xs p parent s s', pitems_with rec p parent xs s = Some s' -> PopGood ti fs h0 s s'.
Proof.
  intros Hrec xs; induction xs as [|[k v] r IH]; intros p parent s s' H; cbn [pitems_with] in H.
  - inversion H; subst. split; [apply pop_rel_refl|auto].
  - destruct (rec p parent k v s) as [s1|] eqn:E1; [|discriminate].
    destruct (Hrec _ _ _ _ _ _ E1) as [R1 O1]. destruct (IH _ _ _ _ H) as [R2 O2].
    split; [eapply pop_rel_trans; eauto|]. intros Ho Hr. apply O2; [now apply O1|]. eapply pop_rel_trans; eauto.
Qed.

Theorem gpop_good ti fs h0 : forall fuel p parent k v s s', gpop fuel ti fs p parent k v s = Some s' -> PopGood ti fs h0 s s'.
Proof.
  induction fuel as [|f IH]; intros p parent k v s s' H; [discriminate|]. cbn [gpop] in H.
  destruct v as [l|x|x|kd xs].
  - destruct (nth_error (p_heap s) l) as [[ty attrs|t pl m]|] eqn:E; [| |discriminate].
    + destruct (existsb (Nat.eqb l) (p_visited s)).
      * inversion H; subst. split; [apply pop_rel_refl|auto].
      * exact (pitems_good ti fs h0 _ (IH) _ _ _ _ _ H).
    + destruct (existsb (Nat.eqb l) (p_popped s)).
      { inversion H; subst. split; [apply pop_rel_refl|auto]. }
      destruct (Nat.ltb_spec (first_idx fs (leaf_view ti (p ++ [k], LVar t pl m) 0)) (length fs)) as [Hi|Hi].
      2:{ inversion H; subst. split; [apply pop_rel_refl|auto]. }
      destruct parent as [ploc|]; [|discriminate].
      destruct (nth_error (p_heap s) ploc) as [[pty pattrs|? ? ?]|] eqn:Ep; try discriminate.
      inversion H; subst s'; clear H. unfold PopGood. cbn [p_heap p_out].
      assert (Hpl : ploc < length (p_heap s)) by (apply nth_error_Some; congruence).
      assert (R : pop_rel (p_heap s) (set_nth ploc (ONode pty (kremove k pattrs)) (p_heap s))).
      { split; [apply set_nth_length|]. split.
        - intros l0 t0 p0 m0. destruct (Nat.eq_dec ploc l0) as [<-|Hne].
          + rewrite nth_error_set_nth_eq by exact Hpl. rewrite Ep. split; discriminate.
          + now rewrite nth_error_set_nth_ne.
        - intros l0 ty0 a0 H0. destruct (Nat.eq_dec ploc l0) as [<-|Hne].
          + rewrite nth_error_set_nth_eq in H0 by exact Hpl. inversion H0; subst. exists pattrs. split; [exact Ep|apply kremove_incl].
          + rewrite nth_error_set_nth_ne in H0 by exact Hne. exists a0. split; [exact H0|apply incl_refl]. }
      split; [exact R|]. intros [Lo Ho] Hr. split; [now rewrite add_bucket_length|].
      intros i b x Hb Hx. destruct (add_bucket_in _ _ _ _ _ _ Hb Hx) as [[-> ->]|(b0 & Hb0 & Hx0)].
      * split; [reflexivity|]. exists l, t, pl, m. split; [reflexivity|]. destruct Hr as (_ & V & _). now apply V.
      * exact (Ho _ _ _ Hb0 Hx0).
  - inversion H; subst. split; [apply pop_rel_refl|auto].
  - inversion H; subst. split; [apply pop_rel_refl|auto].
  - exact (pitems_good ti fs h0 _ (IH) _ _ _ _ _ H).
Qed.

Theorem pop_spec ti fs h root h' out :
  pop ti fs h root = Some (h', out) ->
  pop_rel h h' /\ out_ok ti fs h out.
Proof.
  unfold pop. destruct root as [l| | |]; try discriminate.
  destruct (nth_error h l) as [[ty attrs|]|] eqn:E; try discriminate.
  destruct (pitems_with _ _ _ _ _) as [s|] eqn:P; [|discriminate]. intros H; inversion H; subst; clear H.
  destruct (pitems_good ti fs h _ (gpop_good ti fs h (fuel_for h (VRef l))) _ _ _ _ _ P) as [R O].
  cbn [p_heap p_out] in *. split; [exact R|]. apply O; [|apply pop_rel_refl].
  split; [apply repeat_length|]. intros i b x Hb Hx. exfalso.
  assert (b = []). { clear - Hb. revert i Hb. induction (length fs) as [|n IHn]; intros [|i] Hb; simpl in Hb; try discriminate; [now inversion Hb|eauto]. }
  subst b. exact Hx.
Qed.

(* ------------------------------------------------------------------------------------------------ *)
(* 9. leaves come out of flatten in strictly increasing path order when sibling keys are sorted       *)

Fixpoint keys_inc (ks : list key) : bool :=
  match ks with
  | [] => true
  | k :: r => forallb (fun k' => (k <? k')%N) r && keys_inc r
  end.
Fixpoint wf_value (v : value) : bool :=
  match v with
  | VTree _ xs => keys_inc (map fst xs) &&
                  (fix go (xs : list (key * value)) : bool := match xs with [] => true | (_, x) :: r => wf_value x && go r end) xs
  | _ => true
  end.
Definition wf_items (xs : list (key * value)) : bool := keys_inc (map fst xs) && forallb (fun kv => wf_value (snd kv)) xs.
Definition wf_heap (h : heap) : bool :=
  forallb (fun o => match o with ONode _ attrs => wf_items attrs | OVar _ _ _ => true end) h.
Lemma wf_value_tree kd xs : wf_value (VTree kd xs) = wf_items xs.
Proof. unfold wf_items. cbn [wf_value]. f_equal. induction xs as [|[k x] r IH]; cbn [forallb snd]; [reflexivity|]. now rewrite IH. Qed.

Definition path_lt (a b : path) : Prop := path_leb a b = true /\ a <> b.
Inductive ssorted : list fleaf -> Prop :=
| ssorted_nil : ssorted []
| ssorted_cons x l : ssorted l -> (forall y, In y l -> path_lt (fst x) (fst y)) -> ssorted (x :: l).

Lemma ssorted_app l1 l2 : ssorted l1 -> ssorted l2 -> (forall x y, In x l1 -> In y l2 -> path_lt (fst x) (fst y)) -> ssorted (l1 ++ l2).
Proof.
  induction 1 as [|x l Hs IH Hx]; intros H2 Hc; simpl; [exact H2|].
  constructor.
  - apply IH; [exact H2|]. intros a b Ha Hb. apply Hc; [now right|exact Hb].
  - intros y Hy. apply in_app_or in Hy as [Hy|Hy]; [now apply Hx|]. apply Hc; [now left|exact Hy].
Qed.
Lemma ssorted_nodup l : ssorted l -> NoDup (map fst l).
Proof.
  induction 1 as [|x l Hs IH Hx]; simpl; constructor; [|exact IH].
  intros Hin. apply in_map_iff in Hin as (y & E & Hy). destruct (Hx _ Hy) as [_ Hne]. congruence.
Qed.
Lemma ssorted_sort l : ssorted l -> sort_leaves l = l.
Proof.
  induction 1 as [|x l Hs IH Hx]; cbn [sort_leaves fold_right]; [reflexivity|].
  fold (sort_leaves l). rewrite IH. destruct l as [|y r]; [reflexivity|]. cbn [insert_leaf].
  destruct (Hx y (or_introl eq_refl)) as [Hle _]. now rewrite Hle.
Qed.
Lemma path_lt_key p k1 q1 k2 q2 : (k1 < k2)%N -> path_lt (p ++ k1 :: q1) (p ++ k2 :: q2).
Proof.
  intros Hk. split.
  - induction p as [|x p IH]; simpl.
    + destruct (N.ltb_spec k1 k2); [reflexivity|lia].
    + now rewrite N.ltb_irrefl.
  - intros E. apply app_inv_head in E. inversion E. lia.
Qed.

(* all new leaves lie below p; strictly sorted *)
Definition Srt (p : path) (s s' : fst_) : Prop :=
  exists new, snd s' = snd s ++ new /\ ssorted new /\ forall y, In y new -> exists q, fst y = p ++ q.
Definition SrtItems (p : path) (ks : list key) (s s' : fst_) : Prop :=
  exists new, snd s' = snd s ++ new /\ ssorted new /\ forall y, In y new -> exists k q, In k ks /\ fst y = p ++ k :: q.

Lemma keys_inc_head k r k' : keys_inc (k :: r) = true -> In k' r -> (k < k')%N.
Proof. cbn [keys_inc]. intros H Hin. apply andb_true_iff in H as [H _]. rewrite forallb_forall in H. apply N.ltb_lt. now apply H. Qed.

Lemma items_sorted rec :
  (forall p v s a s', wf_value v = true -> rec p v s = Some (a, s') -> Srt p s s') ->
  forall xs p s as_ s', wf_items xs = true -> items_with rec p xs s = Some (as_, s') -> SrtItems p (map fst xs) s s'.
Proof.
  intros Hrec xs; induction xs as [|[k v] r IH]; intros p s as_ s' W H.
  - cbn in H. inversion H; subst. exists []. rewrite app_nil_r. repeat split; [constructor|]. intros y [].
  - rewrite items_with_cons in H.
    destruct (rec (p ++ [k]) v s) as [[a s1]|] eqn:E1; [|discriminate].
    destruct (items_with rec p r s1) as [[as1 s2]|] eqn:E2; [|discriminate]. inversion H; subst; clear H.
    unfold wf_items in W. cbn [map fst forallb snd] in W. apply andb_true_iff in W as [Wk Wv]. apply andb_true_iff in Wv as [Wv Wr].
    assert (Wr' : wf_items r = true).
    { unfold wf_items. rewrite Wr, andb_true_r. cbn [keys_inc] in Wk. now apply andb_true_iff in Wk as [_ Wk]. }
    destruct (Hrec _ _ _ _ _ Wv E1) as (n1 & S1 & So1 & P1). destruct (IH _ _ _ _ Wr' E2) as (n2 & S2 & So2 & P2).
    exists (n1 ++ n2). split; [now rewrite S2, S1, app_assoc|]. split.
    + apply ssorted_app; auto. intros x y Hx Hy. destruct (P1 _ Hx) as (q1 & ->). destruct (P2 _ Hy) as (k2 & q2 & Hk2 & ->).
      rewrite <- app_assoc. cbn [app]. apply path_lt_key. eapply keys_inc_head; eauto.
    + intros y Hy. apply in_app_or in Hy as [Hy|Hy].
      * destruct (P1 _ Hy) as (q & ->). exists k, q. split; [now left|]. now rewrite <- app_assoc.
      * destruct (P2 _ Hy) as (k2 & q2 & Hk2 & ->). exists k2, q2. split; [now right|reflexivity].
Qed.

Lemma srt_of_items p ks s s' : SrtItems p ks s s' -> Srt p s s'.
Proof. intros (n & S & So & P). exists n. repeat split; auto. intros y Hy. destruct (P _ Hy) as (k & q & _ & ->). eauto. Qed.

Theorem flat_sorted h : wf_heap h = true ->
  forall fuel p v s a s', wf_value v = true -> flat fuel h p v s = Some (a, s') -> Srt p s s'.
Proof.
  intros Wh. induction fuel as [|f IH]; intros p v s a s' Wv H; [discriminate|]. cbn [flat] in H.
  assert (Nil : forall s0 : fst_, Srt p s0 s0).
  { intros s0. exists []. rewrite app_nil_r. repeat split; [constructor|]. intros y []. }
  destruct v as [l|x|x|kd xs].
  - destruct (index_of l (fst s)); [inversion H; subst; apply Nil|].
    destruct (nth_error h l) as [[ty attrs|vty pl m]|] eqn:Eh; [| |discriminate].
    + destruct (items_with (flat f h) p attrs (fst s ++ [l], snd s)) as [[as_ s1]|] eqn:Eit; [|discriminate].
      inversion H; subst; clear H.
      assert (Wa : wf_items attrs = true).
      { unfold wf_heap in Wh. rewrite forallb_forall in Wh. exact (Wh _ (nth_error_In _ _ Eh)). }
      exact (srt_of_items _ _ _ _ (items_sorted _ (IH) _ _ _ _ _ Wa Eit)).
    + inversion H; subst. exists [(p, LVar vty pl m)]. split; [reflexivity|]. split.
      * constructor; [constructor|]. intros y [].
      * intros y [<-|[]]. exists []. now rewrite app_nil_r.
  - inversion H; subst; apply Nil.
  - inversion H; subst. exists [(p, LArr x)]. split; [reflexivity|]. split.
    + constructor; [constructor|]. intros y [].
    + intros y [<-|[]]. exists []. now rewrite app_nil_r.
  - destruct (items_with (flat f h) p xs s) as [[as_ s1]|] eqn:Eit; [|discriminate]. inversion H; subst; clear H.
    rewrite wf_value_tree in Wv. exact (srt_of_items _ _ _ _ (items_sorted _ (IH) _ _ _ _ _ Wv Eit)).
Qed.

Theorem flatten_sorted h v g ls : wf_heap h = true -> wf_value v = true -> flatten h v = Some (g, ls) ->
  ssorted ls.
Proof.
  intros Wh Wv. unfold flatten. destruct (flat _ h [] v ([], [])) as [[a s]|] eqn:E; [|discriminate].
  intros H; inversion H; subst. destruct (flat_sorted h Wh _ _ _ _ _ _ Wv E) as (n & S & So & _). cbn in S. now rewrite S.
Qed.

(* the statement of the property for graphs whose sibling keys are sorted (Object sorts vars(), dicts sort keys,
   list / tuple indices ascend): a filtered split, merged back in ANY order of the states, rebuilds the graph *)
Theorem merge_split_any_order ti fs h v g bs bs' ls :
  wf_heap h = true -> wf_value v = true ->
  flatten h v = Some (g, ls) -> split ti fs h v = Some (g, bs) -> Permutation bs bs' ->
  merge g bs' = unflatten g (map snd ls).
Proof.
  intros Wh Wv F S P. pose proof (flatten_sorted _ _ _ _ Wh Wv F) as So.
  rewrite <- (merge_split ti fs h v g bs ls F S (ssorted_nodup _ So) (ssorted_sort _ So)).
  symmetry. apply merge_any_order; [exact P|].
  unfold split in S. rewrite F in S. destruct fs as [|f fs].
  - inversion S; subst. cbn [concat]. rewrite app_nil_r. now apply ssorted_nodup.
  - destruct (split_leaves ti (f :: fs) ls) as [bs0|] eqn:E; [|discriminate]. inversion S; subst bs0.
    destruct (split_leaves_spec _ _ _ _ E) as (_ & Pm & _).
    eapply Permutation_NoDup; [|exact (ssorted_nodup _ So)]. apply Permutation_map. now apply Permutation_sym.
Qed.
