From Coq Require Import QArith Lia.
From Flaxm Require Import Lib.Harness Model.NdIndex Proofs.NdIndex Model.Dropout.
Local Open Scope nat_scope.

Theorem dropout_identity det rate shape bd bits x : det = true \/ (rate == 0)%Q -> dropout det rate shape bd bits x = x.
Proof.
  intros [->|H]; unfold dropout; [reflexivity|]. apply Qeq_bool_iff in H. rewrite H, orb_true_r. reflexivity.
Qed.

Theorem dropout_rate_one rate shape bd bits x : (rate == 1)%Q -> dropout false rate shape bd bits x = map (fun _ => 0%Q) x.
Proof.
  intros H. unfold dropout. cbn [orb].
  destruct (Qeq_bool rate 0) eqn:E0.
  - apply Qeq_bool_iff in E0. rewrite E0 in H. discriminate H.
  - apply Qeq_bool_iff in H. now rewrite H.
Qed.

Lemma nth_map_combine_seq {A B} (f : nat * A -> B) (dA : A) (dB : B) : forall (x : list A) s i, (i < length x) ->
  nth i (map f (combine (seq s (length x)) x)) dB = f (s + i, nth i x dA).
Proof.
  induction x as [|a r IH]; intros s i Hi; cbn [length] in Hi; [lia|].
  cbn [length seq combine map]. destruct i as [|i]; cbn [nth]; [now rewrite Nat.add_0_r|].
  rewrite IH by lia. f_equal. f_equal. lia.
Qed.

(* 0 < rate < 1 (any rate other than 0 and 1, as the code tests it): entry i is x_i / (1 - rate) where the mask bit of
   its broadcast position is set, 0 elsewhere *)
Theorem dropout_entry rate shape bd bits x i : ~ (rate == 0)%Q -> ~ (rate == 1)%Q -> (i < length x) ->
  nth i (dropout false rate shape bd bits x) 0%Q =
  drop_entry (1 - rate)%Q (mask_at shape (norm_dims (length shape) bd) bits i) (nth i x 0%Q).
Proof.
  intros H0 H1 Hi. unfold dropout. cbn [orb].
  destruct (Qeq_bool rate 0) eqn:E0; [apply Qeq_bool_iff in E0; contradiction|].
  destruct (Qeq_bool rate 1) eqn:E1; [apply Qeq_bool_iff in E1; contradiction|].
  rewrite (nth_map_combine_seq _ 0%Q 0%Q) by exact Hi. reflexivity.
Qed.

(* the mask is a function of the key's bits and the position only: one mask serves every input *)
Theorem dropout_mask_independent_of_data rate shape bd bits : ~ (rate == 0)%Q -> ~ (rate == 1)%Q ->
  exists m : nat -> bool, forall x i, (i < length x) ->
    nth i (dropout false rate shape bd bits x) 0%Q = drop_entry (1 - rate)%Q (m i) (nth i x 0%Q).
Proof.
  intros H0 H1. exists (mask_at shape (norm_dims (length shape) bd) bits). intros x i Hi. now apply dropout_entry.
Qed.

(* broadcast_dims: two elements that differ only in coordinates along broadcast dimensions share their mask bit *)
Theorem mask_shared shape bd bits i j :
  (forall a, (a < length shape) -> ~ In a bd -> nth a (unravel shape i) 0 = nth a (unravel shape j) 0) ->
  mask_at shape bd bits i = mask_at shape bd bits j.
Proof.
  intros H. unfold mask_at, mask_pos. apply reduce_key_same in H. unfold reduce_key in H. now rewrite H.
Qed.

(* the position read from the mask is inside the broadcast shape: the prod(broadcast_shape) drawn bits are enough *)
Lemma mask_in_range_go bd : forall shape idx s, in_range shape idx = true ->
  in_range (map (fun ad => if existsb (Nat.eqb (fst ad)) bd then 1 else snd ad) (combine (seq s (length shape)) shape))
           (map (fun ak => if existsb (Nat.eqb (fst ak)) bd then 0 else snd ak) (combine (seq s (length idx)) idx)) = true.
Proof.
  induction shape as [|d r IH]; intros [|k ks] s H; cbn [in_range] in H; try discriminate; [reflexivity|].
  apply andb_true_iff in H as [Hk Hr]. cbn [length seq combine map fst snd in_range].
  apply andb_true_iff. split; [|now apply IH].
  destruct (existsb (Nat.eqb s) bd); [reflexivity|exact Hk].
Qed.
Theorem mask_pos_lt shape bd i : (i < prod shape) -> (mask_pos shape bd i < prod (bshape shape bd)).
Proof.
  intros Hi. unfold mask_pos. apply ravel_lt. unfold bshape, mask_axes.
  apply mask_in_range_go. now apply ravel_unravel.
Qed.
