From Coq Require Import Lia Permutation.
From Flaxm Require Import Lib.Harness Model.NnxFilters.

(* Any / All / Not are pointwise or / and / not; sequences are Any; De Morgan *)
Lemma denote_any l x : denote (NAny l) x = existsb (fun g => denote g x) l.  Proof. reflexivity. Qed.
Lemma denote_seq l x : denote (NSeq l) x = denote (NAny l) x.  Proof. reflexivity. Qed.
Lemma denote_all l x : denote (NAll l) x = forallb (fun g => denote g x) l.  Proof. reflexivity. Qed.
Lemma denote_not f x : denote (NNot f) x = negb (denote f x).  Proof. reflexivity. Qed.

Lemma de_morgan_any l x : denote (NNot (NAny l)) x = denote (NAll (map NNot l)) x.
Proof.
  cbn [denote]. induction l as [|g r IH]; cbn [existsb forallb map]; [reflexivity|].
  rewrite negb_orb, IH. reflexivity.
Qed.
Lemma de_morgan_all l x : denote (NNot (NAll l)) x = denote (NAny (map NNot l)) x.
Proof.
  cbn [denote]. induction l as [|g r IH]; cbn [existsb forallb map]; [reflexivity|].
  rewrite negb_andb, IH. reflexivity.
Qed.
Lemma not_not f x : denote (NNot (NNot f)) x = denote f x.
Proof. cbn [denote]. apply negb_involutive. Qed.
Lemma absorb f g x : denote (NAny [f; NAll [f; g]]) x = denote f x.
Proof. cbn [denote existsb forallb]. destruct (denote f x), (denote g x); reflexivity. Qed.

Lemma first_idx_le fs x : first_idx fs x <= length fs.
Proof. induction fs as [|f r IH]; simpl; [lia|]. destruct (denote f x); lia. Qed.

Lemma first_idx_spec fs x i : first_idx fs x = i -> i < length fs ->
  (exists f, nth_error fs i = Some f /\ denote f x = true) /\
  (forall j g, j < i -> nth_error fs j = Some g -> denote g x = false).
Proof.
  revert i; induction fs as [|f r IH]; simpl; intros i Hi Hl; [lia|].
  destruct (denote f x) eqn:E.
  - subst i. split; [exists f; auto|]. intros j g Hj; lia.
  - destruct i as [|i]; [discriminate|]. injection Hi as Hi. destruct (IH i Hi ltac:(lia)) as [(f' & Hf & Hd) Hb].
    split; [exists f'; auto|]. intros [|j] g Hj Hn; simpl in Hn; [now inversion Hn; subst|]. apply (Hb j g); [lia|exact Hn].
Qed.

Lemma nth_error_add_at {A} i (x : A) bs j :
  nth_error (add_at i x bs) j =
  if Nat.eqb i j then option_map (fun b => b ++ [x]) (nth_error bs j) else nth_error bs j.
Proof.
  revert i j; induction bs as [|b r IH]; intros i j; simpl.
  - destruct i; destruct (Nat.eqb _ j); destruct j; reflexivity.
  - destruct i as [|i]; destruct j as [|j]; simpl; try reflexivity. apply IH.
Qed.

Lemma fold_add_at fs ls : forall bs j,
  nth_error (fold_left (fun bs x => add_at (first_idx fs x) x bs) ls bs) j =
  option_map (fun b => b ++ filter (fun x => Nat.eqb (first_idx fs x) j) ls) (nth_error bs j).
Proof.
  induction ls as [|x r IH]; intros bs j; cbn [fold_left filter].
  - destruct (nth_error bs j); simpl; [now rewrite app_nil_r|reflexivity].
  - rewrite IH, nth_error_add_at. destruct (Nat.eqb (first_idx fs x) j); destruct (nth_error bs j); simpl; try reflexivity.
    now rewrite <- app_assoc.
Qed.

Lemma nth_error_repeat {A} (a : A) n i : nth_error (repeat a n) i = if Nat.ltb i n then Some a else None.
Proof.
  revert i; induction n as [|n IH]; intros [|i]; simpl; try reflexivity. rewrite IH.
  change (Nat.ltb (S i) (S n)) with (Nat.ltb i n). reflexivity.
Qed.

(* bucket i of the split is exactly the leaves whose first matching predicate is i (bucket n: none
   matches), in their original order *)
Theorem split_loop_spec fs ls i :
  nth_error (split_loop fs ls) i =
  if Nat.ltb i (S (length fs)) then Some (filter (fun x => Nat.eqb (first_idx fs x) i) ls) else None.
Proof.
  unfold split_loop. rewrite fold_add_at, nth_error_repeat.
  destruct (Nat.ltb i (S (length fs))); reflexivity.
Qed.

Lemma split_loop_length fs ls : length (split_loop fs ls) = S (length fs).
Proof.
  unfold split_loop.
  assert (H : forall bs, length (fold_left (fun bs x => add_at (first_idx fs x) x bs) ls bs) = length bs).
  { induction ls as [|x r IH]; intros bs; simpl; [reflexivity|]. rewrite IH.
    generalize (first_idx fs x). induction bs as [|b bs' IHb]; intros [|k]; simpl; auto. }
  rewrite H. apply repeat_length.
Qed.

(* nothing lost, nothing duplicated: the buckets together are a permutation of the input *)
Lemma perm_filter_disj {A} (p q : A -> bool) l :
  (forall x, p x = true -> q x = true -> False) ->
  Permutation (filter p l ++ filter q l) (filter (fun x => p x || q x) l).
Proof.
  intros D. induction l as [|x r IH]; simpl; [constructor|].
  destruct (p x) eqn:Hp, (q x) eqn:Hq; simpl.
  - exfalso; eauto.
  - now constructor.
  - apply Permutation_sym. eapply Permutation_trans; [|apply Permutation_middle]. constructor. now apply Permutation_sym.
  - exact IH.
Qed.

Lemma concat_classes {A} (idx : A -> nat) l n s :
  Permutation (concat (map (fun i => filter (fun x => Nat.eqb (idx x) i) l) (seq s n)))
              (filter (fun x => Nat.leb s (idx x) && Nat.ltb (idx x) (s + n)) l).
Proof.
  revert s; induction n as [|n IH]; intros s; cbn [seq map concat].
  - rewrite (filter_ext _ (fun _ => false)).
    + induction l; simpl; auto.
    + intros x. destruct (Nat.leb_spec s (idx x)), (Nat.ltb_spec (idx x) (s + 0)); simpl; auto; lia.
  - eapply Permutation_trans; [apply Permutation_app_head, IH|].
    eapply Permutation_trans; [apply perm_filter_disj|].
    + intros x H1 H2. apply Nat.eqb_eq in H1. apply andb_true_iff in H2 as [H2 _]. apply Nat.leb_le in H2. lia.
    + rewrite (filter_ext _ (fun x => Nat.leb s (idx x) && Nat.ltb (idx x) (s + S n))); [apply Permutation_refl|].
      intros x. destruct (Nat.eqb_spec (idx x) s), (Nat.leb_spec (S s) (idx x)), (Nat.ltb_spec (idx x) (S s + n)),
        (Nat.leb_spec s (idx x)), (Nat.ltb_spec (idx x) (s + S n)); simpl; auto; lia.
Qed.

Lemma nth_error_ext {A} (l1 l2 : list A) : (forall i, nth_error l1 i = nth_error l2 i) -> l1 = l2.
Proof.
  revert l2; induction l1 as [|a r IH]; intros [|b r2] H; auto.
  - specialize (H 0); discriminate.
  - specialize (H 0); discriminate.
  - pose proof (H 0) as H0; simpl in H0; inversion H0; subst. f_equal. apply IH. intros i. exact (H (S i)).
Qed.

Lemma split_loop_classes fs ls :
  split_loop fs ls = map (fun i => filter (fun x => Nat.eqb (first_idx fs x) i) ls) (seq 0 (S (length fs))).
Proof.
  apply nth_error_ext. intros i. rewrite split_loop_spec.
  destruct (Nat.ltb_spec i (S (length fs))) as [H|H].
  - rewrite (nth_error_map _ i (seq 0 (S (length fs)))).
    assert (E : nth_error (seq 0 (S (length fs))) i = Some i).
    { rewrite nth_error_nth' with (d := 0); [|now rewrite seq_length]. now rewrite seq_nth. }
    rewrite E. reflexivity.
  - symmetry. apply nth_error_None. rewrite map_length, seq_length. lia.
Qed.

Theorem split_loop_permutation fs ls : Permutation (concat (split_loop fs ls)) ls.
Proof.
  rewrite split_loop_classes. eapply Permutation_trans; [apply concat_classes|].
  rewrite (filter_ext _ (fun _ => true)).
  - clear. induction ls; simpl; auto.
  - intros x. pose proof (first_idx_le fs x). destruct (Nat.ltb_spec (first_idx fs x) (0 + S (length fs))); simpl; auto; lia.
Qed.

(* a leaf is in bucket i iff i is its first match *)
Theorem split_loop_first_match fs ls i b x :
  nth_error (split_loop fs ls) i = Some b -> (In x b <-> In x ls /\ first_idx fs x = i).
Proof.
  rewrite split_loop_spec. destruct (Nat.ltb i (S (length fs))); [|discriminate].
  intros H; inversion H; subst; clear H. rewrite filter_In, Nat.eqb_eq. tauto.
Qed.

(* with a catch-all last filter the remainder bucket is empty *)
Theorem catchall_no_rest fs f ls :
  is_catchall f = true -> nth_error (split_loop (fs ++ [f]) ls) (S (length fs)) = Some [].
Proof.
  intros Hc. rewrite split_loop_spec, app_length. simpl.
  replace (Nat.ltb (S (length fs)) (S (length fs + 1))) with true by (symmetry; apply Nat.ltb_lt; lia).
  f_equal. rewrite (filter_ext _ (fun _ => false)); [induction ls; simpl; auto|].
  intros x. apply Nat.eqb_neq. clear ls. induction fs as [|g r IH]; simpl.
  - destruct f; try discriminate; simpl; try lia. destruct b; [simpl; lia|discriminate].
  - destruct (denote g x); lia.
Qed.
