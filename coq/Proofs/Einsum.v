From Coq Require Import Lia Permutation.
From Flaxm Require Import Lib.Harness Model.NdIndex Proofs.NdIndex Model.Einsum.
Open Scope Z_scope.

Lemma nth_map_seq {A} (f : nat -> A) (d : A) : forall n s i, (i < n)%nat -> nth i (map f (seq s n)) d = f (s + i)%nat.
Proof.
  induction n as [|n IH]; intros s i Hi; [lia|]. cbn [seq map]. destruct i as [|i]; cbn [nth]; [now rewrite Nat.add_0_r|].
  rewrite IH by lia. f_equal. lia.
Qed.

(* every entry of the layer's output is the stated contraction plus the bias entry of its kernel-side coordinates *)
Theorem einsum_layer_entry sizes lhs rhs out x k bias o : (o < prod (shape_of sizes out))%nat ->
  nth o (einsum_layer sizes lhs rhs out x k bias) 0 =
  einsum_entry sizes lhs rhs out x k o + match bias with Some b => nth (bias_pos sizes rhs out o) b 0 | None => 0 end.
Proof. intros H. unfold einsum_layer. now rewrite (nth_map_seq _ 0) by exact H. Qed.
Theorem einsum_layer_length sizes lhs rhs out x k bias : length (einsum_layer sizes lhs rhs out x k bias) = prod (shape_of sizes out).
Proof. unfold einsum_layer. now rewrite map_length, seq_length. Qed.

(* the stated contraction for "ij,jk->ik" is the matrix product *)
Lemma div_mod_lin (i k K : nat) : (k < K)%nat -> ((i * K + k) / K = i /\ (i * K + k) mod K = k)%nat.
Proof.
  intros H. split.
  - rewrite Nat.div_add_l by lia. rewrite Nat.div_small by lia. lia.
  - rewrite Nat.add_comm, Nat.mod_add by lia. now apply Nat.mod_small.
Qed.

Theorem einsum_matmul (I J K : nat) x k i kk : (i < I)%nat -> (kk < K)%nat ->
  einsum_entry [(0, I); (1, J); (2, K)]%nat [0; 1]%nat [1; 2]%nat [0; 2]%nat x k (i * K + kk) =
  fold_right Z.add 0 (map (fun j => nth (i * J + j) x 0 * nth (j * K + kk) k 0) (seq 0 J)).
Proof.
  intros Hi Hk. unfold einsum_entry.
  change (contracted [0; 1]%nat [1; 2]%nat [0; 2]%nat) with [1%nat].
  change (shape_of [(0, I); (1, J); (2, K)]%nat [1%nat]) with [J].
  replace (prod [J]) with J by (cbn; lia). f_equal. apply map_ext_in. intros j Hj. apply in_seq in Hj.
  unfold term, asg_of.
  change (shape_of [(0, I); (1, J); (2, K)]%nat [0; 2]%nat) with [I; K].
  change (shape_of [(0, I); (1, J); (2, K)]%nat [0; 1]%nat) with [I; J].
  change (shape_of [(0, I); (1, J); (2, K)]%nat [1; 2]%nat) with [J; K].
  change (shape_of [(0, I); (1, J); (2, K)]%nat [1%nat]) with [J].
  cbn [unravel prod fold_right combine app].
  rewrite !Nat.mul_1_r, !Nat.div_1_r.
  destruct (div_mod_lin i kk K Hk) as [D M]. rewrite D, M.
  cbn [coords map coord find fst snd Nat.eqb ravel prod fold_right].
  f_equal; f_equal; lia.
Qed.

(* the bias entry depends only on the coordinates of result axes whose label occurs in the kernel *)
Theorem bias_pos_kernel_axes sizes rhs out o o' :
  map (fun lc => if in_rhs rhs (fst lc) then snd lc else 0%nat) (asg_of sizes out o) =
  map (fun lc => if in_rhs rhs (fst lc) then snd lc else 0%nat) (asg_of sizes out o') ->
  bias_pos sizes rhs out o = bias_pos sizes rhs out o'.
Proof. intros H. unfold bias_pos. now rewrite H. Qed.

(* ---- writing the result labels in another order only transposes the result ---- *)
Lemma coord_app a c l : coord (a ++ c) l = if existsb (Nat.eqb l) (map fst a) then coord a l else coord c l.
Proof.
  unfold coord. induction a as [|[k v] r IH]; cbn [app find map fst existsb]; [reflexivity|].
  rewrite (Nat.eqb_sym k l). destruct (Nat.eqb l k); cbn [orb]; [reflexivity|exact IH].
Qed.
Lemma combine_fst {A B} : forall (l : list A) (m : list B), length l = length m -> map fst (combine l m) = l.
Proof. induction l as [|x l IH]; intros [|y m] H; cbn [length] in H; try discriminate; [reflexivity|]. cbn. f_equal. apply IH. lia. Qed.
Lemma coord_combine_map (f : lab -> nat) : forall ls l, In l ls -> coord (combine ls (map f ls)) l = f l.
Proof.
  unfold coord. induction ls as [|k r IH]; intros l Hin; [contradiction|]. cbn [map combine find fst snd].
  destruct (Nat.eqb_spec k l) as [->|Hne]; [reflexivity|]. destruct Hin as [->|Hin]; [contradiction|]. now apply IH.
Qed.
Lemma existsb_perm (l : lab) a b : Permutation a b -> existsb (Nat.eqb l) a = existsb (Nat.eqb l) b.
Proof.
  intros P. destruct (existsb (Nat.eqb l) a) eqn:Ea, (existsb (Nat.eqb l) b) eqn:Eb; try reflexivity.
  - apply existsb_exists in Ea as (x & Hx & E). assert (existsb (Nat.eqb l) b = true); [|congruence].
    apply existsb_exists. exists x. split; [now apply (Permutation_in _ P)|exact E].
  - apply existsb_exists in Eb as (x & Hx & E). assert (existsb (Nat.eqb l) a = true); [|congruence].
    apply existsb_exists. exists x. split; [now apply (Permutation_in _ (Permutation_sym P))|exact E].
Qed.
Lemma contracted_perm lhs rhs out out' : Permutation out out' -> contracted lhs rhs out = contracted lhs rhs out'.
Proof. intros P. unfold contracted. apply filter_ext. intros l. now rewrite (existsb_perm l out out' P). Qed.
Lemma unravel_length' shape i : length (unravel shape i) = length shape.
Proof. revert i. induction shape as [|d r IH]; intros i; cbn [unravel length]; [reflexivity|]. now rewrite IH. Qed.
Lemma existsb_in l ls : existsb (Nat.eqb l) ls = true <-> In l ls.
Proof. rewrite existsb_exists. split; [intros (x & Hx & E); apply Nat.eqb_eq in E; now subst|intros H; exists l; split; [exact H|apply Nat.eqb_refl]]. Qed.

Lemma coord_below sizes : forall out' idx l, in_range (shape_of sizes out') idx = true -> In l out' ->
  (coord (combine out' idx) l < size_of sizes l)%nat.
Proof.
  induction out' as [|k r IH]; intros idx l Hin Hl; [contradiction|].
  destruct idx as [|i idx]; cbn [shape_of map in_range] in Hin; [discriminate|].
  apply andb_true_iff in Hin as [Hi Hr]. apply Nat.ltb_lt in Hi. unfold coord. cbn [combine find fst snd].
  destruct (Nat.eqb_spec k l) as [->|Hne]; [exact Hi|]. destruct Hl as [->|Hl]; [contradiction|].
  apply (IH idx l Hr Hl).
Qed.
Lemma in_range_coords sizes out' o' : (o' < prod (shape_of sizes out'))%nat -> forall out, (forall l, In l out -> In l out') ->
  in_range (shape_of sizes out) (coords (asg_of sizes out' o') out) = true.
Proof.
  intros Ho out Hsub. destruct (ravel_unravel (shape_of sizes out') o' Ho) as [_ Hin].
  induction out as [|l r IH]; [reflexivity|]. cbn [shape_of coords map in_range].
  apply andb_true_iff. split.
  - apply Nat.ltb_lt. unfold asg_of. apply coord_below; [exact Hin|apply Hsub; now left].
  - apply IH. intros x Hx. apply Hsub. now right.
Qed.

Theorem einsum_out_permutation sizes lhs rhs out out' x k o' : Permutation out out' -> NoDup out' ->
  (o' < prod (shape_of sizes out'))%nat ->
  einsum_entry sizes lhs rhs out' x k o' =
  einsum_entry sizes lhs rhs out x k (ravel (shape_of sizes out) (coords (asg_of sizes out' o') out)).
Proof.
  intros P ND Ho. unfold einsum_entry. rewrite (contracted_perm lhs rhs out out' P). f_equal. apply map_ext. intros c.
  assert (Hsub : forall l, In l out -> In l out') by (intros l; apply (Permutation_in _ P)).
  pose proof (in_range_coords sizes out' o' Ho out Hsub) as Hr.
  unfold asg_of at 3. rewrite (unravel_ravel _ _ Hr). fold (asg_of sizes out' o').
  set (a' := asg_of sizes out' o'). set (cc := asg_of sizes (contracted lhs rhs out') c).
  assert (Hcoord : forall l, coord (a' ++ cc) l = coord (combine out (coords a' out) ++ cc) l).
  { intros l. rewrite !coord_app. unfold coords. rewrite combine_fst by now rewrite map_length.
    assert (Hd : map fst a' = out') by (unfold a', asg_of; apply combine_fst; rewrite unravel_length'; unfold shape_of; now rewrite map_length).
    rewrite Hd, <- (existsb_perm l out out' P).
    destruct (existsb (Nat.eqb l) out) eqn:E; [|reflexivity]. apply existsb_in in E. now rewrite coord_combine_map. }
  unfold term, coords. f_equal; f_equal; f_equal; apply map_ext; intros l; apply Hcoord.
Qed.
