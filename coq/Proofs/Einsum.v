From Coq Require Import Lia.
From Flaxm Require Import Lib.Harness Model.NdIndex Proofs.NdIndex Model.Einsum.
Open Scope Z_scope.

Lemma nth_map_seq {A} (f : nat -> A) (d : A) : forall n s i, (i < n)%nat -> nth i (map f (seq s n)) d = f (s + i)%nat.
Proof.
  induction n as [|n IH]; intros s i Hi; [lia|]. cbn [seq map]. destruct i as [|i]; cbn [nth]; [now rewrite Nat.add_0_r|].
  rewrite IH by lia. f_equal. lia.
Qed.

(* every entry of the layer's output is the stated contraction plus the bias entry of its kernel-side coordinates *)
Theorem einsum_layer_entry sizes lhs rhs out x k bias o : (o < prod (shape_of sizes out))%nat ->
  nth o (einsum_layer sizes lhs rhs out x k bias) 0 =
  einsum_entry sizes lhs rhs out x k o + match bias with Some b => nth (bias_pos sizes rhs out o) b 0 | None => 0 end.
Proof. intros H. unfold einsum_layer. now rewrite (nth_map_seq _ 0) by exact H. Qed.
Theorem einsum_layer_length sizes lhs rhs out x k bias : length (einsum_layer sizes lhs rhs out x k bias) = prod (shape_of sizes out).
Proof. unfold einsum_layer. now rewrite map_length, seq_length. Qed.

(* the stated contraction for "ij,jk->ik" is the matrix product *)
Lemma div_mod_lin (i k K : nat) : (k < K)%nat -> ((i * K + k) / K = i /\ (i * K + k) mod K = k)%nat.
Proof.
  intros H. split.
  - rewrite Nat.div_add_l by lia. rewrite Nat.div_small by lia. lia.
  - rewrite Nat.add_comm, Nat.mod_add by lia. now apply Nat.mod_small.
Qed.

Theorem einsum_matmul (I J K : nat) x k i kk : (i < I)%nat -> (kk < K)%nat ->
  einsum_entry [(0, I); (1, J); (2, K)]%nat [0; 1]%nat [1; 2]%nat [0; 2]%nat x k (i * K + kk) =
  fold_right Z.add 0 (map (fun j => nth (i * J + j) x 0 * nth (j * K + kk) k 0) (seq 0 J)).
Proof.
  intros Hi Hk. unfold einsum_entry.
  change (contracted [0; 1]%nat [1; 2]%nat [0; 2]%nat) with [1%nat].
  change (shape_of [(0, I); (1, J); (2, K)]%nat [1%nat]) with [J].
  replace (prod [J]) with J by (cbn; lia). f_equal. apply map_ext_in. intros j Hj. apply in_seq in Hj.
  unfold term, asg_of.
  change (shape_of [(0, I); (1, J); (2, K)]%nat [0; 2]%nat) with [I; K].
  change (shape_of [(0, I); (1, J); (2, K)]%nat [0; 1]%nat) with [I; J].
  change (shape_of [(0, I); (1, J); (2, K)]%nat [1; 2]%nat) with [J; K].
  change (shape_of [(0, I); (1, J); (2, K)]%nat [1%nat]) with [J].
  cbn [unravel prod fold_right combine app].
  rewrite !Nat.mul_1_r, !Nat.div_1_r.
  destruct (div_mod_lin i kk K Hk) as [D M]. rewrite D, M.
  cbn [coords map coord find fst snd Nat.eqb ravel prod fold_right].
  f_equal; f_equal; lia.
Qed.

(* the bias entry depends only on the coordinates of result axes whose label occurs in the kernel *)
Theorem bias_pos_kernel_axes sizes rhs out o o' :
  map (fun lc => if in_rhs rhs (fst lc) then snd lc else 0%nat) (asg_of sizes out o) =
  map (fun lc => if in_rhs rhs (fst lc) then snd lc else 0%nat) (asg_of sizes out o') ->
  bias_pos sizes rhs out o = bias_pos sizes rhs out o'.
Proof. intros H. unfold bias_pos. now rewrite H. Qed.
