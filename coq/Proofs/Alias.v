From Flaxm Require Import Lib.Harness Model.Alias.

Lemma in_prefixes v p os : In p (prefixes_of v os) <-> In (v, p) os.
Proof.
  unfold prefixes_of. rewrite in_map_iff. split.
  - intros ([v' p'] & <- & H). apply filter_In in H as [H E]. cbn [fst snd] in *. apply Nat.eqb_eq in E. now subst.
  - intros H. exists (v, p). split; [reflexivity|]. apply filter_In. split; [exact H|]. cbn [fst]. apply Nat.eqb_refl.
Qed.

(* accepted exactly when no Variable is reached under two different specifications *)
Theorem alias_ok_spec os : alias_ok os = true <-> forall v p q, In (v, p) os -> In (v, q) os -> p = q.
Proof.
  unfold alias_ok. rewrite forallb_forall. split.
  - intros H v p q Hp Hq. specialize (H (v, p) Hp). cbn [fst snd] in H. rewrite forallb_forall in H.
    apply Nat.eqb_eq. apply H. now apply in_prefixes.
  - intros H [v p] Hp. cbn [fst snd]. apply forallb_forall. intros q Hq. apply Nat.eqb_eq. apply in_prefixes in Hq. now apply (H v).
Qed.

(* ... and then every occurrence of a Variable carries the one specification it is treated under: aliased arguments are one
   object, not resolved silently *)
Theorem alias_ok_one_spec os v p : alias_ok os = true -> In (v, p) os -> spec_for v os = Some p.
Proof.
  intros H Hp. unfold spec_for. pose proof (proj2 (in_prefixes v p os) Hp) as Hin.
  destruct (prefixes_of v os) as [|q r] eqn:E; [contradiction|]. cbn [hd_error]. f_equal.
  apply (proj1 (alias_ok_spec os) H v); [|exact Hp]. apply in_prefixes. rewrite E. now left.
Qed.
