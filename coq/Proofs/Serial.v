From Coq Require Import Lia Permutation.
From Flaxm Require Import Lib.Harness Model.Flatten Proofs.Flatten Model.Serial.

(* ---------------- str(i) is injective ---------------- *)
Definition dstep (a : nat) (b : N) : nat := a * 10 + (N.to_nat b - 48).
Definition val (a : nat) (k : key) : nat := fold_left dstep k a.

Lemma val_app a k1 k2 : val a (k1 ++ k2) = val (val a k1) k2.
Proof. unfold val. apply fold_left_app. Qed.

Lemma dec_go_spec : forall fuel n acc, n < fuel ->
  exists ds, dec_go fuel n acc = ds ++ acc /\ forall a, val a ds = a * 10 ^ (length ds) + n.
Proof.
  induction fuel as [|f IH]; intros n acc Hn; [lia|]. cbn [dec_go].
  destruct (Nat.ltb_spec n 10) as [Hlt|Hge].
  - exists [(N.of_nat (n mod 10) + 48)%N]. split; [reflexivity|]. intros a. unfold val, dstep. cbn [fold_left length].
    rewrite Nat.mod_small by lia. rewrite Nat.pow_1_r. lia.
  - assert (Hd : n / 10 < f).
    { pose proof (Nat.div_lt n 10 ltac:(lia) ltac:(lia)). lia. }
    destruct (IH (n / 10) ((N.of_nat (n mod 10) + 48)%N :: acc) Hd) as (ds & Hds & Hv).
    exists (ds ++ [(N.of_nat (n mod 10) + 48)%N]). split.
    + rewrite Hds, <- app_assoc. reflexivity.
    + intros a. rewrite val_app, Hv. unfold val, dstep. cbn [fold_left]. rewrite app_length. cbn [length].
      replace (length ds + 1) with (S (length ds)) by lia. rewrite Nat.pow_succ_r'.
      pose proof (Nat.div_mod n 10 ltac:(lia)). pose proof (Nat.mod_upper_bound n 10 ltac:(lia)). nia.
Qed.

Definition undec (k : key) : nat := val 0 k.
Lemma undec_dec n : undec (dec n) = n.
Proof.
  unfold undec, dec. destruct (dec_go_spec (S n) n [] ltac:(lia)) as (ds & Hds & Hv).
  rewrite Hds, app_nil_r, Hv. lia.
Qed.
Lemma dec_inj i j : dec i = dec j -> i = j.
Proof. intros H. rewrite <- (undec_dec i), <- (undec_dec j). now rewrite H. Qed.
Lemma key_eqb_dec i j : key_eqb (dec i) (dec j) = Nat.eqb i j.
Proof.
  destruct (Nat.eqb_spec i j) as [->|Hn]; [apply key_eqb_refl|]. apply key_eqb_neq. intros H. apply Hn. now apply dec_inj.
Qed.

(* looking up str(i) in {str(j): x_j} *)
Lemma lookup_enum : forall (l : list sd) j i,
  sd_lookup (dec (j + i)) (map (fun ix => (dec (fst ix), snd ix)) (enumerate_from j l)) = nth_error l i.
Proof.
  induction l as [|x r IH]; intros j i; simpl; [destruct i; reflexivity|].
  rewrite key_eqb_dec. destruct i as [|i].
  - replace (j + 0) with j by lia. now rewrite Nat.eqb_refl.
  - replace (Nat.eqb (j + S i) j) with false by (symmetry; apply Nat.eqb_neq; lia).
    replace (j + S i) with (S j + i) by lia. apply IH.
Qed.

Lemma enumerate_length {A} (l : list A) j : length (enumerate_from j l) = length l.
Proof. revert j; induction l; intros j; simpl; auto. Qed.

(* ---------------- induction principle for ptree ---------------- *)
Lemma ptree_ind' (P : ptree -> Prop) :
  (forall l, P (PLeaf l)) ->
  (forall kids, Forall (fun kv => P (snd kv)) kids -> P (PDict kids)) ->
  (forall kids, Forall (fun kv => P (snd kv)) kids -> P (PFrozen kids)) ->
  (forall xs, Forall P xs -> P (PList xs)) ->
  (forall xs, Forall P xs -> P (PTuple xs)) ->
  (forall ty kids, Forall (fun kv => P (snd kv)) kids -> P (PNamed ty kids)) ->
  (forall c kids, Forall (fun kv => P (snd kv)) kids -> P (PData c kids)) ->
  forall t, P t.
Proof.
  intros H1 H2 H3 H4 H5 H6 H7. fix IH 1. intros [l|kids|kids|xs|xs|ty kids|c kids].
  - apply H1.
  - apply H2. induction kids as [|[k s] r IHr]; constructor; [apply IH|exact IHr].
  - apply H3. induction kids as [|[k s] r IHr]; constructor; [apply IH|exact IHr].
  - apply H4. induction xs as [|s r IHr]; constructor; [apply IH|exact IHr].
  - apply H5. induction xs as [|s r IHr]; constructor; [apply IH|exact IHr].
  - apply H6. induction kids as [|[k s] r IHr]; constructor; [apply IH|exact IHr].
  - apply H7. induction kids as [|[k s] r IHr]; constructor; [apply IH|exact IHr].
Qed.

(* well-formed: sibling keys / field names pairwise different *)
Fixpoint pwf (t : ptree) : bool :=
  match t with
  | PLeaf _ => true
  | PDict kids | PFrozen kids | PNamed _ kids | PData _ kids =>
      keys_nodup (map fst kids) && forallb (fun kv => pwf (snd kv)) kids
  | PList xs | PTuple xs => forallb pwf xs
  end.

Definition tosd_kids (kids : list (key * ptree)) := map (fun kv => (fst kv, to_sd (snd kv))) kids.

Lemma lookup_tosd_notin k kids : existsb (key_eqb k) (map fst kids) = false -> sd_lookup k (tosd_kids kids) = None.
Proof.
  induction kids as [|[k' t] r IH]; simpl; [reflexivity|]. intros H. apply orb_false_iff in H as [H1 H2].
  rewrite H1. now apply IH.
Qed.

Lemma has_key_tosd k kids : has_key k (tosd_kids kids) = existsb (key_eqb k) (map fst kids).
Proof. unfold has_key, tosd_kids. induction kids as [|[k' t] r IH]; simpl; [reflexivity|]. now rewrite IH. Qed.

Lemma existsb_self k r : existsb (key_eqb k) (k :: r) = true.
Proof. simpl. now rewrite key_eqb_refl. Qed.

(* restoring the fields of a keyed container from its own state dict, with surplus entries before/after *)
Lemma restore_fields_self (F : path -> ptree -> sd -> res ptree) p :
  forall kids pre,
  Forall (fun kv => forall q, F q (snd kv) (to_sd (snd kv)) = Ok (snd kv)) kids ->
  keys_nodup (map fst kids) = true ->
  (forall k, In k (map fst kids) -> sd_lookup k pre = None) ->
  restore_fields F p kids (pre ++ tosd_kids kids) = Ok kids.
Proof.
  assert (L : forall k (a b : list (key * sd)), sd_lookup k (a ++ b) = match sd_lookup k a with Some v => Some v | None => sd_lookup k b end).
  { intros k a b. induction a as [|[k' v] a IHa]; simpl; [reflexivity|]. destruct (key_eqb k k'); [reflexivity|apply IHa]. }
  induction kids as [|[k t] r IH]; intros pre HF Hnd Hpre; [reflexivity|].
  inversion HF as [|? ? Hk Hr]; subst. simpl in Hk. apply keys_nodup_cons in Hnd as [Hkr Hnd].
  cbn [restore_fields]. rewrite L, (Hpre k) by (simpl; auto). cbn [tosd_kids map sd_lookup fst snd].
  rewrite key_eqb_refl, Hk.
  change ((k, to_sd t) :: map (fun kv => (fst kv, to_sd (snd kv))) r) with ([(k, to_sd t)] ++ tosd_kids r).
  rewrite app_assoc. rewrite IH; [reflexivity|assumption|assumption|].
  intros k' Hin. rewrite L, (Hpre k') by (simpl; auto). simpl.
  rewrite (existsb_key_sym k (map fst r) Hkr k' Hin). reflexivity.
Qed.

Lemma restore_items_self (F : path -> ptree -> sd -> res ptree) p :
  forall xs j (pre : list sd),
  Forall (fun t => forall q, F q t (to_sd t) = Ok t) xs ->
  length pre = j ->
  restore_items F p j xs (map (fun ix => (dec (fst ix), snd ix)) (enumerate_from 0 (pre ++ map to_sd xs))) = Ok xs.
Proof.
  induction xs as [|t r IH]; intros j pre HF Hj; [reflexivity|]. subst j.
  inversion HF as [|? ? Ht Hr]; subst. cbn [restore_items].
  change (map to_sd (t :: r)) with (to_sd t :: map to_sd r).
  pose proof (lookup_enum (pre ++ to_sd t :: map to_sd r) 0 (length pre)) as HL. simpl in HL. rewrite HL.
  rewrite nth_error_app2 by lia. rewrite Nat.sub_diag. simpl. rewrite Ht.
  specialize (IH (S (length pre)) (pre ++ [to_sd t]) Hr). rewrite <- app_assoc in IH. simpl in IH.
  rewrite IH; [reflexivity|]. rewrite app_length. simpl. lia.
Qed.

Lemma keyset_eq_refl l : keyset_eq l l = true.
Proof.
  unfold keyset_eq. assert (forallb (fun k => existsb (key_eqb k) l) l = true).
  { apply forallb_forall. intros k Hin. apply existsb_exists. exists k. split; [exact Hin|apply key_eqb_refl]. }
  now rewrite H.
Qed.

Lemma all_have_key kids : forallb (fun kv => has_key (fst kv) (tosd_kids kids)) kids = true.
Proof.
  apply forallb_forall. intros [k t] Hin. rewrite has_key_tosd. apply existsb_exists. exists k. split; [|apply key_eqb_refl].
  apply in_map_iff. exists (k, t). auto.
Qed.

Lemma max_le_kids (kids : list (key * ptree)) kv :
  In kv kids -> height (snd kv) <= fold_right (fun kv m => Nat.max (height (snd kv)) m) 0 kids.
Proof. induction kids as [|x r IH]; simpl; intros H; [contradiction|]. destruct H as [->|H]; [lia|]. specialize (IH H). lia. Qed.
Lemma max_le_items (xs : list ptree) t :
  In t xs -> height t <= fold_right (fun x m => Nat.max (height x) m) 0 xs.
Proof. induction xs as [|x r IH]; simpl; intros H; [contradiction|]. destruct H as [->|H]; [lia|]. specialize (IH H). lia. Qed.

Theorem from_to_sd : forall t, pwf t = true -> forall fuel p, height t <= fuel -> from_sd fuel p t (to_sd t) = Ok t.
Proof.
  induction t as [l|kids IH|kids IH|xs IH|xs IH|ty kids IH|c kids IH] using ptree_ind';
    intros Hwf fuel p Hf; (destruct fuel as [|f]; [simpl in Hf; lia|]); cbn [from_sd to_sd]; try reflexivity.
  1,2,5,6: (
    simpl in Hwf; apply andb_true_iff in Hwf as [Hnd Hall];
    fold (tosd_kids kids); rewrite ?all_have_key;
    assert (HF : Forall (fun kv => forall q, from_sd f q (snd kv) (to_sd (snd kv)) = Ok (snd kv)) kids)
      by (apply Forall_forall; intros kv Hin q; rewrite Forall_forall in IH; apply IH;
          [exact Hin | rewrite forallb_forall in Hall; now apply Hall
          | pose proof (max_le_kids kids kv Hin); simpl in Hf; lia]);
    pose proof (restore_fields_self (from_sd f) p kids [] HF Hnd (fun _ _ => eq_refl)) as R; simpl in R).
  - rewrite R. reflexivity.
  - rewrite R. reflexivity.
  - unfold tosd_kids. rewrite map_map. simpl. rewrite keyset_eq_refl. fold (tosd_kids kids). rewrite R. reflexivity.
  - assert (E : forallb (fun k => existsb (key_eqb k) (map fst kids)) (map fst (tosd_kids kids)) = true).
    { unfold tosd_kids. rewrite map_map. simpl. apply forallb_forall. intros k Hin. apply existsb_exists. exists k. split; [exact Hin|apply key_eqb_refl]. }
    rewrite E. simpl. rewrite R. reflexivity.
  - rewrite map_length, enumerate_length, map_length, Nat.eqb_refl.
    assert (HF : Forall (fun t => forall q, from_sd f q t (to_sd t) = Ok t) xs).
    { apply Forall_forall. intros t Hin q. rewrite Forall_forall in IH. apply IH; [exact Hin| |].
      - simpl in Hwf. rewrite forallb_forall in Hwf. now apply Hwf.
      - pose proof (max_le_items xs t Hin). simpl in Hf. lia. }
    pose proof (restore_items_self (from_sd f) p xs 0 [] HF eq_refl) as R. simpl in R. rewrite R. reflexivity.
  - rewrite map_length, enumerate_length, map_length, Nat.eqb_refl.
    assert (HF : Forall (fun t => forall q, from_sd f q t (to_sd t) = Ok t) xs).
    { apply Forall_forall. intros t Hin q. rewrite Forall_forall in IH. apply IH; [exact Hin| |].
      - simpl in Hwf. rewrite forallb_forall in Hwf. now apply Hwf.
      - pose proof (max_le_items xs t Hin). simpl in Hf. lia. }
    pose proof (restore_items_self (from_sd f) p xs 0 [] HF eq_refl) as R. simpl in R. rewrite R. reflexivity.
Qed.

Corollary state_dict_roundtrip t : pwf t = true -> from_state_dict t (to_sd t) = Ok t.
Proof. intros H. apply from_to_sd; auto. Qed.

(* ---------------- chunking ---------------- *)
Lemma concat_chunks_go {A} n : 1 <= n -> forall fuel (l : list A), length l <= fuel -> concat (chunks_go fuel n l) = l.
Proof.
  intros Hn. induction fuel as [|f IH]; intros l Hl.
  - destruct l; [reflexivity|simpl in Hl; lia].
  - destruct l as [|x r]; [reflexivity|]. cbn [chunks_go concat]. rewrite IH; [apply firstn_skipn|].
    rewrite skipn_length. cbn [length] in *. lia.
Qed.
Theorem concat_chunks {A} n (l : list A) : 1 <= n -> concat (chunks n l) = l.
Proof. intros Hn. unfold chunks. now apply concat_chunks_go. Qed.

Lemma chunks_nonempty {A} n (l : list A) : l <> [] -> chunks n l <> [].
Proof. unfold chunks. destruct l; [contradiction|]. simpl. discriminate. Qed.

Lemma map_snd_enumerate {A} (l : list A) j : map snd (enumerate_from j l) = l.
Proof. revert j; induction l as [|x r IH]; intros j; simpl; [reflexivity|]. now rewrite IH. Qed.

Definition enum_sd (l : list sd) := map (fun ix => (dec (fst ix), snd ix)) (enumerate_from 0 l).

Lemma dict_to_list_enum : forall n j (l : list sd), j + n = length l -> dict_to_list j n (enum_sd l) = Some (skipn j l).
Proof.
  induction n as [|n IH]; intros j l Hl; cbn [dict_to_list].
  - rewrite skipn_all2 by lia. reflexivity.
  - pose proof (lookup_enum l 0 j) as HL. simpl in HL. unfold enum_sd. rewrite HL.
    destruct (nth_error l j) as [x|] eqn:E; [|apply nth_error_None in E; lia].
    fold (enum_sd l). rewrite IH by lia. simpl. f_equal.
    clear -E. revert j E; induction l as [|y r IHl]; intros [|j] E; simpl in *; try discriminate.
    + now inversion E.
    + now apply IHl.
Qed.

Lemma enum_sd_length l : length (enum_sd l) = length l.
Proof. unfold enum_sd. now rewrite map_length, enumerate_length. Qed.

Lemma enum_map {A} (f : nat * A -> sd) (g : A -> sd) (l : list A) j :
  (forall i x, f (i, x) = g x) ->
  map (fun ix => (dec (fst ix), f ix)) (enumerate_from j l) = map (fun ix => (dec (fst ix), snd ix)) (enumerate_from j (map g l)).
Proof. intros H. revert j; induction l as [|x r IH]; intros j; simpl; [reflexivity|]. now rewrite H, IH. Qed.

Definition arr_wf (sh : list N) (isz : N) (data : list N) : Prop :=
  (1 <= isz)%N /\ N.of_nat (length data) = (prodN sh * isz)%N.

Theorem unchunk_chunk th dt sh isz data :
  arr_wf sh isz data -> (th < prodN sh * isz)%N ->
  unchunk_leaves (chunk th dt sh isz data) = Some (SLeaf (LArr dt sh isz data)).
Proof.
  intros [Hi Hlen] Hth. unfold chunk. cbn [unchunk_leaves].
  assert (Hk : has_key k_chunked
     [(k_chunked, SLeaf (LBool true));
      (k_shape, SDict (map (fun ix => (dec (fst ix), SLeaf (LInt (Z.of_N (snd ix))))) (enumerate_from 0 sh)));
      (k_chunks, SDict (map (fun ix => (dec (fst ix),
           SLeaf (LArr dt [(N.of_nat (length (snd ix)) / isz)%N] isz (snd ix))))
           (enumerate_from 0 (chunks (N.to_nat (N.max 1 (th / isz) * isz)) data))))] = true) by reflexivity.
  rewrite Hk. unfold unchunk.
  assert (E1 : forall a b c, sd_lookup k_shape [(k_chunked, a); (k_shape, b); (k_chunks, c)] = Some b) by reflexivity.
  assert (E2 : forall a b c, sd_lookup k_chunks [(k_chunked, a); (k_shape, b); (k_chunks, c)] = Some c) by reflexivity.
  rewrite E1, E2.
  set (cs := chunks (N.to_nat (N.max 1 (th / isz) * isz)) data).
  rewrite (enum_map (fun ix => SLeaf (LInt (Z.of_N (snd ix)))) (fun d => SLeaf (LInt (Z.of_N d))) sh 0) by reflexivity.
  rewrite (enum_map (fun ix => SLeaf (LArr dt [(N.of_nat (length (snd ix)) / isz)%N] isz (snd ix)))
                    (fun c => SLeaf (LArr dt [(N.of_nat (length c) / isz)%N] isz c)) cs 0) by reflexivity.
  fold (enum_sd (map (fun d => SLeaf (LInt (Z.of_N d))) sh)).
  fold (enum_sd (map (fun c => SLeaf (LArr dt [(N.of_nat (length c) / isz)%N] isz c)) cs)).
  rewrite !enum_sd_length, !dict_to_list_enum by (rewrite ?map_length; lia). cbn [skipn].
  assert (Hne : cs <> []).
  { apply chunks_nonempty. intros ->. simpl in Hlen. lia. }
  destruct cs as [|c0 cr] eqn:Ecs; [contradiction|]. cbn [map].
  do 3 f_equal.
  - rewrite map_map. erewrite map_ext; [apply map_id|]. intros d. simpl. apply N2Z.id.
  - rewrite map_map. cbn. rewrite (map_id cr).
    change (c0 ++ concat cr) with (concat (c0 :: cr)). rewrite <- Ecs. subst cs. apply concat_chunks. lia.
Qed.

(* a state dict is clean when no user dict carries the marker key and every array is well-formed *)
Fixpoint clean (s : sd) : Prop :=
  match s with
  | SLeaf (LArr _ sh isz data) => arr_wf sh isz data
  | SLeaf _ => True
  | SDict kids => has_key k_chunked kids = false /\
                  (fix go (l : list (key * sd)) : Prop := match l with [] => True | (_, v) :: r => clean v /\ go r end) kids
  end.

Lemma sd_ind' (P : sd -> Prop) :
  (forall l, P (SLeaf l)) -> (forall kids, Forall (fun kv => P (snd kv)) kids -> P (SDict kids)) -> forall s, P s.
Proof.
  intros HL HN. fix IH 1. intros [l|kids]; [apply HL|]. apply HN.
  induction kids as [|[k t] r IHr]; constructor; [apply IH|exact IHr].
Qed.

Lemma has_key_map k (f : sd -> sd) kids : has_key k (map (fun kv => (fst kv, f (snd kv))) kids) = has_key k kids.
Proof. unfold has_key. induction kids as [|[k' v] r IH]; simpl; [reflexivity|]. now rewrite IH. Qed.

Theorem unchunk_chunk_leaves th : forall s, clean s -> unchunk_leaves (chunk_leaves th s) = Some s.
Proof.
  induction s as [l|kids IH] using sd_ind'; intros Hc.
  - destruct l; try reflexivity. cbn [chunk_leaves]. destruct (N.ltb_spec th (prodN shape * itemsize)); [|reflexivity].
    now apply unchunk_chunk.
  - cbn [chunk_leaves unchunk_leaves]. destruct Hc as [Hk Hkids]. rewrite has_key_map, Hk.
    assert (G : (fix go (l : list (key * sd)) : option (list (key * sd)) :=
                   match l with [] => Some [] | (k, v) :: r =>
                     match unchunk_leaves v, go r with Some v', Some r' => Some ((k, v') :: r') | _, _ => None end end)
                (map (fun kv => (fst kv, chunk_leaves th (snd kv))) kids) = Some kids).
    { clear Hk. induction kids as [|[k v] r IHr]; [reflexivity|]. inversion IH as [|? ? Hv Hr]; subst.
      destruct Hkids as [Cv Cr]. cbn [map fst snd]. simpl in Hv. rewrite (Hv Cv), (IHr Hr Cr). reflexivity. }
    rewrite G. reflexivity.
Qed.

(* the restored value does not depend on the threshold *)
Corollary threshold_irrelevant th1 th2 s : clean s ->
  unchunk_leaves (chunk_leaves th1 s) = unchunk_leaves (chunk_leaves th2 s).
Proof. intros H. now rewrite !unchunk_chunk_leaves. Qed.

(* ---------------- mismatches raise; matching is by key ---------------- *)
Theorem missing_key_raises f p kids st k :
  In k (map fst kids) -> has_key k st = false ->
  from_sd (S f) p (PDict kids) (SDict st) = Err (EMissingKeys p) /\
  from_sd (S f) p (PFrozen kids) (SDict st) = Err (EMissingKeys p).
Proof.
  intros Hin Hk. cbn [from_sd].
  assert (forallb (fun kv => has_key (fst kv) st) kids = false) as ->; [|auto].
  apply in_map_iff in Hin as ([k' t] & <- & Hin). destruct (forallb _ kids) eqn:E; [|reflexivity].
  rewrite forallb_forall in E. specialize (E _ Hin). simpl in E, Hk. congruence.
Qed.

Theorem length_mismatch_raises f p xs st :
  length st <> length xs ->
  from_sd (S f) p (PList xs) (SDict st) = Err (ELength p) /\ from_sd (S f) p (PTuple xs) (SDict st) = Err (ELength p).
Proof. intros H. cbn [from_sd]. apply Nat.eqb_neq in H. rewrite H. auto. Qed.

Theorem field_mismatch_raises f p ty fields st :
  keyset_eq (map fst st) (map fst fields) = false -> from_sd (S f) p (PNamed ty fields) (SDict st) = Err (EFields p).
Proof. intros H. cbn [from_sd]. now rewrite H. Qed.

Theorem dataclass_mismatch_raises f p c fields st k :
  (In k (map fst fields) /\ has_key k st = false) \/ (In k (map fst st) /\ existsb (key_eqb k) (map fst fields) = false) ->
  from_sd (S f) p (PData c fields) (SDict st) = Err (EFields p).
Proof.
  intros H. cbn [from_sd].
  assert (forallb (fun kv => has_key (fst kv) st) fields && forallb (fun k => existsb (key_eqb k) (map fst fields)) (map fst st) = false) as ->; [|reflexivity].
  apply andb_false_iff. destruct H as [[Hin Hk]|[Hin Hk]]; [left|right].
  - apply in_map_iff in Hin as ([k' t] & <- & Hin). destruct (forallb _ fields) eqn:E; [|reflexivity].
    rewrite forallb_forall in E. specialize (E _ Hin). simpl in E, Hk. congruence.
  - destruct (forallb _ (map fst st)) eqn:E; [|reflexivity]. rewrite forallb_forall in E. specialize (E _ Hin). congruence.
Qed.

Lemma forallb_ext {A} (f g : A -> bool) l : (forall x, f x = g x) -> forallb f l = forallb g l.
Proof. intros H. induction l as [|x r IH]; simpl; [reflexivity|]. now rewrite H, IH. Qed.

(* by key, never by position: the order of the saved dict's entries is irrelevant *)
Lemma sd_lookup_perm k (a b : list (key * sd)) :
  Permutation a b -> NoDup (map fst a) -> sd_lookup k a = sd_lookup k b.
Proof.
  intros HP. induction HP as [|[k1 v1] a b HP IH|[k1 v1] [k2 v2] a|a b c H1 IH1 H2 IH2]; intros ND.
  - reflexivity.
  - simpl. inversion ND; subst. destruct (key_eqb k k1); [reflexivity|now apply IH].
  - simpl. destruct (key_eqb k k1) eqn:E1, (key_eqb k k2) eqn:E2; try reflexivity.
    apply key_eqb_eq in E1, E2. subst. inversion ND as [|? ? Hn _]; subst. exfalso. apply Hn. simpl; auto.
  - rewrite IH1 by assumption. apply IH2. eapply Permutation_NoDup; [|exact ND]. now apply Permutation_map.
Qed.

Lemma has_key_lookup k st : has_key k st = match sd_lookup k st with Some _ => true | None => false end.
Proof. unfold has_key. induction st as [|[k' v] r IH]; simpl; [reflexivity|]. destruct (key_eqb k k'); [reflexivity|exact IH]. Qed.

Lemma restore_fields_ext F p kids st1 st2 :
  (forall k, sd_lookup k st1 = sd_lookup k st2) -> restore_fields F p kids st1 = restore_fields F p kids st2.
Proof. intros H. induction kids as [|[k t] r IH]; simpl; [reflexivity|]. now rewrite H, IH. Qed.
Lemma restore_items_ext F p xs st1 st2 : forall i,
  (forall k, sd_lookup k st1 = sd_lookup k st2) -> restore_items F p i xs st1 = restore_items F p i xs st2.
Proof. induction xs as [|t r IH]; intros i H; simpl; [reflexivity|]. now rewrite H, IH. Qed.

Theorem restore_by_key fuel p t st1 st2 :
  (forall l, t <> PLeaf l) ->
  Permutation st1 st2 -> NoDup (map fst st1) -> from_sd fuel p t (SDict st1) = from_sd fuel p t (SDict st2).
Proof.
  intros HnL HP ND. pose proof (fun k => sd_lookup_perm k st1 st2 HP ND) as HL.
  assert (HK : forall (kids : list (key * ptree)), forallb (fun kv => has_key (fst kv) st1) kids = forallb (fun kv => has_key (fst kv) st2) kids).
  { intros kids. apply forallb_ext. intros kv. now rewrite !has_key_lookup, HL. }
  assert (Hlen : length st1 = length st2) by now apply Permutation_length.
  destruct fuel as [|f]; [reflexivity|]. destruct t; cbn [from_sd]; try reflexivity.
  - exfalso. now apply (HnL l).
  - rewrite HK, (restore_fields_ext _ _ _ _ _ HL). reflexivity.
  - rewrite HK, (restore_fields_ext _ _ _ _ _ HL). reflexivity.
  - rewrite Hlen, (restore_items_ext _ _ _ _ _ 0 HL). reflexivity.
  - rewrite Hlen, (restore_items_ext _ _ _ _ _ 0 HL). reflexivity.
  - rewrite (restore_fields_ext _ _ _ _ _ HL).
    replace (keyset_eq (map fst st1) (map fst fields)) with (keyset_eq (map fst st2) (map fst fields)); [reflexivity|].
    unfold keyset_eq. f_equal.
    + assert (Permutation (map fst st2) (map fst st1)) as PM by (apply Permutation_map; now apply Permutation_sym).
      clear -PM. induction PM; simpl; auto; try (rewrite IHPM; reflexivity).
      * destruct (existsb (key_eqb x) (map fst fields)), (existsb (key_eqb y) (map fst fields)); reflexivity.
      * congruence.
    + apply forallb_ext. intros k.
      assert (G : forall l, existsb (key_eqb k) (map fst l) = has_key k l) by (intros l; unfold has_key; now rewrite existsb_map || (induction l as [|[? ?] ? IHl]; simpl; [reflexivity|now rewrite IHl])).
      rewrite !G, !has_key_lookup. now rewrite HL.
  - rewrite HK, (restore_fields_ext _ _ _ _ _ HL).
    replace (forallb (fun k => existsb (key_eqb k) (map fst fields)) (map fst st1))
       with (forallb (fun k => existsb (key_eqb k) (map fst fields)) (map fst st2)); [reflexivity|].
    assert (Permutation (map fst st2) (map fst st1)) as PM by (apply Permutation_map; now apply Permutation_sym).
    clear -PM. induction PM; simpl; auto; try (rewrite IHPM; reflexivity).
    * destruct (existsb (key_eqb x) (map fst fields)), (existsb (key_eqb y) (map fst fields)); reflexivity.
    * congruence.
Qed.
