(* Proofs about Model/Lift.v (lift.pack): what a lifted function can see and change. *)
From Coq Require Import Lia.
From Flaxm Require Import Lib.Harness Model.Filters Model.Linen Model.Bridge Model.Lift Proofs.Filters Proofs.Bridge.

Lemma any_filter_cons f r c : any_filter (f :: r) c = in_filter f c || any_filter r c.
Proof. reflexivity. Qed.

(* group_collections is a first-match partition: together the groups hold exactly the collections some filter matches *)
Lemma cgroup_in fs : forall xs cv, In cv (concat (cgroup xs fs)) <-> In cv xs /\ any_filter fs (fst cv) = true.
Proof.
  induction fs as [|f r IH]; intros xs cv; cbn [cgroup concat].
  - split; [intros []|intros [_ H]; discriminate].
  - rewrite in_app_iff, IH, !filter_In, any_filter_cons. destruct (in_filter f (fst cv)); simpl; intuition discriminate.
Qed.
Lemma cgroup_sub fs : forall xs g cv, In g (cgroup xs fs) -> In cv g -> In cv xs.
Proof.
  induction fs as [|f r IH]; intros xs g cv; cbn [cgroup]; [intros []|].
  intros [<-|Hg] Hcv; [now apply filter_In in Hcv|]. specialize (IH _ _ _ Hg Hcv). now apply filter_In in IH.
Qed.
Lemma cgroup_first_match fs : forall xs i g cv, nth_error (cgroup xs fs) i = Some g -> In cv g ->
  (exists f, nth_error fs i = Some f /\ in_filter f (fst cv) = true) /\
  (forall j h, j < i -> nth_error fs j = Some h -> in_filter h (fst cv) = false).
Proof.
  induction fs as [|f r IH]; intros xs i g cv; cbn [cgroup]; [destruct i; discriminate|].
  destruct i as [|i]; cbn [nth_error].
  - intros H Hcv. inversion H; subst. apply filter_In in Hcv as [_ Hf]. split; [eauto|]. intros j h Hj; lia.
  - intros H Hcv. destruct (IH _ _ _ _ H Hcv) as [A B]. split; [exact A|].
    intros [|j] h Hj Hn; cbn [nth_error] in Hn.
    + inversion Hn; subst. pose proof (cgroup_sub _ _ _ _ (nth_error_In _ _ H) Hcv) as X. apply filter_In in X as [_ X].
      now apply negb_true_iff in X.
    + apply (B j h); [lia|exact Hn].
Qed.

(* a collection no `variables` filter matches does not exist inside the lifted function *)
Theorem unlifted_absent xs in_fs c k : any_filter in_fs c = false -> ~ In (c, k) (inner_vars xs in_fs).
Proof. intros H Hin. apply cgroup_in in Hin as [_ X]. simpl in X. congruence. Qed.
(* ... and what is inside is what the outer scope holds *)
Theorem lifted_present xs in_fs cv : In cv (inner_vars xs in_fs) <-> In cv xs /\ any_filter in_fs (fst cv) = true.
Proof. apply cgroup_in. Qed.

Lemma cv_get_set c c' k xs : cv_get c (cv_set c' k xs) = if N.eqb c c' then Some k else cv_get c xs.
Proof.
  induction xs as [|[d k'] xs IH]; cbn [cv_set cv_get]; [reflexivity|].
  destruct (N.eqb_spec c' d) as [->|Hne]; cbn [cv_get].
  - destruct (N.eqb c d); reflexivity.
  - rewrite IH. destruct (N.eqb_spec c d) as [->|Hne2]; [|reflexivity].
    destruct (N.eqb_spec d c'); [congruence|reflexivity].
Qed.

Lemma publish_frame om out : forall xs c, (forall k, In (c, k) out -> om c = false) -> cv_get c (publish om xs out) = cv_get c xs.
Proof.
  unfold publish. induction out as [|[d k] out IH]; intros xs c H; cbn [fold_left]; [reflexivity|].
  rewrite IH by (intros k0 Hk; apply (H k0); now right). cbn [fst snd].
  destruct (om d) eqn:Eo; [|reflexivity]. rewrite cv_get_set. destruct (N.eqb_spec c d) as [->|Hne]; [|reflexivity].
  rewrite (H k (or_introl eq_refl)) in Eo. discriminate.
Qed.

Lemma last_cgroup fs : forall xs, last (cgroup xs (fs ++ [FBool true])) [] = filter (fun cv => negb (any_filter fs (fst cv))) xs.
Proof.
  induction fs as [|f r IH]; intros xs.
  - cbn. apply filter_ext. intros cv. reflexivity.
  - cbn [app cgroup].
    assert (L : forall a (l : list cvars), l <> [] -> last (a :: l) [] = last l []) by (intros a [|b l] H; [contradiction|reflexivity]).
    rewrite L by (destruct r; discriminate).
    rewrite IH, filter_filter. apply filter_ext. intros cv. rewrite any_filter_cons, negb_orb. reflexivity.
Qed.

Section PackFacts.
  Variable Y : Type.
  Variable body : cvars -> (N -> bool) -> option (Y * cvars).

  (* the "unmapped output variables" error of repack cannot fire: everything the inner scope may mutate is matched by an
     out filter, by the very definition of the inner scope's mutability *)
  Theorem pack_never_unmapped om in_fs out_fs mf xs : pack Y body om in_fs out_fs mf xs <> PUnmapped Y.
  Proof.
    unfold pack. destruct (body (inner_vars xs in_fs) (inner_mutable om out_fs mf)) as [[y inner']|]; [|discriminate].
    rewrite last_cgroup, filter_filter.
    rewrite (filter_ext _ (fun _ => false)).
    - assert (E : forall l : cvars, filter (fun _ => false) l = []) by (induction l; auto). rewrite E. discriminate.
    - intros cv. unfold inner_mutable. destruct (om (fst cv)), (any_filter out_fs (fst cv)), (mf (fst cv)); reflexivity.
  Qed.

  Lemma removelast_in {A} (l : list A) x : In x (removelast l) -> In x l.
  Proof. induction l as [|a [|b r] IH]; simpl; [tauto|tauto|]. intros [H|H]; [now left|right; now apply IH]. Qed.

  (* collections that are not lifted, not mutable in the calling scope, not named by an out filter, or excluded by the
     transform's own mutable_filter come out exactly as they went in, whatever the transformed function does *)
  Theorem pack_untouched om in_fs out_fs mf xs y xs' c :
    pack Y body om in_fs out_fs mf xs = POk Y y xs' -> inner_mutable om out_fs mf c = false -> cv_get c xs' = cv_get c xs.
  Proof.
    unfold pack. destruct (body (inner_vars xs in_fs) (inner_mutable om out_fs mf)) as [[y0 inner']|]; [|discriminate].
    match goal with |- context[last ?l []] => destruct (last l []) end; [|discriminate]. intros H Him. inversion H; subst. apply publish_frame.
    intros k Hin. apply in_concat in Hin as (g & Hg & Hk). apply removelast_in in Hg.
    pose proof (cgroup_sub _ _ _ _ Hg Hk) as X. apply filter_In in X as [_ X]. simpl in X. congruence.
  Qed.

  (* with the default filters (variables=True in and out) the transformed function sees exactly the calling scope's
     variables and mutability *)
  Theorem pack_default_view om xs : inner_vars xs [FBool true] = xs /\ forall c, inner_mutable om [FBool true] (fun _ => true) c = om c.
  Proof.
    split.
    - unfold inner_vars. cbn. rewrite app_nil_r. induction xs as [|a l IH]; simpl; [reflexivity|]. now rewrite IH.
    - intros c. unfold inner_mutable, any_filter. cbn. destruct (om c); reflexivity.
  Qed.
End PackFacts.

(* publish writes entry by entry: an entry the function returned overrides, every other entry of the collection stays *)
Lemma nassoc_nset k k' v kids0 : nassoc k (nset k' v kids0) = if name_eqb k k' then Some v else nassoc k kids0.
Proof.
  induction kids0 as [|[q w] r IH]; cbn [nset nassoc]; [reflexivity|].
  destruct (name_eqb k' q) eqn:E; cbn [nassoc].
  - apply name_eqb_eq in E; subst q. destruct (name_eqb k k'); reflexivity.
  - rewrite IH. destruct (name_eqb k q) eqn:E2; [|reflexivity]. apply name_eqb_eq in E2; subst q.
    destruct (name_eqb k k') eqn:E3; [|reflexivity]. apply name_eqb_eq in E3; subst. 
    assert (name_eqb k' k' = true) by now apply name_eqb_eq. congruence.
Qed.
Theorem put_entries_get new : forall old k, NoDup (map fst new) ->
  nassoc k (put_entries old new) = match nassoc k new with Some v => Some v | None => nassoc k old end.
Proof.
  unfold put_entries. induction new as [|[q w] r IH]; intros old k N; cbn [fold_left nassoc]; [reflexivity|].
  inversion N; subst. rewrite IH by assumption. cbn [fst snd]. rewrite nassoc_nset.
  destruct (name_eqb k q) eqn:E; [|reflexivity]. apply name_eqb_eq in E; subst q.
  assert (X : nassoc k r = None).
  { clear - H1. induction r as [|[q w] r IH]; simpl; [reflexivity|]. destruct (name_eqb k q) eqn:E.
    - apply name_eqb_eq in E; subst. exfalso. apply H1. now left.
    - apply IH. intros H. apply H1. now right. }
  now rewrite X.
Qed.

(* ---------------- In / Out markers ---------------- *)
Lemma in_filters_spec xs f : In f (in_filters xs) <-> exists m, In (f, m) xs /\ is_out m = false.
Proof.
  unfold in_filters, split_in_out. cbn [fst]. rewrite map_map. cbn [fst]. rewrite in_map_iff. split.
  - intros [[g m] [E H]]. cbn [fst] in E. subst g. apply filter_In in H. destruct H as [H1 H2]. exists m. split; [exact H1|].
    cbn [snd] in H2. now apply negb_true_iff in H2.
  - intros [m [H1 H2]]. exists (f, m). split; [reflexivity|]. apply filter_In. split; [exact H1|]. cbn [snd]. now rewrite H2.
Qed.
Lemma out_filters_spec xs f : In f (out_filters xs) <-> exists m, In (f, m) xs /\ is_in m = false.
Proof.
  unfold out_filters, split_in_out. cbn [snd]. rewrite map_map. cbn [fst]. rewrite in_map_iff. split.
  - intros [[g m] [E H]]. cbn [fst] in E. subst g. apply filter_In in H. destruct H as [H1 H2]. exists m. split; [exact H1|].
    cbn [snd] in H2. now apply negb_true_iff in H2.
  - intros [m [H1 H2]]. exists (f, m). split; [reflexivity|]. apply filter_In. split; [exact H1|]. cbn [snd]. now rewrite H2.
Qed.

(* a collection that only Out(axis) entries match is not handed to the mapped / scanned function at all: every index or
   iteration starts without it, whatever the caller passes in *)
Theorem out_only_not_lifted_in xs vars cv :
  (forall f m, In (f, m) xs -> in_filter f (fst cv) = true -> is_out m = true) -> ~ In cv (inner_vars vars (in_filters xs)).
Proof.
  intros H C. apply lifted_present in C. destruct C as [_ C]. unfold any_filter in C. apply existsb_exists in C.
  destruct C as [f [Hf Hm]]. apply in_filters_spec in Hf. destruct Hf as [m [Hin Ho]]. specialize (H f m Hin Hm). congruence.
Qed.

(* a collection that only In(axis) entries match is read-only inside and comes back unchanged, whatever the function does *)
Theorem in_only_not_written_back Y body om xs mf vars y vars' c :
  pack Y body om (in_filters xs) (out_filters xs) mf vars = POk Y y vars' ->
  (forall f m, In (f, m) xs -> in_filter f c = true -> is_in m = true) -> cv_get c vars' = cv_get c vars.
Proof.
  intros HP H. apply (pack_untouched Y body om (in_filters xs) (out_filters xs) mf vars y vars' c HP).
  unfold inner_mutable. destruct (any_filter (out_filters xs) c) eqn:E; [|now rewrite andb_false_r].
  exfalso. unfold any_filter in E. apply existsb_exists in E. destruct E as [f [Hf Hm]]. apply out_filters_spec in Hf.
  destruct Hf as [m [Hin Hi]]. specialize (H f m Hin Hm). congruence.
Qed.

(* an entry without a marker is both *)
Theorem unmarked_is_both xs f a : In (f, AxBoth a) xs -> In f (in_filters xs) /\ In f (out_filters xs).
Proof. intros H. split; [apply in_filters_spec|apply out_filters_spec]; exists (AxBoth a); split; [exact H|reflexivity | exact H | reflexivity]. Qed.
