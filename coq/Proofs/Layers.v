(* Proofs about Model/Layers.v. *)
From Coq Require Import Lia ZArith QArith Qabs Qfield ZifyNat Lqa.
From Flaxm Require Import Lib.Harness Model.Layers.
Ltac Zify.zify_post_hook ::= Z.div_mod_to_equations.
Open Scope Z_scope.

(* ------------------------------------------------------------------------------------------------ *)
(* 1. pre-padding then VALID convolution is the documented formula with the boundary rule            *)
Lemma pad_length m lo hi x : length (pad_sig m lo hi x) = (lo + length x + hi)%nat.
Proof. unfold pad_sig. now rewrite map_length, seq_length. Qed.

Lemma ext_row_pad m lo hi x j : (j < lo + length x + hi)%nat ->
  ext_row PZero (pad_sig m lo hi x) (Z.of_nat j) = ext_row m x (Z.of_nat j - Z.of_nat lo).
Proof.
  intros Hj. unfold ext_row at 1. unfold ext_index. rewrite pad_length.
  destruct ((0 <=? Z.of_nat j) && (Z.of_nat j <? Z.of_nat (lo + length x + hi))) eqn:E.
  - rewrite Nat2Z.id. unfold pad_sig.
    rewrite (nth_indep _ [] ((fun j0 => ext_row m x (Z.of_nat j0 - Z.of_nat lo)) 0%nat)) by (rewrite map_length, seq_length; lia).
    rewrite (map_nth (fun j0 => ext_row m x (Z.of_nat j0 - Z.of_nat lo))), seq_nth by lia. reflexivity.
  - apply andb_false_iff in E as [E|E]; [apply Z.leb_gt in E|apply Z.ltb_ge in E]; lia.
Qed.

Lemma mul_div_le_nat a b : (b <> 0 -> a / b * b <= a)%nat.
Proof. intros H. pose proof (Nat.div_mod a b H). rewrite Nat.mul_comm. lia. Qed.

Theorem conv_impl_is_spec c m lo hi x :
  (cv_stride c <> 0)%nat -> (keff c <= length x + lo + hi)%nat -> (ksize c <> 0)%nat ->
  conv_impl c m lo hi x = conv_spec c m (Z.of_nat lo) (out_len (length x) lo hi c) x.
Proof.
  intros Hs Hk Hk0. unfold conv_impl, conv_spec. apply map_ext_in. intros o Ho. apply in_seq in Ho.
  apply map_ext_in. intros f _. unfold conv_out. f_equal. f_equal. apply map_ext_in. intros t Ht. apply in_seq in Ht.
  rewrite Z.sub_0_r. rewrite ext_row_pad; [reflexivity|].
  unfold out_len in Ho. unfold keff in *.
  pose proof (mul_div_le_nat (length x + lo + hi - ((ksize c - 1) * cv_dil c + 1)) (cv_stride c) Hs) as D.
  assert (o * cv_stride c <= (length x + lo + hi - ((ksize c - 1) * cv_dil c + 1)) / cv_stride c * cv_stride c)%nat by (apply Nat.mul_le_mono_r; lia).
  assert (t * cv_dil c <= (ksize c - 1) * cv_dil c)%nat by (apply Nat.mul_le_mono_r; lia).
  lia.
Qed.

(* ------------------------------------------------------------------------------------------------ *)
(* 2. CAUSAL padding: an output position does not depend on later inputs                              *)
Lemma ext_row_zero_agree (x x' : sig) i b : length x = length x' -> i <= b ->
  (forall j, (Z.of_nat j <= b) -> nth j x [] = nth j x' []) -> ext_row PZero x i = ext_row PZero x' i.
Proof.
  intros L Hi A. unfold ext_row, ext_index. rewrite <- L.
  destruct ((0 <=? i) && (i <? Z.of_nat (length x))) eqn:E; [|reflexivity].
  apply andb_true_iff in E as [E1 E2]. apply Z.leb_le in E1. apply A. rewrite Z2Nat.id; lia.
Qed.

Theorem conv_causal_no_future c x x' o f :
  length x = length x' ->
  (forall j, (j <= o * cv_stride c)%nat -> nth j x [] = nth j x' []) ->
  conv_out c PZero (Z.of_nat (cv_dil c * (ksize c - 1))) x o f = conv_out c PZero (Z.of_nat (cv_dil c * (ksize c - 1))) x' o f.
Proof.
  intros L A. unfold conv_out. f_equal. f_equal. apply map_ext_in. intros t Ht. apply in_seq in Ht.
  rewrite (ext_row_zero_agree x x' _ (Z.of_nat (o * cv_stride c)) L); [reflexivity| |].
  - assert (Hle : (t * cv_dil c <= cv_dil c * (ksize c - 1))%nat) by (rewrite (Nat.mul_comm (cv_dil c)); apply Nat.mul_le_mono_r; lia).
    remember (t * cv_dil c)%nat as A0. remember (cv_dil c * (ksize c - 1))%nat as B0. remember (o * cv_stride c)%nat as C0. clear - Hle. lia.
  - intros j Hj. apply A. now apply Nat2Z.inj_le.
Qed.

(* ------------------------------------------------------------------------------------------------ *)
(* 3. SAME padding gives ceil(n / stride) outputs                                                      *)
Theorem same_out_len c n : (cv_stride c <> 0)%nat -> (n <> 0)%nat ->
  let '(_, lo, hi) := pads_of PadSame n c in out_len n lo hi c = ceil_div n (cv_stride c).
Proof.
  intros Hs Hn. cbn [pads_of]. unfold out_len, ceil_div.
  set (s := cv_stride c) in *. set (k := keff c). assert (Hk : (1 <= k)%nat) by (unfold k, keff; apply Nat.le_add_l).
  set (q := ((n + s - 1) / s)%nat).
  assert (Hq : (q * s <= n + s - 1 < q * s + s)%nat).
  { unfold q. pose proof (Nat.div_mod (n + s - 1) s Hs). pose proof (Nat.mod_upper_bound (n + s - 1) s Hs). rewrite (Nat.mul_comm s) in H. lia. }
  assert (Hq1 : (1 <= q)%nat). { destruct q; [lia|lia]. }
  set (total := ((q - 1) * s + k - n)%nat).
  assert (Ht : (total / 2 + (total - total / 2) = total)%nat). { pose proof (Nat.div_mod total 2). pose proof (Nat.mod_upper_bound total 2). lia. }
  replace (n + total / 2 + (total - total / 2))%nat with (n + total)%nat by lia.
  assert (Eq : ((n + total - k) / s = q - 1)%nat).
  { symmetry. apply (Nat.div_unique (n + total - k) s (q - 1) ((n + total - k) - s * (q - 1))).
    - unfold total. assert ((q - 1) * s = q * s - s)%nat by (rewrite Nat.mul_sub_distr_r; lia). rewrite (Nat.mul_comm s). lia.
    - unfold total. assert ((q - 1) * s = q * s - s)%nat by (rewrite Nat.mul_sub_distr_r; lia). rewrite (Nat.mul_comm s). lia. }
  rewrite Eq. lia.
Qed.

(* ------------------------------------------------------------------------------------------------ *)
(* 4. pooling                                                                                          *)
Lemma fold_max_spec r : forall a, let m := fold_left Z.max r a in (m = a \/ In m r) /\ a <= m /\ forall z, In z r -> z <= m.
Proof.
  induction r as [|b r IH]; intros a; cbn [fold_left].
  - split; [now left|]. split; [lia|]. intros z [].
  - destruct (IH (Z.max a b)) as ([E|E] & Hle & Hall).
    + split; [|split].
      * rewrite E. destruct (Z.max_spec a b) as [[_ ->]|[_ ->]]; [right; now left|now left].
      * lia.
      * intros z [<-|Hz]; [lia|now apply Hall].
    + split; [right; now right|]. split; [lia|]. intros z [<-|Hz]; [lia|now apply Hall].
Qed.
(* max pooling returns an element of the window that bounds every element of the window *)
Theorem max_list_spec l m : max_list l = Some m -> In m l /\ forall z, In z l -> z <= m.
Proof.
  destruct l as [|a r]; [discriminate|]. cbn [max_list]. intros H; inversion H; subst; clear H.
  destruct (fold_max_spec r a) as ([E|E] & Hle & Hall).
  - split; [left; now rewrite E|]. intros z [<-|Hz]; [exact Hle|now apply Hall].
  - split; [now right|]. intros z [<-|Hz]; [exact Hle|now apply Hall].
Qed.
(* a window that lies entirely in the padding has no valid element: max / min give the identity (-inf / +inf), the
   non-padded average divides by zero *)
Theorem empty_window x w s lo o : (forall t, (t < w)%nat -> ext_index PZero (length x) (Z.of_nat (o * s + t) - Z.of_nat lo) = None) -> window_vals x w s lo o = [].
Proof.
  intros H. unfold window_vals. induction (seq 0 w) as [|t r IH] eqn:E; [reflexivity|].
  assert (G : forall l, (forall t, In t l -> (t < w)%nat) -> concat (map (fun t => match ext_index PZero (length x) (Z.of_nat (o * s + t) - Z.of_nat lo) with Some j => [nth j x 0] | None => [] end) l) = []).
  { induction l as [|a l IHl]; intros Hl; [reflexivity|]. cbn [map concat]. rewrite (H a) by (apply Hl; now left). cbn. apply IHl. intros t0 Ht0. apply Hl. now right. }
  apply G. intros t0 Ht0. rewrite <- E in Ht0. apply in_seq in Ht0. lia.
Qed.

(* ------------------------------------------------------------------------------------------------ *)
(* 5. Embed                                                                                            *)
Theorem embed_lookup_nth table ids j : (j < length ids)%nat -> nth j (embed_lookup table ids) [] = nth (nth j ids 0%nat) table [].
Proof. intros H. unfold embed_lookup. rewrite (nth_indep _ [] ((fun i => nth i table []) 0%nat)) by now rewrite map_length. now rewrite (map_nth (fun i => nth i table [])). Qed.

(* ------------------------------------------------------------------------------------------------ *)
(* 6. normalisation statistics                                                                         *)
(* masked positions cannot influence the statistics *)
Theorem stats_mask_noninterference xs xs' mask : length xs = length xs' ->
  (forall j, nth j mask false = true -> nth j xs 0 = nth j xs' 0) -> stats xs mask = stats xs' mask.
Proof.
  intros L A. unfold stats. assert (E : valid xs mask = valid xs' mask).
  { unfold valid. revert xs' mask L A. induction xs as [|a r IH]; intros [|a' r'] mask L A; try discriminate; [reflexivity|].
    destruct mask as [|b mask]; [reflexivity|]. cbn [combine filter map snd fst].
    assert (Er : map fst (filter snd (combine r mask)) = map fst (filter snd (combine r' mask))).
    { apply IH; [simpl in L; lia|]. intros j Hj. exact (A (S j) Hj). }
    destruct b; cbn [map fst]; [|exact Er]. rewrite Er. f_equal. exact (A 0%nat eq_refl). }
  now rewrite E.
Qed.

Open Scope Q_scope.
Lemma qsum_shift (v : list Z) (c : Q) : qsum (map (fun z => inject_Z z - c) v) == qsum (map inject_Z v) - inject_Z (Z.of_nat (length v)) * c.
Proof.
  induction v as [|a r IH]; cbn [map qsum fold_right length].
  - unfold qsum; simpl. ring.
  - fold (qsum (map (fun z => inject_Z z - c) r)). fold (qsum (map inject_Z r)). rewrite IH.
    rewrite Nat2Z.inj_succ. unfold Z.succ. rewrite inject_Z_plus. ring.
Qed.
(* the normalised values of LayerNorm are centred: the deviations from the mean of the unmasked elements sum to zero *)
Theorem layernorm_centered v : v <> [] -> qsum (map (fun z => inject_Z z - qmean v) v) == 0.
Proof.
  intros H. rewrite qsum_shift. unfold qmean.
  assert (N : ~ inject_Z (Z.of_nat (length v)) == 0).
  { destruct v; [contradiction|]. simpl length. rewrite Nat2Z.inj_succ. unfold Qeq. simpl. lia. }
  field. exact N.
Qed.
(* BatchNorm's running statistics: momentum 1 keeps the old value, momentum 0 takes the batch statistic *)
Theorem running_extremes old batch : running 1 old batch == old /\ running 0 old batch == batch.
Proof. unfold running. split; ring. Qed.

(* ------------------------------------------------------------------------------------------------ *)
(* the normalised output without square roots: at tolerance 0 the check says that y - bias is the root of
   (y - bias)^2 (var + eps) = scale^2 (x - mean)^2 with the sign of scale (x - mean)                     *)
Lemma qclose_exact x y : qclose 0 x y = true -> x == y.
Proof.
  unfold qclose. intros H. apply Qle_bool_imp_le in H. rewrite Qmult_0_l in H.
  assert (A : x - y <= 0) by (eapply Qle_trans; [apply Qle_Qabs|exact H]).
  assert (B : - (x - y) <= 0) by (eapply Qle_trans; [apply Qle_Qabs|]; rewrite Qabs_opp; exact H).
  lra.
Qed.

Theorem norm_ok_exact eps x mean var scale bias y : norm_ok 0 eps x mean var scale bias y = true ->
  (y - bias) * (y - bias) * (var + eps) == scale * scale * ((x - mean) * (x - mean)) /\ 0 <= (y - bias) * scale * (x - mean).
Proof.
  unfold norm_ok. intros H. apply andb_true_iff in H as [H1 H2]. split; [now apply qclose_exact|].
  apply Qle_bool_imp_le in H2. lra.
Qed.

(* ---------------- DenseGeneral ---------------- *)
From Coq Require Import Permutation.
From Flaxm Require Import Model.NdIndex Proofs.NdIndex.

(* the order in which the contracted axes are written does not matter: kernel dimensions follow the axes in ascending order *)
Theorem dense_general_axes_order xshape axes axes' fshape x k bias : Permutation axes axes' ->
  dense_general xshape axes fshape x k bias = dense_general xshape axes' fshape x k bias.
Proof. intros H. unfold dense_general. now rewrite (nsort_perm_eq _ _ H). Qed.

Theorem dense_general_length xshape axes fshape x k bias :
  length (dense_general xshape axes fshape x k bias) = prod (dense_general_oshape xshape axes fshape).
Proof. unfold dense_general, dense_general_oshape. cbv zeta. now rewrite map_length, seq_length. Qed.
