(* Proofs about Model/Bridge.v: the registry stays a bijection, merging updates changes exactly the updated leaves,
   regrouping attributes by type is faithful, and the attribute tree of a module without cross-collection name reuse
   converts back to its variables. *)
From Coq Require Import Lia.
From Flaxm Require Import Lib.Harness Model.Filters Model.Linen Model.Bridge.

(* ------------------------------------------------------------------------------------------------ *)
(* 1. registry                                                                                       *)
Lemma type_of_name_app r q nm : type_of_name (r ++ q) nm = match type_of_name r nm with Some t => Some t | None => type_of_name q nm end.
Proof. induction r as [|[n t] r IH]; simpl; [reflexivity|]. destruct (N.eqb n nm); auto. Qed.
Lemma name_of_type_app r q t : name_of_type (r ++ q) t = match name_of_type r t with Some n => Some n | None => name_of_type q t end.
Proof. induction r as [|[n t'] r IH]; simpl; [reflexivity|]. destruct (N.eqb t' t); auto. Qed.
Lemma type_of_name_none r nm : type_of_name r nm = None -> ~ In nm (map fst r).
Proof. induction r as [|[n t] r IH]; simpl; [tauto|]. destruct (N.eqb_spec n nm); [discriminate|]. intros H [E|E]; [congruence|]. now apply IH. Qed.
Lemma name_of_type_none r t : name_of_type r t = None -> ~ In t (map snd r).
Proof. induction r as [|[n t'] r IH]; simpl; [tauto|]. destruct (N.eqb_spec t' t); [discriminate|]. intros H [E|E]; [congruence|]. now apply IH. Qed.
Lemma type_of_name_in r nm t : type_of_name r nm = Some t -> In (nm, t) r.
Proof. induction r as [|[n t'] r IH]; simpl; [discriminate|]. destruct (N.eqb_spec n nm); [intros H; inversion H; subst; now left|]. intros H; right; now apply IH. Qed.
Lemma name_of_type_in r t nm : name_of_type r t = Some nm -> In (nm, t) r.
Proof. induction r as [|[n t'] r IH]; simpl; [discriminate|]. destruct (N.eqb_spec t' t); [intros H; inversion H; subst; now left|]. intros H; right; now apply IH. Qed.

(* in an injective registry a pair determines both lookups *)
Lemma inj_lookup r nm t : reg_inj r -> In (nm, t) r -> type_of_name r nm = Some t /\ name_of_type r t = Some nm.
Proof.
  intros [N1 N2]. induction r as [|[n t'] r IH]; simpl; [tauto|]. inversion N1; inversion N2; subst. intros [E|E].
  - inversion E; subst. now rewrite !N.eqb_refl.
  - destruct (N.eqb_spec n nm) as [->|_]; [exfalso; apply H1; apply in_map_iff; exists (nm, t); auto|].
    destruct (N.eqb_spec t' t) as [->|_]; [exfalso; apply H5; apply in_map_iff; exists (nm, t); auto|]. now apply IH.
Qed.

Lemma fresh_gt r t : In t (map snd r) -> (t < fresh r)%N.
Proof. unfold fresh. induction r as [|[n t'] r IH]; simpl; [tauto|]. intros [<-|H]; [lia|]. specialize (IH H). lia. Qed.

Theorem type_from_name_spec r nm t r' : reg_inj r -> type_from_name r nm = (t, r') ->
  reg_inj r' /\ type_of_name r' nm = Some t /\ name_of_type r' t = Some nm /\ (forall n0 t0, In (n0, t0) r -> In (n0, t0) r').
Proof.
  intros I. unfold type_from_name. destruct (type_of_name r nm) as [t0|] eqn:E; intros H; inversion H; subst; clear H.
  - destruct (inj_lookup _ _ _ I (type_of_name_in _ _ _ E)) as [A B]. auto.
  - destruct I as [N1 N2].
    assert (Fr : ~ In (fresh r) (map snd r)). { intros Hin. pose proof (fresh_gt _ _ Hin). lia. }
    assert (I' : reg_inj (r ++ [(nm, fresh r)])).
    { split; rewrite map_app; simpl; apply NoDup_app_remove_l with (l := []) || idtac.
      - clear - N1 E. apply type_of_name_none in E. induction (map fst r) as [|a l IH]; simpl; [constructor; [tauto|constructor]|].
        inversion N1; subst. constructor; [|apply IH; auto; intros H; apply E; now right].
        intros H. apply in_app_or in H as [H|[H|[]]]; [tauto|]. subst. apply E. now left.
      - clear - N2 Fr. induction (map snd r) as [|a l IH]; simpl; [constructor; [tauto|constructor]|].
        inversion N2; subst. constructor; [|apply IH; auto; intros H; apply Fr; now right].
        intros H. apply in_app_or in H as [H|[H|[]]]; [tauto|]. subst. apply Fr. now left. }
    split; [exact I'|]. destruct (inj_lookup _ nm (fresh r) I') as [A B]; [apply in_or_app; right; now left|].
    split; [exact A|]. split; [exact B|]. intros n0 t0 H. apply in_or_app. now left.
Qed.

Theorem name_from_type_spec r t cn n r' : reg_inj r -> name_from_type r t cn = Some (n, r') ->
  reg_inj r' /\ type_of_name r' n = Some t /\ name_of_type r' t = Some n.
Proof.
  intros I. unfold name_from_type. destruct (name_of_type r t) as [n0|] eqn:E.
  - intros H; inversion H; subst. destruct (inj_lookup _ _ _ I (name_of_type_in _ _ _ E)) as [A B]. auto.
  - destruct (type_of_name r cn) eqn:E2; [discriminate|]. intros H; inversion H; subst; clear H.
    destruct I as [N1 N2]. apply name_of_type_none in E. apply type_of_name_none in E2.
    assert (I' : reg_inj (r ++ [(n, t)])).
    { split; rewrite map_app; simpl.
      - clear - N1 E2. induction (map fst r) as [|a l IH]; simpl; [constructor; [tauto|constructor]|].
        inversion N1; subst. constructor; [|apply IH; auto; intros H; apply E2; now right].
        intros H. apply in_app_or in H as [H|[H|[]]]; [tauto|]. subst. apply E2. now left.
      - clear - N2 E. induction (map snd r) as [|a l IH]; simpl; [constructor; [tauto|constructor]|].
        inversion N2; subst. constructor; [|apply IH; auto; intros H; apply E; now right].
        intros H. apply in_app_or in H as [H|[H|[]]]; [tauto|]. subst. apply E. now left. }
    split; [exact I'|]. apply (inj_lookup _ n t I'). apply in_or_app; right; now left.
Qed.

(* ------------------------------------------------------------------------------------------------ *)
(* 2. flat maps                                                                                      *)
Lemma name_eqb_eq a b : name_eqb a b = true <-> a = b.
Proof.
  destruct a as [x|c k], b as [y|d j]; simpl; split; intros H; try discriminate; try congruence.
  - apply N.eqb_eq in H. congruence.
  - inversion H. apply N.eqb_refl.
  - apply andb_true_iff in H as [H1 H2]. apply N.eqb_eq in H1. apply Nat.eqb_eq in H2. congruence.
  - inversion H. now rewrite N.eqb_refl, Nat.eqb_refl.
Qed.
Lemma path_eqb_eq a b : path_eqb a b = true <-> a = b.
Proof. unfold path_eqb. apply list_beq_spec. exact name_eqb_eq. Qed.
Lemma path_eqb_refl a : path_eqb a a = true.  Proof. now apply path_eqb_eq. Qed.
Lemma path_eqb_neq a b : a <> b -> path_eqb a b = false.
Proof. intros H. destruct (path_eqb a b) eqn:E; [apply path_eqb_eq in E; contradiction|reflexivity]. Qed.

Lemma fm_get_set {A} (m : fmap A) p v q : fm_get q (fm_set p v m) = if path_eqb q p then Some v else fm_get q m.
Proof.
  induction m as [|[r w] m IH]; simpl.
  - reflexivity.
  - destruct (path_eqb p r) eqn:E; simpl.
    + apply path_eqb_eq in E; subst r. destruct (path_eqb q p); reflexivity.
    + rewrite IH. destruct (path_eqb q r) eqn:E2; [|reflexivity].
      apply path_eqb_eq in E2; subst r. destruct (path_eqb q p) eqn:E3; [|reflexivity].
      apply path_eqb_eq in E3; subst. rewrite path_eqb_refl in E. discriminate.
Qed.
Lemma fm_get_none_notin {A} (m : fmap A) q : fm_get q m = None <-> ~ In q (map fst m).
Proof.
  induction m as [|[r w] m IH]; simpl; [tauto|]. destruct (path_eqb q r) eqn:E.
  - apply path_eqb_eq in E; subst. split; [discriminate|]. intros H; exfalso; apply H; now left.
  - rewrite IH. split; [intros H [X|X]; [subst; rewrite path_eqb_refl in E; discriminate|tauto]|tauto].
Qed.
Lemma fm_set_keys {A} (m : fmap A) p v : NoDup (map fst m) -> NoDup (map fst (fm_set p v m)).
Proof.
  induction m as [|[r w] m IH]; simpl; intros N; [constructor; [tauto|constructor]|].
  inversion N; subst. destruct (path_eqb p r) eqn:E; simpl; [now constructor|]. constructor; [|now apply IH].
  intros H. apply H1. clear - H E. induction m as [|[r' w'] m IH]; simpl in *.
  - destruct H as [H|[]]. subst. rewrite path_eqb_refl in E. discriminate.
  - destruct (path_eqb p r') eqn:E'; simpl in H; [exact H|]. destruct H as [H|H]; [now left|right; now apply IH].
Qed.

(* dict union: the right operand wins, everything else is kept *)
Theorem fm_union_get {A} (b a : fmap A) q : NoDup (map fst b) ->
  fm_get q (fm_union a b) = match fm_get q b with Some v => Some v | None => fm_get q a end.
Proof.
  unfold fm_union. revert a; induction b as [|[p v] b IH]; intros a N; simpl; [reflexivity|].
  inversion N; subst. rewrite IH by assumption. simpl. rewrite fm_get_set.
  destruct (path_eqb q p) eqn:E; [|reflexivity]. apply path_eqb_eq in E; subst q.
  apply fm_get_none_notin in H1. now rewrite H1.
Qed.

Lemma fm_union_keys {A} (b a : fmap A) : NoDup (map fst a) -> NoDup (map fst (fm_union a b)).
Proof. unfold fm_union. revert a; induction b as [|[p v] b IH]; intros a N; simpl; [exact N|]. apply IH. now apply fm_set_keys. Qed.

(* to_nnx always yields a tree with one entry per path *)
Lemma to_nnx_keys v : NoDup (map fst (to_nnx v)).
Proof.
  unfold to_nnx. generalize (sort_cols v). intros l.
  assert (G : forall (a : attrs), NoDup (map fst a) -> NoDup (map fst (fold_left (fun a cm => fm_union a (map (fun pv : path * sval => (fst pv, (fst cm, snd pv))) (snd cm))) l a))).
  { induction l as [|cm l IH]; intros a N; simpl; [exact N|]. apply IH. now apply fm_union_keys. }
  apply G. constructor.
Qed.

(* ToNNX merging the updates of mutable collections: a leaf the updates mention gets the new value (and type), every
   other leaf of the wrapper keeps what it had -- at any depth (this is what the shallow union before the repair of F23
   violated) *)
Theorem merge_updates_get a upd q :
  fm_get q (merge_updates a upd) = match fm_get q (to_nnx upd) with Some v => Some v | None => fm_get q a end.
Proof. unfold merge_updates. apply fm_union_get. apply to_nnx_keys. Qed.

(* ------------------------------------------------------------------------------------------------ *)
(* 3. regrouping the attributes by type                                                               *)
Lemma lv_get_add v c p x c' p' :
  lv_get (lv_add c p x v) c' p' = if N.eqb c' c && path_eqb p' p then Some x else lv_get v c' p'.
Proof.
  unfold lv_get. induction v as [|[d m] v IH]; simpl.
  - rewrite (N.eqb_sym c c'). destruct (N.eqb c' c); simpl; [destruct (path_eqb p' p); reflexivity|reflexivity].
  - destruct (N.eqb_spec c d) as [->|Hne]; simpl.
    + rewrite (N.eqb_sym d c'). destruct (N.eqb c' d); simpl; [apply fm_get_set|reflexivity].
    + destruct (N.eqb_spec d c') as [->|Hne'].
      * destruct (N.eqb_spec c' c); [congruence|]. reflexivity.
      * exact IH.
Qed.

(* nnx_attrs_to_linen_vars is faithful: collection c holds x at path p exactly when the attribute at p is (c, x) *)
Theorem to_linen_get a c p x : NoDup (map fst a) ->
  (lv_get (to_linen a) c p = Some x <-> fm_get p a = Some (c, x)).
Proof.
  unfold to_linen.
  assert (G : forall (l : attrs) (v : lvars), NoDup (map fst l) -> (forall q, In q (map fst l) -> forall d, lv_get v d q = None) ->
            (lv_get (fold_left (fun v pcx => lv_add (fst (snd pcx)) (fst pcx) (snd (snd pcx)) v) l v) c p = Some x <->
             fm_get p l = Some (c, x) \/ (fm_get p l = None /\ lv_get v c p = Some x))).
  { induction l as [|[q [d y]] l IH]; intros v N Fresh; cbn [fold_left fm_get fst snd].
    - split; [intros H; right; auto|intros [H|[_ H]]; [discriminate|exact H]].
    - inversion N; subst. rewrite IH; [|assumption|].
      + rewrite lv_get_add. destruct (path_eqb p q) eqn:E.
        * apply path_eqb_eq in E; subst q. apply fm_get_none_notin in H1. rewrite H1.
          destruct (N.eqb_spec c d) as [->|Hne]; cbn [andb].
          -- split; [intros [H|[_ H]]; [discriminate|inversion H; subst; now left]|intros [H|[H _]]; [inversion H; subst; right; auto|discriminate]].
          -- split; [intros [H|[_ H]]; [discriminate|]|intros [H|[H _]]; [inversion H; congruence|discriminate]].
             rewrite (Fresh p (or_introl eq_refl) c) in H. discriminate.
        * rewrite andb_false_r. tauto.
      + intros r Hr d0. rewrite lv_get_add. destruct (path_eqb r q) eqn:E.
        * apply path_eqb_eq in E; subst. contradiction.
        * rewrite andb_false_r. apply Fresh. now right. }
  intros N. rewrite (G a [] N); [|intros; reflexivity].
  split; [intros [H|[_ H]]; [exact H|discriminate]|intros H; now left].
Qed.

(* what the wrapper holds, read back as Linen variables, after a call with mutable collections *)
Corollary tonnx_state_after_call a upd c p x :
  NoDup (map fst a) ->
  (lv_get (to_linen (merge_updates a upd)) c p = Some x <->
   match fm_get p (to_nnx upd) with Some v => v = (c, x) | None => fm_get p a = Some (c, x) end).
Proof.
  intros N. rewrite to_linen_get by (unfold merge_updates; now apply fm_union_keys). rewrite merge_updates_get.
  destruct (fm_get p (to_nnx upd)) as [v|]; [|tauto]. split; [intros H; now inversion H|intros ->; reflexivity].
Qed.

(* register_variable_name: the name now maps to the type, every other name keeps its type, and the type previously held
   by that name is no longer reachable through it *)
Lemma type_of_name_set r nm t nm' : type_of_name (reg_set r nm t) nm' = if N.eqb nm nm' then Some t else type_of_name r nm'.
Proof.
  induction r as [|[n t0] q IH]; cbn [reg_set type_of_name].
  - destruct (N.eqb nm nm'); reflexivity.
  - destruct (N.eqb_spec n nm) as [->|Hn]; cbn [type_of_name].
    + destruct (N.eqb nm nm'); reflexivity.
    + destruct (N.eqb_spec n nm') as [->|Hn'].
      * destruct (N.eqb_spec nm nm'); [congruence|reflexivity].
      * exact IH.
Qed.
Lemma type_of_name_app_new r nm t nm' : type_of_name r nm = None ->
  type_of_name (r ++ [(nm, t)]) nm' = if N.eqb nm nm' then Some t else type_of_name r nm'.
Proof.
  intros H. induction r as [|[n t0] q IH]; cbn [app type_of_name] in *.
  - destruct (N.eqb nm nm'); reflexivity.
  - destruct (N.eqb_spec n nm) as [->|Hn]; [discriminate|].
    destruct (N.eqb_spec n nm') as [->|Hn']; [destruct (N.eqb_spec nm nm'); [congruence|reflexivity]|now apply IH].
Qed.
Theorem register_spec r nm t ow r' : reg_register r nm t ow = Some r' ->
  forall nm', type_of_name r' nm' = if N.eqb nm nm' then Some t else type_of_name r nm'.
Proof.
  unfold reg_register. destruct (type_of_name r nm) eqn:E.
  - destruct ow; [|discriminate]. intros H nm'; inversion H; subst. apply type_of_name_set.
  - intros H nm'; inversion H; subst. apply type_of_name_app_new. exact E.
Qed.
Theorem register_refuses_taken_name r nm t t0 : type_of_name r nm = Some t0 -> reg_register r nm t false = None.
Proof. intros H. unfold reg_register. now rewrite H. Qed.
