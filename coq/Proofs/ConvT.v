(* C12: the transposed convolution of Model/Layers.v -- the dilated signal, output lengths, and the CIRCULAR wrap. *)
From Coq Require Import Lia ZArith QArith ZifyNat.
From Flaxm Require Import Lib.Harness Model.Layers.
Ltac Zify.zify_post_hook ::= Z.div_mod_to_equations.
Open Scope Z_scope.

Lemma zsum_app a b : zsum (a ++ b) = zsum a + zsum b.
Proof. induction a as [|x a IH]; simpl; [reflexivity|]. rewrite IH. lia. Qed.
Lemma zsum_zero {A} (g : A -> Z) l : (forall x, In x l -> g x = 0) -> zsum (map g l) = 0.
Proof. induction l as [|x l IH]; intros H; simpl; [reflexivity|]. rewrite H by (now left). rewrite IH; [reflexivity|]. intros y Hy. apply H. now right. Qed.
Lemma zsum_ext {A} (g h : A -> Z) l : (forall x, In x l -> g x = h x) -> zsum (map g l) = zsum (map h l).
Proof. induction l as [|x l IH]; intros H; simpl; [reflexivity|]. rewrite H by (now left). rewrite IH; [reflexivity|]. intros y Hy. apply H. now right. Qed.

(* ---------------- the dilated signal ---------------- *)
Lemma dilate_cons2 s r r2 rest : dilate s (r :: r2 :: rest) = r :: repeat [] (s - 1) ++ dilate s (r2 :: rest).
Proof. unfold dilate. cbn [flat_map]. now rewrite <- app_assoc. Qed.

Lemma dilate_length s x : x <> [] -> (1 <= s)%nat -> length (dilate s x) = ((length x - 1) * s + 1)%nat.
Proof.
  intros Hx Hs. destruct x as [|r rest]; [contradiction|]. clear Hx. revert r.
  induction rest as [|r2 rest IH]; intros r; [reflexivity|].
  rewrite dilate_cons2. cbn [length]. rewrite app_length, repeat_length, IH. cbn [length]. lia.
Qed.

Lemma nth_nil_row n : nth n (@nil row) [] = [].
Proof. destruct n; reflexivity. Qed.

(* position u of the dilated signal shows x[u / s] when s divides u, and a zero row otherwise *)
Theorem nth_dilate s x : (1 <= s)%nat -> forall u, nth u (dilate s x) [] = if Nat.eqb (u mod s) 0 then nth (u / s) x [] else [].
Proof.
  intros Hs. destruct x as [|r rest].
  { intros u. cbn [dilate]. rewrite !nth_nil_row. destruct (u mod s =? 0)%nat; reflexivity. }
  revert r. induction rest as [|r2 rest IH]; intros r u.
  - cbn [dilate flat_map]. destruct u as [|u].
    + rewrite Nat.mod_0_l, Nat.div_0_l by lia. reflexivity.
    + change (nth (S u) [r] []) with (nth u (@nil row) []). rewrite nth_nil_row.
      destruct (Nat.eqb_spec (S u mod s) 0) as [E|E]; [|reflexivity].
      assert (1 <= S u / s)%nat by (apply Nat.div_str_pos; split; [lia|]; destruct (Nat.lt_ge_cases (S u) s) as [L|L]; [rewrite Nat.mod_small in E by lia; lia|lia]).
      destruct (S u / s)%nat as [|q]; [lia|]. change (nth (S q) [r] []) with (nth q (@nil row) []). now rewrite nth_nil_row.
  - rewrite dilate_cons2. destruct (Nat.lt_ge_cases u s) as [L|L].
    + destruct u as [|u].
      * rewrite Nat.mod_0_l, Nat.div_0_l by lia. reflexivity.
      * cbn [nth]. rewrite app_nth1 by (rewrite repeat_length; lia).
        rewrite Nat.mod_small by lia. cbn [Nat.eqb].
        apply nth_repeat.
    + change (r :: repeat [] (s - 1) ++ dilate s (r2 :: rest)) with ((r :: repeat [] (s - 1)) ++ dilate s (r2 :: rest)).
      rewrite app_nth2 by (cbn [length]; rewrite repeat_length; lia).
      cbn [length]. rewrite repeat_length. replace (u - S (s - 1))%nat with (u - s)%nat by lia.
      rewrite IH.
      replace ((u - s) mod s)%nat with (u mod s)%nat
        by (replace u with (u - s + 1 * s)%nat at 1 by lia; now rewrite Nat.mod_add by lia).
      destruct (u mod s =? 0)%nat; [|reflexivity].
      assert (E : (u / s = S ((u - s) / s))%nat).
      { replace u with (u - s + 1 * s)%nat at 1 by lia. rewrite Nat.div_add by lia. lia. }
      rewrite E. reflexivity.
Qed.

(* ---------------- output lengths ---------------- *)
Lemma convT_lin_length c p x : length (convT_lin c p x) =
  let '(pa, pb) := tpads (keff c) (cv_stride c) p in (length (dilate (cv_stride c) x) + pa + pb + 1 - keff c)%nat.
Proof. unfold convT_lin. destruct (tpads (keff c) (cv_stride c) p) as [pa pb]. unfold conv_spec. now rewrite map_length, seq_length. Qed.

Lemma keff_pos c : (1 <= keff c)%nat.
Proof. unfold keff. rewrite Nat.add_1_r. apply le_n_S, Nat.le_0_l. Qed.

Theorem convT_same_length c x : x <> [] -> (1 <= cv_stride c)%nat ->
  length (convT_lin c TSame x) = (length x * cv_stride c)%nat.
Proof.
  intros Hx Hs. rewrite convT_lin_length. cbn [tpads]. rewrite dilate_length by assumption.
  pose proof (keff_pos c) as Hk. remember (keff c) as ke. remember (cv_stride c) as s.
  destruct x as [|r rest]; [contradiction|]. cbn [length]. replace (S (length rest) - 1)%nat with (length rest) by lia.
  remember (length rest * s)%nat as m. replace (S (length rest) * s)%nat with (m + s)%nat by (subst m; lia).
  destruct (Nat.ltb_spec (ke - 1) s); lia.
Qed.

Theorem convT_valid_length c x : x <> [] -> (1 <= cv_stride c)%nat ->
  length (convT_lin c TValid x) = (length x * cv_stride c + (keff c - cv_stride c))%nat.
Proof.
  intros Hx Hs. rewrite convT_lin_length. cbn [tpads]. rewrite dilate_length by assumption.
  pose proof (keff_pos c) as Hk. remember (keff c) as ke. remember (cv_stride c) as s.
  destruct x as [|r rest]; [contradiction|]. cbn [length]. replace (S (length rest) - 1)%nat with (length rest) by lia.
  remember (length rest * s)%nat as m. replace (S (length rest) * s)%nat with (m + s)%nat by (subst m; lia).
  lia.
Qed.

(* ---------------- the CIRCULAR wrap: summing the periods is summing by residue ---------------- *)
Definition resid_sum (P left j f : nat) (y : sig) : Z :=
  zsum (map (fun q => if Nat.eqb ((q + left) mod P) j then getc (nth q y []) f else 0) (seq 0 (length y))).

Section Blocks.
  Variable P : nat.
  Hypothesis HP : (0 < P)%nat.
  Variable j : nat.
  Hypothesis Hj : (j < P)%nat.
  Variable a : nat -> Z.

  Definition sel (u : nat) : Z := if Nat.eqb (u mod P) j then a u else 0.

  (* one block of P consecutive positions holds exactly one position of residue j *)
  Lemma block_sum M : zsum (map sel (seq (M * P) P)) = a (M * P + j)%nat.
  Proof.
    assert (G : forall n, (n <= P)%nat -> zsum (map sel (seq (M * P) n)) = if Nat.ltb j n then a (M * P + j)%nat else 0).
    { induction n as [|n IH]; intros Hn; [reflexivity|].
      rewrite seq_S, map_app, zsum_app, IH by lia. cbn [map]. unfold zsum at 1. cbn [fold_right]. unfold sel.
      replace ((M * P + n) mod P)%nat with n by (rewrite Nat.add_comm, Nat.mod_add, Nat.mod_small by lia; reflexivity).
      destruct (Nat.eqb_spec n j) as [->|Hne].
      - destruct (Nat.ltb_spec j j); [lia|]. destruct (Nat.ltb_spec j (S j)); [lia|lia].
      - destruct (Nat.ltb_spec j n); destruct (Nat.ltb_spec j (S n)); lia. }
    rewrite G by lia. destruct (Nat.ltb_spec j P); [reflexivity|lia].
  Qed.

  Lemma blocks_sum M : zsum (map (fun m => a (m * P + j)%nat) (seq 0 M)) = zsum (map sel (seq 0 (M * P))).
  Proof.
    induction M as [|M IH]; [reflexivity|].
    rewrite seq_S, map_app, zsum_app, IH. cbn [map]. unfold zsum at 2. cbn [fold_right].
    replace (S M * P)%nat with (M * P + P)%nat by lia. rewrite seq_app, map_app, zsum_app. cbn [Nat.add].
    rewrite block_sum. lia.
  Qed.
End Blocks.

Lemma zsum_seq_shift n : forall (g : nat -> Z) k, zsum (map g (seq k n)) = zsum (map (fun q => g (q + k)%nat) (seq 0 n)).
Proof.
  induction n as [|n IH]; intros g k; [reflexivity|].
  change (zsum (map g (seq k (S n)))) with (g k + zsum (map g (seq (S k) n))).
  change (zsum (map (fun q => g (q + k)%nat) (seq 0 (S n)))) with (g (0 + k)%nat + zsum (map (fun q => g (q + k)%nat) (seq 1 n))).
  rewrite (IH g (S k)), (IH (fun q => g (q + k)%nat) 1%nat). cbn [Nat.add]. f_equal.
  apply zsum_ext. intros q _. f_equal. lia.
Qed.

Lemma getc_nil f : getc [] f = 0.
Proof. unfold getc. destruct f; reflexivity. Qed.

Theorem wrap_sum_spec P feats left y j f : (0 < P)%nat -> (j < P)%nat -> (f < feats)%nat ->
  getc (nth j (wrap_sum P feats left y) []) f = resid_sum P left j f y.
Proof.
  intros HP Hj Hf. unfold wrap_sum.
  set (ypad := repeat [] left ++ y). set (M := (length ypad / P + 1)%nat).
  rewrite (nth_indep _ [] ((fun j0 => map (fun f0 => zsum (map (fun m => getc (nth (m * P + j0) ypad []) f0) (seq 0 M))) (seq 0 feats)) 0%nat))
    by (rewrite map_length, seq_length; lia).
  rewrite (map_nth (fun j0 => map (fun f0 => zsum (map (fun m => getc (nth (m * P + j0) ypad []) f0) (seq 0 M))) (seq 0 feats))), seq_nth by lia.
  unfold getc at 1.
  rewrite (nth_indep _ 0 ((fun f0 => zsum (map (fun m => getc (nth (m * P + (0 + j)) ypad []) f0) (seq 0 M))) 0%nat))
    by (rewrite map_length, seq_length; lia).
  rewrite (map_nth (fun f0 => zsum (map (fun m => getc (nth (m * P + (0 + j)) ypad []) f0) (seq 0 M)))), seq_nth by lia.
  cbn [Nat.add].
  (* sum over periods = sum over positions of residue j *)
  rewrite (blocks_sum P HP j Hj (fun u => getc (nth u ypad []) f) M).
  (* positions beyond the padded signal contribute nothing *)
  assert (HM : (length ypad <= M * P)%nat).
  { subst M. pose proof (Nat.div_mod (length ypad) P ltac:(lia)). pose proof (Nat.mod_upper_bound (length ypad) P ltac:(lia)). lia. }
  replace (M * P)%nat with (length ypad + (M * P - length ypad))%nat by lia.
  rewrite seq_app, map_app, zsum_app.
  rewrite (zsum_zero _ (seq (0 + length ypad) (M * P - length ypad))).
  2:{ intros u Hu. apply in_seq in Hu. unfold sel. destruct (u mod P =? j)%nat; [|reflexivity].
      rewrite nth_overflow by lia. apply getc_nil. }
  rewrite Z.add_0_r.
  (* the left padding contributes nothing; the rest is y shifted by left *)
  subst ypad. rewrite app_length, repeat_length, seq_app, map_app, zsum_app.
  rewrite (zsum_zero _ (seq 0 left)).
  2:{ intros u Hu. apply in_seq in Hu. unfold sel. destruct (u mod P =? j)%nat; [|reflexivity].
      rewrite app_nth1 by (rewrite repeat_length; lia). rewrite nth_repeat. apply getc_nil. }
  cbn [Nat.add Z.add]. rewrite (zsum_seq_shift (length y)). unfold resid_sum. apply zsum_ext. intros q _. unfold sel.
  destruct ((q + left) mod P =? j)%nat; [|reflexivity].
  rewrite app_nth2 by (rewrite repeat_length; lia). rewrite repeat_length. f_equal. f_equal. lia.
Qed.

(* ---------------- the transposed convolution as a direct sum over the input ---------------- *)
(* the input row that position o of the output meets under kernel tap t: x[(o + t*d - pa) / s] when s divides it *)
Definition tsrc (c : convcfg) (x : sig) (pa o t : nat) : row :=
  if (Nat.leb pa (o + t * cv_dil c) && Nat.eqb ((o + t * cv_dil c - pa) mod cv_stride c) 0)%bool
  then nth ((o + t * cv_dil c - pa) / cv_stride c) x [] else [].

Theorem convT_entry c p x o f : (1 <= cv_stride c)%nat -> (o < length (convT_lin c p x))%nat -> (f < cv_feats c)%nat ->
  getc (nth o (convT_lin c p x) []) f =
  zsum (map (fun t => zsum (map (fun ci => getc (tsrc c x (fst (tpads (keff c) (cv_stride c) p)) o t) ci * kget c t ci f) (seq 0 (cv_cin c))))
            (seq 0 (ksize c))).
Proof.
  intros Hs Ho Hf. rewrite convT_lin_length in Ho. unfold convT_lin in *.
  destruct (tpads (keff c) (cv_stride c) p) as [pa pb]. cbn [fst]. unfold conv_spec.
  set (nout := (length (dilate (cv_stride c) x) + pa + pb + 1 - keff c)%nat) in *.
  rewrite (nth_indep _ [] ((fun o0 => map (fun f0 => conv_out (lin_cfg c) PZero (Z.of_nat pa) (dilate (cv_stride c) x) o0 f0) (seq 0 (cv_feats (lin_cfg c)))) 0%nat))
    by (rewrite map_length, seq_length; exact Ho).
  rewrite (map_nth (fun o0 => map (fun f0 => conv_out (lin_cfg c) PZero (Z.of_nat pa) (dilate (cv_stride c) x) o0 f0) (seq 0 (cv_feats (lin_cfg c))))), seq_nth by exact Ho.
  unfold getc at 1. cbn [lin_cfg cv_feats].
  rewrite (nth_indep _ 0 ((fun f0 => conv_out (lin_cfg c) PZero (Z.of_nat pa) (dilate (cv_stride c) x) (0 + o) f0) 0%nat))
    by (rewrite map_length, seq_length; exact Hf).
  rewrite (map_nth (fun f0 => conv_out (lin_cfg c) PZero (Z.of_nat pa) (dilate (cv_stride c) x) (0 + o) f0)), seq_nth by exact Hf.
  cbn [Nat.add]. unfold conv_out. cbn [lin_cfg cv_cin cv_feats cv_groups cv_stride cv_dil cv_bias]. rewrite Z.add_0_r.
  rewrite !Nat.div_1_r, (Nat.div_small f (cv_feats c)) by exact Hf. cbn [Nat.mul Nat.add].
  unfold ksize. cbn [lin_cfg cv_k]. fold (ksize c).
  apply zsum_ext. intros t _. apply zsum_ext. intros ci _. f_equal.
  f_equal. unfold tsrc, ext_row, ext_index.
  rewrite Nat.mul_1_r.
  destruct (Nat.leb_spec pa (o + t * cv_dil c)) as [L|L]; cbn [andb].
  - replace (Z.of_nat (o + t * cv_dil c) - Z.of_nat pa) with (Z.of_nat (o + t * cv_dil c - pa)) by lia.
    set (u := (o + t * cv_dil c - pa)%nat).
    destruct ((0 <=? Z.of_nat u) && (Z.of_nat u <? Z.of_nat (length (dilate (cv_stride c) x)))) eqn:E.
    + rewrite Nat2Z.id. apply nth_dilate. exact Hs.
    + apply andb_false_iff in E as [E|E]; [apply Z.leb_gt in E; lia|apply Z.ltb_ge in E].
      pose proof (nth_dilate (cv_stride c) x Hs u) as N. rewrite nth_overflow in N by lia. exact N.
  - destruct ((0 <=? Z.of_nat (o + t * cv_dil c) - Z.of_nat pa) && _) eqn:E; [|reflexivity].
    apply andb_true_iff in E as [E _]. apply Z.leb_le in E. lia.
Qed.
