From Coq Require Import Lia.
From Flaxm Require Import Lib.Harness Model.Serial Proofs.Serial Model.Host.

(* ---------------- pad_shard_unpad ---------------- *)
Lemma device_batch_covers b d mdb : 1 <= d -> b <= d * device_batch b d mdb.
Proof.
  intros Hd. unfold device_batch.
  assert (H0 : b <= d * (if Nat.eqb (b mod d) 0 then b / d else S (b / d))).
  { pose proof (Nat.div_mod b d ltac:(lia)) as E. pose proof (Nat.mod_upper_bound b d ltac:(lia)) as U.
    destruct (Nat.eqb_spec (b mod d) 0) as [Hz|Hz]; nia. }
  destruct mdb as [m|]; [|exact H0]. destruct (Nat.eqb m 0); [exact H0|].
  destruct (Nat.ltb_spec (if Nat.eqb (b mod d) 0 then b / d else S (b / d)) m); [nia|exact H0].
Qed.

Lemma device_batch_pos b d mdb : 1 <= d -> 1 <= b -> 1 <= device_batch b d mdb.
Proof. intros Hd Hb. pose proof (device_batch_covers b d mdb Hd). destruct (device_batch b d mdb); lia. Qed.

(* for every batch size, device count and min_device_batch the wrapper returns what the per-example function
   returns on the unpadded batch *)
Theorem pad_shard_unpad_correct f d mdb x : 1 <= d -> pad_shard_unpad f d mdb x = map f x.
Proof.
  intros Hd. unfold pad_shard_unpad, pad_shard. destruct x as [|x0 xr] eqn:Ex; [reflexivity|]. rewrite <- Ex.
  assert (Hb : 1 <= length x) by (subst; simpl; lia).
  rewrite <- concat_map, concat_chunks by (now apply device_batch_pos).
  rewrite map_app, firstn_app, map_length, Nat.sub_diag, firstn_O, app_nil_r.
  rewrite <- (map_length f x). apply firstn_all.
Qed.

(* the padded batch is exactly d rows of device_batch examples *)
Lemma chunks_exact {A} n : 1 <= n -> forall k (l : list A), length l = k * n ->
  length (chunks n l) = k /\ Forall (fun c => length c = n) (chunks n l).
Proof.
  intros Hn. unfold chunks.
  assert (G : forall k fuel (l : list A), length l = k * n -> length l <= fuel ->
              length (chunks_go fuel n l) = k /\ Forall (fun c => length c = n) (chunks_go fuel n l)).
  { induction k as [|k IH]; intros fuel l Hl Hf.
    - destruct l; [|simpl in Hl; lia]. destruct fuel; simpl; auto.
    - rewrite Nat.mul_succ_l in Hl. destruct fuel as [|f]; [lia|]. destruct l as [|a r] eqn:El; [simpl in Hl; lia|]. rewrite <- El in *.
      assert (HH : chunks_go (S f) n l = firstn n l :: chunks_go f n (skipn n l)) by (rewrite El; reflexivity). rewrite HH.
      destruct (IH f (skipn n l)) as [L F]; [rewrite skipn_length; lia|rewrite skipn_length; lia|].
      split; [simpl; now rewrite L|]. constructor; [rewrite firstn_length; lia|exact F]. }
  intros k l Hl. apply G; [exact Hl|lia].
Qed.

Theorem pad_shard_shape d mdb x : 1 <= d -> 1 <= length x ->
  length (pad_shard d mdb x) = d /\ Forall (fun row => length row = device_batch (length x) d mdb) (pad_shard d mdb x).
Proof.
  intros Hd Hb. unfold pad_shard. apply chunks_exact; [now apply device_batch_pos|].
  rewrite app_length, repeat_length. pose proof (device_batch_covers (length x) d mdb Hd). lia.
Qed.

(* ---------------- shard / stack_forest / onehot ---------------- *)
Theorem shard_shape d n x : 1 <= d -> 1 <= n -> length x = d * n ->
  length (shard d x) = d /\ Forall (fun row => length row = n) (shard d x) /\ concat (shard d x) = x.
Proof.
  intros Hd Hn Hl. unfold shard. assert (E : length x / d = n) by (rewrite Hl, Nat.mul_comm; apply Nat.div_mul; lia).
  rewrite E. destruct (chunks_exact n Hn d x Hl) as [H1 H2]. split; [exact H1|]. split; [exact H2|].
  apply concat_chunks. exact Hn.
Qed.

Theorem stack_forest_entry m forest j i : j < m -> i < length forest ->
  nth i (nth j (stack_forest m forest) []) 0%Z = nth j (nth i forest []) 0%Z.
Proof.
  intros Hj Hi. unfold stack_forest.
  rewrite (nth_indep _ [] ((fun j => map (fun t => nth j t 0%Z) forest) 0)) by (rewrite map_length, seq_length; exact Hj).
  rewrite (map_nth (fun j => map (fun t => nth j t 0%Z) forest)), seq_nth by exact Hj. cbn [plus].
  rewrite (nth_indep _ 0%Z ((fun t => nth j t 0%Z) [])) by (rewrite map_length; exact Hi).
  rewrite (map_nth (fun t => nth j t 0%Z)). reflexivity.
Qed.

Theorem stack_forest_shape m forest : length (stack_forest m forest) = m /\ Forall (fun leaf => length leaf = length forest) (stack_forest m forest).
Proof.
  unfold stack_forest. split; [now rewrite map_length, seq_length|]. apply Forall_forall. intros leaf Hin.
  apply in_map_iff in Hin. destruct Hin as [j [<- _]]. now rewrite map_length.
Qed.

Lemma onehot_row_nth (l : Z) k (on off : Z) j : j < k ->
  nth j (map (fun j => if (Z.of_nat j =? l)%Z then on else off) (seq 0 k)) off = if (Z.of_nat j =? l)%Z then on else off.
Proof.
  intros Hj. rewrite (nth_indep _ off ((fun j => if (Z.of_nat j =? l)%Z then on else off) 0)) by (rewrite map_length, seq_length; exact Hj).
  rewrite (map_nth (fun j => if (Z.of_nat j =? l)%Z then on else off)), seq_nth by exact Hj. reflexivity.
Qed.

(* entry (i, j) is on_value exactly when j is the label of example i; one row per label, num_classes entries per row *)
Theorem onehot_entry labels k on off i j : i < length labels -> j < k ->
  nth j (nth i (onehot labels k on off) []) off = if (Z.of_nat j =? nth i labels 0%Z)%Z then on else off.
Proof.
  intros Hi Hj. unfold onehot.
  rewrite (nth_indep _ [] ((fun l => map (fun j => if (Z.of_nat j =? l)%Z then on else off) (seq 0 k)) 0%Z)) by (rewrite map_length; exact Hi).
  rewrite (map_nth (fun l => map (fun j => if (Z.of_nat j =? l)%Z then on else off) (seq 0 k))). apply onehot_row_nth. exact Hj.
Qed.

Theorem onehot_shape labels k on off : length (onehot labels k on off) = length labels /\ Forall (fun row => length row = k) (onehot labels k on off).
Proof.
  unfold onehot. split; [now rewrite map_length|]. apply Forall_forall. intros row Hin. apply in_map_iff in Hin.
  destruct Hin as [l [<- _]]. now rewrite map_length, seq_length.
Qed.

(* a label inside [0, num_classes) lights exactly one position; any other label (negative, too large) lights none *)
Lemma count_on_seq (l on off : Z) (Hne : on <> off) : forall k s,
  count_occ Z.eq_dec (map (fun j => if (Z.of_nat j =? l)%Z then on else off) (seq s k)) on =
  if ((Z.of_nat s <=? l) && (l <? Z.of_nat (s + k)))%Z then 1 else 0.
Proof.
  induction k as [|k IH]; intros s.
  - cbn [seq map count_occ]. destruct (Z.leb_spec (Z.of_nat s) l), (Z.ltb_spec l (Z.of_nat (s + 0))); cbn [andb]; try reflexivity. lia.
  - cbn [seq map count_occ]. rewrite IH. destruct (Z.eqb_spec (Z.of_nat s) l) as [E|E].
    + destruct (Z.eq_dec on on) as [_|C]; [|contradiction].
      destruct (Z.leb_spec (Z.of_nat (S s)) l); [lia|]. cbn [andb].
      destruct (Z.leb_spec (Z.of_nat s) l), (Z.ltb_spec l (Z.of_nat (s + S k))); cbn [andb]; try reflexivity; lia.
    + destruct (Z.eq_dec off on) as [C|_]; [symmetry in C; contradiction|].
      destruct (Z.leb_spec (Z.of_nat (S s)) l), (Z.ltb_spec l (Z.of_nat (S s + k))), (Z.leb_spec (Z.of_nat s) l), (Z.ltb_spec l (Z.of_nat (s + S k)));
        cbn [andb]; try reflexivity; lia.
Qed.

Theorem onehot_exactly_one labels k on off i : on <> off -> i < length labels ->
  count_occ Z.eq_dec (nth i (onehot labels k on off) []) on =
  if ((0 <=? nth i labels 0%Z) && (nth i labels 0%Z <? Z.of_nat k))%Z then 1 else 0.
Proof.
  intros Hne Hi. unfold onehot.
  rewrite (nth_indep _ [] ((fun l => map (fun j => if (Z.of_nat j =? l)%Z then on else off) (seq 0 k)) 0%Z)) by (rewrite map_length; exact Hi).
  rewrite (map_nth (fun l => map (fun j => if (Z.of_nat j =? l)%Z then on else off) (seq 0 k))).
  rewrite (count_on_seq _ on off Hne k 0). reflexivity.
Qed.

(* ---------------- _invert_perm ---------------- *)
Lemma nth_set_nth_nat i v l j : nth j (set_nth_nat i v l) 0 = if Nat.eqb j i then (if Nat.ltb i (length l) then v else 0) else nth j l 0.
Proof.
  revert i j; induction l as [|x r IH]; intros i j; simpl.
  - destruct i; destruct (Nat.eqb j _); destruct j; reflexivity.
  - destruct i as [|i]; destruct j as [|j]; simpl; try reflexivity. rewrite IH.
    change (Nat.ltb (S i) (S (length r))) with (Nat.ltb i (length r)). reflexivity.
Qed.
Lemma set_nth_nat_length i v l : length (set_nth_nat i v l) = length l.
Proof. revert i; induction l as [|x r IH]; intros [|i]; simpl; auto. Qed.

Lemma fold_set_untouched ps : forall acc j, ~ In j (map snd ps) ->
  nth j (fold_left (fun acc ij => set_nth_nat (snd ij) (fst ij) acc) ps acc) 0 = nth j acc 0.
Proof.
  induction ps as [|[i0 j0] r IH]; intros acc j H; simpl; [reflexivity|]. simpl in H.
  rewrite IH by tauto. rewrite nth_set_nth_nat. destruct (Nat.eqb_spec j j0); [subst; tauto|reflexivity].
Qed.
Lemma fold_set_length ps : forall acc, length (fold_left (fun acc ij => set_nth_nat (snd ij) (fst ij) acc) ps acc) = length acc.
Proof. induction ps as [|p r IH]; intros acc; simpl; [reflexivity|]. now rewrite IH, set_nth_nat_length. Qed.

Lemma fold_set_hit ps : forall acc i j, NoDup (map snd ps) -> In (i, j) ps -> j < length acc ->
  nth j (fold_left (fun acc ij => set_nth_nat (snd ij) (fst ij) acc) ps acc) 0 = i.
Proof.
  induction ps as [|[i0 j0] r IH]; intros acc i j ND Hin Hj; [contradiction|]. simpl in *. inversion ND as [|? ? Hn Hr]; subst.
  destruct Hin as [E|Hin].
  - inversion E; subst. rewrite fold_set_untouched by exact Hn. rewrite nth_set_nth_nat, Nat.eqb_refl.
    apply Nat.ltb_lt in Hj. now rewrite Hj.
  - apply IH; [exact Hr|exact Hin|now rewrite set_nth_nat_length].
Qed.

(* perm_inv[perm[i]] = i for every permutation of 0..n-1 *)
Theorem invert_perm_spec perm i : NoDup perm -> (forall j, In j perm -> j < length perm) -> i < length perm ->
  nth (nth i perm 0) (invert_perm perm) 0 = i.
Proof.
  intros ND Hb Hi. unfold invert_perm.
  assert (E : forall s (l : list nat), map snd (combine (seq s (length l)) l) = l).
  { intros s l; revert s; induction l as [|x r IH]; intros s; simpl; [reflexivity|]. now rewrite IH. }
  apply fold_set_hit.
  - rewrite E. exact ND.
  - assert (G : forall s l i, i < length l -> In (s + i, nth i l 0) (combine (seq s (length l)) l)).
    { intros s l. revert s. induction l as [|x r IH]; intros s k Hk; simpl in *; [lia|]. destruct k as [|k].
      - left. f_equal. lia. - right. replace (s + S k) with (S s + k) by lia. apply IH. lia. }
    exact (G 0 perm i Hi).
  - rewrite repeat_length. apply Hb. apply nth_In. exact Hi.
Qed.

(* the same with negative axis values (Python's negative indexing of perm_inv) *)
Definition normz (n : nat) (j : Z) : nat := Z.to_nat (if (j <? 0)%Z then (j + Z.of_nat n)%Z else j).
Theorem invert_perm_z_spec perm i : NoDup (map (normz (length perm)) perm) ->
  (forall j, In j perm -> (- Z.of_nat (length perm) <= j < Z.of_nat (length perm))%Z) -> i < length perm ->
  nth (normz (length perm) (nth i perm 0%Z)) (invert_perm_z perm) 0 = i.
Proof.
  intros ND Hb Hi. unfold invert_perm_z. fold (normz (length perm)).
  set (p := map (normz (length perm)) perm).
  assert (Hl : length p = length perm) by (unfold p; apply map_length).
  replace (normz (length perm) (nth i perm 0%Z)) with (nth i p 0).
  - apply invert_perm_spec; [exact ND| |now rewrite Hl].
    intros j Hj. unfold p in Hj. apply in_map_iff in Hj as (z & <- & Hz). specialize (Hb _ Hz). rewrite Hl. unfold normz.
    destruct (Z.ltb_spec z 0); lia.
  - unfold p. rewrite (nth_indep _ 0 (normz (length perm) 0%Z)) by (rewrite map_length; exact Hi). apply map_nth.
Qed.

(* ---------------- prefetch_to_device ---------------- *)
Definition gexp (s : gstate) : list ev :=
  map Item (g_queue s ++ g_src s) ++ [if g_error s || g_fail s then Err else Stop].
Definition gJ (s : gstate) : Prop :=
  (g_error s = true -> g_src s = [] /\ g_fail s = false) /\
  (g_queue s = [] -> g_src s = [] /\ g_fail s = false).

Lemma enqueue_exp n : forall s, gexp (enqueue n s) = gexp s.
Proof.
  induction n as [|n IH]; intros s; simpl; [reflexivity|]. destruct (g_src s) as [|x r] eqn:E.
  - destruct (g_fail s) eqn:F; [|reflexivity]. unfold gexp. simpl. rewrite E, F, orb_true_r. reflexivity.
  - rewrite IH. unfold gexp. simpl. rewrite E, <- app_assoc. reflexivity.
Qed.
Lemma enqueue_err n : forall s, (g_error s = true -> g_src s = [] /\ g_fail s = false) ->
  (g_error (enqueue n s) = true -> g_src (enqueue n s) = [] /\ g_fail (enqueue n s) = false).
Proof.
  induction n as [|n IH]; intros s H; simpl; [exact H|]. destruct (g_src s) as [|x r] eqn:E.
  - destruct (g_fail s) eqn:F; [simpl; auto|intros _; auto].
  - apply IH. simpl. intros He. destruct (H He) as [H1 _]. congruence.
Qed.
Lemma enqueue_good n : 1 <= n -> forall s, g_error s = false ->
  (g_queue (enqueue n s) = [] -> g_src (enqueue n s) = [] /\ g_fail (enqueue n s) = false).
Proof.
  intros Hn s He. destruct n as [|n]; [lia|]. simpl. destruct (g_src s) as [|x r] eqn:E.
  - destruct (g_fail s) eqn:F; simpl; auto.
  - intros Hq. exfalso. clear -Hq.
    assert (G : forall n s, g_queue s <> [] -> g_queue (enqueue n s) <> []).
    { induction n0 as [|m IHm]; intros s0 H; simpl; [exact H|]. destruct (g_src s0); [destruct (g_fail s0); exact H|].
      apply IHm. simpl. destruct (g_queue s0); discriminate. }
    apply (G n (mkG (g_queue s ++ [x]) r (g_fail s) (g_error s))); [simpl; destruct (g_queue s); discriminate|exact Hq].
Qed.

Lemma gen_loop_exp : forall fuel s, gJ s -> length (g_queue s ++ g_src s) < fuel -> gen_loop fuel s = gexp s.
Proof.
  induction fuel as [|f IH]; intros s [J1 J2] Hf; [lia|]. cbn [gen_loop]. destruct (g_queue s) as [|x q] eqn:Eq.
  - destruct (J2 eq_refl) as [Hs Hfl]. unfold gexp. rewrite Eq, Hs, Hfl, orb_false_r. reflexivity.
  - set (s' := mkG q (g_src s) (g_fail s) (g_error s)).
    assert (Hexp : gexp s = Item x :: gexp s') by (unfold gexp; rewrite Eq; reflexivity).
    rewrite Hexp. f_equal. destruct (g_error s) eqn:Ee.
    + apply IH.
      * split; [intros _; apply J1; reflexivity|]. intros _. simpl. apply J1. reflexivity.
      * simpl in *. lia.
    + rewrite <- (enqueue_exp 1 s'). apply IH.
      * split; [apply enqueue_err; simpl; discriminate|apply enqueue_good; [lia|reflexivity]].
      * assert (L : length (g_queue (enqueue 1 s') ++ g_src (enqueue 1 s')) <= length (q ++ g_src s)).
        { simpl. destruct (g_src s) as [|y r]; [destruct (g_fail s); simpl; rewrite ?app_nil_r; lia|]. simpl. rewrite !app_length. simpl. lia. }
        simpl in *. lia.
Qed.

(* delivers exactly the source's items, in order, each once, then stops -- or raises the source's exception after
   the items that preceded it -- for every source length, failing position and buffer size >= 1 *)
Theorem prefetch_to_device_order size items fail : 1 <= size ->
  prefetch_to_device size items fail = map Item items ++ [term fail].
Proof.
  intros Hs. unfold prefetch_to_device. set (s0 := mkG [] items fail false).
  rewrite gen_loop_exp.
  - rewrite enqueue_exp. unfold gexp. simpl. reflexivity.
  - split; [apply enqueue_err; discriminate|apply enqueue_good; [exact Hs|reflexivity]].
  - assert (L : forall n s, length (g_queue (enqueue n s) ++ g_src (enqueue n s)) <= length (g_queue s ++ g_src s)).
    { induction n as [|n IH]; intros s; simpl; [lia|]. destruct (g_src s) as [|y r] eqn:E; [destruct (g_fail s); simpl; rewrite ?E; lia|].
      eapply Nat.le_trans; [apply IH|]. simpl. rewrite !app_length. simpl. lia. }
    specialize (L size s0). simpl in L. lia.
Qed.

(* ---------------- PrefetchIterator: every schedule ---------------- *)
Definition pend (pc : ppc) : list N := match pc with PHave x => [x] | _ => [] end.

Definition PInv (all : list N) (fail : bool) (s : pstate) : Prop :=
  exists ci j,
    p_obs s = map Item ci ++ repeat (term fail) j /\
    ci ++ p_buf s ++ pend (p_pc s) ++ p_src s = all /\
    (0 < j -> p_active s = false /\ p_buf s = []) /\
    (p_active s = true -> p_err s = None) /\
    (p_active s = false -> p_err s = Some fail /\ p_src s = [] /\ p_pc s = PDone) /\
    (p_pc s = PFailing -> p_src s = []).

Lemma pinit_inv all fail : PInv all fail (pinit all).
Proof. exists [], 0. simpl. repeat split; auto; try discriminate; try lia. Qed.

Lemma pstep_inv size all fail s l s' : PInv all fail s -> pstep size fail s l = Some s' -> PInv all fail s'.
Proof.
  intros (ci & j & Hobs & Hall & Hj & Ha & Hna & Hpf) H. destruct s as [buf act err src pc obs]. simpl in *.
  assert (Hact : pc <> PDone -> act = true /\ j = 0).
  { intros Hp. destruct act; [split; [reflexivity|]|destruct (Hna eq_refl) as (_ & _ & E); contradiction].
    destruct j; [reflexivity|]. destruct (Hj ltac:(lia)) as [E _]. discriminate. }
  destruct l; simpl in H.
  - (* LNext *) destruct pc; try discriminate. destruct (Hact ltac:(discriminate)) as [-> ->].
    destruct src as [|x r]; injection H as <-; exists ci, 0; simpl in *;
      (split; [exact Hobs|]); (split; [exact Hall|]); (split; [lia|]); (split; [auto|]); (split; [discriminate|]); auto; discriminate.
  - (* LPut *) destruct pc; try discriminate. destruct (Hact ltac:(discriminate)) as [-> ->]. injection H as <-.
    exists ci, 0. simpl in *. split; [exact Hobs|]. split.
    { rewrite <- Hall, <- !app_assoc. simpl. destruct (can_continue size (buf ++ [x]) true); reflexivity. }
    split; [lia|]. split; [auto|]. split; [discriminate|]. destruct (can_continue size (buf ++ [x]) true); discriminate.
  - (* LWake *) destruct pc; try discriminate. destruct (Hact ltac:(discriminate)) as [-> ->].
    destruct (can_continue size buf true); [|discriminate]. injection H as <-.
    exists ci, 0. simpl in *. split; [exact Hobs|]. split; [exact Hall|]. split; [lia|]. split; [auto|]. split; discriminate.
  - (* LFail *) destruct pc; try discriminate. destruct (Hact ltac:(discriminate)) as [-> ->]. injection H as <-.
    exists ci, 0. simpl in *. rewrite (Hpf eq_refl) in *. split; [exact Hobs|]. split; [exact Hall|]. split; [lia|]. split; [discriminate|].
    split; [auto|discriminate].
  - (* LGet *) destruct buf as [|x r].
    + destruct act; [discriminate|]. injection H as <-. destruct (Hna eq_refl) as (He & Hs & Hp). subst err src pc.
      exists ci, (S j). simpl in *. split.
      { rewrite Hobs, <- app_assoc. f_equal. change (term fail :: repeat (term fail) j) with (repeat (term fail) (S j)).
        rewrite <- repeat_cons. f_equal. destruct fail; reflexivity. }
      split; [exact Hall|]. split; [auto|]. split; [discriminate|]. split; [auto|discriminate].
    + injection H as <-.
      assert (j = 0) by (destruct j; [reflexivity|destruct (Hj ltac:(lia)) as [_ E]; discriminate]). subst j.
      exists (ci ++ [x]), 0. simpl in *. rewrite app_nil_r in *. split; [rewrite Hobs, map_app; reflexivity|].
      split; [rewrite <- Hall, <- app_assoc; reflexivity|]. split; [lia|]. split; [exact Ha|]. split; [exact Hna|exact Hpf].
Qed.

Lemma prun_inv size all fail sched : forall s, PInv all fail s -> PInv all fail (prun size fail sched s).
Proof.
  induction sched as [|l r IH]; intros s I; simpl; [exact I|]. apply IH.
  destruct (pstep size fail s l) eqn:E; [eapply pstep_inv; eauto|exact I].
Qed.

(* for every source, buffer size and every schedule, what the consumer has observed is a prefix of the source's
   items in order, each once, followed -- only after all of them -- by StopIteration or the source's exception *)
Theorem prefetch_iterator_safe size items fail sched :
  exists k j, p_obs (prun size fail sched (pinit items)) = map Item (firstn k items) ++ repeat (term fail) j /\
              (0 < j -> length items <= k).
Proof.
  destruct (prun_inv size items fail sched _ (pinit_inv items fail)) as (ci & j & Hobs & Hall & Hj & _ & Hna & _).
  exists (length ci), j. split.
  - rewrite Hobs. f_equal. f_equal. rewrite <- Hall, firstn_app, Nat.sub_diag, firstn_O, app_nil_r. symmetry. apply firstn_all.
  - intros Hp. destruct (Hj Hp) as [Ha Hb]. destruct (Hna Ha) as (_ & Hs & Hpc).
    rewrite <- Hall, Hb, Hs, Hpc. simpl. rewrite app_nil_r. lia.
Qed.
