From Coq Require Import Lia.
From Flaxm Require Import Lib.Harness Model.Filters Model.Linen Model.Lift Proofs.Linen Proofs.Bridge Proofs.Lift Model.LiftCtl.

(* ---------------- observational equality of the variables of a scope ---------------- *)
Definition cveq (a b : cvars) : Prop := forall c k, cv_entry a c k = cv_entry b c k.
Lemma cveq_refl a : cveq a a.  Proof. intros c k. reflexivity. Qed.
Lemma cveq_sym a b : cveq a b -> cveq b a.  Proof. intros H c k. symmetry. apply H. Qed.
Lemma cveq_trans a b c : cveq a b -> cveq b c -> cveq a c.  Proof. intros H1 H2 x k. now rewrite H1. Qed.

(* well-formed: collection names pairwise different, variable names pairwise different inside a collection *)
Definition cwf (xs : cvars) : Prop := NoDup (map fst xs) /\ Forall (fun ck => NoDup (map fst (snd ck))) xs.

Lemma cv_get_none c xs : ~ In c (map fst xs) -> cv_get c xs = None.
Proof.
  induction xs as [|[d k] r IH]; cbn [cv_get map fst]; [reflexivity|]. intros H.
  destruct (N.eqb_spec c d) as [->|Hne]; [exfalso; apply H; now left|]. apply IH. intros X. apply H. now right.
Qed.
Lemma cv_get_in c k xs : cv_get c xs = Some k -> In (c, k) xs.
Proof.
  induction xs as [|[d k'] r IH]; cbn [cv_get]; [discriminate|].
  destruct (N.eqb_spec c d) as [->|Hne]; [intros [= ->]; now left|intros H; right; now apply IH].
Qed.
Lemma cv_get_some_in c xs : In c (map fst xs) -> exists k, cv_get c xs = Some k.
Proof.
  induction xs as [|[d k'] r IH]; cbn [cv_get map fst]; [intros []|].
  destruct (N.eqb_spec c d) as [->|Hne]; [eauto|]. intros [H|H]; [congruence|now apply IH].
Qed.
Lemma cv_get_filter (p : N -> bool) c xs :
  cv_get c (filter (fun cv => p (fst cv)) xs) = if p c then cv_get c xs else None.
Proof.
  induction xs as [|[d k] r IH]; cbn [filter cv_get fst]; [now destruct (p c)|].
  destruct (p d) eqn:Ed; cbn [cv_get]; destruct (N.eqb_spec c d) as [->|Hne].
  - now rewrite Ed.
  - exact IH.
  - rewrite IH, Ed. reflexivity.
  - exact IH.
Qed.
Lemma cv_get_app c a b : cv_get c (a ++ b) = match cv_get c a with Some k => Some k | None => cv_get c b end.
Proof.
  induction a as [|[d k] r IH]; cbn [app cv_get]; [reflexivity|]. destruct (N.eqb c d); [reflexivity|exact IH].
Qed.

Lemma filter_all {A} (p : A -> bool) l : (forall x, In x l -> p x = true) -> filter p l = l.
Proof.
  induction l as [|a r IH]; intros H; cbn [filter]; [reflexivity|].
  rewrite (H a (or_introl eq_refl)). f_equal. apply IH. intros x Hx. apply H. now right.
Qed.
Lemma filter_none {A} (p : A -> bool) l : (forall x, In x l -> p x = false) -> filter p l = [].
Proof.
  induction l as [|a r IH]; intros H; cbn [filter]; [reflexivity|].
  rewrite (H a (or_introl eq_refl)). apply IH. intros x Hx. apply H. now right.
Qed.

(* ---------------- repack with one out filter ---------------- *)
Lemma repack_single im vf inner' : (forall c, im c = true -> in_filter vf c = true) ->
  repack im [vf] inner' = Some [filter (fun cv => im (fst cv)) inner'].
Proof.
  intros H. unfold repack. cbn [app cgroup last removelast].
  set (mv := filter (fun cv => im (fst cv)) inner').
  assert (Hmv : forall x, In x mv -> in_filter vf (fst x) = true).
  { intros x Hx. apply filter_In in Hx as [_ Hx]. now apply H. }
  rewrite (filter_none (fun cv => negb (in_filter vf (fst cv))) mv) by (intros x Hx; rewrite (Hmv x Hx); reflexivity).
  cbn [filter]. rewrite (filter_all _ mv Hmv). reflexivity.
Qed.

Lemma inner_mutable_single om vf c : inner_mutable om [vf] (fun _ => true) c = om c && in_filter vf c.
Proof. unfold inner_mutable, any_filter. cbn. now rewrite orb_false_r, andb_true_r. Qed.

(* ---------------- publish, collection by collection and entry by entry ---------------- *)
Lemma publish_get om : forall out xs c, NoDup (map fst out) ->
  cv_get c (publish om xs out) =
  match (if om c then cv_get c out else None) with
  | Some new => Some (put_entries (match cv_get c xs with Some k => k | None => [] end) new)
  | None => cv_get c xs
  end.
Proof.
  unfold publish. induction out as [|[d k] out IH]; intros xs c ND; cbn [fold_left].
  - now destruct (om c).
  - inversion ND as [|? ? Hd ND']; subst. rewrite IH by exact ND'. cbn [fst snd cv_get].
    destruct (N.eqb_spec c d) as [->|Hne].
    + rewrite (cv_get_none d out Hd). destruct (om d) eqn:Eo; [|reflexivity]. rewrite cv_get_set, N.eqb_refl. reflexivity.
    + destruct (om d) eqn:Eo; [|reflexivity]. rewrite cv_get_set. destruct (N.eqb_spec c d); [congruence|]. reflexivity.
Qed.

Lemma publish_entry om out xs c k : cwf out ->
  cv_entry (publish om xs out) c k =
  match (if om c then cv_get c out else None) with
  | Some new => match nassoc k new with Some v => Some v | None => cv_entry xs c k end
  | None => cv_entry xs c k
  end.
Proof.
  intros [ND NDk]. unfold cv_entry at 1. rewrite publish_get by exact ND.
  destruct (om c); [|reflexivity]. destruct (cv_get c out) as [new|] eqn:E; [|reflexivity].
  rewrite put_entries_get.
  - unfold cv_entry. destruct (nassoc k new); [reflexivity|]. destruct (cv_get c xs); reflexivity.
  - apply cv_get_in in E. rewrite Forall_forall in NDk. exact (NDk _ E).
Qed.

Lemma cwf_filter p xs : cwf xs -> cwf (filter p xs).
Proof.
  intros [ND NDk]. split.
  - clear NDk. induction xs as [|a r IH]; cbn [filter]; [constructor|]. inversion ND; subst.
    destruct (p a); [|now apply IH]. cbn [map]. constructor; [|now apply IH].
    intros Hin. apply in_map_iff in Hin as (x & Hx & Hin). apply filter_In in Hin as [Hin _].
    match goal with H : ~ In _ _ |- _ => apply H end. rewrite <- Hx. now apply in_map.
  - rewrite Forall_forall in *. intros x Hx. apply filter_In in Hx as [Hx _]. now apply NDk.
Qed.

(* ---------------- cond / switch ---------------- *)
Section Switch.
  Variable Y : Type.
  (* a well-behaved function over a scope: it depends on the mutability only pointwise, leaves immutable collections
     alone, never deletes a variable and keeps names distinct -- what code written against the Scope API does *)
  Definition wb (b : sfun Y) : Prop :=
    (forall v m m', (forall c, m c = m' c) -> b v m = b v m') /\
    (forall v m y w, b v m = Some (y, w) ->
       (forall c, m c = false -> cv_get c w = cv_get c v) /\
       (forall c k, cv_entry v c k <> None -> cv_entry w c k <> None) /\
       (cwf v -> cwf w)).

  Lemma branch_out_inv om vf xs b y gs : branch_out Y om vf xs b = Some (y, gs) ->
    exists w, b (inner_vars xs [vf]) (inner_mutable om [vf] (fun _ => true)) = Some (y, w) /\
              gs = [filter (fun cv => inner_mutable om [vf] (fun _ => true) (fst cv)) w].
  Proof.
    unfold branch_out. destruct (b _ _) as [[y0 w]|]; [|discriminate].
    rewrite repack_single.
    - intros [= <- <-]. eauto.
    - intros c. rewrite inner_mutable_single. intros H. now apply andb_true_iff in H as [_ H].
  Qed.

  Lemma switch_selected bs idx vf om xs y xs' : lift_switch Y bs idx vf om xs = POk Y y xs' ->
    forall b0, exists gs, branch_out Y om vf xs (nth (Nat.min idx (length bs - 1)) bs b0) = Some (y, gs) /\
                          xs' = publish om xs (concat gs).
  Proof.
    unfold lift_switch. intros H b0. destruct bs as [|b1 br]; [discriminate|].
    set (n := Nat.min idx (length (b1 :: br) - 1)) in *.
    assert (Hn : n < length (b1 :: br)) by (subst n; cbn [length]; lia).
    cbn [map] in H. fold (map (branch_out Y om vf xs) (b1 :: br)) in H.
    match type of H with (if ?t then _ else _) = _ => destruct t end; [|discriminate].
    change (branch_out Y om vf xs b1 :: map (branch_out Y om vf xs) br) with (map (branch_out Y om vf xs) (b1 :: br)) in H.
    rewrite (nth_indep _ None (branch_out Y om vf xs b0)) in H by now rewrite map_length.
    rewrite map_nth in H. destruct (branch_out Y om vf xs (nth n (b1 :: br) b0)) as [[y0 gs]|]; [|discriminate].
    inversion H; subst. eauto.
  Qed.

  (* collections the branches cannot mutate come out as they went in *)
  Theorem switch_frame bs idx vf om xs y xs' c : lift_switch Y bs idx vf om xs = POk Y y xs' ->
    inner_mutable om [vf] (fun _ => true) c = false -> cv_get c xs' = cv_get c xs.
  Proof.
    intros H Hc. destruct bs as [|b0 br]; [discriminate|].
    destruct (switch_selected _ _ _ _ _ _ _ H b0) as (gs & Hb & ->).
    destruct (branch_out_inv _ _ _ _ _ _ Hb) as (w & _ & ->). cbn [concat]. rewrite app_nil_r.
    apply publish_frame. intros k Hin. apply filter_In in Hin as [_ Hin]. cbn [fst] in Hin. congruence.
  Qed.

  (* with the default variables=True: what comes out of a successful lifted switch is the selected branch run on the
     scope itself -- same result, same variables (observationally) *)
  Theorem switch_transparent bs idx om xs y xs' b0 :
    lift_switch Y bs idx (FBool true) om xs = POk Y y xs' -> cwf xs ->
    wb (nth (Nat.min idx (length bs - 1)) bs b0) ->
    exists w, nth (Nat.min idx (length bs - 1)) bs b0 xs om = Some (y, w) /\ cveq xs' w.
  Proof.
    intros H Hwf [Hext Hwb].
    destruct (switch_selected _ _ _ _ _ _ _ H b0) as (gs & Hb & ->).
    destruct (branch_out_inv _ _ _ _ _ _ Hb) as (w & Hrun & ->). cbn [concat]. rewrite app_nil_r.
    destruct (pack_default_view om xs) as [Hv Hm]. rewrite Hv in Hrun.
    rewrite (Hext xs _ om Hm) in Hrun. exists w. split; [exact Hrun|].
    destruct (Hwb _ _ _ _ Hrun) as (Hframe & Hgrow & Hcwf). specialize (Hcwf Hwf).
    rewrite (filter_ext _ (fun cv => om (fst cv))) by (intros cv; apply Hm).
    intros c k. rewrite publish_entry by now apply cwf_filter.
    rewrite cv_get_filter. destruct (om c) eqn:Eo.
    - destruct (cv_get c w) as [new|] eqn:Ew.
      + destruct (nassoc k new) as [v|] eqn:Ek; [unfold cv_entry; now rewrite Ew|].
        destruct (cv_entry xs c k) eqn:Ex; [|unfold cv_entry; now rewrite Ew].
        exfalso. apply (Hgrow c k); [congruence|]. unfold cv_entry. now rewrite Ew.
      + destruct (cv_entry xs c k) eqn:Ex; [|unfold cv_entry; now rewrite Ew].
        exfalso. apply (Hgrow c k); [congruence|]. unfold cv_entry. now rewrite Ew.
    - unfold cv_entry. now rewrite (Hframe c Eo).
  Qed.

  Theorem cond_transparent (pred : bool) ft ff om xs y xs' :
    lift_cond Y pred ft ff (FBool true) om xs = POk Y y xs' -> cwf xs -> wb (if pred then ft else ff) ->
    exists w, (if pred then ft else ff) xs om = Some (y, w) /\ cveq xs' w.
  Proof.
    unfold lift_cond. intros H Hwf Hwb.
    destruct pred; [apply (switch_transparent [ft; ff] 0 om xs y xs' ft H Hwf Hwb)|apply (switch_transparent [ft; ff] 1 om xs y xs' ft H Hwf Hwb)].
  Qed.
End Switch.

(* ---------------- the statement language is well-behaved ---------------- *)
Lemma name_eqb_refl' k : name_eqb k k = true.  Proof. now apply name_eqb_eq. Qed.

Lemma kput_entry xs c k z c' k' :
  cv_entry (kput xs c k z) c' k' = if N.eqb c' c && name_eqb k' (NExp k) then Some (VLeaf (SVec [z])) else cv_entry xs c' k'.
Proof.
  unfold kput, cv_entry. rewrite cv_get_set. destruct (N.eqb_spec c' c) as [->|Hne]; cbn [andb]; [|reflexivity].
  rewrite nassoc_nset. destruct (name_eqb k' (NExp k)); [reflexivity|]. destruct (cv_get c xs); reflexivity.
Qed.
Lemma kput_get_other xs c k z c' : c' <> c -> cv_get c' (kput xs c k z) = cv_get c' xs.
Proof. intros H. unfold kput. rewrite cv_get_set. destruct (N.eqb_spec c' c); [contradiction|reflexivity]. Qed.

Lemma map_fst_cv_set c v xs : map fst (cv_set c v xs) = if memN c (map fst xs) then map fst xs else map fst xs ++ [c].
Proof.
  induction xs as [|[d k] r IH]; cbn [cv_set map fst memN existsb]; [reflexivity|]. unfold memN in *.
  destruct (N.eqb_spec c d) as [->|Hne]; cbn [map fst orb]; [reflexivity|]. rewrite IH.
  destruct (existsb (N.eqb c) (map fst r)); reflexivity.
Qed.
Lemma map_fst_nset k v kids0 : map fst (nset k v kids0) = if existsb (name_eqb k) (map fst kids0) then map fst kids0 else map fst kids0 ++ [k].
Proof.
  induction kids0 as [|[q w] r IH]; cbn [nset map fst existsb]; [reflexivity|].
  destruct (name_eqb k q) eqn:E; cbn [map fst orb]; [reflexivity|]. rewrite IH.
  destruct (existsb (name_eqb k) (map fst r)); reflexivity.
Qed.
Lemma NoDup_snoc {A} (l : list A) x : NoDup l -> ~ In x l -> NoDup (l ++ [x]).
Proof.
  induction l as [|a r IH]; intros ND Hx; cbn [app]; [constructor; [intros []|constructor]|].
  inversion ND; subst. constructor.
  - intros Hin. apply in_app_or in Hin as [Hin|[Hin|[]]]; [contradiction|]. subst. apply Hx. now left.
  - apply IH; [assumption|]. intros Hin. apply Hx. now right.
Qed.
Lemma existsb_N_false c l : existsb (N.eqb c) l = false -> ~ In c l.
Proof. intros H Hin. assert (existsb (N.eqb c) l = true) by (apply existsb_exists; exists c; split; [exact Hin|apply N.eqb_refl]). congruence. Qed.
Lemma existsb_name_false k l : existsb (name_eqb k) l = false -> ~ In k l.
Proof. intros H Hin. assert (existsb (name_eqb k) l = true) by (apply existsb_exists; exists k; split; [exact Hin|apply name_eqb_refl']). congruence. Qed.

Lemma cv_set_forall (P : N * kids -> Prop) c v xs : Forall P xs -> (forall d, P (d, v)) -> Forall P (cv_set c v xs).
Proof.
  intros H Hv. induction xs as [|[d k] r IH]; cbn [cv_set]; [constructor; [apply Hv|constructor]|].
  inversion H; subst. destruct (N.eqb c d); constructor; auto.
Qed.

Lemma kput_cwf xs c k z : cwf xs -> cwf (kput xs c k z).
Proof.
  intros [ND NDk]. unfold kput. split.
  - rewrite map_fst_cv_set. unfold memN. destruct (existsb (N.eqb c) (map fst xs)) eqn:E; [exact ND|].
    apply NoDup_snoc; [exact ND|now apply existsb_N_false].
  - apply cv_set_forall; [exact NDk|]. intros d. cbn [snd]. rewrite map_fst_nset.
    assert (NDold : NoDup (map fst (match cv_get c xs with Some k0 => k0 | None => [] end))).
    { destruct (cv_get c xs) as [k0|] eqn:E; [|constructor]. apply cv_get_in in E. rewrite Forall_forall in NDk. exact (NDk _ E). }
    destruct (existsb _ _) eqn:E; [exact NDold|]. apply NoDup_snoc; [exact NDold|now apply existsb_name_false].
Qed.

Lemma rd_ext a b c k : cveq a b -> rd a c k = rd b c k.
Proof. intros H. unfold rd. now rewrite H. Qed.
Lemma xeval_ext a b cr e : cveq a b -> xeval a cr e = xeval b cr e.
Proof. intros H. induction e; cbn [xeval]; try reflexivity; [now apply rd_ext| |]; now rewrite IHe1, IHe2. Qed.
Lemma kput_cveq a b c k z : cveq a b -> cveq (kput a c k z) (kput b c k z).
Proof. intros H c' k'. rewrite !kput_entry. destruct (_ && _); [reflexivity|apply H]. Qed.

(* equal observations in, pointwise equal mutability: equal result and equal observations out *)
Lemma krun_cveq ss : forall a b m m' cr, cveq a b -> (forall c, m c = m' c) ->
  match krun ss a m cr, krun ss b m' cr with
  | Some (c1, w), Some (c2, w') => c1 = c2 /\ cveq w w'
  | None, None => True
  | _, _ => False
  end.
Proof.
  induction ss as [|[c k e|e] r IH]; intros a b m m' cr Hab Hm; cbn [krun].
  - split; [reflexivity|exact Hab].
  - rewrite (xeval_ext a b cr e Hab). destruct (xeval b cr e) as [z|]; [|exact I].
    rewrite <- (Hm c). destruct (m c); [|exact I]. apply IH; [now apply kput_cveq|exact Hm].
  - rewrite (xeval_ext a b cr e Hab). destruct (xeval b cr e) as [z|]; [|exact I]. now apply IH.
Qed.
Lemma krun_ext_m ss v m m' cr : (forall c, m c = m' c) -> krun ss v m cr = krun ss v m' cr.
Proof.
  revert v cr. induction ss as [|[c k e|e] r IH]; intros v cr Hm; cbn [krun]; [reflexivity| |].
  - destruct (xeval v cr e); [|reflexivity]. rewrite <- (Hm c). destruct (m c); [|reflexivity]. now apply IH.
  - destruct (xeval v cr e); [|reflexivity]. now apply IH.
Qed.
Lemma krun_facts ss : forall v m cr y w, krun ss v m cr = Some (y, w) ->
  (forall c, m c = false -> cv_get c w = cv_get c v) /\
  (forall c k, cv_entry v c k <> None -> cv_entry w c k <> None) /\
  (cwf v -> cwf w).
Proof.
  induction ss as [|[c k e|e] r IH]; intros v m cr y w H; cbn [krun] in H.
  - inversion H; subst. split; [|split]; auto.
  - destruct (xeval v cr e) as [z|]; [|discriminate]. destruct (m c) eqn:Em; [|discriminate].
    destruct (IH _ _ _ _ _ H) as (F & G & W). split; [|split].
    + intros c' Hc'. rewrite (F c' Hc'). apply kput_get_other. congruence.
    + intros c' k' Hn. apply G. rewrite kput_entry. destruct (_ && _); [discriminate|exact Hn].
    + intros Hv. apply W. now apply kput_cwf.
  - destruct (xeval v cr e) as [z|]; [|discriminate]. exact (IH _ _ _ _ _ H).
Qed.
Theorem krun_wb ss c0 : wb Z (fun xs m => krun ss xs m c0).
Proof.
  split.
  - intros v m m' Hm. now apply krun_ext_m.
  - intros v m y w H. exact (krun_facts ss v m c0 y w H).
Qed.

(* ---------------- structure comparison ---------------- *)
Lemma cshape_eqb_eq a b : cshape_eqb a b = true -> cshape a = cshape b.
Proof.
  unfold cshape_eqb. apply list_beq_spec. intros [c1 l1] [c2 l2]. unfold pair_beq. cbn [fst snd]. split.
  - intros H. apply andb_true_iff in H as [H1 H2]. apply N.eqb_eq in H1.
    apply (list_beq_spec name_eqb name_eqb_eq) in H2. now subst.
  - intros [= -> ->]. apply andb_true_iff. split; [apply N.eqb_refl|]. now apply (list_beq_spec name_eqb name_eqb_eq).
Qed.
Lemma cshape_fst a : map fst (cshape a) = map fst a.
Proof. unfold cshape. rewrite map_map. reflexivity. Qed.
Lemma cshape_get : forall a b, cshape a = cshape b -> forall c,
  match cv_get c a, cv_get c b with
  | Some ka, Some kb => map fst ka = map fst kb
  | None, None => True
  | _, _ => False
  end.
Proof.
  induction a as [|[d ka] r IH]; intros [|[d' kb] r'] H c; cbn [cshape map] in H; try discriminate; cbn [cv_get]; [exact I|].
  injection H as Hd Hk Hr. cbn [fst snd] in Hd, Hk. subst d'. destruct (N.eqb c d); [exact Hk|]. now apply IH.
Qed.
Lemma cwf_cshape a b : cshape a = cshape b -> cwf b -> cwf a.
Proof.
  intros H [ND NDk]. split.
  - rewrite <- cshape_fst, H, cshape_fst. exact ND.
  - assert (X : Forall (fun p : N * list name => NoDup (snd p)) (cshape b)).
    { apply Forall_forall. intros p Hp. unfold cshape in Hp. apply in_map_iff in Hp as (ck & <- & Hck). cbn [snd].
      rewrite Forall_forall in NDk. now apply NDk. }
    rewrite <- H in X. apply Forall_forall. intros ck Hck. rewrite Forall_forall in X.
    apply (X (fst ck, map fst (snd ck))). unfold cshape. apply in_map_iff. exists ck. auto.
Qed.
Lemma nassoc_none_names : forall ka kb k, map fst ka = map fst kb -> nassoc k ka = None -> nassoc k kb = None.
Proof.
  induction ka as [|[q v] r IH]; intros [|[q' v'] r'] k H; cbn [map fst] in H; try discriminate; cbn [nassoc]; [auto|].
  injection H as -> Hr. destruct (name_eqb k q'); [discriminate|]. now apply IH.
Qed.

(* ---------------- while_loop ---------------- *)
Section WhileFacts.
  Variable C : Type.
  Variable cond_fn : cvars -> (N -> bool) -> C -> option bool.
  Variable body_fn : cvars -> (N -> bool) -> C -> option (C * cvars).
  (* condition and body are written against the Scope API: they observe variables entry by entry, the body leaves
     immutable collections alone *)
  Hypothesis cond_ext : forall v v' m c, cveq v v' -> cond_fn v m c = cond_fn v' m c.
  Hypothesis body_ext : forall v v' m m' c, cveq v v' -> (forall x, m x = m' x) ->
    match body_fn v m c, body_fn v' m' c with
    | Some (c1, w), Some (c2, w') => c1 = c2 /\ cveq w w'
    | None, None => True
    | _, _ => False
    end.
  Hypothesis body_frame : forall v m c c1 w, body_fn v m c = Some (c1, w) ->
    forall col k, m col = false -> cv_entry w col k = cv_entry v col k.

  Variable om : N -> bool.
  Variable cf : filt.
  Variable xs : cvars.
  Hypothesis xs_wf : cwf xs.
  Let im := inner_mutable om [cf] (fun _ => true).
  Let m := fun c => om c && in_filter cf c.
  Let carry0 := filter (fun cv => in_filter cf (fst cv)) xs.
  Let bcast := filter (fun cv => negb (in_filter cf (fst cv))) xs.

  Lemma im_m c : im c = m c.  Proof. apply inner_mutable_single. Qed.
  Lemma groups_true : cgroup xs [cf; FBool true] = [carry0; bcast].
  Proof. cbn [cgroup]. f_equal. f_equal. apply filter_all. reflexivity. Qed.
  Lemma carry0_get c : cv_get c carry0 = if in_filter cf c then cv_get c xs else None.
  Proof. apply cv_get_filter. Qed.
  Lemma bcast_get c : cv_get c bcast = if in_filter cf c then None else cv_get c xs.
  Proof. unfold bcast. rewrite (cv_get_filter (fun c => negb (in_filter cf c))). now destruct (in_filter cf c). Qed.

  Lemma wbody_inv carry c c' cv' : wbody C body_fn im cf carry bcast c = Some (c', cv') ->
    exists w, body_fn (carry ++ bcast) im c = Some (c', w) /\ cv' = filter (fun cv => im (fst cv)) w /\ cshape cv' = cshape carry.
  Proof.
    unfold wbody. destruct (body_fn (carry ++ bcast) im c) as [[c1 w]|]; [|discriminate].
    rewrite repack_single.
    - destruct (cshape_eqb _ carry) eqn:E; [|discriminate]. intros [= <- <-]. exists w. repeat split. now apply cshape_eqb_eq.
    - intros x. unfold im. rewrite inner_mutable_single. intros H. now apply andb_true_iff in H as [_ H].
  Qed.

  Definition Inv (carry cur : cvars) : Prop :=
    cveq (carry ++ bcast) cur /\ cshape carry = cshape carry0 /\ (forall col, In col (map fst carry) -> im col = true).

  Lemma not_in_get c l : cv_get c l = None -> ~ In c (map fst l).
  Proof. intros H Hin. apply cv_get_some_in in Hin as [k Hk]. congruence. Qed.

  Lemma step_inv carry cur c c' cv' : Inv carry cur -> wbody C body_fn im cf carry bcast c = Some (c', cv') ->
    exists cur', body_fn cur m c = Some (c', cur') /\ Inv cv' cur'.
  Proof.
    intros (Heq & Hsh & Him) Hw. destruct (wbody_inv _ _ _ _ Hw) as (w & Hb & -> & Hcs).
    pose proof (body_ext (carry ++ bcast) cur im m c Heq im_m) as X. rewrite Hb in X.
    destruct (body_fn cur m c) as [[c2 wp]|]; [|contradiction]. destruct X as [<- Hww].
    exists wp. split; [reflexivity|]. split; [|split].
    - intros col k. rewrite <- Hww. unfold cv_entry at 1. rewrite cv_get_app, (cv_get_filter im). destruct (im col) eqn:Ei.
      + destruct (cv_get col w) as [kids0|] eqn:Ew; [unfold cv_entry; now rewrite Ew|].
        rewrite bcast_get. rewrite im_m in Ei. unfold m in Ei. apply andb_true_iff in Ei as [_ Ei]. rewrite Ei.
        unfold cv_entry. now rewrite Ew.
      + rewrite (body_frame _ _ _ _ _ Hb col k Ei). unfold cv_entry. rewrite cv_get_app.
        rewrite (cv_get_none col carry); [reflexivity|]. intros Hin. rewrite (Him col Hin) in Ei. discriminate.
    - now rewrite Hcs.
    - intros col Hin. apply in_map_iff in Hin as (x & <- & Hx). apply filter_In in Hx as [_ Hx]. exact Hx.
  Qed.

  Lemma wloop_sim : forall fuel carry cur c cF cvF, Inv carry cur ->
    wloop C cond_fn body_fn fuel im cf carry bcast c = Some (Some (cF, cvF)) ->
    exists curF, ploop C cond_fn body_fn fuel m cur c = Some (Some (cF, curF)) /\ Inv cvF curF.
  Proof.
    induction fuel as [|f IH]; intros carry cur c cF cvF HI H; cbn [wloop ploop] in *; [discriminate|].
    unfold wcond in H. rewrite (cond_ext _ cur _ c (proj1 HI)) in H.
    destruct (cond_fn cur (fun _ => false) c) as [[|]|]; try discriminate.
    - destruct (wbody C body_fn im cf carry bcast c) as [[c' cv']|] eqn:Ew; [|discriminate].
      destruct (step_inv _ _ _ _ _ HI Ew) as (cur' & Hb & HI'). rewrite Hb. exact (IH _ _ _ _ _ HI' H).
    - inversion H; subst. exists cur. split; [reflexivity|exact HI].
  Qed.

  Lemma inv_init c0 r : wbody C body_fn im cf carry0 bcast c0 = Some r -> Inv carry0 xs.
  Proof.
    intros Hw. destruct r as [c' cv']. destruct (wbody_inv _ _ _ _ Hw) as (w & _ & -> & Hcs). split; [|split].
    - intros col k. unfold cv_entry. rewrite cv_get_app, carry0_get, bcast_get.
      destruct (in_filter cf col); [|reflexivity]. destruct (cv_get col xs); reflexivity.
    - reflexivity.
    - intros col Hin. rewrite <- cshape_fst, <- Hcs, cshape_fst in Hin.
      apply in_map_iff in Hin as (x & <- & Hx). apply filter_In in Hx as [_ Hx]. exact Hx.
  Qed.

  (* what the loop leaves, published into the calling scope, is what the Python loop leaves there *)
  Lemma publish_final cvF curF : Inv cvF curF -> Inv carry0 xs -> cveq (publish om xs cvF) curF.
  Proof.
    intros (Heq & Hsh & Him) (_ & _ & Him0) col k.
    assert (Hwf : cwf cvF) by (apply (cwf_cshape _ _ Hsh); now apply cwf_filter).
    rewrite publish_entry by exact Hwf. rewrite <- Heq. unfold cv_entry at 3. rewrite cv_get_app.
    pose proof (cshape_get _ _ Hsh col) as Hg. rewrite carry0_get in Hg.
    destruct (cv_get col cvF) as [new|] eqn:En.
    - (* a carried collection *)
      assert (Hi : im col = true) by (apply Him; apply cv_get_in in En; change col with (fst (col, new)); now apply in_map).
      rewrite im_m in Hi. unfold m in Hi. apply andb_true_iff in Hi as [Ho Hc]. rewrite Ho, Hc in *.
      destruct (nassoc k new) eqn:Ek; [reflexivity|].
      unfold cv_entry. destruct (cv_get col xs) as [kids0|]; [|contradiction].
      now apply (nassoc_none_names new kids0 k Hg).
    - rewrite bcast_get.
      assert (X : cv_entry xs col k = if in_filter cf col then None else cv_entry xs col k).
      { destruct (in_filter cf col) eqn:Ec; [|reflexivity]. unfold cv_entry. destruct (cv_get col xs); [contradiction|reflexivity]. }
      destruct (om col); unfold cv_entry in *; destruct (in_filter cf col); auto.
  Qed.

  Theorem while_is_loop fuel c0 c xs' :
    lift_while C cond_fn body_fn fuel om cf (FBool true) xs c0 = Some (POk C c xs') ->
    exists cur, ploop C cond_fn body_fn fuel m xs c0 = Some (Some (c, cur)) /\ cveq xs' cur.
  Proof.
    unfold lift_while. rewrite groups_true. cbn [nth]. fold im.
    destruct (wcond C cond_fn carry0 bcast c0); [|discriminate].
    destruct (wbody C body_fn im cf carry0 bcast c0) as [r|] eqn:Ew; [|discriminate].
    pose proof (inv_init _ _ Ew) as HI0.
    destruct (wloop C cond_fn body_fn fuel im cf carry0 bcast c0) as [[[cF cvF]|]|] eqn:El; try discriminate.
    intros [= <- <-]. destruct (wloop_sim _ _ _ _ _ _ HI0 El) as (curF & Hp & HIF).
    exists curF. split; [exact Hp|]. now apply publish_final.
  Qed.

  (* ---- the other direction: when the Python loop succeeds, the body keeps the structure of what it may mutate, and the
     traced first evaluation of the body succeeds, the lifted loop succeeds too and agrees ---- *)
  Hypothesis body_shape : forall v c c1 w, body_fn v im c = Some (c1, w) ->
    cshape (filter (fun cv => im (fst cv)) w) = cshape (filter (fun cv => im (fst cv)) v).

  Lemma cshape_eqb_refl' a b : cshape a = cshape b -> cshape_eqb a b = true.
  Proof.
    intros H. unfold cshape_eqb. rewrite H. generalize (cshape b). induction l as [|[c1 l1] r IH]; [reflexivity|].
    cbn [list_beq]. unfold pair_beq at 1. cbn [fst snd]. rewrite N.eqb_refl. cbn [andb].
    rewrite (proj2 (list_beq_spec name_eqb name_eqb_eq l1 l1) eq_refl). exact IH.
  Qed.

  Lemma bcast_not_im x : In x bcast -> im (fst x) = false.
  Proof.
    intros H. apply filter_In in H as [_ H]. rewrite im_m. unfold m. apply negb_true_iff in H. rewrite H. apply andb_false_r.
  Qed.

  Lemma wbody_complete carry cur c c' wp : Inv carry cur -> body_fn cur m c = Some (c', wp) ->
    exists cv', wbody C body_fn im cf carry bcast c = Some (c', cv').
  Proof.
    intros (Heq & Hsh & Him) Hb.
    pose proof (body_ext (carry ++ bcast) cur im m c Heq im_m) as X. rewrite Hb in X.
    unfold wbody. destruct (body_fn (carry ++ bcast) im c) as [[c1 w]|] eqn:E; [|contradiction]. destruct X as [-> _].
    rewrite repack_single by (intros x; unfold im; rewrite inner_mutable_single; intros Hx; now apply andb_true_iff in Hx as [_ Hx]).
    assert (Hs : cshape (filter (fun cv => im (fst cv)) w) = cshape carry).
    { rewrite (body_shape _ _ _ _ E), filter_app.
      rewrite (filter_all _ carry) by (intros x Hx; apply Him; now apply in_map).
      rewrite (filter_none _ bcast) by (intros x Hx; now apply bcast_not_im). now rewrite app_nil_r. }
    rewrite (cshape_eqb_refl' _ _ Hs). eauto.
  Qed.

  Lemma ploop_sim : forall fuel carry cur c cF curF, Inv carry cur ->
    ploop C cond_fn body_fn fuel m cur c = Some (Some (cF, curF)) ->
    exists cvF, wloop C cond_fn body_fn fuel im cf carry bcast c = Some (Some (cF, cvF)) /\ Inv cvF curF.
  Proof.
    induction fuel as [|f IH]; intros carry cur c cF curF HI H; cbn [wloop ploop] in *; [discriminate|].
    unfold wcond. rewrite (cond_ext _ cur _ c (proj1 HI)).
    destruct (cond_fn cur (fun _ => false) c) as [[|]|]; try discriminate.
    - destruct (body_fn cur m c) as [[c' wp]|] eqn:Eb; [|discriminate].
      destruct (wbody_complete _ _ _ _ _ HI Eb) as (cv' & Ew). rewrite Ew.
      destruct (step_inv _ _ _ _ _ HI Ew) as (cur' & Hb' & HI'). rewrite Eb in Hb'. inversion Hb'; subst cur'.
      exact (IH _ _ _ _ _ HI' H).
    - inversion H; subst. exists carry. split; [reflexivity|exact HI].
  Qed.

  Theorem loop_is_while fuel c0 c cur r :
    wbody C body_fn im cf carry0 bcast c0 = Some r ->           (* tracing: the body succeeds on the initial values *)
    ploop C cond_fn body_fn fuel m xs c0 = Some (Some (c, cur)) ->
    exists xs', lift_while C cond_fn body_fn fuel om cf (FBool true) xs c0 = Some (POk C c xs') /\ cveq xs' cur.
  Proof.
    intros Hw Hp. pose proof (inv_init _ _ Hw) as HI0.
    destruct (ploop_sim _ _ _ _ _ _ HI0 Hp) as (cvF & Hl & HIF).
    unfold lift_while. rewrite groups_true. cbn [nth]. fold im. rewrite Hw, Hl.
    assert (Hc : exists b, wcond C cond_fn carry0 bcast c0 = Some b).
    { destruct fuel as [|f]; [discriminate|]. cbn [ploop] in Hp. unfold wcond. rewrite (cond_ext _ xs _ c0 (proj1 HI0)).
      destruct (cond_fn xs (fun _ => false) c0) as [b|]; [eauto|discriminate]. }
    destruct Hc as [b ->]. eexists. split; [reflexivity|]. now apply publish_final.
  Qed.

  (* collections that are not carried, or that the calling scope cannot mutate, come out as they went in -- whatever
     the broadcast filter and whatever the body does *)
  Theorem while_frame fuel bf c0 c xs' col :
    lift_while C cond_fn body_fn fuel om cf bf xs c0 = Some (POk C c xs') -> m col = false -> cv_get col xs' = cv_get col xs.
  Proof.
    unfold lift_while. cbn [cgroup nth]. fold im.
    set (bc := filter (fun cv => in_filter bf (fst cv)) (filter (fun cv => negb (in_filter cf (fst cv))) xs)).
    fold carry0.
    destruct (wcond C cond_fn carry0 bc c0); [|discriminate].
    destruct (wbody C body_fn im cf carry0 bc c0); [|discriminate].
    assert (G : forall fuel carry c1 cF cvF, (forall x, In x (map fst carry) -> in_filter cf x = true) ->
                wloop C cond_fn body_fn fuel im cf carry bc c1 = Some (Some (cF, cvF)) -> forall x, In x (map fst cvF) -> in_filter cf x = true).
    { induction fuel0 as [|f IH]; intros carry c1 cF cvF Hc H; cbn [wloop] in H; [discriminate|].
      destruct (wcond C cond_fn carry bc c1) as [[|]|]; try discriminate.
      - unfold wbody in H. destruct (body_fn (carry ++ bc) im c1) as [[c2 w]|]; [|discriminate].
        rewrite repack_single in H by (intros x; unfold im; rewrite inner_mutable_single; intros Hx; now apply andb_true_iff in Hx as [_ Hx]).
        destruct (cshape_eqb _ carry); [|discriminate]. apply (IH (filter (fun cv => im (fst cv)) w) c2 cF cvF); [|exact H].
        intros x Hx. apply in_map_iff in Hx as (e & <- & He). apply filter_In in He as [_ He].
        unfold im in He. rewrite inner_mutable_single in He. now apply andb_true_iff in He as [_ He].
      - inversion H; subst. exact Hc. }
    destruct (wloop C cond_fn body_fn fuel im cf carry0 bc c0) as [[[cF cvF]|]|] eqn:El; try discriminate.
    intros [= <- <-] Hm. apply publish_frame. intros k Hin.
    assert (Hc0 : forall x, In x (map fst carry0) -> in_filter cf x = true).
    { intros x Hx. apply in_map_iff in Hx as (e & <- & He). apply filter_In in He as [_ He]. exact He. }
    assert (Hc : in_filter cf col = true).
    { apply (G _ _ _ _ _ Hc0 El col). change col with (fst (col, k)). now apply in_map. }
    unfold m in Hm. rewrite Hc, andb_true_r in Hm. exact Hm.
  Qed.
End WhileFacts.

(* the statement language meets the hypotheses *)
Theorem kwhile_is_loop cond limit body fuel om cf xs c0 c xs' : cwf xs ->
  lift_while Z (kcond cond limit) (krun body) fuel om cf (FBool true) xs c0 = Some (POk Z c xs') ->
  exists cur, ploop Z (kcond cond limit) (krun body) fuel (fun col => om col && in_filter cf col) xs c0 = Some (Some (c, cur)) /\ cveq xs' cur.
Proof.
  intros Hwf. apply while_is_loop; [| | |exact Hwf].
  - intros v v' m c1 H. unfold kcond. now rewrite (xeval_ext v v' c1 cond H).
  - intros v v' m m' c1 H Hm. exact (krun_cveq body v v' m m' c1 H Hm).
  - intros v m c1 c2 w H col k Hc. destruct (krun_facts body v m c1 c2 w H) as (F & _ & _). unfold cv_entry. now rewrite (F col Hc).
Qed.

(* ---------------- cond / switch never fail on their own ---------------- *)
(* when every branch runs through on the scope it is given and all branches leave the mutable collections in the same
   structure (what lax.cond / lax.switch demand), the lifted call succeeds *)
Theorem switch_total Y bs idx vf om xs : bs <> [] ->
  (forall b, In b bs -> exists y gs, branch_out Y om vf xs b = Some (y, gs)) ->
  (forall b b' y gs y' gs', In b bs -> In b' bs -> branch_out Y om vf xs b = Some (y, gs) -> branch_out Y om vf xs b' = Some (y', gs') ->
     cshape (concat gs) = cshape (concat gs')) ->
  exists y xs', lift_switch Y bs idx vf om xs = POk Y y xs'.
Proof.
  intros Hne Hall Hsh. destruct bs as [|b1 br]; [contradiction|]. unfold lift_switch.
  set (n := Nat.min idx (length (b1 :: br) - 1)).
  assert (Hn : n < length (b1 :: br)) by (subst n; cbn [length]; lia).
  cbn [map]. change (branch_out Y om vf xs b1 :: map (branch_out Y om vf xs) br) with (map (branch_out Y om vf xs) (b1 :: br)).
  destruct (Hall b1 (or_introl eq_refl)) as (y1 & gs1 & H1).
  assert (Hf : forallb (fun o => match o, branch_out Y om vf xs b1 with
                                 | Some (_, gs), Some (_, gs0) => cshape_eqb (concat gs) (concat gs0)
                                 | _, _ => false end) (map (branch_out Y om vf xs) (b1 :: br)) = true).
  { apply forallb_forall. intros o Ho. apply in_map_iff in Ho as (b & <- & Hb).
    destruct (Hall b Hb) as (y & gs & H). rewrite H, H1. apply cshape_eqb_refl'.
    exact (Hsh b b1 y gs y1 gs1 Hb (or_introl eq_refl) H H1). }
  rewrite Hf.
  rewrite (nth_indep _ None (branch_out Y om vf xs b1)) by now rewrite map_length.
  rewrite map_nth. destruct (Hall (nth n (b1 :: br) b1) (nth_In _ _ Hn)) as (y & gs & H). rewrite H. eauto.
Qed.

(* ---------------- programs that only overwrite existing variables keep the structure ---------------- *)
Definition puts_existing (ss : list cstmt) (v : cvars) : bool :=
  forallb (fun s => match s with KPut c k _ => match cv_entry v c (NExp k) with Some _ => true | None => false end | KCarry _ => true end) ss.

Lemma nset_existing_names k v kids0 : nassoc k kids0 <> None -> map fst (nset k v kids0) = map fst kids0.
Proof.
  induction kids0 as [|[q w] r IH]; cbn [nassoc nset map fst]; [intros H; now contradiction H|].
  destruct (name_eqb k q) eqn:E; cbn [map fst]; [reflexivity|]. intros H. f_equal. now apply IH.
Qed.
Lemma cshape_cv_set_existing c kids1 xs kids0 : cv_get c xs = Some kids0 -> map fst kids1 = map fst kids0 ->
  cshape (cv_set c kids1 xs) = cshape xs.
Proof.
  induction xs as [|[d k0] r IH]; cbn [cv_get cv_set]; [discriminate|].
  destruct (N.eqb_spec c d) as [->|Hne]; intros H Hn.
  - inversion H; subst. unfold cshape. cbn [map fst snd]. now rewrite Hn.
  - unfold cshape in *. cbn [map fst snd]. f_equal. now apply IH.
Qed.
Lemma kput_existing_shape xs c k z : cv_entry xs c (NExp k) <> None -> cshape (kput xs c k z) = cshape xs.
Proof.
  unfold cv_entry, kput. destruct (cv_get c xs) as [kids0|] eqn:E; [|intros H; now contradiction H].
  intros H. apply (cshape_cv_set_existing c _ xs kids0 E). now apply nset_existing_names.
Qed.
Lemma cshape_entry_some a b c k : cshape a = cshape b -> (cv_entry a c k <> None <-> cv_entry b c k <> None).
Proof.
  intros H. pose proof (cshape_get a b H c) as G. unfold cv_entry.
  destruct (cv_get c a) as [ka|], (cv_get c b) as [kb|]; try contradiction; [|tauto].
  split; intros X Y; apply X.
  - now apply (nassoc_none_names kb ka k (eq_sym G)).
  - now apply (nassoc_none_names ka kb k G).
Qed.
Lemma krun_keeps_shape ss : forall v m cr c1 w, puts_existing ss v = true -> krun ss v m cr = Some (c1, w) -> cshape w = cshape v.
Proof.
  induction ss as [|[c k e|e] r IH]; intros v m cr c1 w Hp H; cbn [krun puts_existing forallb] in *.
  - now inversion H.
  - apply andb_true_iff in Hp as [Hk Hr].
    destruct (xeval v cr e) as [z|]; [|discriminate]. destruct (m c); [|discriminate].
    assert (He : cv_entry v c (NExp k) <> None) by (destruct (cv_entry v c (NExp k)); [discriminate|discriminate Hk]).
    pose proof (kput_existing_shape v c k z He) as Hs.
    assert (Hp' : puts_existing r (kput v c k z) = true); [|rewrite (IH _ _ _ _ _ Hp' H); exact Hs].
    unfold puts_existing. apply forallb_forall. intros s Hin. unfold puts_existing in Hr. rewrite forallb_forall in Hr. specialize (Hr s Hin).
    destruct s as [c' k' e'|e']; [|reflexivity].
    destruct (cv_entry v c' (NExp k')) eqn:E1; [|discriminate].
    assert (X : cv_entry (kput v c k z) c' (NExp k') <> None) by (apply (cshape_entry_some _ _ c' (NExp k') Hs); congruence).
    destruct (cv_entry (kput v c k z) c' (NExp k')); [reflexivity|now contradiction X].
  - destruct (xeval v cr e) as [z|]; [|discriminate]. apply andb_true_iff in Hp as [_ Hr]. exact (IH _ _ _ _ _ Hr H).
Qed.
Lemma cshape_filter (p : N -> bool) a b : cshape a = cshape b ->
  cshape (filter (fun cv => p (fst cv)) a) = cshape (filter (fun cv => p (fst cv)) b).
Proof.
  revert b. induction a as [|[c ka] r IH]; intros [|[d kb] r'] H; unfold cshape in H; cbn [map fst snd] in H; try discriminate; [reflexivity|].
  injection H as Hc Hk Hr. subst d. cbn [filter fst]. destruct (p c); [|now apply IH].
  unfold cshape. cbn [map fst snd]. rewrite Hk. f_equal. apply (IH r'). exact Hr.
Qed.
