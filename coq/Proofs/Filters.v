From Coq Require Import Lia.
From Flaxm Require Import Lib.Harness Model.Filters.

Lemma memN_app c a b : memN c (a ++ b) = memN c a || memN c b.
Proof. apply existsb_app. Qed.

Lemma memN_filter c (p : N -> bool) l : memN c (filter p l) = memN c l && p c.
Proof.
  unfold memN. induction l as [|x xs IH]; simpl; [reflexivity|].
  destruct (p x) eqn:Hp; simpl; rewrite IH; destruct (N.eqb_spec c x); subst; simpl;
    try rewrite Hp; destruct (existsb (N.eqb _) xs); simpl; auto.
Qed.

Lemma to_set_sem f l c : to_set f = Some l -> in_filter f c = memN c l.
Proof.
  destruct f as [[]|n|l'|g]; simpl; intros H; inversion H; subst; simpl; auto using orb_false_r.
Qed.

Lemma is_true_sem f c : is_true f = true -> in_filter f c = true.
Proof. destruct f as [[]| | |]; simpl; congruence. Qed.

Ltac sets H c :=
  match type of H with
  | match to_set ?a with _ => _ end = _ =>
      let Ea := fresh "Ea" in destruct (to_set a) eqn:Ea; [|discriminate];
      match type of H with
      | match to_set ?b with _ => _ end = _ =>
        let Eb := fresh "Eb" in destruct (to_set b) eqn:Eb; [|discriminate];
        inversion H; subst; clear H;
        rewrite (to_set_sem _ _ c Ea), (to_set_sem _ _ c Eb)
      end
  end.

Ltac fin c := cbn [in_filter sem];
  repeat match goal with |- context[in_filter ?f c] => is_var f; destruct (in_filter f c) end;
  repeat match goal with |- context[memN ?p ?l] => destruct (memN p l) end;
  repeat match goal with |- context[N.eqb ?p ?l] => destruct (N.eqb p l) end;
  repeat match goal with b:bool |- _ => destruct b end; try reflexivity; try discriminate.

Ltac viaopt IH H c :=
  match type of H with option_map _ ?x = _ =>
    let E := fresh "E" in destruct x eqn:E; [|discriminate]; cbn [option_map] in H; inversion H; subst; clear H;
    cbn [in_filter]; rewrite (IH _ _ _ _ c E); simpl; fin c end.

Theorem comb_sound : forall fuel o a b r c,
  comb fuel o a b = Some r -> in_filter r c = sem o (in_filter a c) (in_filter b c).
Proof.
  induction fuel as [|k IH]; intros o a b r c H; [discriminate|].
  destruct o; cbn [comb] in H.
  - destruct (is_true a) eqn:Ta; [inversion H; subst; simpl; now rewrite (is_true_sem _ c Ta)|].
    destruct (is_true b) eqn:Tb; [inversion H; subst; simpl; rewrite (is_true_sem _ c Tb); now rewrite orb_true_r|].
    cbn [orb] in H.
    destruct a as [ba|na|la|a']; destruct b as [bb|nb|lb|b'];
    try (sets H c; simpl; unfold lunion; now rewrite memN_app);
    try (viaopt IH H c).
  - destruct (is_true b) eqn:Tb; [inversion H; subst; simpl; rewrite (is_true_sem _ c Tb); now rewrite andb_false_r|].
    destruct (is_true a) eqn:Ta; [inversion H; subst; simpl; now rewrite (is_true_sem _ c Ta)|].
    destruct a as [ba|na|la|a']; destruct b as [bb|nb|lb|b'];
    try (sets H c; simpl; unfold lsub; now rewrite memN_filter);
    try (viaopt IH H c);
    try (cbn [in_filter]; rewrite (IH _ _ _ _ c H); simpl; fin c).
  - destruct (is_true a) eqn:Ta; [inversion H; subst; simpl; now rewrite (is_true_sem _ c Ta)|].
    destruct (is_true b) eqn:Tb; [inversion H; subst; simpl; rewrite (is_true_sem _ c Tb); now rewrite andb_true_r|].
    destruct a as [ba|na|la|a']; destruct b as [bb|nb|lb|b'];
    try (sets H c; simpl; unfold linter; now rewrite memN_filter);
    try (viaopt IH H c);
    try (cbn [in_filter]; rewrite (IH _ _ _ _ c H); simpl; fin c).
Qed.

(* Totality: the assertion inside filter_to_set is unreachable and the recursion terminates, the
   measure being size a + size b. *)
Lemma to_set_some f : is_true f = false -> (forall g, f <> FDeny g) -> exists l, to_set f = Some l.
Proof.
  destruct f as [[]|n|l|g]; simpl; intros H1 H2; try discriminate; eauto.
  exfalso; now apply (H2 g).
Qed.

Theorem comb_total : forall fuel o a b, size a + size b < fuel -> exists r, comb fuel o a b = Some r.
Proof.
  induction fuel as [|k IH]; intros o a b Hs; [lia|].
  destruct o; cbn [comb].
  - destruct (is_true a) eqn:Ta; [cbn [orb]; eauto|]. destruct (is_true b) eqn:Tb; [cbn [orb]; eauto|]. cbn [orb].
    destruct a as [ba|na|la|a']; destruct b as [bb|nb|lb|b']; cbn [size] in Hs;
    try (match goal with |- exists r, option_map _ (comb k ?o ?x ?y) = _ =>
           let r := fresh "r" in let E := fresh "E" in
           destruct (IH o x y) as [r E]; [cbn [size]; lia|]; rewrite E; simpl; eauto end);
    try (destruct ba; try discriminate); try (destruct bb; try discriminate); simpl; eauto.
  - destruct (is_true b) eqn:Tb; [eauto|]. destruct (is_true a) eqn:Ta; [eauto|].
    destruct a as [ba|na|la|a']; destruct b as [bb|nb|lb|b']; cbn [size] in Hs;
    try (match goal with |- exists r, option_map _ (comb k ?o ?x ?y) = _ =>
           let r := fresh "r" in let E := fresh "E" in
           destruct (IH o x y) as [r E]; [cbn [size]; lia|]; rewrite E; simpl; eauto end);
    try (match goal with |- exists r, comb k ?o ?x ?y = _ => apply IH; cbn [size]; lia end);
    try (destruct ba; try discriminate); try (destruct bb; try discriminate); simpl; eauto.
  - destruct (is_true a) eqn:Ta; [eauto|]. destruct (is_true b) eqn:Tb; [eauto|].
    destruct a as [ba|na|la|a']; destruct b as [bb|nb|lb|b']; cbn [size] in Hs;
    try (match goal with |- exists r, option_map _ (comb k ?o ?x ?y) = _ =>
           let r := fresh "r" in let E := fresh "E" in
           destruct (IH o x y) as [r E]; [cbn [size]; lia|]; rewrite E; simpl; eauto end);
    try (match goal with |- exists r, comb k ?o ?x ?y = _ => apply IH; cbn [size]; lia end);
    try (destruct ba; try discriminate); try (destruct bb; try discriminate); simpl; eauto.
Qed.

Corollary comb_top_total o a b : exists r, comb_top o a b = Some r.
Proof. apply comb_total; lia. Qed.

Corollary comb_top_sound o a b r c :
  comb_top o a b = Some r -> in_filter r c = sem o (in_filter a c) (in_filter b c).
Proof. apply comb_sound. Qed.

(* ---------- emptiness ---------- *)
(* a name outside a finite list exists: names are unbounded *)
Definition fresh (l : list N) : N := N.succ (fold_right N.max 0%N l).
Lemma le_fold_max x l : In x l -> (x <= fold_right N.max 0 l)%N.
Proof. induction l as [|y ys IH]; simpl; intros H; [contradiction|]. destruct H as [->|H]; [lia|]. specialize (IH H). lia. Qed.
Lemma fresh_not_mem l : memN (fresh l) l = false.
Proof.
  unfold memN. destruct (existsb (N.eqb (fresh l)) l) eqn:E; [|reflexivity].
  apply existsb_exists in E as (x & Hin & Hx). apply N.eqb_eq in Hx. apply le_fold_max in Hin. unfold fresh in Hx. lia.
Qed.

Lemma decide_ef_spec f :
  (is_empty f = true <-> forall c, in_filter f c = false) /\
  (is_full f = true <-> forall c, in_filter f c = true).
Proof.
  unfold is_empty, is_full. induction f as [b|n|l|g [IHe IHf]]; cbn [decide_ef in_filter negb].
  - destruct b; simpl; split; split; intros H; try reflexivity; try discriminate; try (specialize (H 0%N); discriminate); auto.
  - split; split; intros H; try discriminate.
    + specialize (H n). now rewrite N.eqb_refl in H.
    + specialize (H (N.succ n)). apply N.eqb_eq in H. lia.
  - split; split; intros H; try discriminate.
    + destruct l; [reflexivity|discriminate].
    + destruct l as [|x xs]; [reflexivity|]. specialize (H x). unfold memN in H. simpl in H. now rewrite N.eqb_refl in H.
    + specialize (H (fresh l)). now rewrite fresh_not_mem in H.
  - split; split; intros H.
    + intros c. now rewrite (proj1 IHf H).
    + apply (proj2 IHf). intros c. specialize (H c). now destruct (in_filter g c).
    + intros c. now rewrite (proj1 IHe H).
    + apply (proj2 IHe). intros c. specialize (H c). now destruct (in_filter g c).
Qed.

Theorem is_empty_iff f : is_empty f = true <-> forall c, in_filter f c = false.
Proof. apply decide_ef_spec. Qed.

(* The stub-probing version (the code before the repair) is wrong on nested DenyLists and on the stub. *)
Theorem is_empty_stub_refuted_nested stub :
  exists f c, is_empty_stub stub f = true /\ in_filter f c = true /\ (forall n, f <> FDeny (FName n) \/ n <> stub).
Proof.
  exists (FDeny (FDeny (FName (N.succ stub)))), (N.succ stub). cbn.
  rewrite N.eqb_refl. replace (N.eqb stub (N.succ stub)) with false by (symmetry; apply N.eqb_neq; lia).
  repeat split; auto. intros n. left. discriminate.
Qed.
Theorem is_empty_stub_refuted_stub stub :
  is_empty_stub stub (FDeny (FName stub)) = true /\ in_filter (FDeny (FName stub)) (N.succ stub) = true.
Proof. cbn. rewrite N.eqb_refl. replace (N.eqb (N.succ stub) stub) with false by (symmetry; apply N.eqb_neq; lia). auto. Qed.

(* ---------- group_collections is a first-match partition ---------- *)
Fixpoint first_match (fs : list filt) (c : N) : option nat :=
  match fs with
  | [] => None
  | f :: r => if in_filter f c then Some 0 else option_map S (first_match r c)
  end.

Lemma filter_filter {A} (p q : A -> bool) l : filter p (filter q l) = filter (fun x => q x && p x) l.
Proof. induction l as [|x xs IH]; simpl; [reflexivity|]. destruct (q x); simpl; [destruct (p x)|]; now rewrite IH. Qed.

Theorem group_first_match : forall fs cols i,
  nth_error (group cols fs) i =
  if Nat.ltb i (length fs) then Some (filter (fun c => match first_match fs c with Some j => Nat.eqb j i | None => false end) cols)
  else None.
Proof.
  induction fs as [|f r IH]; intros cols i; cbn [group length].
  - destruct i; reflexivity.
  - destruct i as [|i]; cbn [nth_error].
    + simpl. f_equal. apply filter_ext. intros c. simpl. destruct (in_filter f c); [reflexivity|].
      destruct (first_match r c); reflexivity.
    + rewrite IH. change (Nat.ltb (S i) (S (length r))) with (Nat.ltb i (length r)).
      destruct (Nat.ltb i (length r)); [|reflexivity]. f_equal. rewrite filter_filter.
      apply filter_ext. intros c. cbn [first_match]. destruct (in_filter f c); simpl; [reflexivity|].
      destruct (first_match r c); reflexivity.
Qed.

Lemma group_length cols fs : length (group cols fs) = length fs.
Proof. revert cols; induction fs as [|f r IH]; intros cols; simpl; [reflexivity|]. now rewrite IH. Qed.

(* Each collection lands in exactly the first group whose filter matches, and in no other;
   unmatched collections are dropped; relative order is kept (filter preserves order). *)
Theorem group_partition fs cols i g c :
  nth_error (group cols fs) i = Some g ->
  (In c g <-> In c cols /\ first_match fs c = Some i).
Proof.
  rewrite group_first_match. destruct (Nat.ltb i (length fs)); [|discriminate].
  intros H; inversion H; subst; clear H. rewrite filter_In. split; intros [H1 H2]; split; auto.
  - destruct (first_match fs c) as [j|]; [|discriminate]. apply Nat.eqb_eq in H2. now subst.
  - rewrite H2. apply Nat.eqb_refl.
Qed.
