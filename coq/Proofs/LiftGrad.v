(* Proofs about Model/LiftGrad.v: routing of cotangents, the vjp/jvp adjoint relation, side effects once. *)
From Coq Require Import Lia ZArith Ring.
From Flaxm Require Import Lib.Harness Model.Filters Model.NnxFilters Model.NnxLift Model.LiftGrad Proofs.NnxLift.
Open Scope Z_scope.

(* exactly the variables of the collections matched by vjp_variables receive a cotangent; no other collection appears *)
Theorem vjp_routing f d ct :
  map fst (snd (fst (vjp_model f d ct))) = selected f d /\
  forall i, In i (selected f d) <-> (i < nvars d)%nat /\ in_filter f (nth i (d_cols d) 0%N) = true.
Proof.
  split.
  - unfold vjp_model. cbn [fst snd]. rewrite map_map. cbn [fst]. apply map_id.
  - intros i. unfold selected. rewrite filter_In, in_seq. split; [intros [[_ H] F]; split; [lia|exact F]|intros [H F]; split; [lia|exact F]].
Qed.

(* each of those numbers is ct times the partial derivative of the function in that variable, and `partial` is the derivative *)
Theorem vjp_values f d ct i g : In (i, g) (snd (fst (vjp_model f d ct))) -> g = ct * partial d i.
Proof. unfold vjp_model. cbn [fst snd]. intros H. apply in_map_iff in H as (j & E & _). now inversion E. Qed.
Theorem partial_is_derivative d i h : (i < length (d_vals d))%nat ->
  exists r, geval (upd i (Z.add h) (fwd_vals d)) 0 (d_poly d) = primal d + h * partial d i + h * h * r.
Proof. intros Hi. unfold primal, partial. apply deriv_is_derivative. unfold fwd_vals. now rewrite map_length, seq_length. Qed.

Lemma sum_scale {A} (c : Z) (f : A -> Z) l : c * fold_right Z.add 0 (map f l) = fold_right Z.add 0 (map (fun x => c * f x) l).
Proof. induction l as [|a r IH]; simpl; [ring|]. rewrite <- IH. ring. Qed.

(* vjp and jvp are adjoint: pairing the cotangents vjp returns with any tangents equals ct times the tangent jvp returns *)
Theorem vjp_jvp_adjoint d ct (tvars : list (nat * Z)) (tins : list Z) :
  ct * snd (jvp_model d tvars tins) =
  fold_right Z.add 0 (map (fun it => (ct * partial d (fst it)) * snd it) tvars) +
  fold_right Z.add 0 (map (fun kt => (ct * partial d (nvars d + fst kt)) * snd kt) (combine (seq 0 (nins d)) tins)).
Proof.
  unfold jvp_model. cbn [snd]. rewrite Z.mul_add_distr_l, !sum_scale.
  assert (E1 : map (fun x : nat * Z => ct * (snd x * partial d (fst x))) tvars = map (fun it => ct * partial d (fst it) * snd it) tvars)
    by (apply map_ext; intros [a b]; cbn [fst snd]; ring).
  assert (E2 : map (fun x : nat * Z => ct * (snd x * partial d (nvars d + fst x))) (combine (seq 0 (nins d)) tins) =
               map (fun kt => ct * partial d (nvars d + fst kt) * snd kt) (combine (seq 0 (nins d)) tins))
    by (apply map_ext; intros [a b]; cbn [fst snd]; ring).
  now rewrite E1, E2.
Qed.

(* the updates of the forward pass are published once: a bumped variable ends exactly one higher, the others unchanged *)
Theorem forward_effects_once d i : (i < nvars d)%nat -> (nvars d <= length (d_vals d))%nat ->
  nth i (vars_after d) 0 = nth i (d_vals d) 0 + (if existsb (Nat.eqb i) (d_bumps d) then 1 else 0).
Proof.
  intros Hi Hl. unfold vars_after, fwd_vals.
  assert (E : forall (l : list Z) n k, (k < n)%nat -> (n <= length l)%nat -> nth k (firstn n l) 0 = nth k l 0).
  { induction l as [|a l IH]; intros n k H1 H2.
    - simpl in H2. lia.
    - destruct n as [|n]; [lia|]. destruct k as [|k]; simpl; [reflexivity|]. apply IH; simpl in H2; lia. }
  rewrite E by (rewrite ?map_length, ?seq_length; lia).
  rewrite (nth_indep _ 0 ((fun j => nth j (d_vals d) 0 + (if existsb (Nat.eqb j) (d_bumps d) then 1 else 0)) 0%nat)) by (rewrite map_length, seq_length; lia).
  rewrite (map_nth (fun j => nth j (d_vals d) 0 + (if existsb (Nat.eqb j) (d_bumps d) then 1 else 0))), seq_nth by lia. reflexivity.
Qed.

(* ---- histories: n calls publish the forward-pass updates n times, whatever mixture of direct and differentiated calls ---- *)
Lemma firstn_nth_Z (l : list Z) n k : (k < n)%nat -> (n <= length l)%nat -> nth k (firstn n l) 0 = nth k l 0.
Proof.
  revert n k. induction l as [|a l IH]; intros n k H1 H2.
  - simpl in H2. lia.
  - destruct n as [|n]; [lia|]. destruct k as [|k]; simpl; [reflexivity|]. apply IH; simpl in H2; lia.
Qed.

Lemma vars_after_length d : (nvars d <= length (d_vals d))%nat -> length (vars_after d) = nvars d.
Proof. intros H. unfold vars_after, fwd_vals. rewrite firstn_length, map_length, seq_length. lia. Qed.

Lemma next_d_length d : (nvars d <= length (d_vals d))%nat -> length (d_vals (next_d d)) = length (d_vals d).
Proof. intros H. unfold next_d. cbn [d_vals]. rewrite app_length, vars_after_length, skipn_length by exact H. lia. Qed.

Lemma next_d_nth d i : (i < nvars d)%nat -> (nvars d <= length (d_vals d))%nat ->
  nth i (d_vals (next_d d)) 0 = nth i (d_vals d) 0 + (if existsb (Nat.eqb i) (d_bumps d) then 1 else 0).
Proof.
  intros Hi Hl. unfold next_d. cbn [d_vals]. rewrite app_nth1 by (rewrite vars_after_length by exact Hl; exact Hi).
  apply forward_effects_once; assumption.
Qed.

Theorem effects_once_per_call n : forall d i, (i < nvars d)%nat -> (nvars d <= length (d_vals d))%nat ->
  nth i (snd (hist n d)) 0 = nth i (d_vals d) 0 + (if existsb (Nat.eqb i) (d_bumps d) then Z.of_nat n else 0).
Proof.
  induction n as [|n IH]; intros d i Hi Hl.
  - cbn [hist snd]. rewrite firstn_nth_Z by assumption. destruct (existsb _ _); lia.
  - cbn [hist]. destruct (hist n (next_d d)) as [ys vs] eqn:E. cbn [snd].
    assert (H := IH (next_d d) i). rewrite E in H. cbn [snd] in H.
    assert (Hn : nvars (next_d d) = nvars d) by reflexivity.
    rewrite H by (rewrite ?Hn, ?next_d_length by exact Hl; assumption).
    rewrite next_d_nth by assumption. change (d_bumps (next_d d)) with (d_bumps d).
    destruct (existsb _ _); lia.
Qed.

(* the inputs and the number of outputs are unaffected *)
Theorem hist_outputs n : forall d, length (fst (hist n d)) = n.
Proof. induction n as [|n IH]; intros d; cbn [hist]; [reflexivity|]. specialize (IH (next_d d)). destruct (hist n (next_d d)). cbn [fst] in *. simpl. lia. Qed.

(* custom_vjp: the forward value is that of the original function whatever the rule; the rule is what differentiation sees, for
   exactly the variables of the selected collections and for every input *)
Theorem custom_vjp_forward f d rv ri ct : fst (fst (custom_vjp_model f d rv ri ct)) = custom_vjp_value d.
Proof. reflexivity. Qed.
Theorem custom_vjp_routing f d rv ri ct : map fst (snd (fst (custom_vjp_model f d rv ri ct))) = selected f d.
Proof. unfold custom_vjp_model, vjp_model. cbn [fst snd]. rewrite !map_map. cbn [fst]. apply map_id. Qed.
Theorem custom_vjp_rule_vars f d rv ri ct i g : In (i, g) (snd (fst (custom_vjp_model f d rv ri ct))) -> g = rv * (ct * partial d i).
Proof.
  unfold custom_vjp_model, vjp_model. cbn [fst snd]. rewrite map_map. cbn [fst snd]. intros H.
  apply in_map_iff in H as (j & E & _). now inversion E.
Qed.
Theorem custom_vjp_rule_inputs f d rv ri ct k : (k < nins d)%nat ->
  nth k (snd (custom_vjp_model f d rv ri ct)) 0 = ri * (ct * partial d (nvars d + k)).
Proof.
  intros Hk. unfold custom_vjp_model, vjp_model. cbn [fst snd]. rewrite map_map.
  assert (G : forall n s j, (j < n)%nat -> nth j (map (fun x => ri * (ct * partial d (nvars d + x))) (seq s n)) 0 = ri * (ct * partial d (nvars d + (s + j)))).
  { induction n as [|n IH]; intros s j Hj; [lia|]. cbn [seq map]. destruct j as [|j]; cbn [nth]; [now rewrite Nat.add_0_r|].
    rewrite IH by lia. do 4 f_equal. lia. }
  now rewrite G.
Qed.
