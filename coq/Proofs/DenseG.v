(* DenseGeneral over the last axis of a matrix is Dense: the flat-tensor model of Model/Layers.v dense_general and the row model
   dense agree. *)
From Coq Require Import ZArith List Arith Lia.
Import ListNotations.
From Flaxm Require Import Lib.Harness Model.NdIndex Model.Layers Proofs.NdIndex.
Close Scope Q_scope.
Close Scope Z_scope.
Open Scope nat_scope.

Lemma nth_concat_uniform {A} (d : A) m : forall (xs : list (list A)) i c,
  Forall (fun r => length r = m) xs -> i < length xs -> c < m -> nth (i * m + c) (concat xs) d = nth c (nth i xs []) d.
Proof.
  induction xs as [|r xs IH]; intros i c HF Hi Hc; cbn [length] in Hi; [lia|].
  pose proof (Forall_inv HF) as Hr. pose proof (Forall_inv_tail HF) as HF'. cbn beta in Hr. cbn [concat]. destruct i as [|i].
  - cbn [Nat.mul Nat.add nth]. apply app_nth1. lia.
  - cbn [nth]. rewrite app_nth2 by (rewrite Hr; lia). rewrite Hr. replace (S i * m + c - m) with (i * m + c) by lia.
    apply IH; [exact HF'|lia|exact Hc].
Qed.

Lemma seq_shift_map s n k : seq (s + k) n = map (fun o => o + k) (seq s n).
Proof. revert s. induction n as [|n IH]; intros s; cbn [seq map]; [reflexivity|]. f_equal. apply (IH (S s)). Qed.

Lemma concat_map_seq {A B} (h : A -> nat -> B) (dflt : A) m : 0 < m -> forall xs,
  concat (map (fun x => map (h x) (seq 0 m)) xs) = map (fun o => h (nth (o / m) xs dflt) (o mod m)) (seq 0 (length xs * m)).
Proof.
  intros Hm. induction xs as [|x xs IH]; [reflexivity|]. cbn [map concat length].
  replace (S (length xs) * m) with (m + length xs * m) by lia. rewrite seq_app, map_app. f_equal.
  - apply map_ext_in. intros o Ho. apply in_seq in Ho. rewrite Nat.div_small, Nat.mod_small by lia. reflexivity.
  - rewrite IH. rewrite (seq_shift_map 0 (length xs * m) m), map_map. apply map_ext_in. intros o _.
    replace (o + m) with (o + 1 * m) by lia. rewrite Nat.div_add, Nat.mod_add by lia. rewrite Nat.add_1_r. reflexivity.
Qed.

Lemma zsum_combine_seq (g : Z * row -> Z) : forall (a : row) (b : list row), length a = length b ->
  zsum (map g (combine a b)) = fold_right Z.add 0%Z (map (fun c => g (nth c a 0%Z, nth c b [])) (seq 0 (length a))).
Proof.
  induction a as [|x a IH]; intros [|y b] H; cbn [length] in H; try discriminate; [reflexivity|].
  cbn [combine map zsum fold_right length seq]. f_equal.
  change (fold_right Z.add 0%Z (map g (combine a b))) with (zsum (map g (combine a b))). rewrite IH by lia.
  rewrite <- seq_shift, map_map. reflexivity.
Qed.

Theorem dense_general_is_dense n cin nout (xs k : list row) b :
  0 < nout -> length xs = n -> Forall (fun r => length r = cin) xs -> length k = cin -> Forall (fun r => length r = nout) k ->
  dense_general [n; cin] [1] [nout] (concat xs) (concat k) b = concat (dense k b nout xs).
Proof.
  intros Hno Hn Hxs Hk Hks. unfold dense.
  set (h := fun (x : row) (o0 : nat) => (zsum (map (fun ik : Z * row => (fst ik * getc (snd ik) o0)%Z) (combine x k)) +
                                          match b with Some bb => getc bb o0 | None => 0 end)%Z).
  change (dense_row k b nout) with (fun x => map (h x) (seq 0 nout)). transitivity (map (fun o => h (nth (o / nout) xs []) (o mod nout)) (seq 0 (length xs * nout))); [|symmetry; exact (concat_map_seq h [] nout Hno xs)].
  unfold dense_general. cbn [length nsort fold_right ninsert seq filter existsb Nat.eqb negb orb map nth app prod].
  rewrite !Nat.mul_1_r, Hn. apply map_ext_in. intros o Ho. apply in_seq in Ho.
  assert (Hi : o / nout < n) by (apply Nat.div_lt_upper_bound; lia).
  assert (Hf : o mod nout < nout) by (apply Nat.mod_upper_bound; lia).
  cbn [unravel prod fold_right firstn skipn]. rewrite !Nat.mul_1_r, !Nat.div_1_r.
  unfold h.
  assert (Hrow : length (nth (o / nout) xs []) = cin).
  { rewrite Forall_forall in Hxs. apply Hxs. apply nth_In. lia. }
  f_equal.
  - rewrite (zsum_combine_seq (fun ik => (fst ik * getc (snd ik) (o mod nout))%Z)) by lia. rewrite Hrow.
    f_equal. apply map_ext_in. intros c Hc. apply in_seq in Hc. cbn [fst snd app].
    cbn [unravel prod fold_right place map seq index_of Nat.eqb option_map nth ravel]. rewrite !Nat.div_1_r, !Nat.mul_1_r, !Nat.add_0_r.
    unfold znth, getc. f_equal.
    + apply (nth_concat_uniform 0%Z cin xs (o / nout) c Hxs); [unfold row in *; rewrite Hn; exact Hi|destruct Hc as [_ Hc]; rewrite ?Nat.mul_1_r in Hc; exact Hc].
    + apply (nth_concat_uniform 0%Z nout k c (o mod nout) Hks); [unfold row in *; rewrite Hk; destruct Hc as [_ Hc]; rewrite ?Nat.mul_1_r in Hc; exact Hc|exact Hf].
  - destruct b as [bb|]; [|reflexivity]. cbn [ravel prod fold_right]. rewrite !Nat.mul_1_r, Nat.add_0_r. reflexivity.
Qed.
