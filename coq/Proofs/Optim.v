From Coq Require Import Lia QArith Qfield Setoid Morphisms.
From Flaxm Require Import Lib.Harness Model.NnxFilters Model.Optim.

(* ---------------- TrainState ---------------- *)
Section W.
  Variables P G O U : Type.
  Variable tx_update : G -> O -> P -> U * O.
  Variable apply_updates : P -> U -> P.
  Let ag := apply_gradients P G O U tx_update apply_updates.
  Let hs := hand_step P G O U tx_update apply_updates.

  (* one call = tx.update followed by apply_updates, step + 1, nothing else *)
  Theorem apply_gradients_is_optax ts g :
    ts_step (ag ts g) = (ts_step ts + 1)%N /\
    (ts_params (ag ts g), ts_ostate (ag ts g)) = hs (ts_params ts, ts_ostate ts) g.
  Proof. unfold ag, hs, apply_gradients, hand_step. simpl. destruct (tx_update g (ts_ostate ts) (ts_params ts)). simpl. auto. Qed.

  (* k calls = the hand-written loop, for every transformation and every sequence of gradients *)
  Theorem k_steps gs : forall ts,
    ts_step (fold_left ag gs ts) = (ts_step ts + N.of_nat (length gs))%N /\
    (ts_params (fold_left ag gs ts), ts_ostate (fold_left ag gs ts)) = fold_left hs gs (ts_params ts, ts_ostate ts).
  Proof.
    induction gs as [|g r IH]; intros ts; simpl; [split; [lia|reflexivity]|].
    destruct (IH (ag ts g)) as [H1 H2]. destruct (apply_gradients_is_optax ts g) as [S1 S2].
    split; [rewrite H1, S1; lia|]. rewrite H2, S2. reflexivity.
  Qed.
End W.

(* ---------------- nnx.Optimizer: only the Variables selected by wrt change ---------------- *)
Lemma plookup_none p (s : flatp) : ~ In p (map fst s) -> plookup p s = None.
Proof.
  induction s as [|[q x] r IH]; simpl; intros H; [reflexivity|].
  destruct (list_beq N.eqb p q) eqn:E.
  - exfalso. apply H. left. symmetry. apply (proj1 (list_beq_spec N.eqb N.eqb_eq p q) E).
  - apply IH. tauto.
Qed.

Lemma apply_updates_paths p u : map fst u = map fst p -> map fst (apply_updates_flat p u) = map fst p.
Proof.
  unfold apply_updates_flat. revert u; induction p as [|[q x] r IH]; intros [|[q' y] u'] H; simpl in *; try discriminate; [reflexivity|].
  injection H as Hq Hr. f_equal. now apply IH.
Qed.

Lemma state_of_paths wrt vars : map fst (state_of wrt vars) = map v_path (filter (selected wrt) vars).
Proof. unfold state_of. now rewrite map_map. Qed.

Section Frame.
  Variable O : Type.
  Variable tx_update : flatp -> O -> flatp -> flatp * O.
  (* optax transformations return updates with the structure of the params *)
  Hypothesis tx_structure : forall g o p, map fst (fst (tx_update g o p)) = map fst p.

  Theorem opt_update_frame wrt (o : opt O) grads v :
    NoDup (map v_path (o_vars o)) -> In v (o_vars o) -> selected wrt v = false ->
    In v (o_vars (opt_update O tx_update wrt o grads)) /\
    o_step (opt_update O tx_update wrt o grads) = (o_step o + 1)%N.
  Proof.
    intros ND Hin Hs. unfold opt_update. pose proof (tx_structure grads (o_state o) (state_of wrt (o_vars o))) as TS.
    destruct (tx_update grads (o_state o) (state_of wrt (o_vars o))) as [u s']. simpl in *. split; [|reflexivity].
    unfold write_back. apply in_map_iff. exists v. split; [|exact Hin].
    rewrite plookup_none; [reflexivity|]. rewrite apply_updates_paths by exact TS. rewrite state_of_paths.
    intros Hp. apply in_map_iff in Hp as (w & Hw & Hwin). apply filter_In in Hwin as [Hwin Hws].
    assert (w = v); [|subst; congruence].
    clear -ND Hin Hwin Hw. induction (o_vars o) as [|x r IH]; [contradiction|]. simpl in ND. inversion ND as [|? ? Hn Hr]; subst.
    destruct Hin as [->|Hin]; destruct Hwin as [->|Hwin]; auto.
    - exfalso. apply Hn. rewrite <- Hw. now apply in_map.
    - exfalso. apply Hn. rewrite Hw. now apply in_map.
  Qed.

  (* the selected ones receive params + update, at the same path, keeping their type *)
  Lemma plookup_hit p x (s : flatp) : NoDup (map fst s) -> In (p, x) s -> plookup p s = Some x.
  Proof.
    induction s as [|[q y] r IH]; simpl; intros ND H; [contradiction|]. inversion ND as [|? ? Hn Hr]; subst.
    destruct H as [H|H].
    - inversion H; subst. assert (list_beq N.eqb p p = true) as -> by (apply list_beq_spec; [apply N.eqb_eq|reflexivity]). reflexivity.
    - destruct (list_beq N.eqb p q) eqn:E; [|now apply IH].
      apply (proj1 (list_beq_spec N.eqb N.eqb_eq p q)) in E. subst. exfalso. apply Hn. apply in_map_iff. exists (q, x). auto.
  Qed.

  Theorem opt_update_selected wrt (o : opt O) grads v newval :
    NoDup (map v_path (o_vars o)) -> In v (o_vars o) ->
    In (v_path v, newval)
       (apply_updates_flat (state_of wrt (o_vars o)) (fst (tx_update grads (o_state o) (state_of wrt (o_vars o))))) ->
    In (mkVar (v_path v) (v_mro v) newval) (o_vars (opt_update O tx_update wrt o grads)).
  Proof.
    intros ND Hin Hnew. unfold opt_update. pose proof (tx_structure grads (o_state o) (state_of wrt (o_vars o))) as TS.
    destruct (tx_update grads (o_state o) (state_of wrt (o_vars o))) as [u s']. simpl in *.
    unfold write_back. apply in_map_iff. exists v. split; [|exact Hin].
    rewrite (plookup_hit _ newval); [reflexivity| |exact Hnew].
    rewrite apply_updates_paths by exact TS. rewrite state_of_paths.
    clear -ND. induction (o_vars o) as [|x r IH]; simpl; [constructor|]. inversion ND as [|? ? Hn Hr]; subst.
    destruct (selected wrt x); simpl; [constructor; [|now apply IH]|now apply IH].
    intros H. apply Hn. apply in_map_iff in H as (w & Hw & Hwin). apply filter_In in Hwin as [Hwin _]. rewrite <- Hw. now apply in_map.
  Qed.
End Frame.

Theorem opt_state_wrap_roundtrip l : unwrap (wrap l) = l.
Proof. destruct l; reflexivity. Qed.
Theorem opt_state_unwrap_roundtrip w : wrap (unwrap w) = w.
Proof. destruct w; reflexivity. Qed.

(* ---------------- metrics ---------------- *)
Open Scope Q_scope.

Lemma qsum_app a b : qsum (a ++ b) == qsum a + qsum b.
Proof. induction a as [|x r IH]; simpl; [ring|]. rewrite IH. ring. Qed.
Lemma qsumsq_app a b : qsumsq (a ++ b) == qsumsq a + qsumsq b.
Proof. induction a as [|x r IH]; simpl; [ring|]. rewrite IH. ring. Qed.
Lemma qlen_app a b : qlen (a ++ b) == qlen a + qlen b.
Proof. unfold qlen. rewrite app_length, Nat2Z.inj_add, inject_Z_plus. reflexivity. Qed.
Lemma qlen_pos a : a <> [] -> 0 < qlen a.
Proof. unfold qlen. destruct a; [contradiction|]. intros _. unfold Qlt, inject_Z. cbn [Qnum Qden length]. lia. Qed.
Lemma qlen_nonneg a : 0 <= qlen a.
Proof. unfold qlen, Qle, inject_Z. cbn [Qnum Qden]. lia. Qed.

(* Average (and Accuracy, which feeds 0/1 values to it): the state after any split into batches is the state
   of the concatenated stream *)
Theorem average_batching batches : forall s,
  fst (fold_left avg_update batches s) == fst s + qsum (concat batches) /\
  snd (fold_left avg_update batches s) == snd s + qlen (concat batches).
Proof.
  induction batches as [|b r IH]; intros s; simpl.
  - split; unfold qlen; simpl; ring.
  - destruct (IH (avg_update s b)) as [H1 H2]. rewrite H1, H2. unfold avg_update. simpl.
    rewrite qsum_app, qlen_app. split; ring.
Qed.

Definition eq3 (a b : wf_state) : Prop :=
  let '(n1, m1, s1) := a in let '(n2, m2, s2) := b in n1 == n2 /\ m1 == m2 /\ s1 == s2.

Lemma wf_update_proper a b batch : eq3 a b -> eq3 (wf_update a batch) (wf_update b batch).
Proof.
  destruct a as [[n1 m1] s1], b as [[n2 m2] s2]. intros (H1 & H2 & H3). simpl. rewrite H1, H2, H3. repeat split; reflexivity.
Qed.

(* first batch from the reset state *)
Lemma wf_first batch : batch <> [] -> eq3 (wf_update wf_init batch) (of_sums (qlen batch) (qsum batch) (qsumsq batch)).
Proof.
  intros Hne. pose proof (qlen_pos batch Hne) as Hp. unfold wf_update, wf_init, of_sums. simpl.
  assert (~ qlen batch == 0) by (intros E; rewrite E in Hp; now apply Qlt_irrefl in Hp).
  repeat split; field; auto.
Qed.

(* Chan's merge of a batch into the summary of what came before gives the summary of the concatenation *)
Lemma wf_merge c a b batch : 0 < c -> batch <> [] ->
  eq3 (wf_update (of_sums c a b) batch) (of_sums (c + qlen batch) (a + qsum batch) (b + qsumsq batch)).
Proof.
  intros Hc Hne. pose proof (qlen_pos batch Hne) as Hp. unfold wf_update, of_sums. simpl.
  assert (~ qlen batch == 0) by (intros E; rewrite E in Hp; now apply Qlt_irrefl in Hp).
  assert (~ c == 0) by (intros E; rewrite E in Hc; now apply Qlt_irrefl in Hc).
  assert (~ c + qlen batch == 0).
  { intros E. assert (0 < c + qlen batch) by (apply Qplus_lt_le_compat with (x := 0) (y := c) (z := 0) (t := qlen batch) in Hc; [now rewrite Qplus_0_l in Hc|apply Qlt_le_weak; exact Hp]).
    rewrite E in H1. now apply Qlt_irrefl in H1. }
  repeat split; field; auto.
Qed.

Lemma eq3_trans a b c : eq3 a b -> eq3 b c -> eq3 a c.
Proof. destruct a as [[? ?] ?], b as [[? ?] ?], c as [[? ?] ?]. intros (A1 & A2 & A3) (B1 & B2 & B3). repeat split; etransitivity; eauto. Qed.
Lemma of_sums_proper c a b c' a' b' : c == c' -> a == a' -> b == b' -> eq3 (of_sums c a b) (of_sums c' a' b').
Proof. intros H1 H2 H3. unfold of_sums, eq3. rewrite H1, H2, H3. repeat split; reflexivity. Qed.

Lemma wf_fold_from_sums batches : Forall (fun b => b <> []) batches -> forall s c a b, 0 < c -> eq3 s (of_sums c a b) ->
  eq3 (fold_left wf_update batches s)
      (of_sums (c + qlen (concat batches)) (a + qsum (concat batches)) (b + qsumsq (concat batches))).
Proof.
  induction batches as [|x r IH]; intros HF s c a b Hc Hs; simpl.
  - eapply eq3_trans; [exact Hs|]. apply of_sums_proper; unfold qlen; simpl; ring.
  - inversion HF as [|? ? Hx Hr]; subst.
    assert (Hc' : 0 < c + qlen x).
    { pose proof (qlen_pos x Hx). apply Qplus_lt_le_compat with (x := 0) (y := c) (z := 0) (t := qlen x) in Hc; [now rewrite Qplus_0_l in Hc|now apply Qlt_le_weak]. }
    eapply eq3_trans; [apply (IH Hr _ (c + qlen x) (a + qsum x) (b + qsumsq x) Hc')|].
    + eapply eq3_trans; [apply wf_update_proper; exact Hs|]. now apply wf_merge.
    + apply of_sums_proper; rewrite ?qlen_app, ?qsum_app, ?qsumsq_app; ring.
Qed.

(* Welford: for every partition of a stream into non-empty batches the state is the summary of the whole stream
   (count, mean, M2), hence mean, variance, standard deviation and standard error do not depend on the batching *)
Theorem welford_batching b0 batches : b0 <> [] -> Forall (fun b => b <> []) batches ->
  let all := concat (b0 :: batches) in
  eq3 (fold_left wf_update (b0 :: batches) wf_init) (of_sums (qlen all) (qsum all) (qsumsq all)).
Proof.
  intros H0 HF. simpl. eapply eq3_trans; [apply (wf_fold_from_sums batches HF _ (qlen b0) (qsum b0) (qsumsq b0) (qlen_pos b0 H0) (wf_first b0 H0))|].
  apply of_sums_proper; rewrite ?qlen_app, ?qsum_app, ?qsumsq_app; reflexivity.
Qed.

Corollary welford_partition_independent b0 bs c0 cs :
  b0 <> [] -> Forall (fun b => b <> []) bs -> c0 <> [] -> Forall (fun b => b <> []) cs ->
  concat (b0 :: bs) = concat (c0 :: cs) ->
  eq3 (fold_left wf_update (b0 :: bs) wf_init) (fold_left wf_update (c0 :: cs) wf_init).
Proof.
  intros. eapply eq3_trans; [now apply welford_batching|].
  rewrite H3. pose proof (welford_batching c0 cs H1 H2) as W.
  destruct (fold_left wf_update (c0 :: cs) wf_init) as [[? ?] ?]. unfold of_sums, eq3 in *. destruct W as (A & B & C).
  repeat split; symmetry; assumption.
Qed.
Close Scope Q_scope.
