From Coq Require Import Lia.
From Flaxm Require Import Lib.Harness Model.Struct.

Lemma rebuild_flatten fs :
  rebuild (map fst fs) (map snd (filter fst fs)) (map snd (filter (fun f => negb (fst f)) fs)) = fs.
Proof. induction fs as [|[[|] v] r IH]; simpl; [reflexivity| |]; now rewrite IH. Qed.

(* flatten then unflatten gives back the same class, the same static fields and the same leaves *)
Theorem struct_flatten_roundtrip x : sunflatten (snd (sflatten x)) (fst (sflatten x)) = x.
Proof. destruct x as [c fs]. unfold sunflatten, sflatten. simpl. now rewrite rebuild_flatten. Qed.

(* the leaves are exactly the fields not marked pytree_node=False, in field order *)
Theorem struct_leaves_are_data_fields x : fst (sflatten x) = map snd (filter fst (i_fields x)).
Proof. reflexivity. Qed.

(* mapping over the leaves keeps class, layout and static fields (tree_map / jit / vmap / grad rebuild the same class) *)
Theorem struct_tree_map_same_class x (g : N -> N) :
  let y := sunflatten (snd (sflatten x)) (map g (fst (sflatten x))) in
  i_cls y = i_cls x /\ snd (sflatten y) = snd (sflatten x).
Proof.
  destruct x as [c fs]. simpl. split; [reflexivity|]. unfold sflatten. simpl. f_equal.
  - induction fs as [|[[|] v] r IH]; simpl; [reflexivity| |]; now rewrite IH.
  - induction fs as [|[[|] v] r IH]; simpl; [reflexivity| |]; now rewrite IH.
Qed.

Lemma set_field_other i v fs j : j <> i -> nth_error (set_field i v fs) j = nth_error fs j.
Proof.
  revert i j; induction fs as [|[b w] r IH]; intros [|i] [|j] H; simpl; try reflexivity; try lia. apply IH. lia.
Qed.
Lemma set_field_same i v fs b w : nth_error fs i = Some (b, w) -> nth_error (set_field i v fs) i = Some (b, v).
Proof. revert i; induction fs as [|[b' w'] r IH]; intros [|i] H; simpl in *; try discriminate; [now inversion H|now apply IH]. Qed.

(* replace changes only the named field; (the old instance is a value: it cannot change) *)
Theorem struct_replace_only_named x i v j : j <> i -> nth_error (i_fields (replace x i v)) j = nth_error (i_fields x) j.
Proof. intros H. apply set_field_other. exact H. Qed.
Theorem struct_replace_named x i v b w : nth_error (i_fields x) i = Some (b, w) ->
  nth_error (i_fields (replace x i v)) i = Some (b, v) /\ i_cls (replace x i v) = i_cls x.
Proof. intros H. split; [now apply (set_field_same i v _ b w)|reflexivity]. Qed.

(* a data field does not travel in the treedef; a static field does, so changing it changes the treedef
   (which is what forces a retrace under jax.jit's keying on treedefs) *)
Lemma layout_set_field i v fs : map fst (set_field i v fs) = map fst fs.
Proof. revert i; induction fs as [|[b w] r IH]; intros [|i]; simpl; try reflexivity. now rewrite IH. Qed.

Theorem struct_data_not_in_treedef x i v w : nth_error (i_fields x) i = Some (true, w) ->
  snd (sflatten (replace x i v)) = snd (sflatten x).
Proof.
  destruct x as [c fs]. unfold sflatten, replace. simpl. intros H. f_equal; [apply layout_set_field|].
  revert i H; induction fs as [|[b w'] r IH]; intros [|i] H; simpl in *; try discriminate.
  - inversion H; subst. reflexivity.
  - destruct b; simpl; [now apply IH|f_equal; now apply IH].
Qed.

Theorem struct_static_in_treedef x i v w : nth_error (i_fields x) i = Some (false, w) -> v <> w ->
  snd (sflatten (replace x i v)) <> snd (sflatten x).
Proof.
  destruct x as [c fs]. unfold sflatten, replace. simpl. intros H Hv E. inversion E as [[E1 E2]]. clear E E1.
  revert i H E2; induction fs as [|[b w'] r IH]; intros [|i] H E2; simpl in *; try discriminate.
  - inversion H; subst. simpl in E2. inversion E2. contradiction.
  - destruct b; simpl in E2; [now apply (IH i)|inversion E2; now apply (IH i)].
Qed.
