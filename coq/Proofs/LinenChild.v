(* C02: a submodule applied on its own sub-tree computes what it computes inside its parent.  Running a module at the scope
   path p ++ q on a variable tree V, and running it at q on a tree V' whose collections are the dicts V holds at p, give
   the same output, and the trees stay related.  With q = [] and V' = the sub-trees at p: the child alone = the child
   inside its parent. *)
From Coq Require Import Lia.
From Flaxm Require Import Lib.Harness Model.Filters Model.Linen Proofs.Linen Proofs.LinenInit.

Definition isnode (n : node) : Prop := match n with VNode _ => True | VLeaf _ => False end.

Lemma walk_app : forall p q n, walk (p ++ q) n = match walk p n with Some m => walk q m | None => None end.
Proof.
  induction p as [|k r IH]; intros q n; [reflexivity|]. cbn [app walk].
  destruct n as [x|kids]; [reflexivity|]. destruct (nassoc k kids); [apply IH|reflexivity].
Qed.

Lemma walk_empty p : p <> [] -> walk p (VNode []) = None.
Proof. destruct p; [contradiction|reflexivity]. Qed.

(* writing below p ++ q rewrites the dict at p (a missing dict counts as empty) and nothing above it *)
Lemma put_at_sub : forall p q nm v root root', put_at (p ++ q) nm v root = Some root' ->
  exists m', put_at q nm v (match walk p root with Some m => m | None => VNode [] end) = Some m' /\ walk p root' = Some m'.
Proof.
  induction p as [|k r IH]; intros q nm v root root' H.
  - cbn [app walk] in *. eauto.
  - cbn [app] in H. destruct root as [x|kids]; [discriminate|]. cbn [put_at] in H.
    destruct (put_at (r ++ q) nm v _) as [sub'|] eqn:E; [|discriminate]. inv H.
    destruct (IH _ _ _ _ _ E) as (m' & P & W). cbn [walk]. rewrite nassoc_nset_same.
    exists m'. split; [|exact W].
    destruct (nassoc k kids) as [s|]; [exact P|].
    destruct r as [|k2 r2]; [exact P|]. cbn [walk] in P. exact P.
Qed.


(* ---------------- the relation between the parent's tree and the child's own tree ---------------- *)
(* per collection: absent in V => absent in V'; otherwise V' holds the dict V has at p, or nothing when V has no
   (or an empty) dict there *)
Definition sub_empty (p : path) (root : node) : Prop := walk p root = None \/ walk p root = Some (VNode []).
Definition Rsub (p : path) (V V' : vtree) : Prop :=
  forall col,
    match cassoc col V with
    | None => cassoc col V' = None
    | Some root =>
        match cassoc col V' with
        | Some n' => walk p root = Some n' /\ isnode n'
        | None => sub_empty p root
        end
    end.

Lemma nassoc_nil_walk q nm : match walk q (VNode []) with Some (VNode kids) => nassoc nm kids | _ => None end = None.
Proof. destruct q; reflexivity. Qed.

Lemma Rsub_has p V V' col q nm : Rsub p V V' -> has_var V col (p ++ q) nm = has_var V' col q nm.
Proof.
  intros R. specialize (R col). unfold has_var. destruct (cassoc col V) as [root|]; [|now rewrite R].
  rewrite walk_app. destruct (cassoc col V') as [n'|].
  - destruct R as [W _]. now rewrite W.
  - destruct R as [W|W]; rewrite W; [reflexivity|]. destruct q; reflexivity.
Qed.
Lemma Rsub_get p V V' col q nm : Rsub p V V' -> get_var V col (p ++ q) nm = get_var V' col q nm.
Proof.
  intros R. specialize (R col). unfold get_var. destruct (cassoc col V) as [root|]; [|now rewrite R].
  rewrite walk_app. destruct (cassoc col V') as [n'|].
  - destruct R as [W _]. now rewrite W.
  - destruct R as [W|W]; rewrite W; [reflexivity|]. destruct q; reflexivity.
Qed.
Lemma Rsub_cassoc_none p V V' col : Rsub p V V' -> cassoc col V = None -> cassoc col V' = None.
Proof. intros R H. specialize (R col). now rewrite H in R. Qed.

Lemma put_at_node p nm v n n' : put_at p nm v n = Some n' -> isnode n'.
Proof.
  destruct p as [|k r]; destruct n as [x|kids]; cbn [put_at]; intros H; try discriminate.
  - inv H. exact I.
  - destruct (put_at r nm v _); [|discriminate]. inv H. exact I.
Qed.

(* a write at p ++ q in V is matched by the write at q in V' *)
Lemma Rsub_put p V V' col q nm v tA : Rsub p V V' -> put_var V col (p ++ q) nm v = Some tA ->
  exists tB, put_var V' col q nm v = Some tB /\ Rsub p tA tB.
Proof.
  intros R H. unfold put_var in *.
  destruct (put_at (p ++ q) nm v _) as [rootA'|] eqn:E; [|discriminate]. inv H.
  destruct (put_at_sub _ _ _ _ _ _ E) as (m' & P & W).
  assert (G : put_at q nm v (match cassoc col V' with Some r => r | None => VNode [] end) = Some m').
  { pose proof (R col) as Rc. destruct (cassoc col V) as [root|].
    - destruct (cassoc col V') as [n'|].
      + destruct Rc as [Wn _]. now rewrite Wn in P.
      + destruct Rc as [Wn|Wn]; now rewrite Wn in P.
    - rewrite Rc. destruct p; exact P. }
  rewrite G. eexists. split; [reflexivity|].
  intros c. rewrite !cassoc_cset. destruct (N.eqb_spec c col) as [->|Hc].
  - split; [exact W|]. eapply put_at_node; eauto.
  - exact (R c).
Qed.

(* ---------------- the simulation ---------------- *)
Definition reprefix (p : path) (e : N * (N * path)) : N * (N * path) := (fst e, (fst (snd e), p ++ snd (snd e))).
Definition frelp (p : path) (a b : frame) : Prop :=
  f_locals a = f_locals b /\ f_resv a = f_resv b /\ f_auto a = f_auto b /\ f_insts a = map (reprefix p) (f_insts b).

Lemma lassoc_reprefix p i l : lassoc i (map (reprefix p) l) = option_map (fun e => (fst e, p ++ snd e)) (lassoc i l).
Proof.
  unfold lassoc. induction l as [|[j [c cp]] r IH]; [reflexivity|]. cbn [map find reprefix fst snd].
  destruct (N.eqb i j); [reflexivity|exact IH].
Qed.

Lemma make_rng_path ev pA pB stream sA sA' sB : make_rng ev pA stream sA = Ok sA' ->
  exists sB', make_rng ev pB stream sB = Ok sB' /\ s_vars sB' = s_vars sB.
Proof.
  unfold make_rng.
  destruct (if memN stream (e_streams ev) then Some stream else if memN (e_params ev) (e_streams ev) then Some (e_params ev) else None);
    [|discriminate]. intros _. eexists. split; reflexivity.
Qed.

Section ChildSim.
  Variable ev : env.
  Variable p : path.
  Variables callA callB : N -> path -> vec -> st -> res (vec * st).
  Hypothesis call_sim : forall cls cq v sA y sA', callA cls (p ++ cq) v sA = Ok (y, sA') ->
    forall sB, Rsub p (s_vars sA) (s_vars sB) -> exists sB', callB cls cq v sB = Ok (y, sB') /\ Rsub p (s_vars sA') (s_vars sB').

  Lemma step_child q input frA sA c frA' sA' frB sB :
    step ev callA (p ++ q) input frA sA c = Ok (frA', sA') -> frelp p frA frB -> Rsub p (s_vars sA) (s_vars sB) ->
    exists frB' sB', step ev callB q input frB sB c = Ok (frB', sB') /\ frelp p frA' frB' /\ Rsub p (s_vars sA') (s_vars sB').
  Proof.
    intros H (FL & FR & FA & FI) R. unfold step, mut in *. rewrite <- ?FL, <- ?FR, <- ?FA. destruct c.
    - (* SParam *)
      destruct (name_reserved (f_resv frA) nm (Some (e_params ev))); [discriminate|].
      rewrite (Rsub_has p _ _ _ q nm R), (Rsub_get p _ _ _ q nm R) in H.
      destruct (has_var (s_vars sB) (e_params ev) q nm).
      + destruct (get_var (s_vars sB) (e_params ev) q nm) as [[v|vs]|]; try discriminate.
        destruct (Nat.eqb (length v) (psize n input)); [|discriminate]. inv H.
        eexists. eexists. split; [reflexivity|]. split; [|exact R]. repeat split; simpl; congruence.
      + destruct (negb (in_filter (e_mutable ev) (e_params ev))); [destruct (col_empty (s_vars sA) (e_params ev)); discriminate|].
        destruct (make_rng ev (p ++ q) (e_params ev) sA) as [s1|] eqn:Er; [|discriminate].
        destruct (make_rng_path ev _ q _ _ _ sB Er) as (sB1 & Er' & Ev'). rewrite Er'.
        destruct (put_var (s_vars s1) (e_params ev) (p ++ q) nm _) as [tA|] eqn:Ep; [|discriminate]. inv H.
        assert (R1 : Rsub p (s_vars s1) (s_vars sB1)) by (rewrite Ev', (make_rng_vars _ _ _ _ _ Er); exact R).
        destruct (Rsub_put _ _ _ _ _ _ _ _ R1 Ep) as (tB & Ep' & R2). rewrite Ep'.
        eexists. eexists. split; [reflexivity|]. split; [|exact R2]. repeat split; simpl; congruence.
    - (* SVar *)
      destruct (name_reserved (f_resv frA) nm (Some col)); [discriminate|].
      rewrite (Rsub_has p _ _ _ q nm R), (Rsub_get p _ _ _ q nm R) in H.
      destruct (has_var (s_vars sB) col q nm).
      + destruct (get_var (s_vars sB) col q nm) as [[v|vs]|]; try discriminate. inv H.
        eexists. eexists. split; [reflexivity|]. split; [|exact R]. repeat split; simpl; congruence.
      + destruct (negb (in_filter (e_mutable ev) col)); [destruct (col_empty (s_vars sA) col); discriminate|].
        destruct (put_var (s_vars sA) col (p ++ q) nm _) as [tA|] eqn:Ep; [|discriminate]. inv H.
        destruct (Rsub_put _ _ _ _ _ _ _ _ R Ep) as (tB & Ep' & R2). rewrite Ep'.
        eexists. eexists. split; [reflexivity|]. split; [|exact R2]. repeat split; simpl; congruence.
    - (* SVarSet *)
      destruct (eval (f_locals frA) input e) as [v|]; [|discriminate].
      destruct (in_filter (e_mutable ev) col); [|discriminate].
      destruct (put_var (s_vars sA) col (p ++ q) nm _) as [tA|] eqn:Ep; [|discriminate]. inv H.
      destruct (Rsub_put _ _ _ _ _ _ _ _ R Ep) as (tB & Ep' & R2). rewrite Ep'.
      eexists. eexists. split; [reflexivity|]. split; [|exact R2]. repeat split; simpl; congruence.
    - (* SSow *)
      destruct (eval (f_locals frA) input e) as [v|]; [|discriminate].
      destruct (negb (in_filter (e_mutable ev) col)).
      { inv H. eexists. eexists. split; [reflexivity|]. split; [|exact R]. repeat split; simpl; congruence. }
      rewrite (Rsub_has p _ _ _ q nm R), (Rsub_get p _ _ _ q nm R) in H.
      destruct (has_var (s_vars sB) col q nm).
      + destruct (get_var (s_vars sB) col q nm) as [[v0|vs]|]; try discriminate.
        destruct (put_var (s_vars sA) col (p ++ q) nm _) as [tA|] eqn:Ep; [|discriminate]. inv H.
        destruct (Rsub_put _ _ _ _ _ _ _ _ R Ep) as (tB & Ep' & R2). rewrite Ep'.
        eexists. eexists. split; [reflexivity|]. split; [|exact R2]. repeat split; simpl; congruence.
      + destruct (name_reserved (f_resv frA) nm (Some col)); [discriminate|].
        destruct (put_var (s_vars sA) col (p ++ q) nm _) as [tA|] eqn:Ep; [|discriminate]. inv H.
        destruct (Rsub_put _ _ _ _ _ _ _ _ R Ep) as (tB & Ep' & R2). rewrite Ep'.
        eexists. eexists. split; [reflexivity|]. split; [|exact R2]. repeat split; simpl; congruence.
    - (* SPerturb *)
      destruct (eval (f_locals frA) input e) as [v|]; [|discriminate].
      rewrite (Rsub_has p _ _ _ q nm R) in H.
      destruct (in_filter (e_mutable ev) (e_perturb ev) && negb (has_var (s_vars sB) (e_perturb ev) q nm)).
      + destruct (name_reserved (f_resv frA) nm (Some (e_perturb ev))); [discriminate|].
        destruct (put_var (s_vars sA) (e_perturb ev) (p ++ q) nm _) as [tA|] eqn:Ep; [|discriminate].
        destruct (Rsub_put _ _ _ _ _ _ _ _ R Ep) as (tB & Ep' & R2). rewrite Ep'. cbn [s_vars] in *.
        rewrite (Rsub_get p _ _ _ q nm R2) in H.
        destruct (cassoc (e_perturb ev) tA) as [rt|] eqn:Ec.
        * destruct (get_var tB (e_perturb ev) q nm) as [[old|vs]|] eqn:Eg; try discriminate.
          destruct (vop add64 v old); [|discriminate]. inv H.
          pose proof (get_var_cassoc _ _ _ _ _ Eg) as Pc. destruct (cassoc (e_perturb ev) tB); [|contradiction].
          eexists. eexists. split; [reflexivity|]. split; [|exact R2]. repeat split; simpl; congruence.
        * inv H. rewrite (Rsub_cassoc_none _ _ _ _ R2 Ec).
          eexists. eexists. split; [reflexivity|]. split; [|exact R2]. repeat split; simpl; congruence.
      + rewrite (Rsub_get p _ _ _ q nm R) in H.
        destruct (cassoc (e_perturb ev) (s_vars sA)) as [rt|] eqn:Ec.
        * destruct (get_var (s_vars sB) (e_perturb ev) q nm) as [[old|vs]|] eqn:Eg; try discriminate.
          destruct (vop add64 v old); [|discriminate]. inv H.
          pose proof (get_var_cassoc _ _ _ _ _ Eg) as Pc. destruct (cassoc (e_perturb ev) (s_vars sB)); [|contradiction].
          eexists. eexists. split; [reflexivity|]. split; [|exact R]. repeat split; simpl; congruence.
        * inv H. rewrite (Rsub_cassoc_none _ _ _ _ R Ec).
          eexists. eexists. split; [reflexivity|]. split; [|exact R]. repeat split; simpl; congruence.
    - (* SRng *)
      destruct (make_rng ev (p ++ q) stream sA) as [s1|] eqn:Er; [|discriminate]. inv H.
      destruct (make_rng_path ev _ q _ _ _ sB Er) as (sB1 & Er' & Ev'). rewrite Er'.
      eexists. eexists. split; [reflexivity|]. split; [repeat split; simpl; congruence|].
      rewrite Ev', (make_rng_vars _ _ _ _ _ Er). exact R.
    - (* SLet *)
      destruct (eval (f_locals frA) input e) as [v|]; [|discriminate]. inv H.
      eexists. eexists. split; [reflexivity|]. split; [|exact R]. repeat split; simpl; congruence.
    - (* SChild *)
      destruct nm as [n|].
      + destruct (name_reserved (f_resv frA) (NExp n) None); [discriminate|]. inv H.
        eexists. eexists. split; [reflexivity|]. split; [|exact R]. repeat split; simpl; try congruence.
        rewrite FI. cbn [map reprefix fst snd]. now rewrite <- app_assoc.
      + match type of H with context[name_reserved ?r ?n None] => destruct (name_reserved r n None) end; [discriminate|]. inv H.
        eexists. eexists. split; [reflexivity|]. split; [|exact R]. repeat split; simpl; try congruence.
        rewrite FI. cbn [map reprefix fst snd]. now rewrite <- app_assoc.
    - (* SCall *)
      destruct (eval (f_locals frA) input e) as [v|]; [|discriminate].
      rewrite FI, lassoc_reprefix in H.
      destruct (lassoc i (f_insts frB)) as [[cls cq]|]; [|discriminate]. cbn [option_map fst snd] in H.
      destruct (callA cls (p ++ cq) v sA) as [[y s1]|] eqn:Ec; [|discriminate]. inv H.
      destruct (call_sim _ _ _ _ _ _ Ec sB R) as (sB' & E1 & R2). rewrite E1.
      eexists. eexists. split; [reflexivity|]. split; [|exact R2]. repeat split; simpl; congruence.
  Qed.

  Lemma steps_child q input : forall cs frA sA frA' sA' frB sB,
    steps ev callA (p ++ q) input frA sA cs = Ok (frA', sA') -> frelp p frA frB -> Rsub p (s_vars sA) (s_vars sB) ->
    exists frB' sB', steps ev callB q input frB sB cs = Ok (frB', sB') /\ frelp p frA' frB' /\ Rsub p (s_vars sA') (s_vars sB').
  Proof.
    induction cs as [|c r IH]; intros frA sA frA' sA' frB sB H FR R; simpl in H.
    - inv H. exists frB, sB. simpl. auto.
    - destruct (step ev callA (p ++ q) input frA sA c) as [[frA1 sA1]|] eqn:E; [|discriminate].
      destruct (step_child _ _ _ _ _ _ _ _ _ E FR R) as (frB1 & sB1 & E1 & FR1 & R1).
      destruct (IH _ _ _ _ _ _ H FR1 R1) as (frB' & sB' & E2 & FR2 & R2).
      exists frB', sB'. simpl. rewrite E1. auto.
  Qed.
End ChildSim.

Theorem run_call_child ev p : forall fuel cls q x sA y sA', run_call fuel ev cls (p ++ q) x sA = Ok (y, sA') ->
  forall sB, Rsub p (s_vars sA) (s_vars sB) ->
  exists sB', run_call fuel ev cls q x sB = Ok (y, sB') /\ Rsub p (s_vars sA') (s_vars sB').
Proof.
  induction fuel as [|f IH]; intros cls q x sA y sA' H sB R; [discriminate|]. simpl in H. simpl.
  destruct (lassoc cls (e_classes ev)) as [[body ret]|]; [|discriminate].
  destruct (steps ev (run_call f ev) (p ++ q) x frame0 sA body) as [[frA s1]|] eqn:E; [|discriminate].
  destruct (eval (f_locals frA) x ret) as [y0|] eqn:Ee; [|discriminate]. injection H as Hy Hs. subst y0 s1.
  assert (FR0 : frelp p frame0 frame0) by (repeat split; reflexivity).
  destruct (steps_child ev p (run_call f ev) (run_call f ev) IH q x body frame0 sA frA sA' frame0 sB E FR0 R) as (frB & sB' & E1 & (FL & _) & R').
  rewrite E1, <- FL, Ee. exists sB'. auto.
Qed.

(* ---------------- the child's own tree: the dicts the parent's tree holds at p ---------------- *)
Definition sub_at (p : path) (V : vtree) (col : N) : option node :=
  match cassoc col V with
  | Some root => match walk p root with Some (VNode kids) => Some (VNode kids) | _ => None end
  | None => None
  end.
Definition subtree (p : path) (V : vtree) : vtree :=
  flat_map (fun col => match sub_at p V col with Some n => [(col, n)] | None => [] end) (nodup N.eq_dec (map fst V)).

Lemma cassoc_flat_map (g : N -> option node) L col : NoDup L ->
  cassoc col (flat_map (fun c => match g c with Some n => [(c, n)] | None => [] end) L) = if in_dec N.eq_dec col L then g col else None.
Proof.
  induction L as [|c r IH]; intros ND; [reflexivity|]. inversion ND as [|? ? Hn ND']; subst. cbn [flat_map].
  destruct (in_dec N.eq_dec col (c :: r)) as [I|I].
  - destruct (N.eq_dec c col) as [->|Hc].
    + destruct (g col) as [n|]; cbn [app cassoc]; [now rewrite N.eqb_refl|].
      rewrite IH by exact ND'. destruct (in_dec N.eq_dec col r); [contradiction|reflexivity].
    + destruct I as [I|I]; [contradiction|].
      assert (E : cassoc col (flat_map (fun c0 => match g c0 with Some n => [(c0, n)] | None => [] end) r) = g col).
      { rewrite IH by exact ND'. destruct (in_dec N.eq_dec col r); [reflexivity|contradiction]. }
      destruct (g c) as [n|]; cbn [app cassoc]; [|exact E].
      destruct (N.eqb_spec col c); [congruence|exact E].
  - assert (Hc : c <> col) by (intros ->; apply I; now left).
    assert (E : cassoc col (flat_map (fun c0 => match g c0 with Some n => [(c0, n)] | None => [] end) r) = None).
    { rewrite IH by exact ND'. destruct (in_dec N.eq_dec col r) as [J|J]; [exfalso; apply I; now right|reflexivity]. }
    destruct (g c) as [n|]; cbn [app cassoc]; [|exact E].
    destruct (N.eqb_spec col c); [congruence|exact E].
Qed.

Lemma cassoc_in col V root : cassoc col V = Some root -> In col (map fst V).
Proof.
  induction V as [|[c n] r IH]; [discriminate|]. cbn [cassoc map fst]. destruct (N.eqb_spec col c); [now left|]. intros H. right. auto.
Qed.

Lemma cassoc_subtree p V col : cassoc col (subtree p V) = sub_at p V col.
Proof.
  unfold subtree. rewrite cassoc_flat_map by apply NoDup_nodup.
  destruct (in_dec N.eq_dec col (nodup N.eq_dec (map fst V))) as [I|I]; [reflexivity|].
  unfold sub_at. destruct (cassoc col V) as [root|] eqn:E; [|reflexivity].
  exfalso. apply I. apply nodup_In. eapply cassoc_in; eauto.
Qed.

(* the scope path is not a variable in any collection *)
Definition scope_ok (p : path) (V : vtree) : Prop := forall col root x, cassoc col V = Some root -> walk p root <> Some (VLeaf x).

Lemma Rsub_subtree p V : scope_ok p V -> Rsub p V (subtree p V).
Proof.
  intros OK col. rewrite cassoc_subtree. unfold sub_at. destruct (cassoc col V) as [root|] eqn:E; [|reflexivity].
  destruct (walk p root) as [[x|kids]|] eqn:W.
  - exfalso. exact (OK _ _ _ E W).
  - split; [reflexivity|exact I].
  - left. exact W.
Qed.

(* C02: the child applied on its own sub-tree returns what it returns inside its parent, and what it leaves is the
   sub-tree of what the parent's run leaves *)
Theorem child_alone ev fuel cls p x V cs tr y sA' :
  scope_ok p V -> run_call fuel ev cls p x (mkSt V cs tr) = Ok (y, sA') ->
  exists sB', run_call fuel ev cls [] x (mkSt (subtree p V) [] []) = Ok (y, sB') /\ Rsub p (s_vars sA') (s_vars sB').
Proof.
  intros OK H. rewrite <- (app_nil_r p) in H.
  exact (run_call_child ev p fuel cls [] x _ y sA' H (mkSt (subtree p V) [] []) (Rsub_subtree p V OK)).
Qed.

(* what Rsub says about reading: the child's variables are the parent's at the extended paths *)
Corollary child_alone_vars ev fuel cls p x V cs tr y sA' : scope_ok p V -> run_call fuel ev cls p x (mkSt V cs tr) = Ok (y, sA') ->
  exists sB', run_call fuel ev cls [] x (mkSt (subtree p V) [] []) = Ok (y, sB') /\
              forall col q nm, get_var (s_vars sB') col q nm = get_var (s_vars sA') col (p ++ q) nm.
Proof.
  intros OK H. destruct (child_alone ev fuel cls p x V cs tr y sA' OK H) as (sB' & E & R).
  exists sB'. split; [exact E|]. intros col q nm. symmetry. now apply Rsub_get.
Qed.

Definition scope_okb (p : path) (V : vtree) : bool :=
  forallb (fun cv => match walk p (snd cv) with Some (VLeaf _) => false | _ => true end) V.
Lemma cassoc_In col V root : cassoc col V = Some root -> In (col, root) V.
Proof.
  induction V as [|[c n] r IH]; [discriminate|]. cbn [cassoc]. destruct (N.eqb_spec col c) as [->|Hc]; intros H; [inv H; now left|right; auto].
Qed.
Lemma scope_okb_ok p V : scope_okb p V = true -> scope_ok p V.
Proof.
  unfold scope_okb, scope_ok. rewrite forallb_forall. intros H col root x E W. specialize (H _ (cassoc_In _ _ _ E)). cbn [snd] in H. now rewrite W in H.
Qed.

(* ---------------- what a run at scope p leaves outside p ---------------- *)
Fixpoint is_prefix (p q : path) : bool :=
  match p, q with
  | [], _ => true
  | a :: p', b :: q' => name_eqb a b && is_prefix p' q'
  | _ :: _, [] => false
  end.
Lemma is_prefix_app p q : is_prefix p (p ++ q) = true.
Proof. induction p as [|a p IH]; [reflexivity|]. cbn [app is_prefix]. now rewrite name_eqb_refl, IH. Qed.
Lemma is_prefix_split p q : is_prefix p q = true -> exists r, q = p ++ r.
Proof.
  revert q. induction p as [|a p IH]; intros q H; [now exists q|]. destruct q as [|b q]; [discriminate|]. cbn [is_prefix] in H.
  apply andb_true_iff in H as [E H]. apply name_eqb_eq in E. subst b. destruct (IH _ H) as [r ->]. now exists r.
Qed.

(* a write below p leaves every value stored outside p as it was *)
Lemma put_at_outside : forall p q nm v root root', put_at (p ++ q) nm v root = Some root' ->
  forall Q M, is_prefix p Q = false -> nget root' Q M = nget root Q M.
Proof.
  induction p as [|k r IH]; intros q nm v root root' H Q M NP; [discriminate|].
  cbn [app] in H. destruct root as [x|kids]; [discriminate|]. cbn [put_at] in H.
  destruct (put_at (r ++ q) nm v _) as [sub'|] eqn:E; [|discriminate]. inv H.
  destruct Q as [|k' Q'].
  - (* a name at the top level *)
    unfold nget. cbn [walk]. destruct (name_eqb M k) eqn:Ek.
    + apply name_eqb_eq in Ek. subst M. rewrite nassoc_nset_same.
      pose proof (put_at_node _ _ _ _ _ E) as N. destruct sub' as [x|ks]; [contradiction|].
      destruct (nassoc k kids) as [[x|ks0]|] eqn:Ea; try reflexivity.
      (* a leaf at k would have blocked the write *)
      exfalso. destruct (r ++ q); discriminate.
    + rewrite nassoc_nset_other by (intros ->; now rewrite name_eqb_refl in Ek). reflexivity.
  - cbn [is_prefix] in NP. rewrite !nget_cons. destruct (name_eqb k' k) eqn:Ek.
    + apply name_eqb_eq in Ek. subst k'. rewrite name_eqb_refl in NP. cbn [andb] in NP. rewrite nassoc_nset_same.
      rewrite (IH _ _ _ _ _ E Q' M NP). destruct (nassoc k kids); [reflexivity|]. now rewrite nget_empty.
    + rewrite nassoc_nset_other by (intros ->; now rewrite name_eqb_refl in Ek). reflexivity.
Qed.

Lemma put_var_outside t col p q nm v t' : put_var t col (p ++ q) nm v = Some t' ->
  forall c Q M, is_prefix p Q = false -> get_var t' c Q M = get_var t c Q M.
Proof.
  unfold put_var. intros H c Q M NP. destruct (put_at (p ++ q) nm v _) as [root'|] eqn:E; [|discriminate]. inv H.
  rewrite !get_var_nget, cassoc_cset. destruct (N.eqb_spec c col) as [->|Hc]; [|reflexivity].
  rewrite (put_at_outside _ _ _ _ _ _ E Q M NP). destruct (cassoc col t); [reflexivity|]. now rewrite nget_empty.
Qed.

Definition outside_same (p : path) (V V' : vtree) : Prop := forall c Q M, is_prefix p Q = false -> get_var V' c Q M = get_var V c Q M.
Lemma outside_refl p V : outside_same p V V.  Proof. intros c Q M _. reflexivity. Qed.
Lemma outside_trans p A B C : outside_same p A B -> outside_same p B C -> outside_same p A C.
Proof. intros H1 H2 c Q M NP. now rewrite H2, H1. Qed.

Section PathFrame.
  Variable ev : env.
  Variable p : path.
  Variable call : N -> path -> vec -> st -> res (vec * st).
  Hypothesis call_frame : forall cls cq v s y s', call cls (p ++ cq) v s = Ok (y, s') -> outside_same p (s_vars s) (s_vars s').

  Definition insts_under (fr : frame) : Prop := forall i cls cp, lassoc i (f_insts fr) = Some (cls, cp) -> exists cq, cp = p ++ cq.

  Lemma step_outside q input fr s c fr' s' : insts_under fr ->
    step ev call (p ++ q) input fr s c = Ok (fr', s') -> outside_same p (s_vars s) (s_vars s') /\ insts_under fr'.
  Proof.
    intros IU H. unfold step, mut in H. destruct c.
    - destruct (name_reserved (f_resv fr) nm (Some (e_params ev))); [discriminate|].
      destruct (has_var (s_vars s) (e_params ev) (p ++ q) nm).
      + destruct (get_var (s_vars s) (e_params ev) (p ++ q) nm) as [[v|vs]|]; try discriminate.
        destruct (Nat.eqb (length v) (psize n input)); [|discriminate]. inv H. split; [apply outside_refl|exact IU].
      + destruct (negb (in_filter (e_mutable ev) (e_params ev))); [destruct (col_empty (s_vars s) (e_params ev)); discriminate|].
        destruct (make_rng ev (p ++ q) (e_params ev) s) as [s1|] eqn:Er; [|discriminate].
        destruct (put_var (s_vars s1) (e_params ev) (p ++ q) nm _) as [t'|] eqn:Ep; [|discriminate]. inv H. split; [|exact IU].
        cbn [s_vars]. rewrite <- (make_rng_vars _ _ _ _ _ Er). exact (put_var_outside _ _ _ _ _ _ _ Ep).
    - destruct (name_reserved (f_resv fr) nm (Some col)); [discriminate|].
      destruct (has_var (s_vars s) col (p ++ q) nm).
      + destruct (get_var (s_vars s) col (p ++ q) nm) as [[v|vs]|]; try discriminate. inv H. split; [apply outside_refl|exact IU].
      + destruct (negb (in_filter (e_mutable ev) col)); [destruct (col_empty (s_vars s) col); discriminate|].
        destruct (put_var (s_vars s) col (p ++ q) nm _) as [t'|] eqn:Ep; [|discriminate]. inv H. split; [|exact IU].
        exact (put_var_outside _ _ _ _ _ _ _ Ep).
    - destruct (eval (f_locals fr) input e); [|discriminate]. destruct (in_filter (e_mutable ev) col); [|discriminate].
      destruct (put_var (s_vars s) col (p ++ q) nm _) as [t'|] eqn:Ep; [|discriminate]. inv H. split; [|exact IU].
      exact (put_var_outside _ _ _ _ _ _ _ Ep).
    - destruct (eval (f_locals fr) input e); [|discriminate].
      destruct (negb (in_filter (e_mutable ev) col)); [inv H; split; [apply outside_refl|exact IU]|].
      destruct (has_var (s_vars s) col (p ++ q) nm).
      + destruct (get_var (s_vars s) col (p ++ q) nm) as [[v0|vs]|]; try discriminate.
        destruct (put_var (s_vars s) col (p ++ q) nm _) as [t'|] eqn:Ep; [|discriminate]. inv H. split; [|exact IU].
        exact (put_var_outside _ _ _ _ _ _ _ Ep).
      + destruct (name_reserved (f_resv fr) nm (Some col)); [discriminate|].
        destruct (put_var (s_vars s) col (p ++ q) nm _) as [t'|] eqn:Ep; [|discriminate]. inv H. split; [|exact IU].
        exact (put_var_outside _ _ _ _ _ _ _ Ep).
    - destruct (eval (f_locals fr) input e) as [v|]; [|discriminate].
      destruct (in_filter (e_mutable ev) (e_perturb ev) && negb (has_var (s_vars s) (e_perturb ev) (p ++ q) nm)).
      + destruct (name_reserved (f_resv fr) nm (Some (e_perturb ev))); [discriminate|].
        destruct (put_var (s_vars s) (e_perturb ev) (p ++ q) nm _) as [t'|] eqn:Ep; [|discriminate].
        pose proof (put_var_outside _ _ _ _ _ _ _ Ep) as O. cbn [s_vars] in H.
        destruct (cassoc (e_perturb ev) t').
        * destruct (get_var t' (e_perturb ev) (p ++ q) nm) as [[old|vs]|]; try discriminate.
          destruct (vop add64 v old); [|discriminate]. inv H. split; [exact O|exact IU].
        * inv H. split; [exact O|exact IU].
      + destruct (cassoc (e_perturb ev) (s_vars s)).
        * destruct (get_var (s_vars s) (e_perturb ev) (p ++ q) nm) as [[old|vs]|]; try discriminate.
          destruct (vop add64 v old); [|discriminate]. inv H. split; [apply outside_refl|exact IU].
        * inv H. split; [apply outside_refl|exact IU].
    - destruct (make_rng ev (p ++ q) stream s) as [s1|] eqn:Er; [|discriminate]. inv H. split; [|exact IU].
      rewrite (make_rng_vars _ _ _ _ _ Er). apply outside_refl.
    - destruct (eval (f_locals fr) input e); [|discriminate]. inv H. split; [apply outside_refl|].
      intros i cls cp L. exact (IU i cls cp L).
    - assert (G : forall name' auto', insts_under (mkFrame (f_locals fr) ((name', None) :: f_resv fr) auto' ((i, (cls, (p ++ q) ++ [name'])) :: f_insts fr))).
      { intros name' auto' j c0 cp L. unfold lassoc in L. cbn [f_insts find fst] in L. destruct (N.eqb j i).
        - cbn [option_map snd] in L. inv L. exists (q ++ [name']). now rewrite app_assoc.
        - exact (IU j c0 cp L). }
      destruct nm as [n|].
      + destruct (name_reserved (f_resv fr) (NExp n) None); [discriminate|]. inv H. split; [apply outside_refl|apply G].
      + match type of H with context[name_reserved ?r ?n None] => destruct (name_reserved r n None) end; [discriminate|]. inv H.
        split; [apply outside_refl|apply G].
    - destruct (eval (f_locals fr) input e) as [v|]; [|discriminate].
      destruct (lassoc i (f_insts fr)) as [[cls cp]|] eqn:L; [|discriminate].
      destruct (IU _ _ _ L) as [cq ->].
      destruct (call cls (p ++ cq) v s) as [[y s1]|] eqn:Ec; [|discriminate]. inv H. split; [eapply call_frame; eauto|].
      intros j c0 cp L'. exact (IU j c0 cp L').
  Qed.

  Lemma steps_outside q input : forall cs fr s fr' s', insts_under fr ->
    steps ev call (p ++ q) input fr s cs = Ok (fr', s') -> outside_same p (s_vars s) (s_vars s').
  Proof.
    induction cs as [|c r IH]; intros fr s fr' s' IU H; simpl in H; [inv H; apply outside_refl|].
    destruct (step ev call (p ++ q) input fr s c) as [[fr1 s1]|] eqn:E; [|discriminate].
    destruct (step_outside _ _ _ _ _ _ _ IU E) as [O IU1].
    eapply outside_trans; [exact O|eapply IH; eauto].
  Qed.
End PathFrame.

(* a module running at scope p ++ q only writes below p *)
Theorem run_call_outside ev p : forall fuel cls q x s y s', run_call fuel ev cls (p ++ q) x s = Ok (y, s') -> outside_same p (s_vars s) (s_vars s').
Proof.
  induction fuel as [|f IH]; intros cls q x s y s' H; [discriminate|]. simpl in H.
  destruct (lassoc cls (e_classes ev)) as [[body ret]|]; [|discriminate].
  destruct (steps ev (run_call f ev) (p ++ q) x frame0 s body) as [[fr s1]|] eqn:E; [|discriminate].
  destruct (eval (f_locals fr) x ret); [|discriminate]. inv H.
  assert (IU0 : insts_under p frame0) by (intros i c cp L; vm_compute in L; discriminate L).
  exact (steps_outside ev p (run_call f ev) (fun cls0 cq v0 s0 y0 s0' H0 => IH cls0 cq v0 s0 y0 s0' H0) q x body frame0 s fr s' IU0 E).
Qed.

(* C05: an identity lift is transparent.  lift.pack hands the child the dicts its scope holds (the sub-trees at p), runs it
   as a root, and publishes what it leaves back under p, entry by entry.  The plain run is exactly that: same output, below
   p what the packed run leaves, everything else untouched. *)
Theorem lift_is_transparent ev fuel cls p x V cs tr y sA' :
  scope_ok p V -> run_call fuel ev cls p x (mkSt V cs tr) = Ok (y, sA') ->
  exists sB', run_call fuel ev cls [] x (mkSt (subtree p V) [] []) = Ok (y, sB') /\
              (forall c q nm, get_var (s_vars sA') c (p ++ q) nm = get_var (s_vars sB') c q nm) /\
              (forall c Q M, is_prefix p Q = false -> get_var (s_vars sA') c Q M = get_var V c Q M).
Proof.
  intros OK H. destruct (child_alone_vars ev fuel cls p x V cs tr y sA' OK H) as (sB' & E & G).
  exists sB'. split; [exact E|]. split; [intros c q nm; symmetry; apply G|].
  pose proof H as H'. rewrite <- (app_nil_r p) in H'. exact (run_call_outside ev p fuel cls [] x _ y sA' H').
Qed.
