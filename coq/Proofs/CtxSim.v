(* C04: functions of the language of Model/UpdateCtx.v cannot tell a heap from its canonical copy -- every step on the
   caller's heap is matched by the same step on the inner copy, keeping the two related -- and therefore the protocol
   run and the eager run are observed alike. *)
From Coq Require Import Lia.
From Flaxm Require Import Lib.Harness Model.NnxFilters Model.Graph Model.UpdateCtx Proofs.Graph Proofs.UpdateCtx Proofs.GraphIso.

(* the caller's heap h and the inner heap hi: inner cell i is the renaming of the caller's cell ri[i] *)
Definition Sim (ri : list loc) (h hi : heap) : Prop :=
  NoDup ri /\ length hi = length ri /\
  forall i l, nth_error ri i = Some l -> exists o0 o, nth_error h l = Some o0 /\ ro ri o0 = Some o /\ nth_error hi i = Some o.

Lemma sim_cell ri h hi l i : Sim ri h hi -> index_of l ri = Some i ->
  exists o0 o, nth_error h l = Some o0 /\ ro ri o0 = Some o /\ nth_error hi i = Some o.
Proof. intros (_ & _ & C) H. apply index_of_nth in H. exact (C _ _ H). Qed.

Lemma sim_bound ri h hi l : Sim ri h hi -> In l ri -> l < length h.
Proof. intros (_ & _ & C) H. apply In_nth_error in H as [i Hi]. destruct (C _ _ Hi) as (o0 & _ & A & _). apply nth_error_Some. congruence. Qed.

(* path resolution commutes with the renaming *)
Lemma resolve_sim ri h hi : Sim ri h hi ->
  forall fuel p w x u, rv ri w = Some x -> resolve fuel h w p = Some u -> exists u', resolve fuel hi x p = Some u' /\ rv ri u = Some u'.
Proof.
  intros S. induction fuel as [|f IH]; intros p w x u Hw R; [discriminate|]. cbn [resolve] in *.
  destruct p as [|k r]; [inversion R; subst; eauto|].
  destruct w as [l|s|a|kd xs]; try discriminate.
  - cbn [rv] in Hw. destruct (index_of l ri) as [i|] eqn:Ei; [|discriminate]. inversion Hw; subst x.
    destruct (sim_cell _ _ _ _ _ S Ei) as (o0 & o & A & B & C). rewrite A in R. rewrite C.
    destruct o0 as [ty attrs|t pl m]; [|discriminate]. cbn [ro] in B.
    destruct (rattrs ri attrs) as [vs|] eqn:Er; [|discriminate]. inversion B; subst o.
    destruct (kassoc k attrs) as [v1|] eqn:K; [|discriminate].
    destruct (kassoc_rattrs _ _ _ _ _ Er K) as (v1' & K' & Hv1). rewrite K'. exact (IH _ _ _ _ Hv1 R).
  - rewrite rv_tree in Hw. destruct (rattrs ri xs) as [vs|] eqn:Er; [|discriminate]. inversion Hw; subst x.
    destruct (kassoc k xs) as [v1|] eqn:K; [|discriminate].
    destruct (kassoc_rattrs _ _ _ _ _ Er K) as (v1' & K' & Hv1). rewrite K'. exact (IH _ _ _ _ Hv1 R).
Qed.

Lemma eval_sim ri h hi root rooti e x : Sim ri h hi -> rv ri root = Some rooti -> eval h root e = Some x -> eval hi rooti e = Some x.
Proof.
  intros HS Hr. revert x. induction e as [n|p|a IHa b IHb|a IHa b IHb]; intros x E; cbn [eval] in *.
  - exact E.
  - destruct (resolve (S (length p)) h root p) as [[l| | |]|] eqn:R; try discriminate.
    destruct (resolve_sim _ _ _ HS _ _ _ _ _ Hr R) as (u' & R' & Hu). rewrite R'. cbn [rv] in Hu.
    destruct (index_of l ri) as [i|] eqn:Ei; [|discriminate]. inversion Hu; subst u'.
    destruct (sim_cell _ _ _ _ _ HS Ei) as (o0 & o & A & B & C). rewrite A in E. rewrite C.
    destruct o0 as [|t pl m]; [discriminate|]. inversion B; subst. exact E.
  - destruct (eval h root a) as [xa|]; [|discriminate]. destruct (eval h root b) as [xb|]; [|discriminate]. rewrite (IHa _ eq_refl), (IHb _ eq_refl). exact E.
  - destruct (eval h root a) as [xa|]; [|discriminate]. destruct (eval h root b) as [xb|]; [|discriminate]. rewrite (IHa _ eq_refl), (IHb _ eq_refl). exact E.
Qed.

(* vars(node) operations commute with the renaming *)
Lemma rattrs_kinsert ri k v v' xs ys : rv ri v = Some v' -> rattrs ri xs = Some ys -> rattrs ri (kinsert k v xs) = Some (kinsert k v' ys).
Proof.
  intros Hv. revert ys; induction xs as [|[k0 x] r IH]; intros ys H; cbn [rattrs kinsert] in *.
  - inversion H; subst. cbn [kinsert rattrs]. now rewrite Hv.
  - destruct (rv ri x) as [x'|] eqn:Ex; [|discriminate]. destruct (rattrs ri r) as [r'|] eqn:Er; [|discriminate]. inversion H; subst. cbn [kinsert].
    destruct (N.eqb k k0); [cbn [rattrs]; now rewrite Hv, Er|]. destruct (k <? k0)%N; cbn [rattrs].
    + now rewrite Hv, Ex, Er.
    + now rewrite Ex, (IH _ eq_refl).
Qed.
Lemma rattrs_kremove ri k xs ys : rattrs ri xs = Some ys -> rattrs ri (kremove k xs) = Some (kremove k ys).
Proof.
  revert ys; induction xs as [|[k0 x] r IH]; intros ys H; cbn [rattrs kremove] in *; [now inversion H|].
  destruct (rv ri x) as [x'|] eqn:Ex; [|discriminate]. destruct (rattrs ri r) as [r'|] eqn:Er; [|discriminate]. inversion H; subst. cbn [kremove].
  destruct (N.eqb k k0); [exact Er|]. cbn [rattrs]. now rewrite Ex, (IH _ eq_refl).
Qed.
Lemma rattrs_khas ri k xs ys : rattrs ri xs = Some ys -> khas k ys = khas k xs.
Proof.
  unfold khas. revert ys; induction xs as [|[k0 x] r IH]; intros ys H; cbn [rattrs] in *; [now inversion H|].
  destruct (rv ri x) as [x'|]; [|discriminate]. destruct (rattrs ri r) as [r'|] eqn:Er; [|discriminate]. inversion H; subst. cbn [existsb fst]. now rewrite (IH _ eq_refl).
Qed.

Lemma nth_error_set_nth {A} (l : list A) n m x : nth_error (set_nth n x l) m = if Nat.eqb n m then (match nth_error l m with Some _ => Some x | None => None end) else nth_error l m.
Proof.
  revert n m; induction l as [|y r IH]; intros n m.
  - destruct n, m; cbn [set_nth nth_error]; destruct (Nat.eqb _ _); reflexivity.
  - destruct n as [|n], m as [|m]; cbn [set_nth nth_error Nat.eqb]; try reflexivity. apply IH.
Qed.

(* updating one caller's cell and the matching inner cell keeps the heaps related *)
Lemma sim_update ri h hi l i o0 o : Sim ri h hi -> index_of l ri = Some i -> ro ri o0 = Some o ->
  Sim ri (set_nth l o0 h) (set_nth i o hi).
Proof.
  intros (ND & L & C) Ei Ho. split; [exact ND|]. split; [now rewrite set_nth_length|].
  intros j l' Hj. destruct (C _ _ Hj) as (q0 & q & A & B & Cq). rewrite !nth_error_set_nth.
  pose proof (index_of_nth _ _ _ Ei) as Hi.
  destruct (Nat.eqb_spec l l') as [<-|Hne].
  - assert (j = i). { eapply (proj1 (NoDup_nth_error ri) ND); [apply nth_error_Some; congruence|congruence]. } subst j.
    rewrite Nat.eqb_refl, A, Cq. eauto.
  - destruct (Nat.eqb_spec i j) as [<-|Hne2]; [congruence|]. eauto.
Qed.

Lemma set_nth_app_l {A} (a b : list A) n x : n < length a -> set_nth n x a ++ b = set_nth n x (a ++ b).
Proof. revert n; induction a as [|y r IH]; intros [|n] H; simpl in *; try lia; [reflexivity|]. f_equal. apply IH. lia. Qed.

Lemma sim_alloc ri h hi o0 o : Sim ri h hi -> ro (ri ++ [length h]) o0 = Some o -> Sim (ri ++ [length h]) (h ++ [o0]) (hi ++ [o]).
Proof.
  intros HS Ho. pose proof HS as (ND & L & C). split; [|split].
  - clear - ND HS. assert (Hn : ~ In (length h) ri) by (intros Hin; pose proof (sim_bound _ _ _ _ HS Hin); lia).
    clear HS. induction ri as [|a r IH]; simpl; [constructor; [tauto|constructor]|].
    inversion ND; subst. constructor; [|apply IH; auto; intros X; apply Hn; now right].
    intros X. apply in_app_or in X as [X|[X|[]]]; [tauto|]. subst. apply Hn. now left.
  - rewrite !app_length. simpl. lia.
  - intros i l Hi. destruct (Nat.ltb_spec i (length ri)) as [Hlt|Hge].
    + rewrite nth_error_app1 in Hi by exact Hlt. destruct (C _ _ Hi) as (q0 & q & A & B & Cq).
      exists q0, q. split; [apply nth_error_app_l; exact A|]. split; [now apply ro_mono|]. apply nth_error_app_l; exact Cq.
    + rewrite nth_error_app2 in Hi by exact Hge. destruct (i - length ri) as [|k] eqn:Ek; [|destruct k; discriminate]. cbn in Hi. inversion Hi; subst l.
      assert (i = length ri) by lia. subst i. exists o0, o. split; [rewrite nth_error_app2 by lia; now rewrite Nat.sub_diag|]. split; [exact Ho|].
      rewrite nth_error_app2 by lia. now rewrite L, Nat.sub_diag.
Qed.

Definition Ext (h : heap) (ri ri2 : list loc) : Prop := exists e, ri2 = ri ++ e /\ Forall (fun l => length h <= l) e.
Lemma Ext_refl h ri : Ext h ri ri.  Proof. exists []. rewrite app_nil_r. auto. Qed.

(* one step of the function on the caller's heap is matched by the same step on the inner copy *)
Lemma step_sim ri h hi root rooti m h2 : Sim ri h hi -> rv ri root = Some rooti -> step_mut root h m = Some h2 ->
  exists ri2 hi2, step_mut rooti hi m = Some hi2 /\ Sim ri2 h2 hi2 /\ Ext h ri ri2 /\ rv ri2 root = Some rooti /\ length h <= length h2.
Proof.
  intros HS Hr E. destruct m as [p e|p k s|p k|p md']; cbn [step_mut] in *.
  - (* v.value = e *)
    destruct (eval h root e) as [x|] eqn:Ev; [|discriminate].
    destruct (resolve (S (length p)) h root p) as [[l| | |]|] eqn:R; try discriminate.
    destruct (nth_error h l) as [[|t pl md]|] eqn:Hl; try discriminate. inversion E; subst h2; clear E.
    rewrite (eval_sim _ _ _ _ _ _ _ HS Hr Ev).
    destruct (resolve_sim _ _ _ HS _ _ _ _ _ Hr R) as (u' & R' & Hu). rewrite R'. cbn [rv] in Hu.
    destruct (index_of l ri) as [i|] eqn:Ei; [|discriminate]. inversion Hu; subst u'.
    destruct (sim_cell _ _ _ _ _ HS Ei) as (o0 & o & A & B & C). rewrite Hl in A. inversion A; subst o0. inversion B; subst o. rewrite C.
    exists ri, (set_nth i (OVar t x md) hi). split; [reflexivity|]. split; [now apply sim_update|]. split; [apply Ext_refl|]. split; [exact Hr|]. rewrite set_nth_length. lia.
  - (* setattr *)
    unfold node_at in *.
    destruct (resolve (S (length p)) h root p) as [[l| | |]|] eqn:R; try discriminate.
    destruct (nth_error h l) as [[ty attrs|]|] eqn:Hl; try discriminate.
    destruct (resolve_sim _ _ _ HS _ _ _ _ _ Hr R) as (u' & R' & Hu). rewrite R'. cbn [rv] in Hu.
    destruct (index_of l ri) as [i|] eqn:Ei; [|discriminate]. inversion Hu; subst u'.
    destruct (sim_cell _ _ _ _ _ HS Ei) as (o0 & o & A & B & C). rewrite Hl in A. inversion A; subst o0. cbn [ro] in B.
    destruct (rattrs ri attrs) as [attrs'|] eqn:Er; [|discriminate]. inversion B; subst o. rewrite C.
    assert (Ll : l < length h) by (apply nth_error_Some; congruence).
    assert (Li : i < length hi) by (apply nth_error_Some; congruence).
    pose proof HS as (_ & LL & _).
    destruct s as [x|q|vty md e|ty'].
    + inversion E; subst h2. eexists ri, _. split; [reflexivity|]. split.
      * apply sim_update; [exact HS|exact Ei|]. cbn [ro]. now rewrite (rattrs_kinsert ri k (VStatic x) (VStatic x) attrs attrs' eq_refl Er).
      * split; [apply Ext_refl|]. split; [exact Hr|]. rewrite set_nth_length. lia.
    + destruct (resolve (S (length q)) h root q) as [[l'| | |]|] eqn:Rq; try discriminate. inversion E; subst h2.
      destruct (resolve_sim _ _ _ HS _ _ _ _ _ Hr Rq) as (uq & Rq' & Huq). rewrite Rq'. pose proof Huq as Huq'. cbn [rv] in Huq.
      destruct (index_of l' ri) as [i'|] eqn:Ei'; [|discriminate]. inversion Huq; subst uq.
      eexists ri, _. split; [reflexivity|]. split.
      * apply sim_update; [exact HS|exact Ei|]. cbn [ro]. now rewrite (rattrs_kinsert ri k (VRef l') (VRef i') attrs attrs' Huq' Er).
      * split; [apply Ext_refl|]. split; [exact Hr|]. rewrite set_nth_length. lia.
    + destruct (eval h root e) as [x|] eqn:Ev; [|discriminate]. inversion E; subst h2. rewrite (eval_sim _ _ _ _ _ _ _ HS Hr Ev).
      set (ri2 := ri ++ [length h]).
      assert (S2 : Sim ri2 (h ++ [OVar vty x md]) (hi ++ [OVar vty x md])) by (apply sim_alloc; [exact HS|reflexivity]).
      assert (Ei2 : index_of l ri2 = Some i) by (apply index_of_app_some; exact Ei).
      assert (Hnew : rv ri2 (VRef (length h)) = Some (VRef (length hi))).
      { cbn [rv]. unfold ri2. assert (Hn : index_of (length h) ri = None).
        { destruct (index_of (length h) ri) eqn:X; [|reflexivity]. apply index_of_nth in X. apply nth_error_In in X. pose proof (sim_bound _ _ _ _ HS X). lia. }
        pose proof (index_of_app_new _ _ Hn) as X. unfold loc in *. rewrite X, LL. reflexivity. }
      exists ri2, (set_nth i (ONode ty (kinsert k (VRef (length hi)) attrs')) (hi ++ [OVar vty x md])).
      split; [now rewrite set_nth_app_l|]. split.
      * rewrite set_nth_app_l by exact Ll. apply sim_update; [exact S2|exact Ei2|]. cbn [ro].
        now rewrite (rattrs_kinsert ri2 k (VRef (length h)) (VRef (length hi)) attrs attrs' Hnew (rattrs_mono _ _ _ _ Er)).
      * split; [exists [length h]; split; [reflexivity|constructor; [lia|constructor]]|]. split; [now apply rv_mono|].
        rewrite app_length, set_nth_length. lia.
    + inversion E; subst h2.
      set (ri2 := ri ++ [length h]).
      assert (S2 : Sim ri2 (h ++ [ONode ty' []]) (hi ++ [ONode ty' []])) by (apply sim_alloc; [exact HS|reflexivity]).
      assert (Ei2 : index_of l ri2 = Some i) by (apply index_of_app_some; exact Ei).
      assert (Hnew : rv ri2 (VRef (length h)) = Some (VRef (length hi))).
      { cbn [rv]. unfold ri2. assert (Hn : index_of (length h) ri = None).
        { destruct (index_of (length h) ri) eqn:X; [|reflexivity]. apply index_of_nth in X. apply nth_error_In in X. pose proof (sim_bound _ _ _ _ HS X). lia. }
        pose proof (index_of_app_new _ _ Hn) as X. unfold loc in *. rewrite X, LL. reflexivity. }
      exists ri2, (set_nth i (ONode ty (kinsert k (VRef (length hi)) attrs')) (hi ++ [ONode ty' []])).
      split; [now rewrite set_nth_app_l|]. split.
      * rewrite set_nth_app_l by exact Ll. apply sim_update; [exact S2|exact Ei2|]. cbn [ro].
        now rewrite (rattrs_kinsert ri2 k (VRef (length h)) (VRef (length hi)) attrs attrs' Hnew (rattrs_mono _ _ _ _ Er)).
      * split; [exists [length h]; split; [reflexivity|constructor; [lia|constructor]]|]. split; [now apply rv_mono|].
        rewrite app_length, set_nth_length. lia.
  - (* delattr *)
    unfold node_at in *.
    destruct (resolve (S (length p)) h root p) as [[l| | |]|] eqn:R; try discriminate.
    destruct (nth_error h l) as [[ty attrs|]|] eqn:Hl; try discriminate.
    destruct (resolve_sim _ _ _ HS _ _ _ _ _ Hr R) as (u' & R' & Hu). rewrite R'. cbn [rv] in Hu.
    destruct (index_of l ri) as [i|] eqn:Ei; [|discriminate]. inversion Hu; subst u'.
    destruct (sim_cell _ _ _ _ _ HS Ei) as (o0 & o & A & B & C). rewrite Hl in A. inversion A; subst o0. cbn [ro] in B.
    destruct (rattrs ri attrs) as [attrs'|] eqn:Er; [|discriminate]. inversion B; subst o. rewrite C.
    rewrite (rattrs_khas _ _ _ _ Er). destruct (khas k attrs); [|discriminate]. inversion E; subst h2.
    eexists ri, _. split; [reflexivity|]. split.
    + apply sim_update; [exact HS|exact Ei|]. cbn [ro]. now rewrite (rattrs_kremove _ k _ _ Er).
    + split; [apply Ext_refl|]. split; [exact Hr|]. rewrite set_nth_length. lia.
  - (* the metadata of a Variable *)
    destruct (resolve (S (length p)) h root p) as [[l| | |]|] eqn:R; try discriminate.
    destruct (nth_error h l) as [[|t pl md]|] eqn:Hl; try discriminate. inversion E; subst h2; clear E.
    destruct (resolve_sim _ _ _ HS _ _ _ _ _ Hr R) as (u' & R' & Hu). rewrite R'. cbn [rv] in Hu.
    destruct (index_of l ri) as [i|] eqn:Ei; [|discriminate]. inversion Hu; subst u'.
    destruct (sim_cell _ _ _ _ _ HS Ei) as (o0 & o & A & B & C). rewrite Hl in A. inversion A; subst o0. inversion B; subst o. rewrite C.
    exists ri, (set_nth i (OVar t pl md') hi). split; [reflexivity|]. split; [now apply sim_update|]. split; [apply Ext_refl|]. split; [exact Hr|]. rewrite set_nth_length. lia.
Qed.

Lemma Ext_trans h h2 a b c : length h <= length h2 -> Ext h a b -> Ext h2 b c -> Ext h a c.
Proof.
  intros L (e1 & -> & F1) (e2 & -> & F2). exists (e1 ++ e2). split; [now rewrite app_assoc|]. apply Forall_app. split; [exact F1|].
  eapply Forall_impl; [|exact F2]. intros; simpl in *; lia.
Qed.

(* ... and so is the whole body, however long *)
Lemma run_sim ms : forall ri h hi root rooti h2, Sim ri h hi -> rv ri root = Some rooti -> run_mut root h ms = Some h2 ->
  exists ri2 hi2, run_mut rooti hi ms = Some hi2 /\ Sim ri2 h2 hi2 /\ Ext h ri ri2 /\ rv ri2 root = Some rooti /\ length h <= length h2.
Proof.
  induction ms as [|m r IH]; intros ri h hi root rooti h2 HS Hr E; cbn [run_mut] in *.
  - inversion E; subst. exists ri, hi. split; [reflexivity|]. split; [exact HS|]. split; [apply Ext_refl|]. split; [exact Hr|lia].
  - destruct (step_mut root h m) as [h1|] eqn:E1; [|discriminate].
    destruct (step_sim _ _ _ _ _ _ _ HS Hr E1) as (ri1 & hi1 & St & S1 & X1 & Hr1 & L1). rewrite St.
    destruct (IH _ _ _ _ _ _ S1 Hr1 E) as (ri2 & hi2 & Rn & S2 & X2 & Hr2 & L2).
    exists ri2, hi2. split; [exact Rn|]. split; [exact S2|]. split; [eapply Ext_trans; eauto|]. split; [exact Hr2|lia].
Qed.

(* ------------------------------------------------------------------------------------------------ *)
(* what the function returns                                                                          *)
Lemma ret_sim ri h hi root rooti f x o : Sim ri h hi -> rv ri root = Some rooti -> ret_value h root f = Some (x, o) ->
  exists o', ret_value hi rooti f = Some (x, o') /\
    rv ri (match o with Some v => v | None => VStatic 0 end) = Some (match o' with Some v => v | None => VStatic 0 end) /\
    (o = None <-> o' = None).
Proof.
  intros HS Hr. unfold ret_value. destruct (eval h root (f_ret f)) as [y|] eqn:Ev; [|discriminate]. rewrite (eval_sim _ _ _ _ _ _ _ HS Hr Ev).
  destruct (f_obj f) as [q|].
  - destruct (resolve (S (length q)) h root q) as [[l| | |]|] eqn:R; try discriminate. intros H; inversion H; subst.
    destruct (resolve_sim _ _ _ HS _ _ _ _ _ Hr R) as (u' & R' & Hu). rewrite R'. pose proof Hu as Hu'. cbn [rv] in Hu.
    destruct (index_of l ri) as [i|]; [|discriminate]. inversion Hu; subst u'. exists (Some (VRef i)). split; [reflexivity|]. split; [exact Hu'|split; discriminate].
  - intros H; inversion H; subst. exists None. split; [reflexivity|]. split; [reflexivity|tauto].
Qed.

Definition out_root (root : value) (o : option value) : value :=
  VTree TUPLE [(0%N, root); (OUT, match o with Some v => v | None => VStatic 0 end)].
Lemma rv_out_root ri root rooti o o' : rv ri root = Some rooti ->
  rv ri (match o with Some v => v | None => VStatic 0 end) = Some (match o' with Some v => v | None => VStatic 0 end) ->
  rv ri (out_root root o) = Some (out_root rooti o').
Proof. intros H1 H2. unfold out_root. rewrite rv_tree. cbn [rattrs]. now rewrite H1, H2. Qed.

(* the heaps related by Sim are isomorphic in the sense of Proofs/GraphIso.v *)
Lemma sim_rel ri h hi : Sim ri h hi ->
  (forall a b, In a ri -> In b ri -> phi_of ri a = phi_of ri b -> a = b) /\
  (forall l, In l ri -> exists o, nth_error h l = Some o /\ nth_error hi (phi_of ri l) = Some (relocate_obj (phi_of ri) o) /\ closed_obj (fun l => In l ri) o).
Proof.
  intros HS. split.
  - intros a b Da Db E. unfold phi_of in E. destruct (index_of_in _ _ Da) as [i Ei]. destruct (index_of_in _ _ Db) as [j Ej]. rewrite Ei, Ej in E. subst j.
    exact (index_of_inj _ _ _ _ Ei Ej).
  - intros l Dl. destruct (index_of_in _ _ Dl) as [i Ei]. destruct (sim_cell _ _ _ _ _ HS Ei) as (o0 & o & A & B & C).
    destruct (ro_relocate _ _ _ B) as [-> Co]. exists o0. unfold phi_of at 1. rewrite Ei. auto.
Qed.

(* relocating the inner copy of a caller's value back through step (3)'s numbering and step (4)'s placement gives the
   caller's value itself: pre-existing objects are written back into the objects they were copied from *)
Lemma relocate_back (ri1 ri3 : list loc) (pi : nat -> loc) v : forall v1,
  (forall m j l, nth_error ri3 m = Some j -> nth_error ri1 j = Some l -> pi m = l) ->
  rv ri1 v = Some v1 -> closed_val (fun l => In l ri3) v1 -> relocate (fun l => pi (phi_of ri3 l)) v1 = v.
Proof.
  intros v1 Hpi. revert v1. induction v as [l|s|a|kd xs IH] using value_ind'; intros v1 H C.
  - cbn [rv] in H. destruct (index_of l ri1) as [j|] eqn:Ej; [|discriminate]. inversion H; subst v1. cbn [relocate closed_val] in *.
    destruct (index_of_in _ _ C) as [m Em]. unfold phi_of. rewrite Em. f_equal. apply (Hpi m j l); [now apply index_of_nth|now apply index_of_nth].
  - now inversion H.
  - now inversion H.
  - rewrite rv_tree in H. destruct (rattrs ri1 xs) as [ys|] eqn:E; [|discriminate]. inversion H; subst v1. clear H. rewrite relocate_tree. apply closed_tree in C. f_equal.
    revert ys E C. induction IH as [|[k x] r Hx _ IHr]; intros ys E C; cbn [rattrs] in E.
    + inversion E; subst. reflexivity.
    + destruct (rv ri1 x) as [x'|] eqn:Ex; [|discriminate]. destruct (rattrs ri1 r) as [r'|] eqn:Er; [|discriminate]. inversion E; subst.
      inversion C; subst. cbn [relocate_attrs map fst snd]. simpl in Hx. simpl in H1. rewrite (Hx _ Ex H1). f_equal. now apply IHr.
Qed.

(* ------------------------------------------------------------------------------------------------ *)
(* the protocol run and the eager run are observed alike                                              *)
Theorem ctx_equals_eager f times h args e c oe oc :
  run_eager f times h args = Some e -> run_ctx true f times h args = Some c ->
  observe h args e = Some oe -> observe h args c = Some oc -> oe = oc.
Proof.
  unfold run_eager, run_ctx. cbn [negb andb]. set (root := args_root args). set (body := concat (repeat (f_body f) times)).
  destruct (run_mut root h body) as [he|] eqn:RunE; [|discriminate].
  destruct (ret_value he root f) as [[x o]|] eqn:RetE; [|discriminate]. intros H; inversion H; subst e; clear H.
  destruct (flatten_ri h root) as [[[g1 ls1] ri1]|] eqn:F1; [|discriminate].
  destruct (unflatten g1 (map snd ls1)) as [[hi rooti]|] eqn:U1; [|discriminate].
  destruct (roundtrip_iso_ri _ _ _ _ _ F1) as (hi0 & rooti0 & U1' & ND1 & L1 & Hr1 & C1). rewrite U1 in U1'. inversion U1'; subst hi0 rooti0; clear U1'.
  assert (S1 : Sim ri1 h hi) by (split; [exact ND1|split; [exact L1|exact C1]]).
  destruct (run_sim body _ _ _ _ _ _ S1 Hr1 RunE) as (ri' & hi' & RunI & S' & (ext & Eri & Fext) & Hr' & Lh).
  rewrite RunI.
  destruct (ret_sim _ _ _ _ _ _ _ _ S' Hr' RetE) as (o' & RetI & Hro & Hnone). rewrite RetI.
  fold (out_root rooti o').
  destruct (flatten_ri hi' (out_root rooti o')) as [[[g3 ls3] ri3]|] eqn:F3; [|discriminate].
  assert (B1 : forall lo, In lo ri1 -> lo < length h) by (intros lo Hin; exact (sim_bound _ _ _ _ S1 Hin)).
  destruct (merge_back_spec h ri1 hi' _ _ _ _ ND1 B1 F3) as (hc & v0 & Hv0 & MB & Lc & Frame & Cells & Reuse & Fresh).
  set (pi := fun i => nth i (placement ri1 ri3 (length h)) 0) in *.
  rewrite MB.
  (* the value merge_back returns *)
  pose proof (rv_relocate _ _ _ Hv0) as [Ev0 Cv0]. subst v0.
  unfold out_root at 1. rewrite !relocate_tree. cbn [relocate_attrs map fst snd].
  intros H; inversion H; subst c; clear H.
  (* observations *)
  unfold observe. fold root. fold (out_root root o).
  set (oc_val := match o' with Some _ => Some (relocate pi (relocate (phi_of ri3) match o' with Some v => v | None => VStatic 0 end)) | None => None end).
  fold (out_root root oc_val).
  destruct (flatten_ri he (out_root root o)) as [[[ge lse] rie]|] eqn:Fe; [|discriminate]. intros H; inversion H; subst oe; clear H.
  destruct (flatten_ri hc (out_root root oc_val)) as [[[gc lsc] ric]|] eqn:Fc; [|discriminate]. intros H; inversion H; subst oc; clear H.
  (* first isomorphism: the eager heap and the inner heap *)
  pose proof (rv_out_root _ _ _ _ _ Hr' Hro) as Hout.
  destruct (rv_relocate _ _ _ Hout) as [Eout Cout].
  destruct (sim_rel _ _ _ S') as [InjE RelE].
  rewrite Eout in F3.
  destruct (flatten_ri_iso (phi_of ri') (fun l => In l ri') he hi' _ _ _ _ _ _ _ InjE RelE Cout Fe F3) as (Eg & Els & Eri3 & FDe).
  (* second isomorphism: the inner heap and the caller's heap after the write-back *)
  set (psi := fun l => pi (phi_of ri3 l)).
  pose proof (flatten_ri_nodup _ _ _ _ _ F3) as ND3.
  pose proof (placement_ok h ri1 ri3 ND1 B1 ND3) as [PInj PB]. fold pi in PInj, PB.
  assert (Inj3 : forall a b, In a ri3 -> In b ri3 -> psi a = psi b -> a = b).
  { intros a b Da Db E. unfold psi, phi_of in E. destruct (index_of_in _ _ Da) as [ia Ea]. destruct (index_of_in _ _ Db) as [ib Eb]. rewrite Ea, Eb in E.
    assert (ia = ib). { apply PInj; [apply index_of_nth in Ea; apply nth_error_Some; congruence|apply index_of_nth in Eb; apply nth_error_Some; congruence|exact E]. }
    subst ib. exact (index_of_inj _ _ _ _ Ea Eb). }
  assert (Rel3 : forall l, In l ri3 -> exists o0, nth_error hi' l = Some o0 /\ nth_error hc (psi l) = Some (relocate_obj psi o0) /\ closed_obj (fun l => In l ri3) o0).
  { intros l Dl. destruct (index_of_in _ _ Dl) as [i Ei]. destruct (Cells _ _ (index_of_nth _ _ _ Ei)) as (o0 & oo & A & B & C).
    destruct (ro_relocate _ _ _ B) as [-> Co]. exists o0. split; [exact A|]. split; [|exact Co].
    unfold psi at 1, phi_of at 1. rewrite Ei. change (nth_error hc (pi i) = Some (relocate_obj pi (relocate_obj (phi_of ri3) o0))) in C. rewrite C, relocate_obj_comp. reflexivity. }
  assert (Cout3 : closed_val (fun l => In l ri3) (relocate (phi_of ri') (out_root root o))) by (rewrite <- Eout; exact Cv0).
  assert (Eback : relocate psi (relocate (phi_of ri') (out_root root o)) = out_root root oc_val).
  { rewrite <- Eout. unfold out_root. rewrite !relocate_tree. cbn [relocate_attrs map fst snd]. f_equal. f_equal; [f_equal|].
    - (* the arguments come back as the caller's own objects *)
      apply (relocate_back ri1 ri3 pi root rooti); [|exact Hr1|].
      + intros m j l Hm Hj. exact (Reuse _ _ _ Hm Hj).
      + rewrite <- Eout in Cout3. unfold out_root in Cout3. apply closed_tree in Cout3. now inversion Cout3.
    - f_equal. f_equal. unfold oc_val. destruct o' as [vo'|]; [exact (eq_sym (relocate_comp pi (phi_of ri3) vo'))|reflexivity]. }
  rewrite <- Eback in Fc.
  destruct (flatten_ri_iso psi (fun l => In l ri3) hi' hc _ _ _ _ _ _ _ Inj3 Rel3 Cout3 F3 Fc) as (Eg3 & Els3 & Eric & FD3).
  subst gc lsc ge lse. f_equal. f_equal.
  (* which of the caller's original objects each object is *)
  rewrite Eric, Eri3, !map_map. apply map_ext_in. intros l Hl.
  assert (Dl : In l ri') by (rewrite Forall_forall in FDe; now apply FDe).
  destruct (index_of_in _ _ Dl) as [i Ei].
  assert (Di3 : In i ri3). { rewrite Eri3. apply in_map_iff. exists l. split; [unfold phi_of; now rewrite Ei|exact Hl]. }
  destruct (index_of_in _ _ Di3) as [m Em]. unfold psi, phi_of. rewrite Ei, Em.
  pose proof (index_of_nth _ _ _ Ei) as Hi. pose proof (index_of_nth _ _ _ Em) as Hm. rewrite Eri in Hi.
  destruct (nth_error ri1 i) as [l1|] eqn:E1.
  - rewrite nth_error_app1 in Hi by (apply nth_error_Some; congruence). assert (l1 = l) by congruence. subst l1.
    pose proof (Reuse _ _ _ Hm E1) as Rm. change (pi m = l) in Rm. now rewrite Rm.
  - pose proof (Fresh _ _ Hm E1) as Hf. change (length h <= pi m) in Hf. apply nth_error_None in E1. rewrite nth_error_app2 in Hi by exact E1.
    apply nth_error_In in Hi. rewrite Forall_forall in Fext. specialize (Fext _ Hi).
    destruct (Nat.ltb_spec l (length h)); [lia|]. destruct (Nat.ltb_spec (pi m) (length h)); [lia|reflexivity].
Qed.

(* cond / switch / while_loop / fori_loop: the same protocol, restricted to functions that leave the structure alone *)
Corollary ctx_equals_eager_values_only f times h args e c oe oc :
  run_eager f times h args = Some e -> run_ctx false f times h args = Some c ->
  observe h args e = Some oe -> observe h args c = Some oc -> oe = oc.
Proof.
  intros E C. apply (ctx_equals_eager f times h args e c oe oc E).
  unfold run_ctx in *. cbn [negb andb] in *. destruct (existsb is_structural (f_body f)); [discriminate|exact C].
Qed.
