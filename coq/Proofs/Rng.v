From Coq Require Import Lia.
From Flaxm Require Import Lib.Harness Model.Rng.

(* ---------------- the hashed byte string determines the suffix (with the separator) ---------------- *)
Definition bytes_of (x : foldable) : list N := match x with FStr b => b | FInt n => int_bytes n end.
Definition zero_free (b : list N) : Prop := ~ In 0%N b.

Fixpoint split0 (l : list N) (cur : list N) : list (list N) :=
  match l with
  | [] => [rev cur]
  | x :: r => if (x =? 0)%N then rev cur :: split0 r [] else split0 r (x :: cur)
  end.

Lemma split0_zero_free b : zero_free b -> forall rest cur, split0 (b ++ rest) cur = split0 rest (rev b ++ cur).
Proof.
  induction b as [|x r IH]; intros Hz rest cur; [reflexivity|]. simpl.
  assert (x <> 0%N) by (intros ->; apply Hz; now left). apply N.eqb_neq in H. rewrite H.
  rewrite IH by (intros Hin; apply Hz; now right). now rewrite <- app_assoc.
Qed.

Lemma split0_enc s : Forall (fun x => zero_free (bytes_of x)) s -> forall cur,
  split0 (enc true s) cur = rev cur :: map bytes_of s.
Proof.
  induction s as [|x r IH]; intros HF cur; [reflexivity|]. inversion HF as [|? ? Hx Hr]; subst.
  unfold enc. cbn [map concat]. unfold enc1 at 1. cbn [app split0]. rewrite N.eqb_refl.
  fold (bytes_of x). rewrite <- app_assoc || idtac. change (concat (map (enc1 true) r)) with (enc true r).
  rewrite split0_zero_free by exact Hx. rewrite app_nil_r, IH by exact Hr. now rewrite rev_involutive.
Qed.

(* with the separator, two suffixes whose components contain no zero byte hash the same bytes only if they
   have the same components *)
Theorem enc_sep_injective s1 s2 :
  Forall (fun x => zero_free (bytes_of x)) s1 -> Forall (fun x => zero_free (bytes_of x)) s2 ->
  enc true s1 = enc true s2 -> map bytes_of s1 = map bytes_of s2.
Proof.
  intros H1 H2 E. pose proof (split0_enc s1 H1 []) as A. pose proof (split0_enc s2 H2 []) as B.
  rewrite E in A. rewrite A in B. now inversion B.
Qed.

(* F8: an integer count whose bytes contain 0x00 breaks it *)
Example enc_sep_refuted :
  enc true [FStr [120%N]; FInt 6356993%N] = enc true [FStr [120%N]; FStr [97%N]; FInt 1%N].
Proof. vm_compute. reflexivity. Qed.
(* and without the separator adjacent names run together *)
Example enc_nosep_collision : enc false [FStr [97; 98]%N; FStr [99%N]] = enc false [FStr [97%N]; FStr [98; 99]%N].
Proof. vm_compute. reflexivity. Qed.

(* counts are encoded injectively *)
Fixpoint of_le (l : list N) : N := match l with [] => 0 | x :: r => x + 256 * of_le r end%N.
Lemma of_le_bytes : forall fuel n, (n < 256 ^ N.of_nat fuel)%N -> of_le (nat_bytes_le fuel n) = n.
Proof.
  induction fuel as [|f IH]; intros n Hn.
  - simpl in *. assert (n = 0%N) by lia. subst. reflexivity.
  - cbn [nat_bytes_le]. destruct (N.eqb_spec n 0) as [->|Hz]; [reflexivity|]. cbn [of_le].
    rewrite IH.
    + pose proof (N.div_mod n 256 ltac:(lia)). lia.
    + rewrite Nat2N.inj_succ, N.pow_succ_r' in Hn. apply N.div_lt_upper_bound; lia.
Qed.
Theorem int_bytes_injective n m : (n < 256 ^ 16)%N -> (m < 256 ^ 16)%N -> int_bytes n = int_bytes m -> n = m.
Proof.
  unfold int_bytes. intros Hn Hm E. apply (f_equal (@rev N)) in E. rewrite !rev_involutive in E.
  rewrite <- (of_le_bytes 16 n), <- (of_le_bytes 16 m) by assumption. now rewrite E.
Qed.

(* ---------------- an NNX stream never replays a key ---------------- *)
Inductive sop := SDraw | SSplit (n : nat) | SRestore.

Definition sstep (st : stream * list kterm) (o : sop) : stream * list kterm :=
  let '(s, out) := st in
  match o, s with
  | SDraw, _ => let '(ks, s') := draw s in (s', out ++ ks)
  | SSplit n, Plain k c => (Split (map (KSplit (KFold k c)) (seq 0 n)) (repeat 0%N n) k (c + 1), out)
  | SSplit _, Split _ _ _ _ => (s, out)               (* nested splits are outside the model *)
  | SRestore, Split _ _ bk bc => (Plain bk bc, out)
  | SRestore, Plain _ _ => (s, out)
  end.

(* where a key term drawn from the stream with base key K comes from *)
Inductive origin (K : kterm) : kterm -> N -> Prop :=
| OPlain d : origin K (KFold K d) d                                         (* the d-th plain draw *)
| OSplit c0 i j : origin K (KFold (KSplit (KFold K c0) i) j) c0.        (* drawn inside the split that consumed count c0 *)

Definition sinv (K : kterm) (st : stream * list kterm) : Prop :=
  let '(s, out) := st in
  NoDup out /\
  match s with
  | Plain k c => k = K /\ forall t, In t out -> exists d, origin K t d /\ (d < c)%N
  | Split ks cs bk bc =>
      bk = K /\ exists c0 n, bc = (c0 + 1)%N /\ ks = map (KSplit (KFold K c0)) (seq 0 n) /\ length cs = n /\
      forall t, In t out ->
        (exists d, origin K t d /\ (d < c0)%N) \/
        (exists i j c, t = KFold (KSplit (KFold K c0) i) j /\ nth_error cs i = Some c /\ (j < c)%N)
  end.

Lemma kfold_base_neq K c0 i : forall s, K = KSeed s -> K <> KSplit (KFold K c0) i.
Proof. intros s ->. discriminate. Qed.

Lemma combine_map_seq {A} (f : nat -> A) (cs : list N) n : length cs = n ->
  forall m, In m (combine (map f (seq 0 n)) cs) <-> exists i c, nth_error cs i = Some c /\ m = (f i, c).
Proof.
  intros Hl. assert (G : forall s (cs : list N) n, length cs = n -> forall m, In m (combine (map f (seq s n)) cs) <-> exists i c, nth_error cs i = Some c /\ m = (f (s + i), c)).
  { intros s cs0. revert s. induction cs0 as [|c r IH]; intros s n0 Hn m; subst n0; simpl.
    - split; [tauto|]. intros (i & c & H & _). destruct i; discriminate.
    - rewrite (IH (S s) (length r) eq_refl). split.
      + intros [<-|(i & c' & H & ->)]; [exists 0, c; rewrite Nat.add_0_r; auto|exists (S i), c'; simpl; rewrite Nat.add_succ_r; auto].
      + intros ([|i] & c' & H & ->); simpl in H; [inversion H; subst; left; now rewrite Nat.add_0_r|right; exists i, c'; rewrite Nat.add_succ_r; auto]. }
  intros m. rewrite (G 0 cs n Hl). reflexivity.
Qed.

Lemma nodup_split_draws X : forall len s (cs : list N), length cs = len ->
  NoDup (map (fun kc : kterm * N => KFold (fst kc) (snd kc)) (combine (map (KSplit X) (seq s len)) cs)).
Proof.
  induction len as [|len IH]; intros s cs Hl; destruct cs as [|c r]; simpl in *; try constructor; try discriminate.
  - intros Hin. apply in_map_iff in Hin as ([a b] & E & Hin). simpl in E. inversion E; subst.
    apply in_combine_l in Hin. apply in_map_iff in Hin as (j & Ej & Hj). inversion Ej; subst. apply in_seq in Hj. lia.
  - apply IH. lia.
Qed.

Theorem sstep_inv s0 (K := KSeed s0) st o : sinv K st -> sinv K (sstep st o).
Proof.
  destruct st as [s out]. intros [ND I]. destruct o; destruct s as [k c|ks cs bk bc]; cbn [sstep draw].
  - (* plain draw *)
    destruct I as [-> I]. split.
    + apply NoDup_app_one || idtac.
      assert (~ In (KFold K c) out) by (intros Hin; destruct (I _ Hin) as (d & Ho & Hd); inversion Ho; subst; lia).
      clear -ND H. induction out as [|a r IH]; simpl; [constructor; [auto|constructor]|]. inversion ND; subst.
      constructor; [intros Hin; apply in_app_or in Hin as [?|[<-|[]]]; [contradiction|apply H; now left]|apply IH; auto; intros ?; apply H; now right].
    + split; [reflexivity|]. intros t Hin. apply in_app_or in Hin as [Hin|[<-|[]]].
      * destruct (I _ Hin) as (d & Ho & Hd). exists d. split; [exact Ho|lia].
      * exists c. split; [constructor|lia].
  - (* draw inside a split *)
    destruct I as (-> & c0 & n & -> & -> & Hlen & I).
    set (new := map (fun kc => KFold (fst kc) (snd kc)) (combine (map (KSplit (KFold K c0)) (seq 0 n)) cs)).
    assert (Hnew : forall t, In t new <-> exists i c, nth_error cs i = Some c /\ t = KFold (KSplit (KFold K c0) i) c).
    { intros t. unfold new. rewrite in_map_iff. split.
      - intros ([a b] & <- & Hin). apply (combine_map_seq _ cs n Hlen) in Hin as (i & c & Hn & E). inversion E; subst. eauto.
      - intros (i & c & Hn & ->). exists (KSplit (KFold K c0) i, c). split; [reflexivity|]. apply (combine_map_seq _ cs n Hlen). eauto. }
    split.
    + (* NoDup (out ++ new) *)
      assert (NDn : NoDup new).
      { unfold new. now apply nodup_split_draws. }
      assert (Dis : forall t, In t out -> ~ In t new).
      { intros t Ho Hn. apply Hnew in Hn as (i & c & Hc & ->). destruct (I _ Ho) as [(d & Hor & Hd)|(i' & j & c' & E & Hc' & Hj)].
        - inversion Hor; subst; lia.
        - inversion E; subst. rewrite Hc in Hc'. inversion Hc'; subst. lia. }
      clear -ND NDn Dis. induction out as [|a r IH]; simpl; [exact NDn|]. inversion ND; subst. constructor.
      * intros Hin. apply in_app_or in Hin as [?|?]; [contradiction|]. apply (Dis a); [now left|assumption].
      * apply IH; auto. intros t Ht. apply Dis. now right.
    + split; [reflexivity|]. exists c0, n. split; [reflexivity|]. split; [reflexivity|]. split; [now rewrite map_length|].
      intros t Hin. apply in_app_or in Hin as [Hin|Hin].
      * destruct (I _ Hin) as [L|(i & j & c & E & Hc & Hj)]; [left; exact L|]. right. exists i, j, (c + 1)%N. split; [exact E|]. split; [|lia].
        rewrite nth_error_map, Hc. reflexivity.
      * apply Hnew in Hin as (i & c & Hc & ->). right. exists i, c, (c + 1)%N. split; [reflexivity|]. split; [|lia].
        rewrite nth_error_map, Hc. reflexivity.
  - (* split a plain stream *)
    destruct I as [-> I]. split; [exact ND|]. split; [reflexivity|]. exists c, n. split; [reflexivity|]. split; [reflexivity|]. split; [apply repeat_length|].
    intros t Hin. left. exact (I _ Hin).
  - split; [exact ND|exact I].
  - split; [exact ND|exact I].
  - (* restore *)
    destruct I as (-> & c0 & n & -> & -> & Hlen & I). split; [exact ND|]. split; [reflexivity|].
    intros t Hin. destruct (I _ Hin) as [(d & Ho & Hd)|(i & j & c & -> & _ & _)].
    + exists d. split; [exact Ho|lia].
    + exists c0. split; [constructor|lia].
Qed.

(* for every history of draws, split_rngs and restore_rngs on a stream, no key is handed out twice: keys drawn
   after restoring use counts above every count used before (the split consumes one) and keys drawn inside a split
   are disjoint from all outer keys *)
Theorem nnx_stream_never_replays s0 ops :
  NoDup (snd (fold_left sstep ops (Plain (KSeed s0) 0, []))).
Proof.
  assert (G : forall ops st, sinv (KSeed s0) st -> sinv (KSeed s0) (fold_left sstep ops st)).
  { induction ops0 as [|o r IH]; intros st I; simpl; [exact I|]. apply IH. now apply sstep_inv. }
  assert (I0 : sinv (KSeed s0) (Plain (KSeed s0) 0, [])) by (split; [constructor|split; [reflexivity|intros t []]]).
  specialize (G ops _ I0). destruct (fold_left sstep ops (Plain (KSeed s0) 0, [])) as [s out]. exact (proj1 G).
Qed.

(* the k-th call of a plain stream returns fold_in(key, k) *)
Theorem nnx_stream_formula k c : draw (Plain k c) = ([KFold k c], Plain k (c + 1)).
Proof. reflexivity. Qed.
(* a missing stream falls back to 'default' *)
Theorem nnx_missing_stream_uses_default nm ss st : sassoc nm ss = None -> sassoc default_stream ss = Some st ->
  resolve nm ss = Some default_stream.
Proof. intros H1 H2. unfold resolve. now rewrite H1, H2. Qed.
(* reseeding restarts the stream *)
Theorem nnx_reseed_restarts nm seed ss k c out sq : sassoc nm ss = Some (Plain k c) ->
  rstep (mkR ss out sq) (RReseed nm seed) = Some (mkR (sset nm (Plain (KSeed seed) 0) ss) out sq).
Proof. intros H. unfold rstep. simpl. now rewrite H. Qed.

(* ---------------- LazyRng and the jit boundary ---------------- *)
Lemma make_rng_key_unfold sep r c : make_rng_key sep r c = LFold (lr_key r) (enc sep (lr_suffix r ++ [FInt c])).
Proof.
  unfold make_rng_key, as_jax_rng, lazy_create. cbn [lr_suffix lr_key]. destruct (lr_suffix r ++ [FInt c]) eqn:E; [|reflexivity].
  destruct (lr_suffix r); discriminate.
Qed.

(* scopes whose paths are hashed differently draw different keys inside lift.jit / fold_rngs, whatever their counts *)
Theorem jit_keeps_paths_apart sep root p q c d : p <> [] -> q <> [] -> enc sep p <> enc sep q ->
  make_rng_key sep (materialise sep (mkLazy root p)) c <> make_rng_key sep (materialise sep (mkLazy root q)) d.
Proof.
  intros Hp Hq Hne. rewrite !make_rng_key_unfold. unfold materialise, as_jax_rng. cbn [lr_key lr_suffix app].
  destruct p as [|a p]; [contradiction|]. destruct q as [|b q]; [contradiction|]. intros E. injection E as E1 E2. contradiction.
Qed.

(* ... and none of them is a key the root scope draws itself *)
Theorem jit_keys_not_root_keys sep root p c d : p <> [] ->
  make_rng_key sep (materialise sep (mkLazy (LRoot root) p)) c <> make_rng_key sep (mkLazy (LRoot root) []) d.
Proof.
  intros Hp. rewrite !make_rng_key_unfold. unfold materialise, as_jax_rng. cbn [lr_key lr_suffix app].
  destruct p as [|a p]; [contradiction|]. intros E. injection E as E1 E2. discriminate.
Qed.

(* the keys of the transformed module itself (nn.jit forks them first: empty suffix) are what they were *)
Theorem materialise_forked sep k : materialise sep (mkLazy k []) = mkLazy k [].
Proof. reflexivity. Qed.

(* within one scope different counts still give different keys *)
Theorem jit_counts_apart sep r c d : enc sep [FInt c] <> enc sep [FInt d] ->
  make_rng_key sep (materialise sep r) c <> make_rng_key sep (materialise sep r) d.
Proof. intros Hne. rewrite !make_rng_key_unfold. unfold materialise. cbn [lr_key lr_suffix app]. intros E. injection E as E. contradiction. Qed.

(* the defect repaired by the `fix:` commit (F31): with the suffix dropped, every scope handed to lift.jit draws the keys of
   the root scope *)
Theorem clear_suffix_collides sep root p q c :
  make_rng_key sep (clear_suffix (mkLazy root p)) c = make_rng_key sep (clear_suffix (mkLazy root q)) c /\
  make_rng_key sep (clear_suffix (mkLazy root p)) c = make_rng_key sep (mkLazy root []) c.
Proof. split; reflexivity. Qed.

(* the counts of the branch that ran and the count of the draw after the transform are pairwise different and all new *)
Lemma sum_firstn_le (ds : list nat) : forall i, i < length ds ->
  fold_right Nat.add 0 (firstn i ds) + nth i ds 0 <= fold_right Nat.add 0 ds.
Proof.
  induction ds as [|d r IH]; intros i Hi; cbn [length] in Hi; [lia|].
  destruct i as [|i]; cbn [firstn nth fold_right]; [lia|]. specialize (IH i ltac:(lia)). lia.
Qed.
Lemma NoDup_snoc_nat (l : list nat) x : NoDup l -> ~ In x l -> NoDup (l ++ [x]).
Proof.
  induction l as [|a r IH]; intros ND Hx; cbn [app]; [constructor; [intros []|constructor]|].
  inversion ND; subst. constructor.
  - intros Hin. apply in_app_or in Hin as [Hin|[Hin|[]]]; [contradiction|]. subst. apply Hx. now left.
  - apply IH; [assumption|]. intros Hin. apply Hx. now right.
Qed.
Theorem branch_draws_distinct entry ds i : i < length ds ->
  NoDup (branch_counts entry ds i ++ [count_after entry ds]) /\
  forall c, In c (branch_counts entry ds i ++ [count_after entry ds]) -> entry < c.
Proof.
  intros Hi. pose proof (sum_firstn_le ds i Hi) as Hs. unfold branch_counts, count_after. split.
  - apply NoDup_snoc_nat; [apply seq_NoDup|]. intros Hin. apply in_seq in Hin. lia.
  - intros c Hc. apply in_app_or in Hc as [Hc|[<-|[]]]; [apply in_seq in Hc; lia|lia].
Qed.
