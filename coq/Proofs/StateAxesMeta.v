From Coq Require Import Lia.
From Flaxm Require Import Lib.Harness Model.StateAxesMeta.

Section Facts.
  Variable S : Type.
  Variable axis_fn : S -> Z -> S.

  (* the reference: every substate whose filter has an integer axis gets that axis, the others are left alone *)
  Definition spec_update (per_filter : list S) (axes : list sax) : list S :=
    map (fun sa => match snd sa with SAInt k => axis_fn (fst sa) k | _ => fst sa end) (combine per_filter axes).

  Lemma pair_up_spec : forall states axes, length states = length axes ->
    pair_up S axis_fn states axes = spec_update states axes.
  Proof.
    induction states as [|s r IH]; intros [|a ar] H; cbn [length] in H; try discriminate; [reflexivity|].
    cbn [pair_up spec_update combine map fst snd]. destruct a; f_equal; apply IH; lia.
  Qed.

  (* nnx.vmap: one substate per filter *)
  Theorem vmap_update states axes : length states = length axes ->
    update_meta S axis_fn states axes = spec_update states axes.
  Proof.
    intros H. unfold update_meta, aligned_axes. rewrite H, Nat.eqb_refl. now apply pair_up_spec.
  Qed.

  Lemma pair_up_ints : forall (l : list (S * sax)), Forall (fun sa => is_int (snd sa) = true) l ->
    pair_up S axis_fn (map fst l) (map snd l) = map (fun sa => match snd sa with SAInt k => axis_fn (fst sa) k | _ => fst sa end) l.
  Proof.
    induction l as [|[s a] r IH]; intros H; [reflexivity|]. inversion H; subst. cbn [map fst snd pair_up].
    destruct a; cbn [is_int snd] in *; try discriminate. f_equal. now apply IH.
  Qed.

  Lemma filter_combine_snd (per_filter : list S) : forall axes, length per_filter = length axes ->
    map snd (filter (fun sa => is_int (snd sa)) (combine per_filter axes)) = filter is_int axes.
  Proof.
    induction per_filter as [|s r IH]; intros [|a ar] H; cbn [length] in H; try discriminate; [reflexivity|].
    cbn [combine filter snd]. destruct (is_int a); cbn [map snd]; [f_equal|]; apply IH; lia.
  Qed.

  (* nnx.scan: only the vectorized substates are in `states`; each of them gets the axis of ITS filter, wherever the
     carry / broadcast filters stand in the StateAxes *)
  Theorem scan_update per_filter axes placeholder : length per_filter = length axes ->
    let vec := filter (fun sa => is_int (snd sa)) (combine per_filter axes) in
    vec <> [] -> length vec <> length axes \/ Forall (fun a => is_int a = true) axes ->
    update_meta S axis_fn (scan_states S per_filter axes placeholder) axes =
    map (fun sa => match snd sa with SAInt k => axis_fn (fst sa) k | _ => fst sa end) vec.
  Proof.
    intros H vec Hne Hcase. unfold scan_states. fold vec.
    destruct (map fst vec) as [|x l] eqn:E; [destruct vec; [contradiction|discriminate]|]. rewrite <- E.
    unfold update_meta, aligned_axes. rewrite map_length.
    assert (Hv : Forall (fun sa => is_int (snd sa) = true) vec).
    { apply Forall_forall. intros sa Hin. apply filter_In in Hin as [_ Hin]. exact Hin. }
    assert (Hs : map snd vec = filter is_int axes) by (apply filter_combine_snd; exact H).
    destruct (Nat.eqb_spec (length vec) (length axes)) as [Heq|Hneq].
    - destruct Hcase as [Hc|Hall]; [contradiction|].
      assert (Hf : filter is_int axes = axes).
      { clear - Hall. induction axes as [|a r IH]; [reflexivity|]. inversion Hall; subst. cbn [filter]. rewrite H1. f_equal. now apply IH. }
      rewrite <- Hf, <- Hs. now apply pair_up_ints.
    - rewrite <- Hs. now apply pair_up_ints.
  Qed.
End Facts.

(* the defect that was fixed (F34): a broadcast filter before the integer filter -- the old pairing gave the vectorized
   substate the broadcast filter's "axis" (none) and never touched it *)
Example scan_update_old_refuted :
  let f := fun (s : Z) (k : Z) => (s + 100 * (k + 1))%Z in
  update_meta_old Z f (scan_states Z [7; 8]%Z [SANone; SAInt 1] 0%Z) [SANone; SAInt 1] = [8%Z] /\
  update_meta Z f (scan_states Z [7; 8]%Z [SANone; SAInt 1] 0%Z) [SANone; SAInt 1] = [208%Z].
Proof. vm_compute. split; reflexivity. Qed.
