(* The transpositions of the lifted loops are inverse to each other, for every rank and every (possibly negative) axis. *)
From Coq Require Import Lia ZArith List.
From Flaxm Require Import Lib.Harness Model.Axes.

Lemma filter_all {A} (f : A -> bool) l : (forall x, In x l -> f x = true) -> filter f l = l.
Proof. induction l as [|x l IH]; intros H; simpl; [reflexivity|]. rewrite H by (now left). rewrite IH; [reflexivity|]. intros y Hy. apply H. now right. Qed.

Lemma without_split n a : a < n -> without n a = seq 0 a ++ seq (a + 1) (n - a - 1).
Proof.
  intros H. unfold without. replace n with (a + (1 + (n - a - 1))) at 1 by lia.
  rewrite !seq_app, !filter_app. cbn [seq filter Nat.add]. rewrite Nat.eqb_refl. cbn [negb app].
  rewrite (filter_all _ (seq 0 a)), (filter_all _ (seq (a + 1) (n - a - 1))); [reflexivity| |].
  - intros x Hx. apply in_seq in Hx. destruct (Nat.eqb_spec x a); [lia|reflexivity].
  - intros x Hx. apply in_seq in Hx. destruct (Nat.eqb_spec x a); [lia|reflexivity].
Qed.

Lemma seq_split3 n a : a < n -> seq 0 n = seq 0 a ++ [a] ++ seq (a + 1) (n - a - 1).
Proof. intros H. replace n with (a + (1 + (n - a - 1))) at 1 by lia. rewrite !seq_app. cbn [seq Nat.add app]. reflexivity. Qed.

Lemma nth_without n a j : a < n -> j < n - 1 -> nth j (without n a) 0 = if Nat.ltb j a then j else S j.
Proof.
  intros Ha Hj. rewrite without_split by exact Ha. destruct (Nat.ltb_spec j a).
  - rewrite app_nth1 by (rewrite seq_length; lia). rewrite seq_nth by lia. reflexivity.
  - rewrite app_nth2 by (rewrite seq_length; lia). rewrite seq_length, seq_nth by lia. lia.
Qed.

Lemma map_seq_shift (f : nat -> nat) s len : map f (seq s len) = map (fun i => f (s + i)) (seq 0 len).
Proof. revert s. induction len as [|len IH]; intros s; [reflexivity|]. cbn [seq map]. rewrite Nat.add_0_r. f_equal. rewrite IH, <- seq_shift, map_map. apply map_ext. intros i. f_equal. lia. Qed.

Lemma map_id_seq (f : nat -> nat) s len : (forall i, i < len -> f (s + i) = s + i) -> map f (seq s len) = seq s len.
Proof.
  revert s. induction len as [|len IH]; intros s H; [reflexivity|]. cbn [seq map]. f_equal; [specialize (H 0 ltac:(lia)); now rewrite Nat.add_0_r in H|].
  apply IH. intros i Hi. specialize (H (S i) ltac:(lia)). now rewrite Nat.add_succ_r in H.
Qed.

Definition valid_axis (n : nat) (ax : Z) : Prop := (- Z.of_nat n <= ax < Z.of_nat n)%Z.
Lemma norm_axis_lt n ax : valid_axis n ax -> norm_axis n ax < n.
Proof. unfold valid_axis, norm_axis. intros H. destruct (Z.ltb_spec ax 0); lia. Qed.

(* nn.scan: transpose_from_front undoes transpose_to_front *)
Theorem from_front_after_to_front n ax : valid_axis n ax ->
  compose_perm (to_front_perm n ax) (from_front_perm n ax) = seq 0 n.
Proof.
  intros V. pose proof (norm_axis_lt n ax V) as Ha. unfold compose_perm, to_front_perm, from_front_perm.
  set (a := norm_axis n ax) in *. rewrite !map_app. cbn [map nth].
  rewrite (seq_split3 n a Ha).
  f_equal; [|f_equal].
  - rewrite (map_seq_shift _ 1 a). cbn [Nat.add nth]. apply map_id_seq. intros i Hi. cbn [Nat.add].
    rewrite nth_without by lia. destruct (Nat.ltb_spec i a); lia.
  - rewrite (map_seq_shift _ (a + 1)). rewrite (map_seq_shift (fun i => i) (a + 1)) at 1 || idtac.
    transitivity (map (fun i => a + 1 + i) (seq 0 (n - a - 1))).
    + apply map_ext_in. intros i Hi. apply in_seq in Hi. replace (a + 1 + i) with (S (a + i)) by lia. cbn [nth].
      rewrite nth_without by lia. destruct (Nat.ltb_spec (a + i) a); lia.
    + rewrite <- (map_seq_shift (fun i => i)). apply map_id.
Qed.

(* the same on shapes: two transpositions compose, and the pair gives back the shape *)
Lemma transpose_compose s p1 p2 : Forall (fun i => i < length p1) p2 ->
  transpose_shape (transpose_shape s p1) p2 = transpose_shape s (compose_perm p1 p2).
Proof.
  intros H. unfold transpose_shape, compose_perm. rewrite map_map. apply map_ext_in. intros i Hi.
  rewrite Forall_forall in H. specialize (H _ Hi).
  rewrite (nth_indep _ 0 ((fun j => nth j s 0) 0)) by (now rewrite map_length). apply (map_nth (fun j => nth j s 0)).
Qed.

Lemma transpose_id s : transpose_shape s (seq 0 (length s)) = s.
Proof.
  unfold transpose_shape. induction s as [|x r IH] using rev_ind; [reflexivity|].
  rewrite app_length. cbn [length]. rewrite Nat.add_1_r, seq_S, map_app. cbn [map Nat.add].
  rewrite app_nth2, Nat.sub_diag by lia. cbn [nth]. f_equal.
  rewrite <- IH at 2. apply map_ext_in. intros i Hi. apply in_seq in Hi. apply app_nth1. lia.
Qed.

Lemma from_front_in_range n ax : valid_axis n ax -> Forall (fun i => i < length (to_front_perm n ax)) (from_front_perm n ax).
Proof.
  intros V. pose proof (norm_axis_lt n ax V) as Ha. unfold to_front_perm, from_front_perm. set (a := norm_axis n ax) in *.
  cbn [length]. rewrite without_split, app_length, !seq_length by exact Ha.
  rewrite !Forall_app. repeat split; try (apply Forall_forall; intros i Hi; apply in_seq in Hi; lia). constructor; [lia|constructor].
Qed.

Theorem scan_axes_roundtrip s ax : valid_axis (length s) ax ->
  transpose_shape (transpose_shape s (to_front_perm (length s) ax)) (from_front_perm (length s) ax) = s.
Proof.
  intros V. rewrite transpose_compose by (now apply from_front_in_range).
  rewrite from_front_after_to_front by exact V. apply transpose_id.
Qed.

(* NNX: jnp.moveaxis(x, axis, 0) and jnp.moveaxis(x, 0, axis) are the same two transpositions *)
Lemma firstn_seq a s len : a <= len -> firstn a (seq s len) = seq s a.
Proof. revert s len. induction a as [|a IH]; intros s len H; [reflexivity|]. destruct len; [lia|]. cbn [seq firstn]. f_equal. apply IH. lia. Qed.
Lemma skipn_seq a s len : a <= len -> skipn a (seq s len) = seq (s + a) (len - a).
Proof.
  revert s len. induction a as [|a IH]; intros s len H; [cbn [skipn]; now rewrite Nat.add_0_r, Nat.sub_0_r|].
  destruct len; [lia|]. cbn [seq skipn]. rewrite IH by lia. f_equal; lia.
Qed.

Theorem moveaxis_to_front n ax : 0 < n -> moveaxis_perm n ax 0 = to_front_perm n ax.
Proof. intros Hn. unfold moveaxis_perm, to_front_perm. replace (norm_axis n 0) with 0 by reflexivity. reflexivity. Qed.

Theorem moveaxis_from_front n ax : valid_axis n ax -> moveaxis_perm n 0 ax = from_front_perm n ax.
Proof.
  intros V. pose proof (norm_axis_lt n ax V) as Ha. unfold moveaxis_perm, from_front_perm.
  replace (norm_axis n 0) with 0 by reflexivity. set (a := norm_axis n ax) in *.
  rewrite without_split by lia. cbn [seq app Nat.add]. rewrite Nat.sub_0_r.
  rewrite firstn_seq, skipn_seq by lia. do 2 f_equal. f_equal; lia.
Qed.

Lemma map_nth_prefix (l r : list nat) : map (fun i => nth i (l ++ r) 0) (seq 0 (length l)) = l.
Proof.
  transitivity (transpose_shape l (seq 0 (length l))); [|apply transpose_id]. unfold transpose_shape. apply map_ext_in. intros i Hi. apply in_seq in Hi. apply app_nth1. lia.
Qed.
Lemma map_nth_suffix (l r : list nat) x : map (fun i => nth i (l ++ [x] ++ r) 0) (seq (length l + 1) (length r)) = r.
Proof.
  transitivity (transpose_shape r (seq 0 (length r))); [|apply transpose_id]. unfold transpose_shape. rewrite (map_seq_shift _ (length l + 1)). apply map_ext_in. intros i Hi. apply in_seq in Hi.
  rewrite app_nth2 by lia. replace (length l + 1 + i - length l) with (S i) by lia. reflexivity.
Qed.

Theorem moveaxis_inverse n ax : valid_axis n ax -> 0 < n -> compose_perm (moveaxis_perm n ax 0) (moveaxis_perm n 0 ax) = seq 0 n.
Proof. intros V Hn. rewrite (moveaxis_to_front n ax Hn), (moveaxis_from_front n ax V). now apply from_front_after_to_front. Qed.

(* moving the scan axis of a stack of L slices of shape s to the front exposes the slices *)
Theorem stack_to_front L s ax : valid_axis (S (length s)) ax ->
  transpose_shape (stack_shape L s ax) (to_front_perm (S (length s)) ax) = L :: s.
Proof.
  intros V. pose proof (norm_axis_lt _ ax V) as Ha. unfold stack_shape, to_front_perm, transpose_shape.
  set (a := norm_axis (S (length s)) ax) in *. cbn [map].
  assert (E : length (firstn a s) = a) by (rewrite firstn_length; lia).
  assert (E2 : length (skipn a s) = S (length s) - a - 1) by (rewrite skipn_length; lia).
  f_equal.
  - rewrite <- E at 1. apply nth_middle.
  - rewrite without_split by exact Ha. rewrite map_app.
    transitivity (firstn a s ++ skipn a s); [|apply firstn_skipn]. f_equal.
    + pose proof (map_nth_prefix (firstn a s) ([L] ++ skipn a s)) as Q. rewrite E in Q. exact Q.
    + pose proof (map_nth_suffix (firstn a s) (skipn a s) L) as Q. rewrite E, E2 in Q. exact Q.
Qed.
