From Coq Require Import Lia Permutation.
From Flaxm Require Import Lib.Harness Model.Frozen.

Ltac destr H :=
  match type of H with
  | context[match ?x with _ => _ end] => destruct x eqn:?; try discriminate
  | context[let (_, _) := ?x in _] => destruct x eqn:?
  end.
Ltac inv H := inversion H; subst; clear H.

Definition ext (h h' : heap) : Prop := exists e, h' = h ++ e.
Lemma ext_refl h : ext h h.  Proof. exists []. now rewrite app_nil_r. Qed.
Lemma ext_trans a b c : ext a b -> ext b c -> ext a c.
Proof. intros [e1 ->] [e2 ->]. exists (e1 ++ e2). now rewrite app_assoc. Qed.
Lemma ext_alloc h b c : ext h (fst (alloc h b c)).  Proof. exists [(b, c)]. reflexivity. Qed.
Lemma ext_nth h h' l x : ext h h' -> nth_error h l = Some x -> nth_error h' l = Some x.
Proof. intros [e ->] H. rewrite nth_error_app1; [exact H|]. apply nth_error_Some. congruence. Qed.
Lemma ext_length h h' : ext h h' -> length h <= length h'.
Proof. intros [e ->]. rewrite app_length. lia. Qed.

Definition flag_of (h : heap) (n : loc) : option bool := option_map fst (nth_error h n).

(* what a value stored in a cell with flag b may be *)
Definition ok_val (h : heap) (b : bool) (v : dval) : Prop :=
  match v with
  | DLeaf _ => True
  | DDict n => flag_of h n = Some b
  | DFrozen n => b = false /\ flag_of h n = Some true
  end.
Definition wfv (h : heap) (v : dval) : Prop :=
  match v with
  | DLeaf _ => True
  | DDict n => n < length h
  | DFrozen n => flag_of h n = Some true
  end.
(* private cells hold leaves and private dicts only; public cells hold leaves, public dicts and FrozenDict
   objects; no plain-dict reference ever points into the inside of a FrozenDict *)
Definition Inv (h : heap) : Prop :=
  forall l b c, nth_error h l = Some (b, c) -> Forall (fun kv => ok_val h b (snd kv)) c.

Lemma flag_of_ext h h' n b : ext h h' -> flag_of h n = Some b -> flag_of h' n = Some b.
Proof. unfold flag_of. intros E H. destruct (nth_error h n) eqn:En; [|discriminate]. now rewrite (ext_nth _ _ _ _ E En). Qed.
Lemma ok_val_ext h h' b v : ext h h' -> ok_val h b v -> ok_val h' b v.
Proof. intros E. destruct v; simpl; auto; [apply flag_of_ext; auto|]. intros [? ?]; split; auto. eapply flag_of_ext; eauto. Qed.
Lemma wfv_ext h h' v : ext h h' -> wfv h v -> wfv h' v.
Proof. intros E. destruct v; simpl; auto; [pose proof (ext_length _ _ E); lia|apply flag_of_ext; auto]. Qed.
Lemma flag_of_lt h n b : flag_of h n = Some b -> n < length h.
Proof. unfold flag_of. intros H. apply nth_error_Some. destruct (nth_error h n); [discriminate|discriminate]. Qed.
Lemma ok_val_wfv h b v : ok_val h b v -> wfv h v.
Proof. destruct v; simpl; auto; [apply flag_of_lt|tauto]. Qed.
Lemma Forall_ok_ext h h' b (c : cell) : ext h h' ->
  Forall (fun kv => ok_val h b (snd kv)) c -> Forall (fun kv => ok_val h' b (snd kv)) c.
Proof. intros E. apply Forall_impl. intros kv. now apply ok_val_ext. Qed.

Lemma flag_of_new h b c : flag_of (h ++ [(b, c)]) (length h) = Some b.
Proof. unfold flag_of. rewrite nth_error_app2 by lia. now rewrite Nat.sub_diag. Qed.

Lemma inv_alloc h b c : Inv h -> Forall (fun kv => ok_val (h ++ [(b, c)]) b (snd kv)) c -> Inv (h ++ [(b, c)]).
Proof.
  intros I Hc l b' c' Hn. destruct (Nat.lt_ge_cases l (length h)) as [Hl|Hl].
  - rewrite nth_error_app1 in Hn by exact Hl. eapply Forall_ok_ext; [exists [(b, c)]; reflexivity|]. eapply I; eauto.
  - rewrite nth_error_app2 in Hn by exact Hl. destruct (l - length h) as [|k] eqn:E; simpl in Hn; [inv Hn; exact Hc|].
    destruct k; discriminate.
Qed.

Lemma nth_set_nth {A} l (x : A) h j : nth_error (set_nth l x h) j = if Nat.eqb j l then (if Nat.ltb l (length h) then Some x else None) else nth_error h j.
Proof.
  revert l j; induction h as [|y r IH]; intros l j; simpl.
  - destruct (Nat.eqb j l); destruct j; reflexivity.
  - destruct l as [|l]; destruct j as [|j]; simpl; try reflexivity. rewrite IH.
    change (Nat.ltb (S l) (S (length r))) with (Nat.ltb l (length r)). reflexivity.
Qed.
Lemma set_nth_length {A} l (x : A) h : length (set_nth l x h) = length h.
Proof. revert l; induction h as [|y r IH]; intros [|l]; simpl; auto. Qed.

Lemma flag_of_set h l c n : flag_of h l = Some false -> flag_of (set_nth l (false, c) h) n = flag_of h n.
Proof.
  unfold flag_of. intros Hl. rewrite nth_set_nth. destruct (Nat.eqb_spec n l) as [->|Hn]; [|reflexivity].
  pose proof (flag_of_lt _ _ _ Hl) as Hlt. apply Nat.ltb_lt in Hlt. rewrite Hlt. simpl. symmetry. exact Hl.
Qed.
Lemma ok_val_set h l c b v : flag_of h l = Some false -> ok_val h b v -> ok_val (set_nth l (false, c) h) b v.
Proof. intros Hl. destruct v; simpl; auto; rewrite flag_of_set; auto. Qed.
Lemma inv_set h l c : Inv h -> flag_of h l = Some false ->
  Forall (fun kv => ok_val h false (snd kv)) c -> Inv (set_nth l (false, c) h).
Proof.
  intros I Hl Hc j b c' Hn. rewrite nth_set_nth in Hn. destruct (Nat.eqb j l).
  - destruct (Nat.ltb l (length h)); [|discriminate]. inv Hn. eapply Forall_impl; [|exact Hc]. intros kv. now apply ok_val_set.
  - eapply Forall_impl; [|eapply I; eauto]. intros kv. now apply ok_val_set.
Qed.

Lemma get_cell_inv h l c : Inv h -> get_cell h l = Some c -> exists b, nth_error h l = Some (b, c) /\ Forall (fun kv => ok_val h b (snd kv)) c.
Proof.
  unfold get_cell. intros I H. destruct (nth_error h l) as [[b c']|] eqn:E; [|discriminate]. inv H. exists b. split; [reflexivity|]. eapply I; eauto.
Qed.

(* ---- generic: threading a heap-extending function through a cell ---- *)
Section MapCell.
  Variable rec : heap -> dval -> option (heap * dval).
  Variable pre : heap -> dval -> Prop.
  Variable post : heap -> dval -> dval -> Prop.   (* heap after, input, output *)
  Hypothesis pre_ext : forall h h' v, ext h h' -> pre h v -> pre h' v.
  Hypothesis post_ext : forall h h' v v', ext h h' -> post h v v' -> post h' v v'.
  Hypothesis rec_ok : forall h v h' v', Inv h -> pre h v -> rec h v = Some (h', v') -> ext h h' /\ Inv h' /\ post h' v v'.

  Lemma map_cell_ok : forall c h h' c', Inv h -> Forall (fun kv => pre h (snd kv)) c ->
    map_cell rec c h = Some (h', c') ->
    ext h h' /\ Inv h' /\ Forall2 (fun kv kv' => fst kv = fst kv' /\ post h' (snd kv) (snd kv')) c c'.
  Proof.
    induction c as [|[k x] r IH]; intros h h' c' I HF H; simpl in H.
    - inv H. repeat split; auto using ext_refl.
    - inversion HF as [|? ? H1 H2]; subst. simpl in H1. destruct (rec h x) as [[h1 x']|] eqn:E1; [|discriminate].
      destruct (map_cell rec r h1) as [[h2 r']|] eqn:E2; [|discriminate]. inv H.
      destruct (rec_ok _ _ _ _ I H1 E1) as (X1 & I1 & P1).
      destruct (IH _ _ _ I1 (Forall_impl _ (fun kv => pre_ext _ _ (snd kv) X1) H2) E2) as (X2 & I2 & P2).
      split; [eapply ext_trans; eauto|]. split; [exact I2|].
      constructor; [split; [reflexivity|eapply post_ext; eauto]|exact P2].
  Qed.
End MapCell.

Lemma Forall2_post_ok {h b} {c c' : cell} (P : dval -> dval -> Prop) :
  (forall v v', P v v' -> ok_val h b v') ->
  Forall2 (fun kv kv' => fst kv = fst kv' /\ P (snd kv) (snd kv')) c c' -> Forall (fun kv => ok_val h b (snd kv)) c'.
Proof. intros HP F. induction F as [|x y l l' [_ Hxy] _ IH]; constructor; eauto. Qed.

(* ---- _prepare_freeze ---- *)
Lemma prep_ok : forall fuel h v h' v', Inv h -> wfv h v -> prep fuel h v = Some (h', v') ->
  ext h h' /\ Inv h' /\ ok_val h' true v'.
Proof.
  induction fuel as [|f IH]; intros h v h' v' I W H; [discriminate|]. cbn [prep] in H.
  destruct v as [a|l|l].
  - inv H. split; [apply ext_refl|]. split; [exact I|exact Logic.I].
  - destruct (get_cell h l) as [c|] eqn:Ec; [|discriminate].
    destruct (map_cell (prep f) c h) as [[h1 c1]|] eqn:Em; [|discriminate]. cbn in H. inv H.
    destruct (get_cell_inv _ _ _ I Ec) as (b & _ & Hc).
    assert (Hpre : Forall (fun kv => wfv h (snd kv)) c) by (eapply Forall_impl; [|exact Hc]; intros kv; apply ok_val_wfv).
    destruct (map_cell_ok (prep f) wfv (fun h _ v' => ok_val h true v') wfv_ext
               (fun h h' _ v' E P => ok_val_ext h h' true v' E P) (fun h v h' v' => IH h v h' v') c h h1 c1 I Hpre Em) as (X & I1 & P).
    assert (Hc1 : Forall (fun kv => ok_val h1 true (snd kv)) c1) by (eapply (Forall2_post_ok (fun _ v' => ok_val h1 true v')); [auto|exact P]).
    split; [|split].
    + eapply ext_trans; [exact X|]. exists [(true, c1)]. reflexivity.
    + apply inv_alloc; [exact I1|]. eapply Forall_ok_ext; [|exact Hc1]. exists [(true, c1)]. reflexivity.
    + simpl. apply flag_of_new.
  - inv H. split; [apply ext_refl|]. split; [exact I|exact W].
Qed.

(* ---- tree_map copy ---- *)
Definition tcopy_post (priv : bool) (h' : heap) (v v' : dval) : Prop :=
  match v with
  | DLeaf a => v' = DLeaf a
  | DDict _ => exists n, v' = DDict n /\ flag_of h' n = Some priv
  | DFrozen _ => exists n, v' = DFrozen n /\ flag_of h' n = Some true
  end.
(* copying in a private context only ever visits private cells *)
Definition tcopy_pre (priv : bool) (h : heap) (v : dval) : Prop :=
  wfv h v /\ (priv = true -> match v with DDict n => flag_of h n = Some true | DFrozen _ => False | DLeaf _ => True end).

Lemma tcopy_post_ext priv h h' v v' : ext h h' -> tcopy_post priv h v v' -> tcopy_post priv h' v v'.
Proof. intros E. destruct v; simpl; auto; intros (n & -> & F); exists n; split; auto; eapply flag_of_ext; eauto. Qed.
Lemma tcopy_pre_ext priv h h' v : ext h h' -> tcopy_pre priv h v -> tcopy_pre priv h' v.
Proof. intros E [W P]. split; [eapply wfv_ext; eauto|]. intros Hp. specialize (P Hp). destruct v; auto. eapply flag_of_ext; eauto. Qed.

Lemma tcopy_ok : forall fuel priv h v h' v', Inv h -> tcopy_pre priv h v -> tcopy fuel priv h v = Some (h', v') ->
  ext h h' /\ Inv h' /\ tcopy_post priv h' v v'.
Proof.
  induction fuel as [|f IH]; intros priv h v h' v' I [W P] H; [discriminate|]. cbn [tcopy] in H.
  destruct v as [a|l|l].
  - inv H. split; [apply ext_refl|]. split; [exact I|reflexivity].
  - destruct (get_cell h l) as [c|] eqn:Ec; [|discriminate].
    destruct (map_cell (tcopy f priv) c h) as [[h1 c1]|] eqn:Em; [|discriminate]. cbn in H. inv H.
    destruct (get_cell_inv _ _ _ I Ec) as (b & Hn & Hc).
    assert (Hpre : Forall (fun kv => tcopy_pre priv h (snd kv)) c).
    { eapply Forall_impl; [|exact Hc]. intros [k x] Hx. simpl in *. split; [eapply ok_val_wfv; eauto|].
      intros ->. specialize (P eq_refl). simpl in P. unfold flag_of in P. rewrite Hn in P. inv P.
      destruct x; simpl in *; auto. destruct Hx; discriminate. }
    destruct (map_cell_ok (tcopy f priv) (tcopy_pre priv) (tcopy_post priv) (tcopy_pre_ext priv) (tcopy_post_ext priv)
               (fun h v h' v' => IH priv h v h' v') c h h1 c1 I Hpre Em) as (X & I1 & PP).
    assert (Hc1 : Forall (fun kv => ok_val h1 priv (snd kv)) c1).
    { clear -PP Hc Hpre. induction PP as [|[k x] [k' x'] r r' [_ Hp] _ IHr]; constructor.
      - simpl in *. inversion Hpre as [|? ? H1 H2]; subst. destruct H1 as [_ Q]. simpl in Q. destruct x; simpl in Hp.
        + subst. exact I.
        + destruct Hp as (n & -> & F). exact F.
        + destruct Hp as (n & -> & F). simpl. split; [|exact F]. destruct priv; [exfalso; now apply Q|reflexivity].
      - inversion Hc; subst. inversion Hpre; subst. apply IHr; assumption. }
    split; [|split].
    + eapply ext_trans; [exact X|]. exists [(priv, c1)]. reflexivity.
    + apply inv_alloc; [exact I1|]. eapply Forall_ok_ext; [|exact Hc1]. exists [(priv, c1)]. reflexivity.
    + exists (length h1). split; [reflexivity|apply flag_of_new].
  - destruct (get_cell h l) as [c|] eqn:Ec; [|discriminate].
    destruct (map_cell (tcopy f true) c h) as [[h1 c1]|] eqn:Em; [|discriminate]. cbn in H. inv H.
    destruct (get_cell_inv _ _ _ I Ec) as (b & Hn & Hc).
    simpl in W. unfold flag_of in W. rewrite Hn in W. inv W.
    assert (Hpre : Forall (fun kv => tcopy_pre true h (snd kv)) c).
    { eapply Forall_impl; [|exact Hc]. intros [k x] Hx. simpl in *. split; [eapply ok_val_wfv; eauto|].
      intros _. destruct x; simpl in *; auto. destruct Hx; discriminate. }
    destruct (map_cell_ok (tcopy f true) (tcopy_pre true) (tcopy_post true) (tcopy_pre_ext true) (tcopy_post_ext true)
               (fun h v h' v' => IH true h v h' v') c h h1 c1 I Hpre Em) as (X & I1 & PP).
    assert (Hc1 : Forall (fun kv => ok_val h1 true (snd kv)) c1).
    { clear -PP Hpre. induction PP as [|[k x] [k' x'] r r' [_ Hp] _ IHr]; constructor.
      - simpl in *. inversion Hpre as [|? ? H1 H2]; subst. destruct H1 as [_ Q]. specialize (Q eq_refl). destruct x; simpl in Hp.
        + subst. exact I.
        + destruct Hp as (n & -> & F). exact F.
        + contradiction.
      - inversion Hpre; subst. apply IHr; assumption. }
    split; [|split].
    + eapply ext_trans; [exact X|]. exists [(true, c1)]. reflexivity.
    + apply inv_alloc; [exact I1|]. eapply Forall_ok_ext; [|exact Hc1]. exists [(true, c1)]. reflexivity.
    + exists (length h1). split; [reflexivity|apply flag_of_new].
Qed.

(* ---- unfreeze ---- *)
Lemma unfreeze_ok : forall fuel h v h' v', Inv h -> wfv h v -> unfreeze fuel h v = Some (h', v') ->
  ext h h' /\ Inv h' /\ ok_val h' false v'.
Proof.
  induction fuel as [|f IH]; intros h v h' v' I W H; [discriminate|]. cbn [unfreeze] in H.
  destruct v as [a|l|l].
  - inv H. split; [apply ext_refl|]. split; [exact I|exact Logic.I].
  - destruct (get_cell h l) as [c|] eqn:Ec; [|discriminate].
    destruct (map_cell (unfreeze f) c h) as [[h1 c1]|] eqn:Em; [|discriminate]. cbn in H. inv H.
    destruct (get_cell_inv _ _ _ I Ec) as (b & _ & Hc).
    assert (Hpre : Forall (fun kv => wfv h (snd kv)) c) by (eapply Forall_impl; [|exact Hc]; intros kv; apply ok_val_wfv).
    destruct (map_cell_ok (unfreeze f) wfv (fun h _ v' => ok_val h false v') wfv_ext
               (fun h h' _ v' E P => ok_val_ext h h' false v' E P) (fun h v h' v' => IH h v h' v') c h h1 c1 I Hpre Em) as (X & I1 & P).
    assert (Hc1 : Forall (fun kv => ok_val h1 false (snd kv)) c1) by (eapply (Forall2_post_ok (fun _ v' => ok_val h1 false v')); [auto|exact P]).
    split; [|split].
    + eapply ext_trans; [exact X|]. exists [(false, c1)]. reflexivity.
    + apply inv_alloc; [exact I1|]. eapply Forall_ok_ext; [|exact Hc1]. exists [(false, c1)]. reflexivity.
    + simpl. apply flag_of_new.
  - assert (P : tcopy_pre false h (DDict l)) by (split; [simpl; eapply flag_of_lt; exact W|discriminate]).
    destruct (tcopy_ok f false h (DDict l) h' v' I P H) as (X & I1 & (n & -> & F)).
    split; [exact X|]. split; [exact I1|exact F].
Qed.

Lemma cassoc_in k c v : cassoc k c = Some v -> In (k, v) c.
Proof.
  induction c as [|[k' x] r IH]; simpl; [discriminate|]. destruct (N.eqb_spec k k') as [->|Hn]; intros H.
  - inv H. now left.
  - right. now apply IH.
Qed.

Lemma get_cell_flag h l c b : get_cell h l = Some c -> flag_of h l = Some b -> nth_error h l = Some (b, c).
Proof. unfold get_cell, flag_of. destruct (nth_error h l) as [[b' c']|]; simpl; intros H1 H2; [|discriminate]. now inv H1; inv H2. Qed.

(* ---- FrozenDict.__getitem__ ---- *)
Lemma fd_get_ok fuel h l k h' v : Inv h -> flag_of h l = Some true -> fd_get fuel h l k = Some (h', v) ->
  ext h h' /\ Inv h' /\ ok_val h' false v.
Proof.
  intros I F H. unfold fd_get in H. destruct (get_cell h l) as [c|] eqn:Ec; [|discriminate].
  pose proof (get_cell_flag _ _ _ _ Ec F) as Hn. pose proof (I _ _ _ Hn) as Hc. rewrite Forall_forall in Hc.
  destruct (cassoc k c) as [x|] eqn:Ek; [|discriminate]. specialize (Hc _ (cassoc_in _ _ _ Ek)). simpl in Hc.
  destruct x as [a|n|n].
  - inv H. split; [apply ext_refl|]. split; [exact I|exact Logic.I].
  - destruct (prep fuel h (DDict n)) as [[h1 [a|m|m]]|] eqn:Ep; try discriminate. inv H.
    assert (W : wfv h (DDict n)) by (simpl; eapply flag_of_lt; exact Hc).
    destruct (prep_ok _ _ _ _ _ I W Ep) as (X & I1 & O). split; [exact X|]. split; [exact I1|]. simpl. split; [reflexivity|exact O].
  - destruct Hc; discriminate.
Qed.

Lemma fd_items_ok fuel l : forall ks h h' c', Inv h -> flag_of h l = Some true -> fd_items fuel h l ks = Some (h', c') ->
  ext h h' /\ Inv h' /\ Forall (fun kv => ok_val h' false (snd kv)) c'.
Proof.
  induction ks as [|k r IH]; intros h h' c' I F H; simpl in H.
  - inv H. split; [apply ext_refl|]. split; [exact I|constructor].
  - destruct (fd_get fuel h l k) as [[h1 v]|] eqn:Eg; [|discriminate].
    destruct (fd_items fuel h1 l r) as [[h2 c]|] eqn:Ei; [|discriminate]. inv H.
    destruct (fd_get_ok _ _ _ _ _ _ I F Eg) as (X1 & I1 & O1).
    destruct (IH _ _ _ I1 (flag_of_ext _ _ _ _ X1 F) Ei) as (X2 & I2 & O2).
    split; [eapply ext_trans; eauto|]. split; [exact I2|]. constructor; [eapply ok_val_ext; eauto|exact O2].
Qed.

(* ---- FrozenDict(x) ---- *)
Lemma frozen_of_cell fuel h c h' r : Inv h -> Forall (fun kv => ok_val h false (snd kv)) c ->
  (let (h1, t) := alloc h false c in
   match prep fuel h1 (DDict t) with Some (h2, DDict n) => Some (h2, DFrozen n) | _ => None end) = Some (h', r) ->
  ext h h' /\ Inv h' /\ exists n, r = DFrozen n /\ flag_of h' n = Some true.
Proof.
  intros I Hc H. cbn [alloc] in H.
  assert (I1 : Inv (h ++ [(false, c)])) by (apply inv_alloc; [exact I|]; eapply Forall_ok_ext; [|exact Hc]; exists [(false, c)]; reflexivity).
  match type of H with context[prep ?a ?b ?d] => destruct (prep a b d) as [[h2 [a'|n|n]]|] eqn:Ep; try discriminate end. inv H.
  assert (W : wfv (h ++ [(false, c)]) (DDict (length h))) by (simpl; rewrite app_length; simpl; lia).
  destruct (prep_ok _ _ _ _ _ I1 W Ep) as (X & I2 & O).
  split; [eapply ext_trans; [exists [(false, c)]; reflexivity|exact X]|]. split; [exact I2|]. exists n. split; [reflexivity|exact O].
Qed.

Lemma mk_frozen_ok fuel h v h' r : Inv h -> ok_val h false v -> mk_frozen fuel h v = Some (h', r) ->
  ext h h' /\ Inv h' /\ exists n, r = DFrozen n /\ flag_of h' n = Some true.
Proof.
  intros I O H. unfold mk_frozen in H. destruct v as [a|l|l]; [discriminate| |].
  - destruct (get_cell h l) as [c|] eqn:Ec; [|discriminate]. simpl in O.
    pose proof (get_cell_flag _ _ _ _ Ec O) as Hn. exact (frozen_of_cell fuel h c h' r I (I _ _ _ Hn) H).
  - destruct (get_cell h l) as [c|] eqn:Ec; [|discriminate]. destruct O as [_ F].
    destruct (fd_items fuel h l (map fst c)) as [[h1 c']|] eqn:Ei; [|discriminate].
    destruct (fd_items_ok _ _ _ _ _ _ I F Ei) as (X1 & I1 & O1).
    destruct (frozen_of_cell fuel h1 c' h' r I1 O1 H) as (X2 & I2 & R). split; [eapply ext_trans; eauto|]. split; [exact I2|exact R].
Qed.

Lemma cset_ok h b k v c : ok_val h b v -> Forall (fun kv => ok_val h b (snd kv)) c -> Forall (fun kv => ok_val h b (snd kv)) (cset k v c).
Proof.
  intros Hv. induction c as [|[k' x] r IH]; intros Hc; simpl; [constructor; [exact Hv|constructor]|].
  inversion Hc as [|? ? H1 H2]; subst. destruct (N.eqb k k'); constructor; auto.
Qed.
Lemma cupdate_ok h b e : forall c, Forall (fun kv => ok_val h b (snd kv)) e -> Forall (fun kv => ok_val h b (snd kv)) c ->
  Forall (fun kv => ok_val h b (snd kv)) (cupdate c e).
Proof.
  induction e as [|[k v] r IH]; intros c He Hc; simpl; [exact Hc|]. inversion He as [|? ? H1 H2]; subst.
  apply IH; [exact H2|]. now apply cset_ok.
Qed.
Lemma cdel_ok h b k c : Forall (fun kv => ok_val h b (snd kv)) c -> Forall (fun kv => ok_val h b (snd kv)) (cdel k c).
Proof.
  induction c as [|[k' x] r IH]; intros Hc; simpl; [constructor|]. inversion Hc as [|? ? H1 H2]; subst.
  destruct (N.eqb k k'); [exact H2|constructor; auto].
Qed.

Lemma get_cell_ok h l c b : Inv h -> get_cell h l = Some c -> flag_of h l = Some b -> Forall (fun kv => ok_val h b (snd kv)) c.
Proof. intros I Ec F. exact (I _ _ _ (get_cell_flag _ _ _ _ Ec F)). Qed.

Lemma fd_copy_ok fuel h l add h' r : Inv h -> flag_of h l = Some true -> ok_val h false add ->
  fd_copy fuel h l add = Some (h', r) -> ext h h' /\ Inv h' /\ exists n, r = DFrozen n /\ flag_of h' n = Some true.
Proof.
  intros I F O H. unfold fd_copy in H. destruct (get_cell h l) as [c|] eqn:Ec; [|discriminate].
  destruct (fd_items fuel h l (map fst c)) as [[h1 c1]|] eqn:Ei; [|discriminate].
  destruct (fd_items_ok _ _ _ _ _ _ I F Ei) as (X1 & I1 & O1).
  destruct (unfreeze fuel h1 add) as [[h2 [a|a|a]]|] eqn:Eu; try discriminate.
  destruct (unfreeze_ok _ _ _ _ _ I1 (ok_val_wfv _ _ _ (ok_val_ext _ _ _ _ X1 O)) Eu) as (X2 & I2 & O2). simpl in O2.
  destruct (get_cell h2 a) as [ca|] eqn:Ea; [|discriminate]. cbn [alloc] in H.
  pose proof (get_cell_ok _ _ _ _ I2 Ea O2) as Hca.
  assert (Hcu : Forall (fun kv => ok_val h2 false (snd kv)) (cupdate c1 ca)).
  { apply cupdate_ok; [exact Hca|]. eapply Forall_ok_ext; eauto. }
  set (h3 := h2 ++ [(false, cupdate c1 ca)]) in *.
  assert (I3 : Inv h3) by (apply inv_alloc; [exact I2|]; eapply Forall_ok_ext; [|exact Hcu]; exists [(false, cupdate c1 ca)]; reflexivity).
  assert (O3 : ok_val h3 false (DDict (length h2))) by (simpl; apply flag_of_new).
  destruct (mk_frozen_ok _ _ _ _ _ I3 O3 H) as (X4 & I4 & R).
  split; [|split; [exact I4|exact R]].
  eapply ext_trans; [exact X1|]. eapply ext_trans; [exact X2|]. eapply ext_trans; [|exact X4]. exists [(false, cupdate c1 ca)]. reflexivity.
Qed.

Lemma fd_pop_ok fuel h l k h' r v : Inv h -> flag_of h l = Some true -> fd_pop fuel h l k = Some (h', r, v) ->
  ext h h' /\ Inv h' /\ ok_val h' false v /\ exists n, r = DFrozen n /\ flag_of h' n = Some true.
Proof.
  intros I F H. unfold fd_pop in H. destruct (fd_get fuel h l k) as [[h1 v1]|] eqn:Eg; [|discriminate].
  destruct (fd_get_ok _ _ _ _ _ _ I F Eg) as (X1 & I1 & O1).
  destruct (get_cell h1 l) as [c|] eqn:Ec; [|discriminate]. cbn [alloc] in H.
  pose proof (get_cell_ok _ _ _ _ I1 Ec (flag_of_ext _ _ _ _ X1 F)) as Hc.
  set (h2 := h1 ++ [(true, cdel k c)]) in *.
  assert (I2 : Inv h2) by (apply inv_alloc; [exact I1|]; eapply Forall_ok_ext; [|apply cdel_ok; exact Hc]; exists [(true, cdel k c)]; reflexivity).
  match type of H with context[prep ?a ?b ?d] => destruct (prep a b d) as [[h3 [a'|n|n]]|] eqn:Ep; try discriminate end. inv H.
  assert (W : wfv h2 (DDict (length h1))) by (simpl; unfold h2; rewrite app_length; simpl; lia).
  destruct (prep_ok _ _ _ _ _ I2 W Ep) as (X3 & I3 & O3).
  assert (X : ext h1 h') by (eapply ext_trans; [exists [(true, cdel k c)]; reflexivity|exact X3]).
  split; [eapply ext_trans; eauto|]. split; [exact I3|]. split; [eapply ok_val_ext; eauto|]. exists n. split; [reflexivity|exact O3].
Qed.

(* ---------------- the state machine ---------------- *)
Definition good (s : state) : Prop := Inv (st_heap s) /\ Forall (ok_val (st_heap s) false) (st_reg s).
(* the cells that make up FrozenDicts are never written *)
Definition priv_frame (h h' : heap) : Prop := forall l, flag_of h l = Some true -> nth_error h' l = nth_error h l.

Lemma priv_frame_refl h : priv_frame h h.  Proof. intros l _. reflexivity. Qed.
Lemma priv_frame_trans a b c : priv_frame a b -> priv_frame b c -> priv_frame a c.
Proof.
  intros H1 H2 l F. rewrite <- (H1 l F). apply H2. unfold flag_of in *. now rewrite (H1 l F).
Qed.
Lemma ext_priv_frame h h' : ext h h' -> priv_frame h h'.
Proof.
  intros E l F. unfold flag_of in F. destruct (nth_error h l) eqn:En; [|discriminate]. now apply (ext_nth _ _ _ _ E).
Qed.
Lemma set_priv_frame h l c : flag_of h l = Some false -> priv_frame h (set_nth l (false, c) h).
Proof.
  intros Fl n Fn. rewrite nth_set_nth. destruct (Nat.eqb_spec n l) as [->|]; [congruence|reflexivity].
Qed.

Lemma reg_ext h h' reg : ext h h' -> Forall (ok_val h false) reg -> Forall (ok_val h' false) reg.
Proof. intros E. apply Forall_impl. intros v. now apply ok_val_ext. Qed.

Lemma reg_nth h reg i v : Forall (ok_val h false) reg -> nth_error reg i = Some v -> ok_val h false v.
Proof. intros F H. rewrite Forall_forall in F. apply F. eapply nth_error_In; eauto. Qed.

Local Opaque FUEL.
Theorem step_good s o s' : good s -> step s o = Some s' -> good s' /\ priv_frame (st_heap s) (st_heap s').
Proof.
  destruct s as [h reg]. intros [I R] H. cbn [st_heap st_reg] in *. unfold step, push in H. cbn [st_heap st_reg] in H.
  destruct o.
  - (* ONewDict *) inv H. simpl. split; [split|apply ext_priv_frame; exists [(false, [])]; reflexivity].
    + apply inv_alloc; [exact I|constructor].
    + apply Forall_app. split; [eapply reg_ext; [exists [(false, [])]; reflexivity|exact R]|]. constructor; [|constructor]. simpl. apply flag_of_new.
  - (* ONewLeaf *) inv H. simpl. split; [split; [exact I|]|apply priv_frame_refl]. apply Forall_app. split; [exact R|repeat constructor].
  - (* OFreeze *) destruct (nth_error reg i) as [v|] eqn:Ei; [|discriminate].
    destruct (mk_frozen FUEL h v) as [[h' r]|] eqn:E; [|discriminate]. inv H.
    destruct (mk_frozen_ok _ _ _ _ _ I (reg_nth _ _ _ _ R Ei) E) as (X & I1 & (n & -> & F)).
    split; [split; [exact I1|]|now apply ext_priv_frame]. simpl. apply Forall_app. split; [eapply reg_ext; eauto|]. repeat constructor. exact F.
  - (* OUnfreeze *) destruct (nth_error reg i) as [v|] eqn:Ei; [|discriminate].
    destruct (unfreeze FUEL h v) as [[h' r]|] eqn:E; [|discriminate]. inv H.
    destruct (unfreeze_ok _ _ _ _ _ I (ok_val_wfv _ _ _ (reg_nth _ _ _ _ R Ei)) E) as (X & I1 & O).
    split; [split; [exact I1|]|now apply ext_priv_frame]. simpl. apply Forall_app. split; [eapply reg_ext; eauto|]. repeat constructor. exact O.
  - (* OGet *) destruct (nth_error reg i) as [[a|l|l]|] eqn:Ei; try discriminate.
    + destruct (get_cell h l) as [c|] eqn:Ec; [|discriminate]. destruct (cassoc k c) as [r|] eqn:Ek; [|discriminate]. inv H.
      split; [split; [exact I|]|apply priv_frame_refl]. simpl. apply Forall_app. split; [exact R|]. repeat constructor.
      pose proof (reg_nth _ _ _ _ R Ei) as O. simpl in O. pose proof (get_cell_ok _ _ _ _ I Ec O) as Hc.
      rewrite Forall_forall in Hc. exact (Hc _ (cassoc_in _ _ _ Ek)).
    + destruct (fd_get FUEL h l k) as [[h' r]|] eqn:E; [|discriminate]. inv H.
      destruct (reg_nth _ _ _ _ R Ei) as [_ F].
      destruct (fd_get_ok _ _ _ _ _ _ I F E) as (X & I1 & O).
      split; [split; [exact I1|]|now apply ext_priv_frame]. simpl. apply Forall_app. split; [eapply reg_ext; eauto|]. repeat constructor. exact O.
  - (* OCopy *) destruct (nth_error reg i) as [[a|l|l]|] eqn:Ei; try discriminate.
    destruct (nth_error reg j) as [a|] eqn:Ej; [|discriminate].
    destruct (fd_copy FUEL h l a) as [[h' r]|] eqn:E; [|discriminate]. inv H.
    destruct (reg_nth _ _ _ _ R Ei) as [_ F].
    destruct (fd_copy_ok _ _ _ _ _ _ I F (reg_nth _ _ _ _ R Ej) E) as (X & I1 & (n & -> & Fn)).
    split; [split; [exact I1|]|now apply ext_priv_frame]. simpl. apply Forall_app. split; [eapply reg_ext; eauto|]. repeat constructor. exact Fn.
  - (* OPop *) destruct (nth_error reg i) as [[a|l|l]|] eqn:Ei; try discriminate.
    destruct (fd_pop FUEL h l k) as [[[h' r] v]|] eqn:E; [|discriminate]. inv H.
    destruct (reg_nth _ _ _ _ R Ei) as [_ F].
    destruct (fd_pop_ok _ _ _ _ _ _ _ I F E) as (X & I1 & Ov & (n & -> & Fn)).
    split; [split; [exact I1|]|now apply ext_priv_frame]. simpl. apply Forall_app. split; [eapply reg_ext; eauto|]. repeat constructor; auto.
  - (* OTreeMap *) destruct (nth_error reg i) as [[a|l|l]|] eqn:Ei; try discriminate.
    destruct (tcopy FUEL false h (DFrozen l)) as [[h' r]|] eqn:E; [|discriminate]. inv H.
    destruct (reg_nth _ _ _ _ R Ei) as [_ F].
    assert (P : tcopy_pre false h (DFrozen l)) by (split; [exact F|discriminate]).
    destruct (tcopy_ok _ _ _ _ _ _ I P E) as (X & I1 & (n & -> & Fn)).
    split; [split; [exact I1|]|now apply ext_priv_frame]. simpl. apply Forall_app. split; [eapply reg_ext; eauto|]. repeat constructor. exact Fn.
  - (* OPickle *) destruct (nth_error reg i) as [[a|l|l]|] eqn:Ei; try discriminate.
    destruct (unfreeze FUEL h (DFrozen l)) as [[h1 d]|] eqn:E1; [|discriminate].
    destruct (mk_frozen FUEL h1 d) as [[h2 r]|] eqn:E2; [|discriminate]. inv H.
    destruct (reg_nth _ _ _ _ R Ei) as [_ F].
    destruct (unfreeze_ok _ _ _ _ _ I (F : wfv h (DFrozen l)) E1) as (X1 & I1 & O1).
    destruct (mk_frozen_ok _ _ _ _ _ I1 O1 E2) as (X2 & I2 & (n & -> & Fn)).
    assert (X : ext h h2) by (eapply ext_trans; eauto).
    split; [split; [exact I2|]|now apply ext_priv_frame]. simpl. apply Forall_app. split; [eapply reg_ext; eauto|]. repeat constructor. exact Fn.
  - (* OCopyD *) destruct (nth_error reg i) as [[a|l|l]|] eqn:Ei; try discriminate.
    destruct (nth_error reg j) as [a|] eqn:Ej; [|discriminate].
    destruct (tcopy FUEL false h (DDict l)) as [[h1 [x|n|x]]|] eqn:E1; try discriminate.
    pose proof (reg_nth _ _ _ _ R Ei) as Ol. pose proof (reg_nth _ _ _ _ R Ej) as Oa.
    assert (P : tcopy_pre false h (DDict l)) by (split; [eapply ok_val_wfv; exact Ol|discriminate]).
    destruct (tcopy_ok _ _ _ _ _ _ I P E1) as (X1 & I1 & (n' & En & Fn)). inv En.
    destruct a as [a|la|la]; [discriminate| |].
    + destruct (get_cell h1 la) as [ca|] eqn:Eca; [|discriminate]. destruct (get_cell h1 n') as [cn|] eqn:Ecn; [|discriminate]. inv H.
      simpl in Oa. pose proof (get_cell_ok _ _ _ _ I1 Eca (flag_of_ext _ _ _ _ X1 Oa)) as Hca.
      pose proof (get_cell_ok _ _ _ _ I1 Ecn Fn) as Hcn.
      split; [split|].
      * apply inv_set; [exact I1|exact Fn|]. now apply cupdate_ok.
      * simpl. apply Forall_app. split.
        -- eapply Forall_impl; [|eapply reg_ext; [exact X1|exact R]]. intros v. now apply ok_val_set.
        -- repeat constructor. simpl. rewrite flag_of_set; auto.
      * simpl. eapply priv_frame_trans; [apply ext_priv_frame; exact X1|now apply set_priv_frame].
    + destruct (get_cell h1 la) as [ca|] eqn:Eca; [|discriminate].
      destruct (fd_items FUEL h1 la (map fst ca)) as [[h2 ca']|] eqn:Eit; [|discriminate].
      destruct (get_cell h2 n') as [cn|] eqn:Ecn; [|discriminate]. inv H.
      destruct Oa as [_ Fa].
      destruct (fd_items_ok _ _ _ _ _ _ I1 (flag_of_ext _ _ _ _ X1 Fa) Eit) as (X2 & I2 & Hca).
      pose proof (flag_of_ext _ _ _ _ X2 Fn) as Fn2.
      pose proof (get_cell_ok _ _ _ _ I2 Ecn Fn2) as Hcn.
      assert (X : ext h h2) by (eapply ext_trans; eauto).
      split; [split|].
      * apply inv_set; [exact I2|exact Fn2|]. now apply cupdate_ok.
      * simpl. apply Forall_app. split.
        -- eapply Forall_impl; [|eapply reg_ext; [exact X|exact R]]. intros v. now apply ok_val_set.
        -- repeat constructor. simpl. rewrite flag_of_set; auto.
      * simpl. eapply priv_frame_trans; [apply ext_priv_frame; exact X|now apply set_priv_frame].
  - (* OPopD *) destruct (nth_error reg i) as [[a|l|l]|] eqn:Ei; try discriminate.
    destruct (tcopy FUEL false h (DDict l)) as [[h1 [x|n|x]]|] eqn:E1; try discriminate.
    pose proof (reg_nth _ _ _ _ R Ei) as Ol.
    assert (P : tcopy_pre false h (DDict l)) by (split; [eapply ok_val_wfv; exact Ol|discriminate]).
    destruct (tcopy_ok _ _ _ _ _ _ I P E1) as (X1 & I1 & (n' & En & Fn)). inv En.
    destruct (get_cell h1 n') as [cn|] eqn:Ecn; [|discriminate]. destruct (cassoc k cn) as [v|] eqn:Ek; [|discriminate]. inv H.
    pose proof (get_cell_ok _ _ _ _ I1 Ecn Fn) as Hcn.
    split; [split|].
    * apply inv_set; [exact I1|exact Fn|]. now apply cdel_ok.
    * simpl. apply Forall_app. split.
      -- eapply Forall_impl; [|eapply reg_ext; [exact X1|exact R]]. intros v'. now apply ok_val_set.
      -- constructor; [simpl; rewrite flag_of_set; auto|]. constructor; [|constructor]. apply ok_val_set; [exact Fn|].
         rewrite Forall_forall in Hcn. exact (Hcn _ (cassoc_in _ _ _ Ek)).
    * simpl. eapply priv_frame_trans; [apply ext_priv_frame; exact X1|now apply set_priv_frame].
  - (* OMutSet *) destruct (nth_error reg i) as [[a|l|l]|] eqn:Ei; try discriminate.
    destruct (nth_error reg j) as [v|] eqn:Ej; [|discriminate].
    destruct (is_priv h l) eqn:Ep; [discriminate|]. destruct (get_cell h l) as [c|] eqn:Ec; [|discriminate]. inv H.
    pose proof (reg_nth _ _ _ _ R Ei) as Ol. simpl in Ol. pose proof (reg_nth _ _ _ _ R Ej) as Ov.
    pose proof (get_cell_ok _ _ _ _ I Ec Ol) as Hc.
    split; [split|].
    * apply inv_set; [exact I|exact Ol|]. now apply cset_ok.
    * simpl. eapply Forall_impl; [|exact R]. intros v'. now apply ok_val_set.
    * simpl. now apply set_priv_frame.
  - (* OMutDel *) destruct (nth_error reg i) as [[a|l|l]|] eqn:Ei; try discriminate.
    destruct (is_priv h l) eqn:Ep; [discriminate|]. destruct (get_cell h l) as [c|] eqn:Ec; [|discriminate].
    destruct (cassoc k c) as [x|] eqn:Ek; [|discriminate]. inv H.
    pose proof (reg_nth _ _ _ _ R Ei) as Ol. simpl in Ol.
    pose proof (get_cell_ok _ _ _ _ I Ec Ol) as Hc.
    split; [split|].
    * apply inv_set; [exact I|exact Ol|]. now apply cdel_ok.
    * simpl. eapply Forall_impl; [|exact R]. intros v'. now apply ok_val_set.
    * simpl. now apply set_priv_frame.
Qed.

Lemma good_init : good init.
Proof. split; [intros l b c H; destruct l; discriminate|constructor]. Qed.

Lemma step'_good s o : good s -> good (step' s o) /\ priv_frame (st_heap s) (st_heap (step' s o)).
Proof.
  intros G. unfold step'. destruct (step s o) as [s'|] eqn:E; [exact (step_good _ _ _ G E)|]. split; [exact G|apply priv_frame_refl].
Qed.

Lemma steps_good ops : forall s, good s ->
  good (fold_left step' ops s) /\ priv_frame (st_heap s) (st_heap (fold_left step' ops s)).
Proof.
  induction ops as [|o r IH]; intros s G; simpl; [split; [exact G|apply priv_frame_refl]|].
  destruct (step'_good s o G) as [G1 F1]. destruct (IH _ G1) as [G2 F2]. split; [exact G2|eapply priv_frame_trans; eauto].
Qed.

Theorem run_good ops : good (run ops).
Proof. exact (proj1 (steps_good ops init good_init)). Qed.

Lemma map_opt_ext {A B} (f g : A -> option B) l : (forall x, In x l -> f x = g x) -> map_opt f l = map_opt g l.
Proof.
  induction l as [|x r IH]; intros H; simpl; [reflexivity|]. rewrite (H x (or_introl eq_refl)), IH; [reflexivity|].
  intros y Hy. apply H. now right.
Qed.

(* the content of a FrozenDict is a function of the private cells alone *)
Lemma denote_frame : forall fuel h h' l, Inv h -> priv_frame h h' -> flag_of h l = Some true ->
  denote fuel h' (DFrozen l) = denote fuel h (DFrozen l).
Proof.
  induction fuel as [|f IH]; intros h h' l I P F; [reflexivity|]. cbn [denote].
  unfold get_cell. rewrite (P l F). destruct (nth_error h l) as [[b c]|] eqn:En; [|reflexivity]. cbn [option_map snd].
  f_equal. apply map_opt_ext. intros [k x] Hin. cbn [fst snd]. f_equal.
  assert (b = true) by (unfold flag_of in F; rewrite En in F; now inv F). subst b.
  pose proof (I _ _ _ En) as Hc. rewrite Forall_forall in Hc. specialize (Hc _ Hin). simpl in Hc.
  destruct x as [a|n|n].
  - destruct f; reflexivity.
  - now apply IH.
  - destruct Hc; discriminate.
Qed.

(* MAIN: once a FrozenDict exists, no sequence of API calls and adversarial mutations changes its content *)
Theorem frozen_never_changes ops1 ops2 l :
  flag_of (st_heap (run ops1)) l = Some true ->
  denote FUEL (st_heap (run (ops1 ++ ops2))) (DFrozen l) = denote FUEL (st_heap (run ops1)) (DFrozen l).
Proof.
  intros F. unfold run. rewrite fold_left_app. fold (run ops1).
  destruct (steps_good ops2 (run ops1) (run_good ops1)) as [_ P].
  apply denote_frame; [exact (proj1 (run_good ops1))|exact P|exact F].
Qed.

(* every FrozenDict the test holds is such a private root *)
Theorem held_frozen_is_private ops i l :
  nth_error (st_reg (run ops)) i = Some (DFrozen l) -> flag_of (st_heap (run ops)) l = Some true.
Proof. intros H. destruct (run_good ops) as [_ R]. exact (proj2 (reg_nth _ _ _ _ R H)). Qed.

(* no plain dict the caller holds, or can reach through plain dicts, is the inside of a FrozenDict: the API
   never leaks a private cell, so the guard in OMutSet / OMutDel is never what protects a FrozenDict *)
Theorem no_private_leak ops i l :
  nth_error (st_reg (run ops)) i = Some (DDict l) -> is_priv (st_heap (run ops)) l = false.
Proof.
  intros H. destruct (run_good ops) as [_ R]. pose proof (reg_nth _ _ _ _ R H) as O. simpl in O.
  unfold flag_of in O. unfold is_priv. destruct (nth_error (st_heap (run ops)) l) as [[b c]|]; [now inv O|reflexivity].
Qed.
Theorem public_cells_closed ops l c k n :
  is_priv (st_heap (run ops)) l = false -> get_cell (st_heap (run ops)) l = Some c -> In (k, DDict n) c ->
  is_priv (st_heap (run ops)) n = false.
Proof.
  intros Hp Hc Hin. destruct (run_good ops) as [I _]. unfold get_cell in Hc. unfold is_priv in Hp.
  destruct (nth_error (st_heap (run ops)) l) as [[b c']|] eqn:En; [|discriminate]. inv Hc. subst.
  pose proof (I _ _ _ En) as F. rewrite Forall_forall in F. specialize (F _ Hin). simpl in F.
  unfold flag_of in F. unfold is_priv. destruct (nth_error (st_heap (run ops)) n) as [[b' c'']|]; [now inv F|reflexivity].
Qed.

(* no API operation writes to a FrozenDict's cells (in particular there is no mutating API) *)
Theorem api_never_writes_private s o s' : good s -> step s o = Some s' -> priv_frame (st_heap s) (st_heap s').
Proof. intros G H. exact (proj2 (step_good _ _ _ G H)). Qed.

(* ---- hashing is independent of the iteration order ---- *)
Lemma xor_fold_comm l : forall a b, fold_left N.lxor l (N.lxor a b) = N.lxor (fold_left N.lxor l a) b.
Proof.
  induction l as [|x r IH]; intros a b; simpl; [reflexivity|].
  rewrite <- IH. f_equal. rewrite !N.lxor_assoc. f_equal. apply N.lxor_comm.
Qed.
Theorem xor_hash_perm l1 l2 : Permutation l1 l2 -> xor_hash l1 = xor_hash l2.
Proof.
  unfold xor_hash. intros P. generalize 0%N. induction P; intros a; simpl; auto.
  - f_equal. rewrite !N.lxor_assoc. f_equal. apply N.lxor_comm.
  - now rewrite IHP1, IHP2.
Qed.
